(* Engine D/Config: lemmas behind Props_C17.v.

   Part 1 is about the MODEL of protojson (third-party library: modelled, not
   verified; tied to the real decoder by the differential run only):
     roundtrip_with        of_json_with d (to_json c) = Some c   for the as-is and the documented decoders
     of_json_with_wf       accepted values are in range
     acceptance rules      non-object / unknown member / duplicate member are refused
   Part 2 is about the repo's own logic:
     effective_*           initializeConfig = "0 becomes 1 / 4 / 100, nothing else changes"
     method_table_*        the Go map filled in order = "last entry that lists the name wins"
     run_updates_*         the configuration is fixed by the first (non-refused) resolver update
   Part 3 ties the model to the monitors: a case the model reproduces
   ([accept_case c = None]) satisfies [c17core], and [c17] wherever the two
   decoders agree on the input. *)
From GV Require Import Config.Model Config.Monitors Config.NumProofs.
Open Scope Z_scope.

(* ------------------------------------------------------------ well-formed *)
Definition u32 (x : Z) : Prop := 0 <= x <= max_u32.
Definition u64 (x : Z) : Prop := 0 <= x <= max_u64.

Definition wf_pool (p : Pool) : Prop :=
  u32 (max_size p) /\ u64 (idle_timeout p) /\ u32 (low_watermark p) /\ u32 (min_size p) /\
  u32 (unresp_ms p) /\ u32 (unresp_calls p) /\ i32 (bind_strategy p).

Definition wf_aff (a : Affinity) : Prop := i32 (command a).

Definition wf_method (m : Method) : Prop :=
  match affinity m with Some a => wf_aff a | None => True end.

(* exactly the values the Go types uint32 / uint64 / int32 can hold *)
Definition wf (c : ApiConfig) : Prop :=
  match channel_pool c with Some p => wf_pool p | None => True end /\ Forall wf_method (methods c).

Definition wf_opt (o : option ApiConfig) : Prop :=
  match o with Some c => wf c | None => True end.

(* ------------------------------------------------------------ layouts *)
Lemma pool_layout : forall c0 c1 c2 c3 c4 c5 c6 c7 v0 v1 v2 v3 v4 v5 v6 v7,
  let L := piece n_maxSize c0 v0 ++ piece n_idleTimeout c1 v1 ++
           piece n_maxConcurrentStreamsLowWatermark c2 v2 ++ piece n_minSize c3 v3 ++
           piece n_fallbackToReady c4 v4 ++ piece n_unresponsiveDetectionMs c5 v5 ++
           piece n_unresponsiveCalls c6 v6 ++ piece n_bindPickStrategy c7 v7 in
  keys_ok pool_fid L = true /\
  field pool_fid 0 L = (if c0 then None else Some v0) /\
  field pool_fid 1 L = (if c1 then None else Some v1) /\
  field pool_fid 2 L = (if c2 then None else Some v2) /\
  field pool_fid 3 L = (if c3 then None else Some v3) /\
  field pool_fid 4 L = (if c4 then None else Some v4) /\
  field pool_fid 5 L = (if c5 then None else Some v5) /\
  field pool_fid 6 L = (if c6 then None else Some v6) /\
  field pool_fid 7 L = (if c7 then None else Some v7).
Proof.
  intros. subst L.
  destruct c0, c1, c2, c3, c4, c5, c6, c7; repeat split; reflexivity.
Qed.

Lemma aff_layout : forall c0 c1 v0 v1,
  let L := piece n_command c0 v0 ++ piece n_affinityKey c1 v1 in
  keys_ok aff_fid L = true /\
  field aff_fid 0 L = (if c0 then None else Some v0) /\
  field aff_fid 1 L = (if c1 then None else Some v1).
Proof. intros. subst L. destruct c0, c1; repeat split; reflexivity. Qed.

Definition opt_member (k : str) (o : option json) : list (str * json) :=
  match o with Some j => [(k, j)] | None => [] end.

Lemma method_layout : forall c v o,
  let L := piece n_name c v ++ opt_member n_affinity o in
  keys_ok method_fid L = true /\
  field method_fid 0 L = (if c then None else Some v) /\
  field method_fid 1 L = o.
Proof. intros. subst L. destruct c, o; repeat split; reflexivity. Qed.

Lemma cfg_layout : forall o c v,
  let L := opt_member n_channelPool o ++ piece n_method c v in
  keys_ok cfg_fid L = true /\
  field cfg_fid 0 L = o /\
  field cfg_fid 1 L = (if c then None else Some v).
Proof. intros. subst L. destruct c, o; repeat split; reflexivity. Qed.

Lemma method_to_json_eq : forall m,
  method_to_json m = JObj (piece n_name (is_nil (names m)) (JArr (map JStr (names m))) ++
                           opt_member n_affinity (option_map aff_to_json (affinity m))).
Proof. intros m. unfold method_to_json. destruct (affinity m); reflexivity. Qed.

Lemma to_json_eq : forall c,
  to_json c = JObj (opt_member n_channelPool (option_map pool_to_json (channel_pool c)) ++
                    piece n_method (is_nil (methods c)) (JArr (map method_to_json (methods c)))).
Proof. intros c. unfold to_json. destruct (channel_pool c); reflexivity. Qed.

(* ------------------------------------------------------------ round trip *)
Section Roundtrip.
  Variable d : decoders.
  Hypothesis G : good_decoders d.

  Lemma opt_u32 : forall x, u32 x ->
    opt_field 0 (d_uint d max_u32) (if x =? 0 then None else Some (u32_to_json x)) = Some x.
  Proof.
    intros x H. destruct (x =? 0) eqn:E.
    - apply Z.eqb_eq in E. subst. reflexivity.
    - cbn [opt_field u32_to_json]. apply (gd_num d G); [exact H|]. unfold max_u32, max_u64. lia.
  Qed.

  Lemma opt_u64 : forall x, u64 x ->
    opt_field 0 (d_uint d max_u64) (if x =? 0 then None else Some (u64_to_json x)) = Some x.
  Proof.
    intros x H. destruct (x =? 0) eqn:E.
    - apply Z.eqb_eq in E. subst. reflexivity.
    - cbn [opt_field u64_to_json]. apply (gd_str d G); [exact H|]. lia.
  Qed.

  Lemma opt_bool : forall v,
    opt_field false dec_bool (if negb v then None else Some (JBool true)) = Some v.
  Proof. destruct v; reflexivity. Qed.

  Lemma opt_enum_bind : forall v, i32 v ->
    opt_field 0 (dec_enum d bind_names) (if v =? 0 then None else Some (enum_to_json bind_names v)) = Some v.
  Proof.
    intros v H. destruct (v =? 0) eqn:E0.
    - apply Z.eqb_eq in E0. subst. reflexivity.
    - unfold enum_to_json. cbn [name_of bind_names].
      rewrite (Z.eqb_sym 0 v), E0.
      destruct (1 =? v) eqn:E1. { apply Z.eqb_eq in E1. subst. reflexivity. }
      destruct (2 =? v) eqn:E2. { apply Z.eqb_eq in E2. subst. reflexivity. }
      cbn [opt_field dec_enum]. apply (gd_enum d G). exact H.
  Qed.

  Lemma opt_enum_command : forall v, i32 v ->
    opt_field 0 (dec_enum d command_names) (if v =? 0 then None else Some (enum_to_json command_names v)) = Some v.
  Proof.
    intros v H. destruct (v =? 0) eqn:E0.
    - apply Z.eqb_eq in E0. subst. reflexivity.
    - unfold enum_to_json. cbn [name_of command_names].
      rewrite (Z.eqb_sym 0 v), E0.
      destruct (1 =? v) eqn:E1. { apply Z.eqb_eq in E1. subst. reflexivity. }
      destruct (2 =? v) eqn:E2. { apply Z.eqb_eq in E2. subst. reflexivity. }
      cbn [opt_field dec_enum]. apply (gd_enum d G). exact H.
  Qed.

  Lemma pool_roundtrip : forall p, wf_pool p -> of_pool d (pool_to_json p) = Some p.
  Proof.
    intros p (H0 & H1 & H2 & H3 & H5 & H6 & H7).
    unfold of_pool, pool_to_json.
    destruct (pool_layout (max_size p =? 0) (idle_timeout p =? 0) (low_watermark p =? 0) (min_size p =? 0)
                (negb (fallback_to_ready p)) (unresp_ms p =? 0) (unresp_calls p =? 0) (bind_strategy p =? 0)
                (u32_to_json (max_size p)) (u64_to_json (idle_timeout p)) (u32_to_json (low_watermark p))
                (u32_to_json (min_size p)) (JBool true) (u32_to_json (unresp_ms p)) (u32_to_json (unresp_calls p))
                (enum_to_json bind_names (bind_strategy p)))
      as (K & F0 & F1 & F2 & F3 & F4 & F5 & F6 & F7).
    rewrite K, F0, F1, F2, F3, F4, F5, F6, F7.
    rewrite (opt_u32 _ H0), (opt_u64 _ H1), (opt_u32 _ H2), (opt_u32 _ H3), opt_bool,
            (opt_u32 _ H5), (opt_u32 _ H6), (opt_enum_bind _ H7).
    destruct p; reflexivity.
  Qed.

  Lemma opt_key : forall k, opt_field [] dec_string (if is_nil k then None else Some (JStr k)) = Some k.
  Proof. destruct k; reflexivity. Qed.

  Lemma aff_roundtrip : forall a, wf_aff a -> of_aff d (aff_to_json a) = Some a.
  Proof.
    intros a H. unfold of_aff, aff_to_json.
    destruct (aff_layout (command a =? 0) (is_nil (affinity_key a))
                (enum_to_json command_names (command a)) (JStr (affinity_key a))) as (K & F0 & F1).
    rewrite K, F0, F1, (opt_enum_command _ H), opt_key.
    destruct a; reflexivity.
  Qed.

  Lemma traverse_strings : forall l, traverse dec_string (map JStr l) = Some l.
  Proof. induction l; simpl; auto. rewrite IHl. reflexivity. Qed.

  Lemma opt_names : forall l,
    opt_field [] (dec_list dec_string) (if is_nil l then None else Some (JArr (map JStr l))) = Some l.
  Proof.
    destruct l as [|a l]; [reflexivity|].
    cbn [is_nil opt_field dec_list]. apply traverse_strings.
  Qed.

  Lemma opt_aff : forall o, match o with Some a => wf_aff a | None => True end ->
    opt_field None (some_of (of_aff d)) (option_map aff_to_json o) = Some o.
  Proof.
    intros [a|] H; [|reflexivity].
    change (opt_field None (some_of (of_aff d)) (option_map aff_to_json (Some a)))
      with (some_of (of_aff d) (aff_to_json a)).
    unfold some_of. rewrite (aff_roundtrip a H). reflexivity.
  Qed.

  Lemma method_roundtrip : forall m, wf_method m -> of_method d (method_to_json m) = Some m.
  Proof.
    intros m H. rewrite method_to_json_eq. unfold of_method.
    destruct (method_layout (is_nil (names m)) (JArr (map JStr (names m))) (option_map aff_to_json (affinity m)))
      as (K & F0 & F1).
    rewrite K, F0, F1, opt_names, (opt_aff _ H).
    destruct m; reflexivity.
  Qed.

  Lemma traverse_methods : forall l, Forall wf_method l ->
    traverse (of_method d) (map method_to_json l) = Some l.
  Proof.
    induction l; intros H; cbn [map traverse]; auto.
    inversion H; subst. rewrite (method_roundtrip a H2), (IHl H3). reflexivity.
  Qed.

  Lemma opt_methods : forall l, Forall wf_method l ->
    opt_field [] (dec_list (of_method d)) (if is_nil l then None else Some (JArr (map method_to_json l))) = Some l.
  Proof.
    intros l H. destruct l as [|a l]; [reflexivity|].
    cbn [is_nil opt_field dec_list]. apply traverse_methods. exact H.
  Qed.

  Lemma opt_pool : forall o, match o with Some p => wf_pool p | None => True end ->
    opt_field None (some_of (of_pool d)) (option_map pool_to_json o) = Some o.
  Proof.
    intros [p|] H; [|reflexivity].
    change (opt_field None (some_of (of_pool d)) (option_map pool_to_json (Some p)))
      with (some_of (of_pool d) (pool_to_json p)).
    unfold some_of. rewrite (pool_roundtrip p H). reflexivity.
  Qed.

  Theorem roundtrip_with : forall c, wf c -> of_json_with d (to_json c) = Some c.
  Proof.
    intros c [Hp Hm]. rewrite to_json_eq. unfold of_json_with.
    destruct (cfg_layout (option_map pool_to_json (channel_pool c)) (is_nil (methods c))
                (JArr (map method_to_json (methods c)))) as (K & F0 & F1).
    rewrite K, F0, F1, (opt_pool _ Hp), (opt_methods _ Hm).
    destruct c; reflexivity.
  Qed.

  (* ---- accepted values are in range *)
  Lemma opt_field_inv : forall A (dflt : A) dec o v (P : A -> Prop),
    P dflt -> (forall j w, dec j = Some w -> P w) -> opt_field dflt dec o = Some v -> P v.
  Proof.
    intros A dflt dec o v P Hd Hdec H. unfold opt_field in H.
    destruct o as [j|]; [|inversion H; subst; exact Hd].
    destruct j; try (eapply Hdec; eassumption).
    inversion H; subst; exact Hd.
  Qed.

  Lemma value_of_bind_range : forall s v, value_of bind_names s = Some v -> i32 v.
  Proof.
    intros s v H. unfold i32. cbn [value_of bind_names] in H.
    repeat match type of H with
           | (if ?b then _ else _) = _ => destruct b; [inversion H; subst; lia|]
           end.
    discriminate.
  Qed.

  Lemma value_of_command_range : forall s v, value_of command_names s = Some v -> i32 v.
  Proof.
    intros s v H. unfold i32. cbn [value_of command_names] in H.
    repeat match type of H with
           | (if ?b then _ else _) = _ => destruct b; [inversion H; subst; lia|]
           end.
    discriminate.
  Qed.

  Lemma dec_enum_range : forall tbl, (forall s v, value_of tbl s = Some v -> i32 v) ->
    forall j v, dec_enum d tbl j = Some v -> i32 v.
  Proof.
    intros tbl Ht j v H. unfold dec_enum in H.
    destruct j; try (eapply (gd_enum_range d G); eassumption).
    eapply Ht; eassumption.
  Qed.

  Lemma u32_0 : u32 0. Proof. unfold u32, max_u32. lia. Qed.
  Lemma u64_0 : u64 0. Proof. unfold u64, max_u64. lia. Qed.
  Lemma i32_0 : i32 0. Proof. unfold i32. lia. Qed.

  Lemma d_u32_range : forall j w, d_uint d max_u32 j = Some w -> u32 w.
  Proof. intros j w H. apply (gd_uint_range d G) in H; [exact H|unfold max_u32; lia]. Qed.
  Lemma d_u64_range : forall j w, d_uint d max_u64 j = Some w -> u64 w.
  Proof. intros j w H. apply (gd_uint_range d G) in H; [exact H|unfold max_u64; lia]. Qed.

  Ltac bind_inv H x E :=
    match type of H with
    | bind ?o _ = Some _ => destruct o as [x|] eqn:E; [cbn [bind] in H|discriminate]
    end.

  Lemma of_pool_wf : forall j p, of_pool d j = Some p -> wf_pool p.
  Proof.
    intros j p H. unfold of_pool in H. destruct j; try discriminate.
    destruct (keys_ok pool_fid l); [|discriminate].
    bind_inv H mx E0. bind_inv H it E1. bind_inv H wm E2. bind_inv H mn E3.
    bind_inv H fb E4. bind_inv H ms E5. bind_inv H uc E6. bind_inv H bs E7.
    inversion H; subst. unfold wf_pool. cbn [max_size idle_timeout low_watermark min_size unresp_ms unresp_calls bind_strategy].
    split; [|split; [|split; [|split; [|split; [|split]]]]].
    - eapply (opt_field_inv _ _ _ _ _ u32 u32_0 d_u32_range); eassumption.
    - eapply (opt_field_inv _ _ _ _ _ u64 u64_0 d_u64_range); eassumption.
    - eapply (opt_field_inv _ _ _ _ _ u32 u32_0 d_u32_range); eassumption.
    - eapply (opt_field_inv _ _ _ _ _ u32 u32_0 d_u32_range); eassumption.
    - eapply (opt_field_inv _ _ _ _ _ u32 u32_0 d_u32_range); eassumption.
    - eapply (opt_field_inv _ _ _ _ _ u32 u32_0 d_u32_range); eassumption.
    - eapply (opt_field_inv _ _ _ _ _ i32 i32_0 (dec_enum_range bind_names value_of_bind_range)); eassumption.
  Qed.

  Lemma of_aff_wf : forall j a, of_aff d j = Some a -> wf_aff a.
  Proof.
    intros j a H. unfold of_aff in H. destruct j; try discriminate.
    destruct (keys_ok aff_fid l); [|discriminate].
    bind_inv H c E0. bind_inv H k E1. inversion H; subst. unfold wf_aff. cbn [command].
    eapply (opt_field_inv _ _ _ _ _ i32 i32_0 (dec_enum_range command_names value_of_command_range)); eassumption.
  Qed.

  Lemma of_method_wf : forall j m, of_method d j = Some m -> wf_method m.
  Proof.
    intros j m H. unfold of_method in H. destruct j; try discriminate.
    destruct (keys_ok method_fid l); [|discriminate].
    bind_inv H ns E0. bind_inv H a E1. inversion H; subst. unfold wf_method. cbn [affinity].
    eapply (opt_field_inv (option Affinity) None _ _ _ (fun o => match o with Some a => wf_aff a | None => True end) I); [|eassumption].
    intros j w Hj. unfold some_of in Hj. destruct (of_aff d j) eqn:Ea; [|discriminate].
    cbn [bind] in Hj. inversion Hj; subst. eapply of_aff_wf; eassumption.
  Qed.

  Lemma traverse_wf : forall l ms, traverse (of_method d) l = Some ms -> Forall wf_method ms.
  Proof.
    induction l; intros ms H; simpl in H.
    - inversion H; subst. constructor.
    - destruct (of_method d a) eqn:Ea; [|discriminate]. cbn [bind] in H.
      destruct (traverse (of_method d) l) eqn:Et; [|discriminate]. cbn [bind] in H.
      inversion H; subst. constructor; [eapply of_method_wf; eassumption|apply IHl; reflexivity].
  Qed.

  Theorem of_json_with_wf : forall j c, of_json_with d j = Some c -> wf c.
  Proof.
    intros j c H. unfold of_json_with in H. destruct j; try discriminate.
    destruct (keys_ok cfg_fid l); [|discriminate].
    bind_inv H p E0. bind_inv H ms E1. inversion H; subst. unfold wf. cbn [channel_pool methods]. split.
    - eapply (opt_field_inv (option Pool) None _ _ _ (fun o => match o with Some p => wf_pool p | None => True end) I); [|eassumption].
      intros j w Hj. unfold some_of in Hj. destruct (of_pool d j) eqn:Ep; [|discriminate].
      cbn [bind] in Hj. inversion Hj; subst. eapply of_pool_wf; eassumption.
    - eapply (opt_field_inv (list Method) [] _ _ _ (Forall wf_method) (Forall_nil _)); [|eassumption].
      intros j w Hj. unfold dec_list in Hj. destruct j; try discriminate. eapply traverse_wf; eassumption.
  Qed.

  Theorem of_json_with_sound : forall j c, of_json_with d j = Some c ->
    wf c /\ of_json_with d (to_json c) = Some c.
  Proof.
    intros j c H. pose proof (of_json_with_wf j c H) as W. split; [exact W|]. apply roundtrip_with. exact W.
  Qed.
End Roundtrip.

(* the two decoder sets *)
Theorem parse_render_roundtrip_l : forall c, wf c -> of_json (to_json c) = Some c.
Proof. exact (roundtrip_with lax lax_good). Qed.

Theorem parse_render_roundtrip_strict_l : forall c, wf c -> of_json_strict (to_json c) = Some c.
Proof. exact (roundtrip_with strict strict_good). Qed.

Theorem of_json_sound_l : forall j c, of_json j = Some c -> wf c /\ of_json (to_json c) = Some c.
Proof. exact (of_json_with_sound lax lax_good). Qed.

Theorem of_json_strict_sound_l : forall j c, of_json_strict j = Some c -> wf c /\ of_json_strict (to_json c) = Some c.
Proof. exact (of_json_with_sound strict strict_good). Qed.

(* on canonical renderings the library as it is and the documented mapping agree *)
Theorem lax_strict_agree_on_renderings_l : forall c, wf c -> of_json (to_json c) = of_json_strict (to_json c).
Proof. intros c H. rewrite parse_render_roundtrip_l, parse_render_roundtrip_strict_l; auto. Qed.

(* a present-but-empty sub-message and an absent one are different values and
   stay different through the round trip *)
Lemma empty_pool_is_not_absent :
  of_json (to_json (mkCfg (Some empty_pool) [])) = Some (mkCfg (Some empty_pool) []) /\
  of_json (to_json (mkCfg None [])) = Some (mkCfg None []) /\
  to_json (mkCfg (Some empty_pool) []) <> to_json (mkCfg None []).
Proof. repeat split; try reflexivity. discriminate. Qed.

(* ------------------------------------------------------ acceptance rules *)
Section Rules.
  Variable fid : str -> option nat.

  Lemma field_ids_unknown : forall l k v, In (k, v) l -> fid k = None -> field_ids fid l = None.
  Proof.
    induction l as [|[k0 v0] l]; intros k v Hin Hk; [destruct Hin|].
    simpl. destruct Hin as [E|Hin].
    - inversion E; subst. rewrite Hk. reflexivity.
    - rewrite (IHl k v Hin Hk). destruct (fid k0); reflexivity.
  Qed.

  Lemma keys_ok_unknown : forall l k v, In (k, v) l -> fid k = None -> keys_ok fid l = false.
  Proof. intros. unfold keys_ok. erewrite field_ids_unknown; eauto. Qed.

  Lemma field_ids_app : forall l1 l2 is, field_ids fid (l1 ++ l2) = Some is ->
    exists i1 i2, field_ids fid l1 = Some i1 /\ field_ids fid l2 = Some i2 /\ is = i1 ++ i2.
  Proof.
    induction l1 as [|[k v] l1]; intros l2 is H.
    - exists [], is. auto.
    - simpl in H. destruct (fid k) as [i|] eqn:Ek; [|discriminate].
      destruct (field_ids fid (l1 ++ l2)) as [is'|] eqn:E; [|discriminate].
      inversion H; subst. destruct (IHl1 l2 is' E) as (i1 & i2 & H1 & H2 & H3).
      exists (i :: i1), i2. simpl. rewrite Ek, H1. subst. auto.
  Qed.

  Lemma nodupb_false_app : forall a x b c, nodupb (a ++ x :: b ++ x :: c) = false.
  Proof.
    induction a; intros x b0 c; simpl.
    - assert (existsb (Nat.eqb x) (b0 ++ x :: c) = true) as ->; [|reflexivity].
      apply existsb_exists. exists x. split; [apply in_or_app; right; left; reflexivity|apply Nat.eqb_refl].
    - rewrite IHa. apply andb_false_r.
  Qed.

  (* the same field twice, under whichever names and whatever the values (null included) *)
  Lemma keys_ok_duplicate : forall l1 k v l2 k' v' l3, fid k = fid k' ->
    keys_ok fid (l1 ++ (k, v) :: l2 ++ (k', v') :: l3) = false.
  Proof.
    intros l1 k v l2 k' v' l3 E. unfold keys_ok.
    destruct (field_ids fid (l1 ++ (k, v) :: l2 ++ (k', v') :: l3)) as [is|] eqn:H; [|reflexivity].
    apply field_ids_app in H. destruct H as (i1 & r1 & H1 & H2 & ->).
    simpl in H2. destruct (fid k) as [i|] eqn:Ek; [|discriminate].
    destruct (field_ids fid (l2 ++ (k', v') :: l3)) as [r2|] eqn:H3; [|discriminate].
    inversion H2; subst. apply field_ids_app in H3. destruct H3 as (i2 & r3 & H4 & H5 & ->).
    simpl in H5. rewrite <- E in H5. destruct (field_ids fid l3) as [i3|]; [|discriminate].
    inversion H5; subst. apply nodupb_false_app.
  Qed.
End Rules.

Theorem rule_top_level_object_l : forall d j, (forall l, j <> JObj l) -> of_json_with d j = None.
Proof. intros d j H. destruct j; try reflexivity. exfalso. eapply H; reflexivity. Qed.

Theorem rule_unknown_member_l : forall d l k v, In (k, v) l -> cfg_fid k = None -> of_json_with d (JObj l) = None.
Proof. intros. unfold of_json_with. erewrite keys_ok_unknown; eauto. Qed.

Theorem rule_duplicate_member_l : forall d l1 k v l2 k' v' l3, cfg_fid k = cfg_fid k' ->
  of_json_with d (JObj (l1 ++ (k, v) :: l2 ++ (k', v') :: l3)) = None.
Proof. intros. unfold of_json_with. rewrite keys_ok_duplicate; auto. Qed.

Theorem rule_pool_unknown_member_l : forall d l k v, In (k, v) l -> pool_fid k = None -> of_pool d (JObj l) = None.
Proof. intros. unfold of_pool. erewrite keys_ok_unknown; eauto. Qed.

Theorem rule_pool_duplicate_member_l : forall d l1 k v l2 k' v' l3, pool_fid k = pool_fid k' ->
  of_pool d (JObj (l1 ++ (k, v) :: l2 ++ (k', v') :: l3)) = None.
Proof. intros. unfold of_pool. rewrite keys_ok_duplicate; auto. Qed.

(* both spellings of a name are the same field *)
Lemma both_names_same_field :
  pool_fid n_maxSize = pool_fid n_max_size /\ pool_fid n_idleTimeout = pool_fid n_idle_timeout /\
  pool_fid n_maxConcurrentStreamsLowWatermark = pool_fid n_max_concurrent_streams_low_watermark /\
  pool_fid n_minSize = pool_fid n_min_size /\ pool_fid n_fallbackToReady = pool_fid n_fallback_to_ready /\
  pool_fid n_unresponsiveDetectionMs = pool_fid n_unresponsive_detection_ms /\
  pool_fid n_unresponsiveCalls = pool_fid n_unresponsive_calls /\
  pool_fid n_bindPickStrategy = pool_fid n_bind_pick_strategy /\
  cfg_fid n_channelPool = cfg_fid n_channel_pool /\ aff_fid n_affinityKey = aff_fid n_affinity_key.
Proof. repeat split; reflexivity. Qed.

(* ------------------------------------------------------------ equality *)
Lemma opt_eqb_eq : forall A (eqb : A -> A -> bool), (forall x y, eqb x y = true <-> x = y) ->
  forall x y, opt_eqb eqb x y = true <-> x = y.
Proof.
  intros A eqb H [x|] [y|]; simpl; split; intros E; try discriminate; auto.
  - apply H in E. subst; auto.
  - inversion E; subst. apply H. auto.
Qed.

Lemma list_eqb_eq : forall A (eqb : A -> A -> bool), (forall x y, eqb x y = true <-> x = y) ->
  forall x y, list_eqb eqb x y = true <-> x = y.
Proof.
  intros A eqb H. induction x; destruct y; simpl; split; intros E; try discriminate; auto.
  - apply andb_true_iff in E. destruct E as [E1 E2]. apply H in E1. apply IHx in E2. subst; auto.
  - inversion E; subst. apply andb_true_iff. split; [apply H|apply IHx]; auto.
Qed.

Lemma bool_eqb_eq : forall x y, Bool.eqb x y = true <-> x = y.
Proof. intros. apply Bool.eqb_true_iff. Qed.

Lemma pool_eqb_eq : forall x y, pool_eqb x y = true <-> x = y.
Proof.
  intros [a1 a2 a3 a4 a5 a6 a7 a8] [b1 b2 b3 b4 b5 b6 b7 b8]. unfold pool_eqb. simpl.
  rewrite !andb_true_iff, !Z.eqb_eq, bool_eqb_eq. split.
  - intros [[[[[[[-> ->] ->] ->] ->] ->] ->] ->]. reflexivity.
  - intros E. inversion E; subst. tauto.
Qed.

Lemma aff_eqb_eq : forall x y, aff_eqb x y = true <-> x = y.
Proof.
  intros [a1 a2] [b1 b2]. unfold aff_eqb. simpl. rewrite andb_true_iff, Z.eqb_eq, str_eqb_eq. split.
  - intros [-> ->]. reflexivity.
  - intros E. inversion E; subst. tauto.
Qed.

Lemma method_eqb_eq : forall x y, method_eqb x y = true <-> x = y.
Proof.
  intros [a1 a2] [b1 b2]. unfold method_eqb. simpl.
  rewrite andb_true_iff, (list_eqb_eq _ _ str_eqb_eq), (opt_eqb_eq _ _ aff_eqb_eq). split.
  - intros [-> ->]. reflexivity.
  - intros E. inversion E; subst. tauto.
Qed.

Lemma cfg_eqb_eq : forall x y, cfg_eqb x y = true <-> x = y.
Proof.
  intros [a1 a2] [b1 b2]. unfold cfg_eqb. simpl.
  rewrite andb_true_iff, (opt_eqb_eq _ _ pool_eqb_eq), (list_eqb_eq _ _ method_eqb_eq). split.
  - intros [-> ->]. reflexivity.
  - intros E. inversion E; subst. tauto.
Qed.

Lemma res_eqb_eq : forall x y, res_eqb x y = true <-> x = y.
Proof. exact (opt_eqb_eq _ _ cfg_eqb_eq). Qed.

Lemma aff_pair_eqb_eq : forall x y, aff_pair_eqb x y = true <-> x = y.
Proof.
  intros [a1 a2] [b1 b2]. unfold aff_pair_eqb. simpl. rewrite andb_true_iff, str_eqb_eq, aff_eqb_eq. split.
  - intros [-> ->]. reflexivity.
  - intros E. inversion E; subst. tauto.
Qed.

Lemma uobs_eqb_eq : forall x y, uobs_eqb x y = true <-> x = y.
Proof.
  intros [a1 a2 a3 a4] [b1 b2 b3 b4]. unfold uobs_eqb. simpl.
  rewrite !andb_true_iff, res_eqb_eq, (list_eqb_eq _ _ aff_pair_eqb_eq), bool_eqb_eq, Z.eqb_eq. split.
  - intros [[[-> ->] ->] ->]. reflexivity.
  - intros E. inversion E; subst. tauto.
Qed.

(* ------------------------------------------------------ initializeConfig *)
Theorem effective_spec_l : forall i,
  let src := match i with Some c => c | None => empty_cfg end in
  let sp := pool_of src in
  effective i =
  mkCfg (Some (mkPool (default_of (max_size sp) 4) (idle_timeout sp) (default_of (low_watermark sp) 100)
                      (default_of (min_size sp) 1) (fallback_to_ready sp) (unresp_ms sp) (unresp_calls sp)
                      (bind_strategy sp)))
        (methods src).
Proof.
  intros [c|]; [|reflexivity]. cbv zeta. unfold effective, pool_of. destruct (channel_pool c); reflexivity.
Qed.

Lemma effective_ok_effective : forall i, effective_ok i (effective i) = true.
Proof.
  intros i. rewrite effective_spec_l. cbv zeta. unfold effective_ok. cbn [channel_pool methods max_size idle_timeout low_watermark min_size fallback_to_ready unresp_ms unresp_calls bind_strategy].
  rewrite !Z.eqb_refl, Bool.eqb_reflx. simpl.
  apply (list_eqb_eq _ _ method_eqb_eq). reflexivity.
Qed.

(* and nothing but the observed value passes the monitor's clause *)
Lemma effective_ok_unique : forall i e, effective_ok i e = true -> e = effective i.
Proof.
  intros i e H. rewrite effective_spec_l. cbv zeta. unfold effective_ok in H.
  destruct e as [[ep|] em]; [|discriminate]. cbn [channel_pool methods] in H.
  rewrite !andb_true_iff, !Z.eqb_eq, bool_eqb_eq, (list_eqb_eq _ _ method_eqb_eq) in H.
  destruct H as [[[[[[[[H1 H2] H3] H4] H5] H6] H7] H8] H9].
  destruct ep; cbn in *. subst. reflexivity.
Qed.

Lemma effective_monitor_l : forall i e, effective_ok i e = true <-> e = effective i.
Proof. intros i e. split; [apply effective_ok_unique|intros ->; apply effective_ok_effective]. Qed.

Lemma effective_idempotent_l : forall i, effective (Some (effective i)) = effective i.
Proof.
  intros i. unfold effective. simpl.
  destruct (match channel_pool match i with Some c => c | None => mkCfg (Some empty_pool) [] end with Some p => p | None => empty_pool end) as [mx it wm mn fb ms uc bs].
  unfold set_defaults; simpl.
  f_equal. f_equal.
  f_equal.
  - destruct (mx =? 0) eqn:E; [reflexivity | rewrite E; reflexivity].
  - destruct (wm =? 0) eqn:E; [reflexivity | rewrite E; reflexivity].
  - destruct (mn =? 0) eqn:E; [reflexivity | rewrite E; reflexivity].
Qed.

Lemma effective_untouched_l : forall c p, channel_pool c = Some p ->
  min_size p <> 0 -> max_size p <> 0 -> low_watermark p <> 0 -> effective (Some c) = c.
Proof.
  intros [cp ms] p H H1 H2 H3. simpl in H. subst. unfold effective, set_defaults. simpl.
  apply Z.eqb_neq in H1, H2, H3. rewrite H1, H2, H3. destruct p; reflexivity.
Qed.

(* ------------------------------------------------------------ method table *)
Lemma str_eqb_sym : forall x y, str_eqb x y = str_eqb y x.
Proof.
  intros x y. destruct (str_eqb x y) eqn:E.
  - apply str_eqb_eq in E. subst. symmetry. apply str_eqb_refl.
  - destruct (str_eqb y x) eqn:E2; auto. apply str_eqb_eq in E2. subst. rewrite str_eqb_refl in E. discriminate.
Qed.

Lemma lookup_upsert : forall t k v m, lookup (upsert k v t) m = if str_eqb m k then Some v else lookup t m.
Proof.
  induction t as [|[k' v'] r]; intros k v m; simpl.
  - reflexivity.
  - destruct (str_eqb k k') eqn:E; simpl.
    + apply str_eqb_eq in E. subst. destruct (str_eqb m k'); reflexivity.
    + rewrite IHr. destruct (str_eqb m k') eqn:E1; destruct (str_eqb m k) eqn:E2; auto.
      apply str_eqb_eq in E1. apply str_eqb_eq in E2. subst. rewrite str_eqb_refl in E. discriminate.
Qed.

Lemma lookup_add_names : forall a ns t m,
  lookup (fold_left (fun t n => upsert n a t) ns t) m = if mem m ns then Some a else lookup t m.
Proof.
  induction ns; intros t m; simpl; auto.
  rewrite IHns, lookup_upsert. destruct (str_eqb m a0); destruct (mem m ns); reflexivity.
Qed.

Definition spec_step (m : str) (acc : option Affinity) (e : Method) : option Affinity :=
  match affinity e with
  | Some a => if mem m (names e) then Some a else acc
  | None => acc
  end.

Lemma lookup_add_entry : forall t e m, lookup (add_entry t e) m = spec_step m (lookup t m) e.
Proof.
  intros t e m. unfold add_entry, spec_step. destruct (affinity e); auto. apply lookup_add_names.
Qed.

Lemma lookup_fold_entries : forall ms t m,
  lookup (fold_left add_entry ms t) m = fold_left (spec_step m) ms (lookup t m).
Proof.
  induction ms; intros t m; simpl; auto. rewrite IHms, lookup_add_entry. reflexivity.
Qed.

Theorem method_table_spec_l : forall c m, lookup (method_table c) m = spec_lookup (methods c) m.
Proof. intros c m. unfold method_table. rewrite lookup_fold_entries. reflexivity. Qed.

Lemma mem_In : forall m l, mem m l = true <-> In m l.
Proof.
  intros m l. unfold mem. rewrite existsb_exists. split.
  - intros [x [Hx E]]. apply str_eqb_eq in E. subst. auto.
  - intros H. exists m. split; auto. apply str_eqb_refl.
Qed.

Lemma spec_fold_some : forall m ms acc a, fold_left (spec_step m) ms acc = Some a ->
  acc = Some a \/ exists e, In e ms /\ In m (names e) /\ affinity e = Some a.
Proof.
  induction ms; intros acc a0 H; simpl in H; auto.
  apply IHms in H. destruct H as [H|[e [H1 H2]]].
  - unfold spec_step in H. destruct (affinity a) as [x|] eqn:Ea; auto.
    destruct (mem m (names a)) eqn:Em; auto.
    right. exists a. split; [left; auto|]. split; [apply mem_In; auto|]. rewrite Ea. auto.
  - right. exists e. split; [right; auto|auto].
Qed.

Lemma spec_fold_keep : forall m ms acc, (forall e, In e ms -> ~ In m (names e)) ->
  fold_left (spec_step m) ms acc = acc.
Proof.
  induction ms; intros acc H; simpl; auto.
  rewrite IHms; [|intros e He; apply H; right; auto].
  unfold spec_step. destruct (affinity a); auto.
  destruct (mem m (names a)) eqn:E; auto. apply mem_In in E. exfalso. eapply H; [left; reflexivity|exact E].
Qed.

Lemma NoDup_app_disjoint : forall A (l1 l2 : list A) x, NoDup (l1 ++ l2) -> In x l1 -> ~ In x l2.
Proof.
  induction l1; intros l2 x H Hin; [destruct Hin|].
  simpl in H. inversion H; subst. destruct Hin as [->|Hin].
  - intros Hx. apply H2. apply in_or_app. right. auto.
  - eapply IHl1; eauto.
Qed.

Lemma NoDup_app_right : forall A (l1 l2 : list A), NoDup (l1 ++ l2) -> NoDup l2.
Proof. induction l1; simpl; intros l2 H; auto. inversion H; subst. auto. Qed.

Lemma all_names_app : forall a c, all_names (a ++ c) = all_names a ++ all_names c.
Proof. intros. unfold all_names. apply flat_map_app. Qed.

(* every method name listed (once) in an entry with an affinity section is
   mapped to that entry's affinity, and no other method is *)
Theorem method_table_unique_l : forall c m a, NoDup (all_names (methods c)) ->
  (lookup (method_table c) m = Some a <->
   exists e, In e (methods c) /\ In m (names e) /\ affinity e = Some a).
Proof.
  intros c m a ND. rewrite method_table_spec_l. unfold spec_lookup.
  change (fun acc e => match affinity e with Some a0 => if mem m (names e) then Some a0 else acc | None => acc end)
    with (spec_step m).
  split.
  - intros H. apply spec_fold_some in H. destruct H as [H|H]; [discriminate|exact H].
  - intros [e [He [Hm Ha]]].
    apply in_split in He. destruct He as [l1 [l2 E]]. rewrite E in *.
    rewrite fold_left_app. simpl.
    rewrite all_names_app in ND. simpl in ND.
    change (all_names (e :: l2)) with (names e ++ all_names l2) in ND.
    apply NoDup_app_right in ND.
    rewrite spec_fold_keep.
    + unfold spec_step. rewrite Ha. apply mem_In in Hm. rewrite Hm. reflexivity.
    + intros e' He' Hm'. eapply (NoDup_app_disjoint _ (names e) (all_names l2) m ND Hm).
      unfold all_names. apply in_flat_map. exists e'. auto.
Qed.

(* a method no entry lists is not in the table *)
Theorem method_table_none_l : forall c m, ~ In m (all_names (methods c)) -> lookup (method_table c) m = None.
Proof.
  intros c m H. rewrite method_table_spec_l. unfold spec_lookup.
  change (fun acc e => match affinity e with Some a0 => if mem m (names e) then Some a0 else acc | None => acc end)
    with (spec_step m).
  apply spec_fold_keep. intros e He Hm. apply H. unfold all_names. apply in_flat_map. exists e. auto.
Qed.

(* ------------------------------------------------ UpdateClientConnState *)
Lemma update_cfg_fixed : forall c p i r, b_cfg (fst (update (mkB (Some c) p) i r)) = Some c.
Proof.
  intros. unfold update. cbn [b_cfg b_pool]. destruct (p =? 0); [destruct r|]; reflexivity.
Qed.

Lemma step_cfg_fixed : forall e s c, b_cfg s = Some c -> b_cfg (step s e) = Some c.
Proof.
  intros e [cf p] c H. simpl in H. subst. destruct e; [apply update_cfg_fixed|reflexivity].
Qed.

Lemma run_steps_fixed : forall l s c, b_cfg s = Some c -> b_cfg (run_steps s l) = Some c.
Proof.
  induction l; intros s c H; simpl; auto. apply IHl. apply step_cfg_fixed. exact H.
Qed.

Lemma run_steps_app : forall l1 l2 s, run_steps s (l1 ++ l2) = run_steps (run_steps s l1) l2.
Proof. intros. unfold run_steps. apply fold_left_app. Qed.

Lemma update_first_cfg : forall s i r, b_cfg s = None ->
  b_cfg (fst (update s i r)) = match i with InForeign => None | _ => Some (effective (incoming_cfg i)) end.
Proof.
  intros s i r H. unfold update. rewrite H.
  destruct i; [|exact H|];
    match goal with |- context [enforce_min ?a ?m ?x] => destruct (enforce_min a m x) as [at_ p] end;
    destruct (p =? 0); [destruct r| |destruct r|]; reflexivity.
Qed.

(* steps that cannot fix the configuration: a refused (foreign-type) update, connections going away *)
Definition no_config_step (e : env_step) : Prop :=
  match e with
  | SUpdate InForeign _ => True
  | SShutdown _ => True
  | _ => False
  end.

Lemma run_steps_no_config : forall l s, Forall no_config_step l -> b_cfg s = None -> b_cfg (run_steps s l) = None.
Proof.
  induction l; intros s H Hs; simpl; auto. inversion H; subst. apply IHl; auto.
  destruct a as [i r|n]; simpl in *.
  - destruct i; try contradiction. rewrite update_first_cfg; auto.
  - exact Hs.
Qed.

(* The configuration is whatever the first non-refused update made of its
   argument - for every sequence of environment steps before it (foreign
   configs, connections shutting down) and after it (any update with any
   config, nil config, wrong-type config, with or without SubConn creation
   working, any number of connections shutting down in between). *)
Theorem config_fixed_once_l : forall l1 i r l2,
  Forall no_config_step l1 -> i <> InForeign ->
  b_cfg (run_steps init_state (l1 ++ SUpdate i r :: l2)) = Some (effective (incoming_cfg i)).
Proof.
  intros l1 i r l2 H1 Hi. rewrite run_steps_app.
  pose proof (run_steps_no_config l1 init_state H1 eq_refl) as Hn.
  simpl. apply run_steps_fixed. rewrite (update_first_cfg _ i r Hn).
  destruct i; congruence.
Qed.

Theorem config_never_changes_l : forall l s e c, b_cfg (step s e) = Some c -> b_cfg (run_steps s (e :: l)) = Some c.
Proof. intros l s e c H. simpl. apply run_steps_fixed. exact H. Qed.

(* ============================================================ Part 3 *)
(* ------------------------------------------------ tables as finite maps *)
Lemma keys_distinct_NoDup : forall t, keys_distinct t = true <-> NoDup (map fst t).
Proof.
  induction t as [|[k v] r]; simpl.
  - split; auto. constructor.
  - rewrite andb_true_iff, negb_true_iff, IHr. split.
    + intros [H1 H2]. constructor; auto. intros Hin. apply in_map_iff in Hin. destruct Hin as [[k' v'] [E Hin]].
      simpl in E. subst.
      assert (existsb (fun kv => str_eqb k (fst kv)) r = true); [|congruence].
      apply existsb_exists. exists (k, v'). split; auto. apply str_eqb_refl.
    + intros H. inversion H; subst. split; auto.
      destruct (existsb (fun kv => str_eqb k (fst kv)) r) eqn:E; auto.
      apply existsb_exists in E. destruct E as [[k' v'] [Hin E]]. simpl in E. apply str_eqb_eq in E. subst.
      exfalso. apply H2. apply in_map_iff. exists (k', v'). auto.
Qed.

Lemma lookup_some_in : forall t m v, lookup t m = Some v -> In (m, v) t.
Proof.
  induction t as [|[k w] r]; simpl; intros m v H; [discriminate|].
  destruct (str_eqb m k) eqn:E.
  - apply str_eqb_eq in E. inversion H; subst. left. reflexivity.
  - right. apply IHr. exact H.
Qed.

Lemma lookup_in_keys : forall t m, In m (map fst t) -> exists v, lookup t m = Some v.
Proof.
  induction t as [|[k w] r]; simpl; intros m H; [destruct H|].
  destruct (str_eqb m k) eqn:E; [eauto|].
  destruct H as [H|H]; [subst; rewrite str_eqb_refl in E; discriminate|]. apply IHr. exact H.
Qed.

Lemma lookup_none_keys : forall t m, lookup t m = None -> ~ In m (map fst t).
Proof. intros t m H Hin. apply lookup_in_keys in Hin. destruct Hin as [v Hv]. congruence. Qed.

Lemma lookup_distinct_in : forall t m v, NoDup (map fst t) -> In (m, v) t -> lookup t m = Some v.
Proof.
  induction t as [|[k w] r]; simpl; intros m v ND Hin; [destruct Hin|].
  inversion ND; subst. destruct Hin as [E|Hin].
  - inversion E; subst. rewrite str_eqb_refl. reflexivity.
  - destruct (str_eqb m k) eqn:E.
    + apply str_eqb_eq in E. subst. exfalso. apply H1. apply in_map_iff. exists (k, v). auto.
    + apply IHr; auto.
Qed.

Lemma upsert_keys : forall t k v, In k (map fst (upsert k v t)) /\
  (forall x, In x (map fst (upsert k v t)) <-> x = k \/ In x (map fst t)).
Proof.
  induction t as [|[k' v'] r]; intros k v; simpl.
  - split; auto. intros x. split; intros [H|H]; auto.
  - destruct (str_eqb k k') eqn:E; simpl.
    + apply str_eqb_eq in E. subst. split; auto. intros x. intuition (subst; auto).
    + destruct (IHr k v) as [H1 H2]. split; auto. intros x. rewrite H2. intuition (subst; auto).
Qed.

Lemma upsert_NoDup : forall t k v, NoDup (map fst t) -> NoDup (map fst (upsert k v t)).
Proof.
  induction t as [|[k' v'] r]; intros k v ND; simpl.
  - constructor; [intros []|constructor].
  - inversion ND; subst. destruct (str_eqb k k') eqn:E; simpl.
    + apply str_eqb_eq in E. subst. constructor; auto.
    + constructor; [|apply IHr; auto].
      intros Hin. apply (proj2 (upsert_keys r k v)) in Hin. destruct Hin as [->|Hin]; auto.
      rewrite str_eqb_refl in E. discriminate.
Qed.

Lemma method_table_NoDup : forall c, NoDup (map fst (method_table c)).
Proof.
  intros c. unfold method_table.
  assert (forall ms t, NoDup (map fst t) -> NoDup (map fst (fold_left add_entry ms t))) as A.
  { induction ms; intros t H; simpl; auto. apply IHms. unfold add_entry. destruct (affinity a); auto.
    generalize dependent t. induction (names a); intros t H; simpl; auto. apply IHl. apply upsert_NoDup. auto. }
  apply A. constructor.
Qed.

Lemma table_agrees_lookup : forall model dump, NoDup (map fst model) -> table_agrees model dump = true ->
  forall m, lookup dump m = lookup model m.
Proof.
  intros model dump NDm H m. unfold table_agrees in H.
  apply andb_true_iff in H. destruct H as [H Hall]. apply andb_true_iff in H. destruct H as [Hlen Hd].
  apply Nat.eqb_eq in Hlen. apply keys_distinct_NoDup in Hd. rewrite forallb_forall in Hall.
  assert (Hsub : forall k v, In (k, v) dump -> lookup model k = Some v).
  { intros k v Hin. specialize (Hall (k, v) Hin). simpl in Hall. apply (opt_eqb_eq _ _ aff_eqb_eq) in Hall. exact Hall. }
  destruct (lookup dump m) as [v|] eqn:E.
  - symmetry. apply Hsub. apply lookup_some_in. exact E.
  - destruct (lookup model m) as [v|] eqn:E2; auto. exfalso.
    apply lookup_none_keys in E. apply E.
    assert (Hincl : incl (map fst dump) (map fst model)).
    { intros k Hk. apply in_map_iff in Hk. destruct Hk as [[k' v'] [Ek Hin]]. simpl in Ek. subst.
      apply Hsub in Hin. apply lookup_some_in in Hin. apply in_map_iff. exists (k, v'). auto. }
    assert (Hl : (List.length (map fst model) <= List.length (map fst dump))%nat) by (rewrite !map_length; lia).
    apply (NoDup_length_incl Hd Hl Hincl).
    apply lookup_some_in in E2. apply in_map_iff. exists (m, v). auto.
Qed.

Lemma opt_aff_eqb_refl : forall x, opt_eqb aff_eqb x x = true.
Proof. intros x. apply (opt_eqb_eq _ _ aff_eqb_eq). reflexivity. Qed.

Lemma table_ok_of_agrees : forall e dump, table_agrees (method_table e) dump = true ->
  table_ok (methods e) dump = true.
Proof.
  intros e dump H. unfold table_ok. apply andb_true_iff. split.
  - unfold table_agrees in H. apply andb_true_iff in H. destruct H as [H _].
    apply andb_true_iff in H. tauto.
  - apply forallb_forall. intros m _.
    rewrite (table_agrees_lookup _ _ (method_table_NoDup e) H m), method_table_spec_l.
    apply opt_aff_eqb_refl.
Qed.

(* ------------------------------------------------ accepted => monitor *)
Lemma first_bad_none : forall checks, first_bad checks = None -> Forall (fun p => fst p = true) checks.
Proof.
  intros checks H. unfold first_bad in H.
  destruct (find (fun p => negb (fst p)) checks) eqn:E; [discriminate|].
  apply Forall_forall. intros p Hp. pose proof (find_none _ _ E p Hp) as X. simpl in X.
  apply negb_false_iff in X. exact X.
Qed.

(* the configuration-related part of an observation *)
Definition view (ob : uobs) := (ob_cfg ob, ob_table ob, ob_unresp ob).

Lemma view_eqb_eq : forall x y, view_eqb x y = true <-> view x = view y.
Proof.
  intros [a1 a2 a3 a4] [b1 b2 b3 b4]. unfold view_eqb, view. simpl.
  rewrite !andb_true_iff, res_eqb_eq, (list_eqb_eq _ _ aff_pair_eqb_eq), bool_eqb_eq. split.
  - intros [[-> ->] ->]. reflexivity.
  - intros E. inversion E; subst. tauto.
Qed.

(* model state vs monitor state *)
Definition bal_inv (s : bstate) (fixed prev : option uobs) : Prop :=
  (b_cfg s = None /\ b_pool s = 0 /\ fixed = None) \/
  (exists e f p, b_cfg s = Some e /\ fixed = Some f /\ prev = Some p /\ view p = view f).

Lemma foreign_dec : forall i, i = InForeign \/ i <> InForeign.
Proof. destruct i; [right|left|right]; congruence. Qed.

Definition incoming_ok (i : incoming) : Prop :=
  match i with InCfg c => 0 <= min_size (pool_of c) | _ => True end.

Lemma effective_min_pos : forall i, incoming_ok i -> 1 <= min_size (pool_of (effective (incoming_cfg i))).
Proof.
  intros i H. rewrite effective_spec_l. cbv zeta. unfold pool_of at 1. cbn [channel_pool min_size].
  unfold default_of. destruct i as [how| |c]; cbn [incoming_cfg]; try (cbn; lia).
  simpl in H. destruct (min_size (pool_of c) =? 0) eqn:E; [lia|]. apply Z.eqb_neq in E. lia.
Qed.

Lemma update_init_spec : forall s i r, b_cfg s = None -> b_pool s = 0 -> i <> InForeign ->
  1 <= min_size (pool_of (effective (incoming_cfg i))) ->
  update s i r =
  if r then (mkB (Some (effective (incoming_cfg i))) 0, mkOut false 2 0 0)
  else (mkB (Some (effective (incoming_cfg i))) (min_size (pool_of (effective (incoming_cfg i)))),
        mkOut false (min_size (pool_of (effective (incoming_cfg i)))) (min_size (pool_of (effective (incoming_cfg i))))
              (min_size (pool_of (effective (incoming_cfg i))))).
Proof.
  intros s i r Hc Hp Hi Hm. unfold update. rewrite Hc, Hp.
  set (m := min_size (pool_of (effective (incoming_cfg i)))) in *.
  assert (E : enforce_min 0 m r = if r then (1, 0) else (m, m)).
  { unfold enforce_min. assert (0 <? m = true) as -> by (apply Z.ltb_lt; lia).
    destruct r; [reflexivity|]. rewrite Z.sub_0_r. reflexivity. }
  destruct i; try congruence; fold m; rewrite E; destruct r; cbn [Z.eqb];
    try reflexivity;
    (assert (m =? 0 = false) as -> by (apply Z.eqb_neq; lia)); rewrite Z.sub_0_r; reflexivity.
Qed.

Lemma update_later_spec : forall s e i r, b_cfg s = Some e ->
  b_cfg (fst (update s i r)) = Some e /\ uo_err (snd (update s i r)) = false.
Proof.
  intros [cf p] e i r H. simpl in H. subst. unfold update. cbn [b_cfg b_pool].
  destruct (p =? 0); [destruct r|]; split; reflexivity.
Qed.

Lemma init_event_ok : forall prev i r o ob, i <> InForeign ->
  uo_err o = false ->
  ob_cfg ob = Some (effective (incoming_cfg i)) ->
  table_agrees (method_table (effective (incoming_cfg i))) (ob_table ob) = true ->
  ob_unresp ob = unresponsive_enabled (effective (incoming_cfg i)) ->
  (r = false -> uo_created o = min_size (pool_of (effective (incoming_cfg i))) /\
                ob_pool ob = min_size (pool_of (effective (incoming_cfg i)))) ->
  bal_event_ok None prev (EvUpdate i r o true ob) = (true, Some ob).
Proof.
  intros prev i r o ob Hnf He Hc Ht Hu Hn.
  assert (A : (negb (uo_err o) && true &&
               effective_ok (incoming_cfg i) (effective (incoming_cfg i)) &&
               table_ok (methods (effective (incoming_cfg i))) (ob_table ob) &&
               unresp_ok (effective (incoming_cfg i)) (ob_unresp ob) &&
               (r || ((uo_created o =? min_size (pool_of (effective (incoming_cfg i)))) &&
                      (ob_pool ob =? min_size (pool_of (effective (incoming_cfg i))))))%bool)%bool = true).
  { rewrite He, effective_ok_effective, (table_ok_of_agrees _ _ Ht).
    unfold unresp_ok. rewrite Hu. unfold unresponsive_enabled. rewrite Bool.eqb_reflx.
    destruct r; [reflexivity|]. destruct (Hn eq_refl) as [-> ->]. rewrite !Z.eqb_refl. reflexivity. }
  unfold bal_event_ok. rewrite Hc. destruct i; try congruence; rewrite A; reflexivity.
Qed.

Definition event_ok (ev : event) : Prop :=
  match ev with EvUpdate i _ _ _ _ => incoming_ok i | _ => True end.

Lemma accept_event_ok : forall s fixed prev ev s', event_ok ev ->
  bal_inv s fixed prev -> accept_event s prev ev = (None, s') ->
  exists fixed', bal_event_ok fixed prev ev = (true, fixed') /\ bal_inv s' fixed' (Some (ev_obs ev)).
Proof.
  intros s fixed prev ev s' Wev Inv H. destruct ev as [i r o same ob|ob|n ob].
  - (* update *)
    unfold accept_event in H. destruct (update s i r) as [s1 mo] eqn:Eu.
    match type of H with (first_bad ?l, _) = _ => destruct (first_bad l) eqn:Ef end; [discriminate|].
    inversion H; subst s'. clear H.
    apply first_bad_none in Ef. unfold obs_checks in Ef. cbn [app] in Ef.
    rewrite !Forall_cons_iff in Ef. cbn [fst] in Ef.
    destruct Ef as (H1 & H2 & H3 & H4 & H5 & H6 & H7 & H8 & _).
    subst same. apply Bool.eqb_prop in H1. apply res_eqb_eq in H3. apply Z.eqb_eq in H6.
    apply andb_true_iff in H7. destruct H7 as [H7 _]. apply andb_true_iff in H7. destruct H7 as [_ H7].
    apply Z.eqb_eq in H7.
    destruct Inv as [(Hc & Hp & ->)|(e & f & p & Hc & -> & -> & Hv)].
    + rewrite Hc in H8. cbn [is_some] in *.
      destruct (foreign_dec i) as [->|Hnf].
      * unfold update in Eu. rewrite Hc in Eu. inversion Eu; subst s1 mo.
        cbn [uo_err uo_created] in *. rewrite Hc in *.
        unfold bal_event_ok. rewrite H3, H1, H7. eexists. split; [reflexivity|]. left. auto.
      * rewrite (update_init_spec s i r Hc Hp Hnf (effective_min_pos i Wev)) in Eu.
        exists (Some ob). split.
        { apply init_event_ok; auto.
          - destruct r; inversion Eu; subst mo; exact H1.
          - destruct r; inversion Eu; subst s1; exact H3.
          - destruct r; inversion Eu; subst s1; cbn [b_cfg] in H4; exact H4.
          - destruct r; inversion Eu; subst s1; cbn [b_cfg] in H5; apply Bool.eqb_prop in H5; exact H5.
          - intros ->. inversion Eu; subst s1 mo. cbn [uo_created b_pool] in *. auto. }
        { right. exists (effective (incoming_cfg i)), ob, ob. cbn [ev_obs].
          destruct r; inversion Eu; subst s1; auto. }
    + destruct (update_later_spec s e i r Hc) as [Hc1 He1]. rewrite Eu in Hc1, He1. cbn [fst snd] in Hc1, He1.
      rewrite Hc in H8. cbn [is_some] in H8. apply view_eqb_eq in H8.
      unfold bal_event_ok. rewrite H1, He1. cbn [negb andb].
      assert (view_eqb ob f = true) as -> by (apply view_eqb_eq; congruence).
      eexists. split; [reflexivity|]. right. exists e, f, ob. cbn [ev_obs]. repeat split; auto. congruence.
  - (* mutate *)
    unfold accept_event in H.
    match type of H with (first_bad ?l, _) = _ => destruct (first_bad l) eqn:Ef end; [discriminate|].
    inversion H; subst s'. clear H.
    apply first_bad_none in Ef. rewrite !Forall_cons_iff in Ef. cbn [fst] in Ef. destruct Ef as (H1 & _).
    unfold bal_event_ok. rewrite H1. eexists. split; [reflexivity|].
    destruct Inv as [(Hc & Hp & ->)|(e & f & p & Hc & -> & -> & Hv)].
    + left. auto.
    + apply uobs_eqb_eq in H1. subst. right. exists e, f, p. cbn [ev_obs]. auto.
  - (* shutdown *)
    unfold accept_event in H.
    match type of H with (first_bad ?l, _) = _ => destruct (first_bad l) eqn:Ef end; [discriminate|].
    inversion H; subst s'. clear H.
    apply first_bad_none in Ef. unfold obs_checks in Ef. cbn [app] in Ef.
    rewrite !Forall_cons_iff in Ef. cbn [fst] in Ef.
    destruct Ef as (H3 & H4 & H5 & H6 & H8 & _).
    apply res_eqb_eq in H3. cbn [shutdown b_cfg] in H3.
    destruct Inv as [(Hc & Hp & ->)|(e & f & p & Hc & -> & -> & Hv)].
    + unfold bal_event_ok. rewrite H3, Hc. eexists. split; [reflexivity|]. left.
      unfold shutdown. cbn [b_cfg b_pool]. repeat split; auto. rewrite Hp. lia.
    + apply view_eqb_eq in H8. unfold bal_event_ok.
      assert (view_eqb ob f = true) as -> by (apply view_eqb_eq; congruence).
      eexists. split; [reflexivity|]. right. exists e, f, ob. cbn [ev_obs shutdown b_cfg]. repeat split; auto. congruence.
Qed.

Lemma accept_events_ok : forall evs k s fixed prev, Forall event_ok evs ->
  bal_inv s fixed prev -> accept_events k s prev evs = None -> bal_ok fixed prev evs = true.
Proof.
  induction evs; intros k s fixed prev W Inv H; simpl; auto.
  inversion W; subst.
  simpl in H. destruct (accept_event s prev a) as [[cl|] s'] eqn:E; [discriminate|].
  destruct (accept_event_ok _ _ _ _ _ H2 Inv E) as [fixed' [H1 H4]].
  rewrite H1. simpl. eapply IHevs; eauto.
Qed.

Definition case_wf (c : case) : Prop :=
  match c with
  | CRender cfg _ _ => wf cfg
  | CGcp input _ => wf_opt input
  | CBalancer _ _ _ evs => Forall event_ok evs     (* minSize of a supplied config is not negative *)
  | _ => True
  end.

Lemma service_config_spec : forall input, wf_opt input ->
  service_config input = Some (match input with Some c => c | None => empty_cfg end).
Proof.
  intros [c|] H; unfold service_config, marshal.
  - apply parse_render_roundtrip_l. exact H.
  - reflexivity.
Qed.

(* A case on which the model reproduces everything the implementation did
   satisfies the property (with "rendering" = what the pinned protojson accepts). *)
Theorem accepted_c17core_l : forall c, case_wf c -> accept_case c = None -> c17core c = true.
Proof.
  intros c W H. destruct c as [j res|cls res|cfg rendered res|dmin dmax dstreams evs|input g];
    cbn [accept_case c17core c17 case_wf] in *.
  - destruct res as [x|]; destruct (of_json j) as [y|]; try discriminate; auto.
    simpl. destruct (cfg_eqb x y); [reflexivity|discriminate].
  - destruct res; [discriminate|reflexivity].
  - destruct rendered as [j|]; [|discriminate].
    match type of H with match first_bad ?l with _ => _ end = _ => destruct (first_bad l) eqn:Ef end; [discriminate|].
    apply first_bad_none in Ef. rewrite !Forall_cons_iff in Ef. cbn [fst] in Ef. destruct Ef as (C1 & C2 & _).
    rewrite (parse_render_roundtrip_l cfg W) in C2. exact C2.
  - destruct ((dmin =? defaultMinSize) && (dmax =? defaultMaxSize) && (dstreams =? defaultMaxStreams))%bool; [|discriminate].
    eapply accept_events_ok; [exact W| |exact H]. left. auto.
  - match type of H with match first_bad ?l with _ => _ end = _ => destruct (first_bad l) eqn:Ef end; [discriminate|].
    apply first_bad_none in Ef. rewrite !Forall_cons_iff in Ef. cbn [fst] in Ef. destruct Ef as (C1 & C2 & _).
    unfold gcp_ok. rewrite (service_config_spec input W) in C2. rewrite C2, andb_true_r. exact C1.
Qed.

(* ... and the property as stated wherever the library and the documented
   mapping read the input the same way (everywhere except PJ1-PJ3) *)
Theorem accepted_c17_l : forall c, case_wf c -> accept_case c = None ->
  (forall j res, c = CParse j res -> of_json j = of_json_strict j) -> c17 c = true.
Proof.
  intros c W H A. pose proof (accepted_c17core_l c W H) as X.
  destruct c; auto. simpl in *. rewrite <- (A j res eq_refl). exact X.
Qed.

(* the monitor's view of a known finding: it fires only where the two readings differ *)
Lemma trigger_only_on_deviation : forall d c, trigger d c = true ->
  exists j res, c = CParse j res /\ res <> of_json_strict j.
Proof.
  intros d c H. destruct c; try discriminate. simpl in H.
  apply andb_true_iff in H. destruct H as [H _]. apply negb_true_iff in H.
  exists j, res. split; auto. intros E. subst. 
  assert (res_eqb (of_json_strict j) (of_json_strict j) = true) by (apply res_eqb_eq; reflexivity). congruence.
Qed.
