(* Engine D/Config: property C17 as boolean monitors over what the harness
   observes on the implementation, the comparison of those observations with
   the model ([accept_case]), and the trigger predicates of the known findings
   PJ1-PJ3.  The same functions are extracted and run on recorded cases.

   The monitors are written against the *statement* of C17 (the documented
   proto3 JSON mapping, the literals 1 / 4 / 100, "last entry wins"), not
   against the model functions; Proofs.v relates the two. *)
From GV Require Import Config.Model.
Open Scope Z_scope.

(* ------------------------------------------------------ observations *)
Record uobs := mkUobs {
  ob_cfg : option ApiConfig;   (* gb.cfg read back; None = nil *)
  ob_table : table;            (* gb.methodCfg, dumped sorted by key *)
  ob_unresp : bool;            (* gb.unresponsiveDetection *)
  ob_pool : Z                  (* len(gb.scRefs) *)
}.

Inductive event :=
| EvUpdate (i : incoming) (refuse : bool) (o : upd_out) (same : bool) (ob : uobs)
    (* one UpdateClientConnState; refuse = the fake ClientConn refuses to create
       SubConns during it (factory failure or empty address list); same = the
       caller's message is proto.Equal to a snapshot taken before the call *)
| EvMutate (ob : uobs)
    (* the harness overwrote every field of every message it had passed in *)
| EvShutdown (n : Z) (ob : uobs).
    (* n connections of the pool reported connectivity.Shutdown *)

Record gobs := mkGobs {
  g_err : bool;                      (* NewGCPMultiEndpoint failed *)
  g_same : bool;                     (* caller's message unchanged by the constructor *)
  g_ret1 : option ApiConfig;         (* GCPConfig() *)
  g_fresh : bool;                    (* result is neither the caller's pointer nor the stored one nor the previous result *)
  g_ret2 : option ApiConfig;         (* GCPConfig() after overwriting the first result *)
  g_ret3 : option ApiConfig;         (* GCPConfig() after overwriting the caller's message *)
  g_svc : option ApiConfig           (* what ParseConfig returned for the default service config at Dial time *)
}.

Inductive case :=
| CParse (j : json) (res : option ApiConfig)
| CMalformed (cls : N) (res : option ApiConfig)
| CRender (c : ApiConfig) (rendered : option json) (res : option ApiConfig)
| CBalancer (dmin dmax dstreams : Z) (evs : list event)
| CGcp (input : option ApiConfig) (g : gobs).

Definition res_eqb := opt_eqb cfg_eqb.

(* ------------------------------------------------------------- spec side *)
Definition default_of (v d : Z) : Z := if v =? 0 then d else v.

(* "equals the supplied one except that an absent or zero minSize, maxSize and
   stream low-watermark become 1, 4 and 100" *)
Definition effective_ok (supplied : option ApiConfig) (e : ApiConfig) : bool :=
  let src := match supplied with Some c => c | None => empty_cfg end in
  let sp := pool_of src in
  match channel_pool e with
  | None => false
  | Some ep =>
      (min_size ep =? default_of (min_size sp) 1) &&
      (max_size ep =? default_of (max_size sp) 4) &&
      (low_watermark ep =? default_of (low_watermark sp) 100) &&
      (idle_timeout ep =? idle_timeout sp) &&
      Bool.eqb (fallback_to_ready ep) (fallback_to_ready sp) &&
      (unresp_ms ep =? unresp_ms sp) && (unresp_calls ep =? unresp_calls sp) &&
      (bind_strategy ep =? bind_strategy sp) &&
      list_eqb method_eqb (methods e) (methods src)
  end.

Definition mem (m : str) (l : list str) : bool := existsb (str_eqb m) l.

(* the affinity of the last entry that lists m and has an affinity section *)
Definition spec_lookup (ms : list Method) (m : str) : option Affinity :=
  fold_left (fun acc e =>
               match affinity e with
               | Some a => if mem m (names e) then Some a else acc
               | None => acc
               end) ms None.

Definition all_names (ms : list Method) : list str := flat_map names ms.

Fixpoint keys_distinct (t : table) : bool :=
  match t with
  | [] => true
  | (k, _) :: r => negb (existsb (fun kv => str_eqb k (fst kv)) r) && keys_distinct r
  end.

(* "every method name listed is mapped to that entry's command and key path and
   no other method is" *)
Definition table_ok (ms : list Method) (t : table) : bool :=
  keys_distinct t &&
  forallb (fun m => opt_eqb aff_eqb (lookup t m) (spec_lookup ms m)) (all_names ms ++ map fst t).

Definition unresp_ok (e : ApiConfig) (flag : bool) : bool :=
  Bool.eqb flag ((0 <? unresp_calls (pool_of e)) && (0 <? unresp_ms (pool_of e))).

Definition aff_pair_eqb (x y : str * Affinity) : bool :=
  str_eqb (fst x) (fst y) && aff_eqb (snd x) (snd y).

Definition uobs_eqb (x y : uobs) : bool :=
  res_eqb (ob_cfg x) (ob_cfg y) && list_eqb aff_pair_eqb (ob_table x) (ob_table y) &&
  Bool.eqb (ob_unresp x) (ob_unresp y) && (ob_pool x =? ob_pool y).

(* the configuration-related part of an observation *)
Definition view_eqb (x y : uobs) : bool :=
  res_eqb (ob_cfg x) (ob_cfg y) && list_eqb aff_pair_eqb (ob_table x) (ob_table y) &&
  Bool.eqb (ob_unresp x) (ob_unresp y).

(* monitor state: the observation that followed the first accepted update *)
Definition bal_event_ok (fixed : option uobs) (prev : option uobs) (ev : event) : bool * option uobs :=
  match ev with
  | EvMutate ob =>
      (match prev with Some p => uobs_eqb ob p | None => true end, fixed)
  | EvShutdown _ ob =>
      (* whatever happens to the pool, the configuration stays *)
      (match fixed with
       | Some f => view_eqb ob f
       | None => match ob_cfg ob with None => true | Some _ => false end
       end, fixed)
  | EvUpdate i refuse o same ob =>
      match fixed with
      | Some f =>
          (* "the configuration is fixed by the first resolver update" *)
          (negb (uo_err o) && same && view_eqb ob f, fixed)
      | None =>
          match i with
          | InForeign =>
              (uo_err o && (uo_created o =? 0) && same &&
               match ob_cfg ob with None => true | Some _ => false end, None)
          | _ =>
              match ob_cfg ob with
              | None => (false, None)
              | Some e =>
                  (negb (uo_err o) && same &&
                   effective_ok (incoming_cfg i) e &&
                   table_ok (methods e) (ob_table ob) &&
                   unresp_ok e (ob_unresp ob) &&
                   (* the pool starts with minSize connections when they can be created *)
                   (refuse || ((uo_created o =? min_size (pool_of e)) && (ob_pool ob =? min_size (pool_of e)))),
                   Some ob)
              end
          end
      end
  end.

Definition ev_obs (ev : event) : uobs :=
  match ev with EvUpdate _ _ _ _ ob => ob | EvMutate ob => ob | EvShutdown _ ob => ob end.

Fixpoint bal_ok (fixed prev : option uobs) (evs : list event) : bool :=
  match evs with
  | [] => true
  | ev :: r =>
      let (ok, fixed') := bal_event_ok fixed prev ev in
      ok && bal_ok fixed' (Some (ev_obs ev)) r
  end.

Definition gcp_ok (input : option ApiConfig) (g : gobs) : bool :=
  negb (g_err g) && g_same g && g_fresh g &&
  res_eqb (g_ret1 g) input && res_eqb (g_ret2 g) input && res_eqb (g_ret3 g) input &&
  res_eqb (g_svc g) (Some (match input with Some c => c | None => empty_cfg end)).

(* ------------------------------------------------------------- C17 *)
Definition c17 (c : case) : bool :=
  match c with
  | CParse j res => res_eqb res (of_json_strict j)
      (* accepted iff j is a rendering under the documented mapping, and then with that value *)
  | CMalformed _ res => match res with None => true | Some _ => false end
  | CRender cfg _ res => res_eqb res (Some cfg)
      (* what protojson.Marshal renders parses back to the same message *)
  | CBalancer _ _ _ evs => bal_ok None None evs
  | CGcp input g => gcp_ok input g
  end.

(* the same with "rendering" read as "what the pinned protojson accepts" *)
Definition c17core (c : case) : bool :=
  match c with
  | CParse j res => res_eqb res (of_json j)
  | _ => c17 c
  end.

(* ------------------------------------------- known findings PJ1 - PJ3 *)
(* Each finding is the documented mapping changed in exactly one lexical
   shape; its trigger fires when the implementation departs from the
   documented mapping on a case AND behaves exactly as that one change
   predicts.  Any other departure matches no trigger. *)

(* PJ1: a numeric string for a uint field is read up to the first delimiter:
   "<number><delimiter><anything>" with no white space at either end *)
Definition pj1_uint (max : Z) (j : json) : option Z :=
  match j with
  | JStr s =>
      if (starts_with_space s || ends_with_space s)%bool then None
      else match parse_number s with
           | Some n => if Nat.ltb n (List.length s) then strict_uint max (JNum (firstn n s))
                       else strict_uint max j
           | None => strict_uint max j
           end
  | _ => strict_uint max j
  end.
Definition pj1 : decoders := mkDec pj1_uint strict_enum_num.

(* PJ2: a number lexeme "<int>[.<frac>]e" or "...E" (exponent marker without
   digits) is read as if the marker were not there *)
Definition strip_e (raw : str) : option str :=
  match rev raw with
  | c :: r => if (N.eqb c 101 || N.eqb c 69)%bool then
                match rfc_number (rev r) with
                | Some p => match rn_exp p with [] => Some (rev r) | _ => None end
                | None => None
                end
              else None
  | [] => None
  end.
Definition pj2_uint (max : Z) (j : json) : option Z :=
  match j with
  | JNum raw => match strip_e raw with Some d => strict_uint max (JNum d) | None => strict_uint max j end
  | _ => strict_uint max j
  end.
Definition pj2_enum (j : json) : option Z :=
  match j with
  | JNum raw => match strip_e raw with Some d => strict_enum_num (JNum d) | None => strict_enum_num j end
  | _ => strict_enum_num j
  end.
Definition pj2 : decoders := mkDec pj2_uint pj2_enum.

(* PJ3: "0.<digits>e<exp>" with exp > 20 denoting a non-zero integer is refused *)
Definition pj3_shape (raw : str) : bool :=
  match rfc_number raw with
  | Some p =>
      str_eqb (rn_int p) [48%N] && negb (rn_eneg p) && (digits_val (rn_exp p) >? 20) &&
      match rfc_int_value p with Some v => negb (v =? 0) | None => false end
  | None => false
  end.
Definition pj3_uint (max : Z) (j : json) : option Z :=
  match j with
  | JNum raw | JStr raw => if pj3_shape raw then None else strict_uint max j
  | _ => strict_uint max j
  end.
Definition pj3_enum (j : json) : option Z :=
  match j with
  | JNum raw => if pj3_shape raw then None else strict_enum_num j
  | _ => strict_enum_num j
  end.
Definition pj3 : decoders := mkDec pj3_uint pj3_enum.

Definition trigger (d : decoders) (c : case) : bool :=
  match c with
  | CParse j res => negb (res_eqb res (of_json_strict j)) && res_eqb res (of_json_with d j)
  | _ => false
  end.
Definition k_PJ1 := trigger pj1.
Definition k_PJ2 := trigger pj2.
Definition k_PJ3 := trigger pj3.

(* ------------------------------------------- model vs implementation *)
Inductive dclass :=
| DParseAccept | DParseValue | DMalformed | DRender | DConsts | DOutputs | DEffective
| DMethodTable | DUnresponsive | DSubconns | DFixedOnce | DAlias | DGcpConfig | DServiceConfig.

Definition table_agrees (model : table) (dump : table) : bool :=
  Nat.eqb (List.length model) (List.length dump) && keys_distinct dump &&
  forallb (fun kv => opt_eqb aff_eqb (lookup model (fst kv)) (Some (snd kv))) dump.

Definition first_bad (checks : list (bool * dclass)) : option dclass :=
  match find (fun p => negb (fst p)) checks with Some p => Some (snd p) | None => None end.

(* the observation the model predicts for its state, against the one read back *)
Definition obs_checks (later : bool) (s : bstate) (ob : uobs) : list (bool * dclass) :=
  [(res_eqb (ob_cfg ob) (b_cfg s), if later then DFixedOnce else DEffective);
   (match b_cfg s with
    | Some e => table_agrees (method_table e) (ob_table ob)
    | None => is_nil (ob_table ob)
    end, if later then DFixedOnce else DMethodTable);
   (match b_cfg s with
    | Some e => Bool.eqb (ob_unresp ob) (unresponsive_enabled e)
    | None => negb (ob_unresp ob)
    end, if later then DFixedOnce else DUnresponsive);
   (ob_pool ob =? b_pool s, DSubconns)].

Definition is_some {A} (o : option A) : bool := match o with Some _ => true | None => false end.

(* compares one event with the model; returns the new model state *)
Definition accept_event (s : bstate) (prev : option uobs) (ev : event) : option dclass * bstate :=
  match ev with
  | EvMutate ob =>
      (first_bad [(match prev with Some p => uobs_eqb ob p | None => true end, DAlias)], s)
  | EvShutdown n ob =>
      let s' := shutdown s n in
      (first_bad (obs_checks true s' ob ++
                  (* the configuration did not change, so neither may anything the harness reads back of it *)
                  [(match prev with Some p => view_eqb ob p | None => true end, DFixedOnce)]),
       s')
  | EvUpdate i refuse o same ob =>
      let (s', mo) := update s i refuse in
      let later := is_some (b_cfg s) in
      (first_bad
         ([(Bool.eqb (uo_err o) (uo_err mo), DOutputs);
           (same, DAlias)] ++
          obs_checks later s' ob ++
          [((uo_attempts o =? uo_attempts mo) && (uo_created o =? uo_created mo) &&
            (uo_updaddr o =? uo_updaddr mo), DSubconns);
           (if later then match prev with Some p => view_eqb ob p | None => false end else true, DFixedOnce)]),
       s')
  end.

Fixpoint accept_events (k : nat) (s : bstate) (prev : option uobs) (evs : list event) : option (nat * dclass) :=
  match evs with
  | [] => None
  | ev :: r =>
      match accept_event s prev ev with
      | (Some c, _) => Some (k, c)
      | (None, s') => accept_events (S k) s' (Some (ev_obs ev)) r
      end
  end.

Definition accept_case (c : case) : option (nat * dclass) :=
  match c with
  | CParse j res =>
      match res, of_json j with
      | None, None => None
      | Some x, Some y => if cfg_eqb x y then None else Some (0%nat, DParseValue)
      | _, _ => Some (0%nat, DParseAccept)
      end
  | CMalformed _ res => match res with None => None | Some _ => Some (0%nat, DMalformed) end
  | CRender cfg rendered res =>
      match rendered with
      | None => Some (0%nat, DRender)
      | Some j =>
          (* the model's rendering is protojson.Marshal's, token for token *)
          match first_bad [(json_eqb j (to_json cfg), DRender);
                           (res_eqb res (of_json (to_json cfg)), DParseValue)] with
          | Some d => Some (0%nat, d)
          | None => None
          end
      end
  | CBalancer dmin dmax dstreams evs =>
      if (dmin =? defaultMinSize) && (dmax =? defaultMaxSize) && (dstreams =? defaultMaxStreams)
      then accept_events 1 init_state None evs
      else Some (0%nat, DConsts)
  | CGcp input g =>
      match first_bad [(negb (g_err g) && g_same g && g_fresh g &&
                        res_eqb (g_ret1 g) (gcp_config input) && res_eqb (g_ret2 g) (gcp_config input) &&
                        res_eqb (g_ret3 g) (gcp_config input), DGcpConfig);
                       (res_eqb (g_svc g) (service_config input), DServiceConfig)] with
      | Some d => Some (0%nat, d)
      | None => None
      end
  end.
