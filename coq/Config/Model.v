(* Engine D/Config: executable model of the configuration path of package grpcgcp.

     grpcgcp/grpc_gcp/grpc_gcp.proto      ApiConfig, ChannelPoolConfig, MethodConfig, AffinityConfig
     grpcgcp/gcp_balancer.go              ParseConfig, initializeConfig, UpdateClientConnState
     grpcgcp/gcp_multiendpoint.go         makeOpts, NewGCPMultiEndpoint, GCPConfig

   ParseConfig is protojson.Unmarshal into a fresh message with default options;
   protojson is a third-party library and is *modelled* here ([of_json], with
   the decoders of Json.v), not verified.  Everything else is the repo's own
   logic.  No proofs in this file. *)
From GV Require Export Config.Json.
From Coq Require Import String.   (* only for the field-name literals: b "..." *)
Open Scope Z_scope.

(* ------------------------------------------------------------- messages *)
(* field order = field number order of the .proto *)
Record Pool := mkPool {
  max_size : Z;            (* uint32 max_size = 1 *)
  idle_timeout : Z;        (* uint64 idle_timeout = 2 *)
  low_watermark : Z;       (* uint32 max_concurrent_streams_low_watermark = 3 *)
  min_size : Z;            (* uint32 min_size = 4 *)
  fallback_to_ready : bool;(* bool fallback_to_ready = 5 *)
  unresp_ms : Z;           (* uint32 unresponsive_detection_ms = 6 *)
  unresp_calls : Z;        (* uint32 unresponsive_calls = 7 *)
  bind_strategy : Z        (* enum BindPickStrategy bind_pick_strategy = 8 (open enum: any int32) *)
}.

Record Affinity := mkAff {
  command : Z;             (* enum Command command = 2 *)
  affinity_key : str       (* string affinity_key = 3 *)
}.

Record Method := mkMethod {
  names : list str;        (* repeated string name = 1 *)
  affinity : option Affinity   (* AffinityConfig affinity = 1001 *)
}.

Record ApiConfig := mkCfg {
  channel_pool : option Pool;  (* ChannelPoolConfig channel_pool = 2 *)
  methods : list Method        (* repeated MethodConfig method = 1001 *)
}.

Definition empty_pool : Pool := mkPool 0 0 0 0 false 0 0 0.
Definition empty_cfg : ApiConfig := mkCfg None [].

(* field and enum value names as byte strings (computed here so that the
   extracted code contains plain lists) *)
Definition n_maxSize : str := Eval vm_compute in b "maxSize".
Definition n_idleTimeout : str := Eval vm_compute in b "idleTimeout".
Definition n_maxConcurrentStreamsLowWatermark : str := Eval vm_compute in b "maxConcurrentStreamsLowWatermark".
Definition n_minSize : str := Eval vm_compute in b "minSize".
Definition n_fallbackToReady : str := Eval vm_compute in b "fallbackToReady".
Definition n_unresponsiveDetectionMs : str := Eval vm_compute in b "unresponsiveDetectionMs".
Definition n_unresponsiveCalls : str := Eval vm_compute in b "unresponsiveCalls".
Definition n_bindPickStrategy : str := Eval vm_compute in b "bindPickStrategy".
Definition n_command : str := Eval vm_compute in b "command".
Definition n_affinityKey : str := Eval vm_compute in b "affinityKey".
Definition n_name : str := Eval vm_compute in b "name".
Definition n_method : str := Eval vm_compute in b "method".
Definition n_channelPool : str := Eval vm_compute in b "channelPool".
Definition n_channel_pool : str := Eval vm_compute in b "channel_pool".
Definition n_max_size : str := Eval vm_compute in b "max_size".
Definition n_idle_timeout : str := Eval vm_compute in b "idle_timeout".
Definition n_max_concurrent_streams_low_watermark : str := Eval vm_compute in b "max_concurrent_streams_low_watermark".
Definition n_min_size : str := Eval vm_compute in b "min_size".
Definition n_fallback_to_ready : str := Eval vm_compute in b "fallback_to_ready".
Definition n_unresponsive_detection_ms : str := Eval vm_compute in b "unresponsive_detection_ms".
Definition n_unresponsive_calls : str := Eval vm_compute in b "unresponsive_calls".
Definition n_bind_pick_strategy : str := Eval vm_compute in b "bind_pick_strategy".
Definition n_affinity : str := Eval vm_compute in b "affinity".
Definition n_affinity_key : str := Eval vm_compute in b "affinity_key".
Definition n_UNSPECIFIED : str := Eval vm_compute in b "UNSPECIFIED".
Definition n_LEAST_ACTIVE_STREAMS : str := Eval vm_compute in b "LEAST_ACTIVE_STREAMS".
Definition n_ROUND_ROBIN : str := Eval vm_compute in b "ROUND_ROBIN".
Definition n_BOUND : str := Eval vm_compute in b "BOUND".
Definition n_BIND : str := Eval vm_compute in b "BIND".
Definition n_UNBIND : str := Eval vm_compute in b "UNBIND".

(* ------------------------------------------------------------ equality *)
Definition pool_eqb (x y : Pool) : bool :=
  (max_size x =? max_size y) && (idle_timeout x =? idle_timeout y) &&
  (low_watermark x =? low_watermark y) && (min_size x =? min_size y) &&
  Bool.eqb (fallback_to_ready x) (fallback_to_ready y) &&
  (unresp_ms x =? unresp_ms y) && (unresp_calls x =? unresp_calls y) &&
  (bind_strategy x =? bind_strategy y).

Definition aff_eqb (x y : Affinity) : bool :=
  (command x =? command y) && str_eqb (affinity_key x) (affinity_key y).

Definition opt_eqb {A} (eqb : A -> A -> bool) (x y : option A) : bool :=
  match x, y with
  | None, None => true
  | Some u, Some v => eqb u v
  | _, _ => false
  end.

Fixpoint list_eqb {A} (eqb : A -> A -> bool) (x y : list A) : bool :=
  match x, y with
  | [], [] => true
  | u :: x', v :: y' => eqb u v && list_eqb eqb x' y'
  | _, _ => false
  end.

Definition method_eqb (x y : Method) : bool :=
  list_eqb str_eqb (names x) (names y) && opt_eqb aff_eqb (affinity x) (affinity y).

Definition cfg_eqb (x y : ApiConfig) : bool :=
  opt_eqb pool_eqb (channel_pool x) (channel_pool y) && list_eqb method_eqb (methods x) (methods y).

(* ------------------------------------------------- protojson.Marshal *)
(* lowerCamelCase names, fields in field-number order, default-valued scalar
   fields omitted, empty repeated fields omitted, a present sub-message is
   always written (even when empty), uint64 as a decimal string, enum values as
   names when the number has one and as numbers otherwise. *)
Definition piece (name : str) (omit : bool) (v : json) : list (str * json) :=
  if omit then [] else [(name, v)].

Definition bind_names : list (str * Z) :=
  [(n_UNSPECIFIED, 0); (n_LEAST_ACTIVE_STREAMS, 1); (n_ROUND_ROBIN, 2)].
Definition command_names : list (str * Z) :=
  [(n_BOUND, 0); (n_BIND, 1); (n_UNBIND, 2)].

Fixpoint name_of (tbl : list (str * Z)) (v : Z) : option str :=
  match tbl with
  | [] => None
  | (n, w) :: r => if w =? v then Some n else name_of r v
  end.

Fixpoint value_of (tbl : list (str * Z)) (n : str) : option Z :=
  match tbl with
  | [] => None
  | (m, w) :: r => if str_eqb m n then Some w else value_of r n
  end.

Definition enum_to_json (tbl : list (str * Z)) (v : Z) : json :=
  match name_of tbl v with
  | Some n => JStr n
  | None => JNum (render_int v)
  end.

Definition u32_to_json (v : Z) : json := JNum (render_nat v).
Definition u64_to_json (v : Z) : json := JStr (render_nat v).

Definition pool_to_json (p : Pool) : json :=
  JObj (piece n_maxSize (max_size p =? 0) (u32_to_json (max_size p)) ++
        piece n_idleTimeout (idle_timeout p =? 0) (u64_to_json (idle_timeout p)) ++
        piece n_maxConcurrentStreamsLowWatermark (low_watermark p =? 0) (u32_to_json (low_watermark p)) ++
        piece n_minSize (min_size p =? 0) (u32_to_json (min_size p)) ++
        piece n_fallbackToReady (negb (fallback_to_ready p)) (JBool true) ++
        piece n_unresponsiveDetectionMs (unresp_ms p =? 0) (u32_to_json (unresp_ms p)) ++
        piece n_unresponsiveCalls (unresp_calls p =? 0) (u32_to_json (unresp_calls p)) ++
        piece n_bindPickStrategy (bind_strategy p =? 0) (enum_to_json bind_names (bind_strategy p))).

Definition is_nil {A} (l : list A) : bool := match l with [] => true | _ => false end.

Definition aff_to_json (a : Affinity) : json :=
  JObj (piece n_command (command a =? 0) (enum_to_json command_names (command a)) ++
        piece n_affinityKey (is_nil (affinity_key a)) (JStr (affinity_key a))).

Definition method_to_json (m : Method) : json :=
  JObj (piece n_name (is_nil (names m)) (JArr (map JStr (names m))) ++
        match affinity m with
        | Some a => [(n_affinity, aff_to_json a)]
        | None => []
        end).

Definition to_json (c : ApiConfig) : json :=
  JObj (match channel_pool c with
        | Some p => [(n_channelPool, pool_to_json p)]
        | None => []
        end ++
        piece n_method (is_nil (methods c)) (JArr (map method_to_json (methods c)))).

(* makeOpts: protojson.Marshal(meOpts.GRPCgcpConfig); a nil message renders as {} *)
Definition marshal (o : option ApiConfig) : json :=
  match o with Some c => to_json c | None => JObj [] end.

(* ----------------------------------------------- protojson.Unmarshal *)
(* A message is a JSON object.  Every key must be the JSON name or the proto
   name of a field (unknown -> error); no field may occur twice, under either
   name, a null value included (duplicate -> error); null means "absent" for
   every field kind of these messages; inside arrays null is an error.
   protojson walks the object once and stops at the first error; accepting iff
   no error exists and reading each field once is the same function. *)
Definition fields := list (str * json).

Definition is_name (k j p : str) : bool := (str_eqb k j || str_eqb k p)%bool.

Definition cfg_fid (k : str) : option nat :=
  if is_name k n_channelPool n_channel_pool then Some 0%nat
  else if str_eqb k n_method then Some 1%nat
  else None.

Definition pool_fid (k : str) : option nat :=
  if is_name k n_maxSize n_max_size then Some 0%nat
  else if is_name k n_idleTimeout n_idle_timeout then Some 1%nat
  else if is_name k n_maxConcurrentStreamsLowWatermark n_max_concurrent_streams_low_watermark then Some 2%nat
  else if is_name k n_minSize n_min_size then Some 3%nat
  else if is_name k n_fallbackToReady n_fallback_to_ready then Some 4%nat
  else if is_name k n_unresponsiveDetectionMs n_unresponsive_detection_ms then Some 5%nat
  else if is_name k n_unresponsiveCalls n_unresponsive_calls then Some 6%nat
  else if is_name k n_bindPickStrategy n_bind_pick_strategy then Some 7%nat
  else None.

Definition method_fid (k : str) : option nat :=
  if str_eqb k n_name then Some 0%nat
  else if str_eqb k n_affinity then Some 1%nat
  else None.

Definition aff_fid (k : str) : option nat :=
  if str_eqb k n_command then Some 0%nat
  else if is_name k n_affinityKey n_affinity_key then Some 1%nat
  else None.

Fixpoint field_ids (fid : str -> option nat) (l : fields) : option (list nat) :=
  match l with
  | [] => Some []
  | (k, _) :: r =>
      match fid k, field_ids fid r with
      | Some i, Some is => Some (i :: is)
      | _, _ => None
      end
  end.

Fixpoint nodupb (l : list nat) : bool :=
  match l with
  | [] => true
  | x :: r => negb (existsb (Nat.eqb x) r) && nodupb r
  end.

Definition keys_ok (fid : str -> option nat) (l : fields) : bool :=
  match field_ids fid l with Some is => nodupb is | None => false end.

Fixpoint field (fid : str -> option nat) (i : nat) (l : fields) : option json :=
  match l with
  | [] => None
  | (k, v) :: r =>
      match fid k with
      | Some j => if Nat.eqb j i then Some v else field fid i r
      | None => field fid i r
      end
  end.

Definition bind {A B} (o : option A) (f : A -> option B) : option B :=
  match o with Some a => f a | None => None end.
Notation "'do' x <- o ;; k" := (bind o (fun x => k)) (at level 200, x name, o at level 100, k at level 200).

(* absent or null -> default *)
Definition opt_field {A} (dflt : A) (dec : json -> option A) (o : option json) : option A :=
  match o with
  | None | Some JNull => Some dflt
  | Some v => dec v
  end.

Definition dec_bool (j : json) : option bool := match j with JBool v => Some v | _ => None end.
Definition dec_string (j : json) : option str := match j with JStr s => Some s | _ => None end.

Fixpoint traverse {A} (dec : json -> option A) (l : list json) : option (list A) :=
  match l with
  | [] => Some []
  | j :: r => do a <- dec j ;; do t <- traverse dec r ;; Some (a :: t)
  end.

Definition dec_list {A} (dec : json -> option A) (j : json) : option (list A) :=
  match j with JArr l => traverse dec l | _ => None end.

(* enum: exact value name, or any number that fits int32 *)
Definition dec_enum (d : decoders) (tbl : list (str * Z)) (j : json) : option Z :=
  match j with
  | JStr s => value_of tbl s
  | _ => d_enum_num d j
  end.

Definition of_pool (d : decoders) (j : json) : option Pool :=
  match j with
  | JObj l =>
    if keys_ok pool_fid l then
      do mx <- opt_field 0 (d_uint d max_u32) (field pool_fid 0 l) ;;
      do it <- opt_field 0 (d_uint d max_u64) (field pool_fid 1 l) ;;
      do wm <- opt_field 0 (d_uint d max_u32) (field pool_fid 2 l) ;;
      do mn <- opt_field 0 (d_uint d max_u32) (field pool_fid 3 l) ;;
      do fb <- opt_field false dec_bool (field pool_fid 4 l) ;;
      do ms <- opt_field 0 (d_uint d max_u32) (field pool_fid 5 l) ;;
      do uc <- opt_field 0 (d_uint d max_u32) (field pool_fid 6 l) ;;
      do bs <- opt_field 0 (dec_enum d bind_names) (field pool_fid 7 l) ;;
      Some (mkPool mx it wm mn fb ms uc bs)
    else None
  | _ => None
  end.

Definition of_aff (d : decoders) (j : json) : option Affinity :=
  match j with
  | JObj l =>
    if keys_ok aff_fid l then
      do c <- opt_field 0 (dec_enum d command_names) (field aff_fid 0 l) ;;
      do k <- opt_field [] dec_string (field aff_fid 1 l) ;;
      Some (mkAff c k)
    else None
  | _ => None
  end.

Definition some_of {A B} (dec : A -> option B) (a : A) : option (option B) :=
  do x <- dec a ;; Some (Some x).

Definition of_method (d : decoders) (j : json) : option Method :=
  match j with
  | JObj l =>
    if keys_ok method_fid l then
      do ns <- opt_field [] (dec_list dec_string) (field method_fid 0 l) ;;
      do a <- opt_field None (some_of (of_aff d)) (field method_fid 1 l) ;;
      Some (mkMethod ns a)
    else None
  | _ => None
  end.

Definition of_json_with (d : decoders) (j : json) : option ApiConfig :=
  match j with
  | JObj l =>
    if keys_ok cfg_fid l then
      do p <- opt_field None (some_of (of_pool d)) (field cfg_fid 0 l) ;;
      do ms <- opt_field [] (dec_list (of_method d)) (field cfg_fid 1 l) ;;
      Some (mkCfg p ms)
    else None
  | _ => None
  end.

(* ParseConfig = protojson as it is *)
Definition of_json : json -> option ApiConfig := of_json_with lax.
(* the documented proto3 JSON mapping *)
Definition of_json_strict : json -> option ApiConfig := of_json_with strict.

(* --------------------------------------------------- initializeConfig *)
Definition defaultMinSize : Z := 1.
Definition defaultMaxSize : Z := 4.
Definition defaultMaxStreams : Z := 100.

Definition set_defaults (p : Pool) : Pool :=
  mkPool (if max_size p =? 0 then defaultMaxSize else max_size p)
         (idle_timeout p)
         (if low_watermark p =? 0 then defaultMaxStreams else low_watermark p)
         (if min_size p =? 0 then defaultMinSize else min_size p)
         (fallback_to_ready p) (unresp_ms p) (unresp_calls p) (bind_strategy p).

(* gb.cfg after initializeConfig(cfg); [None] = cfg == nil or cfg.ApiConfig == nil *)
Definition effective (incoming : option ApiConfig) : ApiConfig :=
  let c := match incoming with
           | Some c => c                               (* proto.Clone *)
           | None => mkCfg (Some empty_pool) []
           end in
  let p := match channel_pool c with Some p => p | None => empty_pool end in
  mkCfg (Some (set_defaults p)) (methods c).

Definition pool_of (c : ApiConfig) : Pool :=
  match channel_pool c with Some p => p | None => empty_pool end.   (* nil-safe getters *)

(* gb.methodCfg: a Go map filled in entry order, name order *)
Definition table := list (str * Affinity).

Fixpoint upsert (k : str) (v : Affinity) (t : table) : table :=
  match t with
  | [] => [(k, v)]
  | (k', v') :: r => if str_eqb k k' then (k, v) :: r else (k', v') :: upsert k v r
  end.

Fixpoint lookup (t : table) (k : str) : option Affinity :=
  match t with
  | [] => None
  | (k', v) :: r => if str_eqb k k' then Some v else lookup r k
  end.

Definition add_entry (t : table) (m : Method) : table :=
  match affinity m with
  | Some a => fold_left (fun t n => upsert n a t) (names m) t
  | None => t
  end.

Definition method_table (c : ApiConfig) : table := fold_left add_entry (methods c) [].

Definition unresponsive_enabled (c : ApiConfig) : bool :=
  (0 <? unresp_calls (pool_of c)) && (0 <? unresp_ms (pool_of c)).

(* ------------------------------------------------ UpdateClientConnState *)
Inductive incoming :=
| InNil (how : N)          (* 0: nil interface, 1: typed nil pointer to GCPBalancerConfig, 2: ApiConfig == nil *)
| InForeign                (* some other serviceconfig.LoadBalancingConfig *)
| InCfg (c : ApiConfig).

Definition incoming_cfg (i : incoming) : option ApiConfig :=
  match i with InCfg c => Some c | _ => None end.

(* the balancer's configuration-related state: gb.cfg (None = nil) and the
   number of connections in the pool, len(gb.scRefs) *)
Record bstate := mkB { b_cfg : option ApiConfig; b_pool : Z }.
Definition init_state : bstate := mkB None 0.

(* what the fake ClientConn sees during one update *)
Record upd_out := mkOut {
  uo_err : bool;         (* UpdateClientConnState returned an error *)
  uo_attempts : Z;       (* NewSubConn calls *)
  uo_created : Z;        (* NewSubConn calls that returned a SubConn *)
  uo_updaddr : Z         (* SubConn.UpdateAddresses calls *)
}.

(* enforceMinSize: add connections up to min; give up at the first refusal.
   Returns (NewSubConn calls, pool size afterwards). *)
Definition enforce_min (pool min : Z) (refuse : bool) : Z * Z :=
  if pool <? min then (if refuse then (1, pool) else (min - pool, min)) else (0, pool).

(* One UpdateClientConnState.  [refuse]: the ClientConn refuses to create
   SubConns during this call (factory failure, or an empty address list).
   - gb.cfg == nil: a foreign config type is an error and nothing happens;
     otherwise initializeConfig (effective config, method table, enforceMinSize);
   - gb.cfg != nil: the config argument is not looked at, whatever happened to
     the pool in the meantime;
   - then an empty pool gets one connection, a non-empty one gets the new
     addresses pushed to every connection. *)
Definition update (s : bstate) (i : incoming) (refuse : bool) : bstate * upd_out :=
  let inited :=
    match b_cfg s with
    | Some c => Some (c, (0, b_pool s))
    | None =>
        match i with
        | InForeign => None
        | _ => let e := effective (incoming_cfg i) in
               Some (e, enforce_min (b_pool s) (min_size (pool_of e)) refuse)
        end
    end in
  match inited with
  | None => (s, mkOut true 0 0 0)
  | Some (c, (a, p)) =>
      if p =? 0 then
        (if refuse then (mkB (Some c) 0, mkOut false (a + 1) (0 - b_pool s) 0)
         else (mkB (Some c) 1, mkOut false (a + 1) (1 - b_pool s) 0))
      else (mkB (Some c) p, mkOut false a (p - b_pool s) p)
  end.

(* n connections of the pool report connectivity.Shutdown *)
Definition shutdown (s : bstate) (n : Z) : bstate :=
  mkB (b_cfg s) (Z.max 0 (b_pool s - Z.max 0 n)).

(* everything that can happen to the balancer as far as its configuration goes *)
Inductive env_step :=
| SUpdate (i : incoming) (refuse : bool)
| SShutdown (n : Z).

Definition step (s : bstate) (e : env_step) : bstate :=
  match e with
  | SUpdate i refuse => fst (update s i refuse)
  | SShutdown n => shutdown s n
  end.

Definition run_steps (s : bstate) (l : list env_step) : bstate := fold_left step l s.

(* --------------------------------------------- GCPMultiEndpoint.GCPConfig *)
(* NewGCPMultiEndpoint stores proto.Clone(meOpts.GRPCgcpConfig); GCPConfig()
   returns a clone of that *)
Definition gcp_config (o : option ApiConfig) : option ApiConfig := o.

(* the configuration the pool of every endpoint is created with: the default
   service config built by makeOpts, parsed back by ParseConfig *)
Definition service_config (o : option ApiConfig) : option ApiConfig := of_json (marshal o).
