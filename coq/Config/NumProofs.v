(* Engine D/Config: the integer decoders of Json.v on canonical decimal text.
   Both the protojson-as-it-is decoders ([lax]) and the documented mapping
   ([strict]) read back what [render_nat] / [render_int] write, and whatever
   they accept is in range. *)
From GV Require Import Config.Json.
Open Scope Z_scope.

(* ------------------------------------------------------------ bytes *)
Lemma str_eqb_refl : forall s, str_eqb s s = true.
Proof. induction s; simpl; auto. rewrite N.eqb_refl. auto. Qed.

Lemma str_eqb_eq : forall x y, str_eqb x y = true <-> x = y.
Proof.
  induction x; destruct y; simpl; split; intros H; try discriminate; auto.
  - apply andb_true_iff in H. destruct H as [H1 H2]. apply N.eqb_eq in H1. apply IHx in H2. subst; auto.
  - inversion H; subst. rewrite N.eqb_refl. simpl. apply IHx. auto.
Qed.

Lemma is_digit_range : forall c, is_digit c = true <-> (48 <= c <= 57)%N.
Proof.
  intros c. unfold is_digit. rewrite andb_true_iff, !N.leb_le. tauto.
Qed.

Lemma is_19_range : forall c, is_19 c = true <-> (49 <= c <= 57)%N.
Proof.
  intros c. unfold is_19. rewrite andb_true_iff, !N.leb_le. tauto.
Qed.

Lemma is_19_digit : forall c, is_19 c = true -> is_digit c = true.
Proof. intros c H. apply is_19_range in H. apply is_digit_range. lia. Qed.

Lemma digit_byte : forall k, 0 <= k <= 9 -> is_digit (Z.to_N (48 + k)) = true /\ Z.of_N (Z.to_N (48 + k)) - 48 = k.
Proof.
  intros k H. split.
  - apply is_digit_range. lia.
  - lia.
Qed.

(* ------------------------------------------------------------ digits_val *)
Lemma digits_val_app1 : forall l c, digits_val (l ++ [c]) = digits_val l * 10 + (Z.of_N c - 48).
Proof. intros. unfold digits_val. rewrite fold_left_app. reflexivity. Qed.

Lemma fold_digits_nonneg : forall l a, all_digits l = true -> 0 <= a ->
  0 <= fold_left (fun a c => a * 10 + (Z.of_N c - 48)) l a.
Proof.
  induction l; simpl; intros a0 H Ha; auto.
  apply andb_true_iff in H. destruct H as [H1 H2]. apply is_digit_range in H1.
  apply IHl; auto. lia.
Qed.

Lemma digits_val_nonneg : forall l, all_digits l = true -> 0 <= digits_val l.
Proof. intros. unfold digits_val. apply fold_digits_nonneg; auto. lia. Qed.

Lemma all_digits_app : forall a b, all_digits (a ++ b) = (all_digits a && all_digits b)%bool.
Proof. intros. unfold all_digits. apply forallb_app. Qed.

(* ------------------------------------------------------------ render *)
Definition canonical (n : Z) (l : str) : Prop :=
  digits_val l = n /\ all_digits l = true /\
  ((n = 0 /\ l = [48%N]) \/ (0 < n /\ exists c r, l = c :: r /\ is_19 c = true)).

Lemma render_fuel_spec : forall f n, 0 <= n < 10 ^ Z.of_nat f -> (0 < f)%nat ->
  canonical n (render_fuel f n) /\ (List.length (render_fuel f n) <= f)%nat.
Proof.
  induction f; intros n Hn Hf; [lia|].
  cbn [render_fuel].
  destruct (n <? 10) eqn:E.
  - apply Z.ltb_lt in E.
    assert (Hk : 0 <= n <= 9) by lia.
    destruct (digit_byte n Hk) as [Hd Hv].
    split; [|simpl; lia].
    unfold canonical. split; [|split].
    + unfold digits_val. cbn [fold_left]. rewrite Hv. lia.
    + unfold all_digits. cbn [forallb]. rewrite Hd. reflexivity.
    + destruct (Z.eq_dec n 0) as [->|Hnz].
      * left. split; auto.
      * right. split; [lia|]. exists (Z.to_N (48 + n)), []. split; auto.
        apply is_19_range. lia.
  - apply Z.ltb_ge in E.
    assert (Hf' : (0 < f)%nat).
    { destruct f; [|lia]. simpl in Hn. lia. }
    assert (Hq : 0 <= n / 10 < 10 ^ Z.of_nat f).
    { rewrite Nat2Z.inj_succ, Z.pow_succ_r in Hn by lia.
      split; [apply Z.div_pos; lia|]. apply Z.div_lt_upper_bound; lia. }
    destruct (IHf (n / 10) Hq Hf') as [[Hv [Hd Hs]] Hl].
    assert (Hm : 0 <= n mod 10 <= 9) by (pose proof (Z.mod_pos_bound n 10); lia).
    destruct (digit_byte (n mod 10) Hm) as [Hd2 Hv2].
    split.
    + unfold canonical. split; [|split].
      * rewrite digits_val_app1, Hv, Hv2. pose proof (Z.div_mod n 10). lia.
      * rewrite all_digits_app, Hd. unfold all_digits. cbn [forallb andb]. rewrite Hd2. reflexivity.
      * right. split; [lia|].
        destruct Hs as [[Hz _]|[_ [c [r [Hcr Hc]]]]].
        { assert (1 <= n / 10) by (apply Z.div_le_lower_bound; lia). lia. }
        { exists c, (r ++ [Z.to_N (48 + n mod 10)]). rewrite Hcr. split; auto. }
    + rewrite app_length. simpl. lia.
Qed.

Definition lt_1e20 (n : Z) : Prop := 0 <= n < 10 ^ 20.

Lemma render_nat_spec : forall n, lt_1e20 n ->
  canonical n (render_nat n) /\ (List.length (render_nat n) <= 20)%nat.
Proof.
  intros n H. unfold render_nat. apply render_fuel_spec; [|lia]. exact H.
Qed.

Lemma max_u64_lt : forall n max, 0 <= n <= max -> max <= max_u64 -> lt_1e20 n.
Proof. intros n max H1 H2. unfold lt_1e20, max_u64 in *. lia. Qed.

(* ------------------------------------------------------------ the scan *)
Lemma span_digits_all : forall r, all_digits r = true -> span_digits r = (r, []).
Proof.
  induction r; simpl; intros H; auto.
  apply andb_true_iff in H. destruct H as [H1 H2]. rewrite H1, (IHr H2). reflexivity.
Qed.

Lemma span_digits_fst : forall s, all_digits (fst (span_digits s)) = true.
Proof.
  induction s; simpl; auto.
  destruct (is_digit a) eqn:E; simpl; auto.
  destruct (span_digits s); simpl in *. rewrite E, IHs. reflexivity.
Qed.

(* a canonical digit string: first byte, rest *)
Definition canon_shape (l : str) : Prop :=
  all_digits l = true /\ (l = [48%N] \/ exists c r, l = c :: r /\ is_19 c = true).

Lemma canonical_shape : forall n l, canonical n l -> canon_shape l.
Proof.
  intros n l [_ [Hd [[_ Hl]|[_ H]]]]; split; auto.
Qed.

Lemma canon_nonempty : forall l, canon_shape l -> l <> [].
Proof. intros l [_ [->|[c [r [-> _]]]]]; discriminate. Qed.

Lemma int_part_canon : forall l, canon_shape l -> int_part l = Some (l, []).
Proof.
  intros l [Hd [->|[c [r [-> Hc]]]]]; [reflexivity|].
  simpl in Hd. apply andb_true_iff in Hd. destruct Hd as [_ Hr].
  unfold int_part. rewrite Hc.
  assert (N.eqb c 48 = false) as ->.
  { apply N.eqb_neq. apply is_19_range in Hc. lia. }
  rewrite (span_digits_all r Hr). reflexivity.
Qed.

Lemma strip_minus_canon : forall l, canon_shape l -> strip_minus l = (false, l).
Proof.
  intros l [Hd H]. destruct l as [|c r]; [reflexivity|].
  simpl in Hd. apply andb_true_iff in Hd. destruct Hd as [Hc _]. apply is_digit_range in Hc.
  unfold strip_minus. assert (N.eqb c 45 = false) as -> by (apply N.eqb_neq; lia). reflexivity.
Qed.

Lemma lex_num_canon : forall l, canon_shape l -> lex_num l = Some (mkLexed false l [] [] []).
Proof.
  intros l H. unfold lex_num. rewrite (strip_minus_canon l H), (int_part_canon l H). reflexivity.
Qed.

Lemma lex_num_minus_canon : forall l, canon_shape l -> lex_num (45%N :: l) = Some (mkLexed true l [] [] []).
Proof.
  intros l H. unfold lex_num. change (strip_minus (45%N :: l)) with (true, l). cbv iota beta. rewrite (int_part_canon l H). reflexivity.
Qed.

Lemma parse_number_canon : forall l, canon_shape l -> parse_number l = Some (List.length l).
Proof.
  intros l H. unfold parse_number. rewrite (lex_num_canon l H). simpl. rewrite Nat.sub_0_r. reflexivity.
Qed.

Lemma canon_int_field : forall n l, canonical n l ->
  (if str_eqb l [48%N] then [] else l) = (if n =? 0 then [] else l).
Proof.
  intros n l [_ [_ [[-> ->]|[Hn [c [r [-> Hc]]]]]]]; [reflexivity|].
  assert (n =? 0 = false) as -> by (apply Z.eqb_neq; lia).
  simpl. assert (N.eqb c 48 = false) as ->; [|reflexivity].
  apply N.eqb_neq. apply is_19_range in Hc. lia.
Qed.

Lemma normalize_canon : forall neg n l, canonical n l -> (List.length l <= 20)%nat ->
  normalize (mkParts neg (if n =? 0 then [] else l) [] []) =
  Some (if n =? 0 then IZero else IDigits neg l).
Proof.
  intros neg n l Hc Hl. unfold normalize. simpl.
  destruct (n =? 0) eqn:E; [reflexivity|].
  assert (Hne : l <> []) by (eapply canon_nonempty, canonical_shape; eauto).
  destruct l as [|c r]; [congruence|].
  cbn [List.length Nat.eqb andb np_int np_frac np_exp np_neg].
  change (0 <=? 0) with true. cbv iota.
  change (Z.of_nat 0 >? 0) with false. cbv iota.
  assert ((Z.of_nat (S (List.length r)) + 0 >? 20) = false) as ->.
  { rewrite Z.gtb_ltb. apply Z.ltb_ge. cbn [List.length] in Hl. lia. }
  change (Z.to_nat (0 - Z.of_nat 0)) with 0%nat. cbn [zeros repeat].
  rewrite !app_nil_r. reflexivity.
Qed.

Lemma raw_intstr_canon : forall n l, canonical n l -> (List.length l <= 20)%nat ->
  raw_intstr l = Some (if n =? 0 then IZero else IDigits false l).
Proof.
  intros n l Hc Hl. unfold raw_intstr, number_parts.
  rewrite (lex_num_canon l (canonical_shape n l Hc)).
  cbn [lx_neg lx_int lx_frac lx_exp lx_rest]. change (trim_right_zeros []) with (@nil N).
  pose proof (canon_int_field n l Hc) as X. unfold str in X |- *. rewrite X. apply normalize_canon; auto.
Qed.

Lemma raw_intstr_minus_canon : forall n l, canonical n l -> (List.length l <= 20)%nat ->
  raw_intstr (45%N :: l) = Some (if n =? 0 then IZero else IDigits true l).
Proof.
  intros n l Hc Hl. unfold raw_intstr, number_parts.
  rewrite (lex_num_minus_canon l (canonical_shape n l Hc)).
  cbn [lx_neg lx_int lx_frac lx_exp lx_rest]. change (trim_right_zeros []) with (@nil N).
  pose proof (canon_int_field n l Hc) as X. unfold str in X |- *. rewrite X. apply normalize_canon; auto.
Qed.

(* ------------------------------------------------------------ white space *)
Lemma digit_not_space : forall c, is_digit c = true -> ascii_space c = false /\ N.ltb c 128 = true.
Proof.
  intros c H. apply is_digit_range in H. unfold ascii_space. split.
  - repeat (apply orb_false_iff; split); apply N.eqb_neq; lia.
  - apply N.ltb_lt. lia.
Qed.

Lemma all_digits_rev : forall l, all_digits l = true -> all_digits (rev l) = true.
Proof.
  intros l H. unfold all_digits in *. rewrite forallb_forall in *.
  intros x Hx. apply H. apply in_rev. exact Hx.
Qed.

Lemma no_space_digits : forall l, all_digits l = true ->
  starts_with_space l = false /\ ends_with_space l = false.
Proof.
  intros l H. split.
  - destruct l as [|c r]; [reflexivity|]. simpl in *. apply andb_true_iff in H. destruct H as [H _].
    apply digit_not_space in H. tauto.
  - unfold ends_with_space. pose proof (all_digits_rev l H) as Hr.
    destruct (rev l) as [|c r]; [reflexivity|]. simpl in Hr. apply andb_true_iff in Hr. destruct Hr as [Hc _].
    destruct (digit_not_space c Hc) as [H1 H2]. rewrite H2. exact H1.
Qed.

Lemma str_intstr_canon : forall n l, canonical n l -> (List.length l <= 20)%nat ->
  str_intstr l = Some (if n =? 0 then IZero else IDigits false l).
Proof.
  intros n l Hc Hl. unfold str_intstr.
  destruct (no_space_digits l) as [H1 H2]; [apply Hc|]. rewrite H1, H2. simpl.
  rewrite (parse_number_canon l (canonical_shape n l Hc)), firstn_all.
  apply raw_intstr_canon; auto.
Qed.

(* ------------------------------------------------- protojson as it is *)
Lemma intstr_uint_canon : forall max n l, canonical n l -> n <= max ->
  intstr_uint max (if n =? 0 then IZero else IDigits false l) = Some n.
Proof.
  intros max n l Hc Hm. destruct (n =? 0) eqn:E.
  - apply Z.eqb_eq in E. subst. reflexivity.
  - simpl. assert (Hne : l <> []) by (eapply canon_nonempty, canonical_shape; eauto).
    destruct l as [|c r]; [congruence|].
    destruct Hc as [Hv _]. rewrite Hv.
    assert (n <=? max = true) as -> by (apply Z.leb_le; lia). reflexivity.
Qed.

Lemma lax_uint_num : forall max n, 0 <= n <= max -> max <= max_u64 ->
  lax_uint max (JNum (render_nat n)) = Some n.
Proof.
  intros max n H1 H2. destruct (render_nat_spec n (max_u64_lt n max H1 H2)) as [Hc Hl].
  simpl. rewrite (raw_intstr_canon n _ Hc Hl). apply intstr_uint_canon; auto. lia.
Qed.

Lemma lax_uint_str : forall max n, 0 <= n <= max -> max <= max_u64 ->
  lax_uint max (JStr (render_nat n)) = Some n.
Proof.
  intros max n H1 H2. destruct (render_nat_spec n (max_u64_lt n max H1 H2)) as [Hc Hl].
  simpl. rewrite (str_intstr_canon n _ Hc Hl). apply intstr_uint_canon; auto. lia.
Qed.

Definition i32 (v : Z) : Prop := -2147483648 <= v <= 2147483647.

Lemma lax_enum_num_render : forall v, i32 v -> lax_enum_num (JNum (render_int v)) = Some v.
Proof.
  intros v Hv. unfold i32 in Hv. unfold render_int. destruct (v <? 0) eqn:E.
  - apply Z.ltb_lt in E.
    assert (Hr : lt_1e20 (- v)) by (unfold lt_1e20; lia).
    destruct (render_nat_spec (- v) Hr) as [Hc Hl].
    simpl. rewrite (raw_intstr_minus_canon (- v) _ Hc Hl).
    assert (- v =? 0 = false) as -> by (apply Z.eqb_neq; lia).
    simpl. assert (Hne : render_nat (- v) <> []) by (eapply canon_nonempty, canonical_shape; eauto).
    destruct (render_nat (- v)) as [|c r] eqn:El; [congruence|].
    destruct Hc as [Hd _]. rewrite Hd.
    assert (- v <=? 2147483648 = true) as -> by (apply Z.leb_le; lia).
    f_equal. lia.
  - apply Z.ltb_ge in E.
    assert (Hr : lt_1e20 v) by (unfold lt_1e20; lia).
    destruct (render_nat_spec v Hr) as [Hc Hl].
    simpl. rewrite (raw_intstr_canon v _ Hc Hl).
    destruct (v =? 0) eqn:Ez.
    + apply Z.eqb_eq in Ez. subst. reflexivity.
    + simpl. assert (Hne : render_nat v <> []) by (eapply canon_nonempty, canonical_shape; eauto).
      destruct (render_nat v) as [|c r] eqn:El; [congruence|].
      destruct Hc as [Hd _]. rewrite Hd.
      assert (v <=? 2147483647 = true) as -> by (apply Z.leb_le; lia). reflexivity.
Qed.

(* ------------------------------------------------ the documented mapping *)
Lemma rfc_number_canon : forall l, canon_shape l -> rfc_number l = Some (mkRfc false l [] false []).
Proof.
  intros l H. unfold rfc_number. rewrite (strip_minus_canon l H), (int_part_canon l H). reflexivity.
Qed.

Lemma rfc_number_minus_canon : forall l, canon_shape l -> rfc_number (45%N :: l) = Some (mkRfc true l [] false []).
Proof.
  intros l H. unfold rfc_number. change (strip_minus (45%N :: l)) with (true, l). cbv iota beta. rewrite (int_part_canon l H). reflexivity.
Qed.

Lemma rfc_value_canon : forall neg n l, canonical n l ->
  rfc_int_value (mkRfc neg l [] false []) = Some (if neg then - n else n).
Proof.
  intros neg n l [Hv _]. unfold rfc_int_value. simpl. rewrite app_nil_r, Hv.
  destruct (n =? 0) eqn:E.
  - apply Z.eqb_eq in E. rewrite E. destruct neg; reflexivity.
  - destruct neg; f_equal; lia.
Qed.

Lemma strict_uint_num : forall max n, 0 <= n <= max -> max <= max_u64 ->
  strict_uint max (JNum (render_nat n)) = Some n.
Proof.
  intros max n H1 H2. destruct (render_nat_spec n (max_u64_lt n max H1 H2)) as [Hc Hl].
  simpl. unfold strict_int_of. rewrite (rfc_number_canon _ (canonical_shape n _ Hc)), (rfc_value_canon false n _ Hc).
  assert (((0 <=? n) && (n <=? max))%bool = true) as ->; [|reflexivity].
  apply andb_true_iff. split; apply Z.leb_le; lia.
Qed.

Lemma strict_uint_str : forall max n, 0 <= n <= max -> max <= max_u64 ->
  strict_uint max (JStr (render_nat n)) = Some n.
Proof. intros. change (strict_uint max (JStr (render_nat n))) with (strict_uint max (JNum (render_nat n))). apply strict_uint_num; auto. Qed.

Lemma strict_enum_num_render : forall v, i32 v -> strict_enum_num (JNum (render_int v)) = Some v.
Proof.
  intros v Hv. unfold i32 in Hv. unfold render_int.
  assert (Hrange : ((-2147483648 <=? v) && (v <=? 2147483647))%bool = true).
  { apply andb_true_iff. split; apply Z.leb_le; lia. }
  destruct (v <? 0) eqn:E.
  - apply Z.ltb_lt in E.
    assert (Hr : lt_1e20 (- v)) by (unfold lt_1e20; lia).
    destruct (render_nat_spec (- v) Hr) as [Hc Hl].
    simpl. unfold strict_int_of.
    rewrite (rfc_number_minus_canon _ (canonical_shape _ _ Hc)), (rfc_value_canon true _ _ Hc).
    rewrite Z.opp_involutive, Hrange. reflexivity.
  - apply Z.ltb_ge in E.
    assert (Hr : lt_1e20 v) by (unfold lt_1e20; lia).
    destruct (render_nat_spec v Hr) as [Hc Hl].
    simpl. unfold strict_int_of.
    rewrite (rfc_number_canon _ (canonical_shape _ _ Hc)), (rfc_value_canon false _ _ Hc), Hrange. reflexivity.
Qed.

(* ---------------------------------------------- what a decoder must do *)
Record good_decoders (d : decoders) : Prop := mkGood {
  gd_num : forall max n, 0 <= n <= max -> max <= max_u64 -> d_uint d max (JNum (render_nat n)) = Some n;
  gd_str : forall max n, 0 <= n <= max -> max <= max_u64 -> d_uint d max (JStr (render_nat n)) = Some n;
  gd_enum : forall v, i32 v -> d_enum_num d (JNum (render_int v)) = Some v;
  gd_uint_range : forall max j v, 0 <= max -> d_uint d max j = Some v -> 0 <= v <= max;
  gd_enum_range : forall j v, d_enum_num d j = Some v -> i32 v
}.

(* ---- ranges of accepted values *)
Lemma strict_uint_range : forall max j v, strict_uint max j = Some v -> 0 <= v <= max.
Proof.
  intros max j v H. unfold strict_uint in H.
  assert (forall raw, match strict_int_of raw with
                      | Some v0 => if ((0 <=? v0) && (v0 <=? max))%bool then Some v0 else None
                      | None => None end = Some v -> 0 <= v <= max) as A.
  { intros raw. destruct (strict_int_of raw) as [v0|]; [|discriminate].
    destruct ((0 <=? v0) && (v0 <=? max))%bool eqn:E; [|discriminate].
    intros X. inversion X; subst. apply andb_true_iff in E. destruct E as [E1 E2].
    apply Z.leb_le in E1. apply Z.leb_le in E2. lia. }
  destruct j; try discriminate; eapply A; eauto.
Qed.

Lemma strict_enum_range : forall j v, strict_enum_num j = Some v -> i32 v.
Proof.
  intros j v H. unfold strict_enum_num in H. destruct j; try discriminate.
  destruct (strict_int_of raw) as [v0|]; [|discriminate].
  destruct ((-2147483648 <=? v0) && (v0 <=? 2147483647))%bool eqn:E; [|discriminate].
  inversion H; subst. apply andb_true_iff in E. destruct E as [E1 E2].
  apply Z.leb_le in E1. apply Z.leb_le in E2. unfold i32. lia.
Qed.

(* digits produced by the scan *)
Lemma all_digits_drop_zeros : forall s, all_digits s = true -> all_digits (drop_zeros s) = true.
Proof.
  induction s; simpl; intros H; auto.
  destruct (N.eqb a 48); auto.
  apply andb_true_iff in H. apply IHs. tauto.
Qed.

Lemma all_digits_trim : forall s, all_digits s = true -> all_digits (trim_right_zeros s) = true.
Proof.
  intros s H. unfold trim_right_zeros. apply all_digits_rev, all_digits_drop_zeros, all_digits_rev. exact H.
Qed.

Lemma int_part_digits : forall s ip t, int_part s = Some (ip, t) -> all_digits ip = true.
Proof.
  intros s ip t H. unfold int_part in H. destruct s as [|c r]; [discriminate|].
  destruct (N.eqb c 48) eqn:E.
  - inversion H; subst. apply N.eqb_eq in E. subst. reflexivity.
  - destruct (is_19 c) eqn:E2; [|discriminate].
    pose proof (span_digits_fst r) as Hs. destruct (span_digits r) as [d t']. inversion H; subst.
    simpl in *. rewrite (is_19_digit c E2), Hs. reflexivity.
Qed.

Lemma frac_part_digits : forall s, all_digits (fst (frac_part s)) = true.
Proof.
  intros s. unfold frac_part. destruct s as [|c [|c2 r2]]; try reflexivity.
  destruct (N.eqb c 46 && is_digit c2)%bool eqn:E; [|reflexivity].
  apply andb_true_iff in E. destruct E as [_ E].
  pose proof (span_digits_fst r2) as Hs. destruct (span_digits r2) as [d t]. simpl in *. rewrite E, Hs. reflexivity.
Qed.

Lemma number_parts_digits : forall raw p, number_parts raw = Some p ->
  all_digits (np_int p) = true /\ all_digits (np_frac p) = true.
Proof.
  intros raw p H. unfold number_parts, lex_num in H.
  destruct (strip_minus raw) as [neg s0].
  destruct (int_part s0) as [[ip s1]|] eqn:Ei; [|discriminate].
  pose proof (frac_part_digits s1) as Hf. destruct (frac_part s1) as [fr s2]. simpl in Hf.
  destruct (exp_part s2) as [[ex s3]|]; [|discriminate].
  inversion H; subst; simpl. split.
  - destruct (str_eqb ip [48%N]); [reflexivity|]. eapply int_part_digits; eauto.
  - apply all_digits_trim. exact Hf.
Qed.

Lemma all_digits_firstn : forall k s, all_digits s = true -> all_digits (firstn k s) = true.
Proof.
  induction k; destruct s; simpl; intros H; auto.
  apply andb_true_iff in H. destruct H as [H1 H2]. rewrite H1, (IHk _ H2). reflexivity.
Qed.

Lemma all_digits_zeros : forall k, all_digits (zeros k) = true.
Proof. induction k; simpl; auto. Qed.

Definition intstr_digits (i : intstr) : Prop :=
  match i with IZero => True | IDigits _ d => all_digits d = true end.

Lemma normalize_digits : forall p i, all_digits (np_int p) = true -> all_digits (np_frac p) = true ->
  normalize p = Some i -> intstr_digits i.
Proof.
  intros p i Hi Hf H. unfold normalize in H. cbv zeta in H.
  destruct (Nat.eqb (List.length (np_int p)) 0 && Nat.eqb (List.length (np_frac p)) 0)%bool.
  - inversion H; subst. exact I.
  - match type of H with context [match ?x with Some _ => _ | None => None end] => destruct x as [e|] end; [|discriminate].
    destruct (0 <=? e).
    + destruct (Z.of_nat (List.length (np_frac p)) >? e); [discriminate|].
      destruct (Z.of_nat (List.length (np_int p)) + e >? 20); [discriminate|].
      inversion H; subst. simpl. rewrite !all_digits_app, Hi, Hf, all_digits_zeros. reflexivity.
    + destruct (Nat.ltb 0 (List.length (np_frac p))); [discriminate|].
      destruct (Z.of_nat (List.length (np_int p)) + e <? 0); [discriminate|].
      destruct (forallb (N.eqb 48) (skipn (Z.to_nat (Z.of_nat (List.length (np_int p)) + e)) (np_int p))); [|discriminate].
      inversion H; subst. simpl. apply all_digits_firstn. exact Hi.
Qed.

Lemma raw_intstr_digits : forall raw i, raw_intstr raw = Some i -> intstr_digits i.
Proof.
  intros raw i H. unfold raw_intstr in H. destruct (number_parts raw) as [p|] eqn:E; [|discriminate].
  destruct (number_parts_digits raw p E) as [H1 H2]. eapply normalize_digits; eauto.
Qed.

Lemma intstr_uint_range : forall max i v, 0 <= max -> intstr_digits i -> intstr_uint max i = Some v -> 0 <= v <= max.
Proof.
  intros max i v Hmax Hd H. destruct i as [|neg d]; simpl in *.
  - inversion H; subst. lia.
  - destruct neg; [discriminate|]. destruct d as [|c r]; [discriminate|].
    destruct (digits_val (c :: r) <=? max) eqn:E; [|discriminate].
    inversion H; subst. apply Z.leb_le in E. split; auto. apply digits_val_nonneg. exact Hd.
Qed.

Lemma intstr_int32_range : forall i v, intstr_digits i -> intstr_int32 i = Some v -> i32 v.
Proof.
  intros i v Hd H. unfold i32. destruct i as [|neg d]; simpl in *.
  - inversion H; subst. lia.
  - destruct d as [|c r]; [discriminate|].
    pose proof (digits_val_nonneg _ Hd) as Hn.
    destruct neg.
    + destruct (digits_val (c :: r) <=? 2147483648) eqn:E; [|discriminate].
      inversion H; subst. apply Z.leb_le in E. lia.
    + destruct (digits_val (c :: r) <=? 2147483647) eqn:E; [|discriminate].
      inversion H; subst. apply Z.leb_le in E. lia.
Qed.

Lemma str_intstr_digits : forall s i, str_intstr s = Some i -> intstr_digits i.
Proof.
  intros s i H. unfold str_intstr in H.
  destruct (starts_with_space s || ends_with_space s)%bool; [discriminate|].
  destruct (parse_number s); [|discriminate]. eapply raw_intstr_digits; eauto.
Qed.

Lemma lax_uint_range : forall max j v, 0 <= max -> lax_uint max j = Some v -> 0 <= v <= max.
Proof.
  intros max j v Hm H. destruct j; simpl in H; try discriminate.
  - destruct (raw_intstr raw) eqn:E; [|discriminate].
    eapply intstr_uint_range; eauto. eapply raw_intstr_digits; eauto.
  - destruct (str_intstr s) eqn:E; [|discriminate].
    eapply intstr_uint_range; eauto. eapply str_intstr_digits; eauto.
Qed.

Lemma lax_enum_range : forall j v, lax_enum_num j = Some v -> i32 v.
Proof.
  intros j v H. destruct j; simpl in H; try discriminate.
  destruct (raw_intstr raw) eqn:E; [|discriminate].
  eapply intstr_int32_range; eauto. eapply raw_intstr_digits; eauto.
Qed.

Lemma lax_good : good_decoders lax.
Proof.
  constructor; simpl.
  - exact lax_uint_num.
  - exact lax_uint_str.
  - exact lax_enum_num_render.
  - exact lax_uint_range.
  - exact lax_enum_range.
Qed.

Lemma strict_good : good_decoders strict.
Proof.
  constructor; simpl.
  - exact strict_uint_num.
  - exact strict_uint_str.
  - exact strict_enum_num_render.
  - intros max j v _. apply strict_uint_range.
  - exact strict_enum_range.
Qed.
