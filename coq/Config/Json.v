(* Engine D/Config: JSON values as the protojson decoder sees them, and the two
   integer decoders used for the uint32/uint64/enum fields of grpc.gcp.ApiConfig.

   Strings (object keys, string values, number lexemes) are lists of bytes
   ([N] < 256, UTF-8).  A [JNum] carries its *lexeme* exactly as it stands in
   the text, because protojson (google.golang.org/protobuf v1.30.0, the version
   pinned by grpcgcp/go.mod) decides integrality on the digits, not on a value:

     internal/encoding/json/decode_number.go   parseNumber, parseNumberParts,
                                               normalizeToIntString
     internal/encoding/json/decode_token.go    Token.Int / Token.Uint
     encoding/protojson/decode.go              unmarshalInt / unmarshalUint

   [lax_*]    = those functions as they are (function for function);
   [strict_*] = the documented proto3 JSON mapping: the whole string is one
                RFC 8259 number and the number denotes an integer in range.
   No proofs in this file. *)
From Coq Require Export List ZArith NArith Bool Lia.
From Coq Require Import String Ascii.
Export ListNotations.
Open Scope Z_scope.

Definition str := list N.

(* byte string of a Coq string literal (only used to write field names) *)
Definition b (s : string) : str := List.map N_of_ascii (list_ascii_of_string s).
Arguments b s%string.

Fixpoint str_eqb (x y : str) : bool :=
  match x, y with
  | [], [] => true
  | c :: x', d :: y' => N.eqb c d && str_eqb x' y'
  | _, _ => false
  end.

Inductive json :=
| JNull
| JBool (v : bool)
| JNum (raw : str)
| JStr (s : str)
| JArr (l : list json)
| JObj (l : list (str * json)).

Fixpoint json_eqb (x y : json) : bool :=
  match x, y with
  | JNull, JNull => true
  | JBool u, JBool v => Bool.eqb u v
  | JNum u, JNum v => str_eqb u v
  | JStr u, JStr v => str_eqb u v
  | JArr u, JArr v =>
      (fix go (u v : list json) : bool :=
         match u, v with
         | [], [] => true
         | a :: u', c :: v' => json_eqb a c && go u' v'
         | _, _ => false
         end) u v
  | JObj u, JObj v =>
      (fix go (u v : list (str * json)) : bool :=
         match u, v with
         | [], [] => true
         | (k, a) :: u', (k', c) :: v' => str_eqb k k' && json_eqb a c && go u' v'
         | _, _ => false
         end) u v
  | _, _ => false
  end.

(* ------------------------------------------------------------------ bytes *)
Definition is_digit (c : N) : bool := (N.leb 48 c && N.leb c 57)%bool.
Definition is_19 (c : N) : bool := (N.leb 49 c && N.leb c 57)%bool.
Definition is_alpha (c : N) : bool :=
  ((N.leb 97 c && N.leb c 122) || (N.leb 65 c && N.leb c 90))%bool.

(* isNotDelim (decode.go): '-' '+' '.' '_' letters digits *)
Definition is_not_delim (c : N) : bool :=
  (N.eqb c 45 || N.eqb c 43 || N.eqb c 46 || N.eqb c 95 || is_alpha c || is_digit c)%bool.

Definition next_is_delim (s : str) : bool :=
  match s with [] => true | c :: _ => negb (is_not_delim c) end.

Fixpoint span_digits (s : str) : str * str :=
  match s with
  | [] => ([], [])
  | c :: r => if is_digit c then let (d, t) := span_digits r in (c :: d, t) else ([], s)
  end.

Definition all_digits (s : str) : bool := forallb is_digit s.

(* value of a digit string, most significant first *)
Definition digits_val (s : str) : Z :=
  fold_left (fun a c => a * 10 + (Z.of_N c - 48)) s 0.

(* ------------------------------------------------- canonical decimal text *)
(* 20 digits are enough for every uint64 *)
Fixpoint render_fuel (f : nat) (n : Z) : str :=
  match f with
  | O => []
  | S f' => if n <? 10 then [Z.to_N (48 + n)]
            else render_fuel f' (n / 10) ++ [Z.to_N (48 + n mod 10)]
  end.

Definition render_nat (n : Z) : str := render_fuel 20 n.
Definition render_int (z : Z) : str := if z <? 0 then 45%N :: render_nat (- z) else render_nat z.

(* ------------------------------------------- parseNumber / parseNumberParts *)
(* The two Go functions scan a number with the same control flow (sign, integer
   digits, fraction, exponent); parseNumber then checks that a delimiter
   follows and returns the length, parseNumberParts returns the pieces and
   ignores whatever follows.  [lex_num] is that common scan.  Note the
   exponent: after e/E at least one more byte must exist, a sign must be
   followed by at least one more byte, but no digit is required ("1e," is the
   Number token "1e"). *)
Definition is_e (c : N) : bool := (N.eqb c 101 || N.eqb c 69)%bool.
Definition is_sign (c : N) : bool := (N.eqb c 43 || N.eqb c 45)%bool.

Definition strip_minus (s : str) : bool * str :=
  match s with
  | c :: r => if N.eqb c 45 then (true, r) else (false, s)
  | [] => (false, s)
  end.

(* integer digits as written ("0" or a non-zero digit followed by digits) *)
Definition int_part (s : str) : option (str * str) :=
  match s with
  | [] => None
  | c :: r => if N.eqb c 48 then Some ([c], r)
              else if is_19 c then let (d, t) := span_digits r in Some (c :: d, t)
              else None
  end.

(* '.' followed by one or more digits, else nothing is consumed *)
Definition frac_part (s : str) : str * str :=
  match s with
  | c :: c2 :: r2 => if (N.eqb c 46 && is_digit c2)%bool then let (d, t) := span_digits r2 in (c2 :: d, t)
                     else ([], s)
  | _ => ([], s)
  end.

(* exponent as written after e/E (sign and digits), and the rest *)
Definition exp_part (s : str) : option (str * str) :=
  match s with
  | e :: c3 :: r3 =>
      if is_e e then
        if is_sign c3 then
          match r3 with
          | [] => None
          | _ => let (d, t) := span_digits r3 in Some (c3 :: d, t)
          end
        else let (d, t) := span_digits (c3 :: r3) in Some (d, t)
      else Some ([], s)
  | _ => Some ([], s)
  end.

Record lexed := mkLexed { lx_neg : bool; lx_int : str; lx_frac : str; lx_exp : str; lx_rest : str }.

Definition lex_num (s : str) : option lexed :=
  let (neg, s0) := strip_minus s in
  match int_part s0 with
  | None => None
  | Some (ip, s1) =>
      let (fr, s2) := frac_part s1 in
      match exp_part s2 with
      | None => None
      | Some (ex, s3) => Some (mkLexed neg ip fr ex s3)
      end
  end.

(* Length of the JSON number at the head of the input, as the tokenizer takes it. *)
Definition parse_number (input : str) : option nat :=
  match lex_num input with
  | Some l => if next_is_delim (lx_rest l) then Some (List.length input - List.length (lx_rest l))%nat else None
  | None => None
  end.

Record numparts := mkParts {
  np_neg : bool;
  np_int : str;    (* integer digits; empty when the number starts with 0 *)
  np_frac : str;   (* fraction digits with trailing zeros removed *)
  np_exp : str     (* exponent as written after e/E: optional sign and digits *)
}.

Fixpoint drop_zeros (s : str) : str :=
  match s with
  | c :: r => if N.eqb c 48 then drop_zeros r else s
  | [] => []
  end.
Definition trim_right_zeros (s : str) : str := rev (drop_zeros (rev s)).

(* applied to the raw bytes of a Number token *)
Definition number_parts (raw : str) : option numparts :=
  match lex_num raw with
  | Some l => Some (mkParts (lx_neg l)
                            (if str_eqb (lx_int l) [48%N] then [] else lx_int l)
                            (trim_right_zeros (lx_frac l)) (lx_exp l))
  | None => None
  end.

(* strconv.ParseInt(s, 10, 32) on a sign-and-digits string *)
Definition parse_int32 (s : str) : option Z :=
  let '(neg, d) := match s with
                   | c :: r => if N.eqb c 43 then (false, r) else if N.eqb c 45 then (true, r) else (false, s)
                   | [] => (false, s)
                   end in
  match d with
  | [] => None
  | _ => if all_digits d then
           let v := digits_val d in
           if neg then (if v <=? 2147483648 then Some (- v) else None)
           else (if v <=? 2147483647 then Some v else None)
         else None
  end.

Definition zeros (k : nat) : str := repeat 48%N k.

(* normalizeToIntString: Some (zero, neg, digits) *)
Inductive intstr := IZero | IDigits (neg : bool) (d : str).

Definition normalize (p : numparts) : option intstr :=
  let isz := List.length (np_int p) in
  let fsz := List.length (np_frac p) in
  if (Nat.eqb isz 0 && Nat.eqb fsz 0)%bool then Some IZero
  else
    let oe := match np_exp p with [] => Some 0 | e => parse_int32 e end in
    match oe with
    | None => None
    | Some e =>
      if 0 <=? e then
        if Z.of_nat fsz >? e then None
        else if Z.of_nat isz + e >? 20 then None
        else Some (IDigits (np_neg p) (np_int p ++ np_frac p ++ zeros (Z.to_nat (e - Z.of_nat fsz))))
      else
        if Nat.ltb 0 fsz then None
        else
          let index := Z.of_nat isz + e in
          if index <? 0 then None
          else
            let k := Z.to_nat index in
            if forallb (N.eqb 48) (skipn k (np_int p)) then Some (IDigits (np_neg p) (firstn k (np_int p)))
            else None
    end.

(* Token.Uint(bitSize): strconv.ParseUint of the normal form ("-…" never parses) *)
Definition intstr_uint (max : Z) (i : intstr) : option Z :=
  match i with
  | IZero => Some 0
  | IDigits neg d =>
      if neg then None
      else match d with
           | [] => None
           | _ => let v := digits_val d in if v <=? max then Some v else None
           end
  end.

(* Token.Int(32) *)
Definition intstr_int32 (i : intstr) : option Z :=
  match i with
  | IZero => Some 0
  | IDigits neg d =>
      match d with
      | [] => None
      | _ => let v := digits_val d in
             if neg then (if v <=? 2147483648 then Some (- v) else None)
             else (if v <=? 2147483647 then Some v else None)
      end
  end.

Definition raw_intstr (raw : str) : option intstr :=
  match number_parts raw with Some p => normalize p | None => None end.

(* strings.TrimSpace(s) == s : no white space (Unicode White_Space as Go's
   unicode.IsSpace has it) at either end.  A string that starts with white
   space never lexes as a number, so only the tail needs the full table. *)
Definition ascii_space (c : N) : bool :=
  (N.eqb c 32 || N.eqb c 9 || N.eqb c 10 || N.eqb c 11 || N.eqb c 12 || N.eqb c 13)%bool.

Definition ends_with_space (s : str) : bool :=
  match rev s with
  | [] => false
  | c :: r =>
    if N.ltb c 128 then ascii_space c
    else match r with
         | c1 :: r1 =>
           if (N.eqb c1 194 && (N.eqb c 133 || N.eqb c 160))%bool then true            (* U+0085 U+00A0 *)
           else match r1 with
                | c2 :: _ =>
                  ((N.eqb c2 225 && N.eqb c1 154 && N.eqb c 128)                       (* U+1680 *)
                   || (N.eqb c2 226 && N.eqb c1 128 && ((N.leb 128 c && N.leb c 138)   (* U+2000-200A *)
                                                        || N.eqb c 168 || N.eqb c 169 || N.eqb c 175))
                   || (N.eqb c2 226 && N.eqb c1 129 && N.eqb c 159)                    (* U+205F *)
                   || (N.eqb c2 227 && N.eqb c1 128 && N.eqb c 128))%bool              (* U+3000 *)
                | [] => false
                end
         | [] => false
         end
  end.

Definition starts_with_space (s : str) : bool :=
  match s with c :: _ => ascii_space c | [] => false end.

(* unmarshalUint / unmarshalInt on a String token: decode ONE token from the
   string and look no further *)
Definition str_intstr (s : str) : option intstr :=
  if (starts_with_space s || ends_with_space s)%bool then None
  else match parse_number s with
       | Some n => raw_intstr (firstn n s)
       | None => None
       end.

Definition lax_uint (max : Z) (j : json) : option Z :=
  match j with
  | JNum raw => match raw_intstr raw with Some i => intstr_uint max i | None => None end
  | JStr s => match str_intstr s with Some i => intstr_uint max i | None => None end
  | _ => None
  end.

(* enum numbers: unmarshalEnum uses Token.Int(32) on Number tokens only *)
Definition lax_enum_num (j : json) : option Z :=
  match j with
  | JNum raw => match raw_intstr raw with Some i => intstr_int32 i | None => None end
  | _ => None
  end.

(* -------------------------------------------------- the documented mapping *)
(* RFC 8259 number, whole string: optional '-', then 0 or a non-zero digit
   followed by digits, optional '.' and one or more digits, optional e/E with
   optional sign and one or more digits *)
Record rfcnum := mkRfc { rn_neg : bool; rn_int : str; rn_frac : str; rn_eneg : bool; rn_exp : str }.

Definition rfc_number (s : str) : option rfcnum :=
  let (neg, s0) := strip_minus s in
  match int_part s0 with
  | None => None
  | Some (ip, s1) =>
    match s1 with
    | [] => Some (mkRfc neg ip [] false [])
    | c :: r1 =>
      let fr := if N.eqb c 46 then (let (d, t) := span_digits r1 in
                                    match d with [] => None | _ => Some (d, t) end)
                else Some ([], s1) in
      match fr with
      | None => None
      | Some (frac, s2) =>
        match s2 with
        | [] => Some (mkRfc neg ip frac false [])
        | e :: r3 =>
          if is_e e then
            let '(eneg, r4) := match r3 with
                               | c4 :: t => if N.eqb c4 43 then (false, t)
                                            else if N.eqb c4 45 then (true, t) else (false, r3)
                               | [] => (false, r3)
                               end in
            let (d, t) := span_digits r4 in
            match d, t with
            | _ :: _, [] => Some (mkRfc neg ip frac eneg d)
            | _, _ => None
            end
          else None
        end
      end
    end
  end.

(* the integer denoted by the number, if it is one and |v| < 10^26 *)
Definition rfc_int_value (p : rfcnum) : option Z :=
  let ds := rn_int p ++ rn_frac p in
  let m := digits_val ds in
  if m =? 0 then Some 0
  else
    let ev := digits_val (rn_exp p) in
    let e := (if rn_eneg p then - ev else ev) - Z.of_nat (List.length (rn_frac p)) in
    let sg := if rn_neg p then -1 else 1 in
    if 0 <=? e then
      (if e >? 25 then None else Some (sg * m * 10 ^ e))
    else
      let k := - e in
      if k >? Z.of_nat (List.length ds) then None
      else if m mod 10 ^ k =? 0 then Some (sg * (m / 10 ^ k)) else None.

Definition strict_int_of (s : str) : option Z :=
  match rfc_number s with Some p => rfc_int_value p | None => None end.

Definition strict_uint (max : Z) (j : json) : option Z :=
  match j with
  | JNum raw | JStr raw =>
      match strict_int_of raw with
      | Some v => if ((0 <=? v) && (v <=? max))%bool then Some v else None
      | None => None
      end
  | _ => None
  end.

Definition strict_enum_num (j : json) : option Z :=
  match j with
  | JNum raw =>
      match strict_int_of raw with
      | Some v => if ((-2147483648 <=? v) && (v <=? 2147483647))%bool then Some v else None
      | None => None
      end
  | _ => None
  end.

Record decoders := mkDec {
  d_uint : Z -> json -> option Z;
  d_enum_num : json -> option Z
}.

Definition lax : decoders := mkDec lax_uint lax_enum_num.
Definition strict : decoders := mkDec strict_uint strict_enum_num.

Definition max_u32 : Z := 4294967295.
Definition max_u64 : Z := 18446744073709551615.
