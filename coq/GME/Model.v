(* Engine C: executable model of grpcgcp/gcp_multiendpoint.go
   (NewGCPMultiEndpoint, UpdateMultiEndpoints, pickConn, Close, monitoredConn)
   AFTER the fixes proposed in /verif/proposed_fixes/gme_atomic_update.diff:
   all options are validated before anything is changed, missing pools are
   dialled first and registered/monitored only when every dial succeeded.
   The state machine of every named MultiEndpoint is engine B's model
   (ME.Model), reused unchanged.  No proofs in this file.

   Names of MultiEndpoints and endpoints are numbered (N).  A Go map is an
   association list with pairwise distinct keys; where Go iterates a map in
   random order the model either is insensitive to the order (proved) or reads
   the order from the trace (the dial order [oracle]). *)
From GV Require Import ME.Model.
Open Scope Z_scope.

Record pool := mkPool {
  p_id : N;          (* dial number: identity of the *grpc.ClientConn *)
  p_open : bool;     (* conn not closed *)
  p_mon : bool;      (* monitor goroutine running *)
  p_ready : bool     (* conn.GetState() == Ready *)
}.

(* multiendpoint.MultiEndpointOptions *)
Record meopt := mkMO { mo_eps : list N; mo_r : Z; mo_d : Z }.

(* GCPMultiEndpointOptions: Default and MultiEndpoints (a nil *MultiEndpointOptions is None) *)
Record gopts := mkGO { go_default : N; go_mes : list (N * option meopt) }.

Record gst := mkG {
  g_mes : list (N * me);        (* gme.mes *)
  g_pools : list (N * pool);    (* gme.pools *)
  g_default : N;                (* gme.defaultName *)
  g_closed : bool;              (* Close() was called *)
  g_dials : N                   (* number of DialFunc invocations so far *)
}.

Fixpoint gget {V : Type} (m : list (N * V)) (k : N) : option V :=
  match m with
  | [] => None
  | (k', v) :: r => if N.eqb k' k then Some v else gget r k
  end.

Definition gmem {V : Type} (m : list (N * V)) (k : N) : bool :=
  match gget m k with Some _ => true | None => false end.

Fixpoint nodupb (l : list N) : bool :=
  match l with
  | [] => true
  | x :: r => negb (memN x r) && nodupb r
  end.

Definition opt_eps (v : option meopt) : list N :=
  match v with Some mo => mo_eps mo | None => [] end.

(* validPools: the distinct endpoints mentioned by the options *)
Definition mentioned (o : gopts) : list N :=
  nodup N.eq_dec (flat_map (fun nv => opt_eps (snd nv)) (go_mes o)).

Definition opt_ok (v : option meopt) : bool :=
  match v with
  | Some mo => match mo_eps mo with [] => false | _ :: _ => true end
  | None => false
  end.

(* error codes: 0 none, 1 default without options, 2 nil options / empty
   endpoint list, 3 dial error, 4 not a Go map (duplicate names; cannot be
   written in Go), 9 (implementation only) panic *)
Definition check_opts (o : gopts) : Z :=
  if negb (nodupb (map fst (go_mes o))) then 4
  else if negb (gmem (go_mes o) (go_default o)) then 1
  else if forallb (fun nv => opt_ok (snd nv)) (go_mes o) then 0 else 2.

(* The order in which the missing pools are dialled is Go's map iteration
   order: read from the trace ([oracle] = the endpoints of the dial log);
   endpoints the oracle does not mention follow in option order. *)
Definition dial_order (oracle missing : list N) : list N :=
  filter (fun e => memN e missing) (nodup N.eq_dec oracle) ++
  filter (fun e => negb (memN e oracle)) missing.

(* the dial loop: new pools, dial log (endpoint, succeeded), failed?
   [readys]: the endpoints whose ClientConn is already READY when DialFunc
   returns it (e.g. a DialFunc using grpc.WithBlock()): an input, like [fails]. *)
Fixpoint dial_all (fails readys : list N) (n : N) (es : list N) : list (N * pool) * list (N * bool) * bool :=
  match es with
  | [] => ([], [], false)
  | e :: r =>
      if memN e fails then ([], [(e, false)], true)
      else let '(ps, lg, f) := dial_all fails readys (n + 1)%N r in
           ((e, mkPool n true true (memN e readys)) :: ps, (e, true) :: lg, f)
  end.

(* "Add new multi-endpoints and update existing" + "Remove obsolete
   MultiEndpoints": the resulting map has exactly the names of the options. *)
Definition upd_me (mes : list (N * me)) (nv : N * option meopt) : list (N * me) :=
  match snd nv with
  | None => []
  | Some mo =>
      match gget mes (fst nv) with
      | Some m => [(fst nv, fst (SetEndpoints m (mo_eps mo)))]
      | None => match NewMultiEndpoint (mo_eps mo) (mo_r mo) (mo_d mo) with
                | Some (m, _) => [(fst nv, m)]
                | None => []
                end
      end
  end.

Definition new_mes (mes : list (N * me)) (o : gopts) : list (N * me) :=
  flat_map (upd_me mes) (go_mes o).

(* for _, me := range gme.mes { me.SetEndpointAvailability(e, b) } *)
Definition deliver (mes : list (N * me)) (e : N) (b : bool) : list (N * me) :=
  map (fun nm => (fst nm, fst (SetEndpointAvailability (snd nm) e b))) mes.

(* "Trigger status update" *)
Definition sync (mes : list (N * me)) (pools : list (N * pool)) : list (N * me) :=
  fold_left (fun ms ep => deliver ms (fst ep) (p_ready (snd ep))) pools mes.

Record gout := mkGOut {
  og_err : Z;                    (* error code of New/Update *)
  og_dials : list (N * bool);    (* DialFunc invocations of this call, in order *)
  og_call : Z                    (* Call: endpoint whose server got the RPC, -2 not delivered, -1 panic *)
}.

Definition set_dials (s : gst) (n : N) : gst :=
  mkG (g_mes s) (g_pools s) (g_default s) (g_closed s) n.

(* func (gme *GCPMultiEndpoint) UpdateMultiEndpoints(meOpts) error *)
Definition gupdate (s : gst) (o : gopts) (fails oracle readys : list N) : gst * gout :=
  let c := check_opts o in
  if negb (c =? 0) then (s, mkGOut c [] 0)
  else
    let missing := filter (fun e => negb (gmem (g_pools s) e)) (mentioned o) in
    let '(nps, lg, failed) := dial_all fails readys (g_dials s) (dial_order oracle missing) in
    let nd := (g_dials s + N.of_nat (length lg))%N in
    if failed then (set_dials s nd, mkGOut 3 lg 0)
    else
      let pools := filter (fun ep => memN (fst ep) (mentioned o)) (g_pools s ++ nps) in
      let mes := sync (new_mes (g_mes s) o) pools in
      (mkG mes pools (go_default o) (g_closed s) nd, mkGOut 0 lg 0).

(* the object NewGCPMultiEndpoint builds before calling UpdateMultiEndpoints *)
Definition ginit (o : gopts) : gst := mkG [] [] (go_default o) false 0%N.

Definition set_ready (pools : list (N * pool)) (e : N) (b : bool) : list (N * pool) :=
  map (fun ep => if N.eqb (fst ep) e
                 then (fst ep, mkPool (p_id (snd ep)) (p_open (snd ep)) (p_mon (snd ep)) b)
                 else ep) pools.

(* environment: the pool of endpoint e becomes READY / leaves READY; its
   monitor goroutine tells every MultiEndpoint (monitoredConn.notify) *)
Definition gready (s : gst) (e : N) (b : bool) : gst :=
  match gget (g_pools s) e with
  | Some p => if p_mon p
              then mkG (deliver (g_mes s) e b) (set_ready (g_pools s) e b) (g_default s) (g_closed s) (g_dials s)
              else s
  | None => s
  end.

Definition is_timer_op (o : op) : bool :=
  match o with OpAdvance _ | OpBegin _ | OpEnd _ => true | _ => false end.

(* clock / timer events of one named MultiEndpoint (engine B's step) *)
Definition gtick (s : gst) (n : N) (o : op) : gst :=
  if is_timer_op o
  then mkG (map (fun nm => if N.eqb (fst nm) n then (fst nm, fst (step (snd nm) o)) else nm) (g_mes s))
           (g_pools s) (g_default s) (g_closed s) (g_dials s)
  else s.

(* func (gme *GCPMultiEndpoint) Close() error: the maps are kept *)
Definition gclose (s : gst) : gst :=
  mkG (g_mes s)
      (map (fun ep => (fst ep, mkPool (p_id (snd ep)) false false false)) (g_pools s))
      (g_default s) true (g_dials s).

Inductive route :=
| RPanic
| RPool (e : N) (id : N) (open : bool).

(* func (gme *GCPMultiEndpoint) pickConn(ctx) *grpc.ClientConn *)
Definition gpick (s : gst) (ctx : option N) : option me :=
  match ctx with
  | Some n => match gget (g_mes s) n with
              | Some m => Some m
              | None => gget (g_mes s) (g_default s)
              end
  | None => gget (g_mes s) (g_default s)
  end.

Definition groute (s : gst) (ctx : option N) : route :=
  match gpick s ctx with
  | None => RPanic
  | Some m => match gget (g_pools s) (cur m) with
              | None => RPanic
              | Some p => RPool (cur m) (p_id p) (p_open p)
              end
  end.

(* a real RPC: reaches the server of the routed endpoint iff that pool is READY *)
Definition gcall (s : gst) (ctx : option N) : Z :=
  match gpick s ctx with
  | None => -1
  | Some m => match gget (g_pools s) (cur m) with
              | None => -1
              | Some p => if p_ready p then Z.of_N (cur m) else -2
              end
  end.

Inductive gop :=
| GUpdate (o : gopts) (fails oracle readys : list N)
| GReady (e : N) (b : bool)
| GTick (n : N) (o : op)
| GMark (up : bool) (e : N)        (* harness starts/stops the server of e: no effect on the object *)
| GCall (ctx : option N)
| GClose.

Definition gstep (s : gst) (o : gop) : gst * gout :=
  match o with
  | GUpdate op fails oracle readys => gupdate s op fails oracle readys
  | GReady e b => (gready s e b, mkGOut 0 [] 0)
  | GTick n op => (gtick s n op, mkGOut 0 [] 0)
  | GMark _ _ => (s, mkGOut 0 [] 0)
  | GCall ctx => (s, mkGOut 0 [] (gcall s ctx))
  | GClose => (gclose s, mkGOut 0 [] 0)
  end.

(* ---- observation ---- *)
Record ome := mkOme { om_name : N; om_cur : N; om_eps : list oep }.
Record opool := mkOpool { op_ep : N; op_id : N; op_open : bool; op_ready : bool }.

Record gobs := mkGobs {
  ob_mes : list ome;                   (* every MultiEndpoint: name, Current(), endpoint table *)
  ob_pools : list opool;               (* gme.pools *)
  ob_default : N;
  ob_routes : list (option N * route); (* pickConn for the probe contexts *)
  ob_open : list N;                    (* dial numbers of all connections of this history not shut down *)
  ob_census : Z                        (* goroutines inside monitoredConn.monitor *)
}.

(* probe contexts: no name, the names 0..4, and 9 *)
Definition probes : list (option N) :=
  [None; Some 0%N; Some 1%N; Some 2%N; Some 3%N; Some 4%N; Some 9%N].

Definition ome_of (nm : N * me) : ome := mkOme (fst nm) (cur (snd nm)) (o_eps (observe (snd nm))).
Definition opool_of (ep : N * pool) : opool :=
  mkOpool (fst ep) (p_id (snd ep)) (p_open (snd ep)) (p_ready (snd ep)).

Definition gobserve (s : gst) : gobs :=
  mkGobs (map ome_of (g_mes s))
         (map opool_of (g_pools s))
         (g_default s)
         (map (fun c => (c, groute s c)) probes)
         (map (fun ep => p_id (snd ep)) (filter (fun ep => p_open (snd ep)) (g_pools s)))
         (Z.of_nat (length (filter (fun ep => p_mon (snd ep)) (g_pools s)))).

Record gevent := mkGE { ge_op : gop; ge_out : gout; ge_obs : gobs }.

Fixpoint grun (s : gst) (ops : list gop) : list gevent :=
  match ops with
  | [] => []
  | o :: r => let '(s', out) := gstep s o in mkGE o out (gobserve s') :: grun s' r
  end.

Fixpoint grun_state (s : gst) (ops : list gop) : gst :=
  match ops with
  | [] => s
  | o :: r => grun_state (fst (gstep s o)) r
  end.

(* A history: NewGCPMultiEndpoint(o) (= UpdateMultiEndpoints on the empty
   object; on error the object is dropped and the history ends), then ops. *)
Definition gtrace (o : gopts) (fails oracle readys : list N) (ops : list gop) : list gevent :=
  let '(s1, out) := gupdate (ginit o) o fails oracle readys in
  mkGE (GUpdate o fails oracle readys) out (gobserve s1) ::
  (if og_err out =? 0 then grun s1 ops else []).

Definition gtrace_state (o : gopts) (fails oracle readys : list N) (ops : list gop) : gst :=
  let '(s1, out) := gupdate (ginit o) o fails oracle readys in
  if og_err out =? 0 then grun_state s1 ops else s1.
