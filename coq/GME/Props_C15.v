From GV Require Import ME.Model ME.Monitors ME.Lists ME.Inv GME.Model GME.Monitors GME.Lemmas GME.Proofs GME.Holds.
Open Scope Z_scope.

(* C15: for every history (any options valid or not, any dial failures, any
   dial order, any sequence of updates / connectivity reports / timer events of
   any named MultiEndpoint / RPCs / Close) the model's own trace satisfies the
   monitor. *)
Theorem C15_holds : forall o fails oracle readys ops, C15_ok (gtrace o fails oracle readys ops) = true.
Proof. exact C15_holds_proof. Qed.
Print Assumptions C15_holds.

(* route_spec: the route computed from the observed tables (named MultiEndpoint
   if present, else the default one; pool of its Current()) is pickConn *)
Theorem route_spec : forall s ctx, spec_route (gobserve s) ctx = groute s ctx.
Proof. exact spec_route_obs. Qed.
Print Assumptions route_spec.

Theorem update_pools : forall s o fails oracle readys s' out,
  reachable s -> gupdate s o fails oracle readys = (s', out) -> og_err out = 0 ->
  (forall e, In e (map fst (g_pools s')) <-> In e (mentioned o)) /\ NoDup (map fst (g_pools s')) /\
  (forall e p, In (e, p) (g_pools s') ->
     (In (e, p) (g_pools s) /\ ~ In e (map fst (og_dials out))) \/
     (gget (g_pools s) e = None /\ p_open p = true /\ p_mon p = true /\
      exists k, index_of e (map fst (og_dials out)) = Some k /\ p_id p = (g_dials s + N.of_nat k)%N)) /\
  (forallb (fun d => snd d) (og_dials out) = true /\ NoDup (map fst (og_dials out)) /\
   forall e, In e (map fst (og_dials out)) -> ~ In e (map fst (g_pools s)) /\ In e (mentioned o)) /\
  (g_closed s = false ->
     ob_open (gobserve s') = map p_id (map snd (g_pools s')) /\
     ob_census (gobserve s') = Z.of_nat (length (g_pools s'))).
Proof. exact update_pools_proof. Qed.
Print Assumptions update_pools.

Theorem update_status_synced : forall s o fails oracle readys s' out,
  reachable s -> gupdate s o fails oracle readys = (s', out) -> og_err out = 0 ->
  forall n m e p, In (n, m) (g_mes s') -> In e (keys m) -> In (e, p) (g_pools s') ->
    availN m e = p_ready p.
Proof. exact update_status_synced_proof. Qed.
Print Assumptions update_status_synced.

(* uses engine B's cur_member (ME.Inv.Inv_cur_member) *)
Theorem route_total : forall s ctx, reachable s -> Created s ->
  exists e id op, groute s ctx = RPool e id op /\ (g_closed s = false -> op = true).
Proof. exact route_total_proof. Qed.
Print Assumptions route_total.

Theorem follows_connectivity : forall s e b p,
  reachable s -> gget (g_pools s) e = Some p -> p_mon p = true ->
  forall n m', In (n, m') (g_mes (gready s e b)) -> In e (keys m') -> availN m' e = b.
Proof. exact follows_connectivity_proof. Qed.
Print Assumptions follows_connectivity.

(* Non-vacuity (a): a model history with shared endpoints, a removed and an
   added MultiEndpoint, a change of default, a dial failure in the middle,
   connectivity reports and Close.  Routes after every event for the contexts
   (no name, name 1, name 2, unknown name 9). *)
Example c15_model_history :
  let o1 := mkGO 1 [(1%N, Some (mkMO [1%N; 2%N] 0 0)); (2%N, Some (mkMO [2%N; 3%N] 0 0))] in
  let o2 := mkGO 2 [(2%N, Some (mkMO [3%N; 2%N] 0 0)); (3%N, Some (mkMO [4%N] 0 0))] in
  let o3 := mkGO 2 [(2%N, Some (mkMO [3%N; 5%N] 0 0))] in
  let ops := [GReady 2 true; GUpdate o2 [] [4%N] []; GReady 3 true; GUpdate o3 [5%N] [] []; GReady 3 false; GClose] in
  let tr := gtrace o1 [] [3%N; 1%N; 2%N] [] ops in
  let rt := fun (ev : gevent) (c : option N) =>
      match find (fun cr => ctx_eqb (fst cr) c) (ob_routes (ge_obs ev)) with Some cr => snd cr | None => RPanic end in
  map (fun ev => og_err (ge_out ev)) tr = [0; 0; 0; 0; 3; 0; 0] /\
  map (fun ev => og_dials (ge_out ev)) tr =
    [[(3%N, true); (1%N, true); (2%N, true)]; []; [(4%N, true)]; []; [(5%N, false)]; []; []] /\
  map (fun ev => map (rt ev) [None; Some 1%N; Some 2%N; Some 9%N]) tr =
    [ [RPool 1 1 true; RPool 1 1 true; RPool 2 2 true; RPool 1 1 true];
      [RPool 2 2 true; RPool 2 2 true; RPool 2 2 true; RPool 2 2 true];
      [RPool 2 2 true; RPool 2 2 true; RPool 2 2 true; RPool 2 2 true];
      [RPool 3 0 true; RPool 3 0 true; RPool 3 0 true; RPool 3 0 true];
      [RPool 3 0 true; RPool 3 0 true; RPool 3 0 true; RPool 3 0 true];
      [RPool 2 2 true; RPool 2 2 true; RPool 2 2 true; RPool 2 2 true];
      [RPool 2 2 false; RPool 2 2 false; RPool 2 2 false; RPool 2 2 false] ] /\
  map (fun ev => (ob_open (ge_obs ev), ob_census (ge_obs ev))) tr =
    [([0; 1; 2]%N, 3); ([0; 1; 2]%N, 3); ([0; 2; 3]%N, 3); ([0; 2; 3]%N, 3); ([0; 2; 3]%N, 3); ([0; 2; 3]%N, 3); ([], 0)] /\
  C15_ok tr = true /\ C16_ok tr = true.
Proof. vm_compute. repeat split; reflexivity. Qed.

(* a pool that is already READY when DialFunc returns it (readys = [1]) and never
   changes state afterwards: the status sync of the update itself tells the
   MultiEndpoint, and routing moves to endpoint 1 *)
Example c15_model_ready_at_dial :
  let o1 := mkGO 1 [(1%N, Some (mkMO [2%N] 0 0))] in
  let o2 := mkGO 1 [(1%N, Some (mkMO [1%N; 2%N] 0 0))] in
  let tr := gtrace o1 [] [] [] [GReady 2 true; GUpdate o2 [] [] [1%N]] in
  map (fun ev => map om_cur (ob_mes (ge_obs ev))) tr = [[2%N]; [2%N]; [1%N]] /\
  map (fun ev => map op_ready (ob_pools (ge_obs ev))) tr = [[false]; [true]; [true; true]] /\
  C15_ok tr = true.
Proof. vm_compute. repeat split; reflexivity. Qed.

(* Non-vacuity (b): a trace recorded from the (patched) implementation is accepted ... *)
Example c15_good_trace : C15_ok
  [mkGE (GUpdate (mkGO 1%N [(1%N, (Some (mkMO [1%N] (0)%Z (0)%Z))); (2%N, (Some (mkMO [2%N] (0)%Z (0)%Z)))]) [] [2%N; 1%N] []) (mkGOut (0)%Z [(2%N, true); (1%N, true)] (0)%Z) (mkGobs [mkOme 1%N 1%N [mkOep 1%N (0)%Z (0)%Z (-1)%Z]; mkOme 2%N 2%N [mkOep 2%N (0)%Z (0)%Z (-1)%Z]] [mkOpool 1%N 1%N true false; mkOpool 2%N 0%N true false] 1%N [(None, RPool 1%N 1%N true); ((Some 0%N), RPool 1%N 1%N true); ((Some 1%N), RPool 1%N 1%N true); ((Some 2%N), RPool 2%N 0%N true); ((Some 3%N), RPool 1%N 1%N true); ((Some 4%N), RPool 1%N 1%N true); ((Some 9%N), RPool 1%N 1%N true)] [0%N; 1%N] (2)%Z)
   ; mkGE (GUpdate (mkGO 2%N [(1%N, (Some (mkMO [1%N; 3%N] (0)%Z (0)%Z))); (2%N, (Some (mkMO [1%N] (0)%Z (0)%Z)))]) [] [3%N] []) (mkGOut (0)%Z [(3%N, true)] (0)%Z) (mkGobs [mkOme 1%N 1%N [mkOep 1%N (0)%Z (0)%Z (-1)%Z; mkOep 3%N (1)%Z (0)%Z (-1)%Z]; mkOme 2%N 1%N [mkOep 1%N (0)%Z (0)%Z (-1)%Z]] [mkOpool 1%N 1%N true false; mkOpool 3%N 2%N true false] 2%N [(None, RPool 1%N 1%N true); ((Some 0%N), RPool 1%N 1%N true); ((Some 1%N), RPool 1%N 1%N true); ((Some 2%N), RPool 1%N 1%N true); ((Some 3%N), RPool 1%N 1%N true); ((Some 4%N), RPool 1%N 1%N true); ((Some 9%N), RPool 1%N 1%N true)] [1%N; 2%N] (2)%Z)] = true.
Proof. vm_compute; reflexivity. Qed.

(* ... and each of these hand-made corruptions of its last event is rejected. *)
(* pool 2 (dial 0) is no longer mentioned but its connection is still open *)
Example c15_bad_removed_pool_left_open : C15_ok
  [mkGE (GUpdate (mkGO 1%N [(1%N, (Some (mkMO [1%N] (0)%Z (0)%Z))); (2%N, (Some (mkMO [2%N] (0)%Z (0)%Z)))]) [] [2%N; 1%N] []) (mkGOut (0)%Z [(2%N, true); (1%N, true)] (0)%Z) (mkGobs [mkOme 1%N 1%N [mkOep 1%N (0)%Z (0)%Z (-1)%Z]; mkOme 2%N 2%N [mkOep 2%N (0)%Z (0)%Z (-1)%Z]] [mkOpool 1%N 1%N true false; mkOpool 2%N 0%N true false] 1%N [(None, RPool 1%N 1%N true); ((Some 0%N), RPool 1%N 1%N true); ((Some 1%N), RPool 1%N 1%N true); ((Some 2%N), RPool 2%N 0%N true); ((Some 3%N), RPool 1%N 1%N true); ((Some 4%N), RPool 1%N 1%N true); ((Some 9%N), RPool 1%N 1%N true)] [0%N; 1%N] (2)%Z)
   ; mkGE (GUpdate (mkGO 2%N [(1%N, (Some (mkMO [1%N; 3%N] (0)%Z (0)%Z))); (2%N, (Some (mkMO [1%N] (0)%Z (0)%Z)))]) [] [3%N] []) (mkGOut (0)%Z [(3%N, true)] (0)%Z) (mkGobs [mkOme 1%N 1%N [mkOep 1%N (0)%Z (0)%Z (-1)%Z; mkOep 3%N (1)%Z (0)%Z (-1)%Z]; mkOme 2%N 1%N [mkOep 1%N (0)%Z (0)%Z (-1)%Z]] [mkOpool 1%N 1%N true false; mkOpool 3%N 2%N true false] 2%N [(None, RPool 1%N 1%N true); ((Some 0%N), RPool 1%N 1%N true); ((Some 1%N), RPool 1%N 1%N true); ((Some 2%N), RPool 1%N 1%N true); ((Some 3%N), RPool 1%N 1%N true); ((Some 4%N), RPool 1%N 1%N true); ((Some 9%N), RPool 1%N 1%N true)] [0%N; 1%N; 2%N] (2)%Z)] = false.
Proof. vm_compute; reflexivity. Qed.

(* the monitor of the removed pool is still running *)
Example c15_bad_monitor_not_stopped : C15_ok
  [mkGE (GUpdate (mkGO 1%N [(1%N, (Some (mkMO [1%N] (0)%Z (0)%Z))); (2%N, (Some (mkMO [2%N] (0)%Z (0)%Z)))]) [] [2%N; 1%N] []) (mkGOut (0)%Z [(2%N, true); (1%N, true)] (0)%Z) (mkGobs [mkOme 1%N 1%N [mkOep 1%N (0)%Z (0)%Z (-1)%Z]; mkOme 2%N 2%N [mkOep 2%N (0)%Z (0)%Z (-1)%Z]] [mkOpool 1%N 1%N true false; mkOpool 2%N 0%N true false] 1%N [(None, RPool 1%N 1%N true); ((Some 0%N), RPool 1%N 1%N true); ((Some 1%N), RPool 1%N 1%N true); ((Some 2%N), RPool 2%N 0%N true); ((Some 3%N), RPool 1%N 1%N true); ((Some 4%N), RPool 1%N 1%N true); ((Some 9%N), RPool 1%N 1%N true)] [0%N; 1%N] (2)%Z)
   ; mkGE (GUpdate (mkGO 2%N [(1%N, (Some (mkMO [1%N; 3%N] (0)%Z (0)%Z))); (2%N, (Some (mkMO [1%N] (0)%Z (0)%Z)))]) [] [3%N] []) (mkGOut (0)%Z [(3%N, true)] (0)%Z) (mkGobs [mkOme 1%N 1%N [mkOep 1%N (0)%Z (0)%Z (-1)%Z; mkOep 3%N (1)%Z (0)%Z (-1)%Z]; mkOme 2%N 1%N [mkOep 1%N (0)%Z (0)%Z (-1)%Z]] [mkOpool 1%N 1%N true false; mkOpool 3%N 2%N true false] 2%N [(None, RPool 1%N 1%N true); ((Some 0%N), RPool 1%N 1%N true); ((Some 1%N), RPool 1%N 1%N true); ((Some 2%N), RPool 1%N 1%N true); ((Some 3%N), RPool 1%N 1%N true); ((Some 4%N), RPool 1%N 1%N true); ((Some 9%N), RPool 1%N 1%N true)] [1%N; 2%N] (3)%Z)] = false.
Proof. vm_compute; reflexivity. Qed.

(* the kept pool of endpoint 1 was dialled again (new object, dial 2) *)
Example c15_bad_kept_pool_redialled : C15_ok
  [mkGE (GUpdate (mkGO 1%N [(1%N, (Some (mkMO [1%N] (0)%Z (0)%Z))); (2%N, (Some (mkMO [2%N] (0)%Z (0)%Z)))]) [] [2%N; 1%N] []) (mkGOut (0)%Z [(2%N, true); (1%N, true)] (0)%Z) (mkGobs [mkOme 1%N 1%N [mkOep 1%N (0)%Z (0)%Z (-1)%Z]; mkOme 2%N 2%N [mkOep 2%N (0)%Z (0)%Z (-1)%Z]] [mkOpool 1%N 1%N true false; mkOpool 2%N 0%N true false] 1%N [(None, RPool 1%N 1%N true); ((Some 0%N), RPool 1%N 1%N true); ((Some 1%N), RPool 1%N 1%N true); ((Some 2%N), RPool 2%N 0%N true); ((Some 3%N), RPool 1%N 1%N true); ((Some 4%N), RPool 1%N 1%N true); ((Some 9%N), RPool 1%N 1%N true)] [0%N; 1%N] (2)%Z)
   ; mkGE (GUpdate (mkGO 2%N [(1%N, (Some (mkMO [1%N; 3%N] (0)%Z (0)%Z))); (2%N, (Some (mkMO [1%N] (0)%Z (0)%Z)))]) [] [3%N] []) (mkGOut (0)%Z [(1%N, true); (3%N, true)] (0)%Z) (mkGobs [mkOme 1%N 1%N [mkOep 1%N (0)%Z (0)%Z (-1)%Z; mkOep 3%N (1)%Z (0)%Z (-1)%Z]; mkOme 2%N 1%N [mkOep 1%N (0)%Z (0)%Z (-1)%Z]] [mkOpool 1%N 2%N true false; mkOpool 3%N 3%N true false] 2%N [(None, RPool 1%N 1%N true); ((Some 0%N), RPool 1%N 1%N true); ((Some 1%N), RPool 1%N 1%N true); ((Some 2%N), RPool 1%N 1%N true); ((Some 3%N), RPool 1%N 1%N true); ((Some 4%N), RPool 1%N 1%N true); ((Some 9%N), RPool 1%N 1%N true)] [2%N; 3%N] (2)%Z)] = false.
Proof. vm_compute; reflexivity. Qed.

(* defaultName still names MultiEndpoint 1 *)
Example c15_bad_default_not_updated : C15_ok
  [mkGE (GUpdate (mkGO 1%N [(1%N, (Some (mkMO [1%N] (0)%Z (0)%Z))); (2%N, (Some (mkMO [2%N] (0)%Z (0)%Z)))]) [] [2%N; 1%N] []) (mkGOut (0)%Z [(2%N, true); (1%N, true)] (0)%Z) (mkGobs [mkOme 1%N 1%N [mkOep 1%N (0)%Z (0)%Z (-1)%Z]; mkOme 2%N 2%N [mkOep 2%N (0)%Z (0)%Z (-1)%Z]] [mkOpool 1%N 1%N true false; mkOpool 2%N 0%N true false] 1%N [(None, RPool 1%N 1%N true); ((Some 0%N), RPool 1%N 1%N true); ((Some 1%N), RPool 1%N 1%N true); ((Some 2%N), RPool 2%N 0%N true); ((Some 3%N), RPool 1%N 1%N true); ((Some 4%N), RPool 1%N 1%N true); ((Some 9%N), RPool 1%N 1%N true)] [0%N; 1%N] (2)%Z)
   ; mkGE (GUpdate (mkGO 2%N [(1%N, (Some (mkMO [1%N; 3%N] (0)%Z (0)%Z))); (2%N, (Some (mkMO [1%N] (0)%Z (0)%Z)))]) [] [3%N] []) (mkGOut (0)%Z [(3%N, true)] (0)%Z) (mkGobs [mkOme 1%N 1%N [mkOep 1%N (0)%Z (0)%Z (-1)%Z; mkOep 3%N (1)%Z (0)%Z (-1)%Z]; mkOme 2%N 1%N [mkOep 1%N (0)%Z (0)%Z (-1)%Z]] [mkOpool 1%N 1%N true false; mkOpool 3%N 2%N true false] 1%N [(None, RPool 1%N 1%N true); ((Some 0%N), RPool 1%N 1%N true); ((Some 1%N), RPool 1%N 1%N true); ((Some 2%N), RPool 1%N 1%N true); ((Some 3%N), RPool 1%N 1%N true); ((Some 4%N), RPool 1%N 1%N true); ((Some 9%N), RPool 1%N 1%N true)] [1%N; 2%N] (2)%Z)] = false.
Proof. vm_compute; reflexivity. Qed.

(* an unknown name is routed via MultiEndpoint 1's second endpoint instead of the default's current one *)
Example c15_bad_unknown_name_random_me : C15_ok
  [mkGE (GUpdate (mkGO 1%N [(1%N, (Some (mkMO [1%N] (0)%Z (0)%Z))); (2%N, (Some (mkMO [2%N] (0)%Z (0)%Z)))]) [] [2%N; 1%N] []) (mkGOut (0)%Z [(2%N, true); (1%N, true)] (0)%Z) (mkGobs [mkOme 1%N 1%N [mkOep 1%N (0)%Z (0)%Z (-1)%Z]; mkOme 2%N 2%N [mkOep 2%N (0)%Z (0)%Z (-1)%Z]] [mkOpool 1%N 1%N true false; mkOpool 2%N 0%N true false] 1%N [(None, RPool 1%N 1%N true); ((Some 0%N), RPool 1%N 1%N true); ((Some 1%N), RPool 1%N 1%N true); ((Some 2%N), RPool 2%N 0%N true); ((Some 3%N), RPool 1%N 1%N true); ((Some 4%N), RPool 1%N 1%N true); ((Some 9%N), RPool 1%N 1%N true)] [0%N; 1%N] (2)%Z)
   ; mkGE (GUpdate (mkGO 2%N [(1%N, (Some (mkMO [1%N; 3%N] (0)%Z (0)%Z))); (2%N, (Some (mkMO [1%N] (0)%Z (0)%Z)))]) [] [3%N] []) (mkGOut (0)%Z [(3%N, true)] (0)%Z) (mkGobs [mkOme 1%N 1%N [mkOep 1%N (0)%Z (0)%Z (-1)%Z; mkOep 3%N (1)%Z (0)%Z (-1)%Z]; mkOme 2%N 1%N [mkOep 1%N (0)%Z (0)%Z (-1)%Z]] [mkOpool 1%N 1%N true false; mkOpool 3%N 2%N true false] 2%N [(None, RPool 1%N 1%N true); ((Some 0%N), RPool 1%N 1%N true); ((Some 1%N), RPool 1%N 1%N true); ((Some 2%N), RPool 1%N 1%N true); ((Some 3%N), RPool 1%N 1%N true); ((Some 4%N), RPool 1%N 1%N true); ((Some 9%N), RPool 3%N 2%N true)] [1%N; 2%N] (2)%Z)] = false.
Proof. vm_compute; reflexivity. Qed.

(* the pools are those of the previous options (endpoint 3 has no pool, endpoint 2 kept) *)
Example c15_bad_valid_pools_from_old_options : C15_ok
  [mkGE (GUpdate (mkGO 1%N [(1%N, (Some (mkMO [1%N] (0)%Z (0)%Z))); (2%N, (Some (mkMO [2%N] (0)%Z (0)%Z)))]) [] [2%N; 1%N] []) (mkGOut (0)%Z [(2%N, true); (1%N, true)] (0)%Z) (mkGobs [mkOme 1%N 1%N [mkOep 1%N (0)%Z (0)%Z (-1)%Z]; mkOme 2%N 2%N [mkOep 2%N (0)%Z (0)%Z (-1)%Z]] [mkOpool 1%N 1%N true false; mkOpool 2%N 0%N true false] 1%N [(None, RPool 1%N 1%N true); ((Some 0%N), RPool 1%N 1%N true); ((Some 1%N), RPool 1%N 1%N true); ((Some 2%N), RPool 2%N 0%N true); ((Some 3%N), RPool 1%N 1%N true); ((Some 4%N), RPool 1%N 1%N true); ((Some 9%N), RPool 1%N 1%N true)] [0%N; 1%N] (2)%Z)
   ; mkGE (GUpdate (mkGO 2%N [(1%N, (Some (mkMO [1%N; 3%N] (0)%Z (0)%Z))); (2%N, (Some (mkMO [1%N] (0)%Z (0)%Z)))]) [] [3%N] []) (mkGOut (0)%Z [] (0)%Z) (mkGobs [mkOme 1%N 1%N [mkOep 1%N (0)%Z (0)%Z (-1)%Z; mkOep 3%N (1)%Z (0)%Z (-1)%Z]; mkOme 2%N 1%N [mkOep 1%N (0)%Z (0)%Z (-1)%Z]] [mkOpool 1%N 1%N true false; mkOpool 2%N 0%N true false] 2%N [(None, RPool 1%N 1%N true); ((Some 0%N), RPool 1%N 1%N true); ((Some 1%N), RPool 1%N 1%N true); ((Some 2%N), RPool 1%N 1%N true); ((Some 3%N), RPool 1%N 1%N true); ((Some 4%N), RPool 1%N 1%N true); ((Some 9%N), RPool 1%N 1%N true)] [0%N; 1%N] (2)%Z)] = false.
Proof. vm_compute; reflexivity. Qed.

(* status sync: endpoint 1 is READY when MultiEndpoint 2 (containing it) is created *)
Example c15_good_status_sync : C15_ok
  [mkGE (GUpdate (mkGO 1%N [(1%N, (Some (mkMO [1%N] (0)%Z (0)%Z)))]) [] [1%N] []) (mkGOut (0)%Z [(1%N, true)] (0)%Z) (mkGobs [mkOme 1%N 1%N [mkOep 1%N (0)%Z (0)%Z (-1)%Z]] [mkOpool 1%N 0%N true false] 1%N [(None, RPool 1%N 0%N true); ((Some 0%N), RPool 1%N 0%N true); ((Some 1%N), RPool 1%N 0%N true); ((Some 2%N), RPool 1%N 0%N true); ((Some 3%N), RPool 1%N 0%N true); ((Some 4%N), RPool 1%N 0%N true); ((Some 9%N), RPool 1%N 0%N true)] [0%N] (1)%Z)
   ; mkGE (GMark true 1%N) (mkGOut (0)%Z [] (0)%Z) (mkGobs [mkOme 1%N 1%N [mkOep 1%N (0)%Z (0)%Z (-1)%Z]] [mkOpool 1%N 0%N true false] 1%N [(None, RPool 1%N 0%N true); ((Some 0%N), RPool 1%N 0%N true); ((Some 1%N), RPool 1%N 0%N true); ((Some 2%N), RPool 1%N 0%N true); ((Some 3%N), RPool 1%N 0%N true); ((Some 4%N), RPool 1%N 0%N true); ((Some 9%N), RPool 1%N 0%N true)] [0%N] (1)%Z)
   ; mkGE (GReady 1%N true) (mkGOut (0)%Z [] (0)%Z) (mkGobs [mkOme 1%N 1%N [mkOep 1%N (0)%Z (1)%Z (-1)%Z]] [mkOpool 1%N 0%N true true] 1%N [(None, RPool 1%N 0%N true); ((Some 0%N), RPool 1%N 0%N true); ((Some 1%N), RPool 1%N 0%N true); ((Some 2%N), RPool 1%N 0%N true); ((Some 3%N), RPool 1%N 0%N true); ((Some 4%N), RPool 1%N 0%N true); ((Some 9%N), RPool 1%N 0%N true)] [0%N] (1)%Z)
   ; mkGE (GUpdate (mkGO 1%N [(1%N, (Some (mkMO [1%N] (0)%Z (0)%Z))); (2%N, (Some (mkMO [2%N; 1%N] (0)%Z (0)%Z)))]) [] [2%N] []) (mkGOut (0)%Z [(2%N, true)] (0)%Z) (mkGobs [mkOme 1%N 1%N [mkOep 1%N (0)%Z (1)%Z (-1)%Z]; mkOme 2%N 1%N [mkOep 1%N (1)%Z (1)%Z (-1)%Z; mkOep 2%N (0)%Z (0)%Z (-1)%Z]] [mkOpool 1%N 0%N true true; mkOpool 2%N 1%N true false] 1%N [(None, RPool 1%N 0%N true); ((Some 0%N), RPool 1%N 0%N true); ((Some 1%N), RPool 1%N 0%N true); ((Some 2%N), RPool 1%N 0%N true); ((Some 3%N), RPool 1%N 0%N true); ((Some 4%N), RPool 1%N 0%N true); ((Some 9%N), RPool 1%N 0%N true)] [0%N; 1%N] (2)%Z)] = true.
Proof. vm_compute; reflexivity. Qed.

(* the new MultiEndpoint 2 has not been told that endpoint 1 is available *)
Example c15_bad_status_not_synced : C15_ok
  [mkGE (GUpdate (mkGO 1%N [(1%N, (Some (mkMO [1%N] (0)%Z (0)%Z)))]) [] [1%N] []) (mkGOut (0)%Z [(1%N, true)] (0)%Z) (mkGobs [mkOme 1%N 1%N [mkOep 1%N (0)%Z (0)%Z (-1)%Z]] [mkOpool 1%N 0%N true false] 1%N [(None, RPool 1%N 0%N true); ((Some 0%N), RPool 1%N 0%N true); ((Some 1%N), RPool 1%N 0%N true); ((Some 2%N), RPool 1%N 0%N true); ((Some 3%N), RPool 1%N 0%N true); ((Some 4%N), RPool 1%N 0%N true); ((Some 9%N), RPool 1%N 0%N true)] [0%N] (1)%Z)
   ; mkGE (GMark true 1%N) (mkGOut (0)%Z [] (0)%Z) (mkGobs [mkOme 1%N 1%N [mkOep 1%N (0)%Z (0)%Z (-1)%Z]] [mkOpool 1%N 0%N true false] 1%N [(None, RPool 1%N 0%N true); ((Some 0%N), RPool 1%N 0%N true); ((Some 1%N), RPool 1%N 0%N true); ((Some 2%N), RPool 1%N 0%N true); ((Some 3%N), RPool 1%N 0%N true); ((Some 4%N), RPool 1%N 0%N true); ((Some 9%N), RPool 1%N 0%N true)] [0%N] (1)%Z)
   ; mkGE (GReady 1%N true) (mkGOut (0)%Z [] (0)%Z) (mkGobs [mkOme 1%N 1%N [mkOep 1%N (0)%Z (1)%Z (-1)%Z]] [mkOpool 1%N 0%N true true] 1%N [(None, RPool 1%N 0%N true); ((Some 0%N), RPool 1%N 0%N true); ((Some 1%N), RPool 1%N 0%N true); ((Some 2%N), RPool 1%N 0%N true); ((Some 3%N), RPool 1%N 0%N true); ((Some 4%N), RPool 1%N 0%N true); ((Some 9%N), RPool 1%N 0%N true)] [0%N] (1)%Z)
   ; mkGE (GUpdate (mkGO 1%N [(1%N, (Some (mkMO [1%N] (0)%Z (0)%Z))); (2%N, (Some (mkMO [2%N; 1%N] (0)%Z (0)%Z)))]) [] [2%N] []) (mkGOut (0)%Z [(2%N, true)] (0)%Z) (mkGobs [mkOme 1%N 1%N [mkOep 1%N (0)%Z (1)%Z (-1)%Z]; mkOme 2%N 2%N [mkOep 1%N (1)%Z (0)%Z (-1)%Z; mkOep 2%N (0)%Z (0)%Z (-1)%Z]] [mkOpool 1%N 0%N true true; mkOpool 2%N 1%N true false] 1%N [(None, RPool 1%N 0%N true); ((Some 0%N), RPool 1%N 0%N true); ((Some 1%N), RPool 1%N 0%N true); ((Some 2%N), RPool 2%N 1%N true); ((Some 3%N), RPool 1%N 0%N true); ((Some 4%N), RPool 1%N 0%N true); ((Some 9%N), RPool 1%N 0%N true)] [0%N; 1%N] (2)%Z)] = false.
Proof. vm_compute; reflexivity. Qed.

(* a connectivity change is not delivered to MultiEndpoint 1 *)
Example c15_bad_ready_not_delivered : C15_ok
  [mkGE (GUpdate (mkGO 1%N [(1%N, (Some (mkMO [1%N] (0)%Z (0)%Z)))]) [] [1%N] []) (mkGOut (0)%Z [(1%N, true)] (0)%Z) (mkGobs [mkOme 1%N 1%N [mkOep 1%N (0)%Z (0)%Z (-1)%Z]] [mkOpool 1%N 0%N true false] 1%N [(None, RPool 1%N 0%N true); ((Some 0%N), RPool 1%N 0%N true); ((Some 1%N), RPool 1%N 0%N true); ((Some 2%N), RPool 1%N 0%N true); ((Some 3%N), RPool 1%N 0%N true); ((Some 4%N), RPool 1%N 0%N true); ((Some 9%N), RPool 1%N 0%N true)] [0%N] (1)%Z)
   ; mkGE (GMark true 1%N) (mkGOut (0)%Z [] (0)%Z) (mkGobs [mkOme 1%N 1%N [mkOep 1%N (0)%Z (0)%Z (-1)%Z]] [mkOpool 1%N 0%N true false] 1%N [(None, RPool 1%N 0%N true); ((Some 0%N), RPool 1%N 0%N true); ((Some 1%N), RPool 1%N 0%N true); ((Some 2%N), RPool 1%N 0%N true); ((Some 3%N), RPool 1%N 0%N true); ((Some 4%N), RPool 1%N 0%N true); ((Some 9%N), RPool 1%N 0%N true)] [0%N] (1)%Z)
   ; mkGE (GReady 1%N true) (mkGOut (0)%Z [] (0)%Z) (mkGobs [mkOme 1%N 1%N [mkOep 1%N (0)%Z (0)%Z (-1)%Z]] [mkOpool 1%N 0%N true true] 1%N [(None, RPool 1%N 0%N true); ((Some 0%N), RPool 1%N 0%N true); ((Some 1%N), RPool 1%N 0%N true); ((Some 2%N), RPool 1%N 0%N true); ((Some 3%N), RPool 1%N 0%N true); ((Some 4%N), RPool 1%N 0%N true); ((Some 9%N), RPool 1%N 0%N true)] [0%N] (1)%Z)
   ; mkGE (GUpdate (mkGO 1%N [(1%N, (Some (mkMO [1%N] (0)%Z (0)%Z))); (2%N, (Some (mkMO [2%N; 1%N] (0)%Z (0)%Z)))]) [] [2%N] []) (mkGOut (0)%Z [(2%N, true)] (0)%Z) (mkGobs [mkOme 1%N 1%N [mkOep 1%N (0)%Z (1)%Z (-1)%Z]; mkOme 2%N 1%N [mkOep 1%N (1)%Z (1)%Z (-1)%Z; mkOep 2%N (0)%Z (0)%Z (-1)%Z]] [mkOpool 1%N 0%N true true; mkOpool 2%N 1%N true false] 1%N [(None, RPool 1%N 0%N true); ((Some 0%N), RPool 1%N 0%N true); ((Some 1%N), RPool 1%N 0%N true); ((Some 2%N), RPool 1%N 0%N true); ((Some 3%N), RPool 1%N 0%N true); ((Some 4%N), RPool 1%N 0%N true); ((Some 9%N), RPool 1%N 0%N true)] [0%N; 1%N] (2)%Z)] = false.
Proof. vm_compute; reflexivity. Qed.
