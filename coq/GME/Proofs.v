(* Engine C proofs, part 2: the invariant of the GCPMultiEndpoint model, what
   an update / a connectivity report / Close do to it, and the named lemmas of
   DESIGN.md (route_spec, update_pools, update_status_synced, route_total,
   failed_update_identity, close_releases_all, failed_new_releases_all). *)
From GV Require Import ME.Model ME.Monitors ME.Lists ME.Inv GME.Model GME.Monitors GME.Lemmas.
Open Scope Z_scope.

(* ------------------------------------------------------------ invariant *)
Record GInv (s : gst) : Prop := mkGInv {
  gi_names : NoDup (map fst (g_mes s));
  gi_pkeys : NoDup (map fst (g_pools s));
  (* every MultiEndpoint is a well-formed engine-B state and all its endpoints have a pool *)
  gi_me : forall n m, In (n, m) (g_mes s) ->
          Inv m /\ forall e, In e (keys m) -> In e (map fst (g_pools s));
  (* until Close every pool is open and monitored *)
  gi_open : g_closed s = false -> forall e p, In (e, p) (g_pools s) -> p_open p = true /\ p_mon p = true;
  gi_def : g_mes s = [] \/ In (g_default s) (map fst (g_mes s))
}.

Definition Created (s : gst) : Prop := g_mes s <> [].

Lemma GInv_init o : GInv (ginit o).
Proof.
  constructor; cbn; [constructor|constructor|intros n m []|intros _ e p []|left; reflexivity].
Qed.

(* --------------------------------------------------------------- deliver *)
Lemma deliver_names mes e b : map fst (deliver mes e b) = map fst mes.
Proof. unfold deliver. rewrite map_map. reflexivity. Qed.

Lemma deliver_In mes e b n m' :
  In (n, m') (deliver mes e b) <-> exists m, In (n, m) mes /\ m' = fst (SetEndpointAvailability m e b).
Proof.
  unfold deliver. rewrite in_map_iff. split.
  - intros [[k m] [E H]]. cbn in E. injection E as -> <-. eauto.
  - intros [m [H ->]]. exists (n, m). split; auto.
Qed.

Definition AllInv (mes : list (N * me)) : Prop := forall n m, In (n, m) mes -> Inv m.

Lemma deliver_spec mes e b : AllInv mes ->
  AllInv (deliver mes e b) /\
  forall n m', In (n, m') (deliver mes e b) ->
    exists m, In (n, m) mes /\ keys m' = keys m /\
      forall e', In e' (keys m) -> availN m' e' = if N.eqb e' e then b else availN m e'.
Proof.
  intros A. split.
  - intros n m' H. apply deliver_In in H. destruct H as [m [Hm ->]].
    apply (SEA_avail m e b (A _ _ Hm)).
  - intros n m' H. apply deliver_In in H. destruct H as [m [Hm ->]]. exists m. split; auto.
    destruct (SEA_avail m e b (A _ _ Hm)) as [_ [K F]]. split; auto.
Qed.

(* the status-sync loop *)
Lemma sync_spec : forall ps mes, AllInv mes -> NoDup (map fst ps) ->
  AllInv (sync mes ps) /\ map fst (sync mes ps) = map fst mes /\
  forall n m', In (n, m') (sync mes ps) ->
    exists m, In (n, m) mes /\ keys m' = keys m /\
      (forall e p, In (e, p) ps -> In e (keys m) -> availN m' e = p_ready p) /\
      (forall e, In e (keys m) -> ~ In e (map fst ps) -> availN m' e = availN m e).
Proof.
  induction ps as [|[e0 p0] r IH]; intros mes A ND.
  - cbn. split; auto. split; auto. intros n m' H. exists m'. split; auto. split; auto.
    split; [intros e p []|auto].
  - change (sync mes ((e0, p0) :: r)) with (sync (deliver mes e0 (p_ready p0)) r).
    cbn [map fst] in ND. inversion ND as [|x l Hn ND']; subst.
    destruct (deliver_spec mes e0 (p_ready p0) A) as [A1 D1].
    destruct (IH _ A1 ND') as [A2 [N2 S2]].
    split; [exact A2|]. split; [rewrite N2; apply deliver_names|].
    intros n m' H. destruct (S2 n m' H) as [m1 [H1 [K1 [R1 F1]]]].
    destruct (D1 n m1 H1) as [m [Hm [K F]]].
    exists m. split; auto. split; [congruence|]. split.
    + intros e p [E|E] He.
      * injection E as -> ->. rewrite F1.
        -- rewrite (F e He), N.eqb_refl. reflexivity.
        -- rewrite K. exact He.
        -- exact Hn.
      * apply R1; auto. rewrite K. exact He.
    + intros e He Hnot. cbn [map fst] in Hnot.
      rewrite F1.
      * rewrite (F e He). destruct (N.eqb_spec e e0) as [->|]; [|reflexivity].
        exfalso. apply Hnot. left; reflexivity.
      * rewrite K. exact He.
      * intros Hr. apply Hnot. right; exact Hr.
Qed.

(* --------------------------------------------------------------- new_mes *)
Lemma upd_me_spec mes n mo : AllInv mes -> opt_ok (Some mo) = true ->
  exists m', upd_me mes (n, Some mo) = [(n, m')] /\ Inv m' /\
             forall k, In k (keys m') <-> In k (mo_eps mo).
Proof.
  intros A Ok. unfold upd_me. cbn [fst snd]. unfold opt_ok in Ok.
  destruct (mo_eps mo) as [|x r] eqn:Eeps; [discriminate|].
  destruct (gget mes n) as [m|] eqn:G.
  - destruct (SetEndpoints m (x :: r)) as [m' outs] eqn:ES. cbn [fst].
    exists m'. split; [reflexivity|].
    assert (Es : step m (OpSet (x :: r)) = (m', outs)) by exact ES.
    pose proof (step_ok _ _ _ _ (A _ _ (gget_In _ _ _ G)) Es) as SO.
    split; [apply SO|]. exact (so_keys _ _ _ _ SO).
  - destruct (NewMultiEndpoint (x :: r) (mo_r mo) (mo_d mo)) as [[m0 o0]|] eqn:EN.
    + exists m0. split; [reflexivity|].
      destruct (New_Inv _ _ _ _ _ EN) as [I [_ [_ [K _]]]]. split; auto.
    + unfold NewMultiEndpoint in EN. discriminate.
Qed.

Lemma new_mes_spec mes : AllInv mes -> forall l,
  forallb (fun nv => opt_ok (snd nv)) l = true ->
  map fst (flat_map (upd_me mes) l) = map fst l /\
  forall n m', In (n, m') (flat_map (upd_me mes) l) ->
    Inv m' /\ exists mo, In (n, Some mo) l /\ forall k, In k (keys m') <-> In k (mo_eps mo).
Proof.
  intros A. induction l as [|[n v] r IH]; intros F.
  - cbn. split; auto. intros n m' [].
  - cbn [forallb snd] in F. apply andb_true_iff in F. destruct F as [F1 F2].
    destruct v as [mo|]; [|discriminate].
    destruct (upd_me_spec mes n mo A F1) as [m1 [E1 [I1 K1]]].
    destruct (IH F2) as [N2 S2].
    cbn [flat_map]. rewrite E1. cbn [app map fst]. split; [rewrite N2; reflexivity|].
    intros k m' [E|E].
    + injection E as <- <-. split; auto. exists mo. split; [left; reflexivity|auto].
    + destruct (S2 k m' E) as [I' [mo' [Hin K']]]. split; auto. exists mo'. split; [right; exact Hin|auto].
Qed.

(* -------------------------------------------------------------- dialling *)
Lemma dial_all_spec fails readys : forall es n nps lg failed,
  dial_all fails readys n es = (nps, lg, failed) ->
  failed = existsb (fun e => memN e fails) es /\
  (failed = false ->
     map fst nps = es /\ map fst lg = es /\ forallb (fun d => snd d) lg = true /\
     forall e p, In (e, p) nps ->
       p_open p = true /\ p_mon p = true /\ p_ready p = memN e readys /\
       (NoDup es -> exists k, index_of e es = Some k /\ p_id p = (n + N.of_nat k)%N)).
Proof.
  induction es as [|x r IH]; intros n nps lg failed E; cbn in E.
  - injection E as <- <- <-. split; auto. intros _.
    split; [reflexivity|]. split; [reflexivity|]. split; [reflexivity|]. intros e p [].
  - cbn [existsb]. destruct (memN x fails) eqn:Mx.
    + injection E as <- <- <-. split; auto. discriminate.
    + destruct (dial_all fails readys (n + 1)%N r) as [[ps l'] f] eqn:D.
      injection E as <- <- <-. destruct (IH _ _ _ _ D) as [Hf Hs].
      split; [exact Hf|]. intros F. destruct (Hs F) as [M1 [M2 [M3 M4]]].
      cbn [map fst forallb snd]. rewrite M1, M2, M3.
      split; [reflexivity|]. split; [reflexivity|]. split; [reflexivity|].
      intros e p [Ein|Ein].
      * injection Ein as <- <-. cbn. repeat split; auto. intros _. exists O.
        rewrite N.eqb_refl. split; auto. cbn. rewrite N.add_0_r. reflexivity.
      * destruct (M4 e p Ein) as [O1 [O2 [O3 O4]]]. repeat split; auto.
        intros ND. apply NoDup_cons_iff in ND. destruct ND as [Hn ND'].
        destruct (O4 ND') as [k [Ik Idp]].
        assert (Hne : x <> e).
        { intros ->. apply Hn. rewrite <- M1. apply in_map_iff. exists (e, p). split; auto. }
        exists (S k). cbn [index_of]. destruct (N.eqb_spec x e); [contradiction|].
        rewrite Ik. cbn [option_map]. split; auto. rewrite Idp. rewrite Nat2N.inj_succ. lia.
Qed.

Lemma dial_all_log_length fails readys : forall es n nps lg failed,
  dial_all fails readys n es = (nps, lg, failed) -> failed = false -> length lg = length es.
Proof.
  intros es n nps lg failed E F. destruct (dial_all_spec fails readys es n nps lg failed E) as [_ H].
  destruct (H F) as [_ [M _]]. rewrite <- M. rewrite map_length. reflexivity.
Qed.

Lemma dial_order_spec oracle missing : NoDup missing ->
  NoDup (dial_order oracle missing) /\
  forall e, In e (dial_order oracle missing) <-> In e missing.
Proof.
  intros ND. unfold dial_order. split.
  - apply NoDup_app_intro.
    + apply NoDup_filter. apply NoDup_nodup.
    + apply NoDup_filter. exact ND.
    + intros x H1 H2. apply filter_In in H1. apply filter_In in H2.
      destruct H1 as [H1 _]. destruct H2 as [_ H2]. apply nodup_In in H1.
      apply negb_true_iff in H2. apply memN_false in H2. contradiction.
  - intros e. rewrite in_app_iff, !filter_In, nodup_In. split.
    + intros [[_ H]|[H _]]; auto. apply memN_In. exact H.
    + intros H. destruct (memN e oracle) eqn:M.
      * left. split; [apply memN_In; exact M|apply memN_In; exact H].
      * right. split; auto.
Qed.

Lemma mentioned_NoDup o : NoDup (mentioned o).
Proof. apply NoDup_nodup. Qed.

Lemma mentioned_In o e :
  In e (mentioned o) <-> exists n mo, In (n, Some mo) (go_mes o) /\ In e (mo_eps mo).
Proof.
  unfold mentioned. rewrite nodup_In, in_flat_map. split.
  - intros [[n v] [H1 H2]]. cbn in H2. destruct v as [mo|]; [|destruct H2]. eauto.
  - intros [n [mo [H1 H2]]]. exists (n, Some mo). split; auto.
Qed.

(* ------------------------------------------------------- a failed update *)
(* failed_update_identity: a rejected update changes nothing but the dial counter *)
Lemma failed_update_identity_proof s o fails oracle readys s' out :
  gupdate s o fails oracle readys = (s', out) -> og_err out <> 0 ->
  g_mes s' = g_mes s /\ g_pools s' = g_pools s /\ g_default s' = g_default s /\
  g_closed s' = g_closed s /\ gobserve s' = gobserve s /\
  g_dials s' = (g_dials s + N.of_nat (length (og_dials out)))%N.
Proof.
  unfold gupdate. intros E Herr.
  destruct (negb (check_opts o =? 0)).
  - injection E as <- <-. cbn. rewrite N.add_0_r. repeat split; reflexivity.
  - destruct (dial_all fails readys (g_dials s) _) as [[nps lg] failed].
    destruct failed.
    + injection E as <- <-. cbn. repeat split; reflexivity.
    + injection E as <- <-. cbn in Herr. congruence.
Qed.

Lemma update_err_spec s o fails oracle readys s' out :
  gupdate s o fails oracle readys = (s', out) ->
  og_err out = expected_err (gobserve s) o fails /\ og_call out = 0.
Proof.
  unfold gupdate, expected_err. intros E.
  destruct (negb (check_opts o =? 0)) eqn:C.
  - injection E as <- <-. cbn. auto.
  - destruct (dial_all fails readys (g_dials s) _) as [[nps lg] failed] eqn:D.
    destruct (dial_all_spec _ _ _ _ _ _ _ D) as [Hf _].
    set (missing := filter (fun e => negb (gmem (g_pools s) e)) (mentioned o)) in *.
    assert (Hex : failed =
              existsb (fun e => negb (memN e (pool_eps (gobserve s))) && memN e fails) (mentioned o)).
    { rewrite Hf.
      assert (NDm : NoDup missing) by (apply NoDup_filter, mentioned_NoDup).
      destruct (dial_order_spec oracle missing NDm) as [_ DO].
      assert (PE : pool_eps (gobserve s) = map fst (g_pools s)).
      { unfold pool_eps, gobserve. cbn [ob_pools]. rewrite map_map. reflexivity. }
      rewrite PE.
      apply eq_true_iff_eq. rewrite !existsb_exists. split.
      - intros [e [He Hm]]. apply DO in He. unfold missing in He. apply filter_In in He.
        destruct He as [He1 He2]. exists e. split; auto. rewrite gmem_memN in He2.
        rewrite He2, Hm. reflexivity.
      - intros [e [He Hm]]. apply andb_true_iff in Hm. destruct Hm as [Hm1 Hm2].
        exists e. split; auto. apply DO. unfold missing. apply filter_In. split; auto.
        rewrite gmem_memN. exact Hm1. }
    rewrite <- Hex. destruct failed; injection E as <- <-; cbn; auto.
Qed.

(* --------------------------------------------------- a successful update *)
Record UpdOK (s : gst) (o : gopts) (s' : gst) (out : gout) : Prop := mkUpdOK {
  uo_check : check_opts o = 0;
  uo_closed : g_closed s' = g_closed s;
  uo_default : g_default s' = go_default o;
  uo_dials : g_dials s' = (g_dials s + N.of_nat (length (og_dials out)))%N;
  uo_call : og_call out = 0;
  (* update_pools *)
  uo_pkeys : forall e, In e (map fst (g_pools s')) <-> In e (mentioned o);
  uo_pools : forall e p, In (e, p) (g_pools s') ->
     (In (e, p) (g_pools s) /\ ~ In e (map fst (og_dials out))) \/
     (gget (g_pools s) e = None /\ p_open p = true /\ p_mon p = true /\
      exists k, index_of e (map fst (og_dials out)) = Some k /\ p_id p = (g_dials s + N.of_nat k)%N);
  uo_log_ok : forallb (fun d => snd d) (og_dials out) = true;
  uo_log_nodup : NoDup (map fst (og_dials out));
  uo_log_new : forall e, In e (map fst (og_dials out)) ->
               ~ In e (map fst (g_pools s)) /\ In e (mentioned o);
  (* MultiEndpoints *)
  uo_names : map fst (g_mes s') = map fst (go_mes o);
  uo_mes : forall n m, In (n, m) (g_mes s') ->
           exists mo, In (n, Some mo) (go_mes o) /\ forall k, In k (keys m) <-> In k (mo_eps mo);
  (* update_status_synced *)
  uo_synced : forall n m e p, In (n, m) (g_mes s') -> In e (keys m) -> In (e, p) (g_pools s') ->
              availN m e = p_ready p
}.

Lemma check_opts_0 o : check_opts o = 0 ->
  NoDup (map fst (go_mes o)) /\ In (go_default o) (map fst (go_mes o)) /\
  forallb (fun nv => opt_ok (snd nv)) (go_mes o) = true.
Proof.
  unfold check_opts. destruct (nodupb (map fst (go_mes o))) eqn:ND; cbn [negb]; [|discriminate].
  destruct (gmem (go_mes o) (go_default o)) eqn:GM; cbn [negb]; [|discriminate].
  destruct (forallb _ (go_mes o)) eqn:F; [|discriminate].
  intros _. split; [apply nodupb_spec; exact ND|]. split; auto.
  rewrite gmem_memN in GM. apply memN_In. exact GM.
Qed.

Lemma gupdate_ok s o fails oracle readys s' out :
  GInv s -> gupdate s o fails oracle readys = (s', out) -> og_err out = 0 ->
  GInv s' /\ Created s' /\ UpdOK s o s' out.
Proof.
  intros GI E Herr. unfold gupdate in E.
  destruct (check_opts o =? 0) eqn:C; cbn [negb] in E.
  2:{ injection E as <- <-. cbn in Herr. apply Z.eqb_neq in C. contradiction. }
  apply Z.eqb_eq in C. destruct (check_opts_0 o C) as [NDn [Hdef Hok]].
  set (missing := filter (fun e => negb (gmem (g_pools s) e)) (mentioned o)) in *.
  destruct (dial_all fails readys (g_dials s) (dial_order oracle missing)) as [[nps lg] failed] eqn:D.
  destruct failed; [injection E as <- <-; cbn in Herr; discriminate|].
  injection E as <- <-.
  assert (NDm : NoDup missing) by (apply NoDup_filter, mentioned_NoDup).
  destruct (dial_order_spec oracle missing NDm) as [NDo DO].
  destruct (dial_all_spec _ _ _ _ _ _ _ D) as [_ DS]. destruct (DS eq_refl) as [M1 [M2 [M3 M4]]].
  clear DS.
  set (allp := g_pools s ++ nps) in *.
  set (pools := filter (fun ep => memN (fst ep) (mentioned o)) allp) in *.
  assert (Hmiss : forall e, In e missing <-> In e (mentioned o) /\ ~ In e (map fst (g_pools s))).
  { intros e. unfold missing. rewrite filter_In, negb_true_iff, gmem_memN. rewrite memN_false. tauto. }
  assert (NDall : NoDup (map fst allp)).
  { unfold allp. rewrite map_app. apply NoDup_app_intro.
    - apply GI.
    - rewrite M1. exact NDo.
    - intros x H1 H2. rewrite M1 in H2. apply DO in H2. apply Hmiss in H2. tauto. }
  assert (NDp : NoDup (map fst pools)) by (apply NoDup_map_filter; exact NDall).
  assert (PK : forall e, In e (map fst pools) <-> In e (mentioned o)).
  { intros e. unfold pools. split.
    - intros H. apply in_map_iff in H. destruct H as [[e' p] [<- H]]. apply filter_In in H.
      destruct H as [_ H]. apply memN_In. exact H.
    - intros H. destruct (in_dec N.eq_dec e (map fst (g_pools s))) as [Hin|Hnin].
      + apply in_map_iff in Hin. destruct Hin as [[e' p] [<- Hin]]. apply in_map_iff.
        exists (e', p). split; auto. apply filter_In. split.
        * unfold allp. apply in_or_app. left; exact Hin.
        * apply memN_In. exact H.
      + assert (Hm : In e missing) by (apply Hmiss; tauto).
        apply DO in Hm. rewrite <- M1 in Hm. apply in_map_iff in Hm.
        destruct Hm as [[e' p] [<- Hin]]. apply in_map_iff. exists (e', p). split; auto.
        apply filter_In. split.
        * unfold allp. apply in_or_app. right; exact Hin.
        * apply memN_In. exact H. }
  (* the MultiEndpoints *)
  assert (A0 : AllInv (g_mes s)) by (intros n m H; apply (gi_me _ GI n m H)).
  destruct (new_mes_spec (g_mes s) A0 (go_mes o) Hok) as [NM1 NM2].
  fold (new_mes (g_mes s) o) in NM1, NM2.
  assert (A1 : AllInv (new_mes (g_mes s) o)) by (intros n m H; apply (NM2 n m H)).
  destruct (sync_spec pools (new_mes (g_mes s) o) A1 NDp) as [A2 [SN SS]].
  set (mes := sync (new_mes (g_mes s) o) pools) in *.
  assert (MesFacts : forall n m, In (n, m) mes ->
            exists mo, In (n, Some mo) (go_mes o) /\ forall k, In k (keys m) <-> In k (mo_eps mo)).
  { intros n m H. destruct (SS n m H) as [m0 [H0 [K0 _]]].
    destruct (NM2 n m0 H0) as [_ [mo [Hmo Kmo]]]. exists mo. split; auto.
    intros k. rewrite K0. apply Kmo. }
  assert (Names : map fst mes = map fst (go_mes o)) by (rewrite SN; exact NM1).
  assert (PoolFacts : forall e p, In (e, p) pools ->
     (In (e, p) (g_pools s) /\ ~ In e (map fst lg)) \/
     (gget (g_pools s) e = None /\ p_open p = true /\ p_mon p = true /\
      exists k, index_of e (map fst lg) = Some k /\ p_id p = (g_dials s + N.of_nat k)%N)).
  { intros e p H. unfold pools in H. apply filter_In in H. destruct H as [H _].
    unfold allp in H. apply in_app_or in H. destruct H as [H|H].
    - left. split; auto. rewrite M2. intros Hd. apply DO in Hd. apply Hmiss in Hd.
      apply (proj2 Hd). apply in_map_iff. exists (e, p). split; auto.
    - right. destruct (M4 e p H) as [O1 [O2 [_ O4]]].
      assert (Hd : In e (dial_order oracle missing)).
      { rewrite <- M1. apply in_map_iff. exists (e, p). split; auto. }
      apply DO in Hd. apply Hmiss in Hd. split; [apply gget_None; tauto|].
      split; auto. split; auto. rewrite M2. apply O4. exact NDo. }
  split; [|split].
  - (* GInv *)
    constructor; cbn [g_mes g_pools g_default g_closed].
    + rewrite Names. exact NDn.
    + exact NDp.
    + intros n m H. split; [apply (A2 n m H)|].
      intros e He. apply PK. destruct (MesFacts n m H) as [mo [Hmo K]].
      apply mentioned_In. exists n, mo. split; auto. apply K. exact He.
    + intros Hc e p H. destruct (PoolFacts e p H) as [[Hold _]|[_ [O1 [O2 _]]]]; auto.
      apply (gi_open _ GI Hc e p Hold).
    + right. rewrite Names. exact Hdef.
  - (* Created *)
    unfold Created. cbn [g_mes]. intros Hnil.
    assert (Hl : map fst mes = []) by (fold mes in Hnil; rewrite Hnil; reflexivity).
    rewrite Names in Hl. rewrite Hl in Hdef. destruct Hdef.
  - constructor; cbn [g_mes g_pools g_default g_closed g_dials og_dials og_call].
    + exact C.
    + reflexivity.
    + reflexivity.
    + reflexivity.
    + reflexivity.
    + exact PK.
    + exact PoolFacts.
    + exact M3.
    + rewrite M2. exact NDo.
    + rewrite M2. intros e Hd. apply DO in Hd. apply Hmiss in Hd. tauto.
    + exact Names.
    + exact MesFacts.
    + intros n m e p Hm He Hp. destruct (SS n m Hm) as [m0 [H0 [K0 [R0 _]]]].
      apply (R0 e p Hp). rewrite <- K0. exact He.
Qed.

(* ------------------------------------------------------------ other steps *)
Lemma set_ready_keys pools e b : map fst (set_ready pools e b) = map fst pools.
Proof.
  unfold set_ready. rewrite map_map. apply map_ext. intros [k p]. cbn.
  destruct (N.eqb k e); reflexivity.
Qed.

Lemma set_ready_In pools e b k p :
  In (k, p) (set_ready pools e b) ->
  exists q, In (k, q) pools /\ p_id p = p_id q /\ p_open p = p_open q /\ p_mon p = p_mon q /\
            p_ready p = if N.eqb k e then b else p_ready q.
Proof.
  unfold set_ready. rewrite in_map_iff. intros [[k' q] [E H]]. cbn [fst snd] in E.
  destruct (N.eqb_spec k' e) as [He|He].
  - injection E as <- <-. exists q. subst k'. rewrite N.eqb_refl. cbn. auto.
  - injection E as <- <-. exists q. destruct (N.eqb_spec k' e); [contradiction|]. auto.
Qed.

Lemma GInv_gready s e b : GInv s -> GInv (gready s e b).
Proof.
  intros GI. unfold gready. destruct (gget (g_pools s) e) as [p|]; [|exact GI].
  destruct (p_mon p); [|exact GI].
  assert (A0 : AllInv (g_mes s)) by (intros n m H; apply (gi_me _ GI n m H)).
  destruct (deliver_spec (g_mes s) e b A0) as [A1 D1].
  constructor; cbn [g_mes g_pools g_default g_closed].
  - rewrite deliver_names. apply GI.
  - rewrite set_ready_keys. apply GI.
  - intros n m' H. split; [apply (A1 n m' H)|]. destruct (D1 n m' H) as [m [Hm [K _]]].
    intros e' He'. rewrite set_ready_keys. rewrite K in He'. apply (gi_me _ GI n m Hm). exact He'.
  - intros Hc k q H. destruct (set_ready_In _ _ _ _ _ H) as [q0 [H0 [_ [Eo [Em _]]]]].
    rewrite Eo, Em. apply (gi_open _ GI Hc k q0 H0).
  - destruct (gi_def _ GI) as [Hn|Hd].
    + left. unfold deliver. rewrite Hn. reflexivity.
    + right. rewrite deliver_names. exact Hd.
Qed.

Lemma GInv_gtick s n o : GInv s -> GInv (gtick s n o).
Proof.
  intros GI. unfold gtick. destruct (is_timer_op o) eqn:T; [|exact GI].
  set (f := fun nm : N * me => if N.eqb (fst nm) n then (fst nm, fst (step (snd nm) o)) else nm).
  assert (Names : map fst (map f (g_mes s)) = map fst (g_mes s)).
  { rewrite map_map. apply map_ext. intros [k m]. unfold f. cbn. destruct (N.eqb k n); reflexivity. }
  constructor; cbn [g_mes g_pools g_default g_closed].
  - rewrite Names. apply GI.
  - apply GI.
  - intros k m' H. apply in_map_iff in H. destruct H as [[k0 m0] [E H]]. unfold f in E. cbn [fst snd] in E.
    destruct (gi_me _ GI k0 m0 H) as [I0 P0].
    destruct (N.eqb k0 n).
    + injection E as <- <-. destruct (step m0 o) as [m1 outs] eqn:Es. cbn [fst].
      pose proof (step_ok _ _ _ _ I0 Es) as SO. split; [apply SO|].
      pose proof (so_keys _ _ _ _ SO) as K. destruct o; try discriminate T; cbn in K; rewrite K; exact P0.
    + injection E as <- <-. split; auto.
  - apply GI.
  - destruct (gi_def _ GI) as [Hn|Hd].
    + left. rewrite Hn. reflexivity.
    + right. rewrite Names. exact Hd.
Qed.

Lemma GInv_gclose s : GInv s -> GInv (gclose s).
Proof.
  intros GI. unfold gclose.
  assert (K : map fst (map (fun ep : N * pool => (fst ep, mkPool (p_id (snd ep)) false false false)) (g_pools s))
              = map fst (g_pools s)).
  { rewrite map_map. reflexivity. }
  constructor; cbn [g_mes g_pools g_default g_closed].
  - apply GI.
  - rewrite K. apply GI.
  - intros n m H. destruct (gi_me _ GI n m H) as [I P]. split; auto. rewrite K. exact P.
  - discriminate.
  - apply GI.
Qed.

(* close_releases_all *)
Lemma close_releases_all_proof s :
  let s' := gclose s in
  (forall e p, In (e, p) (g_pools s') -> p_open p = false /\ p_mon p = false) /\
  ob_open (gobserve s') = [] /\ ob_census (gobserve s') = 0 /\ map fst (g_pools s') = map fst (g_pools s).
Proof.
  cbn zeta. unfold gclose.
  set (f := fun ep : N * pool => (fst ep, mkPool (p_id (snd ep)) false false false)).
  assert (H : forall e p, In (e, p) (map f (g_pools s)) -> p_open p = false /\ p_mon p = false).
  { intros e p Hin. apply in_map_iff in Hin. destruct Hin as [[e0 p0] [E _]]. unfold f in E.
    injection E as <- <-. split; reflexivity. }
  split; [exact H|]. unfold gobserve. cbn [ob_open ob_census g_pools].
  rewrite !filter_none.
  - cbn. split; auto. split; auto. rewrite map_map. reflexivity.
  - intros [e p] Hin. cbn. apply (H e p Hin).
  - intros [e p] Hin. cbn. apply (H e p Hin).
Qed.

(* failed_new_releases_all *)
Lemma failed_new_releases_all_proof o fails oracle readys s1 out :
  gupdate (ginit o) o fails oracle readys = (s1, out) -> og_err out <> 0 ->
  g_mes s1 = [] /\ g_pools s1 = [] /\ ob_open (gobserve s1) = [] /\ ob_census (gobserve s1) = 0 /\
  gobs_same (gobserve s1) obs_none = true.
Proof.
  intros E Herr. destruct (failed_update_identity_proof _ _ _ _ _ _ _ E Herr) as [Hm [Hp [_ [_ [Ho _]]]]].
  cbn in Hm, Hp. rewrite Ho. repeat split; auto.
Qed.

(* ------------------------------------------------------------ route_total *)
Lemma gpick_total s ctx : GInv s -> Created s -> exists n m, In (n, m) (g_mes s) /\ gpick s ctx = Some m.
Proof.
  intros GI Cr. destruct (gi_def _ GI) as [Hn|Hd]; [contradiction|].
  destruct (In_key_gget _ _ Hd) as [md Hmd].
  unfold gpick. destruct ctx as [n|].
  - destruct (gget (g_mes s) n) as [m|] eqn:G.
    + exists n, m. split; auto. apply gget_In. exact G.
    + exists (g_default s), md. split; auto. apply gget_In. exact Hmd.
  - exists (g_default s), md. split; auto. apply gget_In. exact Hmd.
Qed.

(* route_total: pickConn never hits a missing pool (uses engine B's cur_member,
   Inv_cur_member), and before Close the pool is open *)
Lemma route_total_state s ctx : GInv s -> Created s ->
  exists e id op, groute s ctx = RPool e id op /\ (g_closed s = false -> op = true).
Proof.
  intros GI Cr. destruct (gpick_total s ctx GI Cr) as [n [m [Hin Hp]]].
  unfold groute. rewrite Hp. destruct (gi_me _ GI n m Hin) as [I P].
  pose proof (P _ (Inv_cur_member m I)) as Hk. destruct (In_key_gget _ _ Hk) as [p Gp].
  rewrite Gp. exists (cur m), (p_id p), (p_open p). split; auto.
  intros Hc. apply (gi_open _ GI Hc (cur m) p). apply gget_In. exact Gp.
Qed.

Lemma routes_live_obs s : GInv s -> Created s -> g_closed s = false -> routes_live (gobserve s) = true.
Proof.
  intros GI Cr Hc. unfold routes_live. rewrite routes_cover_obs. cbn [andb].
  apply forallb_forall. intros [c r] H. cbn [snd].
  unfold gobserve in H. cbn [ob_routes] in H. apply in_map_iff in H.
  destruct H as [c' [E _]]. injection E as _ <-.
  destruct (route_total_state s c' GI Cr) as [e [id [op [-> Ho]]]]. rewrite (Ho Hc). reflexivity.
Qed.
