(* Engine C proofs, part 1: association lists, booleans, and the facts about
   engine B's model (ME) that the GCPMultiEndpoint proofs need: what
   SetEndpointAvailability does to the availability of every endpoint (its own
   and - frame - the others), and how observations relate to states. *)
From GV Require Import ME.Model ME.Monitors ME.Lists ME.Inv GME.Model GME.Monitors.
From Coq Require Import Permutation.
Open Scope Z_scope.

(* ------------------------------------------------------------------ lists *)
Lemma gget_In {V} (m : list (N * V)) k v : gget m k = Some v -> In (k, v) m.
Proof.
  induction m as [|[k' v'] r IH]; cbn; [discriminate|].
  destruct (N.eqb_spec k' k) as [->|Hne].
  - intros E; injection E as ->. left; reflexivity.
  - intros E. right. apply IH. exact E.
Qed.

Lemma gget_None {V} (m : list (N * V)) k : gget m k = None <-> ~ In k (map fst m).
Proof.
  induction m as [|[k' v'] r IH]; cbn.
  - split; [intros _ []|reflexivity].
  - destruct (N.eqb_spec k' k) as [->|Hne].
    + split; [discriminate|]. intros H. exfalso. apply H. left; reflexivity.
    + rewrite IH. split.
      * intros H [E|E]; [congruence|auto].
      * intros H E. apply H. right; exact E.
Qed.

Lemma In_gget {V} (m : list (N * V)) k v : NoDup (map fst m) -> In (k, v) m -> gget m k = Some v.
Proof.
  induction m as [|[k' v'] r IH]; cbn; [intros _ []|].
  intros ND [E|E].
  - injection E as -> ->. rewrite N.eqb_refl. reflexivity.
  - inversion ND as [|x l Hn ND']; subst.
    destruct (N.eqb_spec k' k) as [->|Hne].
    + exfalso. apply Hn. apply in_map_iff. exists (k, v). split; auto.
    + apply IH; auto.
Qed.

Lemma gget_key {V} (m : list (N * V)) k v : gget m k = Some v -> In k (map fst m).
Proof. intros H. apply gget_In in H. apply in_map_iff. exists (k, v). split; auto. Qed.

Lemma In_key_gget {V} (m : list (N * V)) k : In k (map fst m) -> exists v, gget m k = Some v.
Proof.
  intros H. destruct (gget m k) as [v|] eqn:E; [eauto|].
  apply gget_None in E. contradiction.
Qed.

Lemma gmem_memN {V} (m : list (N * V)) k : gmem m k = memN k (map fst m).
Proof.
  unfold gmem. destruct (gget m k) as [v|] eqn:E.
  - symmetry. apply memN_In. eapply gget_key; eauto.
  - symmetry. apply memN_false. apply gget_None. exact E.
Qed.

Lemma nodupb_spec l : nodupb l = true <-> NoDup l.
Proof.
  induction l as [|x r IH]; cbn.
  - split; [constructor|reflexivity].
  - rewrite andb_true_iff, negb_true_iff, IH. split.
    + intros [H1 H2]. constructor; auto. apply memN_false. exact H1.
    + intros H. inversion H; subst. split; auto. apply memN_false. assumption.
Qed.

Lemma list_eqb_refl' {A} (eqb : A -> A -> bool) l :
  (forall x, eqb x x = true) -> list_eqb eqb l l = true.
Proof. intros H. induction l; cbn; auto. rewrite H, IHl. reflexivity. Qed.

Lemma same_set_refl l : same_set l l = true.
Proof. apply same_set_spec. tauto. Qed.

Lemma opool_eqb_refl p : opool_eqb p p = true.
Proof. unfold opool_eqb. rewrite !N.eqb_refl, !eqb_reflx. reflexivity. Qed.

Lemma route_eqb_refl r : route_eqb r r = true.
Proof. destruct r; cbn; auto. rewrite !N.eqb_refl, eqb_reflx. reflexivity. Qed.

Lemma ctx_eqb_refl c : ctx_eqb c c = true.
Proof. destruct c; cbn; auto. apply N.eqb_refl. Qed.

Lemma ome_eqb_refl m : ome_eqb m m = true.
Proof.
  unfold ome_eqb. rewrite !N.eqb_refl. cbn. apply list_eqb_refl'. apply oep_eqb_refl.
Qed.

Lemma gobs_eqb_refl o : gobs_eqb o o = true.
Proof.
  unfold gobs_eqb, gobs_same.
  rewrite (list_eqb_refl' ome_eqb _ ome_eqb_refl), (list_eqb_refl' opool_eqb _ opool_eqb_refl).
  rewrite (list_eqb_refl' N.eqb _ N.eqb_refl), Z.eqb_refl, N.eqb_refl.
  rewrite list_eqb_refl'; [reflexivity|].
  intros [c r]. unfold croute_eqb. cbn. rewrite ctx_eqb_refl, route_eqb_refl. reflexivity.
Qed.

Lemma filter_all {A} (f : A -> bool) l : (forall x, In x l -> f x = true) -> filter f l = l.
Proof.
  induction l as [|x r IH]; cbn; auto. intros H.
  rewrite (H x (or_introl eq_refl)). f_equal. apply IH. intros y Hy. apply H. right; exact Hy.
Qed.

Lemma filter_none {A} (f : A -> bool) l : (forall x, In x l -> f x = false) -> filter f l = [].
Proof.
  induction l as [|x r IH]; cbn; auto. intros H.
  rewrite (H x (or_introl eq_refl)). apply IH. intros y Hy. apply H. right; exact Hy.
Qed.

Lemma NoDup_map_filter {A} (g : A -> N) (f : A -> bool) l : NoDup (map g l) -> NoDup (map g (filter f l)).
Proof.
  induction l as [|x r IH]; cbn; auto. intros H. inversion H; subst.
  destruct (f x); cbn; auto. constructor; auto.
  intros Hin. apply H2. apply in_map_iff in Hin. destruct Hin as [y [E Hy]].
  apply filter_In in Hy. apply in_map_iff. exists y. tauto.
Qed.

Lemma NoDup_filter {A} (f : A -> bool) l : NoDup l -> NoDup (filter f l).
Proof.
  induction l as [|x r IH]; cbn; auto. intros H. inversion H; subst.
  destruct (f x); auto. constructor; auto. rewrite filter_In. tauto.
Qed.

Lemma NoDup_app_intro {A} (a b : list A) :
  NoDup a -> NoDup b -> (forall x, In x a -> ~ In x b) -> NoDup (a ++ b).
Proof.
  induction a as [|x r IH]; cbn; auto. intros Ha Hb H. inversion Ha; subst.
  constructor.
  - rewrite in_app_iff. intros [Hx|Hx]; [auto|]. apply (H x); auto.
  - apply IH; auto.
Qed.

Lemma index_of_In e l : In e l -> exists k, index_of e l = Some k.
Proof.
  induction l as [|x r IH]; cbn; [intros []|].
  destruct (N.eqb_spec x e) as [->|Hne]; [eauto|].
  intros [E|E]; [congruence|]. destruct (IH E) as [k Hk]. rewrite Hk. cbn. eauto.
Qed.

(* ----------------------------------------------- observations of tables *)
Lemma find_ome_obs mes n :
  find_ome n (map ome_of mes) = option_map (fun m => ome_of (n, m)) (gget mes n).
Proof.
  induction mes as [|[k v] r IH]; cbn; [reflexivity|].
  destruct (N.eqb_spec k n) as [->|Hne]; [reflexivity|exact IH].
Qed.

Lemma find_opool_obs pools e :
  find_opool e (map opool_of pools) = option_map (fun p => opool_of (e, p)) (gget pools e).
Proof.
  induction pools as [|[k v] r IH]; cbn; [reflexivity|].
  destruct (N.eqb_spec k e) as [->|Hne]; [reflexivity|exact IH].
Qed.

Lemma spec_pick_obs s ctx :
  spec_pick (gobserve s) ctx =
  match ctx with
  | Some n => match gget (g_mes s) n with
              | Some m => Some (ome_of (n, m))
              | None => option_map (fun m => ome_of (g_default s, m)) (gget (g_mes s) (g_default s))
              end
  | None => option_map (fun m => ome_of (g_default s, m)) (gget (g_mes s) (g_default s))
  end.
Proof.
  unfold spec_pick, gobserve. cbn [ob_mes ob_default]. rewrite !find_ome_obs.
  destruct ctx as [n|]; [|reflexivity]. rewrite find_ome_obs.
  destruct (gget (g_mes s) n); reflexivity.
Qed.

(* route_spec: pickConn, read off the observed tables *)
Lemma spec_route_obs s ctx : spec_route (gobserve s) ctx = groute s ctx.
Proof.
  unfold spec_route, groute, gpick. rewrite spec_pick_obs.
  assert (H : forall k (om : option me),
            match option_map (fun m => ome_of (k, m)) om with
            | Some m => match find_opool (om_cur m) (ob_pools (gobserve s)) with
                        | Some p => RPool (om_cur m) (op_id p) (op_open p)
                        | None => RPanic
                        end
            | None => RPanic
            end =
            match om with
            | Some m => match gget (g_pools s) (cur m) with
                        | Some p => RPool (cur m) (p_id p) (p_open p)
                        | None => RPanic
                        end
            | None => RPanic
            end).
  { intros k [m|]; cbn [option_map]; [|reflexivity].
    change (ob_pools (gobserve s)) with (map opool_of (g_pools s)).
    cbn [ome_of om_cur fst snd]. rewrite find_opool_obs.
    destruct (gget (g_pools s) (cur m)); reflexivity. }
  destruct ctx as [n|].
  - destruct (gget (g_mes s) n) as [m|].
    + apply (H n (Some m)).
    + apply H.
  - apply H.
Qed.

Lemma spec_call_obs s ctx : spec_call (gobserve s) ctx = gcall s ctx.
Proof.
  unfold spec_call, gcall, gpick. rewrite spec_pick_obs.
  assert (H : forall k (om : option me),
            match option_map (fun m => ome_of (k, m)) om with
            | Some m => match find_opool (om_cur m) (ob_pools (gobserve s)) with
                        | Some p => if op_ready p then Z.of_N (om_cur m) else -2
                        | None => -1
                        end
            | None => -1
            end =
            match om with
            | Some m => match gget (g_pools s) (cur m) with
                        | Some p => if p_ready p then Z.of_N (cur m) else -2
                        | None => -1
                        end
            | None => -1
            end).
  { intros k [m|]; cbn [option_map]; [|reflexivity].
    change (ob_pools (gobserve s)) with (map opool_of (g_pools s)).
    cbn [ome_of om_cur fst snd]. rewrite find_opool_obs.
    destruct (gget (g_pools s) (cur m)); reflexivity. }
  destruct ctx as [n|].
  - destruct (gget (g_mes s) n) as [m|].
    + apply (H n (Some m)).
    + apply H.
  - apply H.
Qed.

Lemma routes_cover_obs s : routes_cover (gobserve s) = true.
Proof. reflexivity. Qed.

Lemma routes_spec_obs s : routes_spec_ok (gobserve s) = true.
Proof.
  unfold routes_spec_ok. rewrite routes_cover_obs. cbn [andb].
  apply forallb_forall. intros [c r] H. cbn [fst snd].
  unfold gobserve in H. cbn [ob_routes] in H. apply in_map_iff in H.
  destruct H as [c' [E _]]. injection E as -> <-.
  rewrite spec_route_obs. apply route_eqb_refl.
Qed.

(* ------------------------------------------------- facts about engine B *)
Definition availN (m : me) (e : N) : bool :=
  match ep_of_id m e with Some x => availb x | None => false end.

(* an observed endpoint row is the row of a mapped endpoint *)
Lemma obs_row m x : WFs m -> In x (o_eps (observe m)) ->
  In (oe_id x) (keys m) /\ o_avail x = availN m (oe_id x).
Proof.
  intros W H. change (o_eps (observe m)) with (L m) in H.
  apply (Permutation_in _ (L_perm m)) in H. apply in_map_iff in H.
  destruct H as [e [<- He]]. apply In_mapped_eps in He. destruct He as [k Hk].
  pose proof (Mapped_id _ _ _ W Hk) as Eid.
  assert (Eo : oe_id (oep_of e) = k) by (cbn; exact Eid).
  rewrite Eo. split; [eapply Mapped_key; eauto|].
  unfold availN. apply ep_of_id_Mapped in Hk; auto. rewrite Hk. apply o_avail_oep.
Qed.

Lemma obs_ids m : WFs m -> forall e, In e (ids_of (o_eps (observe m))) <-> In e (keys m).
Proof. intros W e. apply (L_ids_In m e W). Qed.

Lemma mUC_frame s s' o : maybeUpdateCurrent s = (s', o) -> heap s' = heap s /\ emap s' = emap s.
Proof.
  intros H. apply mUC_cases in H. destruct H; split; reflexivity.
Qed.

(* SetEndpointAvailability touches the heap cell of its own endpoint only *)
Lemma SEA_frame s id b s' o :
  SetEndpointAvailability s id b = (s', o) ->
  emap s' = emap s /\
  forall c, lookup (emap s) id <> Some c -> nth_error (heap s') c = nth_error (heap s) c.
Proof.
  unfold SetEndpointAvailability.
  destruct (setEndpointAvailability s id b) as [s1 o1] eqn:E1.
  destruct (maybeUpdateCurrent s1) as [s2 o2] eqn:E2.
  intros E; injection E as <- <-.
  destruct (mUC_frame _ _ _ E2) as [Hh Hm]. rewrite Hh, Hm. clear E2 Hh Hm.
  unfold setEndpointAvailability in E1.
  destruct (lookup (emap s) id) as [c0|] eqn:Lk.
  2:{ injection E1 as <- <-. split; auto. }
  destruct (get_ep s c0) as [ee|] eqn:G.
  2:{ injection E1 as <- <-. split; auto. }
  assert (Upd : forall st, emap (setState_res s c0 ee st) = emap s /\
            forall c, Some c0 <> Some c ->
              nth_error (heap (setState_res s c0 ee st)) c = nth_error (heap s) c).
  { intros st. split; [reflexivity|]. intros c Hc. cbn.
    apply nth_error_upd_nth_neq. congruence. }
  destruct b.
  - destruct (setState_eq s c0 ee Available G) as [o' [Eq _]]. rewrite Eq in E1.
    injection E1 as <- <-. apply Upd.
  - destruct (negb (status_eqb (e_st ee) Available)).
    { injection E1 as <- <-. split; auto. }
    destruct (recov s =? 0).
    + destruct (setState_eq s c0 ee Unavailable G) as [o' [Eq _]]. rewrite Eq in E1.
      injection E1 as <- <-. apply Upd.
    + destruct (setState_eq s c0 ee Recovering G) as [o' [Eq _]]. rewrite Eq in E1.
      set (sr := setState_res s c0 ee Recovering) in *.
      assert (G' : exists e', get_ep sr c0 = Some e').
      { unfold get_ep, sr. cbn. eexists. apply nth_error_upd_nth_eq. exact G. }
      destruct G' as [e' G'].
      rewrite (sched_eq sr c0 _ G') in E1. injection E1 as <- <-.
      destruct (Upd Recovering) as [U1 U2]. split; [exact U1|].
      intros c Hc. cbn [sched_res heap].
      rewrite nth_error_upd_nth_neq by congruence. apply U2. exact Hc.
Qed.

Lemma WFs_cell_inj s k1 k2 c : WFs s -> lookup (emap s) k1 = Some c -> lookup (emap s) k2 = Some c -> k1 = k2.
Proof.
  intros W H1 H2. apply lookup_In in H1. apply lookup_In in H2.
  destruct (wf_cells _ W _ _ H1) as [e1 [N1 I1]]. destruct (wf_cells _ W _ _ H2) as [e2 [N2 I2]].
  congruence.
Qed.

Lemma SEA_frame_id s id b s' o id' :
  WFs s -> SetEndpointAvailability s id b = (s', o) -> id' <> id ->
  ep_of_id s' id' = ep_of_id s id'.
Proof.
  intros W E Hne. destruct (SEA_frame _ _ _ _ _ E) as [Hm Hc].
  unfold ep_of_id, get_ep. rewrite Hm.
  destruct (lookup (emap s) id') as [c|] eqn:Lk; [|reflexivity].
  apply Hc. intros Lk2. apply Hne. eapply WFs_cell_inj; eauto.
Qed.

(* the effect of one availability report on the availability of every endpoint *)
Lemma SEA_avail m e b :
  Inv m ->
  let m' := fst (SetEndpointAvailability m e b) in
  Inv m' /\ keys m' = keys m /\
  forall e', In e' (keys m) -> availN m' e' = if N.eqb e' e then b else availN m e'.
Proof.
  intros I. destruct (SetEndpointAvailability m e b) as [m' o] eqn:E. cbn [fst].
  assert (Es : step m (OpAvail e b) = (m', o)) by exact E.
  pose proof (step_ok _ _ _ _ I Es) as SO.
  pose proof (so_inv _ _ _ _ SO) as I'. pose proof (so_keys _ _ _ _ SO) as K. cbn in K.
  pose proof (so_avail _ _ _ _ SO) as AF. cbn in AF.
  split; [exact I'|]. split; [exact K|].
  intros e' He'. destruct (N.eqb_spec e' e) as [->|Hne].
  - (* the reported endpoint *)
    pose proof (inv_wf _ I) as W. pose proof (inv_wf _ I') as W'.
    assert (He2 : In e (keys m')) by (rewrite K; exact He').
    destruct (key_Mapped _ _ W' He2) as [ea Ma]. apply ep_of_id_Mapped in Ma; auto.
    destruct (key_Mapped _ _ W He') as [eb Mb]. apply ep_of_id_Mapped in Mb; auto.
    unfold availN. rewrite Ma. unfold AvailFacts in AF. destruct b.
    + destruct (AF ea Ma) as [St _]. unfold availb. rewrite St. reflexivity.
    + rewrite Mb in AF. destruct AF as [ea' [Ea' F]]. rewrite Ma in Ea'. injection Ea' as <-.
      destruct (availb eb) eqn:Ab.
      * destruct (recov m =? 0).
        -- unfold availb. rewrite F. reflexivity.
        -- destruct F as [F _]. unfold availb. rewrite F. reflexivity.
      * destruct F as [-> _]. exact Ab.
  - unfold availN. rewrite (SEA_frame_id _ _ _ _ _ e' (inv_wf _ I) E Hne). reflexivity.
Qed.

Lemma SEA_cur_keys m e b : Inv m -> In (cur (fst (SetEndpointAvailability m e b))) (keys m).
Proof.
  intros I. destruct (SEA_avail m e b I) as [I' [K _]]. rewrite <- K. apply Inv_cur_member. exact I'.
Qed.
