(* Engine C: the properties C15 and C16 as boolean monitors over traces, and
   the acceptor comparing a recorded implementation trace with the model.
   A monitor sees only the operation, its outputs (error code, dial log, RPC
   destination) and the observation read back afterwards.  None of the monitor
   clauses depends on the order of the MultiEndpoint / pool tables. *)
From GV Require Import ME.Model ME.Monitors GME.Model.
Open Scope Z_scope.

Definition find_ome (n : N) (l : list ome) : option ome := find (fun m => N.eqb (om_name m) n) l.
Definition find_opool (e : N) (l : list opool) : option opool := find (fun p => N.eqb (op_ep p) e) l.

Definition route_eqb (a b : route) : bool :=
  match a, b with
  | RPanic, RPanic => true
  | RPool e i o, RPool e' i' o' => N.eqb e e' && N.eqb i i' && Bool.eqb o o'
  | _, _ => false
  end.

Definition ctx_eqb (a b : option N) : bool :=
  match a, b with
  | None, None => true
  | Some x, Some y => N.eqb x y
  | _, _ => false
  end.

(* pickConn as a function of the tables in an observation *)
Definition spec_pick (ob : gobs) (ctx : option N) : option ome :=
  match ctx with
  | Some n => match find_ome n (ob_mes ob) with
              | Some m => Some m
              | None => find_ome (ob_default ob) (ob_mes ob)
              end
  | None => find_ome (ob_default ob) (ob_mes ob)
  end.

Definition spec_route (ob : gobs) (ctx : option N) : route :=
  match spec_pick ob ctx with
  | None => RPanic
  | Some m => match find_opool (om_cur m) (ob_pools ob) with
              | None => RPanic
              | Some p => RPool (om_cur m) (op_id p) (op_open p)
              end
  end.

Definition spec_call (ob : gobs) (ctx : option N) : Z :=
  match spec_pick ob ctx with
  | None => -1
  | Some m => match find_opool (om_cur m) (ob_pools ob) with
              | None => -1
              | Some p => if op_ready p then Z.of_N (om_cur m) else -2
              end
  end.

Definition routes_cover (ob : gobs) : bool := list_eqb ctx_eqb (map fst (ob_routes ob)) probes.

(* route_spec: every probed context is routed to the pool of Current() of the
   MultiEndpoint it names, or of the default one *)
Definition routes_spec_ok (ob : gobs) : bool :=
  routes_cover ob && forallb (fun cr => route_eqb (snd cr) (spec_route ob (fst cr))) (ob_routes ob).

(* no probe panics or selects a closed pool *)
Definition route_live (r : route) : bool :=
  match r with RPool _ _ true => true | _ => false end.

Definition routes_live (ob : gobs) : bool :=
  routes_cover ob && forallb (fun cr => route_live (snd cr)) (ob_routes ob).

Fixpoint index_of (e : N) (l : list N) : option nat :=
  match l with
  | [] => None
  | x :: r => if N.eqb x e then Some O else option_map S (index_of e r)
  end.

Definition pool_eps (ob : gobs) : list N := map op_ep (ob_pools ob).

(* update_pools *)
Definition upd_pools_ok (nd : N) (before after : gobs) (o : gopts) (dials : list (N * bool)) : bool :=
  let dl := map fst dials in
  same_set (pool_eps after) (mentioned o) && nodupb (pool_eps after) &&
  forallb op_open (ob_pools after) &&
  forallb (fun p =>
     match find_opool (op_ep p) (ob_pools before) with
     | Some q => N.eqb (op_id q) (op_id p) && negb (memN (op_ep p) dl)      (* kept: same object, not dialled *)
     | None => match index_of (op_ep p) dl with                            (* new: the k-th dial of this call *)
               | Some k => N.eqb (op_id p) (nd + N.of_nat k)
               | None => false
               end
     end) (ob_pools after) &&
  forallb (fun d => snd d) dials && nodupb dl &&
  forallb (fun e => negb (memN e (pool_eps before)) && memN e (mentioned o)) dl &&
  (* the connections still open are exactly the pools: removed pools were closed ... *)
  same_set (ob_open after) (map op_id (ob_pools after)) &&
  (* ... and their monitors stopped *)
  (ob_census after =? Z.of_nat (length (ob_pools after))).

(* the MultiEndpoints are those of the options, with their endpoint lists *)
Definition upd_mes_ok (after : gobs) (o : gopts) : bool :=
  same_set (map om_name (ob_mes after)) (map fst (go_mes o)) && nodupb (map om_name (ob_mes after)) &&
  forallb (fun m =>
     match gget (go_mes o) (om_name m) with
     | Some (Some mo) => same_set (ids_of (om_eps m)) (mo_eps mo) && memN (om_cur m) (ids_of (om_eps m))
     | _ => false
     end) (ob_mes after) &&
  N.eqb (ob_default after) (go_default o).

(* update_status_synced: on return every MultiEndpoint knows the readiness of every pool *)
Definition synced_ok (after : gobs) : bool :=
  forallb (fun m =>
     forallb (fun x =>
        match find_opool (oe_id x) (ob_pools after) with
        | Some p => Bool.eqb (o_avail x) (op_ready p)
        | None => false
        end) (om_eps m)) (ob_mes after).

Definition opool_eqb (a b : opool) : bool :=
  N.eqb (op_ep a) (op_ep b) && N.eqb (op_id a) (op_id b) && Bool.eqb (op_open a) (op_open b) &&
  Bool.eqb (op_ready a) (op_ready b).

Definition with_ready (p : opool) (b : bool) : opool := mkOpool (op_ep p) (op_id p) (op_open p) b.

(* follows_connectivity: a readiness change of an open pool reaches every MultiEndpoint containing it *)
Definition ready_ok (before after : gobs) (e : N) (b : bool) : bool :=
  match find_opool e (ob_pools before) with
  | Some q =>
      if op_open q then
        list_eqb opool_eqb (ob_pools after)
                 (map (fun p => if N.eqb (op_ep p) e then with_ready p b else p) (ob_pools before)) &&
        forallb (fun m =>
           forallb (fun x => if N.eqb (oe_id x) e then Bool.eqb (o_avail x) b else true) (om_eps m))
           (ob_mes after)
      else true
  | None => true
  end.

Definition pools_static (before after : gobs) : bool :=
  list_eqb opool_eqb (ob_pools after) (ob_pools before) &&
  list_eqb N.eqb (ob_open after) (ob_open before) && (ob_census after =? ob_census before) &&
  N.eqb (ob_default after) (ob_default before).

(* the observation of "no object": before NewGCPMultiEndpoint / after it failed *)
Definition obs_none : gobs := mkGobs [] [] 0%N (map (fun c => (c, RPanic)) probes) [] 0.

(* --------------------------- C15 --------------------------------------- *)
Definition c15_event (nd : N) (before : gobs) (ev : gevent) : bool :=
  let after := ge_obs ev in
  routes_spec_ok after &&
  match ge_op ev with
  | GUpdate o _ _ _ =>
      if og_err (ge_out ev) =? 0
      then upd_pools_ok nd before after o (og_dials (ge_out ev)) && upd_mes_ok after o && synced_ok after
      else true
  | GReady e b => ready_ok before after e b
  | GCall ctx => (og_call (ge_out ev) =? spec_call after ctx) && pools_static before after
  | GTick _ _ | GMark _ _ => pools_static before after
  | GClose => true
  end.

Definition is_close (o : gop) : bool := match o with GClose => true | _ => false end.

Fixpoint c15_from (closed : bool) (nd : N) (before : gobs) (tr : list gevent) : bool :=
  match tr with
  | [] => true
  | ev :: r =>
      (closed || is_close (ge_op ev) || c15_event nd before ev) &&
      c15_from (closed || is_close (ge_op ev)) (nd + N.of_nat (length (og_dials (ge_out ev)))) (ge_obs ev) r
  end.

Definition C15_ok (tr : list gevent) : bool := c15_from false 0%N obs_none tr.

(* --------------------------- C16 --------------------------------------- *)
Definition ome_eqb (a b : ome) : bool :=
  N.eqb (om_name a) (om_name b) && N.eqb (om_cur a) (om_cur b) && list_eqb oep_eqb (om_eps a) (om_eps b).

Definition croute_eqb (a b : option N * route) : bool := ctx_eqb (fst a) (fst b) && route_eqb (snd a) (snd b).

(* everything but the default name (NewGCPMultiEndpoint stores it before the update) *)
Definition gobs_same (a b : gobs) : bool :=
  list_eqb ome_eqb (ob_mes a) (ob_mes b) && list_eqb opool_eqb (ob_pools a) (ob_pools b) &&
  list_eqb croute_eqb (ob_routes a) (ob_routes b) &&
  list_eqb N.eqb (ob_open a) (ob_open b) && (ob_census a =? ob_census b).

Definition gobs_eqb (a b : gobs) : bool := gobs_same a b && N.eqb (ob_default a) (ob_default b).

(* the error an update must return: invalid options, or a dial that is needed and fails *)
Definition expected_err (before : gobs) (o : gopts) (fails : list N) : Z :=
  let c := check_opts o in
  if negb (c =? 0) then c
  else if existsb (fun e => negb (memN e (pool_eps before)) && memN e fails) (mentioned o) then 3 else 0.

Definition c16_event (first : bool) (before : gobs) (ev : gevent) : bool :=
  let after := ge_obs ev in
  match ge_op ev with
  | GUpdate o fails _ _ =>
      ((check_opts o =? 4) || (og_err (ge_out ev) =? expected_err before o fails)) &&
      (if og_err (ge_out ev) =? 0 then routes_live after
       else (* a rejected update changes nothing; a failed construction leaves nothing *)
            if first then gobs_same after obs_none else gobs_eqb after before)
  | GClose =>
      forallb (fun p => negb (op_open p)) (ob_pools after) &&
      match ob_open after with [] => true | _ => false end && (ob_census after =? 0)
  | _ => (og_err (ge_out ev) =? 0) && routes_live after
  end.

Fixpoint c16_from (first closed : bool) (before : gobs) (tr : list gevent) : bool :=
  match tr with
  | [] => true
  | ev :: r =>
      (closed || c16_event first before ev) &&
      c16_from false (closed || is_close (ge_op ev)) (ge_obs ev) r
  end.

Definition C16_ok (tr : list gevent) : bool := c16_from true false obs_none tr.

(* ------------------ correspondence: model vs recorded trace ------------- *)
Fixpoint ins_by {A : Type} (key : A -> N) (x : A) (l : list A) : list A :=
  match l with
  | [] => [x]
  | y :: r => if N.leb (key x) (key y) then x :: l else y :: ins_by key x r
  end.

Definition sort_by {A : Type} (key : A -> N) (l : list A) : list A := fold_right (ins_by key) [] l.

(* the harness prints the tables sorted by name / endpoint / dial number *)
Definition gobs_norm (o : gobs) : gobs :=
  mkGobs (sort_by om_name (ob_mes o)) (sort_by op_ep (ob_pools o)) (ob_default o) (ob_routes o)
         (sort_by (fun x => x) (ob_open o)) (ob_census o).

Inductive gclass := DErr | DDial | DCall | DMes | DPools | DDefault | DRoute | DOpen | DCensus | DBadOp.

Definition dial_eqb (a b : N * bool) : bool := N.eqb (fst a) (fst b) && Bool.eqb (snd a) (snd b).

(* after Close only the pools, the open connections and the census are
   compared: cancelled monitors may or may not deliver a last notification *)
Definition gdiff (closed : bool) (mo : gobs) (mout : gout) (io : gobs) (iout : gout) : option gclass :=
  let mo := gobs_norm mo in
  if negb (og_err mout =? og_err iout) then Some DErr
  else if negb (list_eqb dial_eqb (og_dials mout) (og_dials iout)) then Some DDial
  else if negb (list_eqb opool_eqb (ob_pools mo) (ob_pools io)) then Some DPools
  else if negb (list_eqb N.eqb (ob_open mo) (ob_open io)) then Some DOpen
  else if negb (ob_census mo =? ob_census io) then Some DCensus
  else if negb (N.eqb (ob_default mo) (ob_default io)) then Some DDefault
  else if closed then None
  else if negb (og_call mout =? og_call iout) then Some DCall
  else if negb (list_eqb ome_eqb (ob_mes mo) (ob_mes io)) then Some DMes
  else if negb (list_eqb croute_eqb (ob_routes mo) (ob_routes io)) then Some DRoute
  else None.

Fixpoint gaccept_from (s : gst) (i : nat) (tr : list gevent) : option (nat * gclass) :=
  match tr with
  | [] => None
  | ev :: r =>
      let '(s', out) := gstep s (ge_op ev) in
      match gdiff (g_closed s') (gobserve s') out (ge_obs ev) (ge_out ev) with
      | Some c => Some (i, c)
      | None => gaccept_from s' (S i) r
      end
  end.

(* a recorded history: the first event is the construction *)
Definition gaccept (tr : list gevent) : option (nat * gclass) :=
  match tr with
  | ev :: r =>
      match ge_op ev with
      | GUpdate o fails oracle readys =>
          if check_opts o =? 4 then Some (O, DBadOp)
          else
          let '(s1, out) := gupdate (ginit o) o fails oracle readys in
          match gdiff false (gobserve s1) out (ge_obs ev) (ge_out ev) with
          | Some c => Some (O, c)
          | None => if og_err out =? 0 then gaccept_from s1 1%nat r
                    else match r with [] => None | _ => Some (1%nat, DBadOp) end
          end
      | _ => Some (O, DBadOp)
      end
  | [] => Some (O, DBadOp)
  end.
