From GV Require Import ME.Model ME.Monitors ME.Lists ME.Inv GME.Model GME.Monitors GME.Lemmas GME.Proofs GME.Holds.
Open Scope Z_scope.

(* C16: for every history the model's own trace satisfies the monitor: invalid
   options / a needed dial that fails => error; a rejected update changes
   nothing observable; no route panics or selects a closed pool before Close;
   Close and a failed construction leave no open connection and no monitor. *)
Theorem C16_holds : forall o fails oracle readys ops, C16_ok (gtrace o fails oracle readys ops) = true.
Proof. exact C16_holds_proof. Qed.
Print Assumptions C16_holds.

Theorem update_error_cases : forall s o fails oracle readys s' out,
  gupdate s o fails oracle readys = (s', out) -> og_err out = expected_err (gobserve s) o fails.
Proof. exact update_error_cases_proof. Qed.
Print Assumptions update_error_cases.

(* holds in EVERY state, reachable or not: a rejected update is the identity
   on everything but the dial counter, whatever the map iteration order *)
Theorem failed_update_identity : forall s o fails oracle readys s' out,
  gupdate s o fails oracle readys = (s', out) -> og_err out <> 0 ->
  g_mes s' = g_mes s /\ g_pools s' = g_pools s /\ g_default s' = g_default s /\
  g_closed s' = g_closed s /\ gobserve s' = gobserve s /\
  g_dials s' = (g_dials s + N.of_nat (length (og_dials out)))%N.
Proof. exact failed_update_identity_proof. Qed.
Print Assumptions failed_update_identity.

(* no accepted or rejected update sequence leads to a route that panics or selects a closed pool *)
Theorem no_route_to_closed_pool : forall s ctx, reachable s -> Created s ->
  exists e id op, groute s ctx = RPool e id op /\ (g_closed s = false -> op = true).
Proof. exact route_total_proof. Qed.
Print Assumptions no_route_to_closed_pool.

Theorem close_releases_all : forall s,
  let s' := gclose s in
  (forall e p, In (e, p) (g_pools s') -> p_open p = false /\ p_mon p = false) /\
  ob_open (gobserve s') = [] /\ ob_census (gobserve s') = 0 /\ map fst (g_pools s') = map fst (g_pools s).
Proof. exact close_releases_all_proof. Qed.
Print Assumptions close_releases_all.

Theorem failed_new_releases_all : forall o fails oracle readys s1 out,
  gupdate (ginit o) o fails oracle readys = (s1, out) -> og_err out <> 0 ->
  g_mes s1 = [] /\ g_pools s1 = [] /\ ob_open (gobserve s1) = [] /\ ob_census (gobserve s1) = 0 /\
  gobs_same (gobserve s1) obs_none = true.
Proof. exact failed_new_releases_all_proof. Qed.
Print Assumptions failed_new_releases_all.

(* Non-vacuity (a): every kind of invalid option set, at the first and at a
   later position of the map, and dial failures, on the model: error codes,
   dial logs, and the observation after each rejected update equals the one
   before; a failed construction yields the one-event trace of "no object". *)
Example c16_model_errors :
  let ok := Some (mkMO [1%N; 2%N] 0 0) in
  let o1 := mkGO 1 [(1%N, ok); (2%N, Some (mkMO [3%N] 0 0))] in
  let ops := [ GUpdate (mkGO 7 [(1%N, ok)]) [] [] [];                                    (* default without options *)
               GUpdate (mkGO 1 [(1%N, ok); (2%N, None)]) [] [] [];                        (* nil options *)
               GUpdate (mkGO 1 [(2%N, Some (mkMO [] 0 0)); (1%N, ok)]) [] [] [];          (* empty list, existing name, first *)
               GUpdate (mkGO 1 [(1%N, ok); (5%N, Some (mkMO [] 0 0))]) [] [] [];          (* empty list, new name, last *)
               GUpdate (mkGO 1 [(1%N, Some (mkMO [4%N; 5%N; 6%N] 0 0))]) [5%N] [6%N; 5%N; 4%N] [];   (* second dial fails *)
               GUpdate (mkGO 1 [(1%N, Some (mkMO [2%N] 0 0))]) [9%N] [] [];               (* failing endpoint not needed *)
               GClose ] in
  let tr := gtrace o1 [] [] [] ops in
  map (fun ev => og_err (ge_out ev)) tr = [0; 1; 2; 2; 2; 3; 0; 0] /\
  map (fun ev => og_dials (ge_out ev)) tr =
    [[(1%N, true); (2%N, true); (3%N, true)]; []; []; []; []; [(6%N, true); (5%N, false)]; []; []] /\
  map (fun ev => gobs_eqb (ge_obs ev) (gobserve (fst (gupdate (ginit o1) o1 [] [] [])))) tr =
    [true; true; true; true; true; true; false; false] /\
  map (fun ev => (ob_open (ge_obs ev), ob_census (ge_obs ev))) tr =
    [([0; 1; 2]%N, 3); ([0; 1; 2]%N, 3); ([0; 1; 2]%N, 3); ([0; 1; 2]%N, 3); ([0; 1; 2]%N, 3); ([0; 1; 2]%N, 3);
     ([1]%N, 1); ([], 0)] /\
  gtrace (mkGO 1 [(1%N, ok); (2%N, Some (mkMO [] 0 0))]) [] [] [] ops =
    [mkGE (GUpdate (mkGO 1 [(1%N, ok); (2%N, Some (mkMO [] 0 0))]) [] [] []) (mkGOut 2 [] 0)
          (mkGobs [] [] 1 (map (fun c => (c, RPanic)) probes) [] 0)] /\
  C16_ok tr = true /\ C15_ok tr = true.
Proof. vm_compute. repeat split; reflexivity. Qed.

(* Non-vacuity (b): traces RECORDED FROM THE UNFIXED IMPLEMENTATION (/repo at
   d7d7c87, histories of corpus/gme) are rejected by the monitor.
   G2: existing MultiEndpoint 2 given an empty list: no error, its pool closed, route "2" panics. *)
Example c16_bad_G2_empty_list_existing : C16_ok
  [mkGE (GUpdate (mkGO 1%N [(1%N, (Some (mkMO [1%N] (0)%Z (0)%Z))); (2%N, (Some (mkMO [2%N] (0)%Z (0)%Z)))]) [] [1%N; 2%N] []) (mkGOut (0)%Z [(1%N, true); (2%N, true)] (0)%Z) (mkGobs [mkOme 1%N 1%N [mkOep 1%N (0)%Z (0)%Z (-1)%Z]; mkOme 2%N 2%N [mkOep 2%N (0)%Z (0)%Z (-1)%Z]] [mkOpool 1%N 0%N true false; mkOpool 2%N 1%N true false] 1%N [(None, RPool 1%N 0%N true); ((Some 0%N), RPool 1%N 0%N true); ((Some 1%N), RPool 1%N 0%N true); ((Some 2%N), RPool 2%N 1%N true); ((Some 3%N), RPool 1%N 0%N true); ((Some 4%N), RPool 1%N 0%N true); ((Some 9%N), RPool 1%N 0%N true)] [0%N; 1%N] (2)%Z)
   ; mkGE (GUpdate (mkGO 1%N [(1%N, (Some (mkMO [1%N] (0)%Z (0)%Z))); (2%N, (Some (mkMO [] (0)%Z (0)%Z)))]) [] [] []) (mkGOut (0)%Z [] (0)%Z) (mkGobs [mkOme 1%N 1%N [mkOep 1%N (0)%Z (0)%Z (-1)%Z]; mkOme 2%N 2%N [mkOep 2%N (0)%Z (0)%Z (-1)%Z]] [mkOpool 1%N 0%N true false] 1%N [(None, RPool 1%N 0%N true); ((Some 0%N), RPool 1%N 0%N true); ((Some 1%N), RPool 1%N 0%N true); ((Some 2%N), RPanic); ((Some 3%N), RPool 1%N 0%N true); ((Some 4%N), RPool 1%N 0%N true); ((Some 9%N), RPool 1%N 0%N true)] [0%N] (1)%Z)] = false.
Proof. vm_compute; reflexivity. Qed.

(* G2, second facet: nil options panic inside UpdateMultiEndpoints (code 9) *)
Example c16_bad_G2_nil_options_panic : C16_ok
  [mkGE (GUpdate (mkGO 1%N [(1%N, (Some (mkMO [1%N] (0)%Z (0)%Z))); (2%N, (Some (mkMO [2%N] (0)%Z (0)%Z)))]) [] [1%N; 2%N] []) (mkGOut (0)%Z [(1%N, true); (2%N, true)] (0)%Z) (mkGobs [mkOme 1%N 1%N [mkOep 1%N (0)%Z (0)%Z (-1)%Z]; mkOme 2%N 2%N [mkOep 2%N (0)%Z (0)%Z (-1)%Z]] [mkOpool 1%N 0%N true false; mkOpool 2%N 1%N true false] 1%N [(None, RPool 1%N 0%N true); ((Some 0%N), RPool 1%N 0%N true); ((Some 1%N), RPool 1%N 0%N true); ((Some 2%N), RPool 2%N 1%N true); ((Some 3%N), RPool 1%N 0%N true); ((Some 4%N), RPool 1%N 0%N true); ((Some 9%N), RPool 1%N 0%N true)] [0%N; 1%N] (2)%Z)
   ; mkGE (GUpdate (mkGO 1%N [(1%N, (Some (mkMO [1%N] (0)%Z (0)%Z))); (2%N, None)]) [] [] []) (mkGOut (9)%Z [] (0)%Z) (mkGobs [mkOme 1%N 1%N [mkOep 1%N (0)%Z (0)%Z (-1)%Z]; mkOme 2%N 2%N [mkOep 2%N (0)%Z (0)%Z (-1)%Z]] [mkOpool 1%N 0%N true false; mkOpool 2%N 1%N true false] 1%N [(None, RPool 1%N 0%N true); ((Some 0%N), RPool 1%N 0%N true); ((Some 1%N), RPool 1%N 0%N true); ((Some 2%N), RPool 2%N 1%N true); ((Some 3%N), RPool 1%N 0%N true); ((Some 4%N), RPool 1%N 0%N true); ((Some 9%N), RPool 1%N 0%N true)] [0%N; 1%N] (2)%Z)] = false.
Proof. vm_compute; reflexivity. Qed.

(* G3: the update is rejected (code 2) after pools 2,3,4 were created *)
Example c16_bad_G3_rejected_not_atomic : C16_ok
  [mkGE (GUpdate (mkGO 1%N [(1%N, (Some (mkMO [1%N] (0)%Z (0)%Z)))]) [] [1%N] []) (mkGOut (0)%Z [(1%N, true)] (0)%Z) (mkGobs [mkOme 1%N 1%N [mkOep 1%N (0)%Z (0)%Z (-1)%Z]] [mkOpool 1%N 0%N true false] 1%N [(None, RPool 1%N 0%N true); ((Some 0%N), RPool 1%N 0%N true); ((Some 1%N), RPool 1%N 0%N true); ((Some 2%N), RPool 1%N 0%N true); ((Some 3%N), RPool 1%N 0%N true); ((Some 4%N), RPool 1%N 0%N true); ((Some 9%N), RPool 1%N 0%N true)] [0%N] (1)%Z)
   ; mkGE (GUpdate (mkGO 1%N [(1%N, (Some (mkMO [2%N; 3%N] (0)%Z (0)%Z))); (2%N, (Some (mkMO [] (0)%Z (0)%Z))); (3%N, (Some (mkMO [4%N] (0)%Z (0)%Z)))]) [] [2%N; 3%N; 4%N] []) (mkGOut (2)%Z [(2%N, true); (3%N, true); (4%N, true)] (0)%Z) (mkGobs [mkOme 1%N 2%N [mkOep 2%N (0)%Z (0)%Z (-1)%Z; mkOep 3%N (1)%Z (0)%Z (-1)%Z]] [mkOpool 1%N 0%N true false; mkOpool 2%N 1%N true false; mkOpool 3%N 2%N true false; mkOpool 4%N 3%N true false] 1%N [(None, RPool 2%N 1%N true); ((Some 0%N), RPool 2%N 1%N true); ((Some 1%N), RPool 2%N 1%N true); ((Some 2%N), RPool 2%N 1%N true); ((Some 3%N), RPool 2%N 1%N true); ((Some 4%N), RPool 2%N 1%N true); ((Some 9%N), RPool 2%N 1%N true)] [0%N; 1%N; 2%N; 3%N] (4)%Z)] = false.
Proof. vm_compute; reflexivity. Qed.

(* G4: failed construction leaves two open connections and two monitor goroutines *)
Example c16_bad_G4_failed_new_leaks : C16_ok
  [mkGE (GUpdate (mkGO 1%N [(1%N, (Some (mkMO [1%N; 2%N] (0)%Z (0)%Z))); (2%N, (Some (mkMO [] (0)%Z (0)%Z)))]) [] [1%N; 2%N] []) (mkGOut (2)%Z [(1%N, true); (2%N, true)] (0)%Z) (mkGobs [] [] 1%N [(None, RPanic); ((Some 0%N), RPanic); ((Some 1%N), RPanic); ((Some 2%N), RPanic); ((Some 3%N), RPanic); ((Some 4%N), RPanic); ((Some 9%N), RPanic)] [0%N; 1%N] (2)%Z)] = false.
Proof. vm_compute; reflexivity. Qed.

(* hand-made: Close leaves a monitor running *)
Example c16_bad_close_leaves_monitor : C16_ok
  [mkGE (GUpdate (mkGO 1%N [(1%N, Some (mkMO [1%N] 0 0))]) [] [1%N] []) (mkGOut 0 [(1%N, true)] 0)
        (mkGobs [mkOme 1 1 [mkOep 1 0 0 (-1)]] [mkOpool 1 0 true false] 1
                (map (fun c => (c, RPool 1 0 true)) probes) [0%N] 1);
   mkGE GClose (mkGOut 0 [] 0)
        (mkGobs [mkOme 1 1 [mkOep 1 0 0 (-1)]] [mkOpool 1 0 false false] 1
                (map (fun c => (c, RPool 1 0 false)) probes) [] 1)] = false.
Proof. vm_compute; reflexivity. Qed.

Example c16_good_close : C16_ok
  [mkGE (GUpdate (mkGO 1%N [(1%N, Some (mkMO [1%N] 0 0))]) [] [1%N] []) (mkGOut 0 [(1%N, true)] 0)
        (mkGobs [mkOme 1 1 [mkOep 1 0 0 (-1)]] [mkOpool 1 0 true false] 1
                (map (fun c => (c, RPool 1 0 true)) probes) [0%N] 1);
   mkGE GClose (mkGOut 0 [] 0)
        (mkGobs [mkOme 1 1 [mkOep 1 0 0 (-1)]] [mkOpool 1 0 false false] 1
                (map (fun c => (c, RPool 1 0 false)) probes) [] 0)] = true.
Proof. vm_compute; reflexivity. Qed.
