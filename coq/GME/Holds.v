(* Engine C proofs, part 3: every trace of the model satisfies the monitors
   C15_ok and C16_ok (generic reduction: invariant + one lemma per event). *)
From GV Require Import ME.Model ME.Monitors ME.Lists ME.Inv GME.Model GME.Monitors GME.Lemmas GME.Proofs.
Open Scope Z_scope.

Ltac sp := repeat match goal with |- andb _ _ = true => apply andb_true_intro; split end.

Lemma pool_eps_obs s : pool_eps (gobserve s) = map fst (g_pools s).
Proof. unfold pool_eps, gobserve. cbn [ob_pools]. rewrite map_map. reflexivity. Qed.

Lemma obs_pools s : ob_pools (gobserve s) = map opool_of (g_pools s).
Proof. reflexivity. Qed.

Lemma obs_mes s : ob_mes (gobserve s) = map ome_of (g_mes s).
Proof. reflexivity. Qed.

Lemma all_open_obs s : GInv s -> g_closed s = false ->
  ob_open (gobserve s) = map p_id (map snd (g_pools s)) /\
  ob_census (gobserve s) = Z.of_nat (length (g_pools s)).
Proof.
  intros GI Hc. unfold gobserve. cbn [ob_open ob_census].
  rewrite !filter_all.
  - split; [rewrite map_map; reflexivity|reflexivity].
  - intros [e p] H. cbn. apply (gi_open _ GI Hc e p H).
  - intros [e p] H. cbn. apply (gi_open _ GI Hc e p H).
Qed.

(* ------------------------------------------------------------------ C15 *)
Lemma upd_pools_ok_model s o s' out :
  GInv s -> GInv s' -> g_closed s' = false -> UpdOK s o s' out ->
  upd_pools_ok (g_dials s) (gobserve s) (gobserve s') o (og_dials out) = true.
Proof.
  intros GI GI' Hc U. unfold upd_pools_ok.
  rewrite !pool_eps_obs, !obs_pools.
  destruct (all_open_obs s' GI' Hc) as [Eopen Ecen]. rewrite Eopen, Ecen.
  sp.
  - apply same_set_spec. apply (uo_pkeys _ _ _ _ U).
  - apply nodupb_spec. apply GI'.
  - apply forallb_forall. intros q Hq. apply in_map_iff in Hq. destruct Hq as [[e p] [<- Hin]].
    cbn. apply (gi_open _ GI' Hc e p Hin).
  - apply forallb_forall. intros q Hq. apply in_map_iff in Hq. destruct Hq as [[e p] [<- Hin]].
    cbn [opool_of op_ep op_id fst snd]. rewrite find_opool_obs.
    destruct (uo_pools _ _ _ _ U e p Hin) as [[Hold Hnd]|[Hnone [_ [_ [k [Hk Hid]]]]]].
    + rewrite (In_gget _ _ _ (gi_pkeys _ GI) Hold). cbn. rewrite N.eqb_refl. cbn.
      apply negb_true_iff. apply memN_false. exact Hnd.
    + rewrite Hnone. cbn. rewrite Hk. rewrite Hid. apply N.eqb_refl.
  - apply (uo_log_ok _ _ _ _ U).
  - apply nodupb_spec. apply (uo_log_nodup _ _ _ _ U).
  - apply forallb_forall. intros e He. destruct (uo_log_new _ _ _ _ U e He) as [H1 H2].
    apply andb_true_intro. split.
    + apply negb_true_iff. apply memN_false. exact H1.
    + apply memN_In. exact H2.
  - rewrite !map_map. apply same_set_refl.
  - rewrite map_length. apply Z.eqb_refl.
Qed.

Lemma upd_pools_ok_ext nd b1 b2 after o d :
  ob_pools b1 = ob_pools b2 -> upd_pools_ok nd b1 after o d = upd_pools_ok nd b2 after o d.
Proof. intros H. unfold upd_pools_ok, pool_eps. rewrite H. reflexivity. Qed.

Lemma upd_mes_ok_model s o s' out :
  GInv s' -> UpdOK s o s' out -> upd_mes_ok (gobserve s') o = true.
Proof.
  intros GI' U. unfold upd_mes_ok. rewrite obs_mes.
  destruct (check_opts_0 o (uo_check _ _ _ _ U)) as [NDn _].
  assert (Enames : map om_name (map ome_of (g_mes s')) = map fst (g_mes s')).
  { rewrite map_map. reflexivity. }
  rewrite Enames.
  sp.
  - rewrite (uo_names _ _ _ _ U). apply same_set_refl.
  - apply nodupb_spec. apply GI'.
  - apply forallb_forall. intros q Hq. apply in_map_iff in Hq. destruct Hq as [[n m] [<- Hin]].
    cbn [ome_of om_name om_cur om_eps fst snd].
    destruct (uo_mes _ _ _ _ U n m Hin) as [mo [Hmo K]].
    rewrite (In_gget _ _ _ NDn Hmo).
    destruct (gi_me _ GI' n m Hin) as [I _]. pose proof (inv_wf _ I) as W.
    apply andb_true_intro. split.
    + apply same_set_spec. intros k. rewrite (obs_ids m W k). apply K.
    + apply memN_In. apply (obs_ids m W). apply Inv_cur_member. exact I.
  - cbn [ob_default gobserve]. rewrite (uo_default _ _ _ _ U). apply N.eqb_refl.
Qed.

Lemma synced_ok_model s o s' out :
  GInv s' -> UpdOK s o s' out -> synced_ok (gobserve s') = true.
Proof.
  intros GI' U. unfold synced_ok. rewrite obs_mes, obs_pools.
  apply forallb_forall. intros q Hq. apply in_map_iff in Hq. destruct Hq as [[n m] [<- Hin]].
  cbn [ome_of om_eps fst snd].
  destruct (gi_me _ GI' n m Hin) as [I P]. pose proof (inv_wf _ I) as W.
  apply forallb_forall. intros x Hx. destruct (obs_row m x W Hx) as [Hk Ha].
  rewrite find_opool_obs. destruct (In_key_gget _ _ (P _ Hk)) as [p Gp]. rewrite Gp. cbn.
  rewrite Ha. rewrite (uo_synced _ _ _ _ U n m (oe_id x) p Hin Hk (gget_In _ _ _ Gp)).
  apply eqb_reflx.
Qed.

Lemma ready_ok_model s e b :
  GInv s -> g_closed s = false -> ready_ok (gobserve s) (gobserve (gready s e b)) e b = true.
Proof.
  intros GI Hc. unfold ready_ok. rewrite !obs_pools, find_opool_obs.
  destruct (gget (g_pools s) e) as [p|] eqn:G; cbn [option_map]; [|reflexivity].
  cbn [opool_of op_open snd].
  destruct (gi_open _ GI Hc e p (gget_In _ _ _ G)) as [Ho Hm]. rewrite Ho.
  unfold gready. rewrite G, Hm.
  assert (A0 : AllInv (g_mes s)) by (intros n m H; apply (gi_me _ GI n m H)).
  destruct (deliver_spec (g_mes s) e b A0) as [A1 D1].
  apply andb_true_intro. split.
  - cbn [g_pools gobserve ob_pools].
    assert (E : map opool_of (set_ready (g_pools s) e b) =
                map (fun q => if N.eqb (op_ep q) e then with_ready q b else q) (map opool_of (g_pools s))).
    { unfold set_ready. rewrite !map_map. apply map_ext. intros [k q]. cbn [fst snd opool_of op_ep].
      destruct (N.eqb k e); reflexivity. }
    rewrite E. apply list_eqb_refl'. apply opool_eqb_refl.
  - rewrite obs_mes. cbn [g_mes].
    apply forallb_forall. intros q Hq. apply in_map_iff in Hq. destruct Hq as [[n m'] [<- Hin]].
    cbn [ome_of om_eps fst snd].
    destruct (D1 n m' Hin) as [m [Hm0 [K F]]].
    pose proof (inv_wf _ (A1 n m' Hin)) as W'.
    apply forallb_forall. intros x Hx. destruct (obs_row m' x W' Hx) as [Hk Ha].
    destruct (N.eqb_spec (oe_id x) e) as [Ee|Ee]; [|reflexivity].
    rewrite Ha. rewrite K in Hk. rewrite (F _ Hk). rewrite Ee, N.eqb_refl. apply eqb_reflx.
Qed.

Lemma pools_static_same s s' :
  g_pools s' = g_pools s -> g_default s' = g_default s ->
  pools_static (gobserve s) (gobserve s') = true.
Proof.
  intros Ep Ed. unfold pools_static, gobserve. cbn [ob_pools ob_open ob_census ob_default].
  rewrite Ep, Ed.
  rewrite (list_eqb_refl' opool_eqb _ opool_eqb_refl), (list_eqb_refl' N.eqb _ N.eqb_refl).
  rewrite Z.eqb_refl, N.eqb_refl. reflexivity.
Qed.

Lemma gtick_pools s n o : g_pools (gtick s n o) = g_pools s /\ g_default (gtick s n o) = g_default s.
Proof. unfold gtick. destruct (is_timer_op o); split; reflexivity. Qed.

Lemma c15_event_model s o s' out :
  GInv s -> Created s -> g_closed s = false -> is_close o = false ->
  gstep s o = (s', out) -> GInv s' ->
  c15_event (g_dials s) (gobserve s) (mkGE o out (gobserve s')) = true.
Proof.
  intros GI Cr Hc Hnc E GI'. unfold c15_event. cbn [ge_obs ge_op ge_out].
  rewrite routes_spec_obs. cbn [andb].
  destruct o as [op fails oracle readys|e b|n mo|up e|ctx|]; cbn [gstep] in E.
  - destruct (og_err out =? 0) eqn:Eerr; [|reflexivity]. apply Z.eqb_eq in Eerr.
    destruct (gupdate_ok _ _ _ _ _ _ _ GI E Eerr) as [_ [_ U]].
    assert (Hc' : g_closed s' = false) by (rewrite (uo_closed _ _ _ _ U); exact Hc).
    rewrite (upd_pools_ok_model s op s' out GI GI' Hc' U).
    rewrite (upd_mes_ok_model s op s' out GI' U), (synced_ok_model s op s' out GI' U). reflexivity.
  - injection E as <- <-. apply ready_ok_model; auto.
  - injection E as <- <-. destruct (gtick_pools s n mo) as [E1 E2]. apply pools_static_same; auto.
  - injection E as <- <-. apply pools_static_same; auto.
  - injection E as <- <-. cbn [og_call]. rewrite spec_call_obs, Z.eqb_refl. cbn [andb].
    apply pools_static_same; auto.
  - discriminate.
Qed.

(* ------------------------------------------------------------------ C16 *)
Lemma c16_update_model (fst1 : bool) s o fails oracle readys s' out :
  GInv s -> g_closed s = false -> (fst1 = true -> s = ginit o) ->
  gupdate s o fails oracle readys = (s', out) -> GInv s' ->
  c16_event fst1 (if fst1 then obs_none else gobserve s)
            (mkGE (GUpdate o fails oracle readys) out (gobserve s')) = true.
Proof.
  intros GI Hc Hfirst E GI'. unfold c16_event. cbn [ge_obs ge_op ge_out].
  destruct (update_err_spec _ _ _ _ _ _ _ E) as [Herr _].
  assert (Hexp : og_err out =? expected_err (if fst1 then obs_none else gobserve s) o fails = true).
  { destruct fst1.
    - rewrite (Hfirst eq_refl) in Herr. rewrite Herr. unfold expected_err. rewrite pool_eps_obs. cbn.
      apply Z.eqb_refl.
    - rewrite Herr. apply Z.eqb_refl. }
  rewrite Hexp, orb_true_r. cbn [andb].
  destruct (og_err out =? 0) eqn:E0.
  - apply Z.eqb_eq in E0. destruct (gupdate_ok _ _ _ _ _ _ _ GI E E0) as [_ [Cr' U]].
    apply routes_live_obs; auto. rewrite (uo_closed _ _ _ _ U). exact Hc.
  - apply Z.eqb_neq in E0. destruct fst1.
    + rewrite (Hfirst eq_refl) in E. apply (failed_new_releases_all_proof _ _ _ _ _ _ E E0).
    + destruct (failed_update_identity_proof _ _ _ _ _ _ _ E E0) as [_ [_ [_ [_ [Ho _]]]]].
      rewrite Ho. apply gobs_eqb_refl.
Qed.

Lemma c16_close_model s before fst1 : c16_event fst1 before (mkGE GClose (mkGOut 0 [] 0) (gobserve (gclose s))) = true.
Proof.
  unfold c16_event. cbn [ge_obs ge_op ge_out].
  destruct (close_releases_all_proof s) as [H [Eo [Ec _]]]. cbn zeta in H, Eo, Ec.
  rewrite Eo, Ec. rewrite andb_true_r. cbn [andb].
  apply andb_true_intro. split; [|reflexivity].
  rewrite obs_pools. apply forallb_forall. intros q Hq. apply in_map_iff in Hq.
  destruct Hq as [[e p] [<- Hin]]. cbn. destruct (H e p Hin) as [-> _]. reflexivity.
Qed.

(* ------------------------------------------------------- one model step *)
Lemma gstep_inv s o s' out :
  GInv s -> Created s -> gstep s o = (s', out) ->
  GInv s' /\ Created s' /\
  g_dials s' = (g_dials s + N.of_nat (length (og_dials out)))%N /\
  g_closed s' = (g_closed s || is_close o)%bool.
Proof.
  intros GI Cr E. destruct o as [op fails oracle readys|e b|n mo|up e|ctx|]; cbn [gstep] in E.
  - destruct (Z.eq_dec (og_err out) 0) as [E0|E0].
    + destruct (gupdate_ok _ _ _ _ _ _ _ GI E E0) as [GI' [Cr' U]].
      split; auto. split; auto. split; [apply U|]. rewrite (uo_closed _ _ _ _ U).
      cbn. rewrite orb_false_r. reflexivity.
    + destruct (failed_update_identity_proof _ _ _ _ _ _ _ E E0) as [Hm [Hp [Hd [Hcl [_ Hn]]]]].
      split; [|split; [|split]].
      * destruct GI as [G1 G2 G3 G4 G5]. constructor; rewrite ?Hm, ?Hp, ?Hd, ?Hcl; auto.
      * unfold Created. rewrite Hm. exact Cr.
      * exact Hn.
      * rewrite Hcl. cbn. rewrite orb_false_r. reflexivity.
  - injection E as <- <-. split; [apply GInv_gready; exact GI|]. split; [|split].
    + unfold Created, gready. destruct (gget (g_pools s) e) as [p|]; [|exact Cr].
      destruct (p_mon p); [|exact Cr]. cbn [g_mes]. unfold deliver. intros H.
      apply map_eq_nil in H. contradiction.
    + cbn. rewrite N.add_0_r. unfold gready. destruct (gget (g_pools s) e) as [p|]; [|reflexivity].
      destruct (p_mon p); reflexivity.
    + cbn. rewrite orb_false_r. unfold gready. destruct (gget (g_pools s) e) as [p|]; [|reflexivity].
      destruct (p_mon p); reflexivity.
  - injection E as <- <-. split; [apply GInv_gtick; exact GI|]. split; [|split].
    + unfold Created, gtick. destruct (is_timer_op mo); [|exact Cr]. cbn [g_mes]. intros H.
      apply map_eq_nil in H. contradiction.
    + cbn. rewrite N.add_0_r. unfold gtick. destruct (is_timer_op mo); reflexivity.
    + cbn. rewrite orb_false_r. unfold gtick. destruct (is_timer_op mo); reflexivity.
  - injection E as <- <-. cbn. rewrite N.add_0_r, orb_false_r. auto.
  - injection E as <- <-. cbn. rewrite N.add_0_r, orb_false_r. auto.
  - injection E as <- <-. split; [apply GInv_gclose; exact GI|]. cbn. rewrite N.add_0_r, orb_true_r. auto.
Qed.

Lemma c16_event_model s o s' out :
  GInv s -> Created s -> g_closed s = false -> gstep s o = (s', out) ->
  c16_event false (gobserve s) (mkGE o out (gobserve s')) = true.
Proof.
  intros GI Cr Hc E. destruct (gstep_inv _ _ _ _ GI Cr E) as [GI' [Cr' [_ Hcl]]].
  destruct o as [op fails oracle readys|e b|n mo|up e|ctx|].
  - cbn [gstep] in E. apply (c16_update_model false s op fails oracle readys s' out GI Hc (fun H => False_ind _ (Bool.diff_false_true H)) E GI').
  - rewrite Hc in Hcl. cbn in Hcl. cbn [gstep] in E. injection E as <- <-.
    unfold c16_event. cbn [ge_op ge_out ge_obs og_err]. cbn [Z.eqb andb].
    apply routes_live_obs; auto.
  - rewrite Hc in Hcl. cbn in Hcl. cbn [gstep] in E. injection E as <- <-.
    unfold c16_event. cbn [ge_op ge_out ge_obs og_err]. cbn [Z.eqb andb].
    apply routes_live_obs; auto.
  - rewrite Hc in Hcl. cbn in Hcl. cbn [gstep] in E. injection E as <- <-.
    unfold c16_event. cbn [ge_op ge_out ge_obs og_err]. cbn [Z.eqb andb].
    apply routes_live_obs; auto.
  - rewrite Hc in Hcl. cbn in Hcl. cbn [gstep] in E. injection E as <- <-.
    unfold c16_event. cbn [ge_op ge_out ge_obs og_err]. cbn [Z.eqb andb].
    apply routes_live_obs; auto.
  - cbn [gstep] in E. injection E as <- <-. apply c16_close_model.
Qed.

(* ------------------------------------------------------------ the traces *)
Lemma c15_from_model : forall ops s, GInv s -> Created s ->
  c15_from (g_closed s) (g_dials s) (gobserve s) (grun s ops) = true.
Proof.
  induction ops as [|o r IH]; intros s GI Cr; cbn [grun]; [reflexivity|].
  destruct (gstep s o) as [s' out] eqn:E. cbn [c15_from ge_op ge_out ge_obs].
  destruct (gstep_inv _ _ _ _ GI Cr E) as [GI' [Cr' [Hd Hcl]]].
  pose proof (IH s' GI' Cr') as Hrec. rewrite Hd, Hcl in Hrec. rewrite Hrec, andb_true_r.
  destruct (g_closed s) eqn:Hc; [reflexivity|]. cbn [orb].
  destruct (is_close o) eqn:Ho; [reflexivity|]. cbn [orb].
  apply (c15_event_model s o s' out GI Cr Hc Ho E GI').
Qed.

Lemma c16_from_model : forall ops s, GInv s -> Created s ->
  c16_from false (g_closed s) (gobserve s) (grun s ops) = true.
Proof.
  induction ops as [|o r IH]; intros s GI Cr; cbn [grun]; [reflexivity|].
  destruct (gstep s o) as [s' out] eqn:E. cbn [c16_from ge_op ge_out ge_obs].
  destruct (gstep_inv _ _ _ _ GI Cr E) as [GI' [Cr' [Hd Hcl]]].
  pose proof (IH s' GI' Cr') as Hrec. rewrite Hcl in Hrec. rewrite Hrec, andb_true_r.
  destruct (g_closed s) eqn:Hc; [reflexivity|]. cbn [orb].
  apply (c16_event_model s o s' out GI Cr Hc E).
Qed.

Lemma first_update o fails oracle readys s1 out :
  gupdate (ginit o) o fails oracle readys = (s1, out) ->
  GInv s1 /\ g_closed s1 = false /\
  g_dials s1 = N.of_nat (length (og_dials out)) /\
  (og_err out = 0 -> Created s1).
Proof.
  intros E. pose proof (GInv_init o) as GI0.
  destruct (Z.eq_dec (og_err out) 0) as [E0|E0].
  - destruct (gupdate_ok _ _ _ _ _ _ _ GI0 E E0) as [GI' [Cr' U]].
    split; auto. split; [rewrite (uo_closed _ _ _ _ U); reflexivity|].
    split; [rewrite (uo_dials _ _ _ _ U); reflexivity|auto].
  - destruct (failed_update_identity_proof _ _ _ _ _ _ _ E E0) as [Hm [Hp [Hd [Hcl [_ Hn]]]]].
    split; [|split; [|split]].
    + destruct GI0 as [G1 G2 G3 G4 G5]. constructor; rewrite ?Hm, ?Hp, ?Hd, ?Hcl; auto.
    + rewrite Hcl. reflexivity.
    + rewrite Hn. reflexivity.
    + intros; contradiction.
Qed.

Theorem C15_holds_proof : forall o fails oracle readys ops, C15_ok (gtrace o fails oracle readys ops) = true.
Proof.
  intros o fails oracle readys ops. unfold C15_ok, gtrace.
  destruct (gupdate (ginit o) o fails oracle readys) as [s1 out] eqn:E.
  destruct (first_update _ _ _ _ _ _ E) as [GI1 [Hc1 [Hd1 Cr1]]].
  cbn [c15_from ge_op ge_out ge_obs is_close orb].
  apply andb_true_intro. split.
  - (* the construction event: checked against the observation of "no object" *)
    unfold c15_event. cbn [ge_obs ge_op ge_out].
    rewrite routes_spec_obs. cbn [andb].
    destruct (og_err out =? 0) eqn:Eerr; [|reflexivity]. apply Z.eqb_eq in Eerr.
    destruct (gupdate_ok _ _ _ _ _ _ _ (GInv_init o) E Eerr) as [_ [_ U]].
    rewrite (upd_pools_ok_ext 0%N obs_none (gobserve (ginit o)) (gobserve s1) o (og_dials out) eq_refl).
    change 0%N with (g_dials (ginit o)) at 1.
    rewrite (upd_pools_ok_model (ginit o) o s1 out (GInv_init o) GI1 Hc1 U).
    rewrite (upd_mes_ok_model (ginit o) o s1 out GI1 U), (synced_ok_model (ginit o) o s1 out GI1 U).
    reflexivity.
  - destruct (og_err out =? 0) eqn:Eerr; [|reflexivity]. apply Z.eqb_eq in Eerr.
    pose proof (c15_from_model ops s1 GI1 (Cr1 Eerr)) as H. rewrite Hc1, Hd1 in H.
    rewrite N.add_0_l. exact H.
Qed.

Theorem C16_holds_proof : forall o fails oracle readys ops, C16_ok (gtrace o fails oracle readys ops) = true.
Proof.
  intros o fails oracle readys ops. unfold C16_ok, gtrace.
  destruct (gupdate (ginit o) o fails oracle readys) as [s1 out] eqn:E.
  destruct (first_update _ _ _ _ _ _ E) as [GI1 [Hc1 [Hd1 Cr1]]].
  cbn [c16_from ge_op ge_out ge_obs is_close orb].
  apply andb_true_intro. split.
  - apply (c16_update_model true (ginit o) o fails oracle readys s1 out (GInv_init o) eq_refl (fun _ => eq_refl) E GI1).
  - destruct (og_err out =? 0) eqn:Eerr; [|reflexivity]. apply Z.eqb_eq in Eerr.
    pose proof (c16_from_model ops s1 GI1 (Cr1 Eerr)) as H. rewrite Hc1 in H. exact H.
Qed.

(* ------------------------------------------- reachable states, named lemmas *)
Lemma grun_state_inv : forall ops s, GInv s -> Created s ->
  GInv (grun_state s ops) /\ Created (grun_state s ops).
Proof.
  induction ops as [|o r IH]; intros s GI Cr; cbn [grun_state]; [auto|].
  destruct (gstep s o) as [s' out] eqn:E. cbn [fst].
  destruct (gstep_inv _ _ _ _ GI Cr E) as [GI' [Cr' _]]. apply IH; auto.
Qed.

(* the states reached by any history: construction, then any operations *)
Definition reachable (s : gst) : Prop :=
  exists o fails oracle readys ops, s = gtrace_state o fails oracle readys ops.

Lemma reachable_inv s : reachable s -> GInv s /\ (Created s \/ (g_mes s = [] /\ g_pools s = [])).
Proof.
  intros [o [fails [oracle [readys [ops ->]]]]]. unfold gtrace_state.
  destruct (gupdate (ginit o) o fails oracle readys) as [s1 out] eqn:E.
  destruct (first_update _ _ _ _ _ _ E) as [GI1 [Hc1 [Hd1 Cr1]]].
  destruct (og_err out =? 0) eqn:E0.
  - apply Z.eqb_eq in E0. destruct (grun_state_inv ops s1 GI1 (Cr1 E0)) as [A B]. auto.
  - apply Z.eqb_neq in E0. split; auto. right.
    destruct (failed_new_releases_all_proof _ _ _ _ _ _ E E0) as [A [B _]]. auto.
Qed.

Lemma route_total_proof s ctx : reachable s -> Created s ->
  exists e id op, groute s ctx = RPool e id op /\ (g_closed s = false -> op = true).
Proof. intros R Cr. apply route_total_state; auto. apply reachable_inv. exact R. Qed.

Lemma update_pools_proof s o fails oracle readys s' out :
  reachable s -> gupdate s o fails oracle readys = (s', out) -> og_err out = 0 ->
  (* exactly one pool per distinct endpoint mentioned *)
  (forall e, In e (map fst (g_pools s')) <-> In e (mentioned o)) /\ NoDup (map fst (g_pools s')) /\
  (* kept pools are the same objects and were not dialled; the others are new, open, monitored *)
  (forall e p, In (e, p) (g_pools s') ->
     (In (e, p) (g_pools s) /\ ~ In e (map fst (og_dials out))) \/
     (gget (g_pools s) e = None /\ p_open p = true /\ p_mon p = true /\
      exists k, index_of e (map fst (og_dials out)) = Some k /\ p_id p = (g_dials s + N.of_nat k)%N)) /\
  (* only missing endpoints are dialled, each once, all successfully *)
  (forallb (fun d => snd d) (og_dials out) = true /\ NoDup (map fst (og_dials out)) /\
   forall e, In e (map fst (og_dials out)) -> ~ In e (map fst (g_pools s)) /\ In e (mentioned o)) /\
  (* before Close: the open connections are exactly the pools, one monitor each
     (pools of endpoints no longer mentioned are closed and their monitors stopped) *)
  (g_closed s = false ->
     ob_open (gobserve s') = map p_id (map snd (g_pools s')) /\
     ob_census (gobserve s') = Z.of_nat (length (g_pools s'))).
Proof.
  intros R E E0. destruct (reachable_inv s R) as [GI _].
  destruct (gupdate_ok _ _ _ _ _ _ _ GI E E0) as [GI' [_ U]].
  split; [apply U|]. split; [apply GI'|]. split; [apply U|].
  split; [split; [apply U|split; apply U]|].
  intros Hc. apply all_open_obs; auto. rewrite (uo_closed _ _ _ _ U). exact Hc.
Qed.

Lemma update_status_synced_proof s o fails oracle readys s' out :
  reachable s -> gupdate s o fails oracle readys = (s', out) -> og_err out = 0 ->
  forall n m e p, In (n, m) (g_mes s') -> In e (keys m) -> In (e, p) (g_pools s') ->
    availN m e = p_ready p.
Proof.
  intros R E E0. destruct (reachable_inv s R) as [GI _].
  destruct (gupdate_ok _ _ _ _ _ _ _ GI E E0) as [_ [_ U]]. apply U.
Qed.

Lemma follows_connectivity_proof s e b p :
  reachable s -> gget (g_pools s) e = Some p -> p_mon p = true ->
  forall n m', In (n, m') (g_mes (gready s e b)) -> In e (keys m') -> availN m' e = b.
Proof.
  intros R G Hm n m' Hin He. destruct (reachable_inv s R) as [GI _].
  unfold gready in Hin. rewrite G, Hm in Hin. cbn [g_mes] in Hin.
  assert (A0 : AllInv (g_mes s)) by (intros k m H; apply (gi_me _ GI k m H)).
  destruct (deliver_spec (g_mes s) e b A0) as [_ D1].
  destruct (D1 n m' Hin) as [m [_ [K F]]]. rewrite K in He. rewrite (F e He), N.eqb_refl. reflexivity.
Qed.

Lemma update_error_cases_proof s o fails oracle readys s' out :
  gupdate s o fails oracle readys = (s', out) ->
  og_err out = expected_err (gobserve s) o fails.
Proof. intros E. apply (update_err_spec _ _ _ _ _ _ _ E). Qed.
