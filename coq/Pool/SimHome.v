(* Engine A proofs: the monitor's key -> channel table (ms_home) against the
   model's key -> connection table (b_aff), for harness-legal histories; and the
   shared relation [Sim] with its one-step preservation theorem. *)
From GV Require Import Base.AListFacts Pool.Model Pool.Observe Pool.Monitors
                       Pool.Lemmas Pool.Inv Pool.Inv2 Pool.Frames Pool.Sim Pool.InvC20.
From Coq Require Import Lia ZifyBool.
Open Scope Z_scope.

(* ================================================================ frames: b_aff and the connections of the slots *)
Definition affview (s : bal) := (b_aff s, conns s).

(* the slots' connections are kept and possibly extended *)
Definition conns_ext (s s' : bal) : Prop :=
  forall i c, nth_error (conns s) i = Some c -> nth_error (conns s') i = Some c.

Definition aff_frame (s s' : bal) : Prop := b_aff s' = b_aff s /\ conns_ext s s'.

Lemma aff_frame_refl s : aff_frame s s.
Proof. split; [reflexivity|intros i c H; exact H]. Qed.

Lemma aff_frame_trans s1 s2 s3 : aff_frame s1 s2 -> aff_frame s2 s3 -> aff_frame s1 s3.
Proof. intros [A1 B1] [A2 B2]. split; [congruence|]. intros i c H. apply B2, B1, H. Qed.

Lemma affview_frame s s' : affview s' = affview s -> aff_frame s s'.
Proof. unfold affview. intros H; inv H. split; [auto|]. intros i c Hi. rewrite H2. exact Hi. Qed.

Lemma grow_frame_aff s s' : grow_frame s s' -> aff_frame s s'.
Proof.
  intros HF. split; [apply (gf_aff _ _ HF)|]. destruct (gf_slots _ _ HF) as [l El].
  intros i c Hi. rewrite El, map_app, nth_error_app1; [exact Hi|]. eapply nth_error_Some_lt, Hi.
Qed.

Lemma mask_sp_affview s s' : mask_sp s' = mask_sp s -> affview s' = affview s.
Proof.
  intros H. unfold affview. rewrite (mask_sp_conns _ _ H).
  pose proof (f_equal b_aff H) as Ha. cbn in Ha. rewrite Ha. reflexivity.
Qed.

Lemma UpdateClientConnState_aff s addrs a raw s' o r :
  Inv s -> UpdateClientConnState s addrs a raw = (s', o, r) -> aff_frame s s'.
Proof.
  intros HI. rewrite UpdateClientConnState_eq.
  destruct (ucc_init s addrs a raw) as [[s2 o2]|] eqn:E0; [|intros E; inv E; apply affview_frame; reflexivity].
  destruct (ucc_init_Inv _ _ _ _ _ _ HI E0) as [HI2 [Hc2 _]].
  assert (H02 : aff_frame s s2).
  { unfold ucc_init in E0. sb. destruct (b_cfg s); [inv E0; apply affview_frame; reflexivity|].
    destruct a; try discriminate; inv E0.
    - destruct (initializeConfig (set_addrs s addrs) None) as [s3 o3] eqn:Ei. inv H0.
      apply initializeConfig_Inv in Ei; [|apply Inv_set_addrs, HI]. destruct Ei as [_ HF].
      apply grow_frame_aff in HF. exact HF.
    - destruct (initializeConfig (set_addrs s addrs) raw) as [s3 o3] eqn:Ei. inv H0.
      apply initializeConfig_Inv in Ei; [|apply Inv_set_addrs, HI]. destruct Ei as [_ HF].
      apply grow_frame_aff in HF. exact HF. }
  destruct (_ =? _)%nat; [|intros E; inv E; exact H02].
  destruct (addSubConn s2) as [[s3 ok] o3] eqn:E3. intros E; inv E.
  eapply addSubConn_Inv in E3; eauto. destruct E3 as [_ HF].
  eapply aff_frame_trans; [exact H02|apply grow_frame_aff, HF].
Qed.

Lemma getReadySubConnRef_affview s key s' r found :
  getReadySubConnRef s key = (s', r, found) -> affview s' = affview s.
Proof.
  unfold getReadySubConnRef. destruct (aget (b_aff s) key); [|intros E; inv E; auto].
  destruct (negb _); [|intros E; inv E; auto].
  destruct (cfg_fallback s); [|intros E; inv E; auto].
  destruct (aget (b_fb s) key); [intros E; inv E; auto|].
  destruct (b_picker s); [intros E; inv E; auto|].
  destruct (leastBusy s refs); [|intros E; inv E; auto].
  destruct (get_slot s n0); intros E; inv E; auto.
Qed.

Lemma affview_incr s i : affview (incr_streams s i) = affview s.
Proof. unfold affview, incr_streams, upd_slot; sb. rewrite map_upd_nth_same by reflexivity. reflexivity. Qed.

Lemma Pick_aff s pi pk method hasctx reqkeys deadline cancelled s' o r :
  Inv s -> nth_error (b_published s) pi = Some pk ->
  Pick s pi pk method hasctx reqkeys deadline cancelled = (s', o, r) -> aff_frame s s'.
Proof.
  intros HI Hpk. rewrite Pick_eq.
  assert (Hc : b_cfg s <> None).
  { eapply InvG_cfg_pubs; [apply HI|eapply nth_error_nonnil, Hpk]. }
  destruct pk as [[|]|[|a l]]; try (intros E; inv E; apply aff_frame_refl).
  assert (Hrefs : forall i, In i (a :: l) -> (i < length (b_slots s))%nat).
  { intros i Hi. destruct HI as (_&_&HP&_). eapply (pub_valid HP); eauto. eapply nth_error_In, Hpk. }
  destruct (pick_keyres s method hasctx reqkeys) as [key|]; [|intros E; inv E; apply aff_frame_refl].
  destruct (_ && _).
  - unfold pick_rr. destruct (b_slots s); [intros E; inv E; apply aff_frame_refl|].
    unfold pick_rr_body. cbv zeta. destruct (get_slot _ _); [|intros E; inv E; apply affview_frame; reflexivity].
    destruct (_ || _); intros E; inv E; apply affview_frame; [|reflexivity].
    apply (affview_incr (set_rr s _)).
  - unfold pick_lb. destruct (pick_dec s key (a :: l)) as [s2 dec] eqn:Ed.
    destruct (pick_dec_Inv _ _ _ _ _ HI Hrefs Ed) as [HI1 [[fb' ->] Hdec]].
    destruct dec as [i| |].
    + destruct (get_slot _ i); intros E; inv E; apply affview_frame; [|reflexivity].
      apply (affview_incr (set_fb s fb')).
    + destruct (b_gate _); [intros E; inv E; apply affview_frame; reflexivity|].
      destruct (newSubConn (set_fb s fb')) as [s3 o3] eqn:En. intros E; inv E.
      eapply newSubConn_Inv in En; eauto. destruct En as [_ HF]. apply grow_frame_aff in HF. exact HF.
    + intros E; inv E; apply affview_frame; reflexivity.
Qed.

Lemma refresh_affview s i s' o : refresh s i = (s', o) -> affview s' = affview s.
Proof.
  intros E. destruct (refresh_cases s i) as [[E' _]|[r [Es [Er [[_ E']|[_ E']]]]]];
    rewrite E' in E; inv E; try reflexivity.
  unfold affview, refresh_ok_state; sb. rewrite map_upd_nth_same by reflexivity. reflexivity.
Qed.

Lemma detectUnresponsive_affview s p oc s' o : detectUnresponsive s p oc = (s', o) -> affview s' = affview s.
Proof.
  unfold detectUnresponsive.
  assert (U : forall i f, (forall r, sl_conn (f r) = sl_conn r) -> affview (upd_slot s i f) = affview s).
  { intros i f Hf. unfold affview, upd_slot; sb. rewrite map_upd_nth_same by exact Hf. reflexivity. }
  destruct (negb (b_undet s)); [intros E; inv E; reflexivity|].
  destruct (negb _); [intros E; inv E; apply U; reflexivity|].
  destruct (get_slot s (pk_slot p)) as [r|]; [|intros E; inv E; reflexivity].
  destruct (pk_started p <? sl_last r); [intros E; inv E; reflexivity|].
  destruct (_ && _); [|intros E; inv E; apply U; reflexivity].
  intros E. apply refresh_affview in E. rewrite E. apply U; reflexivity.
Qed.

(* ================================================================ binding and unbinding, on the tables *)
Definition bind_aff (aff : list (N * N)) (k c : N) : list (N * N) :=
  match aget aff k with Some _ => aff | None => aset aff k c end.

Definition bind_home (h : list (N * nat)) (k : N) (i : nat) : list (N * nat) :=
  match aget h k with Some _ => h | None => aset h k i end.

Lemma bindSubConn_spec s key sc :
  conns (bindSubConn s key sc) = conns s /\ b_screfs (bindSubConn s key sc) = b_screfs s /\
  b_aff (bindSubConn s key sc) = match aget (b_screfs s) sc with
                                 | Some _ => bind_aff (b_aff s) key sc
                                 | None => b_aff s
                                 end.
Proof.
  unfold bindSubConn, bind_aff. destruct (aget (b_screfs s) sc); [|auto].
  destruct (aget (b_aff s) key); unfold upd_slot; sb; rewrite map_upd_nth_same by reflexivity; auto.
Qed.

Lemma fold_bindSubConn_spec keys sc : forall s,
  let s' := fold_left (fun st k => bindSubConn st k sc) keys s in
  conns s' = conns s /\ b_screfs s' = b_screfs s /\
  b_aff s' = match aget (b_screfs s) sc with
             | Some _ => fold_left (fun a k => bind_aff a k sc) keys (b_aff s)
             | None => b_aff s
             end.
Proof.
  induction keys as [|k r IH]; intros s; cbn [fold_left].
  - repeat split. destruct (aget (b_screfs s) sc); reflexivity.
  - destruct (bindSubConn_spec s k sc) as [H1 [H2 H3]].
    destruct (IH (bindSubConn s k sc)) as [G1 [G2 G3]]. cbv zeta in *.
    rewrite G1, G2, G3, H1, H2, H3. repeat split. destruct (aget (b_screfs s) sc); reflexivity.
Qed.

Lemma unbindSubConn_spec s key :
  conns (unbindSubConn s key) = conns s /\ b_aff (unbindSubConn s key) = adel (b_aff s) key.
Proof.
  unfold unbindSubConn. destruct (aget (b_aff s) key) as [sc|] eqn:Ea.
  - destruct (aget (b_screfs s) sc); unfold upd_slot; sb; rewrite ?map_upd_nth_same by reflexivity; auto.
  - rewrite adel_absent by exact Ea. auto.
Qed.

(* ================================================================ Sim_home *)
Definition home_rel (aff : list (N * N)) (cn : list N) (home : list (N * nat)) : Prop :=
  NoDup (akeys home) /\
  (forall k i, aget home k = Some i -> (i < length cn)%nat) /\
  (forall k, aget aff k = match aget home k with Some i => nth_error cn i | None => None end).

Definition Sim_home (s : bal) (ms : mstate) : Prop := home_rel (b_aff s) (conns s) (ms_home ms).

Lemma Sim_home_init : Sim_home init_bal ms_init.
Proof. split; [constructor|split; [intros k i H; discriminate|reflexivity]]. Qed.

Lemma home_rel_ext aff cn cn' home :
  home_rel aff cn home -> (forall i c, nth_error cn i = Some c -> nth_error cn' i = Some c) ->
  home_rel aff cn' home.
Proof.
  intros (H1 & H2 & H3) Hext. split; [exact H1|split].
  - intros k i Hk. destruct (nth_error_lt_Some _ _ (H2 _ _ Hk)) as [c Hc].
    eapply nth_error_Some_lt, Hext, Hc.
  - intros k. rewrite H3. destruct (aget home k) as [i|] eqn:Hk; [|reflexivity].
    destruct (nth_error_lt_Some _ _ (H2 _ _ Hk)) as [c Hc]. rewrite Hc. symmetry. apply Hext, Hc.
Qed.

Lemma Sim_home_frame s s' ms ms' :
  Sim_home s ms -> aff_frame s s' -> ms_home ms' = ms_home ms -> Sim_home s' ms'.
Proof.
  intros H [Ha He] Hh. unfold Sim_home. rewrite Hh, Ha. eapply home_rel_ext; [exact H|exact He].
Qed.

Lemma home_rel_bind aff cn home k c i :
  home_rel aff cn home -> nth_error cn i = Some c ->
  home_rel (bind_aff aff k c) cn (bind_home home k i).
Proof.
  intros (H1 & H2 & H3) Hi. unfold bind_aff, bind_home. pose proof (H3 k) as Hk.
  destruct (aget home k) as [j|] eqn:Eh.
  - destruct (nth_error_lt_Some _ _ (H2 _ _ Eh)) as [cj Hcj]. rewrite Hcj in Hk. rewrite Hk.
    split; [exact H1|split; [exact H2|exact H3]].
  - rewrite Hk. split; [apply NoDup_akeys_aset, H1|split].
    + intros k' i'. rewrite aget_aset. destruct (N.eqb k k'); [|apply H2].
      intros E; inv E. eapply nth_error_Some_lt, Hi.
    + intros k'. rewrite !aget_aset. destruct (N.eqb k k'); [symmetry; exact Hi|apply H3].
Qed.

Lemma home_rel_bind_fold keys c i : forall aff cn home,
  home_rel aff cn home -> nth_error cn i = Some c ->
  home_rel (fold_left (fun a k => bind_aff a k c) keys aff) cn
           (fold_left (fun h k => match aget h k with Some _ => h | None => aset h k i end) keys home).
Proof.
  induction keys as [|k r IH]; intros aff cn home H Hi; cbn [fold_left]; [exact H|].
  apply IH; [|exact Hi]. apply (home_rel_bind aff cn home k c i H Hi).
Qed.

Lemma home_rel_unbind aff cn home k :
  home_rel aff cn home -> home_rel (adel aff k) cn (adel home k).
Proof.
  intros (H1 & H2 & H3). split; [apply NoDup_akeys_adel, H1|split].
  - intros k' i. rewrite aget_adel. destruct (N.eqb k k'); [discriminate|apply H2].
  - intros k'. rewrite !aget_adel. destruct (N.eqb k k'); [reflexivity|apply H3].
Qed.

(* the swap of a completed refresh *)
Lemma home_rel_swap aff cn home i oldSc sc :
  home_rel aff cn home -> NoDup cn -> nth_error cn i = Some oldSc ->
  home_rel (rekey aff oldSc sc) (upd_nth i (fun _ => sc) cn) home.
Proof.
  intros (H1 & H2 & H3) ND Hi. split; [exact H1|split].
  - intros k j Hk. rewrite upd_nth_length. eapply H2, Hk.
  - intros k. rewrite aget_rekey, H3. destruct (aget home k) as [j|] eqn:Eh; [|reflexivity].
    destruct (nth_error_lt_Some _ _ (H2 _ _ Eh)) as [cj Hcj]. rewrite Hcj. cbn [option_map].
    rewrite nth_error_upd_nth. destruct (Nat.eqb_spec i j) as [<-|Hij].
    + rewrite Hi in Hcj. inv Hcj. rewrite N.eqb_refl, Hi. reflexivity.
    + rewrite Hcj. destruct (N.eqb_spec cj oldSc) as [->|]; [|reflexivity].
      exfalso. apply Hij. eapply NoDup_nth_error_inj; eauto.
Qed.

(* ================================================================ preservation *)
Lemma usc_tail_affview s1 o1 sc st oldS order s' o' :
  usc_tail s1 o1 sc st oldS order = (s', o') -> affview s' = affview s1.
Proof.
  unfold usc_tail. rewrite usc_fin_cases. cbv zeta.
  destruct (usc_s5_frame s1 sc st oldS) as (_&_&_&_&_&_&_&_&E9&_&_&_&E13&_).
  destruct (pub_cond _ _ _ _); intros E; inv E; unfold affview; sb; rewrite E9, E13; reflexivity.
Qed.

Lemma UpdateSubConnState_home s sc st order s' o h :
  Inv s -> home_rel (b_aff s) (conns s) h -> UpdateSubConnState s sc st order = (s', o) ->
  home_rel (b_aff s') (conns s') h.
Proof.
  intros HI Hh. rewrite UpdateSubConnState_cases.
  assert (A : forall s1 o1, home_rel (b_aff s1) (conns s1) h -> usc_after s1 o1 sc st order = (s', o) ->
                            home_rel (b_aff s') (conns s') h).
  { intros s1 o1 H1. unfold usc_after. destruct (aget (b_scstates s1) sc); [|intros E; inv E; exact H1].
    intros E. apply usc_tail_affview in E. unfold affview in E. inv E. rewrite H0, H2. exact H1. }
  destruct (aget (b_refr s) sc) as [i|] eqn:Er; [|apply A, Hh].
  destruct (negb (cstate_eqb st Ready)); [intros E; inv E; exact Hh|].
  destruct (get_slot s i) as [ref|] eqn:Es; [|apply A, Hh].
  apply A. unfold swap_state; sb. rewrite (map_upd_nth sl_conn _ (fun _ => sc)) by reflexivity.
  apply home_rel_swap; [exact Hh|apply (nd_conns (proj1 HI))|]. apply nth_error_map_Some. eauto.
Qed.

Lemma o_slot_in_pool_observe s i c :
  InvK s -> nth_error (conns s) i = Some c ->
  o_slot_in_pool (observe s) i = match aget (b_screfs s) c with Some _ => true | None => false end.
Proof.
  intros HK Hi. apply nth_error_map_Some in Hi. destruct Hi as [sl [Hs Hc]].
  unfold o_slot_in_pool, o_slot, observe; cbn [o_slots o_refs]. rewrite Hs, Hc.
  rewrite aget_asort by apply (nd_screfs HK). reflexivity.
Qed.

Lemma track_home raw ms before ev after :
  ms_home (track raw ms before ev after) =
  ms_home (track_ms2 (raw_in_force raw ms (ev_op ev)) (track_ms1 raw ms before ev after) before ev after).
Proof.
  rewrite track_eq. destruct (ub_fold_proj (o_now after) (ev_ub ev)
    (track_ms2 (raw_in_force raw ms (ev_op ev)) (track_ms1 raw ms before ev after) before ev after))
    as (_&_&H&_). exact H.
Qed.

Lemma track_ms1_home raw ms before ev after : ms_home (track_ms1 raw ms before ev after) = ms_home ms.
Proof. unfold track_ms1. destruct (track_addr _ _ _). reflexivity. Qed.

Lemma track_ms1_picks raw ms before ev after : ms_picks (track_ms1 raw ms before ev after) = ms_picks ms.
Proof. unfold track_ms1. destruct (track_addr _ _ _). reflexivity. Qed.

Lemma step_aff_other raw s o order s1 outs rt :
  Inv s -> step raw s o order = (s1, outs, rt) ->
  match o with OpConnState _ _ | OpDone _ _ _ => True | _ => aff_frame s s1 end.
Proof.
  intros HI. destruct o as [addrs a| |sc st|pi m hc rk dl cc|j oc rk|dt|j|f|g|k]; cbn [step]; auto.
  - apply UpdateClientConnState_aff, HI.
  - intros E; inv E. apply aff_frame_refl.
  - destruct (nth_error (b_published s) pi) eqn:Ep; [|intros E; inv E; apply aff_frame_refl].
    destruct (_ && _); [intros E; inv E; apply aff_frame_refl|]. eapply Pick_aff; eauto.
  - destruct (0 <=? dt); intros E; inv E; apply affview_frame; reflexivity.
  - destruct (nth_error (b_picks s) j); intros E; inv E; apply affview_frame; reflexivity.
  - intros E; inv E; apply affview_frame; reflexivity.
  - intros E; inv E; apply affview_frame; reflexivity.
  - destruct (nth_error (b_parked s) k) eqn:Ek; [|intros E; inv E; apply aff_frame_refl].
    destruct (newSubConn _) as [s2 o2] eqn:En. intros E; inv E.
    assert (Hc : b_cfg s <> None) by (eapply InvG_cfg_parked; [apply HI|eapply nth_error_nonnil, Ek]).
    eapply newSubConn_Inv in En; [destruct En as [_ HF]; apply grow_frame_aff in HF; exact HF|exact Hc|].
    apply Inv_set_parked; auto. intros pi Hpi. apply In_remove_nth in Hpi.
    destruct HI as (_&_&_&_&_&HS). apply (parked_valid HS), Hpi.
Qed.

Lemma Sim_home_step raw s ms o order s' outs rt ub :
  Inv s -> SimP s ms -> Sim_home s ms -> rt <> RBadOp ->
  full_step raw s o order = (s', outs, rt, ub) ->
  Sim_home s' (track raw ms (observe s) (mkEvent o outs rt ub (Some (observe s'))) (observe s')).
Proof.
  intros HI HP HH Hrt. rewrite full_step_eq.
  destruct (step raw s o order) as [[s1 outs1] r1] eqn:Es.
  destruct (resolve_blocked s1) as [s2 ub2] eqn:Er. intros E; inv E.
  destruct (step_Inv _ _ _ _ _ _ _ HI Es) as [HI1 _].
  destruct (resolve_blocked_spec _ _ _ HI1 Er) as [_ [Hm _]].
  apply mask_sp_affview in Hm. unfold affview in Hm. inv Hm.
  unfold Sim_home. rewrite H0, H1, track_home. cbn [ev_op].
  set (ev := mkEvent o outs rt ub (Some (observe s'))).
  set (raw' := raw_in_force raw ms o).
  set (m1 := track_ms1 raw ms (observe s) ev (observe s')).
  assert (Hh1 : ms_home m1 = ms_home ms) by apply track_ms1_home.
  assert (Hp1 : ms_picks m1 = ms_picks ms) by apply track_ms1_picks.
  pose proof (step_aff_other _ _ _ _ _ _ _ HI Es) as Hoth.
  assert (Keep : aff_frame s s1 -> forall m, ms_home m = ms_home ms ->
                 home_rel (b_aff s1) (conns s1) (ms_home m)).
  { intros HF m Hm. apply (Sim_home_frame s s1 ms m HH HF Hm). }
  unfold track_ms2. subst ev. cbn [ev_op ev_ret].
  destruct o as [addrs a| |sc st|pi m hc rk dl cc|j oc rk|dt|j|f|g|k]; try (apply Keep; [exact Hoth|exact Hh1]).
  - (* OpConnState *)
    cbn [step] in Es. destruct (UpdateSubConnState s sc st order) as [s1' o1] eqn:E1. inv Es.
    rewrite Hh1. apply (UpdateSubConnState_home s sc st order s1 outs (ms_home ms) HI HH E1).
  - (* OpPick *)
    destruct rt; try (apply Keep; [exact Hoth|exact Hh1]).
    destruct (o_slot_of_conn (observe s') n); apply Keep; auto.
  - (* OpDone *)
    cbn [step] in Es. destruct (Done_picks _ _ _ _ _ _ _ Es Hrt) as [p [Hj [Hst _]]].
    rewrite Hp1, HP, (map_nth_error mpick_of _ _ Hj).
    rewrite Done_eq, Hj, Hst in Es.
    destruct (detectUnresponsive (done_s1 s j p) p oc) as [sd od] eqn:Ed. inv Es.
    assert (Hav : affview sd = affview s).
    { apply detectUnresponsive_affview in Ed. rewrite Ed. unfold affview, done_s1, upd_slot; sb.
      rewrite map_upd_nth_same by reflexivity. reflexivity. }
    assert (Hpv : b_screfs sd = b_screfs s).
    { apply detectUnresponsive_poolview in Ed. unfold poolview in Ed. inv Ed. reflexivity. }
    unfold affview in Hav. inv Hav.
    assert (HHd : home_rel (b_aff sd) (conns sd) (ms_home ms)) by (rewrite H2, H3; exact HH).
    unfold done_bind.
    change (mp_cmd (mpick_of p)) with (pk_cmd p). change (mp_hasctx (mpick_of p)) with (pk_hasctx p).
    change (mp_locok (mpick_of p)) with (pk_locok p). change (mp_slot (mpick_of p)) with (pk_slot p).
    change (mp_key (mpick_of p)) with (pk_key p).
    destruct oc; try (cbn [ms_home ms_with_picks]; rewrite Hh1; exact HHd).
    destruct (pk_cmd p).
    + cbn [ms_home ms_with_picks]; rewrite Hh1; exact HHd.
    + (* BIND *)
      destruct HI as (HK&_&_&_&_&HS).
      assert (Hlt : (pk_slot p < length (b_slots s))%nat).
      { pose proof (picks_slot HS p (nth_error_In _ _ Hj)) as H. rewrite map_length in H. exact H. }
      assert (Hc : exists c, nth_error (conns s) (pk_slot p) = Some c).
      { apply nth_error_lt_Some. rewrite map_length. exact Hlt. }
      destruct Hc as [c Hc].
      rewrite (o_slot_in_pool_observe s (pk_slot p) c HK Hc).
      destruct (pk_hasctx p && pk_locok p); cbn [andb]; [|cbn [ms_home ms_with_picks]; rewrite Hh1; exact HHd].
      assert (Hsd : exists r, get_slot sd (pk_slot p) = Some r /\ sl_conn r = c).
      { rewrite <- H3 in Hc. apply nth_error_map_Some in Hc. exact Hc. }
      destruct Hsd as [r [Hr Hrc]]. rewrite Hr.
      destruct (fold_bindSubConn_spec rk (sl_conn r) sd) as [G1 [_ G3]]. cbv zeta in G1, G3.
      rewrite G1, G3, Hrc, Hpv.
      destruct (aget (b_screfs s) c).
      * cbn [ms_home ms_with_home ms_with_picks]. rewrite Hh1.
        apply home_rel_bind_fold; [exact HHd|]. rewrite H3. exact Hc.
      * cbn [ms_home ms_with_picks]. rewrite Hh1. exact HHd.
    + (* UNBIND *)
      destruct (unbindSubConn_spec sd (pk_key p)) as [G1 G2]. rewrite G1, G2.
      cbn [ms_home ms_with_home ms_with_picks]. rewrite Hh1. apply home_rel_unbind, HHd.
Qed.

(* ================================================================ the shared relation *)
Definition Sim (s : bal) (ms : mstate) : Prop :=
  Sim_pubs s ms /\ Sim_cfg s ms /\ Sim_fail s ms /\ Sim_addr s ms /\ SimP s ms /\ Sim_home s ms.

Lemma Sim_init : Sim init_bal ms_init.
Proof.
  exact (conj Sim_pubs_init (conj Sim_cfg_init (conj Sim_fail_init (conj Sim_addr_init (conj SimP_init Sim_home_init))))).
Qed.

(* one harness-legal step keeps the invariant, quiescence and the whole of Sim *)
Theorem Sim_step raw s ms o order s' outs rt ub :
  Inv s -> Sim s ms -> rt <> RBadOp ->
  full_step raw s o order = (s', outs, rt, ub) ->
  Inv s' /\ Quiescent s' /\
  Sim s' (track raw ms (observe s) (mkEvent o outs rt ub (Some (observe s'))) (observe s')).
Proof.
  intros HI (S1&S2&S3&S4&S5&S6) Hrt E.
  destruct (full_step_Inv _ _ _ _ _ _ _ _ HI E) as [HI' [HQ' _]].
  split; [exact HI'|split; [exact HQ'|]].
  split; [eapply Sim_pubs_step; eauto|].
  split; [eapply Sim_cfg_step; eauto|].
  split; [eapply Sim_fail_step; eauto|].
  split; [eapply Sim_addr_step; eauto|].
  split; [eapply SimP_step; eauto|eapply Sim_home_step; eauto].
Qed.

(* ================================================================ reduction for harness-legal histories *)
(* To prove a property for all harness-legal histories it suffices to establish its
   per-event check from Inv, Quiescent and Sim of the state before the event. *)
Section LegalReduce.
  Variable pid : prop_id.
  Variable raw : option config.
  Variable G : bal -> op -> list nat -> Prop.   (* additional per-step guard *)

  Definition legal_step (s : bal) (o : op) (order : list nat) : Prop :=
    (let '(_, _, rt, _) := full_step raw s o order in rt <> RBadOp) /\ G s o order.

  Hypothesis check : forall s ms o order s' outs rt ub,
    Inv s -> Quiescent s -> Sim s ms -> rt <> RBadOp -> G s o order ->
    full_step raw s o order = (s', outs, rt, ub) ->
    event_ok pid raw ms (observe s) (mkEvent o outs rt ub (Some (observe s'))) = true.

  Theorem monitor_legal ops :
    Reduce.guarded raw legal_step init_bal ops ->
    monitor pid raw (observe init_bal) (run raw init_bal ops) = true.
  Proof.
    apply (Reduce.monitor_run pid raw (fun s => Inv s /\ Quiescent s) Sim legal_step).
    - intros s ms o order s' outs rt ub [HI HQ] HS [Hl Hg] E. rewrite E in Hl. cbv zeta.
      destruct (Sim_step raw s ms o order s' outs rt ub HI HS Hl E) as [HI' [HQ' HS']].
      split; [split; assumption|split; [exact HS'|]]. eapply check; eauto.
    - split; [exact Inv_init|exact Quiescent_init].
    - exact Sim_init.
  Qed.
End LegalReduce.

Lemma legal_of_run raw : forall ops s,
  Forall (fun ev => ev_ret ev <> RBadOp) (run raw s ops) ->
  Reduce.guarded raw (legal_step raw (fun _ _ _ => True)) s ops.
Proof.
  induction ops as [|[o order] r IH]; intros s H; cbn; [exact I|].
  cbn in H. unfold legal_step. destruct (full_step raw s o order) as [[[s' outs] rt] ub].
  inversion H; subst. split; [split; [assumption|exact I]|apply IH; assumption].
Qed.
