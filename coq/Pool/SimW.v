(* Engine A proofs: a weaker picks correspondence that holds for every history,
   harness-legal or not.  The only illegal operation that desynchronises the
   monitor's picks from the model's is Done on a pick that is still blocked: the
   monitor marks it finished, the model ignores the call.  [pick_rel] allows
   exactly that; it is all C02 and C06 need. *)
From GV Require Import Base.AListFacts Pool.Model Pool.Observe Pool.Monitors
                       Pool.Lemmas Pool.Inv Pool.Inv2 Pool.Frames Pool.Sim.
From Coq Require Import Lia ZifyBool.
Open Scope Z_scope.

Definition pick_rel (p : pick) (mp : mpick) : Prop :=
  mp = mpick_of p \/ (pk_status p = PBlocked /\ mp = set_status (mpick_of p) PFinished (pk_started p)).

Definition SimPw (s : bal) (ms : mstate) : Prop := Forall2 pick_rel (b_picks s) (ms_picks ms).

Lemma SimPw_init : SimPw init_bal ms_init.
Proof. constructor. Qed.

Lemma SimP_SimPw s ms : SimP s ms -> SimPw s ms.
Proof.
  unfold SimP, SimPw. intros ->. induction (b_picks s) as [|p r IH]; cbn; constructor; auto. left; reflexivity.
Qed.

(* ---------------------------------------------------------------- Forall2 helpers *)
Lemma Forall2_length {A B} (R : A -> B -> Prop) l l' : Forall2 R l l' -> length l = length l'.
Proof. induction 1; cbn; auto. Qed.

Lemma Forall2_nth_error {A B} (R : A -> B -> Prop) l l' j x :
  Forall2 R l l' -> nth_error l j = Some x -> exists y, nth_error l' j = Some y /\ R x y.
Proof.
  intros H. revert j. induction H as [|a b r r' Hab Hr IH]; intros [|j]; cbn; try discriminate.
  - intros E; inv E. eauto.
  - apply IH.
Qed.

Lemma Forall2_nth_error_None {A B} (R : A -> B -> Prop) l l' j :
  Forall2 R l l' -> nth_error l j = None -> nth_error l' j = None.
Proof.
  intros H Hn. apply nth_error_None in Hn. apply nth_error_None. rewrite <- (Forall2_length _ _ _ H). exact Hn.
Qed.

Lemma Forall2_upd_nth {A B} (R : A -> B -> Prop) (f : A -> A) (g : B -> B) l l' j :
  Forall2 R l l' -> (forall x y, R x y -> R (f x) (g y)) -> Forall2 R (upd_nth j f l) (upd_nth j g l').
Proof.
  intros H Hfg. revert j. induction H as [|a b r r' Hab Hr IH]; intros [|j]; cbn; constructor; auto.
Qed.

Lemma Forall2_upd_nth_r {A B} (R : A -> B -> Prop) (g : B -> B) l l' j :
  Forall2 R l l' -> (forall x y, nth_error l j = Some x -> R x y -> R x (g y)) -> Forall2 R l (upd_nth j g l').
Proof.
  intros H. revert j. induction H as [|a b r r' Hab Hr IH]; intros [|j] Hg; cbn; constructor; auto.
Qed.

(* ---------------------------------------------------------------- Done, whatever the pick's status *)
Lemma Done_picks_gen s j oc rk s' o r :
  Done s j oc rk = (s', o, r) ->
  b_picks s' = match nth_error (b_picks s) j with
               | Some p => match pk_status p with PPlaced => upd_nth j finish_pick (b_picks s) | _ => b_picks s end
               | None => b_picks s
               end.
Proof.
  rewrite Done_eq. destruct (nth_error (b_picks s) j) as [p|]; [|intros E; inv E; reflexivity].
  destruct (pk_status p) eqn:Est; try (intros E; inv E; reflexivity).
  destruct (detectUnresponsive (done_s1 s j p) p oc) as [s2 o2] eqn:Ed. intros E; inv E.
  rewrite done_bind_picks. apply detectUnresponsive_picks in Ed. rewrite Ed. reflexivity.
Qed.

(* ---------------------------------------------------------------- unblocking *)
Lemma pick_rel_unblock now p mp :
  pick_rel p mp -> set_status mp PPlaced now = mpick_of (unblock_pick now p).
Proof. intros [->|[_ ->]]; reflexivity. Qed.

Lemma mark_unblocked_rel s : forall ps mps (pre : list pick) (mpre : list mpick),
  length mpre = length pre -> Forall2 pick_rel ps mps ->
  exists mps', mark_unblocked (b_now s) (mpre ++ mps) (unblocked_from s (length pre) ps) = mpre ++ mps' /\
               Forall2 pick_rel (map (resolve_pick s) ps) mps'.
Proof.
  induction ps as [|p r IH]; intros mps pre mpre Hl H; inv H; cbn [unblocked_from map].
  - exists []. split; [reflexivity|constructor].
  - rename y into mp. rename l' into mr. unfold resolve_pick at 1.
    destruct (resolvable s p) eqn:Er.
    + cbn [app]. unfold mark_unblocked. cbn [fold_left fst]. rewrite <- Hl, upd_nth_app_mid.
      rewrite (pick_rel_unblock _ _ _ H2).
      destruct (IH mr (pre ++ [p]) (mpre ++ [mpick_of (unblock_pick (b_now s) p)])) as [mps' [E1 E2]];
        [rewrite !app_length; cbn; lia|exact H4|].
      rewrite app_length in E1. cbn [length] in E1. rewrite Nat.add_1_r, <- app_assoc in E1. cbn [app] in E1.
      unfold mark_unblocked in E1. rewrite Hl, E1. rewrite <- app_assoc. cbn [app].
      eexists. split; [reflexivity|]. constructor; [left; reflexivity|exact E2].
    + cbn [app].
      destruct (IH mr (pre ++ [p]) (mpre ++ [mp])) as [mps' [E1 E2]];
        [rewrite !app_length; cbn; lia|exact H4|].
      rewrite app_length in E1. cbn [length] in E1. rewrite Nat.add_1_r, <- app_assoc in E1. cbn [app] in E1.
      rewrite E1, <- app_assoc. cbn [app]. eexists. split; [reflexivity|]. constructor; [exact H2|exact E2].
Qed.

(* ---------------------------------------------------------------- preservation *)
Lemma SimPw_step raw s ms o order s' outs rt ub :
  Inv s -> Sim_cfg s ms -> SimPw s ms ->
  full_step raw s o order = (s', outs, rt, ub) ->
  SimPw s' (track raw ms (observe s) (mkEvent o outs rt ub (Some (observe s'))) (observe s')).
Proof.
  intros HI HC HP. rewrite full_step_eq.
  destruct (step raw s o order) as [[s1 outs1] r1] eqn:Es.
  destruct (resolve_blocked s1) as [s2 ub2] eqn:Er. intros E; inv E.
  destruct (step_Inv _ _ _ _ _ _ _ HI Es) as [HI1 _].
  destruct (resolve_blocked_spec _ _ _ HI1 Er) as [HI' [Hm [Hpk Hub]]].
  pose proof (f_equal b_now Hm) as Hnow. pose proof (f_equal b_rr Hm) as Hrr. cbn in Hnow, Hrr.
  pose proof (mask_sp_conns _ _ Hm) as Hcn.
  assert (Hlen : length (b_slots s') = length (b_slots s1)).
  { rewrite <- (map_length sl_conn (b_slots s')), Hcn, map_length. reflexivity. }
  unfold SimPw in *. rewrite track_eq, ub_fold_picks. cbn [ev_ub ev_op].
  set (raw' := raw_in_force raw ms o).
  set (m1 := track_ms1 raw ms (observe s) (mkEvent o outs rt ub (Some (observe s'))) (observe s')).
  assert (Hm1 : ms_picks m1 = ms_picks ms).
  { unfold m1, track_ms1. destruct (track_addr _ _ _). reflexivity. }
  assert (H2 : Forall2 pick_rel (b_picks s1)
                 (ms_picks (track_ms2 raw' m1 (observe s) (mkEvent o outs rt ub (Some (observe s'))) (observe s')))).
  { unfold track_ms2. cbn [ev_op ev_ret].
    pose proof (step_picks_other _ _ _ _ _ _ _ HI Es) as Hoth.
    destruct o as [addrs a| |sc st|pi m hc rk dl cc|j oc rk|dt|j|f|g|k];
      try (cbn [ms_picks ms_with_fail]; rewrite Hm1, Hoth; exact HP).
    - (* OpPick *)
      cbn [step] in Es. destruct (nth_error (b_published s) pi) as [pk|] eqn:Ep; [|inv Es; rewrite Hm1; exact HP].
      destruct (_ && _); [inv Es; rewrite Hm1; exact HP|].
      assert (Hcfg : exists c, b_cfg s = Some c).
      { destruct (b_cfg s) eqn:Ec; [eauto|]. exfalso.
        eapply InvG_cfg_pubs; [apply HI|eapply nth_error_nonnil, Ep|exact Ec]. }
      destruct Hcfg as [c Hcfg].
      destruct (pick_fields_link raw s ms (OpPick pi m hc rk dl cc) c m hc rk HC Hcfg) as (L1&L2&L3&L4).
      fold raw' in L1, L2, L3, L4.
      destruct (Pick_appends _ _ _ _ _ _ _ _ _ _ _ HI Ep Es) as [Happ Hn1].
      unfold pick_appends in Happ. destruct rt; try (rewrite Hm1, Happ; exact HP).
      + destruct Happ as [key [i [Hk [Hi Hpicks]]]].
        rewrite (o_slot_of_conn_spec s' i n); [|apply HI'|rewrite Hcn; exact Hi].
        cbn [ms_picks ms_with_picks]. rewrite Hm1, Hpicks. apply Forall2_app; [exact HP|].
        constructor; [|constructor]. left.
        unfold mpick_of, pick_mk; sb. rewrite L1, L2, L3, Hk. cbn [observe o_now]. rewrite Hnow, Hn1. reflexivity.
      + destruct Happ as [key [Hk [_ Hpicks]]].
        cbn [ms_picks ms_with_picks]. rewrite Hm1, Hpicks. apply Forall2_app; [exact HP|].
        constructor; [|constructor]. left.
        unfold mpick_of, pick_mk; sb. rewrite L1, L2, L3, Hk. cbn [observe o_now o_rr o_slots].
        rewrite Hnow, Hn1, Hrr, Hlen. reflexivity.
    - (* OpDone *)
      cbn [step] in Es. rewrite (Done_picks_gen _ _ _ _ _ _ _ Es). rewrite Hm1.
      destruct (nth_error (b_picks s) j) as [p|] eqn:Ej.
      2:{ rewrite (Forall2_nth_error_None _ _ _ _ HP Ej). rewrite ?Hm1. exact HP. }
      destruct (Forall2_nth_error _ _ _ _ _ HP Ej) as [mp [Emp Hrel]]. rewrite Emp.
      assert (Hup : Forall2 pick_rel
                (match pk_status p with PPlaced => upd_nth j finish_pick (b_picks s) | _ => b_picks s end)
                (upd_nth j (fun p0 => set_status p0 PFinished (mp_started p0)) (ms_picks ms))).
      { destruct (pk_status p) eqn:Est.
        - apply Forall2_upd_nth_r; [exact HP|]. intros x y Hx Hxy. assert (x = p) by congruence. subst x.
          destruct Hxy as [->|[_ ->]]; right; split; auto.
        - apply Forall2_upd_nth; [exact HP|]. intros x y [->|[Hb ->]]; left; reflexivity.
        - apply Forall2_upd_nth_r; [exact HP|]. intros x y Hx Hxy. assert (x = p) by congruence. subst x.
          destruct Hxy as [->|[Hb _]]; [|congruence]. left. unfold set_status, mpick_of; sb. rewrite Est. reflexivity. }
      destruct oc; try (cbn [ms_picks ms_with_picks]; rewrite ?Hm1; exact Hup).
      destruct (mp_cmd mp); try (cbn [ms_picks ms_with_picks ms_with_home]; rewrite ?Hm1; exact Hup).
      destruct (mp_hasctx mp && mp_locok mp && o_slot_in_pool (observe s) (mp_slot mp));
        cbn [ms_picks ms_with_picks ms_with_home]; rewrite ?Hm1; exact Hup.
    - (* OpCancel *)
      cbn [step] in Es. cbn [ms_picks ms_with_picks]. rewrite Hm1.
      destruct (nth_error (b_picks s) j) as [p|] eqn:Ej; inv Es.
      + sb. apply Forall2_upd_nth; [exact HP|]. intros x y [->|[Hb ->]]; [left; reflexivity|].
        right. split; [cbn; exact Hb|reflexivity].
      + rewrite upd_nth_out; [exact HP|]. rewrite <- (Forall2_length _ _ _ HP). apply nth_error_None, Ej. }
  cbn [observe o_now]. rewrite Hnow, Hpk.
  destruct (mark_unblocked_rel s1 (b_picks s1) _ [] [] eq_refl H2) as [mps' [E1 E2]].
  cbn [app length] in E1. rewrite <- Hub in E1. rewrite E1. exact E2.
Qed.

(* ---------------------------------------------------------------- what C02 / C06 read off the picks *)
Lemma count_placed_rel picks mpicks i :
  Forall2 pick_rel picks mpicks -> count_placed mpicks i = count_placed_on picks i.
Proof.
  intros H. unfold count_placed, count_placed_on. f_equal.
  induction H as [|p mp r mr Hrel Hr IH]; cbn [filter]; [reflexivity|].
  assert (E : match mp_status mp with PPlaced => Nat.eqb (mp_slot mp) i | _ => false end = placed_on i p).
  { destruct Hrel as [->|[Hb ->]]; [reflexivity|]. unfold placed_on. rewrite Hb. reflexivity. }
  rewrite E. destruct (placed_on i p); cbn [length]; rewrite IH; reflexivity.
Qed.

Lemma blocked_rel_exact p mp : pick_rel p mp -> mp_status mp = PBlocked -> mp = mpick_of p.
Proof. intros [->|[_ ->]]; [auto|discriminate]. Qed.
