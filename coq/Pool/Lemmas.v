(* Engine A proofs: facts about the helper functions of Pool/Model.v
   (list updates, membership tests, int32 wrap, rekey/del_values, ready set,
   least-busy scan) and the record-simplification tactic [sb]. *)
From GV Require Import Base.AListFacts Pool.Model.
From Coq Require Import Lia ZifyBool Permutation.
Open Scope Z_scope.

Ltac inv H := inversion H; subst; clear H.

(* simplify projections of record updates; never touches numerals *)
Ltac sb :=
  cbn [b_cfg b_addrs b_nready b_nconn b_ntf b_state b_aff b_fb b_scstates b_screfs b_slots b_rr b_refr
       b_undet b_picker b_published b_picks b_now b_next b_fail b_gate b_parked
       set_cfg set_addrs set_counts set_state set_aff set_fb set_scstates set_screfs set_slots set_rr
       set_refr set_undet set_picker set_published set_picks set_now set_next set_fail set_gate set_parked
       upd_slot get_slot incr_streams
       sl_conn sl_aff sl_streams sl_last sl_de sl_refreshing sl_rcnt
       sl_set_conn sl_set_aff sl_set_streams sl_set_refreshing sl_set_de
       pk_slot pk_started pk_deadline pk_cancelled pk_cmd pk_key pk_hasctx pk_locok pk_status
       fst snd] in *.

(* ---------------------------------------------------------------- cstate / cmd *)
Lemma cstate_eqb_spec a b : reflect (a = b) (cstate_eqb a b).
Proof. destruct a, b; cbn; constructor; congruence. Qed.

Lemma cstate_eqb_refl a : cstate_eqb a a = true.
Proof. destruct a; reflexivity. Qed.

Lemma cstate_eqb_sym a b : cstate_eqb a b = cstate_eqb b a.
Proof. destruct a, b; reflexivity. Qed.

Lemma cmd_eqb_spec a b : reflect (a = b) (cmd_eqb a b).
Proof. destruct a, b; cbn; constructor; congruence. Qed.

(* ---------------------------------------------------------------- upd_nth *)
Lemma upd_nth_length {A} n (f : A -> A) l : length (upd_nth n f l) = length l.
Proof. revert n; induction l as [|x r IH]; intros [|n]; cbn; auto. Qed.

Lemma nth_error_upd_nth {A} n (f : A -> A) l m :
  nth_error (upd_nth n f l) m = if Nat.eqb n m then option_map f (nth_error l m) else nth_error l m.
Proof.
  revert n m; induction l as [|x r IH]; intros [|n] [|m]; cbn; auto.
  - destruct (Nat.eqb n m); reflexivity.
Qed.

Lemma nth_error_upd_nth_eq {A} n (f : A -> A) l : nth_error (upd_nth n f l) n = option_map f (nth_error l n).
Proof. rewrite nth_error_upd_nth, Nat.eqb_refl. reflexivity. Qed.

Lemma nth_error_upd_nth_neq {A} n (f : A -> A) l m : n <> m -> nth_error (upd_nth n f l) m = nth_error l m.
Proof. intros H. rewrite nth_error_upd_nth. destruct (Nat.eqb_spec n m); congruence. Qed.

Lemma map_upd_nth {A B} (g : A -> B) (f : A -> A) (f' : B -> B) n l :
  (forall x, g (f x) = f' (g x)) -> map g (upd_nth n f l) = upd_nth n f' (map g l).
Proof.
  intros H. revert n; induction l as [|x r IH]; intros [|n]; cbn; auto.
  - rewrite H; reflexivity.
  - rewrite IH; reflexivity.
Qed.

Lemma map_upd_nth_same {A B} (g : A -> B) (f : A -> A) n l :
  (forall x, g (f x) = g x) -> map g (upd_nth n f l) = map g l.
Proof.
  intros H. revert n; induction l as [|x r IH]; intros [|n]; cbn; auto.
  - rewrite H; reflexivity.
  - rewrite IH; reflexivity.
Qed.

Lemma upd_nth_id {A} n (f : A -> A) l : (forall x, f x = x) -> upd_nth n f l = l.
Proof.
  intros H. revert n; induction l as [|x r IH]; intros [|n]; cbn; auto.
  - rewrite H; reflexivity.
  - rewrite IH; reflexivity.
Qed.

Lemma upd_nth_upd_nth {A} n (f g : A -> A) l : upd_nth n g (upd_nth n f l) = upd_nth n (fun x => g (f x)) l.
Proof. revert n; induction l as [|x r IH]; intros [|n]; cbn; auto. rewrite IH; reflexivity. Qed.

Lemma upd_nth_out {A} n (f : A -> A) l : (length l <= n)%nat -> upd_nth n f l = l.
Proof.
  revert n; induction l as [|x r IH]; intros [|n]; cbn; auto; intros H; [lia|].
  rewrite IH; auto; lia.
Qed.

Lemma In_upd_nth {A} n (f : A -> A) l y :
  In y (upd_nth n f l) -> In y l \/ exists x, nth_error l n = Some x /\ y = f x.
Proof.
  revert n; induction l as [|x r IH]; intros [|n]; cbn; auto.
  - intros [H|H]; [right; eauto|auto].
  - intros [H|H]; [auto|]. destruct (IH _ H) as [H'|H']; auto.
Qed.

Lemma nth_error_map_Some {A B} (g : A -> B) l n y :
  nth_error (map g l) n = Some y <-> exists x, nth_error l n = Some x /\ g x = y.
Proof.
  revert n; induction l as [|x r IH]; intros [|n]; cbn.
  - split; [discriminate|intros [? [? _]]; discriminate].
  - split; [discriminate|intros [? [? _]]; discriminate].
  - split; [intros H; inv H; eauto|intros [? [H ?]]; inv H; reflexivity].
  - apply IH.
Qed.

Lemma nth_error_app_last {A} (l : list A) x : nth_error (l ++ [x]) (length l) = Some x.
Proof. rewrite nth_error_app2 by lia. rewrite Nat.sub_diag. reflexivity. Qed.

Lemma nth_error_Some_lt {A} (l : list A) n x : nth_error l n = Some x -> (n < length l)%nat.
Proof. intros H. apply nth_error_Some. congruence. Qed.

Lemma nth_error_lt_Some {A} (l : list A) n : (n < length l)%nat -> exists x, nth_error l n = Some x.
Proof. intros H. destruct (nth_error l n) eqn:E; [eauto|]. apply nth_error_None in E. lia. Qed.

Lemma nth_error_snoc {A} (l : list A) x n y :
  nth_error (l ++ [x]) n = Some y <-> nth_error l n = Some y \/ (n = length l /\ y = x).
Proof.
  destruct (Nat.lt_ge_cases n (length l)) as [Hlt|Hge].
  - rewrite nth_error_app1 by auto. split; [auto|intros [H|[H _]]; [auto|lia]].
  - rewrite nth_error_app2 by auto. split.
    + intros H. right. destruct (n - length l)%nat as [|d] eqn:E; cbn in H.
      * inv H. split; [lia|auto].
      * destruct d; discriminate.
    + intros [H|[-> ->]]; [apply nth_error_Some_lt in H; lia|]. rewrite Nat.sub_diag. reflexivity.
Qed.

(* ---------------------------------------------------------------- last *)
Lemma last_snoc {A} (l : list A) x d : last (l ++ [x]) d = x.
Proof. apply last_last. Qed.

(* ---------------------------------------------------------------- memnat / nodupnat / is_perm *)
Lemma memnat_In x l : memnat x l = true <-> In x l.
Proof.
  induction l as [|y r IH]; cbn; [split; [discriminate|tauto]|].
  rewrite orb_true_iff, IH, Nat.eqb_eq. intuition congruence.
Qed.

Lemma memnat_false x l : memnat x l = false <-> ~ In x l.
Proof. rewrite <- memnat_In. destruct (memnat x l); split; congruence. Qed.

Lemma nodupnat_NoDup l : nodupnat l = true <-> NoDup l.
Proof.
  induction l as [|x r IH]; cbn; [split; [constructor|auto]|].
  rewrite andb_true_iff, negb_true_iff, memnat_false, IH. split.
  - intros [H1 H2]; constructor; auto.
  - intros H; inv H; auto.
Qed.

Lemma is_perm_spec a b :
  is_perm a b = true -> NoDup b -> NoDup a /\ forall i, In i a <-> In i b.
Proof.
  unfold is_perm. rewrite !andb_true_iff, nodupnat_NoDup, Nat.eqb_eq, forallb_forall.
  intros [[Ha Hl] Hs] Hb. split; [auto|].
  assert (Hincl : incl a b) by (intros i Hi; apply memnat_In, Hs, Hi).
  intros i; split; [apply Hincl|].
  apply NoDup_length_incl; auto. lia.
Qed.

(* ---------------------------------------------------------------- wrap32s *)
Definition I32 : Z := 2147483648.

Lemma wrap32s_small z : - I32 <= z < I32 -> wrap32s z = z.
Proof.
  unfold wrap32s, W32, I32. intros H.
  rewrite Z.mod_small by lia. lia.
Qed.

Lemma wrap32s_range z : - I32 <= wrap32s z < I32.
Proof.
  unfold wrap32s, W32, I32.
  pose proof (Z.mod_pos_bound (z + 2147483648) 4294967296 ltac:(lia)). lia.
Qed.

Lemma wrap32s_add z d : wrap32s (wrap32s z + d) = wrap32s (z + d).
Proof.
  unfold wrap32s, W32. f_equal.
  replace ((z + 2147483648) mod 4294967296 - 2147483648 + d + 2147483648)
    with ((z + 2147483648) mod 4294967296 + d) by lia.
  rewrite Z.add_mod_idemp_l by lia. f_equal. lia.
Qed.

(* ---------------------------------------------------------------- rekey / del_values *)
Lemma akeys_rekey m a b : akeys (rekey m a b) = akeys m.
Proof.
  unfold akeys, rekey. rewrite map_map. apply map_ext. intros [k v]; cbn.
  destruct (N.eqb v a); reflexivity.
Qed.

Lemma aget_rekey m a b k :
  aget (rekey m a b) k = option_map (fun c => if N.eqb c a then b else c) (aget m k).
Proof.
  induction m as [|[k0 v0] r IH]; cbn; [reflexivity|].
  destruct (N.eqb v0 a) eqn:E; cbn; destruct (N.eqb k0 k); cbn; auto; rewrite E; reflexivity.
Qed.

Lemma length_rekey m a b : length (rekey m a b) = length m.
Proof. apply map_length. Qed.

Lemma aget_del_values m v k c :
  NoDup (akeys m) -> (aget (del_values m v) k = Some c <-> aget m k = Some c /\ c <> v).
Proof.
  intros ND. unfold del_values. rewrite aget_filter_Some by auto. cbn.
  destruct (N.eqb_spec c v); cbn; intuition congruence.
Qed.

Lemma NoDup_akeys_del_values m v : NoDup (akeys m) -> NoDup (akeys (del_values m v)).
Proof. apply NoDup_akeys_filter. Qed.

(* ---------------------------------------------------------------- ready set *)
Definition ready_of (st : list (N * cstate)) (refs : list (N * nat)) : list nat :=
  flat_map (fun kv => if cstate_eqb (snd kv) Ready
                      then match aget refs (fst kv) with Some i => [i] | None => [] end
                      else []) st.

Lemma ready_slots_eq s : ready_slots s = ready_of (b_scstates s) (b_screfs s).
Proof. reflexivity. Qed.

Lemma In_ready_of st refs i :
  In i (ready_of st refs) <-> exists c, In (c, Ready) st /\ aget refs c = Some i.
Proof.
  unfold ready_of. rewrite in_flat_map. split.
  - intros [[c x] [H1 H2]]. cbn in H2. destruct (cstate_eqb_spec x Ready) as [->|]; [|destruct H2].
    destruct (aget refs c) as [j|] eqn:E; [|destruct H2]. destruct H2 as [->|[]]. eauto.
  - intros [c [H1 H2]]. exists (c, Ready). split; [auto|]. cbn. rewrite H2. cbn; auto.
Qed.

Definition is_ready (st : list (N * cstate)) (refs : list (N * nat)) (i : nat) : Prop :=
  exists c, aget st c = Some Ready /\ aget refs c = Some i.

Lemma In_ready_of_aget st refs i :
  NoDup (akeys st) -> (In i (ready_of st refs) <-> is_ready st refs i).
Proof.
  intros ND. rewrite In_ready_of. unfold is_ready.
  split; intros [c [H1 H2]]; exists c; split; auto; [apply In_aget|apply aget_In]; auto.
Qed.

(* the ready list has no duplicates when the key->slot map is injective *)
Lemma NoDup_ready_of st refs :
  NoDup (akeys st) ->
  (forall c c' i, aget refs c = Some i -> aget refs c' = Some i -> c = c') ->
  NoDup (ready_of st refs).
Proof.
  intros ND Hinj. unfold ready_of. induction st as [|[c x] r IH]; cbn; [constructor|].
  inv ND. specialize (IH H2).
  destruct (cstate_eqb x Ready); cbn; auto.
  destruct (aget refs c) as [i|] eqn:E; cbn; auto.
  constructor; auto. intros Hin. apply In_ready_of in Hin. destruct Hin as [c' [H3 H4]].
  assert (c' = c) by (eapply Hinj; eauto). subst. apply H1. eapply In_keys; eauto.
Qed.

(* ---------------------------------------------------------------- least-busy scan *)
Lemma least_busy_from_spec s l best :
  let r := least_busy_from s best l in
  (r = best \/ In r l) /\ streams_of s r <= streams_of s best /\
  forall j, In j l -> streams_of s r <= streams_of s j.
Proof.
  revert best; induction l as [|i l IH]; intros best; cbn.
  - split; [auto|split; [lia|tauto]].
  - destruct (Z.ltb_spec (streams_of s i) (streams_of s best)) as [Hlt|Hge].
    + destruct (IH i) as [H1 [H2 H3]]. split; [|split].
      * destruct H1; auto.
      * lia.
      * intros j [<-|Hj]; auto.
    + destruct (IH best) as [H1 [H2 H3]]. split; [|split].
      * destruct H1; auto.
      * lia.
      * intros j [<-|Hj]; [lia|auto].
Qed.

Lemma leastBusy_spec s refs i :
  leastBusy s refs = Some i ->
  In i refs /\ forall j, In j refs -> streams_of s i <= streams_of s j.
Proof.
  destruct refs as [|a l]; cbn; [discriminate|]. intros H; inv H.
  destruct (least_busy_from_spec s l a) as [H1 [H2 H3]]. split.
  - destruct H1; auto.
  - intros j [<-|Hj]; auto.
Qed.

Lemma leastBusy_None s refs : leastBusy s refs = None <-> refs = [].
Proof. destruct refs; cbn; split; congruence. Qed.

(* streams_of / leastBusy only look at the slots *)
Lemma least_busy_from_ext s s' l best :
  b_slots s = b_slots s' -> least_busy_from s best l = least_busy_from s' best l.
Proof.
  intros H. revert best; induction l as [|i l IH]; intros best; cbn; auto.
  unfold streams_of, get_slot. rewrite H. destruct (_ <? _); auto.
Qed.

Lemma leastBusy_ext s s' refs : b_slots s = b_slots s' -> leastBusy s refs = leastBusy s' refs.
Proof. intros H. destruct refs; cbn; auto. f_equal. apply least_busy_from_ext, H. Qed.

(* ---------------------------------------------------------------- modular counters *)
Lemma mod_dec x : 0 < x -> ((x mod W64) + (W64 - 1)) mod W64 = (x - 1) mod W64.
Proof.
  intros _. unfold W64.
  rewrite Z.add_mod_idemp_l by lia.
  replace (x + (18446744073709551616 - 1)) with (x - 1 + 1 * 18446744073709551616) by lia.
  apply Z_mod_plus_full.
Qed.

Lemma mod_dec' x : ((x mod W64) + (W64 - 1)) mod W64 = (x - 1) mod W64.
Proof.
  unfold W64.
  rewrite Z.add_mod_idemp_l by lia.
  replace (x + (18446744073709551616 - 1)) with (x - 1 + 1 * 18446744073709551616) by lia.
  apply Z_mod_plus_full.
Qed.

Lemma mod_inc x : ((x mod W64) + 1) mod W64 = (x + 1) mod W64.
Proof. unfold W64. rewrite Z.add_mod_idemp_l by lia. reflexivity. Qed.

Lemma mod_mod64 x : (x mod W64) mod W64 = x mod W64.
Proof. unfold W64. apply Z.mod_mod. lia. Qed.

(* ---------------------------------------------------------------- NoDup and positions *)
Lemma NoDup_nth_error_inj {A} (l : list A) i j x :
  NoDup l -> nth_error l i = Some x -> nth_error l j = Some x -> i = j.
Proof.
  intros ND Hi Hj. apply (proj1 (NoDup_nth_error l) ND).
  - eapply nth_error_Some_lt, Hi.
  - congruence.
Qed.

Lemma NoDup_upd_nth_fresh {A} (l : list A) i x :
  NoDup l -> ~ In x l -> NoDup (upd_nth i (fun _ => x) l).
Proof.
  revert i; induction l as [|y r IH]; intros [|i] ND Hn; cbn; auto.
  - inv ND. constructor; auto. cbn in Hn. tauto.
  - inv ND. cbn in Hn. constructor; [|apply IH; tauto].
    intros Hin. apply In_upd_nth in Hin. destruct Hin as [Hin|[z [_ E]]]; [tauto|]. subst; tauto.
Qed.

Lemma In_upd_nth_const {A} (l : list A) i x y :
  In y (upd_nth i (fun _ => x) l) -> In y l \/ y = x.
Proof. intros H. apply In_upd_nth in H. destruct H as [H|[z [_ H]]]; auto. Qed.

Lemma In_upd_nth_other {A} (l : list A) i (f : A -> A) y :
  In y l -> nth_error l i <> Some y -> In y (upd_nth i f l).
Proof.
  intros Hin Hne. apply In_nth_error in Hin. destruct Hin as [j Hj].
  apply nth_error_In with (n := j). rewrite nth_error_upd_nth_neq; auto. congruence.
Qed.

Lemma upd_nth_fix {A} (l : list A) i (g : A -> A) x :
  nth_error l i = Some x -> g x = x -> upd_nth i g l = l.
Proof.
  revert i; induction l as [|y r IH]; intros [|i]; cbn; try discriminate.
  - intros E; inv E. intros ->. reflexivity.
  - intros E Hg. rewrite (IH _ E Hg). reflexivity.
Qed.
