(* Engine A proofs: C08 (fallback).
   State part: every entry of the stand-in table names a READY pool connection.
   Event part (fallback_to_ready on, BOUND/UNBIND call carrying a bound key):
   a Pick never changes the binding table; home READY: the call goes home (as in
   C01); home not READY, most recent picker: a recorded stand-in is used again,
   otherwise the call is placed on a READY connection which is recorded as the
   stand-in, unless no channel is READY; home not READY, stale picker: if the
   call is placed, it is on a READY connection. *)
From GV Require Import Base.AListFacts Pool.Model Pool.Observe Pool.Monitors
                       Pool.Lemmas Pool.Inv Pool.Inv2 Pool.Frames Pool.Sim Pool.SimHome
                       Pool.InvC04 Pool.InvC06 Pool.Reduce Pool.LegalRun Pool.PickFacts Pool.InvC09
                       Pool.KeyedFacts Pool.InvC01.
From Coq Require Import Lia ZifyBool.
Open Scope Z_scope.

(* ================================================================ the state clause *)
Lemma c08_state_holds s : Inv s -> c08_state (observe s) = true.
Proof.
  intros HI. pose proof HI as (HK & HF & _). unfold c08_state. cbn [observe o_fb].
  rewrite forallb_asort. apply forallb_forall. intros [k c] Hin. cbn [snd].
  apply (In_aget _ _ _ (nd_fb HF)) in Hin. destruct (fb_ok HF _ _ Hin) as [[j Hj] Hr].
  rewrite o_conn_ready_observe by exact HK. unfold conn_state. rewrite Hr.
  cbn [observe o_refs]. rewrite aget_asort by apply (nd_screfs HK). rewrite Hj. reflexivity.
Qed.

(* ================================================================ a Pick never changes the binding table *)
Lemma list_eqb_nn_refl l : list_eqb nn_eqb l l = true.
Proof.
  induction l as [|[a b] r IH]; cbn [list_eqb]; [reflexivity|].
  unfold nn_eqb at 1. cbn [fst snd]. rewrite !N.eqb_refl, IH. reflexivity.
Qed.

Lemma full_step_pick_aff raw s pi m hc rk dl cc order s' outs rt ub :
  Inv s -> full_step raw s (OpPick pi m hc rk dl cc) order = (s', outs, rt, ub) -> b_aff s' = b_aff s.
Proof.
  intros HI. rewrite full_step_eq.
  destruct (step raw s (OpPick pi m hc rk dl cc) order) as [[s1 outs1] r1] eqn:Es.
  destruct (resolve_blocked s1) as [s2 ub2] eqn:Er. intros E; inv E.
  destruct (step_Inv _ _ _ _ _ _ _ HI Es) as [HI1 _].
  destruct (resolve_blocked_spec _ _ _ HI1 Er) as [_ [Hm _]].
  apply (f_equal b_aff) in Hm. cbn in Hm. rewrite Hm.
  pose proof (step_aff_other _ _ _ _ _ _ _ HI Es) as [Ha _]. exact Ha.
Qed.

(* ================================================================ the event clause *)
Lemma standin_ready_slot s k sc2 :
  Inv s -> aget (b_fb s) k = Some sc2 ->
  conn_state s sc2 = Ready /\ exists j, In j (ready_slots s).
Proof.
  intros (HK & HF & _) Hfb. destruct (fb_ok HF _ _ Hfb) as [[j Hj] Hr].
  split; [unfold conn_state; rewrite Hr; reflexivity|].
  exists j. apply (is_ready_iff s HK). exists sc2. auto.
Qed.

Lemma no_ready_no_snap s : Inv s -> (forall i, ~ In i (ready_slots s)) -> forall a l, b_picker s <> PSnap (a :: l).
Proof.
  intros (_ & _ & HP & _) Hno a l Ep. destruct (snap_ready HP _ Ep) as [_ Hr].
  apply (Hno a). rewrite ready_slots_eq. apply Hr. left; reflexivity.
Qed.

(* the part of c08_event below the two unconditional conjuncts *)
Definition c08_route (ms : mstate) (before : obs) (rt : ret) (pi : nat) (k : N) (i : nat) (after : obs) : bool :=
  if o_slot_ready before i then
    (if ret_is_picked rt then ret_picked_eq rt (conn_of_slot before i) else true) &&
    (if is_latest ms pi then ret_picked_eq rt (conn_of_slot before i) else true)
  else if is_latest ms pi then
    match aget (o_fb before) k with
    | Some sc => ret_picked_eq rt (Some sc)
    | None =>
        match o_ready_slots before with
        | [] => negb (ret_is_picked rt)
        | _ => match rt with
               | RPicked n => o_conn_ready before n &&
                              match aget (o_fb after) k with Some sc => N.eqb sc n | None => false end
               | _ => false
               end
        end
    end
  else match rt with
       | RPicked n => o_conn_ready before n
       | _ => true
       end.

Lemma c08_route_holds s ms pi pk m hc rk dl cc s1 s' outs rt k sc i :
  Inv s -> Inv s' -> Sim_pubs s ms -> pool_small s ->
  nth_error (b_published s) pi = Some pk ->
  Pick s pi pk m hc rk dl cc = (s1, outs, rt) -> b_fb s' = b_fb s1 ->
  cmd_eqb (pick_cmd0 s m) BIND && cfg_rr s = false ->
  pick_keyres s m hc rk = Some k -> k <> 0%N ->
  aget (b_aff s) k = Some sc -> nth_error (conns s) i = Some sc -> cfg_fallback s = true ->
  c08_route ms (observe s) rt pi k i (observe s') = true.
Proof.
  intros HI HI' HSp Hsm Ep EP Hfb' Hflag Ek Hk0 Haff Hsc Ef. unfold c08_route.
  assert (Hpub : b_published s <> []) by (eapply nth_error_nonnil, Ep).
  rewrite (o_slot_ready_observe s i sc (proj1 HI) Hsc), conn_of_slot_observe, Hsc.
  destruct (cstate_eqb_spec (conn_state s sc) Ready) as [Er|Er].
  - (* home READY *)
    destruct (keyed_home_ready s pi pk m hc rk dl cc s1 outs rt k sc i HI Ep EP Hflag Ek Hk0 Haff Hsc Er)
      as [H1 [H2 _]].
    apply goes_home_check; [exact H1|]. intros Hl. apply H2.
    rewrite (latest_is_picker s ms pi pk HI HSp Ep Hl).
    apply (ready_picker_snap s i HI Hsm Hpub).
    eapply slot_ready_in_ready_slots; eauto. apply HI.
  - cbn [observe o_fb]. rewrite aget_asort by apply (nd_fb (proj1 (proj2 HI))).
    destruct (is_latest ms pi) eqn:Hl.
    + (* most recent picker *)
      pose proof (latest_is_picker s ms pi pk HI HSp Ep Hl) as Hpk.
      destruct (aget (b_fb s) k) as [sc2|] eqn:Efb.
      * destruct (standin_ready_slot s k sc2 HI Efb) as [_ [j Hj]].
        destruct (keyed_standin s pi pk m hc rk dl cc s1 outs rt k sc HI Ep EP Hflag Ek Hk0 Haff sc2 Er Ef Efb)
          as [_ [H2 _]].
        rewrite H2; [cbn; apply N.eqb_refl|]. rewrite Hpk. apply (ready_picker_snap s j HI Hsm Hpub Hj).
      * destruct (keyed_new_standin s pi pk m hc rk dl cc s1 outs rt k sc HI Ep EP Hflag Ek Hk0 Haff Er Ef Efb)
          as [H1 [H2 H3]].
        destruct (o_ready_slots (observe s)) as [|x xs] eqn:Ers.
        -- rewrite H3; [reflexivity|]. apply no_ready_no_snap; [exact HI|].
           intros j Hj. apply (In_o_ready_slots s j (proj1 HI)) in Hj. rewrite Ers in Hj. destruct Hj.
        -- assert (Hx : In x (ready_slots s)).
           { apply (In_o_ready_slots s x (proj1 HI)). rewrite Ers. left; reflexivity. }
           pose proof (ready_picker_snap s x HI Hsm Hpub Hx) as Hsnap.
           assert (Hp : ret_is_picked rt = true) by (apply H2; [rewrite Hpk|]; exact Hsnap).
           destruct rt; try discriminate Hp. destruct (H1 n eq_refl) as [Hr Hnew].
           rewrite o_conn_ready_observe by apply HI. rewrite Hr. cbn [cstate_eqb andb].
           rewrite aget_asort by apply (nd_fb (proj1 (proj2 HI'))). rewrite Hfb', Hnew. apply N.eqb_refl.
    + (* a stale picker *)
      destruct rt; try reflexivity. rewrite o_conn_ready_observe by apply HI.
      destruct (aget (b_fb s) k) as [sc2|] eqn:Efb.
      * destruct (keyed_standin s pi pk m hc rk dl cc s1 outs (RPicked n) k sc HI Ep EP Hflag Ek Hk0 Haff sc2 Er Ef Efb)
          as [H1 _].
        specialize (H1 eq_refl). inv H1.
        destruct (standin_ready_slot s k sc2 HI Efb) as [Hr _]. rewrite Hr. reflexivity.
      * destruct (keyed_new_standin s pi pk m hc rk dl cc s1 outs (RPicked n) k sc HI Ep EP Hflag Ek Hk0 Haff Er Ef Efb)
          as [H1 _].
        destruct (H1 n eq_refl) as [Hr _]. rewrite Hr. reflexivity.
Qed.

Lemma c08_event_holds raw s ms o order s' outs rt ub :
  Inv s -> Sim s ms -> rt <> RBadOp -> pool_small s ->
  full_step raw s o order = (s', outs, rt, ub) ->
  c08_event (raw_in_force raw ms o) ms (observe s) (mkEvent o outs rt ub (Some (observe s'))) (observe s') = true.
Proof.
  intros HI (HSp & HSc & _ & _ & _ & HSh) Hrt Hsm E.
  destruct (full_step_Inv _ _ _ _ _ _ _ _ HI E) as [HI' _].
  unfold c08_event. cbn [ev_op ev_ret]. rewrite (c08_state_holds s' HI'). cbn [andb].
  destruct o as [addrs a| |sc0 st|pi m hc rk dl cc|j oc rk2|dt|j|f|g|k0]; try reflexivity.
  cbn [observe o_aff]. rewrite (full_step_pick_aff _ _ _ _ _ _ _ _ _ _ _ _ _ HI E), list_eqb_nn_refl. cbn [andb].
  rewrite full_step_eq in E.
  destruct (step raw s (OpPick pi m hc rk dl cc) order) as [[s1 outs1] r1] eqn:Es.
  destruct (resolve_blocked s1) as [s2 ub2] eqn:Er. inv E.
  destruct (step_Inv _ _ _ _ _ _ _ HI Es) as [HI1 _].
  destruct (resolve_blocked_spec _ _ _ HI1 Er) as [_ [Hm _]].
  apply (f_equal b_fb) in Hm. cbn in Hm.
  destruct (step_pick_legal _ _ _ _ _ _ _ _ _ _ _ _ Es Hrt) as [pk [Ep EP]].
  destruct (cfg_of_pubs _ _ _ HI Ep) as [c Hcfg].
  destruct (pick_fields_link raw s ms (OpPick pi m hc rk dl cc) c m hc rk HSc Hcfg) as (L1&_&L3&_).
  rewrite L1, L3, (cfg_fallback_link raw s ms _ c HSc Hcfg).
  destruct (cfg_fallback s) eqn:Ef; [|reflexivity]. cbn [andb].
  destruct (cmd_eqb (pick_cmd0 s m) BOUND || cmd_eqb (pick_cmd0 s m) UNBIND) eqn:Ecmd; [|reflexivity].
  pose proof (not_bind_flag s m Ecmd) as Hflag.
  destruct (pick_keyres s m hc rk) as [k|] eqn:Ek; [|reflexivity].
  destruct (N.eqb_spec k 0) as [|Hk0]; [reflexivity|].
  destruct (aget (ms_home ms) k) as [i|] eqn:Eh; [|reflexivity].
  destruct (home_slot s ms k i HSh Eh) as [sc [Hsc Haff]].
  apply (c08_route_holds s ms pi pk m hc rk dl cc s1 s' outs rt k sc i); auto.
Qed.

(* ================================================================ the per-event check and the theorem *)
Lemma c08_check raw s ms o order s' outs rt ub :
  Inv s -> Quiescent s -> Sim s ms -> rt <> RBadOp -> pool_small s ->
  full_step raw s o order = (s', outs, rt, ub) ->
  event_ok P08 raw ms (observe s) (mkEvent o outs rt ub (Some (observe s'))) = true.
Proof. intros HI _ HS Hrt Hsm E. cbn [event_ok ev_obs ev_op]. eapply c08_event_holds; eauto. Qed.

Theorem C08_holds_proof raw ops :
  legal raw ops -> run_inv raw pool_small ops ->
  monitor P08 raw (observe init_bal) (run raw init_bal ops) = true.
Proof. apply (monitor_legal_run_inv P08 raw pool_small). intros. eapply c08_check; eauto. Qed.
