(* Engine A proofs: harness-legal histories.  A history is legal when the model
   answers none of its operations with RBadOp (the harness never refers to a
   picker, pick or parked call that does not exist, never completes a call that
   is still waiting, never re-enters a picker whose mutex a parked call holds).
   This is the guard of [SimHome.monitor_legal]; C01, C08 and C09 are stated
   under it. *)
From GV Require Import Pool.Model Pool.Observe Pool.Monitors Pool.Inv Pool.Reduce Pool.SimHome.

Definition legal (raw : option config) (ops : list (op * list nat)) : Prop :=
  Forall (fun ev => ev_ret ev <> RBadOp) (run raw init_bal ops).

(* a state predicate that holds in every state of the run *)
Definition run_inv (raw : option config) (P : bal -> Prop) (ops : list (op * list nat)) : Prop :=
  Forall P (run_states raw init_bal ops).

Lemma legal_states_guarded raw (P : bal -> Prop) : forall ops s,
  Forall (fun ev => ev_ret ev <> RBadOp) (run raw s ops) ->
  Forall P (run_states raw s ops) ->
  Reduce.guarded raw (legal_step raw (fun s _ _ => P s)) s ops.
Proof.
  induction ops as [|[o order] r IH]; intros s H1 H2; cbn; [exact I|].
  cbn in H1, H2. unfold legal_step.
  destruct (full_step raw s o order) as [[[s' outs] rt] ub].
  inversion H1; subst. inversion H2; subst.
  split; [split; assumption|apply IH; assumption].
Qed.

(* the two reductions used by the property proofs *)
Section LegalRun.
  Variable pid : prop_id.
  Variable raw : option config.

  Theorem monitor_legal_run :
    (forall s ms o order s' outs rt ub,
       Inv s -> Quiescent s -> Sim s ms -> rt <> RBadOp ->
       full_step raw s o order = (s', outs, rt, ub) ->
       event_ok pid raw ms (observe s) (mkEvent o outs rt ub (Some (observe s'))) = true) ->
    forall ops, legal raw ops -> monitor pid raw (observe init_bal) (run raw init_bal ops) = true.
  Proof.
    intros check ops HL.
    apply (monitor_legal pid raw (fun _ _ _ => True)).
    - intros s ms o order s' outs rt ub HI HQ HS Hrt _ E. eapply check; eauto.
    - apply legal_of_run, HL.
  Qed.

  Theorem monitor_legal_run_inv (P : bal -> Prop) :
    (forall s ms o order s' outs rt ub,
       Inv s -> Quiescent s -> Sim s ms -> rt <> RBadOp -> P s ->
       full_step raw s o order = (s', outs, rt, ub) ->
       event_ok pid raw ms (observe s) (mkEvent o outs rt ub (Some (observe s'))) = true) ->
    forall ops, legal raw ops -> run_inv raw P ops ->
                monitor pid raw (observe init_bal) (run raw init_bal ops) = true.
  Proof.
    intros check ops HL HP.
    apply (monitor_legal pid raw (fun s _ _ => P s)).
    - intros s ms o order s' outs rt ub HI HQ HS Hrt Hp E. eapply check; eauto.
    - apply legal_states_guarded; assumption.
  Qed.
End LegalRun.

(* legality is decidable on a concrete history *)
Definition legalb (raw : option config) (ops : list (op * list nat)) : bool :=
  forallb (fun ev => negb (ret_eqb (ev_ret ev) RBadOp)) (run raw init_bal ops).

Lemma legalb_legal raw ops : legalb raw ops = true -> legal raw ops.
Proof.
  unfold legalb, legal. intros H. apply Forall_forall. intros ev Hin.
  rewrite forallb_forall in H. specialize (H ev Hin). intros E. rewrite E in H. discriminate H.
Qed.
