(* Engine A proofs: C02 (load spreading).  A call routed by load goes to a
   least-busy channel of the picker's snapshot, and every channel's stream
   counter equals the number of outstanding calls placed on it. *)
From GV Require Import Base.AListFacts Pool.Model Pool.Observe Pool.Monitors
                       Pool.Lemmas Pool.Inv Pool.Inv2 Pool.Frames Pool.Sim Pool.SimW Pool.Reduce.
From Coq Require Import Lia ZifyBool.
Open Scope Z_scope.

(* ---------------------------------------------------------------- the census of placed picks *)
Lemma count_placed_mirror picks i : count_placed (map mpick_of picks) i = count_placed_on picks i.
Proof.
  unfold count_placed, count_placed_on. f_equal.
  induction picks as [|p r IH]; cbn [map filter]; [reflexivity|].
  change (match mp_status (mpick_of p) with PPlaced => Nat.eqb (mp_slot (mpick_of p)) i | _ => false end)
    with (placed_on i p).
  destruct (placed_on i p); cbn [length]; rewrite IH; reflexivity.
Qed.

Lemma count_placed_on_le picks i : count_placed_on picks i <= Z.of_nat (length picks).
Proof. unfold count_placed_on. pose proof (filter_length_le (placed_on i) picks). lia. Qed.

Definition picks_ok (s : bal) : Prop := Z.of_nat (length (b_picks s)) < I32.

Lemma c02_state_holds s ms : Inv s -> SimPw s ms -> picks_ok s -> c02_state ms (observe s) = true.
Proof.
  intros HI HP Hg. unfold c02_state. apply forallb_forall. intros i Hi. apply in_seq in Hi.
  cbn [observe o_slots] in Hi. destruct (nth_error_lt_Some (b_slots s) i ltac:(lia)) as [sl Hs].
  unfold o_streams, o_slot. cbn [observe o_slots]. rewrite Hs. rewrite (count_placed_rel _ _ i HP).
  destruct HI as (_&_&_&_&_&HS).
  assert (Hz : nth_error (streamsv s) i = Some (sl_streams sl)) by (apply nth_error_map_Some; eauto).
  rewrite (streams_ok HS _ _ Hz). apply Z.eqb_eq. apply wrap32s_small.
  pose proof (count_placed_on_le (b_picks s) i). unfold picks_ok, count_placed_on, I32 in *. lia.
Qed.

(* ---------------------------------------------------------------- a call routed by load *)
Lemma leastBusyDecision_least s refs i : leastBusyDecision s refs = LBPlaced i -> leastBusy s refs = Some i.
Proof.
  unfold leastBusyDecision. destruct (leastBusy s refs) as [j|]; [|discriminate].
  destruct (_ <? _); [intros H; inv H; auto|]. destruct (_ || _); [discriminate|intros H; inv H; auto].
Qed.

Lemma Pick_by_load s pi pk method hasctx reqkeys deadline cancelled s1 o n k :
  Inv s -> nth_error (b_published s) pi = Some pk ->
  Pick s pi pk method hasctx reqkeys deadline cancelled = (s1, o, RPicked n) ->
  cmd_eqb (pick_cmd0 s method) BIND && cfg_rr s = false ->
  pick_keyres s method hasctx reqkeys = Some k ->
  (k = 0%N \/ aget (b_aff s) k = None) ->
  exists refs i, pk = PSnap refs /\ leastBusy s refs = Some i /\ nth_error (conns s) i = Some n.
Proof.
  intros HI Hpk. rewrite Pick_eq. intros E Hrr Hk Hload.
  destruct pk as [[|]|[|a l]]; try discriminate.
  rewrite Hk, Hrr in E. unfold pick_lb in E.
  assert (Hd : pick_dec s k (a :: l) = (s, leastBusyDecision s (a :: l))).
  { unfold pick_dec. destruct (N.eqb_spec k 0) as [->|Hk0]; [reflexivity|]. cbn [negb].
    destruct Hload as [->|Ha]; [congruence|]. unfold getReadySubConnRef. rewrite Ha. reflexivity. }
  rewrite Hd in E. destruct (leastBusyDecision s (a :: l)) as [i| |] eqn:El.
  - apply leastBusyDecision_least in El. exists (a :: l), i. split; [reflexivity|split; [exact El|]].
    destruct (get_slot s i) as [sl|] eqn:Es; [|discriminate]. inv E.
    apply nth_error_map_Some. eauto.
  - destruct (b_gate s); [discriminate|]. destruct (newSubConn s); discriminate.
  - discriminate.
Qed.

(* ---------------------------------------------------------------- the step *)
Definition Sim02 (s : bal) (ms : mstate) : Prop := Sim_pubs s ms /\ Sim_cfg s ms /\ SimPw s ms.

Definition guard02 (raw : option config) (s : bal) (o : op) (order : list nat) : Prop :=
  let '(s', _, _, _) := full_step raw s o order in picks_ok s'.

Lemma c02_event_holds raw s ms o order s' outs rt ub :
  Inv s -> Sim02 s ms -> full_step raw s o order = (s', outs, rt, ub) ->
  c02_event (raw_in_force raw ms o) ms (observe s) (mkEvent o outs rt ub (Some (observe s'))) = true.
Proof.
  intros HI (HSp & HSc & HSP) E. unfold c02_event. cbn [ev_op ev_ret].
  destruct o as [addrs a| |sc st|pi m hc rk dl cc|j oc rk2|dt|j|f|g|k]; try reflexivity.
  destruct rt; try reflexivity.
  destruct (by_load _ _ m hc rk) eqn:Ebl; [|reflexivity].
  rewrite full_step_eq in E. cbn [step] in E.
  destruct (nth_error (b_published s) pi) as [pk|] eqn:Ep.
  2:{ destruct (resolve_blocked s); discriminate. }
  destruct (_ && _) eqn:Epark.
  { destruct (resolve_blocked s); discriminate. }
  destruct (Pick s pi pk m hc rk dl cc) as [[s1 o1] r1] eqn:EP.
  destruct (resolve_blocked s1) as [s2 ub2]. inv E.
  assert (Hcfg : exists c, b_cfg s = Some c).
  { destruct (b_cfg s) eqn:Ec; [eauto|]. exfalso.
    eapply InvG_cfg_pubs; [apply HI|eapply nth_error_nonnil, Ep|exact Ec]. }
  destruct Hcfg as [c Hcfg].
  destruct (pick_fields_link raw s ms (OpPick pi m hc rk dl cc) c m hc rk HSc Hcfg) as (L1&L2&L3&L4).
  unfold by_load in Ebl. rewrite L3, L4 in Ebl. apply andb_true_iff in Ebl. destruct Ebl as [B1 B2].
  apply negb_true_iff in B1.
  destruct (pick_keyres s m hc rk) as [k0|] eqn:Ek; [|discriminate].
  assert (Hload : k0 = 0%N \/ aget (b_aff s) k0 = None).
  { apply orb_true_iff in B2. destruct B2 as [B2|B2]; [left; apply N.eqb_eq, B2|right].
    cbn [observe o_aff] in B2. rewrite aget_asort in B2 by apply (nd_aff (proj1 HI)).
    destruct (aget (b_aff s) k0); [discriminate|reflexivity]. }
  destruct (Pick_by_load _ _ _ _ _ _ _ _ _ _ _ _ HI Ep EP B1 Ek Hload) as [refs [i [-> [Hl Hi]]]].
  unfold nth_picker. destruct HSp as [HSp _]. rewrite HSp, Ep.
  rewrite (o_slot_of_conn_spec s i n (proj1 HI) Hi).
  apply leastBusy_spec in Hl. destruct Hl as [Hin Hmin].
  apply andb_true_iff. split; [apply memnat_In, Hin|].
  apply forallb_forall. intros j Hj. apply Z.leb_le. apply (Hmin j Hj).
Qed.

Lemma C02_step raw s ms o order s' outs rt ub :
  Inv s -> Sim02 s ms -> guard02 raw s o order ->
  full_step raw s o order = (s', outs, rt, ub) ->
  let ev := mkEvent o outs rt ub (Some (observe s')) in
  Inv s' /\ Sim02 s' (track raw ms (observe s) ev (observe s')) /\
  event_ok P02 raw ms (observe s) ev = true.
Proof.
  intros HI HS HG E. unfold guard02 in HG. rewrite E in HG. pose proof HG as Hpk. cbv zeta.
  destruct (full_step_Inv _ _ _ _ _ _ _ _ HI E) as [HI' _].
  pose proof HS as (HSp & HSc & HSP).
  assert (HS' : Sim02 s' (track raw ms (observe s) (mkEvent o outs rt ub (Some (observe s'))) (observe s'))).
  { split; [eapply Sim_pubs_step; eauto|split; [eapply Sim_cfg_step; eauto|eapply SimPw_step; eauto]]. }
  split; [exact HI'|split; [exact HS'|]].
  cbn [event_ok ev_obs ev_op]. apply andb_true_iff. split.
  - eapply c02_event_holds; eauto.
  - apply c02_state_holds; [exact HI'|apply HS'|exact Hpk].
Qed.

Theorem C02_guarded raw ops :
  guarded raw (guard02 raw) init_bal ops ->
  monitor P02 raw (observe init_bal) (run raw init_bal ops) = true.
Proof.
  apply (monitor_run P02 raw Inv Sim02 (guard02 raw)).
  - intros. eapply C02_step; eauto.
  - exact Inv_init.
  - split; [exact Sim_pubs_init|split; [exact Sim_cfg_init|exact SimPw_init]].
Qed.

(* guard in terms of the run: fewer than 2^31 picks (streamsCnt is an int32) *)
Theorem C02_holds_proof raw ops :
  Forall picks_ok (run_states raw init_bal ops) ->
  monitor P02 raw (observe init_bal) (run raw init_bal ops) = true.
Proof.
  intros H2. apply C02_guarded. apply guarded_states in H2. revert H2. apply guarded_impl.
  intros s o order [_ G2]. unfold guard02.
  destruct (full_step raw s o order) as [[[s' outs] rt] ub]. exact G2.
Qed.
