(* Engine A proofs: where a keyed (BOUND/UNBIND) call goes, shared by C01 and C08.
   The key k is bound to connection sc, the current connection of its home
   channel i.  The route is decided by getReadySubConnRef and does not depend on
   the picker used, beyond the early return of an error picker / empty snapshot. *)
From GV Require Import Base.AListFacts Pool.Model Pool.Observe Pool.Monitors
                       Pool.Lemmas Pool.Inv Pool.Inv2 Pool.Frames Pool.Sim Pool.SimHome
                       Pool.InvC04 Pool.InvC06 Pool.PickFacts.
From Coq Require Import Lia ZifyBool.
Open Scope Z_scope.

(* the pool holds fewer than 2^64 connections (the evaluator's counters are uint64) *)
Definition pool_small (s : bal) : Prop := Z.of_nat (length (b_scstates s)) < W64.

Definition nonempty_snap (pk : picker) : Prop := exists a l, pk = PSnap (a :: l).

Lemma nonempty_snap_dec pk : nonempty_snap pk \/ (forall a l, pk <> PSnap (a :: l)).
Proof.
  destruct pk as [t|[|a l]]; [right; intros; discriminate|right; intros; discriminate|left; exists a, l; reflexivity].
Qed.

(* once something is published and some pool channel is READY, gb.picker carries a non-empty snapshot *)
Lemma ready_picker_snap s i :
  Inv s -> pool_small s -> b_published s <> [] -> In i (ready_slots s) -> nonempty_snap (b_picker s).
Proof.
  intros HI Hsm Hpub Hi. pose proof HI as (HK & _ & HP & HC & _).
  destruct (pub_tf HP Hpub) as [Htf [Hne Hidle]].
  assert (Hst : b_state s = Ready).
  { rewrite (state_eval HC Hidle), (eval3_census s HC Hsm). unfold census3.
    apply (is_ready_iff s HK) in Hi. destruct Hi as [c [H1 _]].
    replace (existsb (fun kv => cstate_eqb (snd kv) Ready) (b_scstates s)) with true; [reflexivity|].
    symmetry. apply existsb_exists. exists (c, Ready). split; [apply aget_In, H1|reflexivity]. }
  destruct (b_picker s) as [[|]|refs] eqn:Ep.
  - exfalso. assert (b_state s = TransientFailure) by (apply Htf; reflexivity). congruence.
  - exfalso. apply Hne. reflexivity.
  - destruct (snap_ready HP refs Ep) as [_ Hr]. rewrite <- ready_slots_eq in Hr. apply Hr in Hi.
    destruct refs as [|a l]; [destruct Hi|]. exists a, l. reflexivity.
Qed.

Lemma slot_ready_in_ready_slots s i sc :
  InvK s -> nth_error (conns s) i = Some sc -> conn_state s sc = Ready -> In i (ready_slots s).
Proof.
  intros HK Hi Er. apply (is_ready_iff s HK). exists sc. split; [|apply conn_ready_screfs; auto].
  unfold conn_state in Er. destruct (aget (b_scstates s) sc) as [x|]; [congruence|discriminate].
Qed.

Section Keyed.
  Variables (s : bal) (pi : nat) (pk : picker) (m : N) (hc : bool) (rk : list N) (dl : option Z) (cc : bool).
  Variables (s1 : bal) (o : list out) (r : ret) (k sc : N) (i : nat).
  Hypothesis HI : Inv s.
  Hypothesis Hpk : nth_error (b_published s) pi = Some pk.
  Hypothesis EP : Pick s pi pk m hc rk dl cc = (s1, o, r).
  Hypothesis Hflag : cmd_eqb (pick_cmd0 s m) BIND && cfg_rr s = false.
  Hypothesis Hkey : pick_keyres s m hc rk = Some k.
  Hypothesis Hk0 : k <> 0%N.
  Hypothesis Haff : aget (b_aff s) k = Some sc.
  Hypothesis Hhome : nth_error (conns s) i = Some sc.

  (* home READY: the call goes home, whatever the picker; a picker with a snapshot does place it *)
  Lemma keyed_home_ready :
    conn_state s sc = Ready ->
    (ret_is_picked r = true -> r = RPicked sc) /\ (nonempty_snap pk -> r = RPicked sc) /\ b_fb s1 = b_fb s.
  Proof.
    intros Er.
    destruct (nonempty_snap_dec pk) as [[a [l ->]]|Hn].
    - pose proof (getReadySubConnRef_bound s k sc HI Haff) as Hg.
      remember (getReadySubConnRef s k) as g eqn:Eg. symmetry in Eg.
      destruct Hg as [H0|H0 H1|sc0 H0 H1 H2|refs i0 sl0 H0 H1 H2 H7 H8 H9|H0 H1 H2 H7]; try congruence.
      pose proof (Pick_keyed _ _ _ _ _ _ _ _ _ _ _ _ _ _ _ EP Hflag Hkey Hk0 Eg) as Hp.
      rewrite (conn_ready_screfs s i sc (proj1 HI) Hhome Er) in Hp.
      apply nth_error_map_Some in Hhome. destruct Hhome as [sl [Hs Hc]].
      unfold get_slot in Hp. rewrite Hs, Hc in Hp. destruct Hp as [-> Hfb]. auto.
    - destruct (Pick_unpicked _ _ _ _ _ _ _ _ _ _ _ Hn EP) as [Hr ->]. split; [congruence|split; [|reflexivity]].
      intros [a [l E]]. exfalso. eapply Hn, E.
  Qed.

  (* home not READY, fallback off: the call is not placed *)
  Lemma keyed_home_unready_nofb :
    conn_state s sc <> Ready -> cfg_fallback s = false -> ret_is_picked r = false.
  Proof.
    intros Er Ef.
    destruct (nonempty_snap_dec pk) as [[a [l ->]]|Hn].
    - pose proof (getReadySubConnRef_bound s k sc HI Haff) as Hg.
      remember (getReadySubConnRef s k) as g eqn:Eg. symmetry in Eg.
      destruct Hg as [H0|H0 H1|sc0 H0 H1 H2|refs i0 sl0 H0 H1 H2 H7 H8 H9|H0 H1 H2 H7]; try congruence.
      pose proof (Pick_keyed _ _ _ _ _ _ _ _ _ _ _ _ _ _ _ EP Hflag Hkey Hk0 Eg) as Hp.
      cbv beta iota in Hp. destruct Hp as [-> _]. reflexivity.
    - apply (Pick_unpicked _ _ _ _ _ _ _ _ _ _ _ Hn EP).
  Qed.

  (* home not READY, fallback on, a stand-in is recorded: a picker with a snapshot places the call there *)
  Lemma keyed_standin sc2 :
    conn_state s sc <> Ready -> cfg_fallback s = true -> aget (b_fb s) k = Some sc2 ->
    (ret_is_picked r = true -> r = RPicked sc2) /\ (nonempty_snap pk -> r = RPicked sc2) /\ b_fb s1 = b_fb s.
  Proof.
    intros Er Ef Efb.
    destruct (nonempty_snap_dec pk) as [[a [l ->]]|Hn].
    - pose proof (getReadySubConnRef_bound s k sc HI Haff) as Hg.
      remember (getReadySubConnRef s k) as g eqn:Eg. symmetry in Eg.
      destruct Hg as [H0|H0 H1|sc0 H0 H1 H2|refs i0 sl0 H0 H1 H2 H7 H8 H9|H0 H1 H2 H7]; try congruence.
      assert (sc0 = sc2) by congruence. subst sc0.
      pose proof (Pick_keyed _ _ _ _ _ _ _ _ _ _ _ _ _ _ _ EP Hflag Hkey Hk0 Eg) as Hp.
      destruct HI as (HK & HF & _).
      destruct (fb_ok HF _ _ Efb) as [[j Hj] _]. rewrite Hj in Hp.
      destruct (screfs_get_slot s HK _ _ Hj) as [sl [Hs Hc]]. rewrite Hs, Hc in Hp.
      destruct Hp as [-> Hfb]. auto.
    - destruct (Pick_unpicked _ _ _ _ _ _ _ _ _ _ _ Hn EP) as [Hr ->]. split; [congruence|split; [|reflexivity]].
      intros [a [l E]]. exfalso. eapply Hn, E.
  Qed.

  (* home not READY, fallback on, no stand-in yet: if the call is placed, it is on a READY pool
     connection which becomes the key's stand-in; with a snapshot in gb.picker and in the
     picker used it is placed *)
  Lemma keyed_new_standin :
    conn_state s sc <> Ready -> cfg_fallback s = true -> aget (b_fb s) k = None ->
    (forall n, r = RPicked n -> conn_state s n = Ready /\ aget (b_fb s1) k = Some n) /\
    (nonempty_snap pk -> nonempty_snap (b_picker s) -> ret_is_picked r = true) /\
    ((forall a l, b_picker s <> PSnap (a :: l)) -> ret_is_picked r = false).
  Proof.
    intros Er Ef Efb.
    destruct (nonempty_snap_dec pk) as [[a [l ->]]|Hn].
    - pose proof (getReadySubConnRef_bound s k sc HI Haff) as Hg.
      remember (getReadySubConnRef s k) as g eqn:Eg. symmetry in Eg.
      destruct Hg as [H0|H0 H1|sc0 H0 H1 H2|refs i0 sl0 H0 H1 H2 H7 H8 H9|H0 H1 H2 H7]; try congruence;
        pose proof (Pick_keyed _ _ _ _ _ _ _ _ _ _ _ _ _ _ _ EP Hflag Hkey Hk0 Eg) as Hp.
      + (* a new stand-in *)
        unfold get_slot in Hp. sb. unfold get_slot in H9. rewrite H9 in Hp. destruct Hp as [-> Hfb].
        pose proof H8 as Hl. apply leastBusy_spec in Hl. destruct Hl as [Hin _].
        destruct (picker_snap_slot s refs i0 HI H7 Hin) as [c [sl' [G1 [G2 [G3 G4]]]]].
        unfold get_slot in G3. rewrite H9 in G3. inv G3.
        split; [|split; [reflexivity|]].
        * intros n En. inv En. split; [unfold conn_state; rewrite G1; reflexivity|].
          rewrite Hfb. apply aget_aset_eq.
        * intros Hnp. destruct refs as [|a' l']; [discriminate H8|]. exfalso. eapply Hnp, H7.
      + (* nothing to stand in *)
        cbv beta iota in Hp. destruct Hp as [-> _].
        split; [intros n En; discriminate En|split; [|reflexivity]].
        intros _ [a' [l' E]]. exfalso. eapply H7, E.
    - destruct (Pick_unpicked _ _ _ _ _ _ _ _ _ _ _ Hn EP) as [Hr ->].
      split; [intros n En; rewrite En in Hr; discriminate Hr|split; [|auto]].
      intros [a [l E]]. exfalso. eapply Hn, E.
  Qed.
End Keyed.
