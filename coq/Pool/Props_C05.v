From GV Require Import Pool.Model Pool.Observe Pool.Monitors Pool.Inv Pool.Inv2 Pool.InvC05.

(* C05: no operation of the balancer/picker model panics, for every history
   (legal or not) and every map-iteration oracle.  Guard: fewer than 900000000
   SubConns are created along the run (the monitor reserves larger numbers as
   the harness' "unknown SubConn" sentinel for unblocked picks). *)
Theorem C05_holds : forall raw ops,
  (b_next (run_state raw init_bal ops) <= 900000000)%N ->
  monitor P05 raw (observe init_bal) (run raw init_bal ops) = true.
Proof. exact C05_holds_proof. Qed.
Print Assumptions C05_holds.

(* unguarded half: no event of any model run returns a panic *)
Theorem C05_no_panic : forall raw ops ev, In ev (run raw init_bal ops) -> ev_ret ev <> RPanic.
Proof. exact no_panic. Qed.
Print Assumptions C05_no_panic.

(* non-vacuity: a round-robin history with a blocked pick that is released *)
Example c05_history :
  let raw := Some (mkConfig 2 4 1 false 0 0 true [(1%N, mkMcfg BIND true)]) in
  let ops := [(OpResolver 1 CfgVal, []); (OpConnState 0 Ready, []); (OpPick 0 1 true [] None false, []);
              (OpPick 0 1 true [] None false, []); (OpConnState 1 Ready, [1; 0]%nat);
              (OpDone 0 DOk [7%N], []); (OpPick 1 0 true [7%N] None false, [])] in
  map ev_ret (run raw init_bal ops) = [RNone; RNone; RPicked 0; RBlocked; RNone; RNone; RPicked 0] /\
  map ev_ub (run raw init_bal ops) = [[]; []; []; []; [(1%nat, 1%N)]; []; []] /\
  monitor P05 raw (observe init_bal) (run raw init_bal ops) = true.
Proof. vm_compute. repeat split; reflexivity. Qed.

(* the monitor rejects a trace in which a Pick panics *)
Example c05_bad_trace :
  monitor P05 None (observe init_bal)
    [mkEvent (OpPick 0 0 false [] None false) [] RPanic [] None] = false.
Proof. vm_compute. reflexivity. Qed.
