(* Engine A proofs: C06 (progress).  No operation gets stuck, the balancer mutex
   is free after every operation, only a round-robin BIND may wait, and a call
   that is still waiting has neither a READY channel nor an ended context. *)
From GV Require Import Base.AListFacts Pool.Model Pool.Observe Pool.Monitors
                       Pool.Lemmas Pool.Inv Pool.Inv2 Pool.Frames Pool.Sim Pool.SimW Pool.Reduce.
From Coq Require Import Lia ZifyBool.
Open Scope Z_scope.

(* ---------------------------------------------------------------- return values *)
Lemma Pick_not_stuck s pi pk method hasctx reqkeys deadline cancelled s1 o r :
  Pick s pi pk method hasctx reqkeys deadline cancelled = (s1, o, r) -> r <> RStuck.
Proof.
  rewrite Pick_eq. destruct pk as [[|]|[|a l]]; try (intros E; inv E; discriminate).
  destruct (pick_keyres s method hasctx reqkeys) as [key|]; [|intros E; inv E; discriminate].
  destruct (_ && _).
  - unfold pick_rr. destruct (b_slots s); [intros E; inv E; discriminate|].
    unfold pick_rr_body. cbv zeta. destruct (get_slot _ _); [|intros E; inv E; discriminate].
    destruct (_ || _); intros E; inv E; discriminate.
  - unfold pick_lb. destruct (pick_dec s key (a :: l)) as [s2 dec]. destruct dec as [i| |].
    + destruct (get_slot s2 i); intros E; inv E; discriminate.
    + destruct (b_gate s2); [intros E; inv E; discriminate|].
      destruct (newSubConn s2). intros E; inv E; discriminate.
    + intros E; inv E; discriminate.
Qed.

Lemma Done_ret s j oc rk s1 o r : Done s j oc rk = (s1, o, r) -> r = RNone \/ r = RBadOp.
Proof.
  rewrite Done_eq. destruct (nth_error (b_picks s) j) as [p|]; [|intros E; inv E; auto].
  destruct (pk_status p); [intros E; inv E; auto| |intros E; inv E; auto].
  destruct (detectUnresponsive _ p oc). intros E; inv E; auto.
Qed.

(* only a Pick can return RBlocked / RStuck-free *)
Lemma step_ret_shape raw s o order s1 outs r :
  step raw s o order = (s1, outs, r) ->
  r <> RStuck /\ (r = RBlocked -> match o with OpPick _ _ _ _ _ _ => True | _ => False end).
Proof.
  destruct o as [addrs a| |sc st|pi m hc rk dl cc|j oc rk|dt|j|f|g|k]; cbn [step].
  - intros E. apply UpdateClientConnState_ret in E. destruct E; subst; split; discriminate.
  - intros E; inv E. split; discriminate.
  - destruct (UpdateSubConnState s sc st order). intros E; inv E. split; discriminate.
  - destruct (nth_error (b_published s) pi); [|intros E; inv E; split; [discriminate|auto]].
    destruct (_ && _); [intros E; inv E; split; [discriminate|auto]|].
    intros E. split; [eapply Pick_not_stuck; eauto|auto].
  - intros E. apply Done_ret in E. destruct E; subst; split; discriminate.
  - destruct (0 <=? dt); intros E; inv E; split; discriminate.
  - destruct (nth_error (b_picks s) j); intros E; inv E; split; discriminate.
  - intros E; inv E. split; discriminate.
  - intros E; inv E. split; discriminate.
  - destruct (nth_error (b_parked s) k); [|intros E; inv E; split; discriminate].
    destruct (newSubConn _). intros E; inv E. split; discriminate.
Qed.

(* ---------------------------------------------------------------- waiting calls *)
Lemma o_conn_ready_observe s c :
  InvK s -> o_conn_ready (observe s) c = cstate_eqb (conn_state s c) Ready.
Proof.
  intros HK. unfold o_conn_ready, o_conn_state, conn_state, observe; cbn [o_st].
  rewrite aget_asort by apply (nd_scstates HK).
  destruct (aget (b_scstates s) c) as [[]|]; reflexivity.
Qed.

Lemma blocked_picks_wait s ms :
  Inv s -> Quiescent s -> SimPw s ms ->
  forallb (fun p => match mp_status p with
                    | PBlocked =>
                        negb (mctx_done (o_now (observe s)) p) &&
                        match conn_of_slot (observe s) (mp_slot p) with
                        | Some c => negb (o_conn_ready (observe s) c)
                        | None => false
                        end
                    | _ => true
                    end) (ms_picks ms) = true.
Proof.
  intros HI HQ HP. unfold SimPw in HP.
  assert (G : forall picks mpicks, Forall2 pick_rel picks mpicks -> (forall p, In p picks -> In p (b_picks s)) ->
    forallb (fun p => match mp_status p with
                      | PBlocked =>
                          negb (mctx_done (o_now (observe s)) p) &&
                          match conn_of_slot (observe s) (mp_slot p) with
                          | Some c => negb (o_conn_ready (observe s) c)
                          | None => false
                          end
                      | _ => true
                      end) mpicks = true); [|apply (G _ _ HP); auto].
  intros picks mpicks H. induction H as [|p mp r mr Hrel Hr IH]; intros Hsub; [reflexivity|].
  cbn [forallb]. rewrite IH by (intros q Hq; apply Hsub; right; exact Hq). rewrite andb_true_r.
  assert (Hin : In p (b_picks s)) by (apply Hsub; left; reflexivity).
  destruct (mp_status mp) eqn:Emp; try reflexivity.
  pose proof (blocked_rel_exact _ _ Hrel Emp) as ->.
  change (mp_status (mpick_of p)) with (pk_status p) in Emp. rename Emp into Est.
  pose proof (HQ p Hin Est) as Hcp. unfold can_proceed in Hcp.
  destruct HI as (HK&_&_&_&_&HS). pose proof (picks_slot HS p Hin) as Hlt. rewrite map_length in Hlt.
  destruct (nth_error_lt_Some _ _ Hlt) as [sl Hs]. unfold get_slot in Hcp. rewrite Hs in Hcp.
  apply orb_false_iff in Hcp. destruct Hcp as [H1 H2].
  unfold conn_of_slot, o_slot. cbn [observe o_slots o_now]. change (mp_slot (mpick_of p)) with (pk_slot p).
  rewrite Hs. rewrite o_conn_ready_observe by exact HK. rewrite H1.
  change (mctx_done (b_now s) (mpick_of p)) with (ctx_done (b_now s) p). rewrite H2. reflexivity.
Qed.

(* ---------------------------------------------------------------- the step *)
Definition Inv06 (s : bal) : Prop := Inv s /\ Quiescent s.
Definition Sim06 (s : bal) (ms : mstate) : Prop := Sim_cfg s ms /\ SimPw s ms.

Lemma C06_step raw s ms o order s' outs rt ub :
  Inv06 s -> Sim06 s ms -> True ->
  full_step raw s o order = (s', outs, rt, ub) ->
  let ev := mkEvent o outs rt ub (Some (observe s')) in
  Inv06 s' /\ Sim06 s' (track raw ms (observe s) ev (observe s')) /\
  event_ok P06 raw ms (observe s) ev = true.
Proof.
  intros [HI HQ] [HSc HSP] _ E. cbv zeta.
  destruct (full_step_Inv _ _ _ _ _ _ _ _ HI E) as [HI' [HQ' _]].
  assert (HS' : Sim06 s' (track raw ms (observe s) (mkEvent o outs rt ub (Some (observe s'))) (observe s'))).
  { split; [eapply Sim_cfg_step; eauto|eapply SimPw_step; eauto]. }
  split; [split; assumption|split; [exact HS'|]].
  cbn [event_ok ev_obs ev_op]. unfold c06_event. cbn [ev_ret ev_obs ev_op].
  pose proof E as E0. rewrite full_step_eq in E0.
  destruct (step raw s o order) as [[s1 outs1] r1] eqn:Es.
  destruct (resolve_blocked s1) as [s2 ub2]. inv E0.
  destruct (step_ret_shape _ _ _ _ _ _ _ Es) as [Hns Hbl].
  rewrite !andb_true_iff. repeat split.
  - destruct rt; auto; congruence.
  - (* only a round-robin BIND waits *)
    destruct rt; try (destruct o; reflexivity).
    specialize (Hbl eq_refl). destruct o as [addrs a| |sc st|pi m hc rk dl cc|j oc rk2|dt|j|f|g|k]; try contradiction.
    cbn [step] in Es. destruct (nth_error (b_published s) pi) as [pk|] eqn:Ep; [|inv Es].
    destruct (_ && _); [inv Es|].
    destruct (Pick_appends _ _ _ _ _ _ _ _ _ _ _ HI Ep Es) as [Happ _]. destruct Happ as [key [_ [Hrr _]]].
    assert (Hcfg : exists c, b_cfg s = Some c).
    { destruct (b_cfg s) eqn:Ec; [eauto|]. exfalso.
      eapply InvG_cfg_pubs; [apply HI|eapply nth_error_nonnil, Ep|exact Ec]. }
    destruct Hcfg as [c Hcfg].
    destruct (pick_fields_link raw s ms (OpPick pi m hc rk dl cc) c m hc rk HSc Hcfg) as (_&_&_&L4).
    rewrite L4. exact Hrr.
  - apply blocked_picks_wait; [exact HI'|exact HQ'|apply HS'].
Qed.

Theorem C06_holds_proof raw ops :
  monitor P06 raw (observe init_bal) (run raw init_bal ops) = true.
Proof.
  apply (monitor_run P06 raw Inv06 Sim06 (fun _ _ _ => True)).
  - intros. eapply C06_step; eauto.
  - split; [exact Inv_init|exact Quiescent_init].
  - split; [exact Sim_cfg_init|exact SimPw_init].
  - apply guarded_True.
Qed.

(* in particular no operation of the model ever gets stuck *)
Theorem no_stuck raw ops : forall ev, In ev (run raw init_bal ops) -> ev_ret ev <> RStuck.
Proof.
  assert (G : forall ops s ev, In ev (run raw s ops) -> ev_ret ev <> RStuck).
  { induction ops0 as [|[o order] r IH]; intros s ev; cbn; [tauto|].
    destruct (full_step raw s o order) as [[[s' outs] rt] ub] eqn:E.
    intros [<-|Hin]; [|eauto]. cbn. rewrite full_step_eq in E.
    destruct (step raw s o order) as [[s1 outs1] r1] eqn:Es. destruct (resolve_blocked s1). inv E.
    apply (step_ret_shape _ _ _ _ _ _ _ Es). }
  apply G.
Qed.
