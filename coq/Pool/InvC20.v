(* Engine A proofs: C20 (resolver results).  Every connection of the pool and
   every replacement connection of a refresh in flight was last given the
   current address list and asked to connect since. *)
From GV Require Import Base.AListFacts Pool.Model Pool.Observe Pool.Monitors
                       Pool.Lemmas Pool.Inv Pool.Inv2 Pool.Frames Pool.Sim Pool.Reduce.
From Coq Require Import Lia ZifyBool.
Open Scope Z_scope.

(* ---------------------------------------------------------------- tracking of addresses *)
Definition tracked (a : N) (lc : list (N * N) * list (N * bool)) (c : N) : Prop :=
  aget (fst lc) c = Some a /\ aget (snd lc) c = Some true.

Definition track_addr' (o : list out) (lc : list (N * N) * list (N * bool)) := track_addr o (fst lc) (snd lc).

Lemma track_addr_app o1 o2 la cn :
  track_addr (o1 ++ o2) la cn = track_addr' o2 (track_addr o1 la cn).
Proof.
  unfold track_addr'. revert la cn. induction o1 as [|x r IH]; intros la cn; cbn [app track_addr]; [reflexivity|].
  destruct x; apply IH.
Qed.

(* [addr_step a P o Q]: if every connection in P is up to date w.r.t. address a
   before the calls o, every connection in Q is afterwards *)
Definition addr_step (a : N) (P : N -> Prop) (o : list out) (Q : N -> Prop) : Prop :=
  forall lc, (forall c, P c -> tracked a lc c) -> forall c, Q c -> tracked a (track_addr' o lc) c.

Lemma addr_step_nil a (P Q : N -> Prop) : (forall c, Q c -> P c) -> addr_step a P [] Q.
Proof. intros H lc HP c Hc. destruct lc. apply HP, H, Hc. Qed.

Lemma addr_step_app a P Q R o1 o2 :
  addr_step a P o1 Q -> addr_step a Q o2 R -> addr_step a P (o1 ++ o2) R.
Proof.
  intros H1 H2 lc HP c Hc. unfold track_addr'. rewrite track_addr_app. apply H2; [|exact Hc].
  intros c' Hc'. apply (H1 lc HP c' Hc').
Qed.

Lemma addr_step_weaken a (P P' Q Q' : N -> Prop) o :
  (forall c, P c -> P' c) -> (forall c, Q' c -> Q c) -> addr_step a P o Q -> addr_step a P' o Q'.
Proof. intros H1 H2 H lc HP c Hc. apply H; [intros c' Hc'; apply HP, H1, Hc'|apply H2, Hc]. Qed.

Lemma addr_step_new a P n : addr_step a P [ONewSC n a; OConnect n] (fun c => c = n \/ P c).
Proof.
  intros [la cn] HP c Hc. unfold track_addr', tracked. cbn.
  rewrite !aget_aset. destruct (N.eqb_spec n c) as [->|Hn]; [auto|].
  destruct Hc as [->|Hc]; [congruence|]. apply (HP c Hc).
Qed.

Lemma addr_step_upd a P n : addr_step a P [OUpdAddr n a; OConnect n] (fun c => c = n \/ P c).
Proof.
  intros [la cn] HP c Hc. unfold track_addr', tracked. cbn.
  rewrite !aget_aset. destruct (N.eqb_spec n c) as [->|Hn]; [auto|].
  destruct Hc as [->|Hc]; [congruence|]. apply (HP c Hc).
Qed.

(* calls that give no address: Connect, RemoveSubConn, UpdateState, failed NewSubConn *)
Definition addr_neutral (x : out) : Prop :=
  match x with ONewSC _ _ | OUpdAddr _ _ => False | _ => True end.

Lemma addr_step_neutral a P o : Forall addr_neutral o -> addr_step a P o P.
Proof.
  induction o as [|x r IH]; intros HF; [apply addr_step_nil; auto|].
  inversion HF as [|? ? Hx Hr]; subst. specialize (IH Hr).
  intros [la cn] HP c Hc. unfold track_addr'. cbn [track_addr fst snd].
  destruct x; cbn in Hx; try contradiction; try (apply (IH (la, cn) HP c Hc)).
  apply (IH (la, aset cn n true)); [|exact Hc].
  intros c' Hc'. destruct (HP c' Hc') as [H1 H2]. split; [exact H1|]. cbn [snd].
  rewrite aget_aset. destruct (N.eqb n c'); [reflexivity|exact H2].
Qed.

Lemma addr_step_update_list {V} a P (l : list (N * V)) :
  addr_step a P (flat_map (fun kv => [OUpdAddr (fst kv) a; OConnect (fst kv)]) l)
            (fun c => In c (akeys l) \/ P c).
Proof.
  revert P. induction l as [|[k v] r IH]; intros P; cbn [flat_map akeys map fst].
  - apply addr_step_nil. intros c [[]|H]; exact H.
  - change ([OUpdAddr k a; OConnect k] ++ flat_map (fun kv => [OUpdAddr (fst kv) a; OConnect (fst kv)]) r)
      with ([OUpdAddr k a; OConnect k] ++ flat_map (fun kv => [OUpdAddr (fst kv) a; OConnect (fst kv)]) r).
    eapply addr_step_app; [apply addr_step_upd|].
    eapply addr_step_weaken; [| |apply IH]; [intros c H; exact H|].
    intros c [[<-|H]|H]; [right; left; reflexivity|left; exact H|right; right; exact H].
Qed.

(* ---------------------------------------------------------------- the connections that must be up to date *)
Definition live (s : bal) (c : N) : Prop := In c (akeys (b_screfs s)) \/ In c (akeys (b_refr s)).

Definition Sim_addr (s : bal) (ms : mstate) : Prop :=
  forall c, live s c -> tracked (b_addrs s) (ms_lastaddr ms, ms_connected ms) c.

(* what a function must guarantee: the address is unchanged and its calls keep everybody up to date *)
Definition addr_fn (s : bal) (o : list out) (s' : bal) : Prop :=
  b_addrs s' = b_addrs s /\ addr_step (b_addrs s) (live s) o (live s').

Lemma addr_fn_same s s' :
  b_addrs s' = b_addrs s -> poolview s' = poolview s -> b_refr s' = b_refr s -> addr_fn s [] s'.
Proof.
  intros Ha Hp Hr. split; [exact Ha|]. apply addr_step_nil. unfold live, poolview in *. inv Hp.
  intros c. rewrite H1, Hr. tauto.
Qed.

Lemma addr_fn_refl s : addr_fn s [] s.
Proof. apply addr_fn_same; reflexivity. Qed.

Lemma addr_fn_trans s1 o1 s2 o2 s3 : addr_fn s1 o1 s2 -> addr_fn s2 o2 s3 -> addr_fn s1 (o1 ++ o2) s3.
Proof.
  intros [A1 B1] [A2 B2]. split; [congruence|]. rewrite A1 in B2. eapply addr_step_app; eauto.
Qed.

Lemma addr_fn_trans_nil s1 s2 o s3 : addr_fn s1 [] s2 -> addr_fn s2 o s3 -> addr_fn s1 o s3.
Proof. intros H1 H2. change o with ([] ++ o). eapply addr_fn_trans; eauto. Qed.

Lemma live_add_state s c : live (add_state s) c <-> c = b_next s \/ live s c.
Proof. unfold live, add_state; sb. rewrite In_akeys_aset. tauto. Qed.

Lemma addSubConn_addr s s' ok o : addSubConn s = (s', ok, o) -> addr_fn s o s'.
Proof.
  intros E. destruct (addSubConn_cases s) as [[_ E']|[_ E']]; rewrite E' in E; inv E.
  - split; [reflexivity|]. apply addr_step_neutral. repeat constructor.
  - split; [reflexivity|]. eapply addr_step_weaken; [| |apply addr_step_new]; [intros c H; exact H|].
    intros c Hc. apply live_add_state in Hc. exact Hc.
Qed.

Lemma enforceMinSize_addr s s' o : enforceMinSize s = (s', o) -> addr_fn s o s'.
Proof.
  revert s' o. apply (enforceMinSize_ind (fun s' o => addr_fn s o s')).
  - apply addr_fn_refl.
  - intros s1 o1 s2 ok o2 H1 _ E. eapply addr_fn_trans; [exact H1|]. eapply addSubConn_addr, E.
Qed.

Lemma newSubConn_addr s s' o : newSubConn s = (s', o) -> addr_fn s o s'.
Proof.
  unfold newSubConn. destruct (_ && _); [intros E; inv E; apply addr_fn_refl|].
  destruct (existsb _ _); [intros E; inv E; apply addr_fn_refl|].
  destruct (addSubConn s) as [[s1 ok] o1] eqn:E1. intros E; inv E. eapply addSubConn_addr; eauto.
Qed.

Lemma Pick_addr s pi pk method hasctx reqkeys deadline cancelled s' o r :
  Pick s pi pk method hasctx reqkeys deadline cancelled = (s', o, r) -> addr_fn s o s'.
Proof.
  rewrite Pick_eq. destruct pk as [[|]|[|a l]]; try (intros E; inv E; apply addr_fn_refl).
  destruct (pick_keyres s method hasctx reqkeys) as [key|]; [|intros E; inv E; apply addr_fn_refl].
  destruct (_ && _).
  - unfold pick_rr. destruct (b_slots s); [intros E; inv E; apply addr_fn_refl|].
    unfold pick_rr_body. cbv zeta. destruct (get_slot _ _); [|intros E; inv E; apply addr_fn_same; reflexivity].
    destruct (_ || _); intros E; inv E; apply addr_fn_same; reflexivity.
  - unfold pick_lb. destruct (pick_dec s key (a :: l)) as [s1 dec] eqn:Ed.
    assert (H1 : addr_fn s [] s1).
    { unfold pick_dec in Ed. destruct (negb _); [|inv Ed; apply addr_fn_refl].
      destruct (getReadySubConnRef s key) as [[s2 r2] found] eqn:Eg.
      pose proof (getReadySubConnRef_poolview _ _ _ _ _ Eg) as Hp.
      pose proof (getReadySubConnRef_refr _ _ _ _ _ Eg) as Hr.
      apply getReadySubConnRef_views in Eg. destruct Eg as [_ He]. apply envview_inv in He.
      destruct found; inv Ed; apply addr_fn_same; tauto. }
    destruct dec as [i| |].
    + destruct (get_slot s1 i); intros E; injection E as <- <- <-;
        apply (addr_fn_trans_nil s s1); auto; apply addr_fn_same; reflexivity.
    + destruct (b_gate s1); [intros E; injection E as <- <- <-; apply (addr_fn_trans_nil s s1); auto; apply addr_fn_same; reflexivity|].
      destruct (newSubConn s1) as [s2 o2] eqn:En. intros E; injection E as <- <- <-.
      apply (addr_fn_trans_nil s s1); auto. eapply newSubConn_addr; eauto.
    + intros E; injection E as <- <- <-. exact H1.
Qed.

Lemma refresh_addr s i s' o : refresh s i = (s', o) -> addr_fn s o s'.
Proof.
  intros E. destruct (refresh_cases s i) as [[E' _]|[r [Es [Er [[_ E']|[_ E']]]]]]; rewrite E' in E; inv E.
  - apply addr_fn_refl.
  - split; [reflexivity|]. apply addr_step_neutral. repeat constructor.
  - split; [reflexivity|]. eapply addr_step_weaken; [| |apply addr_step_new]; [intros c H; exact H|].
    intros c. unfold live, refresh_ok_state; sb. rewrite In_akeys_aset. tauto.
Qed.

Lemma detectUnresponsive_addr s p oc s' o : detectUnresponsive s p oc = (s', o) -> addr_fn s o s'.
Proof.
  unfold detectUnresponsive.
  destruct (negb (b_undet s)); [intros E; inv E; apply addr_fn_refl|].
  destruct (negb _); [intros E; inv E; apply addr_fn_same; reflexivity|].
  destruct (get_slot s (pk_slot p)) as [r|]; [|intros E; inv E; apply addr_fn_refl].
  destruct (pk_started p <? sl_last r); [intros E; inv E; apply addr_fn_refl|].
  destruct (_ && _); [|intros E; inv E; apply addr_fn_same; reflexivity].
  intros E. apply refresh_addr in E.
  eapply addr_fn_trans_nil; [|exact E]. apply addr_fn_same; reflexivity.
Qed.

Lemma Done_addr s j oc rk s' o r : Done s j oc rk = (s', o, r) -> addr_fn s o s'.
Proof.
  rewrite Done_eq. destruct (nth_error (b_picks s) j) as [p|]; [|intros E; inv E; apply addr_fn_refl].
  destruct (pk_status p); try (intros E; inv E; apply addr_fn_refl).
  destruct (detectUnresponsive (done_s1 s j p) p oc) as [s2 o2] eqn:Ed. intros E; inv E.
  apply detectUnresponsive_addr in Ed.
  assert (H0 : addr_fn s [] (done_s1 s j p)) by (apply addr_fn_same; reflexivity).
  assert (H2 : addr_fn s2 [] (done_bind s2 p oc rk)).
  { destruct (done_bind_views s2 p oc rk) as [_ He]. apply envview_inv in He.
    apply addr_fn_same; [tauto|apply done_bind_poolview|apply done_bind_refr]. }
  replace o with (([] ++ o) ++ []) by (rewrite app_nil_r; reflexivity).
  eapply addr_fn_trans; [eapply addr_fn_trans; eauto|exact H2].
Qed.

(* ---------------------------------------------------------------- UpdateSubConnState *)
Lemma usc_tail_live s1 o1 sc st oldS order s' o' :
  Forall addr_neutral o1 -> usc_tail s1 o1 sc st oldS order = (s', o') ->
  (forall c, live s' c -> live s1 c) /\ Forall addr_neutral o' /\ b_addrs s' = b_addrs s1.
Proof.
  intros Ho1. unfold usc_tail. rewrite usc_fin_cases. cbv zeta.
  destruct (usc_s5_frame s1 sc st oldS) as (_&_&_&_&_&E6&_&_&_&_&_&_&_&E14&HF).
  set (s5 := usc_s5 (usc_s3 s1 sc st) sc st oldS) in *.
  assert (Hl : forall c, live s5 c -> live s1 c).
  { intros c. unfold live. rewrite E6, E14. intros [H|H]; [left|right; exact H].
    destruct st; try exact H. rewrite usc_s3_shutdown in H. sb. apply In_akeys_adel in H. tauto. }
  assert (Ho : Forall addr_neutral (o1 ++ usc_o3 sc st)).
  { apply Forall_app. split; [exact Ho1|]. destruct st; repeat constructor. }
  destruct (pub_cond _ _ _ _); intros E; inv E; (split; [exact Hl|split; [|apply (uf_addrs _ _ HF)]]).
  - apply Forall_app. split; [exact Ho|repeat constructor].
  - exact Ho.
Qed.

Lemma usc_after_live s1 o1 sc st order s' o' :
  Forall addr_neutral o1 -> usc_after s1 o1 sc st order = (s', o') ->
  (forall c, live s' c -> live s1 c) /\ Forall addr_neutral o' /\ b_addrs s' = b_addrs s1.
Proof.
  intros Ho1. unfold usc_after. destruct (aget (b_scstates s1) sc) as [oldS|].
  - apply usc_tail_live, Ho1.
  - intros E; inv E. auto.
Qed.

Lemma UpdateSubConnState_addr s sc st order s' o :
  UpdateSubConnState s sc st order = (s', o) -> addr_fn s o s'.
Proof.
  intros E.
  assert (G : (forall c, live s' c -> live s c) /\ Forall addr_neutral o /\ b_addrs s' = b_addrs s).
  { revert E. rewrite UpdateSubConnState_cases.
    destruct (aget (b_refr s) sc) as [i|] eqn:Er; [|apply usc_after_live; constructor].
    destruct (negb (cstate_eqb st Ready)); [intros E; inv E; auto|].
    destruct (get_slot s i) as [ref|] eqn:Es; [|apply usc_after_live; constructor].
    intros E. apply usc_after_live in E; [|repeat constructor].
    destruct E as [H1 [H2 H3]]. split; [|split; [exact H2|exact H3]].
    intros c Hc. apply H1 in Hc. unfold live, swap_state in *; sb.
    rewrite In_akeys_aset, !In_akeys_adel in Hc. destruct Hc as [[->|[_ Hc]]|[_ Hc]]; auto.
    right. eapply aget_In_keys, Er. }
  destruct G as [G1 [G2 G3]]. split; [exact G3|].
  eapply addr_step_weaken; [| |apply addr_step_neutral, G2]; [intros c H; exact H|exact G1].
Qed.

(* ---------------------------------------------------------------- resolver update *)
Lemma addr_step_vacuous a P o : addr_step a P o (fun _ => False).
Proof. intros lc _ c []. Qed.

Lemma update_refr_addr s P : addr_step (b_addrs s) P (update_refr s) (fun c => In c (akeys (b_refr s)) \/ P c).
Proof. apply addr_step_update_list. Qed.

Lemma UpdateClientConnState_addr s addrs a raw s' o r :
  Inv s -> UpdateClientConnState s addrs a raw = (s', o, r) ->
  addr_step (b_addrs s') (fun _ => False) o (live s').
Proof.
  intros HI. rewrite UpdateClientConnState_eq.
  destruct (ucc_init s addrs a raw) as [[s2 o2]|] eqn:E0.
  - destruct (ucc_init_Inv _ _ _ _ _ _ HI E0) as [HI2 [Hc2 Ha2]].
    destruct (length (b_screfs s2) =? 0)%nat eqn:El.
    + destruct (addSubConn s2) as [[s3 ok] o3] eqn:E3. intros E; injection E as <- <- _.
      apply Nat.eqb_eq in El. assert (Hrefs : b_screfs s2 = []) by (destruct (b_screfs s2); [auto|discriminate]).
      eapply addr_step_app; [apply addr_step_vacuous|].
      destruct (addSubConn_cases s2) as [[_ E']|[_ E']]; rewrite E' in E3; inv E3.
      * eapply addr_step_app; [apply (addr_step_neutral _ (fun _ => False)); repeat constructor|].
        eapply addr_step_weaken; [| |apply update_refr_addr]; [intros c H; exact H|].
        intros c [H|H]; [rewrite Hrefs in H; destruct H|left; exact H].
      * eapply addr_step_app; [apply addr_step_new|].
        eapply addr_step_weaken; [| |apply (update_refr_addr (add_state s2))]; [intros c H; exact H|].
        intros c Hc. apply live_add_state in Hc. destruct Hc as [->|[H|H]].
        -- right. left. reflexivity.
        -- rewrite Hrefs in H. destruct H.
        -- left. exact H.
    + intros E; injection E as <- <- _.
      eapply addr_step_app; [apply addr_step_vacuous|]. unfold update_all.
      eapply addr_step_app; [apply addr_step_update_list|].
      eapply addr_step_weaken; [| |apply update_refr_addr]; [intros c H; exact H|].
      intros c [H|H]; [right; left; exact H|left; exact H].
  - intros E; injection E as <- <- _. apply addr_step_nil. intros c Hc.
    unfold ucc_init in E0. sb. destruct (b_cfg s) eqn:Ec; [discriminate|].
    destruct HI as (_&_&_&_&HG&_). destruct (cfg_none HG Ec) as (H1&_&H3&_).
    unfold live in Hc. sb. rewrite H1, H3 in Hc. destruct Hc as [[]|[]].
Qed.

(* ---------------------------------------------------------------- Sim_addr is kept *)
Lemma Sim_addr_init : Sim_addr init_bal ms_init.
Proof. intros c [[]|[]]. Qed.

Definition is_resolver_op (o : op) : bool := match o with OpResolver _ _ => true | _ => false end.

Lemma step_addr raw s o order s' outs r :
  Inv s -> step raw s o order = (s', outs, r) ->
  if is_resolver_op o then addr_step (b_addrs s') (fun _ => False) outs (live s') else addr_fn s outs s'.
Proof.
  intros HI. destruct o as [addrs a| |sc st|pi m hc rk dl cc|j oc rk|dt|j|f|g|k]; cbn [step is_resolver_op].
  - apply UpdateClientConnState_addr, HI.
  - intros E; inv E. apply addr_fn_refl.
  - destruct (UpdateSubConnState s sc st order) as [s1 o1] eqn:E1. intros E; inv E.
    eapply UpdateSubConnState_addr; eauto.
  - destruct (nth_error (b_published s) pi); [|intros E; inv E; apply addr_fn_refl].
    destruct (_ && _); [intros E; inv E; apply addr_fn_refl|]. apply Pick_addr.
  - apply Done_addr.
  - destruct (0 <=? dt); intros E; inv E; apply addr_fn_same; reflexivity.
  - destruct (nth_error (b_picks s) j); intros E; inv E; apply addr_fn_same; reflexivity.
  - intros E; inv E; apply addr_fn_same; reflexivity.
  - intros E; inv E; apply addr_fn_same; reflexivity.
  - destruct (nth_error (b_parked s) k); [|intros E; inv E; apply addr_fn_refl].
    destruct (newSubConn _) as [s2 o2] eqn:En. intros E; injection E as <- <- _.
    apply newSubConn_addr in En. eapply addr_fn_trans_nil; [|exact En]. apply addr_fn_same; reflexivity.
Qed.

Lemma Sim_addr_step raw s ms o order s' outs rt ub :
  Inv s -> Sim_addr s ms -> full_step raw s o order = (s', outs, rt, ub) ->
  Sim_addr s' (track raw ms (observe s) (mkEvent o outs rt ub (Some (observe s'))) (observe s')).
Proof.
  intros HI HS. rewrite full_step_eq.
  destruct (step raw s o order) as [[s1 outs1] r1] eqn:Es.
  destruct (resolve_blocked s1) as [s2 ub2] eqn:Er. intros E; inv E.
  destruct (step_Inv _ _ _ _ _ _ _ HI Es) as [HI1 _].
  destruct (resolve_blocked_spec _ _ _ HI1 Er) as [_ [Hm _]].
  pose proof (f_equal b_screfs Hm) as Hsr.
  pose proof (f_equal b_refr Hm) as Hrf. pose proof (f_equal b_addrs Hm) as Had. cbn in Hsr, Hrf, Had.
  destruct (track_proj raw ms (observe s) (mkEvent o outs rt ub (Some (observe s'))) (observe s')) as (_&_&T&_).
  cbn [ev_out] in T. unfold Sim_addr. intros c Hc.
  assert (Hc1 : live s1 c).
  { unfold live in *. rewrite <- Hsr, <- Hrf. exact Hc. }
  rewrite Had. unfold tracked. rewrite T.
  pose proof (step_addr _ _ _ _ _ _ _ HI Es) as Hs. destruct (is_resolver_op o).
  - apply (Hs (ms_lastaddr ms, ms_connected ms)); [intros c' []|exact Hc1].
  - destruct Hs as [Ha Hs]. rewrite Ha. apply (Hs (ms_lastaddr ms, ms_connected ms)); [exact HS|exact Hc1].
Qed.

(* ---------------------------------------------------------------- ResolverError changes nothing *)
Lemma list_eqb_refl {A} (eqb : A -> A -> bool) (l : list A) : (forall x, eqb x x = true) -> list_eqb eqb l l = true.
Proof. intros H. induction l as [|x r IH]; cbn; [reflexivity|]. rewrite H, IH. reflexivity. Qed.

Lemma picker_eqb_refl p : picker_eqb p p = true.
Proof. destruct p as [b|l]; cbn; [destruct b; reflexivity|]. apply list_eqb_refl, Nat.eqb_refl. Qed.

Lemma slot_refresh_eqb_refl x : slot_refresh_eqb x x = true.
Proof. unfold slot_refresh_eqb. rewrite !Z.eqb_refl, eqb_reflx. reflexivity. Qed.
Lemma slot_aff_eqb_refl x : slot_aff_eqb x x = true.
Proof. apply Z.eqb_refl. Qed.
Lemma slot_streams_eqb_refl x : slot_streams_eqb x x = true.
Proof. unfold slot_streams_eqb. rewrite Z.eqb_refl, N.eqb_refl. reflexivity. Qed.
Lemma nn_eqb_refl x : nn_eqb x x = true.
Proof. unfold nn_eqb. rewrite !N.eqb_refl. reflexivity. Qed.
Lemma nnat_eqb_refl x : nnat_eqb x x = true.
Proof. unfold nnat_eqb. rewrite N.eqb_refl, Nat.eqb_refl. reflexivity. Qed.
Lemma nst_eqb_refl x : nst_eqb x x = true.
Proof. unfold nst_eqb. rewrite N.eqb_refl, cstate_eqb_refl. reflexivity. Qed.

Lemma diff_obs_refl o : diff_obs o o = None.
Proof.
  unfold diff_obs.
  rewrite !eqb_reflx, !N.eqb_refl, !Z.eqb_refl, cstate_eqb_refl, picker_eqb_refl, Nat.eqb_refl.
  rewrite (list_eqb_refl nst_eqb) by apply nst_eqb_refl.
  rewrite !(list_eqb_refl nnat_eqb) by apply nnat_eqb_refl.
  rewrite !(list_eqb_refl nn_eqb) by apply nn_eqb_refl.
  rewrite (list_eqb_refl slot_streams_eqb) by apply slot_streams_eqb_refl.
  rewrite (list_eqb_refl slot_aff_eqb) by apply slot_aff_eqb_refl.
  rewrite (list_eqb_refl slot_refresh_eqb) by apply slot_refresh_eqb_refl.
  reflexivity.
Qed.

Lemma resolve_from_quiet s : forall ps j,
  (forall p, In p ps -> resolvable s p = false) -> resolve_from s j ps = (s, []).
Proof.
  induction ps as [|p r IH]; intros j H; cbn [resolve_from]; [reflexivity|].
  rewrite resolve_one_eq, (H p (or_introl eq_refl)). rewrite IH; [reflexivity|].
  intros q Hq. apply H. right. exact Hq.
Qed.

Lemma resolve_blocked_quiescent s : Quiescent s -> resolve_blocked s = (s, []).
Proof.
  intros HQ. apply resolve_from_quiet. intros p Hp. unfold resolvable, is_blocked.
  destruct (pk_status p) eqn:E; try reflexivity. cbn. apply HQ; auto.
Qed.

Lemma full_step_addrs raw s o order s' outs r ub :
  Inv s -> full_step raw s o order = (s', outs, r, ub) ->
  b_addrs s' = match o with OpResolver a _ => a | _ => b_addrs s end.
Proof.
  intros HI. rewrite full_step_eq.
  destruct (step raw s o order) as [[s1 outs1] r1] eqn:Es.
  destruct (resolve_blocked s1) as [s2 ub2] eqn:Er. intros E; inv E.
  destruct (step_Inv _ _ _ _ _ _ _ HI Es) as [HI1 _].
  destruct (resolve_blocked_spec _ _ _ HI1 Er) as [_ [Hm _]].
  pose proof (f_equal b_addrs Hm) as Had. cbn in Had. rewrite Had. eapply step_addrs; eauto.
Qed.

(* ---------------------------------------------------------------- the step *)
Definition InvQ (s : bal) : Prop := Inv s /\ Quiescent s.

Lemma C20_step raw s ms o order s' outs rt ub :
  InvQ s -> Sim_addr s ms -> True ->
  full_step raw s o order = (s', outs, rt, ub) ->
  let ev := mkEvent o outs rt ub (Some (observe s')) in
  InvQ s' /\ Sim_addr s' (track raw ms (observe s) ev (observe s')) /\
  event_ok P20 raw ms (observe s) ev = true.
Proof.
  intros [HI HQ] HS _ E. cbv zeta.
  destruct (full_step_Inv _ _ _ _ _ _ _ _ HI E) as [HI' [HQ' _]].
  pose proof (Sim_addr_step _ _ _ _ _ _ _ _ _ HI HS E) as HS'.
  split; [split; assumption|split; [exact HS'|]].
  cbn [event_ok ev_obs]. unfold c20_event. cbn [ev_out ev_op ev_ret].
  set (ms' := track raw ms (observe s) (mkEvent o outs rt ub (Some (observe s'))) (observe s')) in *.
  apply andb_true_iff. split.
  - apply forallb_forall. intros c Hc.
    assert (Hl : live s' c).
    { apply in_app_iff in Hc. unfold observe in Hc; cbn [o_refs o_refr] in Hc. unfold live.
      rewrite !asort_In_keys in Hc. exact Hc. }
    destruct (HS' c Hl) as [H1 H2]. cbn [fst snd] in H1, H2. rewrite H1, H2.
    cbn [observe o_addrs]. apply N.eqb_refl.
  - pose proof (full_step_addrs _ _ _ _ _ _ _ _ HI E) as Ha.
    destruct o as [addrs a| |sc st|pi m hc rk dl cc|j oc rk|dt|j|f|g|k];
      try (cbn [observe o_addrs]; rewrite Ha; apply N.eqb_refl).
    + destruct rt; try reflexivity. cbn [observe o_addrs]. rewrite Ha. apply N.eqb_refl.
    + rewrite full_step_eq in E. cbn [step] in E. rewrite (resolve_blocked_quiescent s HQ) in E. inv E.
      rewrite diff_obs_refl. reflexivity.
Qed.

Theorem C20_holds_proof raw ops :
  monitor P20 raw (observe init_bal) (run raw init_bal ops) = true.
Proof.
  apply (monitor_run P20 raw InvQ Sim_addr (fun _ _ _ => True)).
  - intros. eapply C20_step; eauto.
  - split; [exact Inv_init|exact Quiescent_init].
  - exact Sim_addr_init.
  - apply guarded_True.
Qed.
