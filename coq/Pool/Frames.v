(* Engine A proofs: frame lemmas.  Which operations can change which part of
   the state:
     pubview  (counters, aggregate state, picker, published pickers): only UpdateSubConnState
     envview  (cfg, undet, addrs, now, fail, gate): cfg/undet/addrs only UpdateClientConnState,
              now only OpAdvance, fail only OpFactory, gate only OpGate
   and the shape of the calls made on the ClientConn when the pool grows. *)
From GV Require Import Base.AListFacts Pool.Model Pool.Observe Pool.Monitors Pool.Lemmas Pool.Inv Pool.Inv2.
From Coq Require Import Lia ZifyBool.
Open Scope Z_scope.

Definition pubview (s : bal) := (b_nready s, b_nconn s, b_ntf s, b_state s, b_picker s, b_published s).
Definition envview (s : bal) := (b_cfg s, b_undet s, b_addrs s, b_now s, b_fail s, b_gate s).

Lemma pubview_inv s s' : pubview s' = pubview s ->
  b_nready s' = b_nready s /\ b_nconn s' = b_nconn s /\ b_ntf s' = b_ntf s /\ b_state s' = b_state s /\
  b_picker s' = b_picker s /\ b_published s' = b_published s.
Proof. unfold pubview. intros H; inv H. tauto. Qed.

Lemma envview_inv s s' : envview s' = envview s ->
  b_cfg s' = b_cfg s /\ b_undet s' = b_undet s /\ b_addrs s' = b_addrs s /\ b_now s' = b_now s /\
  b_fail s' = b_fail s /\ b_gate s' = b_gate s.
Proof. unfold envview. intros H; inv H. tauto. Qed.

Lemma grow_frame_views s s' : grow_frame s s' -> pubview s' = pubview s /\ envview s' = envview s.
Proof. intros []. unfold pubview, envview. split; congruence. Qed.

Lemma usc_frame_envview s s' : usc_frame s s' -> envview s' = envview s.
Proof. intros []. unfold envview. congruence. Qed.

Lemma mask_sp_views s s' : mask_sp s' = mask_sp s -> pubview s' = pubview s /\ envview s' = envview s.
Proof.
  intros H. split.
  - change (pubview (mask_sp s') = pubview (mask_sp s)). rewrite H. reflexivity.
  - change (envview (mask_sp s') = envview (mask_sp s)). rewrite H. reflexivity.
Qed.

(* ---------------------------------------------------------------- publication-related outputs *)
Lemma outs_pubs_app a b : outs_pubs (a ++ b) = outs_pubs a ++ outs_pubs b.
Proof. induction a as [|x r IH]; cbn; [reflexivity|]. destruct x; cbn; rewrite ?IH; reflexivity. Qed.

Definition no_pub (o : list out) : Prop := outs_pubs o = [].

Lemma no_pub_app a b : no_pub a -> no_pub b -> no_pub (a ++ b).
Proof. unfold no_pub. intros Ha Hb. rewrite outs_pubs_app, Ha, Hb. reflexivity. Qed.

Lemma no_pub_update_refr s : no_pub (update_refr s).
Proof. unfold no_pub, update_refr. induction (b_refr s) as [|x r IH]; cbn; auto. Qed.

Lemma no_pub_update_all s : no_pub (update_all s).
Proof.
  unfold update_all. apply no_pub_app; [|apply no_pub_update_refr].
  unfold no_pub. induction (b_screfs s) as [|x r IH]; cbn; auto.
Qed.

(* ---------------------------------------------------------------- per function *)
Lemma addSubConn_views s s' ok o :
  addSubConn s = (s', ok, o) -> pubview s' = pubview s /\ envview s' = envview s /\ no_pub o.
Proof.
  intros E. destruct (addSubConn_cases s) as [[_ E']|[_ E']]; rewrite E' in E; inv E; repeat split; reflexivity.
Qed.

Lemma enforceMinSize_views s s' o :
  enforceMinSize s = (s', o) -> pubview s' = pubview s /\ envview s' = envview s /\ no_pub o.
Proof.
  revert s' o. apply (enforceMinSize_ind (fun s' o => pubview s' = pubview s /\ envview s' = envview s /\ no_pub o)).
  - repeat split; reflexivity.
  - intros s1 o1 s2 ok o2 [H1 [H2 H3]] _ E. apply addSubConn_views in E. destruct E as [H4 [H5 H6]].
    repeat split; [congruence|congruence|apply no_pub_app; auto].
Qed.

Lemma newSubConn_views s s' o :
  newSubConn s = (s', o) -> pubview s' = pubview s /\ envview s' = envview s /\ no_pub o.
Proof.
  unfold newSubConn. destruct (_ && _); [intros E; inv E; repeat split; reflexivity|].
  destruct (existsb _ _); [intros E; inv E; repeat split; reflexivity|].
  destruct (addSubConn s) as [[s1 ok] o1] eqn:E1. intros E; inv E. eapply addSubConn_views; eauto.
Qed.

Lemma UpdateClientConnState_pubview s addrs a raw s' o r :
  UpdateClientConnState s addrs a raw = (s', o, r) ->
  pubview s' = pubview s /\ no_pub o /\ b_now s' = b_now s /\ b_fail s' = b_fail s /\ b_gate s' = b_gate s.
Proof.
  rewrite UpdateClientConnState_eq. unfold ucc_init. sb.
  assert (G : forall s2 o2,
    pubview s2 = pubview s /\ (b_now s2 = b_now s /\ b_fail s2 = b_fail s /\ b_gate s2 = b_gate s) /\ no_pub o2 ->
    (if (length (b_screfs s2) =? 0)%nat
     then let '(s3, _, o3) := addSubConn s2 in (s3, o2 ++ o3 ++ update_refr s3, RNone)
     else (s2, o2 ++ update_all s2, RNone)) = (s', o, r) ->
    pubview s' = pubview s /\ no_pub o /\ b_now s' = b_now s /\ b_fail s' = b_fail s /\ b_gate s' = b_gate s).
  { intros s2 o2 [H1 [H2 H3]]. destruct (_ =? _)%nat.
    - destruct (addSubConn s2) as [[s3 ok] o3] eqn:E3. intros E; inv E.
      apply addSubConn_views in E3. destruct E3 as [H4 [H5 H6]].
      apply envview_inv in H5.
      split; [congruence|split; [|intuition congruence]]. repeat apply no_pub_app; auto using no_pub_update_refr.
    - intros E; inv E.
      split; [auto|split; [|tauto]]. apply no_pub_app; auto using no_pub_update_all. }
  assert (G2 : forall c s2 o2, enforceMinSize (set_undet (set_cfg (set_addrs s addrs) (Some c))
                                 ((0 <? c_ucalls c) && (0 <? c_ums c))) = (s2, o2) ->
     pubview s2 = pubview s /\ (b_now s2 = b_now s /\ b_fail s2 = b_fail s /\ b_gate s2 = b_gate s) /\ no_pub o2).
  { intros c s2 o2 Ei. apply enforceMinSize_views in Ei. destruct Ei as [H1 [H2 H3]].
    apply envview_inv in H2. cbn in H2. split; [exact H1|split; [tauto|exact H3]]. }
  destruct (b_cfg s).
  - apply G. repeat split; reflexivity.
  - destruct a.
    + destruct (initializeConfig (set_addrs s addrs) None) as [s2 o2] eqn:Ei. apply G. eapply G2, Ei.
    + intros E; inv E. repeat split; reflexivity.
    + destruct (initializeConfig (set_addrs s addrs) raw) as [s2 o2] eqn:Ei. apply G. eapply G2, Ei.
Qed.

Lemma getReadySubConnRef_views s key s' r found :
  getReadySubConnRef s key = (s', r, found) -> pubview s' = pubview s /\ envview s' = envview s.
Proof.
  unfold getReadySubConnRef. destruct (aget (b_aff s) key); [|intros E; inv E; auto].
  destruct (negb _); [|intros E; inv E; auto].
  destruct (cfg_fallback s); [|intros E; inv E; auto].
  destruct (aget (b_fb s) key); [intros E; inv E; auto|].
  destruct (b_picker s); [intros E; inv E; auto|].
  destruct (leastBusy s refs); [|intros E; inv E; auto].
  destruct (get_slot s n0); intros E; inv E; auto.
Qed.

Lemma pick_dec_views s key refs s1 dec :
  pick_dec s key refs = (s1, dec) -> pubview s1 = pubview s /\ envview s1 = envview s.
Proof.
  unfold pick_dec. destruct (negb _); [|intros E; inv E; auto].
  destruct (getReadySubConnRef s key) as [[s' r] found] eqn:Eg.
  apply getReadySubConnRef_views in Eg. destruct found; intros E; inv E; auto.
Qed.

Lemma Pick_views s pi pk method hasctx reqkeys deadline cancelled s' o r :
  Pick s pi pk method hasctx reqkeys deadline cancelled = (s', o, r) ->
  pubview s' = pubview s /\ envview s' = envview s /\ no_pub o.
Proof.
  rewrite Pick_eq. destruct pk as [[|]|[|a l]]; try (intros E; inv E; repeat split; reflexivity).
  destruct (pick_keyres s method hasctx reqkeys) as [key|]; [|intros E; inv E; repeat split; reflexivity].
  destruct (_ && _).
  - unfold pick_rr. destruct (b_slots s); [intros E; inv E; repeat split; reflexivity|].
    unfold pick_rr_body. cbv zeta. destruct (get_slot _ _); [|intros E; inv E; repeat split; reflexivity].
    destruct (_ || _); intros E; inv E; repeat split; reflexivity.
  - unfold pick_lb. destruct (pick_dec s key (a :: l)) as [s1 dec] eqn:Ed.
    apply pick_dec_views in Ed. destruct Ed as [H1 H2]. destruct dec as [i| |].
    + destruct (get_slot s1 i); intros E; inv E; repeat split; auto.
    + destruct (b_gate s1); [intros E; inv E; repeat split; auto|].
      destruct (newSubConn s1) as [s2 o2] eqn:En. intros E; inv E.
      apply newSubConn_views in En. destruct En as [H3 [H4 H5]]. repeat split; [congruence|congruence|auto].
    + intros E; inv E; repeat split; auto.
Qed.

Lemma refresh_views s i s' o :
  refresh s i = (s', o) -> pubview s' = pubview s /\ envview s' = envview s /\ no_pub o.
Proof.
  intros E. destruct (refresh_cases s i) as [[E' _]|[r [Es [Er [[_ E']|[_ E']]]]]];
    rewrite E' in E; inv E; repeat split; reflexivity.
Qed.

Lemma detectUnresponsive_views s p oc s' o :
  detectUnresponsive s p oc = (s', o) -> pubview s' = pubview s /\ envview s' = envview s /\ no_pub o.
Proof.
  unfold detectUnresponsive.
  destruct (negb (b_undet s)); [intros E; inv E; repeat split; reflexivity|].
  destruct (negb _); [intros E; inv E; repeat split; reflexivity|].
  destruct (get_slot s (pk_slot p)) as [r|]; [|intros E; inv E; repeat split; reflexivity].
  destruct (pk_started p <? sl_last r); [intros E; inv E; repeat split; reflexivity|].
  destruct (_ && _); [|intros E; inv E; repeat split; reflexivity].
  intros E. apply refresh_views in E. exact E.
Qed.

Lemma bindSubConn_views s key sc :
  pubview (bindSubConn s key sc) = pubview s /\ envview (bindSubConn s key sc) = envview s.
Proof.
  unfold bindSubConn. destruct (aget (b_screfs s) sc); [|auto]. destruct (aget (b_aff s) key); auto.
Qed.

Lemma fold_bindSubConn_views keys sc : forall s,
  pubview (fold_left (fun st k => bindSubConn st k sc) keys s) = pubview s /\
  envview (fold_left (fun st k => bindSubConn st k sc) keys s) = envview s.
Proof.
  induction keys as [|k r IH]; intros s; cbn [fold_left]; [auto|].
  destruct (IH (bindSubConn s k sc)) as [H1 H2]. destruct (bindSubConn_views s k sc) as [H3 H4].
  split; [rewrite H1; exact H3|rewrite H2; exact H4].
Qed.

Lemma unbindSubConn_views s key :
  pubview (unbindSubConn s key) = pubview s /\ envview (unbindSubConn s key) = envview s.
Proof.
  unfold unbindSubConn. destruct (aget (b_aff s) key); [|auto]. destruct (aget (b_screfs s) n); auto.
Qed.

Lemma done_bind_views s2 p oc rk :
  pubview (done_bind s2 p oc rk) = pubview s2 /\ envview (done_bind s2 p oc rk) = envview s2.
Proof.
  unfold done_bind. destruct oc; auto. destruct (pk_cmd p); auto.
  - destruct (_ && _); auto. destruct (get_slot s2 (pk_slot p)); auto. apply fold_bindSubConn_views.
  - apply unbindSubConn_views.
Qed.

Lemma Done_views s j oc rk s' o r :
  Done s j oc rk = (s', o, r) -> pubview s' = pubview s /\ envview s' = envview s /\ no_pub o.
Proof.
  rewrite Done_eq. destruct (nth_error (b_picks s) j) as [p|]; [|intros E; inv E; repeat split; reflexivity].
  destruct (pk_status p); try (intros E; inv E; repeat split; reflexivity).
  destruct (detectUnresponsive (done_s1 s j p) p oc) as [s2 o2] eqn:Ed. intros E; inv E.
  apply detectUnresponsive_views in Ed. destruct Ed as [H1 [H2 H3]].
  destruct (done_bind_views s2 p oc rk) as [H4 H5]. repeat split; [|rewrite H5, H2; reflexivity|auto].
  rewrite H4, H1. reflexivity.
Qed.

Definition is_connstate (o : op) : bool := match o with OpConnState _ _ => true | _ => false end.

Lemma step_pubview raw s o order s' outs r :
  is_connstate o = false -> step raw s o order = (s', outs, r) -> pubview s' = pubview s /\ no_pub outs.
Proof.
  intros Ho. destruct o as [addrs a| |sc st|pi m hc rk dl cc|j oc rk|dt|j|f|g|k]; cbn [step]; try discriminate.
  - intros E. apply UpdateClientConnState_pubview in E. tauto.
  - intros E; inv E. split; reflexivity.
  - destruct (nth_error (b_published s) pi); [|intros E; inv E; split; reflexivity].
    destruct (_ && _); [intros E; inv E; split; reflexivity|].
    intros E. apply Pick_views in E. tauto.
  - intros E. apply Done_views in E. tauto.
  - destruct (0 <=? dt); intros E; inv E; split; reflexivity.
  - destruct (nth_error (b_picks s) j); intros E; inv E; split; reflexivity.
  - intros E; inv E; split; reflexivity.
  - intros E; inv E; split; reflexivity.
  - destruct (nth_error (b_parked s) k); [|intros E; inv E; split; reflexivity].
    destruct (newSubConn _) as [s2 o2] eqn:En. intros E; inv E.
    apply newSubConn_views in En. destruct En as [H1 [_ H3]]. split; auto.
Qed.

(* ================================================================ the pool maps (scstates, screfs) *)
Definition poolview (s : bal) := (b_scstates s, b_screfs s).

(* same ready channels, same census of non-idle connection states *)
Definition pool_equiv (s s' : bal) : Prop :=
  (forall i, In i (ready_slots s') <-> In i (ready_slots s)) /\
  (forall x, x <> Idle -> count_st x (b_scstates s') = count_st x (b_scstates s)).

Lemma pool_equiv_refl s : pool_equiv s s.
Proof. split; [tauto|reflexivity]. Qed.

Lemma pool_equiv_trans s1 s2 s3 : pool_equiv s1 s2 -> pool_equiv s2 s3 -> pool_equiv s1 s3.
Proof.
  intros [H1 H2] [H3 H4]. split.
  - intros i. rewrite H3. apply H1.
  - intros x Hx. rewrite H4, H2; auto.
Qed.

Lemma poolview_equiv s s' : poolview s' = poolview s -> pool_equiv s s'.
Proof.
  unfold poolview. intros H; inv H. split.
  - intros i. rewrite !ready_slots_eq, H1, H2. tauto.
  - intros x _. rewrite H1. reflexivity.
Qed.

Lemma add_state_pool_equiv s : Inv s -> pool_equiv s (add_state s).
Proof.
  intros (HK & _). pose proof (next_fresh_scstates s HK) as F2. split.
  - intros i. rewrite !ready_slots_eq. unfold add_state; sb. symmetry. apply ready_of_add; auto.
    apply (nd_scstates HK).
  - intros x Hx. unfold add_state; sb. rewrite count_st_aset_absent by auto.
    destruct (cstate_eqb_spec Idle x); [congruence|lia].
Qed.

Lemma addSubConn_pool_equiv s s' ok o : Inv s -> addSubConn s = (s', ok, o) -> pool_equiv s s'.
Proof.
  intros HI E. destruct (addSubConn_cases s) as [[_ E']|[_ E']]; rewrite E' in E; inv E.
  - apply pool_equiv_refl.
  - apply add_state_pool_equiv, HI.
Qed.

Lemma enforceMinSize_pool_equiv s s' o :
  b_cfg s <> None -> Inv s -> enforceMinSize s = (s', o) -> pool_equiv s s'.
Proof.
  intros Hc HI E.
  assert (G : Inv s' /\ grow_frame s s' /\ pool_equiv s s'); [|tauto].
  revert s' o E. apply (enforceMinSize_ind (fun s' _ => Inv s' /\ grow_frame s s' /\ pool_equiv s s')).
  - split; [auto|split; [apply grow_frame_refl|apply pool_equiv_refl]].
  - intros s1 o1 s2 ok o2 [HI1 [HF1 HE1]] _ E.
    assert (Hc1 : b_cfg s1 <> None) by (rewrite (gf_cfg _ _ HF1); auto).
    destruct (addSubConn_Inv _ _ _ _ Hc1 HI1 E) as [HI2 HF2].
    split; [auto|split; [eapply grow_frame_trans; eauto|]].
    eapply pool_equiv_trans; [exact HE1|]. eapply addSubConn_pool_equiv; eauto.
Qed.

Lemma newSubConn_pool_equiv s s' o : Inv s -> newSubConn s = (s', o) -> pool_equiv s s'.
Proof.
  intros HI. unfold newSubConn. destruct (_ && _); [intros E; inv E; apply pool_equiv_refl|].
  destruct (existsb _ _); [intros E; inv E; apply pool_equiv_refl|].
  destruct (addSubConn s) as [[s1 ok] o1] eqn:E1. intros E; inv E. eapply addSubConn_pool_equiv; eauto.
Qed.

Lemma UpdateClientConnState_pool_equiv s addrs a raw s' o r :
  Inv s -> UpdateClientConnState s addrs a raw = (s', o, r) -> pool_equiv s s'.
Proof.
  intros HI. rewrite UpdateClientConnState_eq.
  destruct (ucc_init s addrs a raw) as [[s2 o2]|] eqn:E0; [|intros E; inv E; apply poolview_equiv; reflexivity].
  destruct (ucc_init_Inv _ _ _ _ _ _ HI E0) as [HI2 _].
  assert (H02 : pool_equiv s s2).
  { unfold ucc_init in E0. sb. destruct (b_cfg s); [inv E0; apply poolview_equiv; reflexivity|].
    destruct a; try discriminate; inv E0.
    - destruct (initializeConfig (set_addrs s addrs) None) as [s3 o3] eqn:Ei. inv H0.
      unfold initializeConfig in Ei. apply enforceMinSize_pool_equiv in Ei; [exact Ei|cbn; discriminate|].
      apply Inv_set_cfg_undet, Inv_set_addrs, HI.
    - destruct (initializeConfig (set_addrs s addrs) raw) as [s3 o3] eqn:Ei. inv H0.
      unfold initializeConfig in Ei. apply enforceMinSize_pool_equiv in Ei; [exact Ei|cbn; discriminate|].
      apply Inv_set_cfg_undet, Inv_set_addrs, HI. }
  destruct (_ =? _)%nat; [|intros E; inv E; exact H02].
  destruct (addSubConn s2) as [[s3 ok] o3] eqn:E3. intros E; inv E.
  eapply pool_equiv_trans; [exact H02|]. eapply addSubConn_pool_equiv; eauto.
Qed.

Lemma getReadySubConnRef_poolview s key s' r found :
  getReadySubConnRef s key = (s', r, found) -> poolview s' = poolview s.
Proof.
  unfold getReadySubConnRef. destruct (aget (b_aff s) key); [|intros E; inv E; auto].
  destruct (negb _); [|intros E; inv E; auto].
  destruct (cfg_fallback s); [|intros E; inv E; auto].
  destruct (aget (b_fb s) key); [intros E; inv E; auto|].
  destruct (b_picker s); [intros E; inv E; auto|].
  destruct (leastBusy s refs); [|intros E; inv E; auto].
  destruct (get_slot s n0); intros E; inv E; auto.
Qed.

Lemma Pick_pool_equiv s pi pk method hasctx reqkeys deadline cancelled s' o r :
  Inv s -> nth_error (b_published s) pi = Some pk ->
  Pick s pi pk method hasctx reqkeys deadline cancelled = (s', o, r) -> pool_equiv s s'.
Proof.
  intros HI Hpk. rewrite Pick_eq.
  destruct pk as [[|]|[|a l]]; try (intros E; inv E; apply pool_equiv_refl).
  assert (Hrefs : forall i, In i (a :: l) -> (i < length (b_slots s))%nat).
  { intros i Hi. destruct HI as (_&_&HP&_). eapply (pub_valid HP); eauto. eapply nth_error_In, Hpk. }
  destruct (pick_keyres s method hasctx reqkeys) as [key|]; [|intros E; inv E; apply pool_equiv_refl].
  destruct (_ && _).
  - unfold pick_rr. destruct (b_slots s); [intros E; inv E; apply pool_equiv_refl|].
    unfold pick_rr_body. cbv zeta. destruct (get_slot _ _); [|intros E; inv E; apply poolview_equiv; reflexivity].
    destruct (_ || _); intros E; inv E; apply poolview_equiv; reflexivity.
  - unfold pick_lb. destruct (pick_dec s key (a :: l)) as [s1 dec] eqn:Ed.
    destruct (pick_dec_Inv _ _ _ _ _ HI Hrefs Ed) as [HI1 [[fb' ->] Hdec]].
    destruct dec as [i| |].
    + destruct (get_slot _ i); intros E; inv E; apply poolview_equiv; reflexivity.
    + destruct (b_gate _); [intros E; inv E; apply poolview_equiv; reflexivity|].
      destruct (newSubConn (set_fb s fb')) as [s2 o2] eqn:En. intros E; inv E.
      apply newSubConn_pool_equiv in En; auto.
    + intros E; inv E; apply poolview_equiv; reflexivity.
Qed.

Lemma refresh_poolview s i s' o : refresh s i = (s', o) -> poolview s' = poolview s.
Proof.
  intros E. destruct (refresh_cases s i) as [[E' _]|[r [Es [Er [[_ E']|[_ E']]]]]];
    rewrite E' in E; inv E; reflexivity.
Qed.

Lemma detectUnresponsive_poolview s p oc s' o : detectUnresponsive s p oc = (s', o) -> poolview s' = poolview s.
Proof.
  unfold detectUnresponsive.
  destruct (negb (b_undet s)); [intros E; inv E; reflexivity|].
  destruct (negb _); [intros E; inv E; reflexivity|].
  destruct (get_slot s (pk_slot p)) as [r|]; [|intros E; inv E; reflexivity].
  destruct (pk_started p <? sl_last r); [intros E; inv E; reflexivity|].
  destruct (_ && _); [|intros E; inv E; reflexivity].
  intros E. apply refresh_poolview in E. exact E.
Qed.

Lemma bindSubConn_poolview s key sc : poolview (bindSubConn s key sc) = poolview s.
Proof. unfold bindSubConn. destruct (aget (b_screfs s) sc); [|auto]. destruct (aget (b_aff s) key); auto. Qed.

Lemma fold_bindSubConn_poolview keys sc : forall s,
  poolview (fold_left (fun st k => bindSubConn st k sc) keys s) = poolview s.
Proof.
  induction keys as [|k r IH]; intros s; cbn [fold_left]; [auto|]. rewrite IH. apply bindSubConn_poolview.
Qed.

Lemma unbindSubConn_poolview s key : poolview (unbindSubConn s key) = poolview s.
Proof. unfold unbindSubConn. destruct (aget (b_aff s) key); [|auto]. destruct (aget (b_screfs s) n); auto. Qed.

Lemma done_bind_poolview s2 p oc rk : poolview (done_bind s2 p oc rk) = poolview s2.
Proof.
  unfold done_bind. destruct oc; auto. destruct (pk_cmd p); auto.
  - destruct (_ && _); auto. destruct (get_slot s2 (pk_slot p)); auto. apply fold_bindSubConn_poolview.
  - apply unbindSubConn_poolview.
Qed.

Lemma Done_poolview s j oc rk s' o r : Done s j oc rk = (s', o, r) -> poolview s' = poolview s.
Proof.
  rewrite Done_eq. destruct (nth_error (b_picks s) j) as [p|]; [|intros E; inv E; reflexivity].
  destruct (pk_status p); try (intros E; inv E; reflexivity).
  destruct (detectUnresponsive (done_s1 s j p) p oc) as [s2 o2] eqn:Ed. intros E; inv E.
  apply detectUnresponsive_poolview in Ed. rewrite done_bind_poolview, Ed. reflexivity.
Qed.

Lemma step_pool_equiv raw s o order s' outs r :
  Inv s -> is_connstate o = false -> step raw s o order = (s', outs, r) -> pool_equiv s s'.
Proof.
  intros HI Ho. destruct o as [addrs a| |sc st|pi m hc rk dl cc|j oc rk|dt|j|f|g|k]; cbn [step]; try discriminate.
  - apply UpdateClientConnState_pool_equiv, HI.
  - intros E; inv E. apply pool_equiv_refl.
  - destruct (nth_error (b_published s) pi) eqn:Ep; [|intros E; inv E; apply pool_equiv_refl].
    destruct (_ && _); [intros E; inv E; apply pool_equiv_refl|]. eapply Pick_pool_equiv; eauto.
  - intros E. apply poolview_equiv. eapply Done_poolview; eauto.
  - destruct (0 <=? dt); intros E; inv E; apply poolview_equiv; reflexivity.
  - destruct (nth_error (b_picks s) j); intros E; inv E; apply poolview_equiv; reflexivity.
  - intros E; inv E; apply poolview_equiv; reflexivity.
  - intros E; inv E; apply poolview_equiv; reflexivity.
  - destruct (nth_error (b_parked s) k) eqn:Ek; [|intros E; inv E; apply pool_equiv_refl].
    destruct (newSubConn _) as [s2 o2] eqn:En. intros E; inv E.
    assert (Hc : b_cfg s <> None) by (eapply InvG_cfg_parked; [apply HI|eapply nth_error_nonnil, Ek]).
    apply newSubConn_pool_equiv in En; [exact En|].
    apply Inv_set_parked; auto. intros pi Hpi. apply In_remove_nth in Hpi.
    destruct HI as (_&_&_&_&_&HS). apply (parked_valid HS), Hpi.
Qed.

Lemma mask_sp_poolview s s' : mask_sp s' = mask_sp s -> poolview s' = poolview s.
Proof. intros H. change (poolview (mask_sp s') = poolview (mask_sp s)). rewrite H. reflexivity. Qed.

(* ================================================================ refreshingScRefs *)
Lemma getReadySubConnRef_refr s key s' r found :
  getReadySubConnRef s key = (s', r, found) -> b_refr s' = b_refr s.
Proof.
  unfold getReadySubConnRef. destruct (aget (b_aff s) key); [|intros E; inv E; auto].
  destruct (negb _); [|intros E; inv E; auto].
  destruct (cfg_fallback s); [|intros E; inv E; auto].
  destruct (aget (b_fb s) key); [intros E; inv E; auto|].
  destruct (b_picker s); [intros E; inv E; auto|].
  destruct (leastBusy s refs); [|intros E; inv E; auto].
  destruct (get_slot s n0); intros E; inv E; auto.
Qed.

Lemma bindSubConn_refr s key sc : b_refr (bindSubConn s key sc) = b_refr s.
Proof. unfold bindSubConn. destruct (aget (b_screfs s) sc); [|auto]. destruct (aget (b_aff s) key); auto. Qed.

Lemma fold_bindSubConn_refr keys sc : forall s,
  b_refr (fold_left (fun st k => bindSubConn st k sc) keys s) = b_refr s.
Proof.
  induction keys as [|k r IH]; intros s; cbn [fold_left]; [auto|]. rewrite IH. apply bindSubConn_refr.
Qed.

Lemma unbindSubConn_refr s key : b_refr (unbindSubConn s key) = b_refr s.
Proof. unfold unbindSubConn. destruct (aget (b_aff s) key); [|auto]. destruct (aget (b_screfs s) n); auto. Qed.

Lemma done_bind_refr s2 p oc rk : b_refr (done_bind s2 p oc rk) = b_refr s2.
Proof.
  unfold done_bind. destruct oc; auto. destruct (pk_cmd p); auto.
  - destruct (_ && _); auto. destruct (get_slot s2 (pk_slot p)); auto. apply fold_bindSubConn_refr.
  - apply unbindSubConn_refr.
Qed.

(* the address list: only a resolver update changes it *)
Lemma step_addrs raw s o order s' outs r :
  Inv s -> step raw s o order = (s', outs, r) ->
  b_addrs s' = match o with OpResolver a _ => a | _ => b_addrs s end.
Proof.
  intros HI. destruct o as [addrs a| |sc st|pi m hc rk dl cc|j oc rk|dt|j|f|g|k]; cbn [step].
  - rewrite UpdateClientConnState_eq.
    destruct (ucc_init s addrs a raw) as [[s2 o2]|] eqn:E0; [|intros E; inv E; reflexivity].
    destruct (ucc_init_Inv _ _ _ _ _ _ HI E0) as [_ [_ Ha]].
    destruct (_ =? _)%nat; [|intros E; injection E as <- _ _; exact Ha].
    destruct (addSubConn s2) as [[s3 ok] o3] eqn:E3. intros E; injection E as <- _ _.
    apply addSubConn_views in E3. destruct E3 as [_ [H _]]. apply envview_inv in H.
    destruct H as (_&_&H&_). rewrite H. exact Ha.
  - intros E; inv E. reflexivity.
  - destruct (UpdateSubConnState s sc st order) as [s1 o1] eqn:E1. intros E; inv E.
    eapply UpdateSubConnState_Inv in E1; eauto. destruct E1 as [_ HF]. apply (uf_addrs _ _ HF).
  - destruct (nth_error (b_published s) pi); [|intros E; inv E; reflexivity].
    destruct (_ && _); [intros E; inv E; reflexivity|].
    intros E. apply Pick_views in E. destruct E as [_ [H _]]. apply envview_inv in H. tauto.
  - intros E. apply Done_views in E. destruct E as [_ [H _]]. apply envview_inv in H. tauto.
  - destruct (0 <=? dt); intros E; inv E; reflexivity.
  - destruct (nth_error (b_picks s) j); intros E; inv E; reflexivity.
  - intros E; inv E; reflexivity.
  - intros E; inv E; reflexivity.
  - destruct (nth_error (b_parked s) k); [|intros E; inv E; reflexivity].
    destruct (newSubConn _) as [s2 o2] eqn:En. intros E; inv E.
    apply newSubConn_views in En. destruct En as [_ [H _]]. apply envview_inv in H. tauto.
Qed.

(* ================================================================ picks *)
Lemma refresh_picks s i s' o : refresh s i = (s', o) -> b_picks s' = b_picks s.
Proof.
  intros E. destruct (refresh_cases s i) as [[E' _]|[r [Es [Er [[_ E']|[_ E']]]]]];
    rewrite E' in E; inv E; reflexivity.
Qed.

Lemma detectUnresponsive_picks s p oc s' o : detectUnresponsive s p oc = (s', o) -> b_picks s' = b_picks s.
Proof.
  unfold detectUnresponsive.
  destruct (negb (b_undet s)); [intros E; inv E; reflexivity|].
  destruct (negb _); [intros E; inv E; reflexivity|].
  destruct (get_slot s (pk_slot p)) as [r|]; [|intros E; inv E; reflexivity].
  destruct (pk_started p <? sl_last r); [intros E; inv E; reflexivity|].
  destruct (_ && _); [|intros E; inv E; reflexivity].
  intros E. apply refresh_picks in E. exact E.
Qed.

Lemma bindSubConn_picks s key sc : b_picks (bindSubConn s key sc) = b_picks s.
Proof. unfold bindSubConn. destruct (aget (b_screfs s) sc); [|auto]. destruct (aget (b_aff s) key); auto. Qed.

Lemma fold_bindSubConn_picks keys sc : forall s,
  b_picks (fold_left (fun st k => bindSubConn st k sc) keys s) = b_picks s.
Proof.
  induction keys as [|k r IH]; intros s; cbn [fold_left]; [auto|]. rewrite IH. apply bindSubConn_picks.
Qed.

Lemma unbindSubConn_picks s key : b_picks (unbindSubConn s key) = b_picks s.
Proof. unfold unbindSubConn. destruct (aget (b_aff s) key); [|auto]. destruct (aget (b_screfs s) n); auto. Qed.

Lemma done_bind_picks s2 p oc rk : b_picks (done_bind s2 p oc rk) = b_picks s2.
Proof.
  unfold done_bind. destruct oc; auto. destruct (pk_cmd p); auto.
  - destruct (_ && _); auto. destruct (get_slot s2 (pk_slot p)); auto. apply fold_bindSubConn_picks.
  - apply unbindSubConn_picks.
Qed.

Lemma Done_picks s j oc rk s' o r :
  Done s j oc rk = (s', o, r) -> r <> RBadOp ->
  exists p, nth_error (b_picks s) j = Some p /\ pk_status p = PPlaced /\
            b_picks s' = upd_nth j finish_pick (b_picks s).
Proof.
  rewrite Done_eq. destruct (nth_error (b_picks s) j) as [p|]; [|intros E; inv E; congruence].
  destruct (pk_status p) eqn:Est; try (intros E; inv E; congruence).
  destruct (detectUnresponsive (done_s1 s j p) p oc) as [s2 o2] eqn:Ed. intros E; inv E. intros _.
  exists p. split; [reflexivity|split; [exact Est|]].
  rewrite done_bind_picks. apply detectUnresponsive_picks in Ed. rewrite Ed. reflexivity.
Qed.
