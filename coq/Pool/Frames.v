(* Engine A proofs: frame lemmas.  Which operations can change which part of
   the state:
     pubview  (counters, aggregate state, picker, published pickers): only UpdateSubConnState
     envview  (cfg, undet, addrs, now, fail, gate): cfg/undet/addrs only UpdateClientConnState,
              now only OpAdvance, fail only OpFactory, gate only OpGate
   and the shape of the calls made on the ClientConn when the pool grows. *)
From GV Require Import Base.AListFacts Pool.Model Pool.Observe Pool.Monitors Pool.Lemmas Pool.Inv Pool.Inv2.
From Coq Require Import Lia ZifyBool.
Open Scope Z_scope.

Definition pubview (s : bal) := (b_nready s, b_nconn s, b_ntf s, b_state s, b_picker s, b_published s).
Definition envview (s : bal) := (b_cfg s, b_undet s, b_addrs s, b_now s, b_fail s, b_gate s).

Lemma pubview_inv s s' : pubview s' = pubview s ->
  b_nready s' = b_nready s /\ b_nconn s' = b_nconn s /\ b_ntf s' = b_ntf s /\ b_state s' = b_state s /\
  b_picker s' = b_picker s /\ b_published s' = b_published s.
Proof. unfold pubview. intros H; inv H. tauto. Qed.

Lemma envview_inv s s' : envview s' = envview s ->
  b_cfg s' = b_cfg s /\ b_undet s' = b_undet s /\ b_addrs s' = b_addrs s /\ b_now s' = b_now s /\
  b_fail s' = b_fail s /\ b_gate s' = b_gate s.
Proof. unfold envview. intros H; inv H. tauto. Qed.

Lemma grow_frame_views s s' : grow_frame s s' -> pubview s' = pubview s /\ envview s' = envview s.
Proof. intros []. unfold pubview, envview. split; congruence. Qed.

Lemma usc_frame_envview s s' : usc_frame s s' -> envview s' = envview s.
Proof. intros []. unfold envview. congruence. Qed.

Lemma mask_sp_views s s' : mask_sp s' = mask_sp s -> pubview s' = pubview s /\ envview s' = envview s.
Proof.
  intros H. split.
  - change (pubview (mask_sp s') = pubview (mask_sp s)). rewrite H. reflexivity.
  - change (envview (mask_sp s') = envview (mask_sp s)). rewrite H. reflexivity.
Qed.

(* ---------------------------------------------------------------- publication-related outputs *)
Lemma outs_pubs_app a b : outs_pubs (a ++ b) = outs_pubs a ++ outs_pubs b.
Proof. induction a as [|x r IH]; cbn; [reflexivity|]. destruct x; cbn; rewrite ?IH; reflexivity. Qed.

Definition no_pub (o : list out) : Prop := outs_pubs o = [].

Lemma no_pub_app a b : no_pub a -> no_pub b -> no_pub (a ++ b).
Proof. unfold no_pub. intros Ha Hb. rewrite outs_pubs_app, Ha, Hb. reflexivity. Qed.

Lemma no_pub_update_refr s : no_pub (update_refr s).
Proof. unfold no_pub, update_refr. induction (b_refr s) as [|x r IH]; cbn; auto. Qed.

Lemma no_pub_update_all s : no_pub (update_all s).
Proof.
  unfold update_all. apply no_pub_app; [|apply no_pub_update_refr].
  unfold no_pub. induction (b_screfs s) as [|x r IH]; cbn; auto.
Qed.

(* ---------------------------------------------------------------- per function *)
Lemma addSubConn_views s s' ok o :
  addSubConn s = (s', ok, o) -> pubview s' = pubview s /\ envview s' = envview s /\ no_pub o.
Proof.
  intros E. destruct (addSubConn_cases s) as [[_ E']|[_ E']]; rewrite E' in E; inv E; repeat split; reflexivity.
Qed.

Lemma enforceMinSize_views s s' o :
  enforceMinSize s = (s', o) -> pubview s' = pubview s /\ envview s' = envview s /\ no_pub o.
Proof.
  revert s' o. apply (enforceMinSize_ind (fun s' o => pubview s' = pubview s /\ envview s' = envview s /\ no_pub o)).
  - repeat split; reflexivity.
  - intros s1 o1 s2 ok o2 [H1 [H2 H3]] _ E. apply addSubConn_views in E. destruct E as [H4 [H5 H6]].
    repeat split; [congruence|congruence|apply no_pub_app; auto].
Qed.

Lemma newSubConn_views s s' o :
  newSubConn s = (s', o) -> pubview s' = pubview s /\ envview s' = envview s /\ no_pub o.
Proof.
  unfold newSubConn. destruct (_ && _); [intros E; inv E; repeat split; reflexivity|].
  destruct (existsb _ _); [intros E; inv E; repeat split; reflexivity|].
  destruct (addSubConn s) as [[s1 ok] o1] eqn:E1. intros E; inv E. eapply addSubConn_views; eauto.
Qed.

Lemma UpdateClientConnState_pubview s addrs a raw s' o r :
  UpdateClientConnState s addrs a raw = (s', o, r) ->
  pubview s' = pubview s /\ no_pub o /\ b_now s' = b_now s /\ b_fail s' = b_fail s /\ b_gate s' = b_gate s.
Proof.
  rewrite UpdateClientConnState_eq. unfold ucc_init. sb.
  assert (G : forall s2 o2,
    pubview s2 = pubview s /\ (b_now s2 = b_now s /\ b_fail s2 = b_fail s /\ b_gate s2 = b_gate s) /\ no_pub o2 ->
    (if (length (b_screfs s2) =? 0)%nat
     then let '(s3, _, o3) := addSubConn s2 in (s3, o2 ++ o3 ++ update_refr s3, RNone)
     else (s2, o2 ++ update_all s2, RNone)) = (s', o, r) ->
    pubview s' = pubview s /\ no_pub o /\ b_now s' = b_now s /\ b_fail s' = b_fail s /\ b_gate s' = b_gate s).
  { intros s2 o2 [H1 [H2 H3]]. destruct (_ =? _)%nat.
    - destruct (addSubConn s2) as [[s3 ok] o3] eqn:E3. intros E; inv E.
      apply addSubConn_views in E3. destruct E3 as [H4 [H5 H6]].
      apply envview_inv in H5.
      split; [congruence|split; [|intuition congruence]]. repeat apply no_pub_app; auto using no_pub_update_refr.
    - intros E; inv E.
      split; [auto|split; [|tauto]]. apply no_pub_app; auto using no_pub_update_all. }
  assert (G2 : forall c s2 o2, enforceMinSize (set_undet (set_cfg (set_addrs s addrs) (Some c))
                                 ((0 <? c_ucalls c) && (0 <? c_ums c))) = (s2, o2) ->
     pubview s2 = pubview s /\ (b_now s2 = b_now s /\ b_fail s2 = b_fail s /\ b_gate s2 = b_gate s) /\ no_pub o2).
  { intros c s2 o2 Ei. apply enforceMinSize_views in Ei. destruct Ei as [H1 [H2 H3]].
    apply envview_inv in H2. cbn in H2. split; [exact H1|split; [tauto|exact H3]]. }
  destruct (b_cfg s).
  - apply G. repeat split; reflexivity.
  - destruct a.
    + destruct (initializeConfig (set_addrs s addrs) None) as [s2 o2] eqn:Ei. apply G. eapply G2, Ei.
    + intros E; inv E. repeat split; reflexivity.
    + destruct (initializeConfig (set_addrs s addrs) raw) as [s2 o2] eqn:Ei. apply G. eapply G2, Ei.
Qed.

Lemma getReadySubConnRef_views s key s' r found :
  getReadySubConnRef s key = (s', r, found) -> pubview s' = pubview s /\ envview s' = envview s.
Proof.
  unfold getReadySubConnRef. destruct (aget (b_aff s) key); [|intros E; inv E; auto].
  destruct (negb _); [|intros E; inv E; auto].
  destruct (cfg_fallback s); [|intros E; inv E; auto].
  destruct (aget (b_fb s) key); [intros E; inv E; auto|].
  destruct (b_picker s); [intros E; inv E; auto|].
  destruct (leastBusy s refs); [|intros E; inv E; auto].
  destruct (get_slot s n0); intros E; inv E; auto.
Qed.

Lemma pick_dec_views s key refs s1 dec :
  pick_dec s key refs = (s1, dec) -> pubview s1 = pubview s /\ envview s1 = envview s.
Proof.
  unfold pick_dec. destruct (negb _); [|intros E; inv E; auto].
  destruct (getReadySubConnRef s key) as [[s' r] found] eqn:Eg.
  apply getReadySubConnRef_views in Eg. destruct found; intros E; inv E; auto.
Qed.

Lemma Pick_views s pi pk method hasctx reqkeys deadline cancelled s' o r :
  Pick s pi pk method hasctx reqkeys deadline cancelled = (s', o, r) ->
  pubview s' = pubview s /\ envview s' = envview s /\ no_pub o.
Proof.
  rewrite Pick_eq. destruct pk as [[|]|[|a l]]; try (intros E; inv E; repeat split; reflexivity).
  destruct (pick_keyres s method hasctx reqkeys) as [key|]; [|intros E; inv E; repeat split; reflexivity].
  destruct (_ && _).
  - unfold pick_rr. destruct (b_slots s); [intros E; inv E; repeat split; reflexivity|].
    unfold pick_rr_body. cbv zeta. destruct (get_slot _ _); [|intros E; inv E; repeat split; reflexivity].
    destruct (_ || _); intros E; inv E; repeat split; reflexivity.
  - unfold pick_lb. destruct (pick_dec s key (a :: l)) as [s1 dec] eqn:Ed.
    apply pick_dec_views in Ed. destruct Ed as [H1 H2]. destruct dec as [i| |].
    + destruct (get_slot s1 i); intros E; inv E; repeat split; auto.
    + destruct (b_gate s1); [intros E; inv E; repeat split; auto|].
      destruct (newSubConn s1) as [s2 o2] eqn:En. intros E; inv E.
      apply newSubConn_views in En. destruct En as [H3 [H4 H5]]. repeat split; [congruence|congruence|auto].
    + intros E; inv E; repeat split; auto.
Qed.

Lemma refresh_views s i s' o :
  refresh s i = (s', o) -> pubview s' = pubview s /\ envview s' = envview s /\ no_pub o.
Proof.
  intros E. destruct (refresh_cases s i) as [[E' _]|[r [Es [Er [[_ E']|[_ E']]]]]];
    rewrite E' in E; inv E; repeat split; reflexivity.
Qed.

Lemma detectUnresponsive_views s p oc s' o :
  detectUnresponsive s p oc = (s', o) -> pubview s' = pubview s /\ envview s' = envview s /\ no_pub o.
Proof.
  unfold detectUnresponsive.
  destruct (negb (b_undet s)); [intros E; inv E; repeat split; reflexivity|].
  destruct (negb _); [intros E; inv E; repeat split; reflexivity|].
  destruct (get_slot s (pk_slot p)) as [r|]; [|intros E; inv E; repeat split; reflexivity].
  destruct (pk_started p <? sl_last r); [intros E; inv E; repeat split; reflexivity|].
  destruct (_ && _); [|intros E; inv E; repeat split; reflexivity].
  intros E. apply refresh_views in E. exact E.
Qed.

Lemma bindSubConn_views s key sc :
  pubview (bindSubConn s key sc) = pubview s /\ envview (bindSubConn s key sc) = envview s.
Proof.
  unfold bindSubConn. destruct (aget (b_screfs s) sc); [|auto]. destruct (aget (b_aff s) key); auto.
Qed.

Lemma fold_bindSubConn_views keys sc : forall s,
  pubview (fold_left (fun st k => bindSubConn st k sc) keys s) = pubview s /\
  envview (fold_left (fun st k => bindSubConn st k sc) keys s) = envview s.
Proof.
  induction keys as [|k r IH]; intros s; cbn [fold_left]; [auto|].
  destruct (IH (bindSubConn s k sc)) as [H1 H2]. destruct (bindSubConn_views s k sc) as [H3 H4].
  split; [rewrite H1; exact H3|rewrite H2; exact H4].
Qed.

Lemma unbindSubConn_views s key :
  pubview (unbindSubConn s key) = pubview s /\ envview (unbindSubConn s key) = envview s.
Proof.
  unfold unbindSubConn. destruct (aget (b_aff s) key); [|auto]. destruct (aget (b_screfs s) n); auto.
Qed.

Lemma done_bind_views s2 p oc rk :
  pubview (done_bind s2 p oc rk) = pubview s2 /\ envview (done_bind s2 p oc rk) = envview s2.
Proof.
  unfold done_bind. destruct oc; auto. destruct (pk_cmd p); auto.
  - destruct (_ && _); auto. destruct (get_slot s2 (pk_slot p)); auto. apply fold_bindSubConn_views.
  - apply unbindSubConn_views.
Qed.

Lemma Done_views s j oc rk s' o r :
  Done s j oc rk = (s', o, r) -> pubview s' = pubview s /\ envview s' = envview s /\ no_pub o.
Proof.
  rewrite Done_eq. destruct (nth_error (b_picks s) j) as [p|]; [|intros E; inv E; repeat split; reflexivity].
  destruct (pk_status p); try (intros E; inv E; repeat split; reflexivity).
  destruct (detectUnresponsive (done_s1 s j p) p oc) as [s2 o2] eqn:Ed. intros E; inv E.
  apply detectUnresponsive_views in Ed. destruct Ed as [H1 [H2 H3]].
  destruct (done_bind_views s2 p oc rk) as [H4 H5]. repeat split; [|rewrite H5, H2; reflexivity|auto].
  rewrite H4, H1. reflexivity.
Qed.

Definition is_connstate (o : op) : bool := match o with OpConnState _ _ => true | _ => false end.

Lemma step_pubview raw s o order s' outs r :
  is_connstate o = false -> step raw s o order = (s', outs, r) -> pubview s' = pubview s /\ no_pub outs.
Proof.
  intros Ho. destruct o as [addrs a| |sc st|pi m hc rk dl cc|j oc rk|dt|j|f|g|k]; cbn [step]; try discriminate.
  - intros E. apply UpdateClientConnState_pubview in E. tauto.
  - intros E; inv E. split; reflexivity.
  - destruct (nth_error (b_published s) pi); [|intros E; inv E; split; reflexivity].
    destruct (_ && _); [intros E; inv E; split; reflexivity|].
    intros E. apply Pick_views in E. tauto.
  - intros E. apply Done_views in E. tauto.
  - destruct (0 <=? dt); intros E; inv E; split; reflexivity.
  - destruct (nth_error (b_picks s) j); intros E; inv E; split; reflexivity.
  - intros E; inv E; split; reflexivity.
  - intros E; inv E; split; reflexivity.
  - destruct (nth_error (b_parked s) k); [|intros E; inv E; split; reflexivity].
    destruct (newSubConn _) as [s2 o2] eqn:En. intros E; inv E.
    apply newSubConn_views in En. destruct En as [H1 [_ H3]]. split; auto.
Qed.
