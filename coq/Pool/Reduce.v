(* Engine A proofs: the generic reduction used by every property proof.

   To prove  monitor pid raw (observe init_bal) (run raw init_bal ops) = true
   it suffices to exhibit a model-state invariant [Inv], a relation [Sim]
   between the model state and the monitor's bookkeeping, and to show that one
   full step keeps both and passes the per-event check.  An optional per-step
   guard [Guard s o order] (evaluated in the state before the step) carries the
   hypotheses of guarded theorems (harness-legal histories, size bounds). *)
From GV Require Import Pool.Model Pool.Observe Pool.Monitors.

Section Reduce.
  Variable pid : prop_id.
  Variable raw : option config.
  Variable Inv : bal -> Prop.            (* model-state invariant *)
  Variable Sim : bal -> mstate -> Prop.  (* monitor bookkeeping vs model state *)
  Variable Guard : bal -> op -> list nat -> Prop.

  (* the guard holds before every step of the run *)
  Fixpoint guarded (s : bal) (ops : list (op * list nat)) : Prop :=
    match ops with
    | [] => True
    | (o, order) :: r =>
        Guard s o order /\
        let '(s', _, _, _) := full_step raw s o order in guarded s' r
    end.

  Hypothesis step_ok : forall s ms o order s' outs rt ub,
    Inv s -> Sim s ms -> Guard s o order ->
    full_step raw s o order = (s', outs, rt, ub) ->
    let ev := mkEvent o outs rt ub (Some (observe s')) in
    Inv s' /\ Sim s' (track raw ms (observe s) ev (observe s')) /\
    event_ok pid raw ms (observe s) ev = true.

  Theorem mon_from_run : forall ops s ms,
    Inv s -> Sim s ms -> guarded s ops ->
    mon_from pid raw ms (observe s) (run raw s ops) = true.
  Proof.
    induction ops as [|[o order] r IH]; intros s ms HI HS HG; [reflexivity|].
    cbn [run guarded] in *. destruct HG as [Hg HG].
    destruct (full_step raw s o order) as [[[s' outs] rt] ub] eqn:E.
    destruct (step_ok s ms o order s' outs rt ub HI HS Hg E) as [HI' [HS' Hev]].
    cbn [mon_from ev_obs]. rewrite Hev. cbn [andb]. apply IH; assumption.
  Qed.

  (* the invariant holds in every state of a guarded run *)
  Theorem inv_run_state : forall ops s ms,
    Inv s -> Sim s ms -> guarded s ops -> Inv (run_state raw s ops).
  Proof.
    induction ops as [|[o order] r IH]; intros s ms HI HS HG; [exact HI|].
    cbn [run_state guarded] in *. destruct HG as [Hg HG].
    destruct (full_step raw s o order) as [[[s' outs] rt] ub] eqn:E.
    destruct (step_ok s ms o order s' outs rt ub HI HS Hg E) as [HI' [HS' Hev]].
    eapply IH; eassumption.
  Qed.

  Hypothesis Inv_init : Inv init_bal.
  Hypothesis Sim_init : Sim init_bal ms_init.

  Theorem monitor_run : forall ops,
    guarded init_bal ops ->
    monitor pid raw (observe init_bal) (run raw init_bal ops) = true.
  Proof. intros ops HG. unfold monitor. apply mon_from_run; assumption. Qed.
End Reduce.

(* guards that are conjunctions / trivially true *)
Lemma guarded_True raw s ops : guarded raw (fun _ _ _ => True) s ops.
Proof.
  revert s. induction ops as [|[o order] r IH]; intros s; cbn; [exact I|].
  split; [exact I|]. destruct (full_step raw s o order) as [[[s' ?] ?] ?]. apply IH.
Qed.

Lemma guarded_impl raw (G1 G2 : bal -> op -> list nat -> Prop) :
  (forall s o order, G1 s o order -> G2 s o order) ->
  forall ops s, guarded raw G1 s ops -> guarded raw G2 s ops.
Proof.
  intros H. induction ops as [|[o order] r IH]; intros s; cbn; [auto|].
  intros [Hg HG]. split; [auto|]. destruct (full_step raw s o order) as [[[s' ?] ?] ?]. auto.
Qed.

Lemma guarded_and raw (G1 G2 : bal -> op -> list nat -> Prop) :
  forall ops s, guarded raw G1 s ops -> guarded raw G2 s ops ->
                guarded raw (fun s o order => G1 s o order /\ G2 s o order) s ops.
Proof.
  induction ops as [|[o order] r IH]; intros s; cbn; [auto|].
  intros [Hg1 HG1] [Hg2 HG2]. split; [auto|].
  destruct (full_step raw s o order) as [[[s' ?] ?] ?]. auto.
Qed.

(* [run] always records an observation, and its events are those of [full_step] *)
Lemma run_obs_some raw : forall ops s ev, In ev (run raw s ops) -> ev_obs ev <> None.
Proof.
  induction ops as [|[o order] r IH]; intros s ev; cbn; [tauto|].
  destruct (full_step raw s o order) as [[[s' outs] rt] ub].
  intros [H|H]; [subst; discriminate|eauto].
Qed.

(* guards that are predicates on the states of the run *)
Fixpoint run_states (raw : option config) (s : bal) (ops : list (op * list nat)) : list bal :=
  s :: match ops with
       | [] => []
       | (o, order) :: r => let '(s', _, _, _) := full_step raw s o order in run_states raw s' r
       end.

Definition state_guard (raw : option config) (P : bal -> Prop) (s : bal) (o : op) (order : list nat) : Prop :=
  P s /\ let '(s', _, _, _) := full_step raw s o order in P s'.

Lemma guarded_states raw (P : bal -> Prop) : forall ops s,
  Forall P (run_states raw s ops) -> guarded raw (state_guard raw P) s ops.
Proof.
  induction ops as [|[o order] r IH]; intros s H; cbn; [exact I|].
  cbn in H. unfold state_guard. destruct (full_step raw s o order) as [[[s' outs] rt] ub].
  inversion H as [|? ? H1 H2]; subst. split; [split; [exact H1|]|apply IH, H2].
  destruct r as [|[o' order'] r']; cbn in H2; inversion H2; assumption.
Qed.

(* guards on the events of the run *)
Definition event_guard (raw : option config) (Q : event -> Prop) (s : bal) (o : op) (order : list nat) : Prop :=
  let '(s', outs, rt, ub) := full_step raw s o order in Q (mkEvent o outs rt ub (Some (observe s'))).

Lemma guarded_events raw (Q : event -> Prop) : forall ops s,
  Forall Q (run raw s ops) -> guarded raw (event_guard raw Q) s ops.
Proof.
  induction ops as [|[o order] r IH]; intros s H; cbn; [exact I|].
  cbn in H. unfold event_guard. destruct (full_step raw s o order) as [[[s' outs] rt] ub].
  inversion H; subst. split; [assumption|apply IH; assumption].
Qed.
