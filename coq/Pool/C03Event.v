(* Engine A proofs, C03 (pool size): the per-event check of the monitor
   ([c03_event]) on a model step, clause by clause. *)
From GV Require Import Base.AListFacts Pool.Model Pool.Observe Pool.Monitors
                       Pool.Lemmas Pool.Inv Pool.Inv2 Pool.Frames Pool.Sim
                       Pool.C03Outs Pool.C03Size Pool.C03Pick Pool.C03Step.
From Coq Require Import Lia ZifyBool.
Open Scope Z_scope.

(* ---------------------------------------------------------------- the four clauses *)
Definition c03_init (e : config) (ms : mstate) (before : obs) (ev : event) (after : obs) : bool :=
  match ev_op ev with
  | OpResolver a _ =>
      if negb (o_cfgset before) && o_cfgset after && negb (N.eqb a 0) && negb (ms_fail ms)
      then o_pool_size after =? c_min e else true
  | _ => true
  end.

Definition c03_bound (slack : Z) (e : config) (after : obs) : bool :=
  if o_cfgset after && (c_min e <=? c_max e) then o_pool_size after <=? c_max e + slack else true.

Definition busy_obs (kv : N * cstate) : bool := cstate_eqb (snd kv) Idle || cstate_eqb (snd kv) Connecting.

Definition c03_create (raw : option config) (e : config) (ms : mstate) (before : obs) (ev : event) : bool :=
  match ev_op ev with
  | OpResolver _ _ => if has_newsc (ev_out ev) then o_pool_size before =? 0 else true
  | OpResume _ =>
      if has_newsc (ev_out ev) then
        match ev_ret ev with
        | RNoSubConn =>
            (o_pool_size before <? c_max e) && negb (existsb busy_obs (o_st before)) &&
            Nat.eqb (count_newsc (ev_out ev)) 1
        | _ => false
        end
      else true
  | OpPick pi m hasctx reqkeys _ _ =>
      if match ev_ret ev with RParked => true | _ => false end then
        match nth_picker ms pi with
        | Some (PSnap refs) =>
            by_load raw before m hasctx reqkeys && (o_pool_size before <? c_max e) &&
            forallb (fun j => c_wm e <=? o_streams before j) refs && negb (has_newsc (ev_out ev))
        | _ => false
        end
      else
      if has_newsc (ev_out ev) then
        match ev_ret ev, nth_picker ms pi with
        | RNoSubConn, Some (PSnap refs) =>
            by_load raw before m hasctx reqkeys &&
            (o_pool_size before <? c_max e) &&
            negb (existsb busy_obs (o_st before)) &&
            forallb (fun j => c_wm e <=? o_streams before j) refs &&
            Nat.eqb (count_newsc (ev_out ev)) 1
        | _, _ => false
        end
      else
        match nth_picker ms pi with
        | Some (PSnap (_ :: _)) =>
            if by_load raw before m hasctx reqkeys && (c_max e <=? o_pool_size before)
            then ret_is_picked (ev_ret ev) else true
        | _ => true
        end
  | OpDone _ _ _ => (count_newsc (ev_out ev) <=? 1)%nat
  | _ => negb (has_newsc (ev_out ev))
  end.

Definition c03_remove (before : obs) (ev : event) : bool :=
  match removes (ev_out ev) with
  | [] => true
  | [old] =>
      match ev_op ev with
      | OpConnState sc Ready =>
          match aget (o_refr before) sc with
          | Some i => match conn_of_slot before i with Some c => N.eqb c old | None => false end
          | None => false
          end
      | _ => false
      end
  | _ => false
  end.

Lemma c03_event_eq slack raw ms before ev after :
  c03_event slack raw ms before ev after =
  c03_init (eff raw) ms before ev after && c03_bound slack (eff raw) after &&
  c03_create raw (eff raw) ms before ev && c03_remove before ev.
Proof. reflexivity. Qed.

(* ---------------------------------------------------------------- the observation of a model state *)
Lemma o_pool_size_observe s : o_pool_size (observe s) = pool_size s.
Proof. unfold o_pool_size, pool_size, observe; cbn [o_refs]. rewrite asort_length. reflexivity. Qed.

Lemma existsb_ext' {A} (f g : A -> bool) l : (forall x, f x = g x) -> existsb f l = existsb g l.
Proof. intros H. induction l as [|x r IH]; cbn [existsb]; [reflexivity|]. rewrite H, IH. reflexivity. Qed.

Lemma busy_observe s : existsb busy_obs (o_st (observe s)) = existsb busy_conn (b_scstates s).
Proof.
  cbn [observe o_st]. rewrite existsb_asort. apply existsb_ext'. intros kv. unfold busy_obs, busy_conn. apply orb_comm.
Qed.

Lemma is_resurrection_revives s ev : InvK s -> is_resurrection (observe s) ev = revives s (ev_op ev).
Proof.
  intros HK. unfold is_resurrection, revives. destruct (ev_op ev); try reflexivity. destruct st; try reflexivity.
  cbn [observe o_refr]. rewrite aget_asort by apply (nd_refr HK).
  destruct (aget (b_refr s) sc) as [i|]; [|reflexivity].
  unfold o_slot_in_pool, o_slot, get_slot. cbn [observe o_slots o_refs].
  destruct (nth_error (b_slots s) i) as [ref|]; [|reflexivity].
  rewrite aget_asort by apply (nd_screfs HK). destruct (aget (b_screfs s) (sl_conn ref)); reflexivity.
Qed.

Lemma by_load_link raw s ms o c m hc rk :
  Inv s -> Sim_cfg s ms -> b_cfg s = Some c ->
  by_load (raw_in_force raw ms o) (observe s) m hc rk = load_routed s m hc rk.
Proof.
  intros HI HSc Hc. destruct (pick_fields_link raw s ms o c m hc rk HSc Hc) as (_&_&L3&L4).
  unfold by_load, load_routed. rewrite L3, L4. destruct (pick_keyres s m hc rk) as [k|]; [|reflexivity].
  cbn [observe o_aff]. rewrite aget_asort by apply (nd_aff (proj1 HI)). reflexivity.
Qed.

(* the configuration the monitor uses for the event is the one in force after it *)
Lemma cfg_after_in_force raw s ms o s1 c :
  Sim_cfg s ms ->
  b_cfg s1 = match b_cfg s with
             | Some c => Some c
             | None => match o with
                       | OpResolver _ CfgNil => Some (effective None)
                       | OpResolver _ CfgVal => Some (effective raw)
                       | _ => None
                       end
             end ->
  b_cfg s1 = Some c -> c = eff (raw_in_force raw ms o).
Proof.
  intros HSc E Hc. unfold eff. rewrite E in Hc. destruct (b_cfg s) as [c0|] eqn:E0.
  - injection Hc as <-. eapply Sim_cfg_in_force; eauto.
  - unfold Sim_cfg in HSc. unfold raw_in_force. destruct (ms_raw ms); [congruence|].
    destruct o; try discriminate. destruct a; try discriminate; injection Hc as <-; reflexivity.
Qed.

Lemma cfg_before_in_force raw s ms o c :
  Sim_cfg s ms -> b_cfg s = Some c -> c = eff (raw_in_force raw ms o).
Proof. apply Sim_cfg_in_force. Qed.

(* ---------------------------------------------------------------- clause 1: the initial size *)
Lemma c03_init_holds raw s ms o order s1 s' outs rt ub :
  Inv s -> CfgWf s1 -> Sim_cfg s ms -> Sim_fail s ms ->
  step raw s o order = (s1, outs, rt) -> b_screfs s' = b_screfs s1 -> b_cfg s' = b_cfg s1 ->
  c03_init (eff (raw_in_force raw ms o)) ms (observe s) (mkEvent o outs rt ub (Some (observe s'))) (observe s') = true.
Proof.
  intros HI HW1 HSc HSf Es Hr Hc. unfold c03_init. cbn [ev_op].
  destruct o as [addrs a| | | | | | | | | ]; try reflexivity.
  destruct (negb (o_cfgset (observe s)) && o_cfgset (observe s') && negb (N.eqb addrs 0) && negb (ms_fail ms)) eqn:Econd;
    [|reflexivity].
  cbn [observe o_cfgset] in Econd. rewrite Hc in Econd.
  destruct (b_cfg s) as [c0|] eqn:E0; [discriminate|].
  destruct (b_cfg s1) as [c1|] eqn:E1; [|discriminate].
  cbn [negb andb] in Econd. apply andb_true_iff in Econd. destruct Econd as [Ha Hf].
  apply negb_true_iff in Ha, Hf. apply N.eqb_neq in Ha. unfold Sim_fail in HSf. rewrite HSf in Hf.
  pose proof (step_cfg raw s (OpResolver addrs a) order s1 outs rt HI Es) as Hcfg.
  pose proof (cfg_after_in_force raw s ms (OpResolver addrs a) s1 c1 HSc Hcfg E1) as Ee.
  cbn [step] in Es. destruct (ucc_size_first _ _ _ _ _ _ _ HI E0 Es) as (_&_&Hs).
  destruct Hs as [_ Hs]; [congruence|].
  assert (Hmin : cfg_min s1 = c_min c1) by (unfold cfg_min; rewrite E1; reflexivity).
  destruct (HW1 c1 E1) as [Hm1 _]. rewrite Hmin in Hs. specialize (Hs Hf Ha Hm1).
  rewrite o_pool_size_observe. unfold pool_size in *. rewrite Hr, <- Ee. apply Z.eqb_eq, Hs.
Qed.

(* ---------------------------------------------------------------- clause 2: the bound *)
Lemma c03_bound_holds k e s' :
  SizeOK k s' -> (forall c, b_cfg s' = Some c -> c = e) -> c03_bound k e (observe s') = true.
Proof.
  intros [_ HS] He. unfold c03_bound. cbn [observe o_cfgset].
  destruct (b_cfg s') as [c|] eqn:Ec; [|reflexivity]. specialize (He c eq_refl). subst c.
  destruct (Z.leb_spec (c_min e) (c_max e)) as [Hm|Hm]; [|reflexivity]. cbn [andb].
  change (o_pool_size (observe s') <=? c_max e + k = true).
  rewrite o_pool_size_observe. apply Z.leb_le. apply HS; [reflexivity|exact Hm].
Qed.

(* ---------------------------------------------------------------- clause 4: removals *)
Lemma c03_remove_holds raw s o order s1 s' outs rt ub :
  Inv s -> step raw s o order = (s1, outs, rt) ->
  c03_remove (observe s) (mkEvent o outs rt ub (Some (observe s'))) = true.
Proof.
  intros HI Es. unfold c03_remove. cbn [ev_op ev_out].
  destruct (step_removes _ _ _ _ _ _ _ HI Es) as [->|[sc [i [ref (->&H1&H2&->)]]]]; [reflexivity|].
  cbn [observe o_refr]. rewrite aget_asort by apply (nd_refr (proj1 HI)). rewrite H1.
  unfold conn_of_slot, o_slot. cbn [observe o_slots]. unfold get_slot in H2. rewrite H2. apply N.eqb_refl.
Qed.

(* ---------------------------------------------------------------- clause 3: who creates connections *)
Lemma has_newsc_one o : one_new o -> has_newsc o = true /\ Nat.eqb (count_newsc o) 1 = true.
Proof. intros [H _]. rewrite has_newsc_count, H. split; reflexivity. Qed.

Lemma create_checks s e :
  cfg_max s = c_max e -> c_max e <> 0 ->
  (cfg_max s = 0 \/ pool_size s < cfg_max s) -> existsb busy_conn (b_scstates s) = false ->
  (o_pool_size (observe s) <? c_max e) = true /\ negb (existsb busy_obs (o_st (observe s))) = true.
Proof.
  intros Hm H0 Hlt Hb. rewrite o_pool_size_observe, busy_observe, Hb. split; [lia|reflexivity].
Qed.

Lemma grow_checks s e refs :
  cfg_max s = c_max e -> cfg_wm s = c_wm e -> c_max e <> 0 -> leastBusyDecision s refs = LBGrow ->
  (o_pool_size (observe s) <? c_max e) = true /\
  forallb (fun j => c_wm e <=? o_streams (observe s) j) refs = true.
Proof.
  intros Hm Hw H0 Hl. apply lbd_grow in Hl. destruct Hl as [Hlt Hwm].
  rewrite o_pool_size_observe. split; [lia|]. apply forallb_forall. intros j Hj.
  change (o_streams (observe s) j) with (streams_of s j). specialize (Hwm j Hj). lia.
Qed.

(* the configuration fields the monitor reads, for a state whose configuration is set *)
Lemma cfg_fields raw s ms o c :
  CfgWf s -> Sim_cfg s ms -> b_cfg s = Some c ->
  let e := eff (raw_in_force raw ms o) in
  cfg_max s = c_max e /\ cfg_wm s = c_wm e /\ c_max e <> 0.
Proof.
  intros HW HSc Hc e. pose proof (cfg_before_in_force raw s ms o c HSc Hc) as Ee. fold e in Ee.
  unfold cfg_max, cfg_wm. rewrite Hc, <- Ee. destruct (HW c Hc) as [_ H]. auto.
Qed.

Lemma c03_create_resume raw s ms k order s1 outs rt :
  Inv s -> CfgWf s -> Sim_cfg s ms ->
  step raw s (OpResume k) order = (s1, outs, rt) ->
  let e := eff (raw_in_force raw ms (OpResume k)) in
  (if has_newsc outs then
     match rt with
     | RNoSubConn =>
         (o_pool_size (observe s) <? c_max e) && negb (existsb busy_obs (o_st (observe s))) &&
         Nat.eqb (count_newsc outs) 1
     | _ => false
     end
   else true) = true.
Proof.
  intros HI HW HSc Es e. cbn [step] in Es.
  destruct (nth_error (b_parked s) k) as [x|] eqn:Ek; [|inv Es; reflexivity].
  assert (Hcfg : exists c, b_cfg s = Some c).
  { destruct (b_cfg s) eqn:Ec; [eauto|]. exfalso.
    eapply InvG_cfg_parked; [apply HI|eapply nth_error_nonnil, Ek|exact Ec]. }
  destruct Hcfg as [c Hc].
  destruct (cfg_fields raw s ms (OpResume k) c HW HSc Hc) as (Fm&_&F0). fold e in Fm, F0.
  destruct (newSubConn _) as [s2 o2] eqn:En. inv Es.
  apply newSubConn_cases in En. destruct En as [[_ ->]|[Hlt [Hb [ok Ea]]]]; [reflexivity|].
  destruct (has_newsc_one _ (addSubConn_outs _ _ _ _ Ea)) as [-> ->].
  destruct (create_checks s e Fm F0 Hlt Hb) as [-> ->]. reflexivity.
Qed.

Lemma c03_create_pick raw s ms pi m hc rk dl cc order s1 outs rt :
  Inv s -> CfgWf s -> Sim_pubs s ms -> Sim_cfg s ms -> rt <> RBadOp ->
  step raw s (OpPick pi m hc rk dl cc) order = (s1, outs, rt) ->
  forall ub ob,
  c03_create (raw_in_force raw ms (OpPick pi m hc rk dl cc)) (eff (raw_in_force raw ms (OpPick pi m hc rk dl cc)))
             ms (observe s) (mkEvent (OpPick pi m hc rk dl cc) outs rt ub ob) = true.
Proof.
  intros HI HW HSp HSc Hrt Es ub ob. unfold c03_create. cbn [ev_op]. set (o := OpPick pi m hc rk dl cc). cbn [ev_op ev_ret ev_out]. cbn [step] in Es.
  destruct (nth_error (b_published s) pi) as [pk|] eqn:Ep; [|inv Es; congruence].
  destruct (_ && _); [inv Es; congruence|].
  assert (Hcfg : exists c, b_cfg s = Some c).
  { destruct (b_cfg s) eqn:Ec; [eauto|]. exfalso.
    eapply InvG_cfg_pubs; [apply HI|eapply nth_error_nonnil, Ep|exact Ec]. }
  destruct Hcfg as [c Hc].
  destruct (cfg_fields raw s ms o c HW HSc Hc) as (Fm&Fw&F0).
  pose proof (by_load_link raw s ms o c m hc rk HI HSc Hc) as Hbl.
  unfold nth_picker. rewrite (proj1 HSp), Ep.
  set (e := eff (raw_in_force raw ms o)) in *.
  destruct (Pick_c03 _ _ _ _ _ _ _ _ _ _ _ HI Ep Es) as [(->&_&Hnp&Hpl)|[refs (->&Hl&Hg&Hcase)]].
  - (* the call does not grow the pool *)
    replace (match rt with RParked => true | _ => false end) with false by (destruct rt; congruence).
    cbn [has_newsc existsb]. destruct pk as [t|[|a l]]; try reflexivity.
    rewrite Hbl. destruct (load_routed s m hc rk) eqn:El; [|reflexivity].
    rewrite o_pool_size_observe. destruct (Z.leb_spec (c_max e) (pool_size s)) as [Hmax|Hmax]; [|reflexivity].
    cbn [andb]. apply (Hpl a l eq_refl eq_refl); lia.
  - destruct (grow_checks s e refs Fm Fw F0 Hg) as [G1 G2]. rewrite Hbl, Hl.
    destruct Hcase as [(_&->&->&_)|(_&->&En)].
    + (* parked just before newSubConn *)
      rewrite G1, G2. reflexivity.
    + apply newSubConn_cases in En. destruct En as [[_ ->]|[Hlt [Hb [ok Ea]]]].
      * (* lost the race: the pool is full or a connection is still coming up *)
        cbn [has_newsc existsb]. destruct refs as [|a l]; [reflexivity|].
        rewrite o_pool_size_observe in *. replace (c_max e <=? pool_size s) with false by lia.
        reflexivity.
      * destruct (has_newsc_one _ (addSubConn_outs _ _ _ _ Ea)) as [-> ->].
        destruct (create_checks s e Fm F0 Hlt Hb) as [_ ->]. rewrite G1, G2. reflexivity.
Qed.

Lemma c03_create_holds raw s ms o order s1 s' outs rt ub :
  Inv s -> CfgWf s -> Sim_pubs s ms -> Sim_cfg s ms ->
  (match o with OpPick _ _ _ _ _ _ => rt <> RBadOp | _ => True end) ->
  step raw s o order = (s1, outs, rt) ->
  c03_create (raw_in_force raw ms o) (eff (raw_in_force raw ms o)) ms (observe s)
             (mkEvent o outs rt ub (Some (observe s'))) = true.
Proof.
  intros HI HW HSp HSc Hrt Es.
  destruct o as [addrs a| |sc st|pi m hc rk dl cc|j oc rk|dt|j|f|g|k].
  - (* resolver update *)
    unfold c03_create. cbn [ev_op ev_out]. cbn [step] in Es.
    destruct (has_newsc outs) eqn:Eh; [|reflexivity]. rewrite o_pool_size_observe. apply Z.eqb_eq.
    destruct (b_cfg s) as [c|] eqn:Ec.
    + destruct (ucc_size_later _ _ _ _ _ _ _ _ HI Ec Es) as (_&H&_). apply H, Eh.
    + apply (ucc_size_first _ _ _ _ _ _ _ HI Ec Es).
  - cbn [step] in Es. inv Es. reflexivity.
  - (* connection state *)
    unfold c03_create. cbn [ev_op ev_out]. cbn [step] in Es.
    destruct (UpdateSubConnState s sc st order) as [s2 o2] eqn:E1. inv Es.
    destruct (UpdateSubConnState_c03 _ _ _ _ _ _ HI E1) as (Hn&_). rewrite (has_newsc_false _ Hn). reflexivity.
  - exact (c03_create_pick raw s ms pi m hc rk dl cc order s1 outs rt HI HW HSp HSc Hrt Es _ _).
  - (* completion *)
    unfold c03_create. cbn [ev_op ev_out]. cbn [step] in Es. apply Done_outs in Es. apply Nat.leb_le, Es.
  - cbn [step] in Es. destruct (0 <=? dt); inv Es; reflexivity.
  - cbn [step] in Es. destruct (nth_error (b_picks s) j); inv Es; reflexivity.
  - cbn [step] in Es. inv Es. reflexivity.
  - cbn [step] in Es. inv Es. reflexivity.
  - exact (c03_create_resume raw s ms k order s1 outs rt HI HW HSc Es).
Qed.
