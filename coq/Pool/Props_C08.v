From GV Require Import Pool.Model Pool.Observe Pool.Monitors Pool.Reduce Pool.LegalRun Pool.KeyedFacts Pool.InvC08.

(* C08: after every operation every entry of the stand-in table names a READY
   pool connection; a Pick never changes the binding table; and with
   fallback_to_ready, for a BOUND/UNBIND call carrying a bound key:
   home channel READY: placed on the home channel's connection or not at all, and
   the most recent picker does place it; home not READY, most recent picker: a
   recorded stand-in is used again, otherwise -- unless no channel is READY, in
   which case the call is not placed -- the call is placed on a READY connection,
   which is recorded as the key's stand-in; home not READY, stale picker: if
   placed, then on a READY connection.
   For every map-iteration oracle.  Guards:
   - the history is harness-legal (no operation is answered RBadOp);
   - the pool holds fewer than 2^64 connections in every state of the run (the
     evaluator's counters are uint64, see InvC01.evaluator_wraps). *)
Theorem C08_holds : forall raw ops,
  legal raw ops ->
  Forall (fun s => Z.of_nat (length (b_scstates s)) < W64)%Z (run_states raw init_bal ops) ->
  monitor P08 raw (observe init_bal) (run raw init_bal ops) = true.
Proof. exact C08_holds_proof. Qed.
Print Assumptions C08_holds.

(* non-vacuity: fallback on, three channels; key 7 bound on channel 2; channel 2
   leaves READY: the most recent picker picks stand-in 0 and sticks to it, a stale
   picker uses it too; the stand-in fails: a new stand-in (1); nothing READY: not
   placed; home READY again: every picker sends the key home *)
Example c08_history :
  let raw := Some (mkConfig 3 4 100 true 0 0 false
                     [(1%N, mkMcfg BIND true); (2%N, mkMcfg BOUND true); (3%N, mkMcfg UNBIND true)]) in
  let ops := [(OpResolver 1 CfgVal, []); (OpConnState 0 Ready, []); (OpConnState 1 Ready, [1; 0]%nat);
              (OpConnState 2 Ready, [2; 1; 0]%nat);
              (OpPick 2 1 true [] None false, []); (OpDone 0 DOk [7%N], []);
              (OpPick 2 2 true [7%N] None false, []); (OpConnState 2 Connecting, []);
              (OpPick 3 2 true [7%N] None false, []); (OpPick 3 2 true [7%N] None false, []);
              (OpPick 1 2 true [7%N] None false, []); (OpConnState 0 TransientFailure, []);
              (OpPick 4 2 true [7%N] None false, []); (OpConnState 1 TransientFailure, []);
              (OpPick 5 2 true [7%N] None false, []); (OpPick 4 2 true [7%N] None false, []);
              (OpConnState 2 Ready, []);
              (OpPick 6 2 true [7%N] None false, []); (OpPick 4 3 true [7%N] None false, [])] in
  map ev_ret (run raw init_bal ops) =
    [RNone; RNone; RNone; RNone; RPicked 2; RNone; RPicked 2; RNone; RPicked 0; RPicked 0; RPicked 0; RNone;
     RPicked 1; RNone; RNoSubConn; RNoSubConn; RNone; RPicked 2; RPicked 2] /\
  map (fun s => b_fb s) (run_states raw init_bal ops) =
    [[]; []; []; []; []; []; []; []; []; [(7, 0)]; [(7, 0)]; [(7, 0)]; []; [(7, 1)]; []; []; []; []; []; []]%N /\
  legalb raw ops = true /\
  monitor P08 raw (observe init_bal) (run raw init_bal ops) = true.
Proof. vm_compute. repeat split; reflexivity. Qed.

(* the monitor rejects a stand-in that is dropped although it is still READY (home 1 not READY, stand-in 0) *)
Example c08_bad_not_sticky :
  let cfg := Some (mkConfig 3 4 100 true 0 0 false [(2%N, mkMcfg BOUND true)]) in
  let o1 := mkObs true 1 2 1 0 Ready [(7%N, 1%N)] [(7%N, 0%N)]
                  [(0%N, Ready); (1%N, Connecting); (2%N, Ready)] [(0%N, 0%nat); (1%N, 1%nat); (2%N, 2%nat)]
                  [mkSlot 0 0 1 0 0 false 0; mkSlot 1 1 0 0 0 false 0; mkSlot 2 0 0 0 0 false 0]
                  4294967295 [] false (PSnap [0; 2]%nat) 1 0 true in
  let o2 := mkObs true 1 2 1 0 Ready [(7%N, 1%N)] [(7%N, 0%N)]
                  [(0%N, Ready); (1%N, Connecting); (2%N, Ready)] [(0%N, 0%nat); (1%N, 1%nat); (2%N, 2%nat)]
                  [mkSlot 0 0 1 0 0 false 0; mkSlot 1 1 0 0 0 false 0; mkSlot 2 0 1 0 0 false 0]
                  4294967295 [] false (PSnap [0; 2]%nat) 1 0 true in
  mon_from P08 cfg (mkMstate [PSnap [0; 2]%nat] (Some (Ready, PSnap [0; 2]%nat)) [] [(7%N, 1%nat)] [] [] false
                             (Some cfg) 0) o1
    [mkEvent (OpPick 0 2 true [7%N] None false) [] (RPicked 2) [] (Some o2)] = false.
Proof. vm_compute. reflexivity. Qed.

(* ... a stand-in entry that names a connection which is not READY *)
Example c08_bad_standin_not_ready :
  let cfg := Some (mkConfig 2 4 100 true 0 0 false [(2%N, mkMcfg BOUND true)]) in
  let o1 := mkObs true 1 1 1 0 Ready [(7%N, 1%N)] [(7%N, 0%N)]
                  [(0%N, Ready); (1%N, Connecting)] [(0%N, 0%nat); (1%N, 1%nat)]
                  [mkSlot 0 0 0 0 0 false 0; mkSlot 1 1 0 0 0 false 0]
                  4294967295 [] false (PSnap [0%nat]) 1 0 true in
  let o2 := mkObs true 1 0 2 0 Connecting [(7%N, 1%N)] [(7%N, 0%N)]
                  [(0%N, Connecting); (1%N, Connecting)] [(0%N, 0%nat); (1%N, 1%nat)]
                  [mkSlot 0 0 0 0 0 false 0; mkSlot 1 1 0 0 0 false 0]
                  4294967295 [] false (PSnap []) 2 0 true in
  mon_from P08 cfg (mkMstate [PSnap [0%nat]] (Some (Ready, PSnap [0%nat])) [] [(7%N, 1%nat)] [] [] false
                             (Some cfg) 0) o1
    [mkEvent (OpConnState 0 Connecting) [OUpdateState Connecting (PSnap [])] RNone [] (Some o2)] = false.
Proof. vm_compute. reflexivity. Qed.

(* ... a keyed call left unplaced by the most recent picker although a channel is READY *)
Example c08_bad_not_placed :
  let cfg := Some (mkConfig 2 4 100 true 0 0 false [(2%N, mkMcfg BOUND true)]) in
  let o1 := mkObs true 1 1 1 0 Ready [(7%N, 1%N)] []
                  [(0%N, Ready); (1%N, Connecting)] [(0%N, 0%nat); (1%N, 1%nat)]
                  [mkSlot 0 0 0 0 0 false 0; mkSlot 1 1 0 0 0 false 0]
                  4294967295 [] false (PSnap [0%nat]) 1 0 true in
  mon_from P08 cfg (mkMstate [PSnap [0%nat]] (Some (Ready, PSnap [0%nat])) [] [(7%N, 1%nat)] [] [] false
                             (Some cfg) 0) o1
    [mkEvent (OpPick 0 2 true [7%N] None false) [] RNoSubConn [] (Some o1)] = false.
Proof. vm_compute. reflexivity. Qed.

(* ... and a Pick that rewrites the binding *)
Example c08_bad_binding_changed :
  let cfg := Some (mkConfig 2 4 100 true 0 0 false [(2%N, mkMcfg BOUND true)]) in
  let o1 := mkObs true 1 1 1 0 Ready [(7%N, 1%N)] []
                  [(0%N, Ready); (1%N, Connecting)] [(0%N, 0%nat); (1%N, 1%nat)]
                  [mkSlot 0 0 0 0 0 false 0; mkSlot 1 1 0 0 0 false 0]
                  4294967295 [] false (PSnap [0%nat]) 1 0 true in
  let o2 := mkObs true 1 1 1 0 Ready [(7%N, 0%N)] [(7%N, 0%N)]
                  [(0%N, Ready); (1%N, Connecting)] [(0%N, 0%nat); (1%N, 1%nat)]
                  [mkSlot 0 0 1 0 0 false 0; mkSlot 1 1 0 0 0 false 0]
                  4294967295 [] false (PSnap [0%nat]) 1 0 true in
  mon_from P08 cfg (mkMstate [PSnap [0%nat]] (Some (Ready, PSnap [0%nat])) [] [(7%N, 1%nat)] [] [] false
                             (Some cfg) 0) o1
    [mkEvent (OpPick 0 2 true [7%N] None false) [] (RPicked 0) [] (Some o2)] = false.
Proof. vm_compute. reflexivity. Qed.

(* why the legality guard is needed: a Done on a call that is still waiting (answered
   RBadOp by the model, never issued by the harness) desynchronises the monitor's
   bookkeeping from the balancer; the monitor is false on this illegal model history *)
Example c08_illegal_history_rejected :
  let raw := Some (mkConfig 2 4 1 true 0 0 true [(1%N, mkMcfg BIND true); (2%N, mkMcfg BOUND true)]) in
  let ops := [(OpResolver 1 CfgVal, []); (OpConnState 0 Ready, []); (OpPick 0 1 true [] None false, []);
              (OpPick 0 1 true [] None false, []); (OpDone 1 DOk [5%N], []); (OpConnState 1 Ready, []);
              (OpDone 1 DOk [6%N], []); (OpDone 0 DOk [], []); (OpPick 1 2 true [5%N] None false, [])] in
  map ev_ret (run raw init_bal ops) = [RNone; RNone; RPicked 0; RBlocked; RBadOp; RNone; RNone; RNone; RPicked 0] /\
  legalb raw ops = false /\
  monitor P08 raw (observe init_bal) (run raw init_bal ops) = false.
Proof. vm_compute. repeat split; reflexivity. Qed.
