(* Engine A proofs, C03 (pool size): the calls a model function makes on the
   ClientConn, as far as C03 reads them -- how many connections it asks for
   (successful or refused) and which connections it removes. *)
From GV Require Import Base.AListFacts Pool.Model Pool.Observe Pool.Monitors
                       Pool.Lemmas Pool.Inv Pool.Inv2 Pool.Frames.
From Coq Require Import Lia ZifyBool.
Open Scope Z_scope.

Definition is_newsc (o : out) : bool :=
  match o with ONewSC _ _ | ONewSCFail _ => true | _ => false end.

Lemma count_newsc_app a b : count_newsc (a ++ b) = (count_newsc a + count_newsc b)%nat.
Proof. unfold count_newsc. rewrite filter_app, app_length. reflexivity. Qed.

Lemma removes_app a b : removes (a ++ b) = removes a ++ removes b.
Proof. unfold removes. apply flat_map_app. Qed.

Lemma has_newsc_count o : has_newsc o = negb (Nat.eqb (count_newsc o) 0).
Proof.
  unfold has_newsc, count_newsc. induction o as [|x r IH]; cbn [existsb filter]; [reflexivity|].
  destruct x; cbn [orb length]; auto.
Qed.

Lemma has_newsc_false o : count_newsc o = 0%nat -> has_newsc o = false.
Proof. intros H. rewrite has_newsc_count, H. reflexivity. Qed.

Lemma has_newsc_true o : has_newsc o = true -> (0 < count_newsc o)%nat.
Proof. rewrite has_newsc_count. destruct (Nat.eqb_spec (count_newsc o) 0); [discriminate|lia]. Qed.

(* what C03 reads off a list of calls *)
Definition quiet (o : list out) : Prop := count_newsc o = 0%nat /\ removes o = [].
Definition one_new (o : list out) : Prop := count_newsc o = 1%nat /\ removes o = [].
Definition atmost_one_new (o : list out) : Prop := (count_newsc o <= 1)%nat /\ removes o = [].

Lemma quiet_nil : quiet [].
Proof. split; reflexivity. Qed.

Lemma quiet_app a b : quiet a -> quiet b -> quiet (a ++ b).
Proof. intros [A1 A2] [B1 B2]. split; [rewrite count_newsc_app; lia|rewrite removes_app, A2, B2; reflexivity]. Qed.

Lemma quiet_atmost o : quiet o -> atmost_one_new o.
Proof. intros [A B]. split; [lia|exact B]. Qed.

Lemma one_new_atmost o : one_new o -> atmost_one_new o.
Proof. intros [A B]. split; [lia|exact B]. Qed.

Lemma quiet_update_refr s : quiet (update_refr s).
Proof.
  unfold update_refr. induction (b_refr s) as [|x r IH]; [apply quiet_nil|].
  cbn [flat_map]. apply (quiet_app [_; _]); [split; reflexivity|exact IH].
Qed.

Lemma quiet_update_all s : quiet (update_all s).
Proof.
  unfold update_all. apply quiet_app; [|apply quiet_update_refr].
  induction (b_screfs s) as [|x r IH]; [apply quiet_nil|].
  cbn [flat_map]. apply (quiet_app [_; _]); [split; reflexivity|exact IH].
Qed.

Lemma quiet_usc_o3 sc st : quiet (usc_o3 sc st).
Proof. destruct st; split; reflexivity. Qed.

(* ---------------------------------------------------------------- addSubConn *)
Lemma addSubConn_outs s s' ok o : addSubConn s = (s', ok, o) -> one_new o.
Proof.
  intros E. destruct (addSubConn_cases s) as [[_ E']|[_ E']]; rewrite E' in E; inv E; split; reflexivity.
Qed.

Lemma enforceMinSize_removes s s' o : enforceMinSize s = (s', o) -> removes o = [].
Proof.
  revert s' o. apply (enforceMinSize_ind (fun _ o => removes o = [])); [reflexivity|].
  intros s1 o1 s2 ok o2 H _ E. apply addSubConn_outs in E. rewrite removes_app, H, (proj2 E). reflexivity.
Qed.

(* ---------------------------------------------------------------- refresh / detectUnresponsive / Done *)
Lemma refresh_outs s i s' o : refresh s i = (s', o) -> atmost_one_new o.
Proof.
  intros E. destruct (refresh_cases s i) as [[E' _]|[r [Es [Er [[_ E']|[_ E']]]]]];
    rewrite E' in E; inv E; split; cbn; try reflexivity; lia.
Qed.

Lemma detectUnresponsive_outs s p oc s' o : detectUnresponsive s p oc = (s', o) -> atmost_one_new o.
Proof.
  unfold detectUnresponsive.
  destruct (negb (b_undet s)); [intros E; inv E; apply quiet_atmost, quiet_nil|].
  destruct (negb _); [intros E; inv E; apply quiet_atmost, quiet_nil|].
  destruct (get_slot s (pk_slot p)) as [r|]; [|intros E; inv E; apply quiet_atmost, quiet_nil].
  destruct (pk_started p <? sl_last r); [intros E; inv E; apply quiet_atmost, quiet_nil|].
  destruct (_ && _); [|intros E; inv E; apply quiet_atmost, quiet_nil].
  apply refresh_outs.
Qed.

Lemma Done_outs s j oc rk s' o r : Done s j oc rk = (s', o, r) -> atmost_one_new o.
Proof.
  rewrite Done_eq. destruct (nth_error (b_picks s) j) as [p|]; [|intros E; inv E; apply quiet_atmost, quiet_nil].
  destruct (pk_status p); try (intros E; inv E; apply quiet_atmost, quiet_nil).
  destruct (detectUnresponsive (done_s1 s j p) p oc) as [s2 o2] eqn:Ed. intros E; inv E.
  eapply detectUnresponsive_outs, Ed.
Qed.
