(* Engine A proofs, C03 (pool size): when a Pick grows the pool.  A call grows
   the pool (or is parked by the harness just before it would) only if it is
   routed by load and every channel of its snapshot is at or above the
   watermark while the pool is below its maximum; at the maximum such a call is
   placed. *)
From GV Require Import Base.AListFacts Pool.Model Pool.Observe Pool.Monitors
                       Pool.Lemmas Pool.Inv Pool.Inv2 Pool.Frames Pool.C03Outs Pool.C03Size.
From Coq Require Import Lia ZifyBool.
Open Scope Z_scope.

(* the model's counterpart of the monitor's [by_load] *)
Definition load_routed (s : bal) (m : N) (hc : bool) (rk : list N) : bool :=
  negb (cmd_eqb (pick_cmd0 s m) BIND && cfg_rr s) &&
  match pick_keyres s m hc rk with
  | Some k => N.eqb k 0 || match aget (b_aff s) k with None => true | Some _ => false end
  | None => false
  end.

Definition unbound_key (s : bal) (k : N) : Prop := k = 0%N \/ aget (b_aff s) k = None.

Lemma unbound_key_b s k :
  N.eqb k 0 || match aget (b_aff s) k with None => true | Some _ => false end = true <-> unbound_key s k.
Proof.
  unfold unbound_key. rewrite orb_true_iff, N.eqb_eq.
  destruct (aget (b_aff s) k); split; intros [H|H]; auto; discriminate.
Qed.

Lemma pick_dec_load s k refs : unbound_key s k -> pick_dec s k refs = (s, leastBusyDecision s refs).
Proof.
  intros Hload. unfold pick_dec. destruct (N.eqb_spec k 0) as [->|Hk0]; [reflexivity|]. cbn [negb].
  destruct Hload as [->|Ha]; [congruence|]. unfold getReadySubConnRef. rewrite Ha. reflexivity.
Qed.

Lemma getReadySubConnRef_notfound s k s' r :
  getReadySubConnRef s k = (s', r, false) -> aget (b_aff s) k = None /\ s' = s.
Proof.
  unfold getReadySubConnRef. destruct (aget (b_aff s) k) as [sc|]; [|intros E; inv E; auto].
  destruct (negb _); [|intros E; inv E].
  destruct (cfg_fallback s); [|intros E; inv E].
  destruct (aget (b_fb s) k); [intros E; inv E|].
  destruct (b_picker s); [intros E; inv E|].
  destruct (leastBusy s refs); [|intros E; inv E].
  destruct (get_slot s n); intros E; inv E.
Qed.

Lemma pick_dec_grow s k refs s1 :
  pick_dec s k refs = (s1, LBGrow) -> unbound_key s k /\ s1 = s /\ leastBusyDecision s refs = LBGrow.
Proof.
  unfold pick_dec, unbound_key. destruct (N.eqb_spec k 0) as [->|Hk0]; cbn [negb].
  - intros E; inv E. auto.
  - destruct (getReadySubConnRef s k) as [[s' r] found] eqn:Eg. destruct found.
    + destruct r; intros E; inv E.
    + apply getReadySubConnRef_notfound in Eg. destruct Eg as [Ha ->]. intros E; inv E. auto.
Qed.

(* ---------------------------------------------------------------- the least-busy decision *)
Lemma lbd_grow s refs :
  leastBusyDecision s refs = LBGrow ->
  (cfg_max s = 0 \/ pool_size s < cfg_max s) /\ forall j, In j refs -> cfg_wm s <= streams_of s j.
Proof.
  unfold leastBusyDecision. destruct (leastBusy s refs) as [i|] eqn:El; [|discriminate].
  apply leastBusy_spec in El. destruct El as [_ Hmin].
  destruct (Z.ltb_spec (streams_of s i) (cfg_wm s)) as [Hlt|Hge]; [discriminate|].
  destruct ((cfg_max s =? 0) || (pool_size s <? cfg_max s)) eqn:Eg; [|discriminate].
  intros _. split; [lia|]. intros j Hj. specialize (Hmin j Hj). lia.
Qed.

Lemma lbd_at_max s refs :
  refs <> [] -> cfg_max s <> 0 -> cfg_max s <= pool_size s ->
  exists i, leastBusyDecision s refs = LBPlaced i.
Proof.
  intros Hne H0 Hmax. unfold leastBusyDecision.
  destruct (leastBusy s refs) as [i|] eqn:El; [|apply leastBusy_None in El; congruence].
  destruct (streams_of s i <? cfg_wm s); [eauto|].
  replace ((cfg_max s =? 0) || (pool_size s <? cfg_max s)) with false by lia. eauto.
Qed.

(* ---------------------------------------------------------------- Pick *)
Lemma pick_rr_c03 s mk s' o r :
  pick_rr s mk = (s', o, r) -> o = [] /\ b_screfs s' = b_screfs s /\ r <> RParked.
Proof.
  unfold pick_rr. destruct (b_slots s); [intros E; inv E; repeat split; discriminate|].
  unfold pick_rr_body. cbv zeta. destruct (get_slot _ _); [|intros E; inv E; repeat split; discriminate].
  destruct (_ || _); intros E; inv E; repeat split; discriminate.
Qed.

Definition pick_quiet (s : bal) (pk : picker) (m : N) (hc : bool) (rk : list N) (s' : bal) (o : list out) (r : ret) : Prop :=
  o = [] /\ b_screfs s' = b_screfs s /\ r <> RParked /\
  (forall a l, pk = PSnap (a :: l) -> load_routed s m hc rk = true ->
               cfg_max s <> 0 -> cfg_max s <= pool_size s -> ret_is_picked r = true).

Definition pick_grows (s : bal) (pk : picker) (m : N) (hc : bool) (rk : list N) (s' : bal) (o : list out) (r : ret) : Prop :=
  exists refs, pk = PSnap refs /\ load_routed s m hc rk = true /\ leastBusyDecision s refs = LBGrow /\
    (b_gate s = true /\ r = RParked /\ o = [] /\ b_screfs s' = b_screfs s \/
     b_gate s = false /\ r = RNoSubConn /\ newSubConn s = (s', o)).

Lemma pick_quiet_trivial s pk m hc rk r :
  (forall a l, pk <> PSnap (a :: l)) -> r <> RParked -> pick_quiet s pk m hc rk s [] r.
Proof.
  intros H Hr. split; [reflexivity|split; [reflexivity|split; [exact Hr|]]].
  intros a l E. exfalso. eapply H, E.
Qed.

Lemma pick_lb_c03 s pi mk key a l m hc rk s' o r :
  Inv s -> (forall i, In i (a :: l) -> (i < length (b_slots s))%nat) ->
  cmd_eqb (pick_cmd0 s m) BIND && cfg_rr s = false -> pick_keyres s m hc rk = Some key ->
  pick_lb s pi mk key (a :: l) = (s', o, r) ->
  pick_quiet s (PSnap (a :: l)) m hc rk s' o r \/ pick_grows s (PSnap (a :: l)) m hc rk s' o r.
Proof.
  intros HI Hrefs Hrr Hk. unfold pick_lb.
  destruct (pick_dec s key (a :: l)) as [s1 dec] eqn:Ed.
  assert (Hlr : load_routed s m hc rk = true <-> unbound_key s key).
  { unfold load_routed. rewrite Hrr, Hk. cbn [negb andb]. apply unbound_key_b. }
  destruct dec as [i| |].
  - destruct (pick_dec_Inv _ _ _ _ _ HI Hrefs Ed) as [_ [[fb' ->] Hdec]].
    specialize (Hdec i eq_refl). destruct (nth_error_lt_Some _ _ Hdec) as [sl Es].
    change (get_slot (set_fb s fb') i) with (nth_error (b_slots s) i). rewrite Es.
    intros E; inv E. left. split; [reflexivity|split; [reflexivity|split; [discriminate|]]]. reflexivity.
  - apply pick_dec_grow in Ed. destruct Ed as [Hu [-> Hl]]. intros E. right.
    exists (a :: l). split; [reflexivity|split; [apply Hlr, Hu|split; [exact Hl|]]].
    destruct (b_gate s).
    + inv E. left. auto.
    + destruct (newSubConn s) as [s2 o2] eqn:En. inv E. right. auto.
  - destruct (pick_dec_Inv _ _ _ _ _ HI Hrefs Ed) as [_ [[fb' ->] _]].
    intros E; inv E. left. split; [reflexivity|split; [reflexivity|split; [discriminate|]]].
    intros a0 l0 _ Hl H0 Hmax. exfalso. apply Hlr in Hl.
    rewrite (pick_dec_load s key (a :: l) Hl) in Ed.
    destruct (lbd_at_max s (a :: l)) as [i Hi]; [discriminate|exact H0|exact Hmax|]. congruence.
Qed.

Lemma Pick_c03 s pi pk m hc rk dl cc s' o r :
  Inv s -> nth_error (b_published s) pi = Some pk -> Pick s pi pk m hc rk dl cc = (s', o, r) ->
  pick_quiet s pk m hc rk s' o r \/ pick_grows s pk m hc rk s' o r.
Proof.
  intros HI Hpk. rewrite Pick_eq.
  destruct pk as [[|]|[|a l]]; try (intros E; inv E; left; apply pick_quiet_trivial; [intros; discriminate|discriminate]).
  assert (Hrefs : forall i, In i (a :: l) -> (i < length (b_slots s))%nat).
  { intros i Hi. destruct HI as (_&_&HP&_). eapply (pub_valid HP); eauto. eapply nth_error_In, Hpk. }
  destruct (pick_keyres s m hc rk) as [key|] eqn:Ek.
  2:{ intros E; inv E. left. split; [reflexivity|split; [reflexivity|split; [discriminate|]]].
      intros a0 l0 _ Hl. unfold load_routed in Hl. rewrite Ek, andb_false_r in Hl. discriminate. }
  destruct (cmd_eqb _ BIND && cfg_rr s) eqn:Err.
  - intros E. apply pick_rr_c03 in E. destruct E as [-> [E2 E3]]. left.
    split; [reflexivity|split; [exact E2|split; [exact E3|]]].
    intros a0 l0 _ Hl. unfold load_routed in Hl. rewrite Err in Hl. discriminate.
  - eapply pick_lb_c03; eauto.
Qed.
