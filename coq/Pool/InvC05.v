(* Engine A proofs: C05 (no panics).  Every RPanic branch of the model is
   unreachable under the invariant; a blocked pick that returns is handed a
   connection number below b_next. *)
From GV Require Import Base.AListFacts Pool.Model Pool.Observe Pool.Monitors
                       Pool.Lemmas Pool.Inv Pool.Inv2 Pool.Reduce.
From Coq Require Import Lia ZifyBool.
Open Scope Z_scope.

(* the monitor's sentinel: connection numbers >= 900000000 mean "not a SubConn
   the harness knows" *)
Definition conn_limit : N := 900000000.

Lemma unblocked_from_lt s : Inv s -> forall ps n j c,
  In (j, c) (unblocked_from s n ps) -> (c < b_next s)%N.
Proof.
  intros HI. induction ps as [|p r IH]; intros n j c; cbn; [tauto|].
  intros H. apply in_app_iff in H. destruct H as [H|H]; [|eauto].
  destruct (resolvable s p) eqn:Er; [|destruct H]. destruct H as [H|[]]. inv H.
  unfold resolvable, can_proceed in Er. apply andb_true_iff in Er. destruct Er as [_ Er].
  unfold slot_conn_of. destruct (get_slot s (pk_slot p)) as [sl|] eqn:Es; [|discriminate].
  destruct HI as (HK & _). apply (conns_lt HK). apply nth_error_In with (n := pk_slot p).
  apply nth_error_map_Some. eauto.
Qed.

Lemma full_step_ub_lt raw s o order s' outs r ub :
  Inv s -> full_step raw s o order = (s', outs, r, ub) ->
  forall j c, In (j, c) ub -> (c < b_next s')%N.
Proof.
  intros HI. rewrite full_step_eq.
  destruct (step raw s o order) as [[s1 outs1] r1] eqn:Es.
  destruct (resolve_blocked s1) as [s2 ub2] eqn:Er. intros E; inv E.
  destruct (step_Inv _ _ _ _ _ _ _ HI Es) as [HI1 _].
  destruct (resolve_blocked_spec _ _ _ HI1 Er) as [_ [Hm [_ ->]]].
  intros j c Hin. apply (unblocked_from_lt s1 HI1) in Hin.
  apply (f_equal b_next) in Hm. cbn in Hm. lia.
Qed.

(* guard: fewer than [conn_limit] connections have been created after each step *)
Definition next_guard (raw : option config) (s : bal) (o : op) (order : list nat) : Prop :=
  let '(s', _, _, _) := full_step raw s o order in (b_next s' <= conn_limit)%N.

Lemma C05_step raw s ms o order s' outs rt ub :
  Inv s -> True -> next_guard raw s o order ->
  full_step raw s o order = (s', outs, rt, ub) ->
  let ev := mkEvent o outs rt ub (Some (observe s')) in
  Inv s' /\ True /\ event_ok P05 raw ms (observe s) ev = true.
Proof.
  intros HI _ HG E. unfold next_guard in HG. rewrite E in HG.
  destruct (full_step_Inv _ _ _ _ _ _ _ _ HI E) as [HI' [_ Hr]].
  split; [exact HI'|split; [exact I|]].
  cbn. unfold c05_event. cbn [ev_ret ev_ub]. apply andb_true_iff. split.
  - destruct rt; auto; congruence.
  - apply forallb_forall. intros [j c] Hin. cbn.
    pose proof (full_step_ub_lt _ _ _ _ _ _ _ _ HI E j c Hin). unfold conn_limit in HG.
    apply N.ltb_lt. lia.
Qed.

Theorem C05_guarded raw ops :
  guarded raw (next_guard raw) init_bal ops ->
  monitor P05 raw (observe init_bal) (run raw init_bal ops) = true.
Proof.
  apply (monitor_run P05 raw Inv (fun _ _ => True) (next_guard raw)).
  - intros. eapply C05_step; eauto.
  - exact Inv_init.
  - exact I.
Qed.

(* the guard follows from a bound on the final state: b_next never decreases *)
Lemma run_state_Inv raw : forall ops s, Inv s -> Inv (run_state raw s ops).
Proof.
  induction ops as [|[o order] r IH]; intros s HI; cbn; [auto|].
  destruct (full_step raw s o order) as [[[s' outs] rt] ub] eqn:E.
  apply IH. eapply full_step_Inv in E; eauto. tauto.
Qed.

Lemma run_state_next raw : forall ops s, Inv s -> (b_next s <= b_next (run_state raw s ops))%N.
Proof.
  induction ops as [|[o order] r IH]; intros s HI; cbn; [lia|].
  destruct (full_step raw s o order) as [[[s' outs] rt] ub] eqn:E.
  pose proof (full_step_next _ _ _ _ _ _ _ _ HI E).
  assert (Inv s') by (eapply full_step_Inv in E; eauto; tauto).
  specialize (IH s' H0). lia.
Qed.

Lemma next_guard_of_final raw : forall ops s,
  Inv s -> (b_next (run_state raw s ops) <= conn_limit)%N -> guarded raw (next_guard raw) s ops.
Proof.
  induction ops as [|[o order] r IH]; intros s HI Hb; cbn; [exact I|].
  cbn in Hb. unfold next_guard.
  destruct (full_step raw s o order) as [[[s' outs] rt] ub] eqn:E.
  assert (HI' : Inv s') by (eapply full_step_Inv in E; eauto; tauto).
  split; [|apply IH; auto].
  pose proof (run_state_next raw r s' HI'). lia.
Qed.

Theorem C05_holds_proof raw ops :
  (b_next (run_state raw init_bal ops) <= conn_limit)%N ->
  monitor P05 raw (observe init_bal) (run raw init_bal ops) = true.
Proof. intros H. apply C05_guarded, next_guard_of_final; [exact Inv_init|exact H]. Qed.

(* the panic-freedom half needs no guard at all *)
Theorem no_panic raw ops : forall ev, In ev (run raw init_bal ops) -> ev_ret ev <> RPanic.
Proof.
  assert (G : forall ops s, Inv s -> forall ev, In ev (run raw s ops) -> ev_ret ev <> RPanic).
  { induction ops0 as [|[o order] r IH]; intros s HI ev; cbn; [tauto|].
    destruct (full_step raw s o order) as [[[s' outs] rt] ub] eqn:E.
    destruct (full_step_Inv _ _ _ _ _ _ _ _ HI E) as [HI' [_ Hr]].
    intros [<-|Hin]; [exact Hr|eauto]. }
  apply G, Inv_init.
Qed.
