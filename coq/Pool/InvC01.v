(* Engine A proofs: C01 (affinity).
   State part: the binding table the balancer holds (key -> connection) is, key
   for key, the monitor's table (key -> channel the key was bound on) composed
   with "current connection of the channel".
   Event part: a BOUND/UNBIND call carrying a bound key whose home channel is
   READY is placed nowhere but on the home channel's connection, and the most
   recently published picker does place it; with fallback off and the home
   channel not READY it is not placed. *)
From GV Require Import Base.AListFacts Pool.Model Pool.Observe Pool.Monitors
                       Pool.Lemmas Pool.Inv Pool.Inv2 Pool.Frames Pool.Sim Pool.SimHome
                       Pool.InvC06 Pool.Reduce Pool.LegalRun Pool.PickFacts Pool.InvC09 Pool.KeyedFacts.
From Coq Require Import Lia ZifyBool Permutation.
Open Scope Z_scope.

(* ================================================================ the state clause *)
Lemma home_rel_keys aff cn home k :
  home_rel aff cn home -> (In k (akeys aff) <-> In k (akeys home)).
Proof.
  intros (_ & H2 & H3). rewrite !aget_Some_keys, H3. split.
  - intros [c Hc]. destruct (aget home k) as [i|]; [eauto|discriminate].
  - intros [i Hi]. rewrite Hi. apply nth_error_lt_Some. eapply H2, Hi.
Qed.

Lemma home_rel_length aff cn home :
  NoDup (akeys aff) -> home_rel aff cn home -> length aff = length home.
Proof.
  intros ND HH. pose proof HH as (NDh & _).
  rewrite <- (map_length fst aff), <- (map_length fst home).
  apply Permutation_length. apply NoDup_Permutation; [exact ND|exact NDh|].
  intros k. apply (home_rel_keys aff cn home k HH).
Qed.

Lemma c01_state_holds s ms : Inv s -> Sim_home s ms -> c01_state ms (observe s) = true.
Proof.
  intros HI HH. pose proof (nd_aff (proj1 HI)) as ND. unfold c01_state. cbn [observe o_aff].
  apply andb_true_iff. split.
  - apply Nat.eqb_eq. rewrite asort_length. apply (home_rel_length _ _ _ ND HH).
  - rewrite forallb_asort. apply forallb_forall. intros [k c] Hin. cbn [fst snd].
    apply (In_aget _ _ _ ND) in Hin. destruct HH as (_ & H2 & H3). rewrite H3 in Hin.
    destruct (aget (ms_home ms) k) as [i|]; [|discriminate].
    rewrite conn_of_slot_observe, Hin. apply N.eqb_refl.
Qed.

(* ================================================================ the event clause *)
Lemma not_bind_flag s m : cmd_eqb (pick_cmd0 s m) BOUND || cmd_eqb (pick_cmd0 s m) UNBIND = true ->
                          cmd_eqb (pick_cmd0 s m) BIND && cfg_rr s = false.
Proof. destruct (pick_cmd0 s m); cbn; auto; discriminate. Qed.

Lemma cfg_fallback_link raw s ms o c :
  Sim_cfg s ms -> b_cfg s = Some c -> c_fallback (eff (raw_in_force raw ms o)) = cfg_fallback s.
Proof.
  intros HS Hc. pose proof (Sim_cfg_in_force raw s ms o c HS Hc) as E.
  unfold cfg_fallback, eff. rewrite Hc, E. reflexivity.
Qed.

(* the home channel of a bound key, on the model side *)
Lemma home_slot s ms k i :
  Sim_home s ms -> aget (ms_home ms) k = Some i ->
  exists sc, nth_error (conns s) i = Some sc /\ aget (b_aff s) k = Some sc.
Proof.
  intros (_ & H2 & H3) Hk. destruct (nth_error_lt_Some _ _ (H2 _ _ Hk)) as [sc Hsc].
  exists sc. split; [exact Hsc|]. rewrite H3, Hk. exact Hsc.
Qed.

(* the two "goes home" conjuncts of the monitor, from the routing facts *)
Lemma goes_home_check rt sc (latest : bool) :
  (ret_is_picked rt = true -> rt = RPicked sc) -> (latest = true -> rt = RPicked sc) ->
  (if ret_is_picked rt then ret_picked_eq rt (Some sc) else true) &&
  (if latest then ret_picked_eq rt (Some sc) else true) = true.
Proof.
  intros H1 H2. apply andb_true_iff. split.
  - destruct (ret_is_picked rt) eqn:E; [|reflexivity]. rewrite (H1 eq_refl). cbn. apply N.eqb_refl.
  - destruct latest; [|reflexivity]. rewrite (H2 eq_refl). cbn. apply N.eqb_refl.
Qed.

Lemma c01_event_holds raw s ms o order s' outs rt ub :
  Inv s -> Sim s ms -> rt <> RBadOp -> pool_small s ->
  full_step raw s o order = (s', outs, rt, ub) ->
  c01_event (raw_in_force raw ms o) ms (observe s) (mkEvent o outs rt ub (Some (observe s'))) = true.
Proof.
  intros HI (HSp & HSc & _ & _ & _ & HSh) Hrt Hsm E. unfold c01_event. cbn [ev_op ev_ret].
  destruct o as [addrs a| |sc0 st|pi m hc rk dl cc|j oc rk2|dt|j|f|g|k0]; try reflexivity.
  rewrite full_step_eq in E.
  destruct (step raw s (OpPick pi m hc rk dl cc) order) as [[s1 outs1] r1] eqn:Es.
  destruct (resolve_blocked s1) as [s2 ub2]. inv E.
  destruct (step_pick_legal _ _ _ _ _ _ _ _ _ _ _ _ Es Hrt) as [pk [Ep EP]].
  destruct (cfg_of_pubs _ _ _ HI Ep) as [c Hcfg].
  destruct (pick_fields_link raw s ms (OpPick pi m hc rk dl cc) c m hc rk HSc Hcfg) as (L1&_&L3&_).
  rewrite L1, L3, (cfg_fallback_link raw s ms _ c HSc Hcfg).
  destruct (cmd_eqb (pick_cmd0 s m) BOUND || cmd_eqb (pick_cmd0 s m) UNBIND) eqn:Ecmd; [|reflexivity].
  pose proof (not_bind_flag s m Ecmd) as Hflag.
  destruct (pick_keyres s m hc rk) as [k|] eqn:Ek; [|reflexivity].
  destruct (N.eqb_spec k 0) as [|Hk0]; [reflexivity|].
  destruct (aget (ms_home ms) k) as [i|] eqn:Eh; [|reflexivity].
  destruct (home_slot s ms k i HSh Eh) as [sc [Hsc Haff]].
  rewrite (o_slot_ready_observe s i sc (proj1 HI) Hsc), conn_of_slot_observe, Hsc.
  destruct (cstate_eqb_spec (conn_state s sc) Ready) as [Er|Er].
  - destruct (keyed_home_ready s pi pk m hc rk dl cc s1 outs rt k sc i HI Ep EP Hflag Ek Hk0 Haff Hsc Er)
      as [H1 [H2 _]].
    apply goes_home_check; [exact H1|]. intros Hl. apply H2.
    rewrite (latest_is_picker s ms pi pk HI HSp Ep Hl).
    apply (ready_picker_snap s i HI Hsm); [eapply nth_error_nonnil, Ep|].
    eapply slot_ready_in_ready_slots; eauto. apply HI.
  - destruct (cfg_fallback s) eqn:Ef; [reflexivity|].
    rewrite (keyed_home_unready_nofb s pi pk m hc rk dl cc s1 outs rt k sc HI Ep EP Hflag Ek Hk0 Haff Er Ef).
    reflexivity.
Qed.

(* ================================================================ the per-event check and the theorem *)
Lemma c01_check raw s ms o order s' outs rt ub :
  Inv s -> Quiescent s -> Sim s ms -> rt <> RBadOp -> pool_small s ->
  full_step raw s o order = (s', outs, rt, ub) ->
  event_ok P01 raw ms (observe s) (mkEvent o outs rt ub (Some (observe s'))) = true.
Proof.
  intros HI _ HS Hrt Hsm E.
  destruct (Sim_step raw s ms o order s' outs rt ub HI HS Hrt E) as [HI' [_ HS']].
  cbn [event_ok ev_obs ev_op]. apply andb_true_iff. split.
  - eapply c01_event_holds; eauto.
  - apply c01_state_holds; [exact HI'|apply HS'].
Qed.

Theorem C01_holds_proof raw ops :
  legal raw ops -> run_inv raw pool_small ops ->
  monitor P01 raw (observe init_bal) (run raw init_bal ops) = true.
Proof. apply (monitor_legal_run_inv P01 raw pool_small). intros. eapply c01_check; eauto. Qed.

(* why the size guard is needed: with 2^64 READY connections the uint64 counter of
   the state evaluator reads 0 and the aggregate state is TRANSIENT_FAILURE, so the
   balancer publishes the error picker although every channel is READY *)
Example evaluator_wraps : eval3 (W64 mod W64) 0 0 = TransientFailure.
Proof. vm_compute. reflexivity. Qed.
