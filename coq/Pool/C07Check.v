(* Engine A proofs, C07: the per-event check [c07_event] split into its three
   clauses, and each clause established from the model. *)
From GV Require Import Base.AListFacts Pool.Model Pool.Observe Pool.Monitors
                       Pool.Lemmas Pool.Inv Pool.Inv2 Pool.Frames Pool.Sim Pool.InvC20 Pool.SimHome
                       Pool.Reduce Pool.C07Refresh Pool.C07Frames.
From Coq Require Import Lia ZifyBool.
Open Scope Z_scope.

(* ================================================================ the clauses of c07_event *)
Definition c07_undet_ok (e : config) (after : obs) : bool :=
  if o_cfgset after then Bool.eqb (o_undet after) ((0 <? c_ucalls e) && (0 <? c_ums e)) else negb (o_undet after).

Definition c07_done_check (e : config) (undet : bool) (now : Z) (refr_b refr_a : list (N * nat))
    (p : mpick) (oc : outcome) (outs : list out) (x y : slot) : bool :=
  if negb undet then negb (has_newsc outs) && eqb_slot_refresh x y
  else if negb (client_dl now oc (mp_deadline p)) then
    negb (has_newsc outs) &&
    (sl_last y =? now) && (sl_de y =? 0) && (sl_rcnt y =? 0) &&
    Bool.eqb (sl_refreshing y) (sl_refreshing x)
  else if mp_started p <? sl_last x then negb (has_newsc outs) && eqb_slot_refresh x y
  else
    (sl_de y =? (sl_de x + 1) mod W32) && (sl_last y =? sl_last x) && (sl_rcnt y =? sl_rcnt x) &&
    (if window_in_range e (sl_rcnt x) then
       Bool.eqb (has_newsc outs)
                ((c_ucalls e <=? sl_de x + 1) && (sl_last x <? now - window_ns e (sl_rcnt x)) &&
                 negb (sl_refreshing x))
     else true) &&
    (if has_newsc outs then
       Nat.eqb (count_newsc outs) 1 && negb (sl_refreshing x) &&
       N.eqb (sl_conn y) (sl_conn x) &&
       match news outs with
       | [(n, _)] => sl_refreshing y &&
                     match aget refr_a n with Some i => Nat.eqb i (mp_slot p) | None => false end
       | _ => negb (sl_refreshing y) && list_eqb nnat_eqb refr_b refr_a
       end
     else Bool.eqb (sl_refreshing y) (sl_refreshing x)).

Definition c07_swap_check (sc : N) (i : nat) (before after : obs) (outs : list out) (x y : slot) : bool :=
  list_eqb N.eqb (removes outs) [sl_conn x] &&
  N.eqb (sl_conn y) sc && (sl_aff y =? sl_aff x) && (sl_streams y =? sl_streams x) &&
  negb (sl_refreshing y) && (sl_de y =? 0) && (sl_last y =? o_now before) &&
  (sl_rcnt y =? (sl_rcnt x + 1) mod W32) &&
  match aget (o_refr after) sc with None => true | Some _ => false end &&
  list_eqb nn_eqb (o_aff after) (rekey (o_aff before) (sl_conn x) sc) &&
  match aget (o_refs after) sc with Some i' => Nat.eqb i i' | None => false end &&
  match aget (o_refs after) (sl_conn x) with None => true | Some _ => false end &&
  o_conn_ready after sc.

Definition no_removes (outs : list out) : bool := match removes outs with [] => true | _ => false end.

Lemma c07_event_done raw ms before j oc rk outs rt ub after :
  c07_event raw ms before (mkEvent (OpDone j oc rk) outs rt ub (Some after)) after =
  c07_undet_ok (eff raw) after &&
  match nth_error (ms_picks ms) j with
  | Some p =>
      match o_slot before (mp_slot p), o_slot after (mp_slot p) with
      | Some x, Some y =>
          c07_done_check (eff raw) (o_undet before) (o_now before) (o_refr before) (o_refr after) p oc outs x y
      | _, _ => true
      end
  | None => true
  end.
Proof. reflexivity. Qed.

Lemma c07_event_swap raw ms before sc outs rt ub after :
  c07_event raw ms before (mkEvent (OpConnState sc Ready) outs rt ub (Some after)) after =
  c07_undet_ok (eff raw) after &&
  match aget (o_refr before) sc with
  | Some i =>
      match o_slot before i, o_slot after i with
      | Some x, Some y => c07_swap_check sc i before after outs x y
      | _, _ => false
      end
  | None => no_removes outs
  end.
Proof. reflexivity. Qed.

Lemma c07_event_other raw ms before o outs rt ub after :
  match o with OpDone _ _ _ | OpConnState _ Ready => False | _ => True end ->
  c07_event raw ms before (mkEvent o outs rt ub (Some after)) after =
  c07_undet_ok (eff raw) after && no_removes outs.
Proof.
  destruct o as [| |sc st| | | | | | |]; intros H; try reflexivity; try (destruct H; fail).
  destruct st; try reflexivity. destruct H.
Qed.

(* ================================================================ clause 1: detection enabled by rule *)
Lemma cfg_after_link raw s ms o order s' outs rt ub c :
  Inv s -> Sim_cfg s ms -> full_step raw s o order = (s', outs, rt, ub) ->
  b_cfg s' = Some c -> c = effective (raw_in_force raw ms o).
Proof.
  intros HI HS E Hc. rewrite (full_step_cfg _ _ _ _ _ _ _ _ HI E) in Hc.
  unfold Sim_cfg in HS. unfold raw_in_force. destruct (ms_raw ms) as [r0|]; rewrite HS in Hc.
  - inv Hc. reflexivity.
  - destruct o as [addrs a| | | | | | | | |]; try discriminate. destruct a; try discriminate; inv Hc; reflexivity.
Qed.

Lemma c07_undet_holds raw s ms o order s' outs rt ub :
  Inv s -> InvU s -> Sim_cfg s ms -> full_step raw s o order = (s', outs, rt, ub) ->
  c07_undet_ok (eff (raw_in_force raw ms o)) (observe s') = true.
Proof.
  intros HI HU HS E. pose proof (full_step_InvU _ _ _ _ _ _ _ _ HI HU E) as HU'.
  unfold c07_undet_ok, observe, eff; cbn [o_cfgset o_undet]. unfold InvU, cfg_ucalls, cfg_ums in HU'.
  destruct (b_cfg s') as [c|] eqn:Ec.
  - rewrite <- (cfg_after_link _ _ _ _ _ _ _ _ _ _ HI HS E Ec). rewrite HU'. apply eqb_reflx.
  - rewrite HU'. reflexivity.
Qed.

(* ================================================================ clause 2: Done *)
Lemma done_check_ext e u now rb ra p oc outs x y x' y' :
  rview x' = rview x -> rview y' = rview y ->
  c07_done_check e u now rb ra p oc outs x' y' = c07_done_check e u now rb ra p oc outs x y.
Proof.
  intros H1 H2. unfold rview in H1, H2. destruct x, y, x', y'. sb. inv H1. inv H2. reflexivity.
Qed.

Lemma has_newsc_du s k : has_newsc (du_outs s k) = match k with KNone => false | _ => true end.
Proof. destruct k; reflexivity. Qed.

Lemma done_check_holds s p oc r e refr_b refr_a :
  cfg_ucalls s = c_ucalls e -> cfg_ums s = c_ums e -> InvU s ->
  0 <= sl_de r -> sl_de r + 1 < W32 ->
  match snd (du_result s p oc r) with
  | KOk => aget refr_a (b_next s) = Some (pk_slot p)
  | _ => refr_a = refr_b
  end ->
  c07_done_check e (b_undet s) (b_now s) refr_b refr_a (mpick_of p) oc
                 (du_outs s (snd (du_result s p oc r))) r (fst (du_result s p oc r)) = true.
Proof.
  intros Hc1 Hc2 HU Hd0 Hd1. unfold du_result, c07_done_check.
  cbn [mp_deadline mp_started mp_slot mpick_of]. unfold eqb_slot_refresh.
  destruct (b_undet s) eqn:Eu; cbn [negb].
  2:{ intros _. cbn [fst snd du_outs has_newsc existsb negb andb]. apply slot_refresh_eqb_refl. }
  destruct (InvU_pos s HU Eu) as [_ Hums]. rewrite Hc2 in Hums.
  destruct (client_dl (b_now s) oc (pk_deadline p)); cbn [negb].
  2:{ intros _. cbn [fst snd du_outs has_newsc existsb negb andb resp_slot sl_last sl_de sl_rcnt sl_refreshing].
      rewrite !Z.eqb_refl, eqb_reflx. reflexivity. }
  destruct (pk_started p <? sl_last r).
  { intros _. cbn [fst snd du_outs has_newsc existsb negb andb]. apply slot_refresh_eqb_refl. }
  cbv zeta.
  assert (Htr : window_in_range e (sl_rcnt r) = true ->
                du_trigger s r = (c_ucalls e <=? sl_de r + 1) && (sl_last r <? b_now s - window_ns e (sl_rcnt r))).
  { intros Hw. apply du_trigger_eq; auto. lia. }
  destruct (du_trigger s r) eqn:Etr.
  - destruct (sl_refreshing r) eqn:Erf.
    + intros _. rewrite has_newsc_du. cbn [fst snd sl_de sl_last sl_rcnt sl_refreshing sl_set_de].
      rewrite !Z.eqb_refl, Erf, eqb_reflx. cbn [andb negb].
      destruct (window_in_range e (sl_rcnt r)); [|reflexivity]. rewrite andb_false_r. reflexivity.
    + destruct (cannot_create s).
      * intros ->. rewrite has_newsc_du.
        cbn [fst snd sl_de sl_last sl_rcnt sl_refreshing sl_conn sl_set_de du_outs count_newsc filter length news flat_map app].
        rewrite !Z.eqb_refl, Erf, N.eqb_refl. cbn [andb negb Nat.eqb].
        rewrite (list_eqb_refl nnat_eqb) by apply nnat_eqb_refl.
        destruct (window_in_range e (sl_rcnt r)); [|reflexivity].
        rewrite <- Htr by reflexivity. reflexivity.
      * intros Ha. rewrite has_newsc_du.
        cbn [fst snd sl_de sl_last sl_rcnt sl_refreshing sl_conn sl_set_de sl_set_refreshing
             du_outs count_newsc filter length news flat_map app].
        rewrite !Z.eqb_refl, Erf, N.eqb_refl, Ha, Nat.eqb_refl. cbn [andb negb Nat.eqb].
        destruct (window_in_range e (sl_rcnt r)); [|reflexivity].
        rewrite <- Htr by reflexivity. reflexivity.
  - intros _. rewrite has_newsc_du. cbn [fst snd sl_de sl_last sl_rcnt sl_refreshing sl_set_de].
    rewrite !Z.eqb_refl, eqb_reflx. cbn [andb].
    destruct (window_in_range e (sl_rcnt r)); [|reflexivity].
    rewrite <- Htr by reflexivity. reflexivity.
Qed.
