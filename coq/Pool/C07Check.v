(* Engine A proofs, C07: the per-event check [c07_event] split into its three
   clauses, and each clause established from the model. *)
From GV Require Import Base.AListFacts Pool.Model Pool.Observe Pool.Monitors
                       Pool.Lemmas Pool.Inv Pool.Inv2 Pool.Frames Pool.Sim Pool.InvC20 Pool.SimHome
                       Pool.Reduce Pool.InvC02 Pool.C07Refresh Pool.C07Frames.
From Coq Require Import Lia ZifyBool.
Open Scope Z_scope.

(* ================================================================ the clauses of c07_event *)
Definition c07_undet_ok (e : config) (after : obs) : bool :=
  if o_cfgset after then Bool.eqb (o_undet after) ((0 <? c_ucalls e) && (0 <? c_ums e)) else negb (o_undet after).

Definition c07_done_check (e : config) (undet : bool) (now : Z) (refr_b refr_a : list (N * nat))
    (p : mpick) (oc : outcome) (outs : list out) (x y : slot) : bool :=
  if negb undet then negb (has_newsc outs) && eqb_slot_refresh x y
  else if negb (client_dl now oc (mp_deadline p)) then
    negb (has_newsc outs) &&
    (sl_last y =? now) && (sl_de y =? 0) && (sl_rcnt y =? 0) &&
    Bool.eqb (sl_refreshing y) (sl_refreshing x)
  else if mp_started p <? sl_last x then negb (has_newsc outs) && eqb_slot_refresh x y
  else
    (sl_de y =? (sl_de x + 1) mod W32) && (sl_last y =? sl_last x) && (sl_rcnt y =? sl_rcnt x) &&
    (if (0 <=? sl_last x) && (now <=? Int64Max) then
       Bool.eqb (has_newsc outs)
                ((c_ucalls e <=? (sl_de x + 1) mod W32) && window_elapsed e (sl_rcnt x) (sl_last x) now &&
                 negb (sl_refreshing x))
     else true) &&
    (if has_newsc outs then
       Nat.eqb (count_newsc outs) 1 && negb (sl_refreshing x) &&
       N.eqb (sl_conn y) (sl_conn x) &&
       match news outs with
       | [(n, _)] => sl_refreshing y &&
                     match aget refr_a n with Some i => Nat.eqb i (mp_slot p) | None => false end
       | _ => negb (sl_refreshing y) && list_eqb nnat_eqb refr_b refr_a
       end
     else Bool.eqb (sl_refreshing y) (sl_refreshing x)).

Definition c07_swap_check (sc : N) (i : nat) (before after : obs) (outs : list out) (ub : list (nat * N))
    (x y : slot) : bool :=
  list_eqb N.eqb (removes outs) [sl_conn x] &&
  N.eqb (sl_conn y) sc && (sl_aff y =? sl_aff x) &&
  (sl_streams y =? sl_streams x + Z.of_nat (length (filter (fun jn => N.eqb (snd jn) sc) ub))) &&
  negb (sl_refreshing y) && (sl_de y =? 0) && (sl_last y =? o_now before) &&
  (sl_rcnt y =? (sl_rcnt x + 1) mod W32) &&
  match aget (o_refr after) sc with None => true | Some _ => false end &&
  list_eqb nn_eqb (o_aff after) (rekey (o_aff before) (sl_conn x) sc) &&
  match aget (o_refs after) sc with Some i' => Nat.eqb i i' | None => false end &&
  match aget (o_refs after) (sl_conn x) with None => true | Some _ => false end &&
  o_conn_ready after sc.

Definition no_removes (outs : list out) : bool := match removes outs with [] => true | _ => false end.

Lemma c07_event_done raw ms before j oc rk outs rt ub after :
  c07_event raw ms before (mkEvent (OpDone j oc rk) outs rt ub (Some after)) after =
  c07_undet_ok (eff raw) after &&
  match nth_error (ms_picks ms) j with
  | Some p =>
      match o_slot before (mp_slot p), o_slot after (mp_slot p) with
      | Some x, Some y =>
          c07_done_check (eff raw) (o_undet before) (o_now before) (o_refr before) (o_refr after) p oc outs x y
      | _, _ => true
      end
  | None => true
  end.
Proof. reflexivity. Qed.

Lemma c07_event_swap raw ms before sc outs rt ub after :
  c07_event raw ms before (mkEvent (OpConnState sc Ready) outs rt ub (Some after)) after =
  c07_undet_ok (eff raw) after &&
  match aget (o_refr before) sc with
  | Some i =>
      match o_slot before i, o_slot after i with
      | Some x, Some y => c07_swap_check sc i before after outs ub x y
      | _, _ => false
      end
  | None => no_removes outs
  end.
Proof. reflexivity. Qed.

Lemma c07_event_other raw ms before o outs rt ub after :
  match o with OpDone _ _ _ | OpConnState _ Ready => False | _ => True end ->
  c07_event raw ms before (mkEvent o outs rt ub (Some after)) after =
  c07_undet_ok (eff raw) after && no_removes outs.
Proof.
  destruct o as [| |sc st| | | | | | |]; intros H; try reflexivity; try (destruct H; fail).
  destruct st; try reflexivity. destruct H.
Qed.

(* ================================================================ clause 1: detection enabled by rule *)
Lemma cfg_after_link raw s ms o order s' outs rt ub c :
  Inv s -> Sim_cfg s ms -> full_step raw s o order = (s', outs, rt, ub) ->
  b_cfg s' = Some c -> c = effective (raw_in_force raw ms o).
Proof.
  intros HI HS E Hc. rewrite (full_step_cfg _ _ _ _ _ _ _ _ HI E) in Hc.
  unfold Sim_cfg in HS. unfold raw_in_force. destruct (ms_raw ms) as [r0|]; rewrite HS in Hc.
  - inv Hc. reflexivity.
  - destruct o as [addrs a| | | | | | | | |]; try discriminate. destruct a; try discriminate; inv Hc; reflexivity.
Qed.

Lemma c07_undet_holds raw s ms o order s' outs rt ub :
  Inv s -> InvU s -> Sim_cfg s ms -> full_step raw s o order = (s', outs, rt, ub) ->
  c07_undet_ok (eff (raw_in_force raw ms o)) (observe s') = true.
Proof.
  intros HI HU HS E. pose proof (full_step_InvU _ _ _ _ _ _ _ _ HI HU E) as HU'.
  unfold c07_undet_ok, observe, eff; cbn [o_cfgset o_undet]. unfold InvU, cfg_ucalls, cfg_ums in HU'.
  destruct (b_cfg s') as [c|] eqn:Ec.
  - rewrite <- (cfg_after_link _ _ _ _ _ _ _ _ _ _ HI HS E Ec). rewrite HU'. apply eqb_reflx.
  - rewrite HU'. reflexivity.
Qed.

(* ================================================================ clause 2: Done *)
Lemma done_check_ext e u now rb ra p oc outs x y x' y' :
  rview x' = rview x -> rview y' = rview y ->
  c07_done_check e u now rb ra p oc outs x' y' = c07_done_check e u now rb ra p oc outs x y.
Proof.
  intros H1 H2. unfold rview in H1, H2. destruct x, y, x', y'. sb. inv H1. inv H2. reflexivity.
Qed.

Lemma has_newsc_du s k : has_newsc (du_outs s k) = match k with KNone => false | _ => true end.
Proof. destruct k; reflexivity. Qed.

Lemma done_check_holds s p oc r e refr_b refr_a :
  cfg_ucalls s = c_ucalls e -> cfg_ums s = c_ums e -> InvU s -> 0 <= sl_rcnt r ->
  match snd (du_result s p oc r) with
  | KOk => aget refr_a (b_next s) = Some (pk_slot p)
  | _ => refr_a = refr_b
  end ->
  c07_done_check e (b_undet s) (b_now s) refr_b refr_a (mpick_of p) oc
                 (du_outs s (snd (du_result s p oc r))) r (fst (du_result s p oc r)) = true.
Proof.
  intros Hc1 Hc2 HU Hrc. unfold du_result, c07_done_check.
  cbn [mp_deadline mp_started mp_slot mpick_of]. unfold eqb_slot_refresh.
  destruct (b_undet s) eqn:Eu; cbn [negb].
  2:{ intros _. cbn [fst snd du_outs has_newsc existsb negb andb]. apply slot_refresh_eqb_refl. }
  destruct (InvU_pos s HU Eu) as [_ Hums]. rewrite Hc2 in Hums.
  destruct (client_dl (b_now s) oc (pk_deadline p)); cbn [negb].
  2:{ intros _. cbn [fst snd du_outs has_newsc existsb negb andb resp_slot sl_last sl_de sl_rcnt sl_refreshing].
      rewrite !Z.eqb_refl, eqb_reflx. reflexivity. }
  destruct (pk_started p <? sl_last r).
  { intros _. cbn [fst snd du_outs has_newsc existsb negb andb]. apply slot_refresh_eqb_refl. }
  cbv zeta.
  (* the monitor's guard: the clock is an int64 count of nanoseconds *)
  assert (Htr : (0 <=? sl_last r) && (b_now s <=? Int64Max) = true ->
                du_trigger s r = (c_ucalls e <=? (sl_de r + 1) mod W32) &&
                                 window_elapsed e (sl_rcnt r) (sl_last r) (b_now s)).
  { intros Hw. apply andb_true_iff in Hw. destruct Hw as [Hw1 Hw2].
    apply du_trigger_eq; auto; [lia|]. rewrite MaxInt64_Int64Max. lia. }
  destruct (du_trigger s r) eqn:Etr.
  - destruct (sl_refreshing r) eqn:Erf.
    + intros _. rewrite has_newsc_du. cbn [fst snd sl_de sl_last sl_rcnt sl_refreshing sl_set_de].
      rewrite !Z.eqb_refl, Erf, eqb_reflx. cbn [andb negb].
      destruct ((0 <=? sl_last r) && (b_now s <=? Int64Max)); [|reflexivity]. rewrite andb_false_r. reflexivity.
    + destruct (cannot_create s).
      * cbn [snd]. intros ->. rewrite has_newsc_du.
        cbn [fst snd sl_de sl_last sl_rcnt sl_refreshing sl_conn sl_set_de du_outs count_newsc filter length news flat_map app].
        rewrite !Z.eqb_refl, Erf, N.eqb_refl. cbn [andb negb Nat.eqb].
        rewrite (list_eqb_refl nnat_eqb) by apply nnat_eqb_refl.
        destruct ((0 <=? sl_last r) && (b_now s <=? Int64Max)) eqn:Eg; [|reflexivity].
        rewrite <- Htr by reflexivity. reflexivity.
      * intros Ha. cbn [snd] in Ha. rewrite has_newsc_du.
        cbn [fst snd sl_de sl_last sl_rcnt sl_refreshing sl_conn sl_set_de sl_set_refreshing
             du_outs count_newsc filter length news flat_map app].
        rewrite !Z.eqb_refl, N.eqb_refl, Ha, !Nat.eqb_refl. cbn [andb negb].
        destruct ((0 <=? sl_last r) && (b_now s <=? Int64Max)) eqn:Eg; [|reflexivity].
        rewrite <- Htr by reflexivity. reflexivity.
  - intros _. rewrite has_newsc_du. cbn [fst snd sl_de sl_last sl_rcnt sl_refreshing sl_set_de].
    rewrite !Z.eqb_refl, eqb_reflx. cbn [andb].
    destruct ((0 <=? sl_last r) && (b_now s <=? Int64Max)) eqn:Eg; [|reflexivity].
    rewrite <- Htr by reflexivity. reflexivity.
Qed.

Lemma c07_done_holds raw s ms j oc rk order s' outs rt ub :
  Inv s -> InvU s -> clock_ok s -> Sim s ms -> rt <> RBadOp ->
  full_step raw s (OpDone j oc rk) order = (s', outs, rt, ub) ->
  match nth_error (ms_picks ms) j with
  | Some p =>
      match o_slot (observe s) (mp_slot p), o_slot (observe s') (mp_slot p) with
      | Some x, Some y =>
          c07_done_check (eff (raw_in_force raw ms (OpDone j oc rk))) (o_undet (observe s)) (o_now (observe s))
                         (o_refr (observe s)) (o_refr (observe s')) p oc outs x y
      | _, _ => true
      end
  | None => true
  end = true.
Proof.
  intros HI HU HC HS Hrt. rewrite full_step_eq. cbn [step].
  destruct (Done s j oc rk) as [[s1 o1] r1] eqn:Ed.
  destruct (resolve_blocked s1) as [s2 ub2] eqn:Er. intros E; inv E.
  destruct (Done_spec _ _ _ _ _ _ _ HI Ed Hrt) as (p & r & Hj & Hst & Hr & H1 & H2 & H3). cbv zeta in H1, H2, H3.
  destruct HS as (_ & HSc & _ & _ & HSp & _).
  unfold SimP in HSp. rewrite HSp, (map_nth_error mpick_of _ _ Hj).
  change (mp_slot (mpick_of p)) with (pk_slot p).
  change (o_slot (observe s) (pk_slot p)) with (get_slot s (pk_slot p)). rewrite Hr.
  change (o_slot (observe s') (pk_slot p)) with (get_slot s' (pk_slot p)).
  destruct (get_slot s' (pk_slot p)) as [y|] eqn:Hy; [|reflexivity].
  destruct (Done_Inv _ _ _ _ _ _ _ HI Ed) as [HI1 _].
  destruct (resolve_blocked_spec _ _ _ HI1 Er) as [HI' [Hm _]].
  set (s0 := done_s1 s j p) in *. set (r0 := sl_set_streams r (wrap32s (sl_streams r - 1))) in *.
  set (res := du_result s0 p oc r0) in *.
  (* the slot after is the model's result slot, up to the stream count *)
  assert (Hyv : rview y = rview (fst res)).
  { pose proof (rviews_mask_sp _ _ Hm) as Hrv. rewrite H1 in Hrv.
    pose proof (map_nth_error rview _ _ Hy) as Hn. rewrite Hrv, nth_error_upd_nth_eq in Hn.
    rewrite (map_nth_error rview _ _ Hr) in Hn. cbn [option_map] in Hn. congruence. }
  assert (Hxv : rview r = rview r0) by reflexivity.
  rewrite (done_check_ext _ _ _ _ _ _ _ _ r0 (fst res) r y Hxv Hyv).
  (* the configuration *)
  destruct (b_cfg s) as [c|] eqn:Ec.
  2:{ exfalso. eapply InvG_cfg_picks; [apply HI|eapply nth_error_nonnil, Hj|exact Ec]. }
  pose proof (Sim_cfg_in_force raw s ms (OpDone j oc rk) c HSc Ec) as Hc.
  assert (Hrf : b_refr s' = du_refr s0 (pk_slot p) (snd res)).
  { pose proof (f_equal b_refr Hm) as H. cbn in H. rewrite H. exact H3. }
  change (o_undet (observe s)) with (b_undet s0). change (o_now (observe s)) with (b_now s0).
  change (o_refr (observe s)) with (asort (b_refr s0)).
  change (o_refr (observe s')) with (asort (b_refr s')). rewrite Hrf, H2.
  apply done_check_holds.
  - change (cfg_ucalls s0) with (cfg_ucalls s). unfold cfg_ucalls, eff. rewrite Ec, Hc. reflexivity.
  - change (cfg_ums s0) with (cfg_ums s). unfold cfg_ums, eff. rewrite Ec, Hc. reflexivity.
  - exact HU.
  - change (sl_rcnt r0) with (sl_rcnt r). apply (clock_ok_slot s (pk_slot p) r HC Hr).
  - fold res. destruct (snd res); try reflexivity. cbn [du_refr].
    rewrite aget_asort; [apply aget_aset_eq|].
    apply NoDup_akeys_aset. change (b_refr s0) with (b_refr s). apply (nd_refr (proj1 HI)).
Qed.

(* ================================================================ clause 3: the swap *)
(* sorting by key commutes with any map that keeps the keys; in particular with rekey *)
Lemma ains_map {V W} (f : N * V -> N * W) :
  (forall kv, fst (f kv) = fst kv) -> forall x l, ains (f x) (map f l) = map f (ains x l).
Proof.
  intros Hf x l. induction l as [|y r IH]; cbn [map ains]; [reflexivity|].
  rewrite !Hf. destruct (N.leb (fst x) (fst y)); cbn [map]; [reflexivity|]. rewrite IH. reflexivity.
Qed.

Lemma asort_map {V W} (f : N * V -> N * W) :
  (forall kv, fst (f kv) = fst kv) -> forall m, asort (map f m) = map f (asort m).
Proof.
  intros Hf m. unfold asort. induction m as [|x r IH]; cbn [map fold_right]; [reflexivity|].
  rewrite IH. apply ains_map, Hf.
Qed.

Lemma asort_rekey m a b : asort (rekey m a b) = rekey (asort m) a b.
Proof. unfold rekey. apply asort_map. intros [k v]; cbn. destruct (N.eqb v a); reflexivity. Qed.

Lemma c07_swap_holds raw s sc order s' outs rt ub i :
  Inv s -> picks_ok s' -> full_step raw s (OpConnState sc Ready) order = (s', outs, rt, ub) ->
  aget (o_refr (observe s)) sc = Some i ->
  match o_slot (observe s) i, o_slot (observe s') i with
  | Some x, Some y => c07_swap_check sc i (observe s) (observe s') outs ub x y
  | _, _ => false
  end = true.
Proof.
  intros HI Hok E Hri. pose proof (proj1 HI) as HK.
  assert (Hr : aget (b_refr s) sc = Some i).
  { unfold observe in Hri; cbn [o_refr] in Hri. rewrite aget_asort in Hri by apply (nd_refr HK). exact Hri. }
  destruct (refr_get_slot s HK _ _ Hr) as [ref [Hs _]].
  rewrite full_step_eq in E. cbn [step] in E.
  destruct (UpdateSubConnState s sc Ready order) as [s1 o1] eqn:E1.
  destruct (resolve_blocked s1) as [s2 ub2] eqn:Er. inv E.
  destruct (swap_step _ _ _ _ _ _ _ HI Hr Hs E1) as (R1 & R2 & R3 & R4 & R5 & R6).
  destruct (UpdateSubConnState_Inv _ _ _ _ _ _ HI E1) as [HI1 _].
  pose proof (swap_ne s sc i ref HI Hr Hs) as Hne.
  assert (Hs1 : get_slot s1 i = Some (swapped_slot sc (b_now s) ref)).
  { unfold get_slot. rewrite R2, nth_error_upd_nth_eq. unfold get_slot in Hs. rewrite Hs. reflexivity. }
  destruct (resolve_blocked_spec _ _ _ HI1 Er) as [HI' [Hm [Hpk _]]]. pose proof (proj1 HI') as HK'.
  assert (Hok1 : picks_ok s1).
  { unfold picks_ok in *. rewrite Hpk, map_length in Hok. exact Hok. }
  pose proof (resolve_blocked_streams_count s1 s' ub i _ HI1 Hok1 Er Hs1) as Hs'.
  pose proof (f_equal b_refr Hm) as M1. pose proof (f_equal b_aff Hm) as M2.
  pose proof (f_equal b_screfs Hm) as M3. pose proof (f_equal b_scstates Hm) as M4. cbn in M1, M2, M3, M4.
  change (o_slot (observe s) i) with (get_slot s i). rewrite Hs.
  change (o_slot (observe s') i) with (get_slot s' i). rewrite Hs'.
  unfold c07_swap_check, o_conn_ready, o_conn_state, observe, handed;
    cbn [o_refr o_aff o_refs o_now o_st swapped_slot sl_set_streams
         sl_conn sl_aff sl_streams sl_last sl_de sl_refreshing sl_rcnt].
  rewrite R1. cbn [list_eqb]. rewrite !N.eqb_refl, !Z.eqb_refl. cbn [andb negb].
  rewrite (aget_asort (b_refr s')) by apply (nd_refr HK').
  rewrite !(aget_asort (b_screfs s')) by apply (nd_screfs HK').
  rewrite (aget_asort (b_scstates s')) by apply (nd_scstates HK').
  rewrite M1, M2, M3, M4, R3, R4, R5, R6, aget_adel_eq, aget_aset_eq, Nat.eqb_refl.
  rewrite aget_aset_neq by exact Hne. rewrite aget_adel_eq, asort_rekey.
  rewrite (list_eqb_refl nn_eqb) by apply nn_eqb_refl. reflexivity.
Qed.

(* ================================================================ the other events remove nothing *)
Lemma no_removes_no_rm o : no_rm o -> no_removes o = true.
Proof. unfold no_rm, no_removes. intros ->. reflexivity. Qed.

Lemma step_other_no_rm raw s o order s1 outs rt :
  Inv s -> rt <> RBadOp -> step raw s o order = (s1, outs, rt) ->
  match o with OpConnState sc Ready => aget (b_refr s) sc = None | _ => True end ->
  no_rm outs.
Proof.
  intros HI Hrt E Ho. pose proof (step_grow7 _ _ _ _ _ _ _ HI E) as Hg.
  destruct o as [addrs a| |sc st|pi m hc rk dl cc|j oc rk|dt|j|f|g|k]; try (apply Hg).
  - cbn [step] in E. destruct (UpdateSubConnState s sc st order) as [s1' o1] eqn:E1. inv E.
    eapply UpdateSubConnState_no_rm; [exact HI| |exact E1]. intros ->. exact Ho.
  - cbn [step] in E. destruct (Done_spec _ _ _ _ _ _ _ HI E Hrt) as (p & r & _ & _ & _ & _ & H2 & _).
    cbv zeta in H2. rewrite H2. apply du_outs_no_rm.
Qed.
