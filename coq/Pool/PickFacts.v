(* Engine A proofs: facts about Pick shared by C01, C08 and C09.
   - the round-robin cursor b_rr: which operations move it, and by how much
   - the exact result of a round-robin BIND pick
   - the exact result of a keyed (BOUND/UNBIND) pick, through getReadySubConnRef
   - observation-level views of "channel i is READY" *)
From GV Require Import Base.AListFacts Pool.Model Pool.Observe Pool.Monitors
                       Pool.Lemmas Pool.Inv Pool.Inv2 Pool.Frames Pool.Sim Pool.InvC06.
From Coq Require Import Lia ZifyBool.
Open Scope Z_scope.

(* ================================================================ the cursor *)
Lemma UpdateClientConnState_rr s addrs a raw s' o r :
  Inv s -> UpdateClientConnState s addrs a raw = (s', o, r) -> b_rr s' = b_rr s.
Proof.
  intros HI. rewrite UpdateClientConnState_eq.
  destruct (ucc_init s addrs a raw) as [[s2 o2]|] eqn:E0; [|intros E; inv E; reflexivity].
  destruct (ucc_init_Inv _ _ _ _ _ _ HI E0) as [HI2 [Hc2 _]].
  assert (H02 : b_rr s2 = b_rr s).
  { unfold ucc_init in E0. sb. destruct (b_cfg s); [inv E0; reflexivity|].
    destruct a; try discriminate; inv E0.
    - destruct (initializeConfig (set_addrs s addrs) None) as [s3 o3] eqn:Ei. inv H0.
      apply initializeConfig_Inv in Ei; [|apply Inv_set_addrs, HI]. destruct Ei as [_ HF]. apply (gf_rr _ _ HF).
    - destruct (initializeConfig (set_addrs s addrs) raw) as [s3 o3] eqn:Ei. inv H0.
      apply initializeConfig_Inv in Ei; [|apply Inv_set_addrs, HI]. destruct Ei as [_ HF]. apply (gf_rr _ _ HF). }
  destruct (_ =? _)%nat; [|intros E; inv E; exact H02].
  destruct (addSubConn s2) as [[s3 ok] o3] eqn:E3. intros E; inv E.
  eapply addSubConn_Inv in E3; eauto. destruct E3 as [_ HF]. rewrite (gf_rr _ _ HF). exact H02.
Qed.

Lemma refresh_rr s i s' o : refresh s i = (s', o) -> b_rr s' = b_rr s.
Proof.
  intros E. destruct (refresh_cases s i) as [[E' _]|[r [Es [Er [[_ E']|[_ E']]]]]];
    rewrite E' in E; inv E; reflexivity.
Qed.

Lemma detectUnresponsive_rr s p oc s' o : detectUnresponsive s p oc = (s', o) -> b_rr s' = b_rr s.
Proof.
  unfold detectUnresponsive.
  destruct (negb (b_undet s)); [intros E; inv E; reflexivity|].
  destruct (negb _); [intros E; inv E; reflexivity|].
  destruct (get_slot s (pk_slot p)) as [r|]; [|intros E; inv E; reflexivity].
  destruct (pk_started p <? sl_last r); [intros E; inv E; reflexivity|].
  destruct (_ && _); [|intros E; inv E; reflexivity].
  intros E. apply refresh_rr in E. exact E.
Qed.

Lemma bindSubConn_rr s key sc : b_rr (bindSubConn s key sc) = b_rr s.
Proof. unfold bindSubConn. destruct (aget (b_screfs s) sc); [|auto]. destruct (aget (b_aff s) key); auto. Qed.

Lemma fold_bindSubConn_rr keys sc : forall s,
  b_rr (fold_left (fun st k => bindSubConn st k sc) keys s) = b_rr s.
Proof.
  induction keys as [|k r IH]; intros s; cbn [fold_left]; [auto|]. rewrite IH. apply bindSubConn_rr.
Qed.

Lemma unbindSubConn_rr s key : b_rr (unbindSubConn s key) = b_rr s.
Proof. unfold unbindSubConn. destruct (aget (b_aff s) key); [|auto]. destruct (aget (b_screfs s) n); auto. Qed.

Lemma done_bind_rr s2 p oc rk : b_rr (done_bind s2 p oc rk) = b_rr s2.
Proof.
  unfold done_bind. destruct oc; auto. destruct (pk_cmd p); auto.
  - destruct (_ && _); auto. destruct (get_slot s2 (pk_slot p)); auto. apply fold_bindSubConn_rr.
  - apply unbindSubConn_rr.
Qed.

Lemma Done_rr s j oc rk s' o r : Done s j oc rk = (s', o, r) -> b_rr s' = b_rr s.
Proof.
  rewrite Done_eq. destruct (nth_error (b_picks s) j) as [p|]; [|intros E; inv E; reflexivity].
  destruct (pk_status p); try (intros E; inv E; reflexivity).
  destruct (detectUnresponsive (done_s1 s j p) p oc) as [s2 o2] eqn:Ed. intros E; inv E.
  apply detectUnresponsive_rr in Ed. rewrite done_bind_rr, Ed. reflexivity.
Qed.

(* a Pick that goes through getSubConnRoundRobin *)
Definition pick_is_rr (s : bal) (pk : picker) (method : N) : bool :=
  match pk with
  | PSnap (_ :: _) => cmd_eqb (pick_cmd0 s method) BIND && cfg_rr s
  | _ => false
  end.

Lemma pick_keyres_bind s method hasctx reqkeys :
  cmd_eqb (pick_cmd0 s method) BIND = true -> pick_keyres s method hasctx reqkeys = Some 0%N.
Proof.
  unfold pick_cmd0, pick_keyres. destruct (aget (cfg_methods s) method) as [mc|]; [|discriminate].
  destruct (m_cmd mc); try discriminate. intros _. rewrite andb_false_r. reflexivity.
Qed.

Lemma Pick_rr s pi pk method hasctx reqkeys deadline cancelled s' o r :
  Inv s -> nth_error (b_published s) pi = Some pk ->
  Pick s pi pk method hasctx reqkeys deadline cancelled = (s', o, r) ->
  b_rr s' = if pick_is_rr s pk method then (b_rr s + 1) mod W32 else b_rr s.
Proof.
  intros HI Hpk. rewrite Pick_eq. unfold pick_is_rr.
  assert (Hc : b_cfg s <> None).
  { eapply InvG_cfg_pubs; [apply HI|eapply nth_error_nonnil, Hpk]. }
  destruct pk as [[|]|[|a l]]; try (intros E; inv E; reflexivity).
  assert (Hrefs : forall i, In i (a :: l) -> (i < length (b_slots s))%nat).
  { intros i Hi. destruct HI as (_&_&HP&_). eapply (pub_valid HP); eauto. eapply nth_error_In, Hpk. }
  destruct (cmd_eqb _ BIND && cfg_rr s) eqn:Err.
  - apply andb_true_iff in Err. destruct Err as [Eb _].
    rewrite (pick_keyres_bind _ _ hasctx reqkeys Eb).
    assert (Hs : b_slots s <> []).
    { specialize (Hrefs a (or_introl eq_refl)). destruct (b_slots s); [cbn in Hrefs; lia|discriminate]. }
    rewrite pick_rr_nonempty by exact Hs. unfold pick_rr_body. cbv zeta.
    destruct (get_slot _ _); [|intros E; inv E; reflexivity].
    destruct (_ || _); intros E; inv E; reflexivity.
  - destruct (pick_keyres s method hasctx reqkeys) as [key|]; [|intros E; inv E; reflexivity].
    unfold pick_lb. destruct (pick_dec s key (a :: l)) as [s1 dec] eqn:Ed.
    destruct (pick_dec_Inv _ _ _ _ _ HI Hrefs Ed) as [HI1 [[fb' ->] Hdec]].
    destruct dec as [i| |].
    + destruct (get_slot _ i); intros E; inv E; reflexivity.
    + destruct (b_gate _); [intros E; inv E; reflexivity|].
      destruct (newSubConn (set_fb s fb')) as [s3 o3] eqn:En. intros E; inv E.
      eapply newSubConn_Inv in En; eauto. destruct En as [_ HF]. apply (gf_rr _ _ HF).
    + intros E; inv E; reflexivity.
Qed.

(* the operation is a round-robin BIND call on a picker with a non-empty snapshot *)
Definition is_rr_pick (s : bal) (o : op) : bool :=
  match o with
  | OpPick pi m _ _ _ _ =>
      match nth_error (b_published s) pi with
      | Some pk => pick_is_rr s pk m
      | None => false
      end
  | _ => false
  end.

Lemma step_rr raw s o order s' outs r :
  Inv s -> step raw s o order = (s', outs, r) ->
  b_rr s' = if is_rr_pick s o then (b_rr s + 1) mod W32 else b_rr s.
Proof.
  intros HI. destruct o as [addrs a| |sc st|pi m hc rk dl cc|j oc rk|dt|j|f|g|k]; cbn [step is_rr_pick].
  - apply UpdateClientConnState_rr, HI.
  - intros E; inv E. reflexivity.
  - destruct (UpdateSubConnState s sc st order) as [s1 o1] eqn:E1. intros E; inv E.
    eapply UpdateSubConnState_Inv in E1; eauto. destruct E1 as [_ HF]. apply (uf_rr _ _ HF).
  - destruct (nth_error (b_published s) pi) as [pk|] eqn:Ep; [|intros E; inv E; reflexivity].
    fold (pick_cmd0 s m).
    destruct (memnat pi (b_parked s) && negb (cmd_eqb (pick_cmd0 s m) BIND && cfg_rr s)) eqn:Epk.
    + intros E; inv E. unfold pick_is_rr. apply andb_true_iff in Epk. destruct Epk as [_ Epk].
      apply negb_true_iff in Epk. rewrite Epk. destruct pk as [|[|? ?]]; reflexivity.
    + eapply Pick_rr; eauto.
  - apply Done_rr.
  - destruct (0 <=? dt); intros E; inv E; reflexivity.
  - destruct (nth_error (b_picks s) j); intros E; inv E; reflexivity.
  - intros E; inv E; reflexivity.
  - intros E; inv E; reflexivity.
  - destruct (nth_error (b_parked s) k) eqn:Ek; [|intros E; inv E; reflexivity].
    destruct (newSubConn _) as [s2 o2] eqn:En. intros E; inv E.
    assert (Hc : b_cfg s <> None) by (eapply InvG_cfg_parked; [apply HI|eapply nth_error_nonnil, Ek]).
    eapply newSubConn_Inv in En; [destruct En as [_ HF]; apply (gf_rr _ _ HF)|exact Hc|].
    apply Inv_set_parked; auto. intros pi Hpi. apply In_remove_nth in Hpi.
    destruct HI as (_&_&_&_&_&HS). apply (parked_valid HS), Hpi.
Qed.

Lemma full_step_rr raw s o order s' outs r ub :
  Inv s -> full_step raw s o order = (s', outs, r, ub) ->
  b_rr s' = if is_rr_pick s o then (b_rr s + 1) mod W32 else b_rr s.
Proof.
  intros HI. rewrite full_step_eq.
  destruct (step raw s o order) as [[s1 outs1] r1] eqn:Es.
  destruct (resolve_blocked s1) as [s2 ub2] eqn:Er. intros E; inv E.
  destruct (step_Inv _ _ _ _ _ _ _ HI Es) as [HI1 _].
  destruct (resolve_blocked_spec _ _ _ HI1 Er) as [_ [Hm _]].
  apply (f_equal b_rr) in Hm. cbn in Hm. rewrite Hm. eapply step_rr; eauto.
Qed.

(* ================================================================ a round-robin BIND pick, exactly *)
Definition call_done (now : Z) (deadline : option Z) (cancelled : bool) : bool :=
  cancelled || match deadline with Some d => d <=? now | None => false end.

Lemma Pick_rr_spec s pi pk method hasctx reqkeys deadline cancelled s1 o r :
  Inv s -> nth_error (b_published s) pi = Some pk -> pick_is_rr s pk method = true ->
  Pick s pi pk method hasctx reqkeys deadline cancelled = (s1, o, r) ->
  let rr := (b_rr s + 1) mod W32 in
  let i := Z.to_nat (rr mod Z.of_nat (length (b_slots s))) in
  exists sl, nth_error (b_slots s) i = Some sl /\
    if cstate_eqb (conn_state s (sl_conn sl)) Ready || call_done (b_now s) deadline cancelled
    then r = RPicked (sl_conn sl) /\ exists p, b_picks s1 = b_picks s ++ [p] /\ pk_status p = PPlaced
    else r = RBlocked /\ exists p, b_picks s1 = b_picks s ++ [p] /\ can_proceed s1 p = false.
Proof.
  intros HI Hpk Hrr. rewrite Pick_eq. unfold pick_is_rr in Hrr.
  destruct pk as [[|]|[|a l]]; try discriminate.
  assert (Hrefs : forall i, In i (a :: l) -> (i < length (b_slots s))%nat).
  { intros i Hi. destruct HI as (_&_&HP&_). eapply (pub_valid HP); eauto. eapply nth_error_In, Hpk. }
  rewrite Hrr. pose proof Hrr as Hrr'. apply andb_true_iff in Hrr'. destruct Hrr' as [Eb _].
  rewrite (pick_keyres_bind _ _ hasctx reqkeys Eb).
  assert (Hs : b_slots s <> []).
  { specialize (Hrefs a (or_introl eq_refl)). destruct (b_slots s); [cbn in Hrefs; lia|discriminate]. }
  rewrite pick_rr_nonempty by exact Hs. unfold pick_rr_body. cbv zeta.
  pose proof (rr_index_lt s Hs) as Hi.
  set (rr := (b_rr s + 1) mod W32) in *.
  set (i := Z.to_nat (rr mod Z.of_nat (length (b_slots s)))) in *.
  destruct (nth_error_lt_Some _ _ Hi) as [sl Es].
  change (get_slot (set_rr s rr) i) with (nth_error (b_slots s) i). rewrite Es.
  change (conn_state (set_rr s rr) (sl_conn sl)) with (conn_state s (sl_conn sl)).
  change (b_now (set_rr s rr)) with (b_now s).
  change (ctx_done (b_now s) (pick_mk s method hasctx 0%N deadline cancelled i PBlocked))
    with (call_done (b_now s) deadline cancelled).
  intros E. exists sl. split; [reflexivity|].
  destruct (cstate_eqb (conn_state s (sl_conn sl)) Ready || call_done (b_now s) deadline cancelled) eqn:Ec; inv E.
  - split; [reflexivity|]. eexists. split; [reflexivity|reflexivity].
  - split; [reflexivity|]. eexists. split; [reflexivity|].
    unfold can_proceed, pick_mk, get_slot. sb. rewrite Es. exact Ec.
Qed.

(* ================================================================ observation-level views *)
Lemma conn_of_slot_observe s i :
  conn_of_slot (observe s) i = nth_error (conns s) i.
Proof.
  unfold conn_of_slot, o_slot, observe; cbn [o_slots]. rewrite nth_error_map.
  destruct (nth_error (b_slots s) i); reflexivity.
Qed.

(* channel i is READY in the observation iff its current connection is READY *)
Lemma o_slot_ready_observe s i sc :
  InvK s -> nth_error (conns s) i = Some sc ->
  o_slot_ready (observe s) i = cstate_eqb (conn_state s sc) Ready.
Proof.
  intros HK Hi. pose proof Hi as Hi'. apply nth_error_map_Some in Hi'. destruct Hi' as [sl [Hs Hc]].
  unfold o_slot_ready, o_slot. cbn [observe o_slots o_refs]. rewrite Hs, Hc.
  rewrite o_conn_ready_observe by exact HK.
  destruct (cstate_eqb_spec (conn_state s sc) Ready) as [Er|Er]; [|reflexivity]. cbn [andb].
  rewrite aget_asort by apply (nd_screfs HK).
  unfold conn_state in Er. destruct (aget (b_scstates s) sc) as [x|] eqn:Est; [|discriminate].
  destruct (scstates_screfs s HK _ _ Est) as [j Hj]. rewrite Hj.
  pose proof (screfs_slot HK _ _ Hj) as Hcj.
  rewrite (NoDup_nth_error_inj _ _ _ _ (nd_conns HK) Hi Hcj). apply Nat.eqb_refl.
Qed.

Lemma conn_ready_screfs s i sc :
  InvK s -> nth_error (conns s) i = Some sc -> conn_state s sc = Ready -> aget (b_screfs s) sc = Some i.
Proof.
  intros HK Hi Er. unfold conn_state in Er. destruct (aget (b_scstates s) sc) as [x|] eqn:Est; [|discriminate].
  destruct (scstates_screfs s HK _ _ Est) as [j Hj]. rewrite Hj. f_equal.
  pose proof (screfs_slot HK _ _ Hj) as Hcj. symmetry.
  apply (NoDup_nth_error_inj _ _ _ _ (nd_conns HK) Hi Hcj).
Qed.

(* ================================================================ a keyed pick *)
(* the four ways getReadySubConnRef answers for a bound key *)
Inductive ready_ref (s : bal) (k sc : N) : bal * option nat * bool -> Prop :=
| RRHome : conn_state s sc = Ready -> ready_ref s k sc (s, aget (b_screfs s) sc, true)
| RRNoFallback : conn_state s sc <> Ready -> cfg_fallback s = false -> ready_ref s k sc (s, None, true)
| RRStandIn sc2 : conn_state s sc <> Ready -> cfg_fallback s = true -> aget (b_fb s) k = Some sc2 ->
                  ready_ref s k sc (s, aget (b_screfs s) sc2, true)
| RRNewStandIn refs i sl :
    conn_state s sc <> Ready -> cfg_fallback s = true -> aget (b_fb s) k = None ->
    b_picker s = PSnap refs -> leastBusy s refs = Some i -> get_slot s i = Some sl ->
    ready_ref s k sc (set_fb s (aset (b_fb s) k (sl_conn sl)), Some i, true)
| RRNone :
    conn_state s sc <> Ready -> cfg_fallback s = true -> aget (b_fb s) k = None ->
    (forall a l, b_picker s <> PSnap (a :: l)) -> ready_ref s k sc (s, None, true).

Lemma getReadySubConnRef_bound s k sc :
  Inv s -> aget (b_aff s) k = Some sc -> ready_ref s k sc (getReadySubConnRef s k).
Proof.
  intros HI Ha. unfold getReadySubConnRef. rewrite Ha.
  destruct (cstate_eqb_spec (conn_state s sc) Ready) as [Er|Er]; cbn [negb]; [apply RRHome, Er|].
  destruct (cfg_fallback s) eqn:Ef; [|apply RRNoFallback; auto].
  destruct (aget (b_fb s) k) as [sc2|] eqn:Efb; [eapply RRStandIn; eauto|].
  destruct (b_picker s) as [t|refs] eqn:Ep; [apply RRNone; auto; intros a' l' H; rewrite Ep in H; discriminate H|].
  destruct (leastBusy s refs) as [i|] eqn:El.
  - pose proof El as El'. apply leastBusy_spec in El'. destruct El' as [Hin _].
    destruct (picker_snap_slot s refs i HI Ep Hin) as [c [sl [_ [_ [H3 _]]]]]. rewrite H3.
    eapply RRNewStandIn; eauto.
  - apply leastBusy_None in El. subst refs. apply RRNone; auto. intros a' l' H; rewrite Ep in H; discriminate H.
Qed.

(* a BOUND/UNBIND call with a non-empty key on a picker with a non-empty snapshot *)
Lemma Pick_keyed s pi a l method hasctx reqkeys deadline cancelled s1 o r k s' res :
  Pick s pi (PSnap (a :: l)) method hasctx reqkeys deadline cancelled = (s1, o, r) ->
  cmd_eqb (pick_cmd0 s method) BIND && cfg_rr s = false ->
  pick_keyres s method hasctx reqkeys = Some k -> k <> 0%N ->
  getReadySubConnRef s k = (s', res, true) ->
  match res with
  | Some i => match get_slot s' i with
              | Some sl => r = RPicked (sl_conn sl) /\ b_fb s1 = b_fb s'
              | None => r = RPanic
              end
  | None => r = RNoSubConn /\ b_fb s1 = b_fb s'
  end.
Proof.
  rewrite Pick_eq. intros E Hrr Hk Hk0 Hg. rewrite Hk, Hrr in E. unfold pick_lb, pick_dec in E.
  destruct (N.eqb_spec k 0) as [?|_]; [congruence|]. cbn [negb] in E. rewrite Hg in E.
  destruct res as [i|].
  - destruct (get_slot s' i) as [sl|]; inv E; [split; reflexivity|reflexivity].
  - inv E. split; reflexivity.
Qed.

Lemma Pick_unpicked s pi pk method hasctx reqkeys deadline cancelled s1 o r :
  (forall a l, pk <> PSnap (a :: l)) ->
  Pick s pi pk method hasctx reqkeys deadline cancelled = (s1, o, r) ->
  ret_is_picked r = false /\ s1 = s.
Proof.
  intros Hpk. rewrite Pick_eq. destruct pk as [[|]|[|a l]]; try (intros E; inv E; split; reflexivity).
  exfalso. eapply Hpk; reflexivity.
Qed.

(* the most recently published picker is gb.picker *)
Lemma nth_error_last {A} (l : list A) n x d : nth_error l n = Some x -> S n = length l -> last l d = x.
Proof.
  revert n. induction l as [|y r IH]; intros [|n]; cbn [nth_error length]; try discriminate.
  - intros E Hl. inv E. destruct r; [reflexivity|discriminate].
  - intros E Hl. destruct r as [|z r']; [destruct n; discriminate|].
    change (last (y :: z :: r') d) with (last (z :: r') d). apply (IH n); [exact E|cbn [length] in *; lia].
Qed.

Lemma latest_is_picker s ms pi pk :
  Inv s -> Sim_pubs s ms -> nth_error (b_published s) pi = Some pk -> is_latest ms pi = true ->
  pk = b_picker s.
Proof.
  intros HI [Hp _] Hn Hl. unfold is_latest in Hl. apply Nat.eqb_eq in Hl. rewrite Hp in Hl.
  destruct HI as (_&_&HP&_). rewrite (picker_last HP). symmetry. eapply nth_error_last; eauto.
Qed.
