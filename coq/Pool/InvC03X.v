(* Engine A proofs: C03X -- the registered replacements of refreshes in flight
   (refreshingScRefs, observed as o_refr) and the channels marked refreshing are
   in bijection in every observed state ([c03x_state], Pool/Monitors.v): every
   registered replacement belongs to an existing channel that is marked
   refreshing, no channel has two, every refreshing channel has one.

   This is the part  refr_slot / refr_inj (+ nd_refr) / refreshing_refr  of the
   invariant InvK (Pool/Inv.v), read through [observe] (o_refr = asort b_refr,
   o_slots = b_slots).  Holds for every history, legal or not, every oracle. *)
From GV Require Import Base.AListFacts Pool.Model Pool.Observe Pool.Monitors
                       Pool.Lemmas Pool.Inv Pool.Inv2.
From Coq Require Import Lia Permutation.

(* ================================================================ the boolean tests *)
Lemma nodup_nat_NoDup l : nodup_nat l = true <-> NoDup l.
Proof.
  induction l as [|x r IH]; cbn [nodup_nat]; [split; [constructor|auto]|].
  rewrite andb_true_iff, negb_true_iff, memnat_false, IH. split.
  - intros [H1 H2]; constructor; auto.
  - intros H; inv H; auto.
Qed.

Lemma refreshing_slots_In sl : forall i j,
  In j (refreshing_slots i sl) ->
  (i <= j)%nat /\ nth_error (map sl_refreshing sl) (j - i) = Some true.
Proof.
  induction sl as [|x r IH]; intros i j H; cbn [refreshing_slots] in H; [destruct H|].
  assert (G : In j (refreshing_slots (S i) r) ->
              (i <= j)%nat /\ nth_error (map sl_refreshing (x :: r)) (j - i) = Some true).
  { intros H'. destruct (IH _ _ H') as [Hle Hn]. split; [lia|].
    replace (j - i)%nat with (S (j - S i)) by lia. exact Hn. }
  destruct (sl_refreshing x) eqn:Ex; [|exact (G H)].
  destruct H as [<-|H]; [|exact (G H)].
  split; [lia|]. rewrite Nat.sub_diag. cbn [map nth_error]. rewrite Ex. reflexivity.
Qed.

(* ================================================================ injective maps *)
Lemma NoDup_map_snd_inj {V} (m : list (N * V)) :
  NoDup (akeys m) -> (forall c c' i, In (c, i) m -> In (c', i) m -> c = c') -> NoDup (map snd m).
Proof.
  induction m as [|[k v] r IH]; intros ND Hinj; cbn [map snd]; [constructor|].
  unfold akeys in ND. cbn [map fst] in ND. inv ND. constructor.
  - intros Hin. apply in_map_iff in Hin. destruct Hin as [[k' v'] [Ev Hin]]. cbn [snd] in Ev. subst v'.
    assert (k = k') by (eapply Hinj; [left; reflexivity|right; exact Hin]). subst k'.
    apply H1. change k with (fst (k, v)). apply in_map, Hin.
  - apply IH; [exact H2|]. intros c c' i Hc Hc'. eapply Hinj; right; eassumption.
Qed.

(* ================================================================ the state clause *)
Lemma c03x_state_of_InvK s : InvK s -> c03x_state (observe s) = true.
Proof.
  intros HK. pose proof (nd_refr HK) as ND.
  unfold c03x_state, o_slot. cbn [observe o_refr o_slots].
  rewrite !andb_true_iff. repeat split.
  - rewrite forallb_asort. apply forallb_forall. intros [c i] Hin. cbn [snd].
    pose proof (refr_slot HK c i (In_aget _ _ _ ND Hin)) as Hs.
    rewrite nth_error_map in Hs. destruct (nth_error (b_slots s) i) as [x|]; [|discriminate].
    cbn [option_map] in Hs. congruence.
  - apply nodup_nat_NoDup.
    apply (Permutation_NoDup (Permutation_sym (Permutation_map snd (asort_perm (b_refr s))))).
    apply NoDup_map_snd_inj; [exact ND|]. intros c c' i Hc Hc'.
    eapply (refr_inj HK); apply In_aget; eassumption.
  - apply forallb_forall. intros i Hi. apply refreshing_slots_In in Hi. destruct Hi as [_ Hi].
    rewrite Nat.sub_0_r in Hi. destruct (refreshing_refr HK i Hi) as [c Hc].
    apply memnat_In. change i with (snd (c, i)). apply in_map. apply asort_In, aget_In, Hc.
Qed.

Theorem c03x_state_of_Inv s : Inv s -> c03x_state (observe s) = true.
Proof. intros HI. exact (c03x_state_of_InvK s (proj1 HI)). Qed.

(* ================================================================ the theorem *)
Lemma c03x_from_run raw : forall ops s, Inv s -> c03x_from (run raw s ops) = true.
Proof.
  induction ops as [|[o order] r IH]; intros s HI; cbn [run c03x_from]; [reflexivity|].
  destruct (full_step raw s o order) as [[[s' outs] rt] ub] eqn:E. cbn [c03x_from ev_obs].
  destruct (full_step_Inv _ _ _ _ _ _ _ _ HI E) as [HI' _].
  apply andb_true_iff. split; [apply c03x_state_of_Inv, HI'|apply IH, HI'].
Qed.

(* every history, harness-legal or not *)
Theorem C03X_holds_proof raw ops : C03X_ok raw (observe init_bal) (run raw init_bal ops) = true.
Proof.
  unfold C03X_ok. apply andb_true_iff. split; [apply c03x_state_of_Inv|apply c03x_from_run]; exact Inv_init.
Qed.

Theorem C03X_holds : forall raw ops, C03X_ok raw (observe init_bal) (run raw init_bal ops) = true.
Proof. exact C03X_holds_proof. Qed.

(* ================================================================ non-vacuity *)
(* unresponsive detection on (threshold 1 ms, 1 call): a call with a deadline is
   placed on channel 0, the clock passes the window, the call ends with
   DeadlineExceeded: channel 0 is refreshed, its replacement (connection 1) is
   registered and the channel is marked refreshing *)
Definition c03x_raw : option config := Some (mkConfig 1 4 100 false 1 1 false []).

Definition c03x_ops : list (op * list nat) :=
  [(OpResolver 1 CfgVal, []); (OpConnState 0 Ready, []);
   (OpPick 0 0 false [] (Some 5) false, []); (OpAdvance 20000001, []);
   (OpDone 0 DDeadlineClient [], [])].

Definition c03x_last : obs := observe (run_state c03x_raw init_bal c03x_ops).

(* the same observation with the `refreshing` marks of the channels cleared *)
Definition clear_refreshing (x : slot) : slot :=
  mkSlot (sl_conn x) (sl_aff x) (sl_streams x) (sl_last x) (sl_de x) false (sl_rcnt x).

Definition c03x_cleared (o : obs) : obs :=
  mkObs (o_cfgset o) (o_addrs o) (o_nready o) (o_nconn o) (o_ntf o) (o_state o) (o_aff o) (o_fb o)
        (o_st o) (o_refs o) (map clear_refreshing (o_slots o)) (o_rr o) (o_refr o) (o_undet o)
        (o_picker o) (o_npub o) (o_now o) (o_mufree o).

(* the run registers a replacement: connection 1 for channel 0, marked refreshing;
   the state clause holds in every observed state and is not vacuous in the last *)
Example c03x_refresh_history :
  let tr := run c03x_raw init_bal c03x_ops in
  map (fun ev => count_newsc (ev_out ev)) tr = [1; 0; 0; 0; 1]%nat /\
  o_refr c03x_last = [(1%N, 0%nat)] /\
  map sl_refreshing (o_slots c03x_last) = [true] /\
  refreshing_slots 0 (o_slots c03x_last) = [0%nat] /\
  last (map ev_obs tr) None = Some c03x_last /\
  c03x_state c03x_last = true /\
  C03X_ok c03x_raw (observe init_bal) tr = true.
Proof. vm_compute. repeat split; reflexivity. Qed.

(* the monitor rejects the situation of seeded change C03-r5b: the replacement is
   still registered but its channel is no longer marked refreshing (the other two
   conjuncts hold); also a trace whose last observation is that state *)
Example c03x_bad_cleared_flag :
  let bad := c03x_cleared c03x_last in
  let tr := run c03x_raw init_bal c03x_ops in
  o_refr bad = [(1%N, 0%nat)] /\ map sl_refreshing (o_slots bad) = [false] /\
  c03x_state bad = false /\
  nodup_nat (map snd (o_refr bad)) = true /\
  forallb (fun i => memnat i (map snd (o_refr bad))) (refreshing_slots 0 (o_slots bad)) = true /\
  C03X_ok c03x_raw (observe init_bal)
          (firstn 4 tr ++ [mkEvent (OpDone 0 DDeadlineClient []) [ONewSC 1 1; OConnect 1] RNone [] (Some bad)]) = false /\
  C03X_ok c03x_raw (observe init_bal) (firstn 4 tr) = true.
Proof. vm_compute. repeat split; reflexivity. Qed.

(* the other ways to break the bijection: a refreshing channel without a registered
   replacement; two replacements registered for one channel; a replacement for a
   channel that does not exist *)
Example c03x_bad_other :
  let ob refr slots :=
    mkObs true 1 1 0 0 Ready [] [] [(0%N, Ready)] [(0%N, 0%nat)] slots 0 refr true (PSnap [0%nat]) 1 0 true in
  let sl f := mkSlot 0 0 0 0 0 f 0 in
  c03x_state (ob [] [sl true]) = false /\
  c03x_state (ob [(1%N, 0%nat); (2%N, 0%nat)] [sl true]) = false /\
  c03x_state (ob [(1%N, 1%nat)] [sl false]) = false /\
  c03x_state (ob [(1%N, 0%nat)] [sl true]) = true /\
  c03x_state (ob [] [sl false]) = true.
Proof. vm_compute. repeat split; reflexivity. Qed.

Print Assumptions C03X_holds.
