(* Engine A proofs: C09 (round-robin BIND).
   Monitor part: a round-robin BIND call on a picker with a non-empty snapshot
   advances the 32-bit cursor by one (mod 2^32), is assigned the slot
   cursor mod #slots, returns that slot's connection at once iff it is READY or
   the call's context has ended and waits otherwise; no other operation moves
   the cursor; a waiting call that returns is handed its slot's connection, and
   only once that connection is READY or the call's context ended.
   Arithmetic part: the cursor after j such calls, and fairness of any window of
   n*k consecutive cursor values that does not wrap (with the refutation across
   the wrap: known finding RR1). *)
From GV Require Import Base.AListFacts Pool.Model Pool.Observe Pool.Monitors
                       Pool.Lemmas Pool.Inv Pool.Inv2 Pool.Frames Pool.Sim Pool.SimW Pool.SimHome
                       Pool.InvC06 Pool.Reduce Pool.LegalRun Pool.PickFacts.
From Coq Require Import Lia ZifyBool.
Open Scope Z_scope.

(* ================================================================ the cursor clause *)
Lemma cfg_of_pubs s pi pk : Inv s -> nth_error (b_published s) pi = Some pk -> exists c, b_cfg s = Some c.
Proof.
  intros HI Ep. destruct (b_cfg s) eqn:Ec; [eauto|]. exfalso.
  eapply InvG_cfg_pubs; [apply HI|eapply nth_error_nonnil, Ep|exact Ec].
Qed.

(* a legal OpPick is a Pick on an existing picker *)
Lemma step_pick_legal raw s pi m hc rk dl cc order s1 outs rt :
  step raw s (OpPick pi m hc rk dl cc) order = (s1, outs, rt) -> rt <> RBadOp ->
  exists pk, nth_error (b_published s) pi = Some pk /\ Pick s pi pk m hc rk dl cc = (s1, outs, rt).
Proof.
  cbn [step]. destruct (nth_error (b_published s) pi) as [pk|]; [|intros E; inv E; congruence].
  destruct (_ && _); [intros E; inv E; congruence|]. intros E _. eauto.
Qed.

Definition c09_cursor (raw : option config) (ms : mstate) (before : obs) (ev : event) (after : obs) : bool :=
  match ev_op ev with
  | OpPick pi m hasctx reqkeys deadline cancelled =>
      match nth_picker ms pi with
      | Some (PSnap (_ :: _)) =>
          if is_rr_bind raw m then
            let rr := (o_rr before + 1) mod W32 in
            (o_rr after =? rr) &&
            let i := Z.to_nat (rr mod Z.of_nat (length (o_slots before))) in
            match conn_of_slot before i with
            | Some c =>
                let done := cancelled || match deadline with Some d => d <=? o_now before | None => false end in
                if o_conn_ready before c || done
                then ret_picked_eq (ev_ret ev) (Some c)
                else match ev_ret ev with RBlocked => true | _ => false end
            | None => false
            end
          else o_rr after =? o_rr before
      | _ => o_rr after =? o_rr before
      end
  | _ => o_rr after =? o_rr before
  end.

Definition c09_unblocked (ms_before ms_after : mstate) (ev : event) (after : obs) : bool :=
  forallb (fun jn => match nth_error (ms_picks ms_before) (fst jn) with
                     | Some p =>
                         match mp_status p, conn_of_slot after (mp_slot p), nth_error (ms_picks ms_after) (fst jn) with
                         | PBlocked, Some c, Some p' =>
                             N.eqb c (snd jn) && (o_conn_ready after c || mctx_done (o_now after) p')
                         | _, _, _ => false
                         end
                     | None => false
                     end) (ev_ub ev).

Lemma c09_event_split raw ms ms' before ev after :
  c09_event raw ms ms' before ev after = c09_cursor raw ms before ev after && c09_unblocked ms ms' ev after.
Proof. reflexivity. Qed.

Lemma same_rr_eqb s s' : b_rr s' = b_rr s -> (o_rr (observe s') =? o_rr (observe s)) = true.
Proof. intros H. cbn [observe o_rr]. rewrite H. apply Z.eqb_refl. Qed.

Lemma c09_cursor_holds raw s ms o order s' outs rt ub :
  Inv s -> Sim_pubs s ms -> Sim_cfg s ms -> rt <> RBadOp ->
  full_step raw s o order = (s', outs, rt, ub) ->
  c09_cursor (raw_in_force raw ms o) ms (observe s) (mkEvent o outs rt ub (Some (observe s'))) (observe s') = true.
Proof.
  intros HI HSp HSc Hrt E. pose proof (full_step_rr _ _ _ _ _ _ _ _ HI E) as Hrr.
  unfold c09_cursor. cbn [ev_op ev_ret].
  destruct o as [addrs a| |sc st|pi m hc rk dl cc|j oc rk2|dt|j|f|g|k];
    try (apply same_rr_eqb; exact Hrr).
  rewrite full_step_eq in E.
  destruct (step raw s (OpPick pi m hc rk dl cc) order) as [[s1 outs1] r1] eqn:Es.
  destruct (resolve_blocked s1) as [s2 ub2]. inv E.
  destruct (step_pick_legal _ _ _ _ _ _ _ _ _ _ _ _ Es Hrt) as [pk [Ep EP]].
  destruct (cfg_of_pubs _ _ _ HI Ep) as [c Hcfg].
  destruct (pick_fields_link raw s ms (OpPick pi m hc rk dl cc) c m hc rk HSc Hcfg) as (_&_&_&L4).
  unfold nth_picker. rewrite (proj1 HSp), Ep. cbn [is_rr_pick] in Hrr. rewrite Ep in Hrr.
  rewrite L4.
  destruct pk as [t|[|a l]]; try (apply same_rr_eqb; exact Hrr).
  cbn [pick_is_rr] in Hrr.
  destruct (cmd_eqb (pick_cmd0 s m) BIND && cfg_rr s) eqn:Eflag; [|apply same_rr_eqb; exact Hrr].
  destruct (Pick_rr_spec _ _ _ _ _ _ _ _ _ _ _ HI Ep Eflag EP) as [sl [Hsl Hres]].
  cbn [observe o_rr o_slots o_now]. rewrite Hrr, Z.eqb_refl. cbn [andb].
  rewrite conn_of_slot_observe.
  assert (Hc : nth_error (conns s) (Z.to_nat (((b_rr s + 1) mod W32) mod Z.of_nat (length (b_slots s)))) =
               Some (sl_conn sl)) by (apply nth_error_map_Some; eauto).
  rewrite Hc. rewrite o_conn_ready_observe by apply HI.
  change (cc || match dl with Some d => d <=? b_now s | None => false end) with (call_done (b_now s) dl cc).
  destruct (cstate_eqb (conn_state s (sl_conn sl)) Ready || call_done (b_now s) dl cc).
  - destruct Hres as [-> _]. cbn [ret_picked_eq]. apply N.eqb_refl.
  - destruct Hres as [-> _]. reflexivity.
Qed.

(* ================================================================ the waiting calls that return *)
Lemma unblocked_from_In s : forall ps j0 j n,
  In (j, n) (unblocked_from s j0 ps) ->
  exists p, (j0 <= j)%nat /\ nth_error ps (j - j0) = Some p /\ resolvable s p = true /\
            n = slot_conn_of s (pk_slot p).
Proof.
  induction ps as [|p r IH]; intros j0 j n; cbn [unblocked_from]; [intros []|].
  intros H. apply in_app_iff in H. destruct H as [H|H].
  - destruct (resolvable s p) eqn:Er; [|destruct H]. destruct H as [H|[]]. inv H.
    exists p. rewrite Nat.sub_diag. cbn [nth_error]. auto.
  - destruct (IH _ _ _ H) as [p' [H1 [H2 [H3 H4]]]]. exists p'. split; [lia|].
    replace (j - j0)%nat with (S (j - S j0)) by lia. cbn [nth_error]. auto.
Qed.

Lemma resolvable_blocked s p : resolvable s p = true -> pk_status p = PBlocked /\ can_proceed s p = true.
Proof.
  unfold resolvable, is_blocked. intros H. apply andb_true_iff in H. destruct H as [H1 H2].
  destruct (pk_status p); try discriminate. auto.
Qed.

(* what a Pick does to the list of picks: at most one new entry, which cannot return in the same event *)
Lemma Pick_new_pick s pi pk method hasctx reqkeys deadline cancelled s1 o r :
  Inv s -> nth_error (b_published s) pi = Some pk ->
  Pick s pi pk method hasctx reqkeys deadline cancelled = (s1, o, r) ->
  b_picks s1 = b_picks s \/ exists p, b_picks s1 = b_picks s ++ [p] /\ resolvable s1 p = false.
Proof.
  intros HI Hpk EP.
  destruct (pick_is_rr s pk method) eqn:Eflag.
  - destruct (Pick_rr_spec _ _ _ _ _ _ _ _ _ _ _ HI Hpk Eflag EP) as [sl [_ Hres]]. right.
    destruct (_ || _).
    + destruct Hres as [_ [p [Hp Hst]]]. exists p. split; [exact Hp|].
      unfold resolvable, is_blocked. rewrite Hst. reflexivity.
    + destruct Hres as [_ [p [Hp Hcp]]]. exists p. split; [exact Hp|].
      unfold resolvable. rewrite Hcp. apply andb_false_r.
  - destruct (Pick_appends _ _ _ _ _ _ _ _ _ _ _ HI Hpk EP) as [Happ _]. unfold pick_appends in Happ.
    destruct r; auto.
    + destruct Happ as [key [i [_ [_ Hp]]]]. right. eexists. split; [exact Hp|]. reflexivity.
    + destruct Happ as [key [_ [Hrr _]]]. exfalso. unfold pick_is_rr in Eflag.
      destruct pk as [t|[|a l]]; [| |congruence]; rewrite Pick_eq in EP; [destruct t|]; discriminate EP.
Qed.

(* a call that returns in the unblocking phase of an event was already waiting before the event *)
Lemma step_resolvable_back raw s o order s1 outs r j p1 :
  Inv s -> step raw s o order = (s1, outs, r) ->
  nth_error (b_picks s1) j = Some p1 -> resolvable s1 p1 = true ->
  exists p, nth_error (b_picks s) j = Some p /\ pk_status p = PBlocked /\ pk_slot p = pk_slot p1.
Proof.
  intros HI Es Hj Hres. destruct (resolvable_blocked _ _ Hres) as [Hst _].
  pose proof (step_picks_other _ _ _ _ _ _ _ HI Es) as Hoth.
  destruct o as [addrs a| |sc st|pi m hc rk dl cc|j' oc rk|dt|j'|f|g|k];
    try (rewrite Hoth in Hj; exists p1; auto).
  - (* OpPick *)
    cbn [step] in Es. destruct (nth_error (b_published s) pi) as [pk|] eqn:Ep; [|inv Es; exists p1; auto].
    destruct (_ && _); [inv Es; exists p1; auto|].
    destruct (Pick_new_pick _ _ _ _ _ _ _ _ _ _ _ HI Ep Es) as [Hp|[p [Hp Hnr]]].
    + rewrite Hp in Hj. exists p1; auto.
    + rewrite Hp in Hj. apply nth_error_snoc in Hj. destruct Hj as [Hj|[_ ->]]; [exists p1; auto|congruence].
  - (* OpDone *)
    cbn [step] in Es. rewrite (Done_picks_gen _ _ _ _ _ _ _ Es) in Hj.
    destruct (nth_error (b_picks s) j') as [p|] eqn:Ej'; [|exists p1; auto].
    destruct (pk_status p); try (exists p1; auto; fail).
    rewrite nth_error_upd_nth in Hj. destruct (Nat.eqb_spec j' j) as [->|Hne]; [|exists p1; auto].
    rewrite Ej' in Hj. cbn [option_map] in Hj. inv Hj. discriminate Hst.
  - (* OpCancel *)
    cbn [step] in Es. destruct (nth_error (b_picks s) j') as [p|] eqn:Ej'; inv Es; [|exists p1; auto].
    sb. rewrite nth_error_upd_nth in Hj. destruct (Nat.eqb_spec j' j) as [->|Hne]; [|exists p1; auto].
    rewrite Ej' in Hj. cbn [option_map] in Hj. inv Hj. exists p. auto.
Qed.

Lemma c09_unblocked_holds raw s ms ms' o order s' outs rt ub :
  Inv s -> SimP s ms -> SimP s' ms' ->
  full_step raw s o order = (s', outs, rt, ub) ->
  c09_unblocked ms ms' (mkEvent o outs rt ub (Some (observe s'))) (observe s') = true.
Proof.
  intros HI HP HP'. rewrite full_step_eq.
  destruct (step raw s o order) as [[s1 outs1] r1] eqn:Es.
  destruct (resolve_blocked s1) as [s2 ub2] eqn:Er. intros E; inv E.
  destruct (step_Inv _ _ _ _ _ _ _ HI Es) as [HI1 _].
  destruct (resolve_blocked_spec _ _ _ HI1 Er) as [HI' [Hm [Hpk Hub]]].
  pose proof (f_equal b_now Hm) as Hnow. pose proof (f_equal b_scstates Hm) as Hst. cbn in Hnow, Hst.
  pose proof (mask_sp_conns _ _ Hm) as Hcn.
  unfold c09_unblocked. cbn [ev_ub]. apply forallb_forall. intros [j n] Hin. cbn [fst snd].
  rewrite Hub in Hin. destruct (unblocked_from_In _ _ _ _ _ Hin) as [p1 [_ [Hj [Hres ->]]]].
  rewrite Nat.sub_0_r in Hj.
  destruct (step_resolvable_back _ _ _ _ _ _ _ _ _ HI Es Hj Hres) as [p [Hjp [Hstp Hslot]]].
  rewrite HP, (map_nth_error mpick_of _ _ Hjp).
  change (mp_status (mpick_of p)) with (pk_status p). change (mp_slot (mpick_of p)) with (pk_slot p).
  rewrite Hstp, Hslot.
  destruct (resolvable_blocked _ _ Hres) as [_ Hcp]. unfold can_proceed in Hcp.
  destruct (get_slot s1 (pk_slot p1)) as [sl|] eqn:Esl; [|discriminate].
  rewrite conn_of_slot_observe, Hcn.
  assert (Hc : nth_error (conns s1) (pk_slot p1) = Some (sl_conn sl)) by (apply nth_error_map_Some; eauto).
  rewrite Hc. rewrite HP', Hpk, (map_nth_error mpick_of _ _ (map_nth_error (resolve_pick s1) _ _ Hj)).
  unfold slot_conn_of. rewrite Esl, N.eqb_refl. cbn [andb].
  rewrite o_conn_ready_observe by apply HI'.
  unfold conn_state in *. rewrite Hst. cbn [observe o_now]. rewrite Hnow.
  unfold resolve_pick. rewrite Hres.
  change (mctx_done (b_now s1) (mpick_of (unblock_pick (b_now s1) p1))) with (ctx_done (b_now s1) p1).
  exact Hcp.
Qed.

(* ================================================================ the per-event check and the theorem *)
Lemma c09_check raw s ms o order s' outs rt ub :
  Inv s -> Quiescent s -> Sim s ms -> rt <> RBadOp ->
  full_step raw s o order = (s', outs, rt, ub) ->
  event_ok P09 raw ms (observe s) (mkEvent o outs rt ub (Some (observe s'))) = true.
Proof.
  intros HI _ HS Hrt E.
  destruct (Sim_step raw s ms o order s' outs rt ub HI HS Hrt E) as [_ [_ HS']].
  destruct HS as (S1&S2&_&_&S5&_). destruct HS' as (_&_&_&_&S5'&_).
  cbn [event_ok ev_obs ev_op]. rewrite c09_event_split. apply andb_true_iff. split.
  - eapply c09_cursor_holds; eauto.
  - eapply c09_unblocked_holds; eauto.
Qed.

Theorem C09_holds_proof raw ops :
  legal raw ops -> monitor P09 raw (observe init_bal) (run raw init_bal ops) = true.
Proof. apply monitor_legal_run. intros. eapply c09_check; eauto. Qed.

(* ================================================================ the cursor, arithmetically *)
(* after j round-robin BIND picks from cursor value c the cursor is (c + j) mod 2^32 *)
Theorem rr_cursor (j : nat) (c : Z) :
  0 <= c < W32 -> Nat.iter j (fun x => (x + 1) mod W32) c = (c + Z.of_nat j) mod W32.
Proof.
  intros Hc. induction j as [|j IH].
  - change (Nat.iter 0 (fun x => (x + 1) mod W32) c) with c. change (Z.of_nat 0) with 0.
    rewrite Z.add_0_r. symmetry. apply Z.mod_small. exact Hc.
  - change (Nat.iter (S j) (fun x => (x + 1) mod W32) c)
      with ((Nat.iter j (fun x => (x + 1) mod W32) c + 1) mod W32).
    rewrite IH. rewrite Z.add_mod_idemp_l by (unfold W32; lia). f_equal. lia.
Qed.

(* the same on the model: the number of round-robin BIND picks of a history *)
Fixpoint rr_picks (raw : option config) (s : bal) (ops : list (op * list nat)) : nat :=
  match ops with
  | [] => 0%nat
  | (o, order) :: r =>
      let '(s', _, _, _) := full_step raw s o order in
      ((if is_rr_pick s o then 1 else 0) + rr_picks raw s' r)%nat
  end.

Theorem rr_cursor_run raw : forall ops s,
  Inv s -> 0 <= b_rr s < W32 ->
  b_rr (run_state raw s ops) = (b_rr s + Z.of_nat (rr_picks raw s ops)) mod W32.
Proof.
  induction ops as [|[o order] r IH]; intros s HI Hc; cbn [run_state rr_picks].
  - cbn [Z.of_nat]. rewrite Z.add_0_r. symmetry. apply Z.mod_small. exact Hc.
  - destruct (full_step raw s o order) as [[[s' outs] rt] ub] eqn:E.
    destruct (full_step_Inv _ _ _ _ _ _ _ _ HI E) as [HI' _].
    pose proof (full_step_rr _ _ _ _ _ _ _ _ HI E) as Hrr.
    assert (Hc' : 0 <= b_rr s' < W32).
    { rewrite Hrr. destruct (is_rr_pick s o); [|exact Hc]. apply Z.mod_pos_bound. unfold W32. lia. }
    rewrite (IH s' HI' Hc'), Hrr. destruct (is_rr_pick s o).
    + rewrite Z.add_mod_idemp_l by (unfold W32; lia). f_equal. lia.
    + f_equal.
Qed.

Corollary rr_cursor_init raw ops :
  b_rr (run_state raw init_bal ops) = (W32 - 1 + Z.of_nat (rr_picks raw init_bal ops)) mod W32.
Proof.
  apply (rr_cursor_run raw ops init_bal Inv_init). cbn [init_bal b_rr]. unfold W32. lia.
Qed.

(* ================================================================ fairness of a window without wrap *)
Lemma NoDup_map_inj_on {A B} (f : A -> B) (l : list A) :
  (forall x y, In x l -> In y l -> f x = f y -> x = y) -> NoDup l -> NoDup (map f l).
Proof.
  induction l as [|a r IH]; intros Hinj ND; cbn [map]; [constructor|].
  inversion ND as [|? ? Hn ND']; subst. constructor.
  - intros Hin. apply in_map_iff in Hin. destruct Hin as [y [Hy Hin]].
    assert (y = a) by (apply Hinj; [right; exact Hin|left; reflexivity|exact Hy]). subst. contradiction.
  - apply IH; [|exact ND']. intros x y Hx Hy. apply Hinj; right; assumption.
Qed.

Lemma seq_add_map : forall len s d, seq (d + s) len = map (fun j => (d + j)%nat) (seq s len).
Proof.
  induction len as [|len IH]; intros s d; cbn [seq map]; [reflexivity|].
  f_equal. rewrite <- Nat.add_succ_r. apply IH.
Qed.

Lemma mod_inj_block (n a j1 j2 : Z) :
  0 < n -> 0 <= j1 < n -> 0 <= j2 < n -> (a + j1) mod n = (a + j2) mod n -> j1 = j2.
Proof.
  intros Hn H1 H2 E.
  pose proof (Z.div_mod (a + j1) n ltac:(lia)) as D1. pose proof (Z.div_mod (a + j2) n ltac:(lia)) as D2.
  rewrite E in D1.
  assert (Hd : j1 - j2 = n * ((a + j1) / n - (a + j2) / n)) by lia.
  assert ((a + j1) / n - (a + j2) / n = 0) by nia. lia.
Qed.

(* n consecutive cursor values hit every residue class exactly once *)
Lemma block_once (n : nat) (a r : Z) :
  (0 < n)%nat -> 0 <= r < Z.of_nat n ->
  count_occ Z.eq_dec (map (fun j => (a + Z.of_nat j) mod Z.of_nat n) (seq 0 n)) r = 1%nat.
Proof.
  intros Hn Hr. apply NoDup_count_occ'.
  - apply NoDup_map_inj_on; [|apply seq_NoDup].
    intros x y Hx Hy E. apply in_seq in Hx, Hy.
    apply Nat2Z.inj. eapply (mod_inj_block (Z.of_nat n) a); [lia|lia|lia|exact E].
  - apply in_map_iff. exists (Z.to_nat ((r - a) mod Z.of_nat n)).
    pose proof (Z.mod_pos_bound (r - a) (Z.of_nat n) ltac:(lia)) as Hb. split.
    + rewrite Z2Nat.id by lia. rewrite Z.add_mod_idemp_r by lia.
      replace (a + (r - a)) with r by lia. apply Z.mod_small. exact Hr.
    + apply in_seq. lia.
Qed.

Lemma window_count (n k : nat) (c r : Z) :
  (0 < n)%nat -> 0 <= r < Z.of_nat n ->
  count_occ Z.eq_dec (map (fun j => (c + Z.of_nat j) mod Z.of_nat n) (seq 0 (n * k))) r = k.
Proof.
  intros Hn Hr. induction k as [|k IH].
  - rewrite Nat.mul_0_r. reflexivity.
  - rewrite Nat.mul_succ_r, seq_app, map_app, count_occ_app, IH. cbn [Nat.add].
    rewrite <- (Nat.add_0_r (n * k)) at 1. rewrite seq_add_map, map_map.
    rewrite (map_ext _ (fun j => ((c + Z.of_nat (n * k)) + Z.of_nat j) mod Z.of_nat n)).
    + rewrite block_once by assumption. lia.
    + intros j. f_equal. lia.
Qed.

(* any n*k consecutive cursor values, starting anywhere, without wrap of the 32-bit
   cursor inside the window, assign exactly k calls to each of the n slots *)
Theorem rr_window_fair_le (n k : nat) (c r : Z) :
  (0 < n)%nat -> 0 <= c -> c + Z.of_nat (n * k) <= W32 -> 0 <= r < Z.of_nat n ->
  count_occ Z.eq_dec (map (fun j => ((c + Z.of_nat j) mod W32) mod Z.of_nat n) (seq 0 (n * k))) r = k.
Proof.
  intros Hn Hc Hw Hr.
  rewrite (map_ext_in _ (fun j => (c + Z.of_nat j) mod Z.of_nat n)).
  - apply window_count; assumption.
  - intros j Hj. apply in_seq in Hj. f_equal. apply Z.mod_small. lia.
Qed.

Theorem rr_window_fair (n k : nat) (c r : Z) :
  (0 < n)%nat -> 0 <= c -> c + Z.of_nat (n * k) < W32 -> 0 <= r < Z.of_nat n ->
  count_occ Z.eq_dec (map (fun j => ((c + Z.of_nat j) mod W32) mod Z.of_nat n) (seq 0 (n * k))) r = k.
Proof. intros Hn Hc Hw Hr. apply rr_window_fair_le; try assumption. lia. Qed.

(* known finding RR1: across the wrap of the cursor the window is uneven whenever
   2^32 mod n <> 0; for three slots, the window of three calls that starts two
   calls before the wrap uses slot 0 twice and slot 1 not at all *)
Example rr_window_fair_refuted :
  W32 mod 3 <> 0 /\
  map (fun j => ((W32 - 2 + Z.of_nat j) mod W32) mod 3) (seq 0 3) = [2; 0; 0] /\
  count_occ Z.eq_dec (map (fun j => ((W32 - 2 + Z.of_nat j) mod W32) mod 3) (seq 0 (3 * 1))) 0 = 2%nat /\
  count_occ Z.eq_dec (map (fun j => ((W32 - 2 + Z.of_nat j) mod W32) mod 3) (seq 0 (3 * 1))) 1 = 0%nat.
Proof. vm_compute. repeat split; try reflexivity. discriminate. Qed.
