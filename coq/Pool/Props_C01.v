From GV Require Import Pool.Model Pool.Observe Pool.Monitors.
