From GV Require Import Pool.Model Pool.Observe Pool.Monitors Pool.Reduce Pool.LegalRun Pool.KeyedFacts Pool.InvC01.

(* C01: after every operation the balancer's binding table (key -> connection)
   is, key for key, "the channel the key was bound on" (as the monitor tracks it
   from BIND / UNBIND completions) composed with "current connection of that
   channel" -- in particular it follows a refresh swap; and a BOUND/UNBIND call
   carrying a bound key whose home channel is READY is placed on the home
   channel's connection or not at all, the most recently published picker does
   place it, and with fallback off and the home channel not READY it is not placed.
   For every map-iteration oracle.  Guards:
   - the history is harness-legal (no operation is answered RBadOp);
   - the pool holds fewer than 2^64 connections in every state of the run (the
     evaluator's counters are uint64: with 2^64 READY connections the balancer
     publishes the error picker, see InvC01.evaluator_wraps). *)
Theorem C01_holds : forall raw ops,
  legal raw ops ->
  Forall (fun s => Z.of_nat (length (b_scstates s)) < W64)%Z (run_states raw init_bal ops) ->
  monitor P01 raw (observe init_bal) (run raw init_bal ops) = true.
Proof. exact C01_holds_proof. Qed.
Print Assumptions C01_holds.

(* non-vacuity: key 7 is bound on channel 1; keyed calls on the current and on a
   stale picker go there; the channel is refreshed (connection 1 -> 2) and the
   binding follows; home not READY with fallback off: not placed; UNBIND; the
   key is then routed by load *)
Example c01_history :
  let raw := Some (mkConfig 2 4 100 false 1 1 false
                     [(1%N, mkMcfg BIND true); (2%N, mkMcfg BOUND true); (3%N, mkMcfg UNBIND true)]) in
  let ops := [(OpResolver 1 CfgVal, []); (OpConnState 0 Ready, []); (OpConnState 1 Ready, [1; 0]%nat);
              (OpPick 1 1 true [] None false, []); (OpDone 0 DOk [7%N], []);
              (OpPick 1 2 true [7%N] None false, []); (OpPick 0 2 true [7%N] None false, []);
              (OpPick 1 2 true [7%N] (Some 5%Z) false, []); (OpAdvance 2000000, []);
              (OpDone 3 DDeadlineClient [], []); (OpConnState 2 Ready, []);
              (OpPick 1 2 true [7%N] None false, []); (OpConnState 2 Connecting, []);
              (OpPick 2 2 true [7%N] None false, []); (OpConnState 2 Ready, []);
              (OpPick 3 3 true [7%N] None false, []); (OpDone 5 DOk [], []);
              (OpPick 3 2 true [7%N] None false, [])] in
  map ev_ret (run raw init_bal ops) =
    [RNone; RNone; RNone; RPicked 1; RNone; RPicked 1; RPicked 1; RPicked 1; RNone; RNone; RNone;
     RPicked 2; RNone; RNoSubConn; RNone; RPicked 2; RNone; RPicked 0] /\
  map (fun s => b_aff s) (run_states raw init_bal ops) =
    [[]; []; []; []; []; [(7, 1)]; [(7, 1)]; [(7, 1)]; [(7, 1)]; [(7, 1)]; [(7, 1)]; [(7, 2)]; [(7, 2)];
     [(7, 2)]; [(7, 2)]; [(7, 2)]; [(7, 2)]; []; []]%N /\
  legalb raw ops = true /\
  monitor P01 raw (observe init_bal) (run raw init_bal ops) = true.
Proof. vm_compute. repeat split; reflexivity. Qed.

(* the monitor rejects a keyed call placed away from its READY home channel *)
Example c01_bad_wrong_channel :
  let cfg := Some (mkConfig 2 4 100 false 0 0 false [(2%N, mkMcfg BOUND true)]) in
  let o1 := mkObs true 1 2 0 0 Ready [(7%N, 1%N)] [] [(0%N, Ready); (1%N, Ready)] [(0%N, 0%nat); (1%N, 1%nat)]
                  [mkSlot 0 0 0 0 0 false 0; mkSlot 1 1 0 0 0 false 0]
                  4294967295 [] false (PSnap [0; 1]%nat) 1 0 true in
  let o2 := mkObs true 1 2 0 0 Ready [(7%N, 1%N)] [] [(0%N, Ready); (1%N, Ready)] [(0%N, 0%nat); (1%N, 1%nat)]
                  [mkSlot 0 0 1 0 0 false 0; mkSlot 1 1 0 0 0 false 0]
                  4294967295 [] false (PSnap [0; 1]%nat) 1 0 true in
  mon_from P01 cfg (mkMstate [PSnap [0; 1]%nat] (Some (Ready, PSnap [0; 1]%nat)) [] [(7%N, 1%nat)] [] [] false
                             (Some cfg) 0) o1
    [mkEvent (OpPick 0 2 true [7%N] None false) [] (RPicked 0) [] (Some o2)] = false.
Proof. vm_compute. reflexivity. Qed.

(* ... a binding table that did not follow the refresh swap (defect D1 of the unchanged code) *)
Example c01_bad_stale_binding :
  let cfg := Some (mkConfig 2 4 100 false 1 1 false [(2%N, mkMcfg BOUND true)]) in
  let o1 := mkObs true 1 2 0 0 Ready [(7%N, 1%N)] [] [(0%N, Ready); (1%N, Ready)] [(0%N, 0%nat); (1%N, 1%nat)]
                  [mkSlot 0 0 0 0 0 false 0; mkSlot 1 1 0 0 0 true 0]
                  4294967295 [(2%N, 1%nat)] true (PSnap [0; 1]%nat) 1 0 true in
  let o2 := mkObs true 1 2 0 0 Ready [(7%N, 1%N)] [] [(0%N, Ready); (2%N, Ready)] [(0%N, 0%nat); (2%N, 1%nat)]
                  [mkSlot 0 0 0 0 0 false 0; mkSlot 2 1 0 0 0 false 1]
                  4294967295 [] true (PSnap [0; 1]%nat) 1 0 true in
  mon_from P01 cfg (mkMstate [PSnap [0; 1]%nat] (Some (Ready, PSnap [0; 1]%nat)) [] [(7%N, 1%nat)] [] [] false
                             (Some cfg) 0) o1
    [mkEvent (OpConnState 2 Ready) [ORemove 1] RNone [] (Some o2)] = false.
Proof. vm_compute. reflexivity. Qed.

(* ... and a keyed call the most recent picker fails to place although the home channel is READY *)
Example c01_bad_not_placed :
  let cfg := Some (mkConfig 2 4 100 false 0 0 false [(2%N, mkMcfg BOUND true)]) in
  let o1 := mkObs true 1 2 0 0 Ready [(7%N, 1%N)] [] [(0%N, Ready); (1%N, Ready)] [(0%N, 0%nat); (1%N, 1%nat)]
                  [mkSlot 0 0 0 0 0 false 0; mkSlot 1 1 0 0 0 false 0]
                  4294967295 [] false (PSnap [0; 1]%nat) 1 0 true in
  mon_from P01 cfg (mkMstate [PSnap [0; 1]%nat] (Some (Ready, PSnap [0; 1]%nat)) [] [(7%N, 1%nat)] [] [] false
                             (Some cfg) 0) o1
    [mkEvent (OpPick 0 2 true [7%N] None false) [] RNoSubConn [] (Some o1)] = false.
Proof. vm_compute. reflexivity. Qed.

(* why the legality guard is needed: a Done on a call that is still waiting (answered
   RBadOp by the model, never issued by the harness) desynchronises the monitor's
   bookkeeping from the balancer; the monitor is false on this illegal model history *)
Example c01_illegal_history_rejected :
  let raw := Some (mkConfig 2 4 1 true 0 0 true [(1%N, mkMcfg BIND true); (2%N, mkMcfg BOUND true)]) in
  let ops := [(OpResolver 1 CfgVal, []); (OpConnState 0 Ready, []); (OpPick 0 1 true [] None false, []);
              (OpPick 0 1 true [] None false, []); (OpDone 1 DOk [5%N], []); (OpConnState 1 Ready, []);
              (OpDone 1 DOk [6%N], []); (OpDone 0 DOk [], []); (OpPick 1 2 true [5%N] None false, [])] in
  map ev_ret (run raw init_bal ops) = [RNone; RNone; RPicked 0; RBlocked; RBadOp; RNone; RNone; RNone; RPicked 0] /\
  legalb raw ops = false /\
  monitor P01 raw (observe init_bal) (run raw init_bal ops) = false.
Proof. vm_compute. repeat split; reflexivity. Qed.
