(* Engine A proofs: executable (boolean) version of the candidate invariants and
   a pseudo-random history generator, used to test conjuncts by vm_compute
   before proving them.  Nothing here is used by the theorems. *)
From GV Require Import Base.AListFacts Pool.Model Pool.Observe Pool.Monitors.
Open Scope Z_scope.

(* ---------------------------------------------------------------- generator *)
Definition lcg (x : Z) : Z := (x * 6364136223846793005 + 1442695040888963407) mod W64.
Definition pickn (x : Z) (n : Z) : Z := if n <=? 0 then 0 else (x / 65536) mod n.

Definition st_of (z : Z) : cstate :=
  match z with 0 => Idle | 1 => Connecting | 2 => Ready | 3 => TransientFailure | 4 => Shutdown | _ => Ready end.

Definition oc_of (z : Z) : outcome :=
  match z with 0 => DOk | 1 => DErr | 2 => DDeadlineClient | 3 => DDeadlineOther | _ => DOk end.

Fixpoint placed_idx (ps : list pick) (j : nat) : list nat :=
  match ps with
  | [] => []
  | p :: r => match pk_status p with PPlaced => j :: placed_idx r (S j) | _ => placed_idx r (S j) end
  end.

Definition choose {A} (x : Z) (l : list A) (d : A) : A := nth (Z.to_nat (pickn x (Z.of_nat (length l)))) l d.

Definition gen_op (x : Z) (s : bal) : op :=
  let a0 := pickn x 100 in
  let a := match b_cfg s with
           | None => if pickn (lcg x) 4 =? 0 then a0 else 0
           | Some _ =>
               if (36 <=? a0) && (a0 <? 64) && (length (b_published s) =? 0)%nat then 20
               else if (64 <=? a0) && (a0 <? 86) && (length (placed_idx (b_picks s) 0) =? 0)%nat then 40
               else if (98 <=? a0) && (length (b_parked s) =? 0)%nat then 70
               else a0
           end in
  let x1 := lcg x in let x2 := lcg x1 in let x3 := lcg x2 in let x4 := lcg x3 in
  if a <? 5 then OpResolver (Z.to_N (pickn x1 3)) (match pickn x2 8 with 0 => CfgNil | 1 => CfgWrongType | _ => CfgVal end)
  else if a <? 6 then OpResolverErr
  else if a <? 36 then OpConnState (Z.to_N (pickn x1 (Z.of_N (b_next s) + (if pickn x3 20 =? 0 then 1 else 0))))
                                   (st_of (match pickn x2 14 with 0 => 0 | 1 => 1 | 2 => 3 | 3 => 4 | 4 => 1 | _ => 2 end))
  else if a <? 64 then OpPick (if pickn x1 4 =? 0 then Z.to_nat (pickn x1 (Z.of_nat (length (b_published s)) + 1))
                               else (length (b_published s) - 1)%nat)
                              (Z.to_N (pickn x2 5)) (negb (pickn x3 5 =? 0))
                              (match pickn x4 4 with 0 => [] | _ => [Z.to_N (pickn (lcg x4) 4)] end)
                              (match pickn (lcg x4) 3 with 0 => None | _ => Some (b_now s + pickn x3 3000000) end)
                              (pickn (lcg (lcg x4)) 10 =? 0)
  else if a <? 86 then OpDone (if pickn x1 10 =? 0 then Z.to_nat (pickn x1 (Z.of_nat (length (b_picks s)) + 1))
                               else choose x1 (placed_idx (b_picks s) 0) 0%nat) (oc_of (pickn x2 4))
                              (match pickn x3 3 with 0 => [] | 1 => [Z.to_N (pickn x4 4)] | _ => [Z.to_N (pickn x4 4); Z.to_N (pickn (lcg x4) 4)] end)
  else if a <? 92 then OpAdvance (if pickn x2 2 =? 0 then pickn x1 30 else 1000000 * pickn x1 8)
  else if a <? 94 then OpCancel (Z.to_nat (pickn x1 (Z.of_nat (length (b_picks s)) + 1)))
  else if a <? 96 then OpFactory (pickn x1 3 =? 0)
  else if a <? 98 then OpGate (pickn x1 2 =? 0)
  else OpResume (Z.to_nat (pickn x1 (Z.of_nat (length (b_parked s)) + 1))).

Definition gen_order (x : Z) (s : bal) (o : op) : list nat :=
  (* reverse of the ready slots the step would see: a legal permutation most of the time *)
  if pickn x 2 =? 0 then [] else rev (ready_slots (fst (fst (step None s o [])))).

Fixpoint gen_run (n : nat) (raw : option config) (x : Z) (s : bal) : list (op * list nat) :=
  match n with
  | O => []
  | S n' =>
      let o := gen_op x s in
      let order := gen_order (lcg (lcg (lcg (lcg (lcg x))))) s o in
      let '(s', _, _, _) := full_step raw s o order in
      (o, order) :: gen_run n' raw (lcg (lcg (lcg (lcg (lcg (lcg (lcg x))))))) s'
  end.

Definition test_methods : list (N * mcfg) :=
  [(0%N, mkMcfg BOUND true); (1%N, mkMcfg BIND true); (2%N, mkMcfg UNBIND true); (3%N, mkMcfg BOUND false)].

Definition test_cfg (k : Z) : option config :=
  match k mod 6 with
  | 0 => Some (mkConfig 1 3 2 false 0 0 false test_methods)
  | 1 => Some (mkConfig 2 4 1 true 5 1 false test_methods)
  | 2 => Some (mkConfig 1 2 1 true 3 2 true test_methods)
  | 3 => Some (mkConfig 0 0 0 false 1 1 true test_methods)
  | 4 => Some (mkConfig 3 2 1 true 1 1 false test_methods)
  | _ => None
  end.

(* states along a run *)
Fixpoint states (raw : option config) (s : bal) (ops : list (op * list nat)) : list bal :=
  match ops with
  | [] => [s]
  | (o, order) :: r => let '(s', _, _, _) := full_step raw s o order in s :: states raw s' r
  end.

(* ---------------------------------------------------------------- boolean invariants *)
Fixpoint nodupN (l : list N) : bool :=
  match l with [] => true | x :: r => negb (existsb (N.eqb x) r) && nodupN r end.

Definition memN (x : N) (l : list N) : bool := existsb (N.eqb x) l.

Definition slot_conns (s : bal) : list N := map sl_conn (b_slots s).

Definition count_st (st : cstate) (m : list (N * cstate)) : Z :=
  Z.of_nat (acount (fun x => cstate_eqb x st) m).

Definition eval3 (r cn tf : Z) : cstate :=
  if 0 <? r then Ready else if 0 <? cn then Connecting else TransientFailure.

Definition count_placed_on (picks : list pick) (i : nat) : Z :=
  Z.of_nat (length (filter (fun p => match pk_status p with PPlaced => Nat.eqb (pk_slot p) i | _ => false end) picks)).

Definition last_picker (l : list picker) : picker := last l (PErr false).

Definition inv_keys (s : bal) : bool :=
  nodupN (akeys (b_screfs s)) && nodupN (akeys (b_scstates s)) && nodupN (akeys (b_refr s)) &&
  nodupN (akeys (b_aff s)) && nodupN (akeys (b_fb s)) &&
  forallb (fun c => memN c (akeys (b_scstates s))) (akeys (b_screfs s)) &&
  forallb (fun c => memN c (akeys (b_screfs s))) (akeys (b_scstates s)).

Definition inv_slots (s : bal) : bool :=
  forallb (fun ci => match nth_error (b_slots s) (snd ci) with Some sl => N.eqb (sl_conn sl) (fst ci) | None => false end) (b_screfs s) &&
  forallb (fun ci => match nth_error (b_slots s) (snd ci) with Some sl => sl_refreshing sl | None => false end) (b_refr s) &&
  nodupnat (map snd (b_refr s)) &&
  forallb (fun i => match nth_error (b_slots s) i with
                    | Some sl => if sl_refreshing sl then memnat i (map snd (b_refr s)) else true
                    | None => true end) (seq 0 (length (b_slots s))) &&
  nodupN (slot_conns s) &&
  forallb (fun c => negb (memN c (slot_conns s))) (akeys (b_refr s)) &&
  forallb (fun c => N.ltb c (b_next s)) (akeys (b_refr s) ++ slot_conns s) &&
  forallb (fun kc => memN (snd kc) (slot_conns s)) (b_aff s).

Definition inv_pub (s : bal) : bool :=
  picker_eqb (b_picker s) (last_picker (b_published s)) &&
  match b_picker s with
  | PSnap refs => nodupnat refs && same_set_nat refs (ready_slots s)
  | _ => true
  end &&
  match b_published s with
  | [] => negb (cstate_eqb (b_state s) TransientFailure) && negb (cstate_eqb (b_state s) Ready) && (b_nready s =? 0)
  | _ => Bool.eqb (match b_picker s with PErr true => true | _ => false end) (cstate_eqb (b_state s) TransientFailure) &&
         match b_picker s with PErr false => false | _ => true end &&
         negb (cstate_eqb (b_state s) Idle)
  end &&
  forallb (fun pk => match pk with PSnap refs => forallb (fun i => Nat.ltb i (length (b_slots s))) refs | _ => true end) (b_published s).

Definition inv_counts (s : bal) : bool :=
  (b_nready s =? count_st Ready (b_scstates s) mod W64) &&
  (b_nconn s =? count_st Connecting (b_scstates s) mod W64) &&
  (b_ntf s =? count_st TransientFailure (b_scstates s) mod W64) &&
  (cstate_eqb (b_state s) Idle || cstate_eqb (b_state s) (eval3 (b_nready s) (b_nconn s) (b_ntf s))) &&
  negb (cstate_eqb (b_state s) Shutdown).

Definition inv_cfg (s : bal) : bool :=
  match b_cfg s with
  | Some _ => true
  | None =>
      match b_screfs s, b_scstates s, b_refr s, b_published s, b_picks s, b_slots s, b_aff s, b_fb s, b_parked s with
      | [], [], [], [], [], [], [], [], [] => negb (b_undet s) && N.eqb (b_next s) 0 && cstate_eqb (b_state s) Idle
      | _, _, _, _, _, _, _, _, _ => false
      end
  end.

Definition inv_fb (s : bal) : bool :=
  forallb (fun kc => match aget (b_screfs s) (snd kc) with Some _ => true | None => false end &&
                     cstate_eqb (conn_state s (snd kc)) Ready) (b_fb s).

Definition inv_picks (s : bal) : bool :=
  forallb (fun p => Nat.ltb (pk_slot p) (length (b_slots s))) (b_picks s) &&
  forallb (fun pi => Nat.ltb pi (length (b_published s))) (b_parked s) &&
  forallb (fun i => match nth_error (b_slots s) i with
                    | Some sl => sl_streams sl =? wrap32s (count_placed_on (b_picks s) i)
                    | None => false end) (seq 0 (length (b_slots s))).

(* holds after a full step only *)
Definition quiescent (s : bal) : bool :=
  forallb (fun p => match pk_status p with
                    | PBlocked => match get_slot s (pk_slot p) with
                                  | Some r => negb (cstate_eqb (conn_state s (sl_conn r)) Ready || ctx_done (b_now s) p)
                                  | None => false
                                  end
                    | _ => true end) (b_picks s).

Definition inv_all (s : bal) : bool :=
  inv_keys s && inv_slots s && inv_pub s && inv_counts s && inv_cfg s && inv_fb s && inv_picks s && quiescent s.

Definition which_fail (s : bal) : list nat :=
  (if inv_keys s then [] else [1%nat]) ++ (if inv_slots s then [] else [2%nat]) ++ (if inv_pub s then [] else [3%nat]) ++
  (if inv_counts s then [] else [4%nat]) ++ (if inv_cfg s then [] else [5%nat]) ++ (if inv_fb s then [] else [6%nat]) ++
  (if inv_picks s then [] else [7%nat]) ++ (if quiescent s then [] else [8%nat]).

Definition test_one (n : nat) (seed : Z) : list nat :=
  let raw := test_cfg seed in
  let ops := gen_run n raw (lcg (seed + 12345)) init_bal in
  flat_map which_fail (states raw init_bal ops).

Definition test_many (n : nat) (seeds : list Z) : list (Z * list nat) :=
  flat_map (fun sd => match test_one n sd with [] => [] | l => [(sd, l)] end) seeds.

Definition zseq (a : Z) (n : nat) : list Z := map (fun i => a + Z.of_nat i) (seq 0 n).

(* statistics: what the generated histories exercise *)
Definition ret_tag (r : ret) : nat :=
  match r with RNone => 0 | RCfgErr => 1 | RPicked _ => 2 | RNoSubConn => 3 | RTransient => 4 | RKeyErr => 5
             | RBlocked => 6 | RParked => 7 | RPanic => 8 | RStuck => 9 | RBadOp => 10 end%nat.

Definition stats (n : nat) (seeds : list Z) : list nat :=
  let evs := flat_map (fun sd => let raw := test_cfg sd in run raw init_bal (gen_run n raw (lcg (sd + 12345)) init_bal)) seeds in
  map (fun t => length (filter (fun ev => Nat.eqb (ret_tag (ev_ret ev)) t) evs)) (seq 0 11) ++
  [length (filter (fun ev => match ev_ub ev with [] => false | _ => true end) evs);
   length (filter (fun ev => existsb (fun o => match o with ORemove _ => true | _ => false end) (ev_out ev)) evs);
   length (filter (fun ev => existsb is_pub_out (ev_out ev)) evs)].
