(* Engine A: observations, traces and the acceptor (model vs recorded trace). *)
From GV Require Import Pool.Model.
Open Scope Z_scope.

(* What the harness reads back (white box) after every operation. *)
Record obs := mkObs {
  o_cfgset : bool;
  o_addrs : N;
  o_nready : Z; o_nconn : Z; o_ntf : Z;
  o_state : cstate;
  o_aff : list (N * N);          (* sorted by key *)
  o_fb : list (N * N);
  o_st : list (N * cstate);      (* scStates, sorted by connection *)
  o_refs : list (N * nat);       (* scRefs: connection -> slot *)
  o_slots : list slot;           (* scRefList *)
  o_rr : Z;
  o_refr : list (N * nat);       (* refreshingScRefs *)
  o_undet : bool;
  o_picker : picker;             (* gb.picker *)
  o_npub : nat;                  (* number of UpdateState calls so far *)
  o_now : Z;
  o_mufree : bool                (* gb.mu could be acquired *)
}.

Definition observe (s : bal) : obs :=
  mkObs (match b_cfg s with Some _ => true | None => false end)
        (b_addrs s) (b_nready s) (b_nconn s) (b_ntf s) (b_state s)
        (asort (b_aff s)) (asort (b_fb s)) (asort (b_scstates s)) (asort (b_screfs s))
        (b_slots s) (b_rr s) (asort (b_refr s)) (b_undet s) (b_picker s)
        (length (b_published s)) (b_now s) true.

Record event := mkEvent {
  ev_op : op;
  ev_out : list out;
  ev_ret : ret;
  ev_ub : list (nat * N);        (* blocked picks that returned during this event *)
  ev_obs : option obs            (* None: the history ended here (panic / stuck) *)
}.

(* ---- equality tests ---- *)
Fixpoint list_eqb {A} (eqb : A -> A -> bool) (l1 l2 : list A) : bool :=
  match l1, l2 with
  | [], [] => true
  | x :: r1, y :: r2 => eqb x y && list_eqb eqb r1 r2
  | _, _ => false
  end.

Definition nn_eqb (a b : N * N) := N.eqb (fst a) (fst b) && N.eqb (snd a) (snd b).
Definition nst_eqb (a b : N * cstate) := N.eqb (fst a) (fst b) && cstate_eqb (snd a) (snd b).
Definition nnat_eqb (a b : N * nat) := N.eqb (fst a) (fst b) && Nat.eqb (snd a) (snd b).

Definition picker_eqb (a b : picker) : bool :=
  match a, b with
  | PErr x, PErr y => Bool.eqb x y
  | PSnap x, PSnap y => list_eqb Nat.eqb x y
  | _, _ => false
  end.

Definition out_eqb (a b : out) : bool :=
  match a, b with
  | ONewSC n x, ONewSC m y => N.eqb n m && N.eqb x y
  | ONewSCFail x, ONewSCFail y => N.eqb x y
  | OConnect n, OConnect m => N.eqb n m
  | OUpdAddr n x, OUpdAddr m y => N.eqb n m && N.eqb x y
  | ORemove n, ORemove m => N.eqb n m
  | OUpdateState s p, OUpdateState t q => cstate_eqb s t && picker_eqb p q
  | _, _ => false
  end.

Definition ret_eqb (a b : ret) : bool :=
  match a, b with
  | RNone, RNone | RCfgErr, RCfgErr | RNoSubConn, RNoSubConn | RTransient, RTransient
  | RKeyErr, RKeyErr | RBlocked, RBlocked | RParked, RParked | RPanic, RPanic | RStuck, RStuck | RBadOp, RBadOp => true
  | RPicked n, RPicked m => N.eqb n m
  | _, _ => false
  end.

Definition ub_eqb (a b : nat * N) := Nat.eqb (fst a) (fst b) && N.eqb (snd a) (snd b).

(* ---- canonical order of the calls of one resolver update: Go iterates
   gb.scRefs (a map) to call UpdateAddresses/Connect; per-connection order is
   kept (stable sort by connection), failed creations go last ---- *)
Definition out_key (o : out) : N :=
  match o with
  | ONewSC n _ | OConnect n | OUpdAddr n _ | ORemove n => n
  | ONewSCFail _ => 4294967296%N
  | OUpdateState _ _ => 4294967297%N
  end.

Fixpoint ins_out (x : out) (l : list out) : list out :=
  match l with
  | [] => [x]
  | y :: r => if N.ltb (out_key x) (out_key y) then x :: l else y :: ins_out x r
  end.

(* stable: an element is inserted after the elements with an equal key that precede it *)
Definition canon (l : list out) : list out := fold_left (fun acc x => ins_out x acc) l [].

(* ---- divergence classes ---- *)
Inductive dclass :=
| DRet | DNewSC | DAddr | DPublish | DUnblocked
| DCfg | DCounters | DAff | DFb | DStates | DRefs | DStreams | DSlotAff | DRefresh
| DRr | DPicker | DNow | DLock | DEnded | DBadOp.

Definition is_pool_out (o : out) : bool :=
  match o with ONewSC _ _ | ONewSCFail _ | ORemove _ => true | _ => false end.
Definition is_pub_out (o : out) : bool :=
  match o with OUpdateState _ _ => true | _ => false end.

Definition diff_outs (m i : list out) : option dclass :=
  if list_eqb out_eqb m i then None
  else if negb (list_eqb out_eqb (filter is_pool_out m) (filter is_pool_out i)) then Some DNewSC
  else if negb (list_eqb out_eqb (filter is_pub_out m) (filter is_pub_out i)) then Some DPublish
  else Some DAddr.

Definition slot_streams_eqb (a b : slot) := (sl_streams a =? sl_streams b) && N.eqb (sl_conn a) (sl_conn b).
Definition slot_aff_eqb (a b : slot) := sl_aff a =? sl_aff b.
Definition slot_refresh_eqb (a b : slot) :=
  (sl_last a =? sl_last b) && (sl_de a =? sl_de b) && Bool.eqb (sl_refreshing a) (sl_refreshing b) && (sl_rcnt a =? sl_rcnt b).

Definition diff_obs (m i : obs) : option dclass :=
  if negb (Bool.eqb (o_cfgset m) (o_cfgset i) && N.eqb (o_addrs m) (o_addrs i) && Bool.eqb (o_undet m) (o_undet i)) then Some DCfg
  else if negb ((o_nready m =? o_nready i) && (o_nconn m =? o_nconn i) && (o_ntf m =? o_ntf i) && cstate_eqb (o_state m) (o_state i)) then Some DCounters
  else if negb (list_eqb nst_eqb (o_st m) (o_st i)) then Some DStates
  else if negb (list_eqb nnat_eqb (o_refs m) (o_refs i)) then Some DRefs
  else if negb (list_eqb nnat_eqb (o_refr m) (o_refr i)) then Some DRefresh
  else if negb (list_eqb nn_eqb (o_aff m) (o_aff i)) then Some DAff
  else if negb (list_eqb nn_eqb (o_fb m) (o_fb i)) then Some DFb
  else if negb (list_eqb slot_streams_eqb (o_slots m) (o_slots i)) then Some DStreams
  else if negb (list_eqb slot_aff_eqb (o_slots m) (o_slots i)) then Some DSlotAff
  else if negb (list_eqb slot_refresh_eqb (o_slots m) (o_slots i)) then Some DRefresh
  else if negb (o_rr m =? o_rr i) then Some DRr
  else if negb (picker_eqb (o_picker m) (o_picker i) && Nat.eqb (o_npub m) (o_npub i)) then Some DPicker
  else if negb (o_now m =? o_now i) then Some DNow
  else if negb (Bool.eqb (o_mufree m) (o_mufree i)) then Some DLock
  else None.

(* the READY-snapshot order observed in this event (map-iteration oracle) *)
Fixpoint order_of (outs : list out) : list nat :=
  match outs with
  | [] => []
  | OUpdateState _ (PSnap refs) :: _ => refs
  | _ :: r => order_of r
  end.

Definition is_resolver (o : op) : bool := match o with OpResolver _ _ => true | _ => false end.

(* accept raw s i tr: index and class of the first event at which the recorded
   trace differs from the model, or None *)
Fixpoint accept (raw : option config) (s : bal) (i : nat) (tr : list event) : option (nat * dclass) :=
  match tr with
  | [] => None
  | ev :: r =>
      let '(s', mouts, mret, mub) := full_step raw s (ev_op ev) (order_of (ev_out ev)) in
      match mret with
      | RBadOp => Some (i, DBadOp)
      | _ =>
          if negb (ret_eqb mret (ev_ret ev)) then Some (i, DRet)
          else
            let cm := if is_resolver (ev_op ev) then canon mouts else mouts in
            let ci := if is_resolver (ev_op ev) then canon (ev_out ev) else ev_out ev in
            match diff_outs cm ci with
            | Some c => Some (i, c)
            | None =>
                if negb (list_eqb ub_eqb mub (ev_ub ev)) then Some (i, DUnblocked)
                else match ev_obs ev with
                     | None => Some (i, DEnded)
                     | Some io =>
                         match diff_obs (observe s') io with
                         | Some c => Some (i, c)
                         | None => accept raw s' (S i) r
                         end
                     end
            end
      end
  end.

(* model trace, for the theorems: run with given oracle orders *)
Fixpoint run (raw : option config) (s : bal) (ops : list (op * list nat)) : list event :=
  match ops with
  | [] => []
  | (o, order) :: r =>
      let '(s', outs, rt, ub) := full_step raw s o order in
      mkEvent o outs rt ub (Some (observe s')) :: run raw s' r
  end.

Fixpoint run_state (raw : option config) (s : bal) (ops : list (op * list nat)) : bal :=
  match ops with
  | [] => s
  | (o, order) :: r => let '(s', _, _, _) := full_step raw s o order in run_state raw s' r
  end.
