(* Engine A proofs, C03 (pool size): how every balancer-side function changes
   the size of the pool (the number of entries of gb.scRefs). *)
From GV Require Import Base.AListFacts Pool.Model Pool.Observe Pool.Monitors
                       Pool.Lemmas Pool.Inv Pool.Inv2 Pool.Frames Pool.C03Outs.
From Coq Require Import Lia ZifyBool.
Open Scope Z_scope.

Lemma length_adel_present {V} (m : list (N * V)) k v :
  NoDup (akeys m) -> aget m k = Some v -> S (length (adel m k)) = length m.
Proof.
  induction m as [|[k0 v0] r IH]; cbn; [discriminate|].
  intros ND. inversion ND as [|? ? Hn ND']; subst.
  destruct (N.eqb_spec k0 k) as [->|Hne]; intros H.
  - rewrite adel_absent by (apply aget_None_iff; exact Hn). reflexivity.
  - cbn [length]. rewrite (IH ND' H). reflexivity.
Qed.

Lemma pool_size_nonneg s : 0 <= pool_size s.
Proof. unfold pool_size. lia. Qed.

(* ---------------------------------------------------------------- addSubConn *)
Lemma pool_size_add_state s : InvK s -> pool_size (add_state s) = pool_size s + 1.
Proof.
  intros HK. unfold pool_size, add_state; sb.
  rewrite length_aset_absent by (apply next_fresh_screfs, HK). lia.
Qed.

Lemma addSubConn_sizeK s s' ok o :
  InvK s -> addSubConn s = (s', ok, o) ->
  ok = negb (cannot_create s) /\ pool_size s' = pool_size s + (if ok then 1 else 0).
Proof.
  intros HK E. destruct (addSubConn_cases s) as [[C E']|[C E']]; rewrite E' in E; inv E; rewrite C; cbn [negb].
  - split; [reflexivity|lia].
  - split; [reflexivity|]. apply pool_size_add_state, HK.
Qed.

Lemma addSubConn_size s s' ok o :
  Inv s -> addSubConn s = (s', ok, o) ->
  ok = negb (cannot_create s) /\ pool_size s' = pool_size s + (if ok then 1 else 0).
Proof. intros HI. apply addSubConn_sizeK, HI. Qed.

Lemma cannot_create_frame s s' : grow_frame s s' -> cannot_create s' = cannot_create s.
Proof. intros HF. unfold cannot_create. rewrite (gf_fail _ _ HF), (gf_addrs _ _ HF). reflexivity. Qed.

Lemma cfg_min_frame s s' : grow_frame s s' -> cfg_min s' = cfg_min s.
Proof. intros HF. unfold cfg_min. rewrite (gf_cfg _ _ HF). reflexivity. Qed.

Lemma cfg_max_frame s s' : grow_frame s s' -> cfg_max s' = cfg_max s.
Proof. intros HF. unfold cfg_max. rewrite (gf_cfg _ _ HF). reflexivity. Qed.

(* ---------------------------------------------------------------- enforceMinSize *)
(* in general: the pool never shrinks and is filled at most up to the minimum *)
Lemma enforceMinSize_size_le s s' o :
  b_cfg s <> None -> Inv s -> enforceMinSize s = (s', o) ->
  pool_size s <= pool_size s' <= Z.max (pool_size s) (cfg_min s).
Proof.
  intros Hc HI E.
  assert (G : Inv s' /\ grow_frame s s' /\ pool_size s <= pool_size s' <= Z.max (pool_size s) (cfg_min s)); [|tauto].
  revert s' o E.
  apply (enforceMinSize_ind (fun s' _ => Inv s' /\ grow_frame s s' /\
                                         pool_size s <= pool_size s' <= Z.max (pool_size s) (cfg_min s))).
  - split; [exact HI|split; [apply grow_frame_refl|lia]].
  - intros s1 o1 s2 ok o2 [HI1 [HF1 Hs1]] Hlt E.
    assert (Hc1 : b_cfg s1 <> None) by (rewrite (gf_cfg _ _ HF1); exact Hc).
    destruct (addSubConn_Inv _ _ _ _ Hc1 HI1 E) as [HI2 HF2].
    destruct (addSubConn_size _ _ _ _ HI1 E) as [_ Hs2].
    rewrite (cfg_min_frame _ _ HF1) in Hlt.
    split; [exact HI2|split; [eapply grow_frame_trans; eauto|]]. destruct ok; lia.
Qed.

(* with a working factory and a non-empty address list: exactly up to the minimum *)
Lemma enforce_iter_exact s o :
  b_cfg s <> None -> Inv s -> cannot_create s = false ->
  forall n, exists s1 o1,
    N.iter n enforce_iter (s, false, o) = (s1, false, o1) /\ Inv s1 /\ grow_frame s s1 /\
    pool_size s1 = Z.min (pool_size s + Z.of_N n) (Z.max (pool_size s) (cfg_min s)).
Proof.
  intros Hc HI Hcc. induction n as [|n IH] using N.peano_ind.
  - exists s, o. split; [reflexivity|split; [exact HI|split; [apply grow_frame_refl|]]].
    pose proof (pool_size_nonneg s). lia.
  - destruct IH as [s1 [o1 [E1 [HI1 [HF1 Hs1]]]]]. rewrite N.iter_succ, E1. unfold enforce_iter.
    destruct (Z.ltb_spec (pool_size s1) (cfg_min s1)) as [Hlt|Hge].
    + destruct (addSubConn s1) as [[s2 ok] o2] eqn:E2.
      assert (Hc1 : b_cfg s1 <> None) by (rewrite (gf_cfg _ _ HF1); exact Hc).
      destruct (addSubConn_Inv _ _ _ _ Hc1 HI1 E2) as [HI2 HF2].
      destruct (addSubConn_size _ _ _ _ HI1 E2) as [Hok Hs2].
      rewrite (cannot_create_frame _ _ HF1), Hcc in Hok. cbn in Hok. subst ok. cbn [negb].
      rewrite (cfg_min_frame _ _ HF1) in Hlt.
      exists s2, (o1 ++ o2). split; [reflexivity|split; [exact HI2|split; [eapply grow_frame_trans; eauto|]]]. lia.
    + rewrite (cfg_min_frame _ _ HF1) in Hge.
      exists s1, o1. split; [reflexivity|split; [exact HI1|split; [exact HF1|]]]. lia.
Qed.

Lemma enforceMinSize_size_exact s s' o :
  b_cfg s <> None -> Inv s -> cannot_create s = false -> enforceMinSize s = (s', o) ->
  pool_size s' = Z.max (pool_size s) (cfg_min s).
Proof.
  intros Hc HI Hcc. unfold enforceMinSize.
  destruct (enforce_iter_exact s [] Hc HI Hcc (Z.to_N (cfg_min s - pool_size s))) as [s1 [o1 [E1 [_ [_ Hs1]]]]].
  rewrite E1. intros E; inv E. rewrite Hs1. lia.
Qed.

(* ---------------------------------------------------------------- newSubConn *)
Definition busy_conn (kv : N * cstate) : bool := cstate_eqb (snd kv) Connecting || cstate_eqb (snd kv) Idle.

Lemma newSubConn_cases s s' o :
  newSubConn s = (s', o) ->
  (s' = s /\ o = []) \/
  ((cfg_max s = 0 \/ pool_size s < cfg_max s) /\ existsb busy_conn (b_scstates s) = false /\
   exists ok, addSubConn s = (s', ok, o)).
Proof.
  unfold newSubConn. fold busy_conn.
  destruct (negb (cfg_max s =? 0) && (cfg_max s <=? pool_size s)) eqn:E1; [intros E; inv E; auto|].
  destruct (existsb busy_conn (b_scstates s)) eqn:E2; [intros E; inv E; auto|].
  destruct (addSubConn s) as [[s1 ok] o1] eqn:E3. intros E; inv E. right.
  split; [lia|split; [reflexivity|eauto]].
Qed.

Lemma newSubConn_outs s s' o : newSubConn s = (s', o) -> atmost_one_new o.
Proof.
  intros E. apply newSubConn_cases in E. destruct E as [[_ ->]|[_ [_ [ok E]]]].
  - apply quiet_atmost, quiet_nil.
  - eapply one_new_atmost, addSubConn_outs, E.
Qed.

(* growth by newSubConn stays within the maximum *)
Lemma newSubConn_size s s' o :
  InvK s -> newSubConn s = (s', o) ->
  b_cfg s' = b_cfg s /\
  (pool_size s' = pool_size s \/ (cfg_max s = 0 \/ pool_size s < cfg_max s) /\ pool_size s' <= pool_size s + 1).
Proof.
  intros HK E. pose proof (newSubConn_views _ _ _ E) as [_ [Hv _]]. apply envview_inv in Hv.
  split; [tauto|]. apply newSubConn_cases in E. destruct E as [[-> _]|[Hm [_ [ok E]]]]; [left; reflexivity|].
  destruct (addSubConn_sizeK _ _ _ _ HK E) as [_ Hs]. destruct ok; [right; split; [exact Hm|lia]|left; lia].
Qed.

(* ---------------------------------------------------------------- UpdateClientConnState *)
Definition ucc_tail (s2 : bal) (o2 : list out) : bal * list out * ret :=
  if (length (b_screfs s2) =? 0)%nat then
    let '(s3, _, o3) := addSubConn s2 in (s3, o2 ++ o3 ++ update_refr s3, RNone)
  else (s2, o2 ++ update_all s2, RNone).

Lemma ucc_tail_spec s2 o2 s' o r :
  Inv s2 -> ucc_tail s2 o2 = (s', o, r) ->
  removes o = removes o2 /\
  (pool_size s2 = 0 /\ pool_size s' <= 1 /\ (count_newsc o = count_newsc o2 + 1)%nat \/
   0 < pool_size s2 /\ pool_size s' = pool_size s2 /\ count_newsc o = count_newsc o2).
Proof.
  intros HI. unfold ucc_tail. destruct (Nat.eqb_spec (length (b_screfs s2)) 0) as [H0|H0].
  - destruct (addSubConn s2) as [[s3 ok] o3] eqn:E3. intros E; inv E.
    destruct (addSubConn_size _ _ _ _ HI E3) as [_ Hs]. destruct (addSubConn_outs _ _ _ _ E3) as [N3 R3].
    destruct (quiet_update_refr s') as [N4 R4].
    rewrite !removes_app, !count_newsc_app, R3, R4, N3, N4, app_nil_r.
    split; [reflexivity|left]. unfold pool_size in *. rewrite H0 in *. destruct ok; lia.
  - intros E; inv E. destruct (quiet_update_all s') as [N4 R4].
    rewrite removes_app, count_newsc_app, R4, N4, app_nil_r.
    split; [reflexivity|right]. unfold pool_size. lia.
Qed.

Lemma UpdateClientConnState_eq_tail s addrs a raw :
  UpdateClientConnState s addrs a raw =
  match ucc_init s addrs a raw with
  | None => (set_addrs s addrs, [], RCfgErr)
  | Some (s2, o2) => ucc_tail s2 o2
  end.
Proof. reflexivity. Qed.

(* the configuration step of the first accepted resolver update *)
Definition cfg_state (s : bal) (addrs : N) (r : option config) : bal :=
  set_undet (set_cfg (set_addrs s addrs) (Some (effective r)))
            ((0 <? c_ucalls (effective r)) && (0 <? c_ums (effective r))).

Lemma ucc_init_cases s addrs a raw :
  match b_cfg s with
  | Some _ => ucc_init s addrs a raw = Some (set_addrs s addrs, [])
  | None =>
      match a with
      | CfgWrongType => ucc_init s addrs a raw = None
      | CfgNil => ucc_init s addrs a raw = Some (enforceMinSize (cfg_state s addrs None))
      | CfgVal => ucc_init s addrs a raw = Some (enforceMinSize (cfg_state s addrs raw))
      end
  end.
Proof.
  unfold ucc_init. sb. destruct (b_cfg s); [reflexivity|]. destruct a; reflexivity.
Qed.

Lemma Inv_cfg_state s addrs r : Inv s -> Inv (cfg_state s addrs r).
Proof. intros HI. unfold cfg_state. apply Inv_set_cfg_undet, Inv_set_addrs, HI. Qed.

(* a resolver update once the configuration is set *)
Lemma ucc_size_later s addrs a raw s' o r c :
  Inv s -> b_cfg s = Some c -> UpdateClientConnState s addrs a raw = (s', o, r) ->
  removes o = [] /\ (has_newsc o = true -> pool_size s = 0) /\
  pool_size s' <= Z.max (pool_size s) 1.
Proof.
  intros HI Hc. rewrite UpdateClientConnState_eq_tail.
  pose proof (ucc_init_cases s addrs a raw) as Hi. rewrite Hc in Hi. rewrite Hi.
  intros E. apply ucc_tail_spec in E; [|apply Inv_set_addrs, HI].
  change (pool_size (set_addrs s addrs)) with (pool_size s) in E.
  destruct E as [R [[H0 [H1 Hn]]|[H0 [H1 Hn]]]]; (split; [exact R|split]); try lia.
  intros Hh. apply has_newsc_true in Hh. rewrite Hn in Hh. cbn in Hh. lia.
Qed.

(* the first accepted resolver update *)
Lemma ucc_size_first s addrs a raw s' o r :
  Inv s -> b_cfg s = None -> UpdateClientConnState s addrs a raw = (s', o, r) ->
  removes o = [] /\ pool_size s = 0 /\
  (b_cfg s' <> None ->
   pool_size s' <= Z.max 1 (cfg_min s') /\
   (b_fail s = false -> addrs <> 0%N -> 1 <= cfg_min s' -> pool_size s' = cfg_min s')).
Proof.
  intros HI Hc. rewrite UpdateClientConnState_eq_tail.
  assert (Hp0 : pool_size s = 0).
  { destruct HI as (_&_&_&_&HG&_). destruct (cfg_none HG Hc) as [H _]. unfold pool_size. rewrite H. reflexivity. }
  pose proof (ucc_init_cases s addrs a raw) as Hi. rewrite Hc in Hi.
  assert (G : forall rr, ucc_init s addrs a raw = Some (enforceMinSize (cfg_state s addrs rr)) ->
    match ucc_init s addrs a raw with
    | Some (s2, o2) => ucc_tail s2 o2
    | None => (set_addrs s addrs, [], RCfgErr)
    end = (s', o, r) ->
    removes o = [] /\ pool_size s = 0 /\
    (b_cfg s' <> None ->
     pool_size s' <= Z.max 1 (cfg_min s') /\
     (b_fail s = false -> addrs <> 0%N -> 1 <= cfg_min s' -> pool_size s' = cfg_min s'))).
  { intros rr -> E. set (s0 := cfg_state s addrs rr) in *.
    assert (HI0 : Inv s0) by apply Inv_cfg_state, HI.
    assert (Hc0 : b_cfg s0 <> None) by (cbn; discriminate).
    destruct (enforceMinSize s0) as [s2 o2] eqn:E2.
    destruct (enforceMinSize_Inv _ _ _ Hc0 HI0 E2) as [HI2 HF2].
    pose proof (enforceMinSize_size_le _ _ _ Hc0 HI0 E2) as Hle.
    pose proof (enforceMinSize_removes _ _ _ E2) as R2.
    change (pool_size s0) with (pool_size s) in Hle. rewrite Hp0 in Hle.
    assert (Hmin' : cfg_min s' = cfg_min s0).
    { unfold ucc_tail in E. destruct (_ =? _)%nat.
      - destruct (addSubConn s2) as [[s3 ok] o3] eqn:E3. inv E.
        assert (Hc2 : b_cfg s2 <> None) by (rewrite (gf_cfg _ _ HF2); exact Hc0).
        destruct (addSubConn_Inv _ _ _ _ Hc2 HI2 E3) as [_ HF3].
        rewrite (cfg_min_frame _ _ HF3). apply cfg_min_frame, HF2.
      - inv E. apply cfg_min_frame, HF2. }
    pose proof E as E'. apply ucc_tail_spec in E'; [|exact HI2].
    destruct E' as [R Hcase]. split; [rewrite R; exact R2|split; [exact Hp0|]].
    intros _. rewrite Hmin'. split; [lia|].
    intros Hf Ha Hm.
    assert (Hcc : cannot_create s0 = false).
    { unfold cannot_create. change (b_fail s0) with (b_fail s). change (b_addrs s0) with addrs.
      rewrite Hf. cbn [orb]. apply N.eqb_neq, Ha. }
    pose proof (enforceMinSize_size_exact _ _ _ Hc0 HI0 Hcc E2) as Hex.
    change (pool_size s0) with (pool_size s) in Hex. rewrite Hp0 in Hex. lia. }
  destruct a.
  - exact (G None Hi).
  - rewrite Hi. intros E; inv E. split; [reflexivity|split; [exact Hp0|]]. intros H. exfalso. apply H, Hc.
  - exact (G raw Hi).
Qed.

(* ---------------------------------------------------------------- UpdateSubConnState *)
Lemma usc_s3_size s1 sc st : pool_size (usc_s3 s1 sc st) <= pool_size s1.
Proof.
  unfold pool_size. destruct st; cbn; try lia.
  pose proof (length_adel_le (b_screfs s1) sc). lia.
Qed.

Lemma usc_tail_c03 s1 o1 sc st oldS order s' o' :
  usc_tail s1 o1 sc st oldS order = (s', o') ->
  pool_size s' <= pool_size s1 /\ count_newsc o' = count_newsc o1 /\ removes o' = removes o1.
Proof.
  unfold usc_tail. rewrite usc_fin_cases. cbv zeta.
  destruct (usc_s5_frame s1 sc st oldS) as (_&_&_&_&_&E6&_).
  pose proof (usc_s3_size s1 sc st) as Hs. destruct (quiet_usc_o3 sc st) as [N3 R3].
  destruct (pub_cond _ _ _ _); intros E; inv E; unfold pool_size in *; sb; rewrite E6;
    rewrite ?count_newsc_app, ?removes_app, N3, R3; cbn; rewrite ?app_nil_r; (split; [lia|split; [lia|reflexivity]]).
Qed.

Lemma usc_after_c03 s1 o1 sc st order s' o' :
  usc_after s1 o1 sc st order = (s', o') ->
  pool_size s' <= pool_size s1 /\ count_newsc o' = count_newsc o1 /\ removes o' = removes o1.
Proof.
  unfold usc_after. destruct (aget (b_scstates s1) sc) as [oldS|].
  - apply usc_tail_c03.
  - intros E; inv E. split; [lia|split; reflexivity].
Qed.

(* the swap puts the channel's slot (back) into the pool under the new connection *)
Lemma swap_size s sc i ref :
  Inv s -> aget (b_refr s) sc = Some i -> get_slot s i = Some ref ->
  pool_size (swap_state s sc i ref) =
  pool_size s + match aget (b_screfs s) (sl_conn ref) with Some _ => 0 | None => 1 end.
Proof.
  intros HI Hr Hs. pose proof (swap_sc_refs s sc i HI Hr) as Hsc.
  unfold pool_size, swap_state; sb.
  rewrite length_aset_absent.
  2:{ rewrite aget_adel. destruct (N.eqb (sl_conn ref) sc); [reflexivity|exact Hsc]. }
  destruct (aget (b_screfs s) (sl_conn ref)) as [j|] eqn:Eo.
  - rewrite (length_adel_present _ _ _ (nd_screfs (proj1 HI)) Eo). lia.
  - rewrite adel_absent by exact Eo. lia.
Qed.

(* does this operation complete a refresh whose old connection has left the pool? *)
Definition revives (s : bal) (o : op) : bool :=
  match o with
  | OpConnState sc Ready =>
      match aget (b_refr s) sc with
      | Some i =>
          match get_slot s i with
          | Some ref => match aget (b_screfs s) (sl_conn ref) with Some _ => false | None => true end
          | None => true
          end
      | None => false
      end
  | _ => false
  end.

Lemma UpdateSubConnState_c03 s sc st order s' o :
  Inv s -> UpdateSubConnState s sc st order = (s', o) ->
  count_newsc o = 0%nat /\
  pool_size s' <= pool_size s + (if revives s (OpConnState sc st) then 1 else 0) /\
  (removes o = [] \/
   exists i ref, st = Ready /\ aget (b_refr s) sc = Some i /\ get_slot s i = Some ref /\ removes o = [sl_conn ref]).
Proof.
  intros HI. rewrite UpdateSubConnState_cases. unfold revives.
  assert (A : forall k, 0 <= k -> usc_after s [] sc st order = (s', o) ->
              count_newsc o = 0%nat /\ pool_size s' <= pool_size s + k /\
              (removes o = [] \/ exists i ref, st = Ready /\ aget (b_refr s) sc = Some i /\
                                               get_slot s i = Some ref /\ removes o = [sl_conn ref])).
  { intros k Hk E. apply usc_after_c03 in E. destruct E as [H1 [H2 H3]].
    split; [exact H2|split; [lia|left; exact H3]]. }
  destruct (aget (b_refr s) sc) as [i|] eqn:Er.
  2:{ destruct st; apply A; lia. }
  destruct (cstate_eqb_spec st Ready) as [->|Hne]; cbn [negb].
  2:{ intros E; inv E. split; [reflexivity|split; [|left; reflexivity]]. destruct st; try lia. congruence. }
  destruct (get_slot s i) as [ref|] eqn:Es; [|apply A; lia].
  intros E. apply usc_after_c03 in E. destruct E as [H1 [H2 H3]].
  rewrite (swap_size s sc i ref HI Er Es) in H1.
  split; [exact H2|split].
  - destruct (aget (b_screfs s) (sl_conn ref)); lia.
  - right. exists i, ref. repeat split; auto.
Qed.
