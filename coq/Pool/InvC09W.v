(* Engine A proofs: C09, the fairness-window clause (monitor C09W_ok).
   While the number of channels is unchanged, successive round-robin BIND calls
   advance by ONE channel, cyclically.  The monitor compares, at each
   round-robin BIND pick, the slot of this call
        ((cursor + 1) mod 2^32) mod n
   with the slot of the previous round-robin call plus one
        ((cursor mod n) + 1) mod n.
   - arithmetic: the two agree whenever the cursor is not 2^32 - 1 (no wrap);
   - on the model: started from init_bal the cursor is 2^32 - 1 before the first
     round-robin pick (which the monitor does not compare with anything) and
     k - 1 after the k-th; so the clause holds on every harness-legal model
     history with at most 2^32 round-robin BIND picks;
   - across the wrap the clause is violated for three channels (known finding
     RR1), while C09 proper and the dead-slot clause hold. *)
From GV Require Import Base.AListFacts Pool.Model Pool.Observe Pool.Monitors
                       Pool.Lemmas Pool.Inv Pool.Inv2 Pool.Frames Pool.Sim Pool.SimW Pool.SimHome
                       Pool.InvC06 Pool.Reduce Pool.LegalRun Pool.PickFacts Pool.InvC09.
From Coq Require Import Lia ZifyBool.
Open Scope Z_scope.

(* ================================================================ arithmetic *)
Lemma rr_step_no_wrap : forall rr n,
  0 <= rr < W32 - 1 -> 0 < n -> ((rr + 1) mod W32) mod n = ((rr mod n) + 1) mod n.
Proof.
  intros rr n Hrr Hn. rewrite (Z.mod_small (rr + 1) W32) by lia.
  rewrite Z.add_mod_idemp_l by lia. reflexivity.
Qed.

(* the Boolean form evaluated by c09w_event *)
Lemma rr_step_no_wrap_b : forall rr n,
  0 <= rr < W32 - 1 -> 0 < n -> (((rr + 1) mod W32) mod n =? ((rr mod n) + 1) mod n) = true.
Proof. intros rr n Hrr Hn. apply Z.eqb_eq. apply rr_step_no_wrap; assumption. Qed.

(* at the wrap the step is wrong as soon as n does not divide 2^32 (and n > 1) *)
Lemma rr_step_wrap : forall n,
  1 < n -> W32 mod n <> 0 -> ((W32 - 1 + 1) mod W32) mod n <> (((W32 - 1) mod n) + 1) mod n.
Proof.
  intros n Hn Hd. replace (W32 - 1 + 1) with W32 by lia. rewrite Z.mod_same by (unfold W32; lia).
  rewrite Z.mod_0_l by lia. rewrite Z.add_mod_idemp_l by lia.
  replace (W32 - 1 + 1) with W32 by lia. auto.
Qed.

(* ================================================================ the monitor's pattern match, on the model *)
(* a round-robin BIND pick goes over a non-empty list of slots *)
Lemma rr_pick_slots_nonempty s o : Inv s -> is_rr_pick s o = true -> (0 < length (b_slots s))%nat.
Proof.
  intros HI H. destruct o as [addrs a| |sc st|pi m hc rk dl cc|j oc rk|dt|j|f|g|k]; cbn [is_rr_pick] in H;
    try discriminate H.
  destruct (nth_error (b_published s) pi) as [pk|] eqn:Ep; [|discriminate H].
  destruct pk as [t|[|a l]]; cbn [pick_is_rr] in H; try discriminate H.
  assert (Ha : (a < length (b_slots s))%nat).
  { destruct HI as (_&_&HP&_). eapply (pub_valid HP); [eapply nth_error_In, Ep|left; reflexivity]. }
  lia.
Qed.

(* c09w_event fires exactly at the model's round-robin BIND picks *)
Lemma c09w_event_model raw s ms o prevn outs rt ub obs' :
  Inv s -> Sim_pubs s ms -> Sim_cfg s ms ->
  c09w_event (raw_in_force raw ms o) ms prevn (observe s) (mkEvent o outs rt ub obs') =
  if is_rr_pick s o
  then (match prevn with
        | Some n0 =>
            if Nat.eqb n0 (length (b_slots s))
            then ((b_rr s + 1) mod W32) mod Z.of_nat (length (b_slots s)) =?
                 ((b_rr s mod Z.of_nat (length (b_slots s))) + 1) mod Z.of_nat (length (b_slots s))
            else true
        | None => true
        end, Some (length (b_slots s)))
  else (true, prevn).
Proof.
  intros HI HSp HSc. unfold c09w_event. cbn [ev_op].
  destruct o as [addrs a| |sc st|pi m hc rk dl cc|j oc rk|dt|j|f|g|k]; try reflexivity.
  cbn [is_rr_pick]. unfold nth_picker. rewrite (proj1 HSp).
  destruct (nth_error (b_published s) pi) as [pk|] eqn:Ep; [|reflexivity].
  destruct (cfg_of_pubs _ _ _ HI Ep) as [c Hcfg].
  destruct (pick_fields_link raw s ms (OpPick pi m hc rk dl cc) c m hc rk HSc Hcfg) as (_&_&_&L4).
  rewrite L4. destruct pk as [t|[|a l]]; reflexivity.
Qed.

(* ================================================================ the invariant along a run *)
(* what the clause needs of the cursor, given the monitor's accumulator and the
   number of round-robin BIND picks still to come:
   - no round-robin pick yet: the cursor has its initial value 2^32 - 1, and at
     most 2^32 picks follow (the first lands on 0, the last at most on 2^32 - 1);
   - otherwise the cursor plus the number of picks to come stays below 2^32. *)
Definition wguard (prevn : option nat) (s : bal) (togo : nat) : Prop :=
  match prevn with
  | Some _ => 0 <= b_rr s /\ b_rr s + Z.of_nat togo < W32
  | None => b_rr s = W32 - 1 /\ Z.of_nat togo <= W32
  end.

Lemma c09w_from_run raw : forall ops s ms prevn,
  Inv s -> Sim s ms -> Forall (fun ev => ev_ret ev <> RBadOp) (run raw s ops) ->
  wguard prevn s (rr_picks raw s ops) ->
  c09w_from raw ms prevn (observe s) (run raw s ops) = true.
Proof.
  induction ops as [|[o order] r IH]; intros s ms prevn HI HS HL HW; [reflexivity|].
  cbn [run rr_picks] in *.
  destruct (full_step raw s o order) as [[[s' outs] rt] ub] eqn:E.
  inversion HL as [|? ? Hrt HL']; subst. cbn [ev_ret] in Hrt.
  destruct (Sim_step raw s ms o order s' outs rt ub HI HS Hrt E) as [HI' [_ HS']].
  pose proof (full_step_rr _ _ _ _ _ _ _ _ HI E) as Hrr.
  cbn [c09w_from ev_obs ev_op].
  destruct HS as (S1&S2&_).
  rewrite (c09w_event_model raw s ms o prevn outs rt ub (Some (observe s')) HI S1 S2).
  destruct (is_rr_pick s o) eqn:Er.
  - (* a round-robin BIND pick *)
    pose proof (rr_pick_slots_nonempty s o HI Er) as Hn.
    apply andb_true_iff. split.
    + destruct prevn as [n0|]; [|reflexivity].
      destruct (Nat.eqb n0 (length (b_slots s))); [|reflexivity].
      cbn [wguard] in HW. apply rr_step_no_wrap_b; lia.
    + apply IH; try assumption. cbn [wguard]. rewrite Hrr.
      destruct prevn as [n0|]; cbn [wguard] in HW.
      * rewrite Z.mod_small by lia. lia.
      * destruct HW as [-> HW]. replace (W32 - 1 + 1) with W32 by lia.
        rewrite Z.mod_same by (unfold W32; lia). lia.
  - (* any other operation: cursor and accumulator unchanged *)
    cbn [andb]. apply IH; try assumption.
    cbn [Nat.add] in HW. destruct prevn as [n0|]; cbn [wguard] in *; rewrite Hrr; exact HW.
Qed.

(* ================================================================ the theorem *)
(* at most 2^32 round-robin BIND picks: the cursor never steps from 2^32 - 1 to 0
   between two compared calls *)
Theorem C09W_holds_le raw ops :
  legal raw ops -> Z.of_nat (rr_picks raw init_bal ops) <= W32 ->
  C09W_ok raw (observe init_bal) (run raw init_bal ops) = true.
Proof.
  intros HL Hk. unfold C09W_ok. apply c09w_from_run.
  - exact Inv_init.
  - exact Sim_init.
  - exact HL.
  - cbn [wguard]. split; [reflexivity|exact Hk].
Qed.

(* the statement as required: fewer than 2^32 - 1 round-robin BIND picks *)
Theorem C09W_holds raw ops :
  legal raw ops -> Z.of_nat (rr_picks raw init_bal ops) < W32 - 1 ->
  C09W_ok raw (observe init_bal) (run raw init_bal ops) = true.
Proof. intros HL Hk. apply C09W_holds_le; [exact HL|lia]. Qed.

(* the name announced in Monitors.v *)
Definition C09W_ok_no_wrap := C09W_holds.

(* the same from any reachable-like state whose cursor is far from the wrap
   (used for histories whose cursor is injected with set_rr) *)
Theorem C09W_holds_from raw s ms ops :
  Inv s -> Sim s ms -> Forall (fun ev => ev_ret ev <> RBadOp) (run raw s ops) ->
  0 <= b_rr s -> b_rr s + Z.of_nat (rr_picks raw s ops) < W32 ->
  c09w_from raw ms (Some (length (b_slots s))) (observe s) (run raw s ops) = true.
Proof. intros HI HS HL H0 Hk. apply c09w_from_run; try assumption. split; assumption. Qed.

(* ================================================================ across the wrap: known finding RR1 *)
Definition rr1_raw : option config :=
  Some (mkConfig 3 3 100 false 0 0 true
          [(1%N, mkMcfg BIND true); (2%N, mkMcfg BOUND true); (3%N, mkMcfg UNBIND true);
           (4%N, mkMcfg BOUND false); (5%N, mkMcfg BIND false); (6%N, mkMcfg UNBIND false);
           (7%N, mkMcfg BOUND false); (8%N, mkMcfg BIND false); (9%N, mkMcfg UNBIND false);
           (10%N, mkMcfg BOUND false)]).

Definition rr1_ops : list (op * list nat) :=
  let bind := (OpPick 2 1 true [] None false, @nil nat) in
  [ (OpResolver 1 CfgVal, []); (OpConnState 0 Ready, []); (OpConnState 1 Ready, []); (OpConnState 2 Ready, []);
    bind; bind; bind; bind; bind ].

(* corpus/pool/known_rr1.hist: three READY channels, cursor preset three calls
   before the wrap: the five BIND calls go to channels 2, 0, 0, 1, 2 - the step
   from cursor 2^32 - 1 to cursor 0 stays on channel 0.  C09 proper (cursor
   arithmetic, slot = cursor mod 3) and the dead-slot clause hold; only the
   fairness-window clause fails, at the third BIND call (event 6). *)
Example C09W_wrap_refuted :
  let s0 := set_rr init_bal (W32 - 3) in
  let tr := run rr1_raw s0 rr1_ops in
  map ev_ret tr = [RNone; RNone; RNone; RNone; RPicked 2; RPicked 0; RPicked 0; RPicked 1; RPicked 2] /\
  Forall (fun ev => ev_ret ev <> RBadOp) tr /\
  C09_ok rr1_raw (observe s0) tr = true /\
  C09D_ok rr1_raw (observe s0) tr = true /\
  C09W_ok rr1_raw (observe s0) tr = false /\
  C09W_ok rr1_raw (observe s0) (firstn 6 tr) = true /\
  C09W_ok rr1_raw (observe s0) (firstn 7 tr) = false /\
  known_RR1 rr1_raw (observe s0) tr = true.
Proof.
  vm_compute. repeat split; try reflexivity.
  repeat (constructor; [discriminate|]). constructor.
Qed.

(* non-vacuity of C09W_holds: the same history from init_bal (cursor 2^32 - 1,
   five round-robin BIND calls: channels 0, 1, 2, 0, 1) is legal, within the
   bound, and passes all three clauses *)
Example c09w_history :
  legalb rr1_raw rr1_ops = true /\
  rr_picks rr1_raw init_bal rr1_ops = 5%nat /\
  map ev_ret (run rr1_raw init_bal rr1_ops) =
    [RNone; RNone; RNone; RNone; RPicked 0; RPicked 1; RPicked 2; RPicked 0; RPicked 1] /\
  C09W_ok rr1_raw (observe init_bal) (run rr1_raw init_bal rr1_ops) = true /\
  known_RR1 rr1_raw (observe init_bal) (run rr1_raw init_bal rr1_ops) = false.
Proof. vm_compute. repeat split; reflexivity. Qed.

Print Assumptions rr_step_no_wrap.
Print Assumptions C09W_holds_le.
Print Assumptions C09W_holds.
Print Assumptions C09W_wrap_refuted.
