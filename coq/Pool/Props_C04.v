From GV Require Import Pool.Model Pool.Observe Pool.Monitors Pool.Reduce Pool.InvC04.

(* C04: the connectivity state and picker published to gRPC always agree with the
   pool (census of connection states, READY channels), and every change is
   published; for every history (legal or not) and every map-iteration oracle.
   Guard: the pool holds fewer than 2^64 connections in every state of the run
   (the evaluator's counters are uint64). *)
Theorem C04_holds : forall raw ops,
  Forall (fun s => Z.of_nat (length (b_scstates s)) < W64)%Z (run_states raw init_bal ops) ->
  monitor P04 raw (observe init_bal) (run raw init_bal ops) = true.
Proof. exact C04_holds_proof. Qed.
Print Assumptions C04_holds.

(* non-vacuity: connections come up, fail, are refreshed and shut down; six publications *)
Example c04_history :
  let raw := Some (mkConfig 2 4 100 false 1 1 false []) in
  let ops := [(OpResolver 1 CfgVal, []); (OpConnState 0 Connecting, []); (OpConnState 0 Ready, []);
              (OpConnState 1 Ready, [1; 0]%nat); (OpPick 1 0 false [] (Some 5%Z) false, []);
              (OpAdvance 2000000, []); (OpDone 0 DDeadlineClient [], []); (OpConnState 2 Ready, []);
              (OpConnState 2 TransientFailure, []); (OpConnState 0 TransientFailure, []);
              (OpConnState 0 Idle, []); (OpConnState 0 Connecting, []); (OpConnState 2 Shutdown, [])] in
  map (fun ev => outs_pubs (ev_out ev)) (run raw init_bal ops) =
    [[]; []; [(Ready, PSnap [0%nat])]; [(Ready, PSnap [1; 0]%nat)]; []; []; []; []; [(Ready, PSnap [0%nat])];
     [(TransientFailure, PErr true)]; []; [(Connecting, PSnap [])]; []] /\
  monitor P04 raw (observe init_bal) (run raw init_bal ops) = true.
Proof. vm_compute. split; reflexivity. Qed.

(* the monitor rejects a connection becoming READY without a publication *)
Example c04_bad_unpublished_ready :
  let o1 := mkObs true 1 0 0 0 Idle [] [] [(0%N, Idle)] [(0%N, 0%nat)] [mkSlot 0 0 0 0 0 false 0]
                  4294967295 [] false (PErr false) 0 0 true in
  let o2 := mkObs true 1 1 0 0 Ready [] [] [(0%N, Ready)] [(0%N, 0%nat)] [mkSlot 0 0 0 0 0 false 0]
                  4294967295 [] false (PErr false) 0 0 true in
  mon_from P04 None ms_init o1 [mkEvent (OpConnState 0 Ready) [] RNone [] (Some o2)] = false.
Proof. vm_compute. reflexivity. Qed.

(* ... and a published state that is not the census *)
Example c04_bad_wrong_state :
  let o1 := mkObs true 1 0 0 0 Idle [] [] [(0%N, Idle)] [(0%N, 0%nat)] [mkSlot 0 0 0 0 0 false 0]
                  4294967295 [] false (PErr false) 0 0 true in
  let o2 := mkObs true 1 1 0 0 Ready [] [] [(0%N, Ready)] [(0%N, 0%nat)] [mkSlot 0 0 0 0 0 false 0]
                  4294967295 [] false (PSnap [0%nat]) 1 0 true in
  mon_from P04 None ms_init o1
    [mkEvent (OpConnState 0 Ready) [OUpdateState Connecting (PSnap [0%nat])] RNone [] (Some o2)] = false.
Proof. vm_compute. reflexivity. Qed.
