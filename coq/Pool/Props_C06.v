From GV Require Import Pool.Model Pool.Observe Pool.Monitors Pool.InvC06.

(* C06: no operation gets stuck and the balancer mutex is free after each one;
   only a round-robin BIND call may be left waiting, and a call still waiting has
   neither a READY channel nor an ended context (every call that can proceed has
   returned).  For every history (harness-legal or not) and every oracle; no guard. *)
Theorem C06_holds : forall raw ops,
  monitor P06 raw (observe init_bal) (run raw init_bal ops) = true.
Proof. exact C06_holds_proof. Qed.
Print Assumptions C06_holds.

(* in particular no event of any model run is stuck *)
Theorem C06_no_stuck : forall raw ops ev, In ev (run raw init_bal ops) -> ev_ret ev <> RStuck.
Proof. exact no_stuck. Qed.
Print Assumptions C06_no_stuck.

(* non-vacuity: two round-robin BINDs wait; one is released by its deadline, one by its channel *)
Example c06_history :
  let raw := Some (mkConfig 2 4 1 false 0 0 true [(1%N, mkMcfg BIND true)]) in
  let ops := [(OpResolver 1 CfgVal, []); (OpConnState 0 Ready, []); (OpConnState 0 Connecting, []);
              (OpPick 0 1 true [] (Some 10%Z) false, []); (OpPick 0 1 true [] None false, []);
              (OpAdvance 5, []); (OpAdvance 5, []); (OpConnState 1 Ready, [])] in
  map ev_ret (run raw init_bal ops) = [RNone; RNone; RNone; RBlocked; RBlocked; RNone; RNone; RNone] /\
  map ev_ub (run raw init_bal ops) = [[]; []; []; []; []; []; [(0%nat, 0%N)]; [(1%nat, 1%N)]] /\
  monitor P06 raw (observe init_bal) (run raw init_bal ops) = true.
Proof. vm_compute. repeat split; reflexivity. Qed.

(* the monitor rejects a waiting call whose channel is READY *)
Example c06_bad_waits_on_ready :
  let o1 := mkObs true 1 1 0 0 Ready [] [] [(0%N, Ready)] [(0%N, 0%nat)] [mkSlot 0 0 0 0 0 false 0]
                  4294967295 [] false (PSnap [0%nat]) 1 0 true in
  let o2 := mkObs true 1 1 0 0 Ready [] [] [(0%N, Ready)] [(0%N, 0%nat)] [mkSlot 0 0 0 0 0 false 0]
                  0 [] false (PSnap [0%nat]) 1 0 true in
  mon_from P06 (Some (mkConfig 1 4 1 false 0 0 true [(1%N, mkMcfg BIND true)]))
    (mkMstate [PSnap [0%nat]] (Some (Ready, PSnap [0%nat])) [] [] [] [] false
              (Some (Some (mkConfig 1 4 1 false 0 0 true [(1%N, mkMcfg BIND true)]))) 0) o1
    [mkEvent (OpPick 0 1 true [] None false) [] RBlocked [] (Some o2)] = false.
Proof. vm_compute. reflexivity. Qed.

(* ... and a stuck operation *)
Example c06_bad_stuck :
  monitor P06 None (observe init_bal) [mkEvent (OpResolver 1 CfgNil) [] RStuck [] None] = false.
Proof. vm_compute. reflexivity. Qed.
