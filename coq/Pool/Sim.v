(* Engine A proofs: the relation between the model state and the bookkeeping
   the monitors thread through a trace ([mstate], updated by [track]), and its
   preservation by a full step.

   Sim s ms  =  Sim_pubs /\ Sim_cfg /\ Sim_fail /\ Sim_addr            (unconditional)
   SimP s ms =  ms_picks mirrors b_picks                               (harness-legal steps only)
   Each part has its own preservation lemma; [Sim_step] combines them. *)
From GV Require Import Base.AListFacts Pool.Model Pool.Observe Pool.Monitors
                       Pool.Lemmas Pool.Inv Pool.Inv2 Pool.Frames.
From Coq Require Import Lia ZifyBool.
Open Scope Z_scope.

(* ================================================================ projections of [track] *)
Definition ub_fold (now : Z) (ub : list (nat * N)) (m : mstate) : mstate :=
  fold_left (fun m jn => ms_with_picks m (upd_nth (fst jn) (fun p => set_status p PPlaced now) (ms_picks m))) ub m.

Lemma ub_fold_proj now ub : forall m,
  ms_pubs (ub_fold now ub m) = ms_pubs m /\ ms_lastpub (ub_fold now ub m) = ms_lastpub m /\
  ms_home (ub_fold now ub m) = ms_home m /\ ms_lastaddr (ub_fold now ub m) = ms_lastaddr m /\
  ms_connected (ub_fold now ub m) = ms_connected m /\ ms_fail (ub_fold now ub m) = ms_fail m /\
  ms_raw (ub_fold now ub m) = ms_raw m /\ ms_res (ub_fold now ub m) = ms_res m.
Proof.
  unfold ub_fold. induction ub as [|jn r IH]; intros m; cbn [fold_left]; [tauto|].
  destruct (IH (ms_with_picks m (upd_nth (fst jn) (fun p => set_status p PPlaced now) (ms_picks m))))
    as (H1&H2&H3&H4&H5&H6&H7&H8).
  repeat split; assumption.
Qed.

(* the part of [track] before the unblocked picks are marked *)
Definition track_ms1 (raw : option config) (ms : mstate) (before : obs) (ev : event) (after : obs) : mstate :=
  let pubs := outs_pubs (ev_out ev) in
  let '(la, cn) := track_addr (ev_out ev) (ms_lastaddr ms) (ms_connected ms) in
  let raw := raw_in_force raw ms (ev_op ev) in
  mkMstate (ms_pubs ms ++ map snd pubs) (last_opt pubs (ms_lastpub ms)) (ms_picks ms) (ms_home ms) la cn (ms_fail ms)
           (match ms_raw ms with
            | Some r => Some r
            | None => if o_cfgset after then Some raw else None
            end)
           (ms_res ms + if is_resurrection before ev then 1 else 0).

Definition track_ms2 (raw : option config) (ms1 : mstate) (before : obs) (ev : event) (after : obs) : mstate :=
  match ev_op ev with
  | OpPick pi m hasctx reqkeys deadline cancelled =>
      let mk i st := mkMpick i (pick_cmd raw m)
                             (match pick_key raw m hasctx reqkeys with Some k => k | None => 0%N end)
                             hasctx (pick_locok raw m) deadline cancelled (o_now after) st in
      match ev_ret ev with
      | RPicked n =>
          match o_slot_of_conn after n with
          | Some i => ms_with_picks ms1 (ms_picks ms1 ++ [mk i PPlaced])
          | None => ms1
          end
      | RBlocked =>
          let i := Z.to_nat (o_rr after mod Z.of_nat (length (o_slots after))) in
          ms_with_picks ms1 (ms_picks ms1 ++ [mk i PBlocked])
      | _ => ms1
      end
  | OpDone j oc replykeys =>
      match nth_error (ms_picks ms1) j with
      | Some p =>
          let ms1' := ms_with_picks ms1 (upd_nth j (fun p => set_status p PFinished (mp_started p)) (ms_picks ms1)) in
          match oc with
          | DOk =>
              match mp_cmd p with
              | BIND =>
                  if mp_hasctx p && mp_locok p && o_slot_in_pool before (mp_slot p)
                  then ms_with_home ms1' (fold_left (fun h k => match aget h k with Some _ => h | None => aset h k (mp_slot p) end)
                                                    replykeys (ms_home ms1'))
                  else ms1'
              | UNBIND => ms_with_home ms1' (adel (ms_home ms1') (mp_key p))
              | BOUND => ms1'
              end
          | _ => ms1'
          end
      | None => ms1
      end
  | OpCancel j => ms_with_picks ms1 (upd_nth j set_cancelled (ms_picks ms1))
  | OpFactory f => ms_with_fail ms1 f
  | _ => ms1
  end.

Lemma track_eq raw ms before ev after :
  track raw ms before ev after =
  ub_fold (o_now after) (ev_ub ev)
          (track_ms2 (raw_in_force raw ms (ev_op ev)) (track_ms1 raw ms before ev after) before ev after).
Proof.
  unfold track, track_ms1, track_ms2, ub_fold.
  destruct (track_addr (ev_out ev) (ms_lastaddr ms) (ms_connected ms)) as [la cn]. reflexivity.
Qed.

(* track_ms2 only touches picks, home and fail *)
Lemma track_ms2_proj raw ms1 before ev after :
  let m := track_ms2 raw ms1 before ev after in
  ms_pubs m = ms_pubs ms1 /\ ms_lastpub m = ms_lastpub ms1 /\ ms_lastaddr m = ms_lastaddr ms1 /\
  ms_connected m = ms_connected ms1 /\ ms_raw m = ms_raw ms1 /\ ms_res m = ms_res ms1 /\
  ms_fail m = match ev_op ev with OpFactory f => f | _ => ms_fail ms1 end.
Proof.
  cbv zeta. unfold track_ms2.
  destruct (ev_op ev) as [addrs a| |sc st|pi m hc rk dl cc|j oc rk|dt|j|f|g|k]; try (repeat split; reflexivity).
  - destruct (ev_ret ev); try (repeat split; reflexivity).
    destruct (o_slot_of_conn after n); repeat split; reflexivity.
  - destruct (nth_error (ms_picks ms1) j) as [p|]; [|repeat split; reflexivity].
    destruct oc; try (repeat split; reflexivity).
    destruct (mp_cmd p); try (repeat split; reflexivity).
    destruct (_ && _); repeat split; reflexivity.
Qed.

Lemma track_proj raw ms before ev after :
  let m := track raw ms before ev after in
  ms_pubs m = ms_pubs ms ++ map snd (outs_pubs (ev_out ev)) /\
  ms_lastpub m = last_opt (outs_pubs (ev_out ev)) (ms_lastpub ms) /\
  (ms_lastaddr m, ms_connected m) = track_addr (ev_out ev) (ms_lastaddr ms) (ms_connected ms) /\
  ms_raw m = (match ms_raw ms with
              | Some r => Some r
              | None => if o_cfgset after then Some (raw_in_force raw ms (ev_op ev)) else None
              end) /\
  ms_res m = ms_res ms + (if is_resurrection before ev then 1 else 0) /\
  ms_fail m = match ev_op ev with OpFactory f => f | _ => ms_fail ms end.
Proof.
  cbv zeta. rewrite track_eq.
  destruct (ub_fold_proj (o_now after) (ev_ub ev)
             (track_ms2 (raw_in_force raw ms (ev_op ev)) (track_ms1 raw ms before ev after) before ev after))
    as (H1&H2&H3&H4&H5&H6&H7&H8).
  destruct (track_ms2_proj (raw_in_force raw ms (ev_op ev)) (track_ms1 raw ms before ev after) before ev after)
    as (G1&G2&G3&G4&G5&G6&G7).
  rewrite H1, H2, H4, H5, H6, H7, H8, G1, G2, G3, G4, G5, G6, G7.
  unfold track_ms1. destruct (track_addr (ev_out ev) (ms_lastaddr ms) (ms_connected ms)) as [la cn].
  cbn. repeat split; reflexivity.
Qed.

(* ================================================================ publications of a step *)
Lemma cnt_upd_same x n c a b :
  n = c mod W64 -> cstate_eqb b x = cstate_eqb a x -> cnt_upd x n a b = n.
Proof.
  intros -> H. unfold cnt_upd. rewrite H. destruct (cstate_eqb a x); [|reflexivity].
  rewrite mod_dec', mod_inc. f_equal. lia.
Qed.

Lemma eval3_tf r cn tf : eval3 r cn tf = TransientFailure <-> (0 <? r = false /\ 0 <? cn = false).
Proof. unfold eval3. destruct (0 <? r), (0 <? cn); split; try tauto; try discriminate; intros [? ?]; discriminate. Qed.

(* without a publication the aggregate state does not change (once it is set) *)
Lemma nopub_state_same nr nc nt nc' nt' state st :
  invC nr nc nt state st -> state <> Idle ->
  cstate_eqb (eval3 nr nc' nt') TransientFailure = cstate_eqb state TransientFailure ->
  eval3 nr nc' nt' = state.
Proof.
  intros HC Hs He. rewrite (state_eval HC Hs) in *. unfold eval3 in *.
  destruct (0 <? nr); [reflexivity|]. destruct (0 <? nc'), (0 <? nc); try reflexivity; discriminate.
Qed.

Definition pub_spec (s s' : bal) (o : list out) : Prop :=
  (outs_pubs o = [] /\ b_published s' = b_published s /\ b_picker s' = b_picker s /\
   (b_state s <> Idle -> b_state s' = b_state s)) \/
  (outs_pubs o = [(b_state s', b_picker s')] /\ b_published s' = b_published s ++ [b_picker s']).

Lemma usc_o3_no_pub sc st : no_pub (usc_o3 sc st).
Proof. destruct st; reflexivity. Qed.

Lemma usc_tail_pub s1 o1 sc st oldS order s' o' :
  Inv s1 -> aget (b_scstates s1) sc = Some oldS -> no_pub o1 ->
  usc_tail s1 o1 sc st oldS order = (s', o') -> pub_spec s1 s' o'.
Proof.
  intros HI Hold Ho1. unfold usc_tail. rewrite usc_fin_cases. cbv zeta.
  destruct (usc_s5_frame s1 sc st oldS) as (E1&E2&E3&E4&E5&E6&E7&E8&_).
  set (s5 := usc_s5 (usc_s3 s1 sc st) sc st oldS) in *.
  rewrite E1, E2, E3, E4, E8.
  assert (Ho : no_pub (o1 ++ usc_o3 sc st)) by (apply no_pub_app; [auto|apply usc_o3_no_pub]).
  destruct (pub_cond _ _ _ _) eqn:Epc; intros E; inv E.
  - right. sb. split; [|reflexivity]. rewrite outs_pubs_app, Ho. reflexivity.
  - left. sb. split; [exact Ho|split; [exact E8|split; [exact E7|]]].
    intros Hs. unfold pub_cond in Epc. apply orb_false_iff in Epc. destruct Epc as [Hp1 Hp2].
    apply negb_false_iff, eqb_prop in Hp1, Hp2.
    assert (HC : InvC s1) by apply HI. unfold InvC in HC.
    rewrite (cnt_upd_same Ready (b_nready s1) _ oldS st (cnt_ready HC) Hp1) in *.
    eapply nopub_state_same; eauto.
Qed.

Lemma usc_after_pub s1 o1 sc st order s' o' :
  Inv s1 -> no_pub o1 -> usc_after s1 o1 sc st order = (s', o') -> pub_spec s1 s' o'.
Proof.
  intros HI Ho1. unfold usc_after. destruct (aget (b_scstates s1) sc) as [oldS|] eqn:E.
  - eapply usc_tail_pub; eauto.
  - intros H; inv H. left. auto.
Qed.

Lemma UpdateSubConnState_pub s sc st order s' o :
  Inv s -> UpdateSubConnState s sc st order = (s', o) -> pub_spec s s' o.
Proof.
  intros HI. rewrite UpdateSubConnState_cases.
  destruct (aget (b_refr s) sc) as [i|] eqn:Er; [|apply usc_after_pub; [auto|reflexivity]].
  destruct (negb (cstate_eqb st Ready)); [intros E; inv E; left; auto|].
  destruct (get_slot s i) as [ref|] eqn:Es; [|apply usc_after_pub; [auto|reflexivity]].
  intros E. apply usc_after_pub in E; [|apply swap_Inv; auto|reflexivity]. exact E.
Qed.

Lemma step_pub raw s o order s' outs r :
  Inv s -> step raw s o order = (s', outs, r) -> pub_spec s s' outs.
Proof.
  intros HI E. destruct (is_connstate o) eqn:Ho.
  - destruct o; try discriminate. cbn [step] in E.
    destruct (UpdateSubConnState s sc st order) as [s1 o1] eqn:E1. inv E.
    eapply UpdateSubConnState_pub; eauto.
  - destruct (step_pubview _ _ _ _ _ _ _ Ho E) as [H1 H2]. apply pubview_inv in H1.
    left. intuition congruence.
Qed.

Lemma full_step_pub raw s o order s' outs r ub :
  Inv s -> full_step raw s o order = (s', outs, r, ub) -> pub_spec s s' outs.
Proof.
  intros HI. rewrite full_step_eq.
  destruct (step raw s o order) as [[s1 outs1] r1] eqn:Es.
  destruct (resolve_blocked s1) as [s2 ub2] eqn:Er. intros E; inv E.
  destruct (step_Inv _ _ _ _ _ _ _ HI Es) as [HI1 _].
  pose proof (step_pub _ _ _ _ _ _ _ HI Es) as Hp.
  destruct (resolve_blocked_spec _ _ _ HI1 Er) as [_ [Hm _]].
  apply mask_sp_views in Hm. destruct Hm as [Hm _]. apply pubview_inv in Hm.
  destruct Hm as (_&_&_&M1&M2&M3). unfold pub_spec in *. rewrite M1, M2, M3. exact Hp.
Qed.

(* ================================================================ Sim_pubs *)
Definition Sim_pubs (s : bal) (ms : mstate) : Prop :=
  ms_pubs ms = b_published s /\
  match ms_lastpub ms with
  | None => b_published s = []
  | Some (st, pk) => b_published s <> [] /\ st = b_state s /\ pk = b_picker s
  end.

Lemma Sim_pubs_init : Sim_pubs init_bal ms_init.
Proof. split; reflexivity. Qed.

Lemma Sim_pubs_step raw s ms o order s' outs rt ub :
  Inv s -> Sim_pubs s ms -> full_step raw s o order = (s', outs, rt, ub) ->
  Sim_pubs s' (track raw ms (observe s) (mkEvent o outs rt ub (Some (observe s'))) (observe s')).
Proof.
  intros HI [S1 S2] E.
  destruct (track_proj raw ms (observe s) (mkEvent o outs rt ub (Some (observe s'))) (observe s')) as (T1&T2&_).
  cbn [ev_out] in T1, T2. unfold Sim_pubs. rewrite T1, T2.
  destruct (full_step_pub _ _ _ _ _ _ _ _ HI E) as [(P1&P2&P3&P4)|(P1&P2)]; rewrite P1; cbn [map snd last_opt rev app].
  - rewrite app_nil_r, P2. split; [exact S1|].
    destruct (ms_lastpub ms) as [[st pk]|]; [|exact S2].
    destruct S2 as (S3&S4&S5). split; [exact S3|]. rewrite P3. split; [|exact S5].
    rewrite P4; [exact S4|]. destruct HI as (_&_&HP&_). apply (pub_tf HP S3).
  - rewrite P2, S1. split; [reflexivity|]. split; [|auto]. destruct (b_published s); discriminate.
Qed.

(* ================================================================ Sim_cfg / Sim_fail *)
Definition Sim_cfg (s : bal) (ms : mstate) : Prop :=
  match ms_raw ms with
  | None => b_cfg s = None
  | Some r => b_cfg s = Some (effective r)
  end.

Definition Sim_fail (s : bal) (ms : mstate) : Prop := ms_fail ms = b_fail s.

Lemma step_cfg raw s o order s' outs r :
  Inv s -> step raw s o order = (s', outs, r) ->
  b_cfg s' = match b_cfg s with
             | Some c => Some c
             | None => match o with
                       | OpResolver _ CfgNil => Some (effective None)
                       | OpResolver _ CfgVal => Some (effective raw)
                       | _ => None
                       end
             end.
Proof.
  intros HI. assert (Hsame : b_cfg s' = b_cfg s -> b_cfg s' =
    match b_cfg s with Some c => Some c | None => None end) by (intros ->; destruct (b_cfg s); reflexivity).
  destruct o as [addrs a| |sc st|pi m hc rk dl cc|j oc rk|dt|j|f|g|k]; cbn [step].
  - rewrite UpdateClientConnState_eq. unfold ucc_init. sb.
    assert (G : forall s2 o2 c, b_cfg s2 = c ->
      (if (length (b_screfs s2) =? 0)%nat
       then let '(s3, _, o3) := addSubConn s2 in (s3, o2 ++ o3 ++ update_refr s3, RNone)
       else (s2, o2 ++ update_all s2, RNone)) = (s', outs, r) -> b_cfg s' = c).
    { intros s2 o2 c Hc. destruct (_ =? _)%nat; [|intros E; inv E; reflexivity].
      destruct (addSubConn s2) as [[s3 ok] o3] eqn:E3. intros E; inv E.
      apply addSubConn_views in E3. destruct E3 as [_ [H _]]. apply envview_inv in H. tauto. }
    destruct (b_cfg s) as [c|] eqn:Ec.
    + apply G. exact Ec.
    + destruct a.
      * destruct (initializeConfig (set_addrs s addrs) None) as [s2 o2] eqn:Ei. apply G.
        unfold initializeConfig in Ei. apply enforceMinSize_views in Ei. destruct Ei as [_ [H _]].
        apply envview_inv in H. destruct H as [H _]. exact H.
      * intros E; inv E. exact Ec.
      * destruct (initializeConfig (set_addrs s addrs) raw) as [s2 o2] eqn:Ei. apply G.
        unfold initializeConfig in Ei. apply enforceMinSize_views in Ei. destruct Ei as [_ [H _]].
        apply envview_inv in H. destruct H as [H _]. exact H.
  - intros E; inv E. destruct (b_cfg s'); reflexivity.
  - destruct (UpdateSubConnState s sc st order) as [s1 o1] eqn:E1. intros E; inv E.
    eapply UpdateSubConnState_Inv in E1; eauto. destruct E1 as [_ HF]. apply Hsame, (uf_cfg _ _ HF).
  - destruct (nth_error (b_published s) pi); [|intros E; inv E; destruct (b_cfg s'); reflexivity].
    destruct (_ && _); [intros E; inv E; destruct (b_cfg s'); reflexivity|].
    intros E. apply Pick_views in E. destruct E as [_ [H _]]. apply envview_inv in H. apply Hsame. tauto.
  - intros E. apply Done_views in E. destruct E as [_ [H _]]. apply envview_inv in H. apply Hsame. tauto.
  - destruct (0 <=? dt); intros E; inv E; apply Hsame; reflexivity.
  - destruct (nth_error (b_picks s) j); intros E; inv E; apply Hsame; reflexivity.
  - intros E; inv E; apply Hsame; reflexivity.
  - intros E; inv E; apply Hsame; reflexivity.
  - destruct (nth_error (b_parked s) k); [|intros E; inv E; apply Hsame; reflexivity].
    destruct (newSubConn _) as [s2 o2] eqn:En. intros E; inv E.
    apply newSubConn_views in En. destruct En as [_ [H _]]. apply envview_inv in H. apply Hsame. tauto.
Qed.

Lemma full_step_cfg raw s o order s' outs r ub :
  Inv s -> full_step raw s o order = (s', outs, r, ub) ->
  b_cfg s' = match b_cfg s with
             | Some c => Some c
             | None => match o with
                       | OpResolver _ CfgNil => Some (effective None)
                       | OpResolver _ CfgVal => Some (effective raw)
                       | _ => None
                       end
             end.
Proof.
  intros HI. rewrite full_step_eq.
  destruct (step raw s o order) as [[s1 outs1] r1] eqn:Es.
  destruct (resolve_blocked s1) as [s2 ub2] eqn:Er. intros E; inv E.
  destruct (step_Inv _ _ _ _ _ _ _ HI Es) as [HI1 _].
  destruct (resolve_blocked_spec _ _ _ HI1 Er) as [_ [Hm _]].
  apply mask_sp_views in Hm. destruct Hm as [_ Hm]. apply envview_inv in Hm. destruct Hm as [Hm _].
  rewrite Hm. eapply step_cfg; eauto.
Qed.

Lemma Sim_cfg_init : Sim_cfg init_bal ms_init.
Proof. reflexivity. Qed.

Lemma Sim_cfg_step raw s ms o order s' outs rt ub :
  Inv s -> Sim_cfg s ms -> full_step raw s o order = (s', outs, rt, ub) ->
  Sim_cfg s' (track raw ms (observe s) (mkEvent o outs rt ub (Some (observe s'))) (observe s')).
Proof.
  intros HI HS E.
  destruct (track_proj raw ms (observe s) (mkEvent o outs rt ub (Some (observe s'))) (observe s')) as (_&_&_&T&_).
  cbn [ev_op] in T. unfold Sim_cfg in *. rewrite T. rewrite (full_step_cfg _ _ _ _ _ _ _ _ HI E).
  unfold raw_in_force.
  destruct (ms_raw ms) as [r0|].
  - rewrite HS. reflexivity.
  - rewrite HS. unfold observe at 1. cbn [o_cfgset]. rewrite (full_step_cfg _ _ _ _ _ _ _ _ HI E), HS.
    destruct o as [addrs a| |sc st|pi m hc rk dl cc|j oc rk|dt|j|f|g|k]; try reflexivity.
    destruct a; reflexivity.
Qed.

(* the configuration in force agrees with the model's once it is set *)
Lemma Sim_cfg_in_force raw s ms o c :
  Sim_cfg s ms -> b_cfg s = Some c -> c = effective (raw_in_force raw ms o).
Proof.
  unfold Sim_cfg, raw_in_force. destruct (ms_raw ms); intros H1 H2; congruence.
Qed.

Lemma Sim_fail_init : Sim_fail init_bal ms_init.
Proof. reflexivity. Qed.

Lemma full_step_fail raw s o order s' outs r ub :
  Inv s -> full_step raw s o order = (s', outs, r, ub) ->
  b_fail s' = match o with OpFactory f => f | _ => b_fail s end.
Proof.
  intros HI. rewrite full_step_eq.
  destruct (step raw s o order) as [[s1 outs1] r1] eqn:Es.
  destruct (resolve_blocked s1) as [s2 ub2] eqn:Er. intros E; inv E.
  destruct (step_Inv _ _ _ _ _ _ _ HI Es) as [HI1 _].
  destruct (resolve_blocked_spec _ _ _ HI1 Er) as [_ [Hm _]].
  apply mask_sp_views in Hm. destruct Hm as [_ Hm]. apply envview_inv in Hm. destruct Hm as (_&_&_&_&Hm&_).
  rewrite Hm. clear Er Hm.
  destruct o as [addrs a| |sc st|pi m hc rk dl cc|j oc rk|dt|j|f|g|k]; cbn [step] in Es.
  - apply UpdateClientConnState_pubview in Es. tauto.
  - inv Es. reflexivity.
  - destruct (UpdateSubConnState s sc st order) as [s1' o1] eqn:E1. inv Es.
    eapply UpdateSubConnState_Inv in E1; eauto. destruct E1 as [_ HF]. apply (uf_fail _ _ HF).
  - destruct (nth_error (b_published s) pi); [|inv Es; reflexivity].
    destruct (_ && _); [inv Es; reflexivity|].
    apply Pick_views in Es. destruct Es as [_ [H _]]. apply envview_inv in H. tauto.
  - apply Done_views in Es. destruct Es as [_ [H _]]. apply envview_inv in H. tauto.
  - destruct (0 <=? dt); inv Es; reflexivity.
  - destruct (nth_error (b_picks s) j); inv Es; reflexivity.
  - inv Es; reflexivity.
  - inv Es; reflexivity.
  - destruct (nth_error (b_parked s) k); [|inv Es; reflexivity].
    destruct (newSubConn _) as [s2' o2] eqn:En. inv Es.
    apply newSubConn_views in En. destruct En as [_ [H _]]. apply envview_inv in H. tauto.
Qed.

Lemma Sim_fail_step raw s ms o order s' outs rt ub :
  Inv s -> Sim_fail s ms -> full_step raw s o order = (s', outs, rt, ub) ->
  Sim_fail s' (track raw ms (observe s) (mkEvent o outs rt ub (Some (observe s'))) (observe s')).
Proof.
  intros HI HS E.
  destruct (track_proj raw ms (observe s) (mkEvent o outs rt ub (Some (observe s'))) (observe s')) as (_&_&_&_&_&T).
  cbn [ev_op] in T. unfold Sim_fail in *. rewrite T, (full_step_fail _ _ _ _ _ _ _ _ HI E), HS. reflexivity.
Qed.

(* ================================================================ SimP: the monitor's picks mirror the model's *)
Definition mpick_of (p : pick) : mpick :=
  mkMpick (pk_slot p) (pk_cmd p) (pk_key p) (pk_hasctx p) (pk_locok p) (pk_deadline p) (pk_cancelled p)
          (pk_started p) (pk_status p).

Definition SimP (s : bal) (ms : mstate) : Prop := ms_picks ms = map mpick_of (b_picks s).

Lemma SimP_init : SimP init_bal ms_init.
Proof. reflexivity. Qed.

(* --- the slot of a connection, as the monitor computes it --- *)
Lemma index_from_spec {A} (p : A -> bool) (l : list A) : forall k i x,
  nth_error l i = Some x -> p x = true ->
  (forall j y, (j < i)%nat -> nth_error l j = Some y -> p y = false) ->
  index_from p l k = Some (k + i)%nat.
Proof.
  induction l as [|a r IH]; intros k i x Hi Hp Hlt; [destruct i; discriminate|].
  destruct i as [|i]; cbn in Hi.
  - inv Hi. cbn. rewrite Hp. f_equal. lia.
  - cbn. rewrite (Hlt 0%nat a) by (cbn; auto; lia).
    rewrite (IH (S k) i x Hi Hp).
    + f_equal. lia.
    + intros j y Hj Hy. apply (Hlt (S j) y); [lia|exact Hy].
Qed.

Lemma o_slot_of_conn_spec s i c :
  InvK s -> nth_error (conns s) i = Some c -> o_slot_of_conn (observe s) c = Some i.
Proof.
  intros HK Hi. unfold o_slot_of_conn, observe; cbn [o_slots].
  apply nth_error_map_Some in Hi. destruct Hi as [sl [Hs Hc]].
  change (Some i) with (Some (0 + i)%nat). eapply index_from_spec; [exact Hs|apply N.eqb_eq, Hc|].
  intros j y Hj Hy. apply N.eqb_neq. intros E.
  assert (nth_error (conns s) j = Some c) by (apply nth_error_map_Some; eauto).
  assert (nth_error (conns s) i = Some c) by (apply nth_error_map_Some; eauto).
  pose proof (NoDup_nth_error_inj _ _ _ _ (nd_conns HK) H H0). lia.
Qed.

(* --- the configuration the monitor uses is the model's --- *)
Lemma cfg_link raw s ms o c :
  Sim_cfg s ms -> b_cfg s = Some c -> cfg_methods s = c_methods (eff (raw_in_force raw ms o)) /\
                                      cfg_rr s = c_rr (eff (raw_in_force raw ms o)).
Proof.
  intros HS Hc. pose proof (Sim_cfg_in_force raw s ms o c HS Hc) as E.
  unfold cfg_methods, cfg_rr, eff. rewrite Hc, E. auto.
Qed.

(* --- picks are untouched by the balancer-side operations --- *)
Lemma UpdateClientConnState_picks s addrs a raw s' o r :
  Inv s -> UpdateClientConnState s addrs a raw = (s', o, r) -> b_picks s' = b_picks s.
Proof.
  intros HI. rewrite UpdateClientConnState_eq.
  destruct (ucc_init s addrs a raw) as [[s2 o2]|] eqn:E0; [|intros E; inv E; reflexivity].
  destruct (ucc_init_Inv _ _ _ _ _ _ HI E0) as [HI2 [Hc2 _]].
  assert (H02 : b_picks s2 = b_picks s).
  { unfold ucc_init in E0. sb. destruct (b_cfg s); [inv E0; reflexivity|].
    destruct a; try discriminate; inv E0.
    - destruct (initializeConfig (set_addrs s addrs) None) as [s3 o3] eqn:Ei. inv H0.
      apply initializeConfig_Inv in Ei; [|apply Inv_set_addrs, HI]. destruct Ei as [_ HF]. apply (gf_picks _ _ HF).
    - destruct (initializeConfig (set_addrs s addrs) raw) as [s3 o3] eqn:Ei. inv H0.
      apply initializeConfig_Inv in Ei; [|apply Inv_set_addrs, HI]. destruct Ei as [_ HF]. apply (gf_picks _ _ HF). }
  destruct (_ =? _)%nat; [|intros E; inv E; exact H02].
  destruct (addSubConn s2) as [[s3 ok] o3] eqn:E3. intros E; inv E.
  eapply addSubConn_Inv in E3; eauto. destruct E3 as [_ HF]. rewrite (gf_picks _ _ HF). exact H02.
Qed.

(* --- what a Pick appends --- *)
Definition pick_appends (s : bal) (method : N) (hasctx : bool) (reqkeys : list N) (deadline : option Z)
  (cancelled : bool) (s1 : bal) (r : ret) : Prop :=
  match r with
  | RPicked n =>
      exists key i, pick_keyres s method hasctx reqkeys = Some key /\
                    nth_error (conns s1) i = Some n /\
                    b_picks s1 = b_picks s ++ [pick_mk s method hasctx key deadline cancelled i PPlaced]
  | RBlocked =>
      exists key, pick_keyres s method hasctx reqkeys = Some key /\
                  cmd_eqb (pick_cmd0 s method) BIND && cfg_rr s = true /\
                  b_picks s1 = b_picks s ++ [pick_mk s method hasctx key deadline cancelled
                                                     (Z.to_nat (b_rr s1 mod Z.of_nat (length (b_slots s1)))) PBlocked]
  | _ => b_picks s1 = b_picks s
  end.

Lemma nth_conns_upd s i f j sl :
  (forall r, sl_conn (f r) = sl_conn r) -> nth_error (b_slots s) j = Some sl ->
  nth_error (map sl_conn (upd_nth i f (b_slots s))) j = Some (sl_conn sl).
Proof.
  intros Hf Hj. rewrite map_upd_nth_same by exact Hf. apply nth_error_map_Some. eauto.
Qed.

Lemma Pick_appends s pi pk method hasctx reqkeys deadline cancelled s1 o r :
  Inv s -> nth_error (b_published s) pi = Some pk ->
  Pick s pi pk method hasctx reqkeys deadline cancelled = (s1, o, r) ->
  pick_appends s method hasctx reqkeys deadline cancelled s1 r /\ b_now s1 = b_now s.
Proof.
  intros HI Hpk. rewrite Pick_eq.
  assert (Hc : b_cfg s <> None).
  { eapply InvG_cfg_pubs; [apply HI|eapply nth_error_nonnil, Hpk]. }
  destruct pk as [[|]|[|a l]]; try (intros E; inv E; split; reflexivity).
  assert (Hrefs : forall i, In i (a :: l) -> (i < length (b_slots s))%nat).
  { intros i Hi. destruct HI as (_&_&HP&_). eapply (pub_valid HP); eauto. eapply nth_error_In, Hpk. }
  destruct (pick_keyres s method hasctx reqkeys) as [key|] eqn:Ek; [|intros E; inv E; split; reflexivity].
  destruct (cmd_eqb _ BIND && cfg_rr s) eqn:Err.
  - unfold pick_rr. destruct (b_slots s) eqn:Esl; [intros E; inv E; split; reflexivity|]. clear Esl.
    unfold pick_rr_body. cbv zeta.
    destruct (get_slot _ _) as [sl|] eqn:Es; [|intros E; inv E; split; reflexivity].
    destruct (_ || _); intros E; inv E; (split; [|reflexivity]); unfold pick_appends.
    + exists key. eexists. split; [exact Ek|]. split; [|reflexivity].
      unfold incr_streams, upd_slot; sb. apply nth_conns_upd; [reflexivity|exact Es].
    + exists key. split; [exact Ek|]. split; [exact Err|]. sb. reflexivity.
  - unfold pick_lb. destruct (pick_dec s key (a :: l)) as [s2 dec] eqn:Ed.
    destruct (pick_dec_Inv _ _ _ _ _ HI Hrefs Ed) as [HI1 [[fb' ->] Hdec]].
    destruct dec as [i| |].
    + destruct (get_slot (set_fb s fb') i) as [sl|] eqn:Es; intros E; inv E; (split; [|reflexivity]); [|reflexivity].
      unfold pick_appends. exists key, i. split; [exact Ek|]. split; [|reflexivity].
      unfold incr_streams, upd_slot; sb. apply nth_conns_upd; [reflexivity|exact Es].
    + destruct (b_gate _); [intros E; inv E; split; reflexivity|].
      destruct (newSubConn (set_fb s fb')) as [s3 o3] eqn:En. intros E; inv E.
      eapply newSubConn_Inv in En; eauto. destruct En as [_ HF].
      split; [apply (gf_picks _ _ HF)|apply (gf_now _ _ HF)].
    + intros E; inv E. split; reflexivity.
Qed.

(* --- marking the unblocked picks --- *)
Definition mark_unblocked (now : Z) (l : list mpick) (ub : list (nat * N)) : list mpick :=
  fold_left (fun l jn => upd_nth (fst jn) (fun p => set_status p PPlaced now) l) ub l.

Lemma ub_fold_picks now ub : forall m, ms_picks (ub_fold now ub m) = mark_unblocked now (ms_picks m) ub.
Proof.
  unfold ub_fold, mark_unblocked. induction ub as [|jn r IH]; intros m; cbn [fold_left]; [reflexivity|].
  rewrite IH. reflexivity.
Qed.

Lemma mark_unblocked_spec s : forall ps pre,
  mark_unblocked (b_now s) (map mpick_of (pre ++ ps)) (unblocked_from s (length pre) ps) =
  map mpick_of (pre ++ map (resolve_pick s) ps).
Proof.
  induction ps as [|p r IH]; intros pre; cbn [unblocked_from map]; [reflexivity|].
  unfold resolve_pick at 1. destruct (resolvable s p) eqn:Er.
  - specialize (IH (pre ++ [unblock_pick (b_now s) p])).
    rewrite app_length in IH. cbn [length] in IH. rewrite Nat.add_1_r, <- !app_assoc in IH. cbn [app] in IH.
    etransitivity; [|exact IH].
    unfold mark_unblocked. cbn [app fold_left fst]. f_equal.
    rewrite !map_app. cbn [map]. rewrite <- (map_length mpick_of pre), upd_nth_app_mid. reflexivity.
  - cbn [app]. specialize (IH (pre ++ [p])).
    rewrite app_length in IH. cbn [length] in IH. rewrite Nat.add_1_r, <- !app_assoc in IH. exact IH.
Qed.

Lemma map_mpick_upd j (g : pick -> pick) (g' : mpick -> mpick) l :
  (forall p, mpick_of (g p) = g' (mpick_of p)) ->
  map mpick_of (upd_nth j g l) = upd_nth j g' (map mpick_of l).
Proof. intros H. apply map_upd_nth. exact H. Qed.

(* --- the monitor's view of a pick's method agrees with the model's --- *)
Lemma pick_fields_link raw s ms o c m hc rk :
  Sim_cfg s ms -> b_cfg s = Some c ->
  pick_cmd (raw_in_force raw ms o) m = pick_cmd0 s m /\
  pick_locok (raw_in_force raw ms o) m = pick_locok0 s m /\
  pick_key (raw_in_force raw ms o) m hc rk = pick_keyres s m hc rk /\
  is_rr_bind (raw_in_force raw ms o) m = cmd_eqb (pick_cmd0 s m) BIND && cfg_rr s.
Proof.
  intros HS Hc. destruct (cfg_link raw s ms o c HS Hc) as [E1 E2].
  unfold pick_cmd, pick_locok, pick_key, is_rr_bind, pick_cmd, method_of, pick_cmd0, pick_locok0, pick_keyres.
  rewrite E1, E2. repeat split; reflexivity.
Qed.

Lemma step_picks_other raw s o order s1 outs rt :
  Inv s -> step raw s o order = (s1, outs, rt) ->
  match o with OpPick _ _ _ _ _ _ | OpDone _ _ _ | OpCancel _ => True | _ => b_picks s1 = b_picks s end.
Proof.
  intros HI. destruct o as [addrs a| |sc st|pi m hc rk dl cc|j oc rk|dt|j|f|g|k]; cbn [step]; auto.
  - apply UpdateClientConnState_picks, HI.
  - intros E; inv E. reflexivity.
  - destruct (UpdateSubConnState s sc st order) as [s1' o1] eqn:E1. intros E; inv E.
    eapply UpdateSubConnState_Inv in E1; eauto. destruct E1 as [_ HF]. apply (uf_picks _ _ HF).
  - destruct (0 <=? dt); intros E; inv E; reflexivity.
  - intros E; inv E; reflexivity.
  - intros E; inv E; reflexivity.
  - destruct (nth_error (b_parked s) k) eqn:Ek; [|intros E; inv E; reflexivity].
    destruct (newSubConn _) as [s2 o2] eqn:En. intros E; inv E.
    assert (Hc : b_cfg s <> None) by (eapply InvG_cfg_parked; [apply HI|eapply nth_error_nonnil, Ek]).
    eapply newSubConn_Inv in En; [destruct En as [_ HF]; apply (gf_picks _ _ HF)|exact Hc|].
    apply Inv_set_parked; auto. intros pi Hpi. apply In_remove_nth in Hpi.
    destruct HI as (_&_&_&_&_&HS). apply (parked_valid HS), Hpi.
Qed.

Lemma SimP_step raw s ms o order s' outs rt ub :
  Inv s -> Sim_cfg s ms -> SimP s ms -> rt <> RBadOp ->
  full_step raw s o order = (s', outs, rt, ub) ->
  SimP s' (track raw ms (observe s) (mkEvent o outs rt ub (Some (observe s'))) (observe s')).
Proof.
  intros HI HC HP Hrt. rewrite full_step_eq.
  destruct (step raw s o order) as [[s1 outs1] r1] eqn:Es.
  destruct (resolve_blocked s1) as [s2 ub2] eqn:Er. intros E; inv E.
  destruct (step_Inv _ _ _ _ _ _ _ HI Es) as [HI1 _].
  destruct (resolve_blocked_spec _ _ _ HI1 Er) as [HI' [Hm [Hpk Hub]]].
  pose proof (f_equal b_now Hm) as Hnow. pose proof (f_equal b_rr Hm) as Hrr. cbn in Hnow, Hrr.
  pose proof (mask_sp_conns _ _ Hm) as Hcn.
  assert (Hlen : length (b_slots s') = length (b_slots s1)).
  { rewrite <- (map_length sl_conn (b_slots s')), Hcn, map_length. reflexivity. }
  unfold SimP. rewrite track_eq, ub_fold_picks. cbn [ev_ub ev_op].
  set (raw' := raw_in_force raw ms o).
  set (m1 := track_ms1 raw ms (observe s) (mkEvent o outs rt ub (Some (observe s'))) (observe s')).
  assert (Hm1 : ms_picks m1 = ms_picks ms).
  { unfold m1, track_ms1. destruct (track_addr _ _ _). reflexivity. }
  assert (H2 : ms_picks (track_ms2 raw' m1 (observe s) (mkEvent o outs rt ub (Some (observe s'))) (observe s'))
               = map mpick_of (b_picks s1)).
  { unfold track_ms2. cbn [ev_op ev_ret].
    pose proof (step_picks_other _ _ _ _ _ _ _ HI Es) as Hoth.
    destruct o as [addrs a| |sc st|pi m hc rk dl cc|j oc rk|dt|j|f|g|k];
      try (cbn [ms_picks ms_with_fail]; rewrite Hm1, HP, Hoth; reflexivity).
    - (* OpPick *)
      cbn [step] in Es. destruct (nth_error (b_published s) pi) as [pk|] eqn:Ep; [|inv Es; congruence].
      destruct (_ && _); [inv Es; congruence|].
      assert (Hcfg : exists c, b_cfg s = Some c).
      { destruct (b_cfg s) eqn:Ec; [eauto|]. exfalso.
        eapply InvG_cfg_pubs; [apply HI|eapply nth_error_nonnil, Ep|exact Ec]. }
      destruct Hcfg as [c Hcfg].
      destruct (pick_fields_link raw s ms (OpPick pi m hc rk dl cc) c m hc rk HC Hcfg) as (L1&L2&L3&L4).
      fold raw' in L1, L2, L3, L4.
      destruct (Pick_appends _ _ _ _ _ _ _ _ _ _ _ HI Ep Es) as [Happ Hn1].
      unfold pick_appends in Happ. destruct rt; try (rewrite Hm1, HP, Happ; reflexivity).
      + destruct Happ as [key [i [Hk [Hi Hpicks]]]].
        rewrite (o_slot_of_conn_spec s' i n); [|apply HI'|rewrite Hcn; exact Hi].
        cbn [ms_picks ms_with_picks]. rewrite Hm1, HP, Hpicks, map_app. f_equal. cbn [map]. f_equal.
        unfold mpick_of, pick_mk; sb. rewrite L1, L2, L3, Hk. cbn [observe o_now]. rewrite Hnow, Hn1. reflexivity.
      + destruct Happ as [key [Hk [_ Hpicks]]].
        cbn [ms_picks ms_with_picks]. rewrite Hm1, HP, Hpicks, map_app. f_equal. cbn [map]. f_equal.
        unfold mpick_of, pick_mk; sb. rewrite L1, L2, L3, Hk. cbn [observe o_now o_rr o_slots].
        rewrite Hnow, Hn1, Hrr, Hlen. reflexivity.
    - (* OpDone *)
      cbn [step] in Es. destruct (Done_picks _ _ _ _ _ _ _ Es Hrt) as [p [Hj [Hst Hpicks]]].
      rewrite Hm1, HP. rewrite (map_nth_error mpick_of _ _ Hj).
      assert (Hup : upd_nth j (fun p0 => set_status p0 PFinished (mp_started p0)) (map mpick_of (b_picks s)) =
                    map mpick_of (b_picks s1)).
      { rewrite Hpicks. symmetry. apply map_mpick_upd. reflexivity. }
      destruct oc; try (cbn [ms_picks ms_with_picks]; rewrite ?Hm1, ?HP; exact Hup).
      destruct (mp_cmd (mpick_of p)); try (cbn [ms_picks ms_with_picks ms_with_home]; rewrite ?Hm1, ?HP; exact Hup).
      destruct (mp_hasctx (mpick_of p) && mp_locok (mpick_of p) && o_slot_in_pool (observe s) (mp_slot (mpick_of p)));
        cbn [ms_picks ms_with_picks ms_with_home]; rewrite ?Hm1, ?HP; exact Hup.
    - (* OpCancel *)
      cbn [step] in Es. destruct (nth_error (b_picks s) j) as [p|] eqn:Ej; [|inv Es; congruence]. inv Es.
      cbn [ms_picks ms_with_picks]. rewrite Hm1, HP. sb. symmetry. apply map_mpick_upd. reflexivity. }
  rewrite H2, Hub. cbn [observe o_now]. rewrite Hnow.
  pose proof (mark_unblocked_spec s1 (b_picks s1) []) as Hmu. cbn [app length] in Hmu.
  rewrite Hmu, Hpk. reflexivity.
Qed.
