(* Known findings that are properties of the model (= of the code) shown by
   computation on a witness history; each witness is also a corpus history that
   is replayed on the implementation on every run. *)
From GV Require Import Pool.Model Pool.Observe Pool.Monitors.
Open Scope Z_scope.

Definition rr2_raw : option config :=
  Some (mkConfig 2 4 100 false 0 0 true [(1%N, mkMcfg BIND true)]).

Definition rr2_ops : list (op * list nat) :=
  [ (OpResolver 1 CfgVal, []); (OpConnState 0 Ready, []); (OpConnState 1 Ready, []);
    (OpConnState 0 Shutdown, []);
    (OpPick 2 1 true [] None false, []); (OpPick 2 1 true [] None false, []) ].

(* RR2: the shut-down channel 0 stays in the rotation: the first BIND call is
   assigned the dead slot and blocks; C09 proper (cursor arithmetic) holds. *)
Example C09_dead_slot_refuted :
  C09D_ok rr2_raw (observe init_bal) (run rr2_raw init_bal rr2_ops) = false /\
  C09_ok rr2_raw (observe init_bal) (run rr2_raw init_bal rr2_ops) = true /\
  known_RR2 rr2_raw (observe init_bal) (run rr2_raw init_bal rr2_ops) = true /\
  map ev_ret (run rr2_raw init_bal rr2_ops) = [RNone; RNone; RNone; RNone; RBlocked; RPicked 1].
Proof. vm_compute. repeat split; reflexivity. Qed.
