(* Engine A proofs: C03S -- the growth clause of C03 against the connection
   states REPORTED in the trace (not the implementation's own scStates).

   The monitor ([c03s_event], Pool/Monitors.v) keeps, from the trace alone, the
   last state reported for every connection ([rep]: Idle at creation, then what
   OpConnState says for connections it knows) and requires that a Pick / Resume
   that creates a connection happens only when no pool connection was last
   reported Idle or Connecting.

   Relation with the model (RepOK): for every pool connection the table agrees
   with b_scstates; every pool connection and every replacement connection of a
   refresh in flight has an entry.  Holds for every history, legal or not. *)
From GV Require Import Base.AListFacts Pool.Model Pool.Observe Pool.Monitors
                       Pool.Lemmas Pool.Inv Pool.Inv2 Pool.Frames
                       Pool.C03Outs Pool.C03Size.
From Coq Require Import Lia ZifyBool.
Open Scope Z_scope.

(* ================================================================ the relation *)
Definition repOK (st : list (N * cstate)) (refs refr : list (N * nat)) (rep : list (N * cstate)) : Prop :=
  (forall c i, aget refs c = Some i ->
               aget rep c = Some (match aget st c with Some x => x | None => Idle end)) /\
  (forall c i, aget refr c = Some i -> exists x, aget rep c = Some x).

Definition RepOK (s : bal) (rep : list (N * cstate)) : Prop :=
  repOK (b_scstates s) (b_screfs s) (b_refr s) rep.

Definition repview (s : bal) := (b_scstates s, b_screfs s, b_refr s).

Lemma RepOK_view s s' rep : repview s' = repview s -> RepOK s rep -> RepOK s' rep.
Proof. unfold repview, RepOK. intros H; inv H. rewrite H1, H2, H3. auto. Qed.

Lemma RepOK_init : RepOK init_bal [].
Proof. split; intros c i H; discriminate. Qed.

(* ================================================================ the table *)
Lemma rep_new_app a b rep : rep_new (a ++ b) rep = rep_new b (rep_new a rep).
Proof. revert rep. induction a as [|x r IH]; intros rep; cbn [app rep_new]; [reflexivity|]. destruct x; apply IH. Qed.

Lemma rep_new_nonews o rep : news o = [] -> rep_new o rep = rep.
Proof.
  revert rep. induction o as [|x r IH]; intros rep H; [reflexivity|].
  destruct x; cbn [rep_new]; try (apply IH; exact H); discriminate.
Qed.

Lemma news_of_count o : count_newsc o = 0%nat -> news o = [].
Proof.
  induction o as [|x r IH]; intros H; [reflexivity|].
  destruct x; try discriminate; apply IH; exact H.
Qed.

Lemma rep_new_quiet o rep : count_newsc o = 0%nat -> rep_new o rep = rep.
Proof. intros H. apply rep_new_nonews, news_of_count, H. Qed.

(* the state change of an operation, as far as the table is concerned *)
Definition rep_ext (s s' : bal) (o : list out) : Prop :=
  forall rep, RepOK s rep -> RepOK s' (rep_new o rep).

Lemma rep_ext_view s s' o : repview s' = repview s -> news o = [] -> rep_ext s s' o.
Proof. intros Hv Hq rep H. rewrite (rep_new_nonews o rep Hq). eapply RepOK_view; eauto. Qed.

Lemma rep_ext_refl s : rep_ext s s [].
Proof. intros rep H. exact H. Qed.

Lemma rep_ext_trans s1 s2 s3 o1 o2 : rep_ext s1 s2 o1 -> rep_ext s2 s3 o2 -> rep_ext s1 s3 (o1 ++ o2).
Proof. intros H1 H2 rep H. rewrite rep_new_app. apply H2, H1, H. Qed.

Lemma rep_ext_quiet_r s1 s2 o1 o2 : rep_ext s1 s2 o1 -> count_newsc o2 = 0%nat -> rep_ext s1 s2 (o1 ++ o2).
Proof. intros H1 Hq rep H. rewrite rep_new_app, (rep_new_quiet o2 _ Hq). apply H1, H. Qed.

Lemma rep_ext_from_view s0 s s' o : repview s0 = repview s -> rep_ext s0 s' o -> rep_ext s s' o.
Proof. intros Hv H rep HR. apply H. eapply RepOK_view; eauto. Qed.

(* ================================================================ the balancer-side functions *)
Lemma rep_ext_add_state s a : rep_ext s (add_state s) [ONewSC (b_next s) a; OConnect (b_next s)].
Proof.
  intros rep [R1 R2]. cbn [rep_new]. unfold RepOK, add_state; sb. split.
  - intros c i. rewrite !aget_aset. destruct (N.eqb_spec (b_next s) c) as [_|Hc]; [reflexivity|apply R1].
  - intros c i H. rewrite aget_aset. destruct (N.eqb (b_next s) c); [eauto|eapply R2, H].
Qed.

Lemma addSubConn_rep s s' ok o : addSubConn s = (s', ok, o) -> rep_ext s s' o.
Proof.
  intros E. destruct (addSubConn_cases s) as [[_ E']|[_ E']]; rewrite E' in E; inv E.
  - apply rep_ext_view; reflexivity.
  - apply rep_ext_add_state.
Qed.

Lemma enforceMinSize_rep s s' o : enforceMinSize s = (s', o) -> rep_ext s s' o.
Proof.
  revert s' o. apply (enforceMinSize_ind (fun s' o => rep_ext s s' o)); [apply rep_ext_refl|].
  intros s1 o1 s2 ok o2 H _ E. eapply rep_ext_trans; [exact H|eapply addSubConn_rep, E].
Qed.

Lemma newSubConn_rep s s' o : newSubConn s = (s', o) -> rep_ext s s' o.
Proof.
  intros E. apply newSubConn_cases in E. destruct E as [[-> ->]|[_ [_ [ok E]]]]; [apply rep_ext_refl|].
  eapply addSubConn_rep, E.
Qed.

Lemma ucc_tail_rep s2 o2 s' o r s : rep_ext s s2 o2 -> ucc_tail s2 o2 = (s', o, r) -> rep_ext s s' o.
Proof.
  intros H. unfold ucc_tail. destruct (_ =? _)%nat.
  - destruct (addSubConn s2) as [[s3 ok] o3] eqn:E3. intros E; inv E.
    eapply rep_ext_trans; [exact H|]. apply rep_ext_quiet_r; [eapply addSubConn_rep, E3|apply quiet_update_refr].
  - intros E; inv E. apply rep_ext_quiet_r; [exact H|apply quiet_update_all].
Qed.

Lemma UpdateClientConnState_rep s addrs a raw s' o r :
  UpdateClientConnState s addrs a raw = (s', o, r) -> rep_ext s s' o.
Proof.
  rewrite UpdateClientConnState_eq_tail. pose proof (ucc_init_cases s addrs a raw) as Hi.
  assert (G : forall rr, ucc_init s addrs a raw = Some (enforceMinSize (cfg_state s addrs rr)) ->
              match ucc_init s addrs a raw with
              | Some (s2, o2) => ucc_tail s2 o2
              | None => (set_addrs s addrs, [], RCfgErr)
              end = (s', o, r) -> rep_ext s s' o).
  { intros rr -> E. destruct (enforceMinSize (cfg_state s addrs rr)) as [s2 o2] eqn:E2.
    eapply ucc_tail_rep; [|exact E]. apply (rep_ext_from_view (cfg_state s addrs rr)); [reflexivity|].
    eapply enforceMinSize_rep, E2. }
  destruct (b_cfg s).
  - rewrite Hi. apply ucc_tail_rep. apply rep_ext_view; reflexivity.
  - destruct a.
    + exact (G None Hi).
    + rewrite Hi. intros E; inv E. apply rep_ext_view; reflexivity.
    + exact (G raw Hi).
Qed.

(* ================================================================ Pick *)
Lemma getReadySubConnRef_repview s key s' r found :
  getReadySubConnRef s key = (s', r, found) -> repview s' = repview s.
Proof.
  intros E. pose proof (getReadySubConnRef_poolview _ _ _ _ _ E) as H1.
  pose proof (getReadySubConnRef_refr _ _ _ _ _ E) as H2. unfold poolview in H1. unfold repview. inv H1. congruence.
Qed.

Lemma Pick_rep s pi pk m hc rk dl cc s' o r :
  Inv s -> nth_error (b_published s) pi = Some pk -> Pick s pi pk m hc rk dl cc = (s', o, r) ->
  (repview s' = repview s /\ o = []) \/
  exists s0, repview s0 = repview s /\ newSubConn s0 = (s', o).
Proof.
  intros HI Hpk. rewrite Pick_eq.
  destruct pk as [[|]|[|a l]]; try (intros E; inv E; left; split; reflexivity).
  assert (Hrefs : forall i, In i (a :: l) -> (i < length (b_slots s))%nat).
  { intros i Hi. destruct HI as (_&_&HP&_). eapply (pub_valid HP); eauto. eapply nth_error_In, Hpk. }
  destruct (pick_keyres s m hc rk) as [key|]; [|intros E; inv E; left; split; reflexivity].
  destruct (_ && _).
  - unfold pick_rr. destruct (b_slots s); [intros E; inv E; left; split; reflexivity|].
    unfold pick_rr_body. cbv zeta. destruct (get_slot _ _); [|intros E; inv E; left; split; reflexivity].
    destruct (_ || _); intros E; inv E; left; split; reflexivity.
  - unfold pick_lb. destruct (pick_dec s key (a :: l)) as [s1 dec] eqn:Ed.
    destruct (pick_dec_Inv _ _ _ _ _ HI Hrefs Ed) as [_ [[fb' ->] _]].
    destruct dec as [i| |].
    + destruct (get_slot _ i); intros E; inv E; left; split; reflexivity.
    + destruct (b_gate _); [intros E; inv E; left; split; reflexivity|].
      destruct (newSubConn (set_fb s fb')) as [s2 o2] eqn:En. intros E; inv E.
      right. exists (set_fb s fb'). split; [reflexivity|exact En].
    + intros E; inv E; left; split; reflexivity.
Qed.

(* ================================================================ Done *)
Lemma refresh_rep s i s' o : InvK s -> refresh s i = (s', o) -> rep_ext s s' o.
Proof.
  intros HK E. destruct (refresh_cases s i) as [[E' _]|[r [Es [Er [[_ E']|[_ E']]]]]];
    rewrite E' in E; inv E; try (apply rep_ext_view; reflexivity).
  pose proof (next_fresh_screfs s HK) as F.
  intros rep [R1 R2]. cbn [rep_new]. unfold RepOK, refresh_ok_state; sb. split.
  - intros c j H. rewrite aget_aset. destruct (N.eqb_spec (b_next s) c) as [<-|Hc]; [congruence|eapply R1, H].
  - intros c j. rewrite !aget_aset. destruct (N.eqb (b_next s) c); [eauto|apply R2].
Qed.

Lemma detectUnresponsive_rep s p oc s' o : Inv s -> detectUnresponsive s p oc = (s', o) -> rep_ext s s' o.
Proof.
  intros HI. unfold detectUnresponsive.
  destruct (negb (b_undet s)); [intros E; inv E; apply rep_ext_refl|].
  destruct (negb _); [intros E; inv E; apply rep_ext_view; reflexivity|].
  destruct (get_slot s (pk_slot p)) as [r|]; [|intros E; inv E; apply rep_ext_refl].
  destruct (pk_started p <? sl_last r); [intros E; inv E; apply rep_ext_refl|].
  destruct (_ && _); [|intros E; inv E; apply rep_ext_view; reflexivity].
  intros E. apply refresh_rep in E.
  - eapply rep_ext_from_view; [|exact E]. reflexivity.
  - apply (Inv_upd_slot_same s (pk_slot p)); auto.
Qed.

Lemma done_bind_repview s2 p oc rk : repview (done_bind s2 p oc rk) = repview s2.
Proof.
  pose proof (done_bind_poolview s2 p oc rk) as H1. pose proof (done_bind_refr s2 p oc rk) as H2.
  unfold poolview in H1. unfold repview. inv H1. congruence.
Qed.

Lemma Done_rep s j oc rk s' o r : Inv s -> Done s j oc rk = (s', o, r) -> rep_ext s s' o.
Proof.
  intros HI. rewrite Done_eq. destruct (nth_error (b_picks s) j) as [p|] eqn:Ej; [|intros E; inv E; apply rep_ext_refl].
  destruct (pk_status p) eqn:Est; try (intros E; inv E; apply rep_ext_refl).
  destruct (detectUnresponsive (done_s1 s j p) p oc) as [s2 o2] eqn:Ed. intros E; inv E.
  apply detectUnresponsive_rep in Ed; [|apply done_s1_Inv; auto].
  intros rep HR. eapply RepOK_view; [apply done_bind_repview|]. apply Ed.
  eapply RepOK_view; [|exact HR]. reflexivity.
Qed.

(* ================================================================ a reported connection state *)
Definition rep_report (rep : list (N * cstate)) (sc : N) (st : cstate) : list (N * cstate) :=
  match aget rep sc with Some _ => aset rep sc st | None => rep end.

Lemma rep_report_other rep sc st c : c <> sc -> aget (rep_report rep sc st) c = aget rep c.
Proof. intros H. unfold rep_report. destruct (aget rep sc); [rewrite aget_aset_neq; auto|reflexivity]. Qed.

Lemma rep_report_known rep sc st x : aget rep sc = Some x -> aget (rep_report rep sc st) sc = Some st.
Proof. intros H. unfold rep_report. rewrite H. apply aget_aset_eq. Qed.

Lemma rep_report_keeps rep sc st c x : aget rep c = Some x -> exists y, aget (rep_report rep sc st) c = Some y.
Proof.
  intros H. destruct (N.eq_dec c sc) as [->|Hc].
  - erewrite rep_report_known; eauto.
  - rewrite rep_report_other; eauto.
Qed.

(* the report concerns a connection outside the pool and changes nothing in the model *)
Lemma RepOK_report_outside s rep sc st :
  aget (b_screfs s) sc = None -> RepOK s rep -> RepOK s (rep_report rep sc st).
Proof.
  intros Hsc [R1 R2]. split.
  - intros c i H. rewrite rep_report_other; [eapply R1, H|congruence].
  - intros c i H. destruct (R2 c i H) as [x Hx]. eapply rep_report_keeps, Hx.
Qed.

Lemma usc_tail_repview s1 o1 sc st oldS order s' o' :
  usc_tail s1 o1 sc st oldS order = (s', o') ->
  b_scstates s' = b_scstates (usc_s3 s1 sc st) /\ b_screfs s' = b_screfs (usc_s3 s1 sc st) /\
  b_refr s' = b_refr s1.
Proof.
  unfold usc_tail. rewrite usc_fin_cases. cbv zeta.
  destruct (usc_s5_frame s1 sc st oldS) as (_&_&_&_&E5&E6&_&_&_&_&_&_&_&E14&_).
  destruct (pub_cond _ _ _ _); intros E; inv E; sb; auto.
Qed.

(* the tail of UpdateSubConnState on a connection the balancer knows *)
Lemma usc_tail_rep s1 o1 sc st oldS order s' o' rep :
  Inv s1 -> aget (b_scstates s1) sc = Some oldS -> RepOK s1 rep ->
  usc_tail s1 o1 sc st oldS order = (s', o') -> RepOK s' (rep_report rep sc st).
Proof.
  intros HI Hold [R1 R2] E. destruct (usc_tail_repview _ _ _ _ _ _ _ _ E) as (E1&E2&E3).
  destruct (scstates_screfs s1 (proj1 HI) _ _ Hold) as [i0 Hi0].
  pose proof (R1 _ _ Hi0) as Hknown.
  unfold RepOK. rewrite E1, E2, E3. split.
  - intros c i H. destruct (N.eq_dec c sc) as [->|Hc].
    + rewrite (tail_refs3_sc s1 sc st) in H. rewrite (tail_st3_sc s1 sc st).
      destruct (cstate_eqb st Shutdown); [discriminate|]. eapply rep_report_known, Hknown.
    + rewrite (tail_refs3 s1 sc st c Hc) in H. rewrite (tail_st3 s1 sc st c Hc).
      rewrite rep_report_other by exact Hc. eapply R1, H.
  - intros c i H. destruct (R2 c i H) as [x Hx]. eapply rep_report_keeps, Hx.
Qed.

Lemma usc_after_rep s1 o1 sc st order s' o' rep :
  Inv s1 -> RepOK s1 rep -> usc_after s1 o1 sc st order = (s', o') -> RepOK s' (rep_report rep sc st).
Proof.
  intros HI HR. unfold usc_after. destruct (aget (b_scstates s1) sc) as [oldS|] eqn:Eo.
  - eapply usc_tail_rep; eauto.
  - intros E; inv E. apply RepOK_report_outside; [|exact HR].
    destruct (aget (b_screfs s') sc) as [i|] eqn:Er; [|reflexivity].
    destruct (screfs_scstates s' (proj1 HI) _ _ Er) as [x Hx]. congruence.
Qed.

(* the swap: the replacement enters the pool with the state its channel had;
   the READY report that follows is recorded by [usc_after_rep] *)
Lemma swap_rep s sc i ref rep :
  Inv s -> aget (b_refr s) sc = Some i -> get_slot s i = Some ref -> RepOK s rep ->
  exists rep0, RepOK (swap_state s sc i ref) rep0 /\ rep_report rep0 sc Ready = rep_report rep sc Ready.
Proof.
  intros HI Hr Hs [R1 R2].
  pose proof (swap_ne s sc i ref HI Hr Hs) as Hne. pose proof (swap_sc_refs s sc i HI Hr) as Hsr.
  destruct (R2 _ _ Hr) as [x Hx].
  set (inh := match aget (b_scstates s) (sl_conn ref) with Some y => y | None => Idle end).
  exists (aset rep sc inh). split.
  - unfold RepOK, swap_state; sb. fold inh. split.
    + intros c j. rewrite aget_aset. destruct (N.eqb_spec sc c) as [<-|Hc].
      * intros _. rewrite aget_adel_neq, !aget_aset_eq by auto. reflexivity.
      * rewrite aget_adel. destruct (N.eqb_spec (sl_conn ref) c) as [_|Hc']; [discriminate|].
        intros H. rewrite aget_adel_neq, !aget_aset_neq by auto. eapply R1, H.
    + intros c j. rewrite aget_adel. destruct (N.eqb_spec sc c) as [_|Hc]; [discriminate|].
      intros H. rewrite aget_aset_neq by auto. eapply R2, H.
  - unfold rep_report. rewrite aget_aset_eq, Hx.
    clear. induction rep as [|[k v] r IH]; cbn [aset]; [rewrite N.eqb_refl; reflexivity|].
    destruct (N.eqb_spec k sc) as [->|Hk]; cbn [aset]; [rewrite N.eqb_refl; reflexivity|].
    destruct (N.eqb_spec k sc); [congruence|]. rewrite IH. reflexivity.
Qed.

Lemma UpdateSubConnState_rep s sc st order s' o rep :
  Inv s -> RepOK s rep -> UpdateSubConnState s sc st order = (s', o) -> RepOK s' (rep_report rep sc st).
Proof.
  intros HI HR. rewrite UpdateSubConnState_cases.
  destruct (aget (b_refr s) sc) as [i|] eqn:Er.
  2:{ intros E. exact (usc_after_rep s [] sc st order s' o rep HI HR E). }
  destruct (cstate_eqb_spec st Ready) as [->|Hne]; cbn [negb].
  2:{ intros E; inv E. apply RepOK_report_outside; [|exact HR].
      exact (refr_not_screfs s' (proj1 HI) sc i Er). }
  destruct (get_slot s i) as [ref|] eqn:Es.
  2:{ intros E. exact (usc_after_rep s [] sc Ready order s' o rep HI HR E). }
  intros E. destruct (swap_rep s sc i ref rep HI Er Es HR) as [rep0 [HR0 Eq]]. rewrite <- Eq.
  exact (usc_after_rep _ _ sc Ready order s' o rep0 (swap_Inv s sc i ref HI Er Es) HR0 E).
Qed.

(* ================================================================ one step *)
Lemma rep_track_other rep ev :
  (forall sc st, ev_op ev <> OpConnState sc st) -> rep_track rep ev = rep_new (ev_out ev) rep.
Proof. intros H. unfold rep_track. destruct (ev_op ev); try reflexivity. exfalso. eapply H; reflexivity. Qed.

Lemma step_rep raw s o order s1 outs rt ub ob rep :
  Inv s -> RepOK s rep -> step raw s o order = (s1, outs, rt) ->
  RepOK s1 (rep_track rep (mkEvent o outs rt ub ob)).
Proof.
  intros HI HR.
  destruct o as [addrs a| |sc st|pi m hc rk dl cc|j oc rk|dt|j|f|g|k]; cbn [step];
    try (rewrite rep_track_other by (cbn [ev_op]; discriminate); cbn [ev_out]).
  - intros E. eapply UpdateClientConnState_rep; eauto.
  - intros E; inv E. exact HR.
  - destruct (UpdateSubConnState s sc st order) as [s2 o2] eqn:E1. intros E; inv E.
    unfold rep_track. cbn [ev_op ev_out]. fold (rep_report rep sc st).
    destruct (UpdateSubConnState_c03 _ _ _ _ _ _ HI E1) as (Hn&_).
    rewrite (rep_new_quiet _ _ Hn). eapply UpdateSubConnState_rep; eauto.
  - destruct (nth_error (b_published s) pi) as [pk|] eqn:Ep; [|intros E; inv E; exact HR].
    destruct (_ && _); [intros E; inv E; exact HR|]. intros E.
    destruct (Pick_rep _ _ _ _ _ _ _ _ _ _ _ HI Ep E) as [[Hv ->]|[s0 [Hv En]]].
    + eapply RepOK_view; eauto.
    + apply (newSubConn_rep _ _ _ En). eapply RepOK_view; [|exact HR]. exact Hv.
  - intros E. eapply Done_rep; eauto.
  - destruct (0 <=? dt); intros E; inv E; exact HR.
  - destruct (nth_error (b_picks s) j); intros E; inv E; exact HR.
  - intros E; inv E; exact HR.
  - intros E; inv E; exact HR.
  - destruct (nth_error (b_parked s) k); [|intros E; inv E; exact HR].
    destruct (newSubConn _) as [s2 o2] eqn:En. intros E; inv E.
    apply (newSubConn_rep _ _ _ En). eapply RepOK_view; [|exact HR]. reflexivity.
Qed.

(* ================================================================ the check *)
Definition rep_settled (rep : list (N * cstate)) (kv : N * nat) : bool :=
  match aget rep (fst kv) with
  | Some Idle | Some Connecting | None => false
  | _ => true
  end.

Lemma settled_holds s rep :
  Inv s -> RepOK s rep -> existsb busy_conn (b_scstates s) = false ->
  forallb (rep_settled rep) (o_refs (observe s)) = true.
Proof.
  intros HI [R1 _] Hb. cbn [observe o_refs]. rewrite forallb_asort. apply forallb_forall. intros [c i] Hin.
  apply (In_aget _ _ _ (nd_screfs (proj1 HI))) in Hin. unfold rep_settled. cbn [fst]. rewrite (R1 _ _ Hin).
  destruct (screfs_scstates s (proj1 HI) _ _ Hin) as [x Hx]. rewrite Hx.
  assert (Hnb : busy_conn (c, x) = false).
  { destruct (busy_conn (c, x)) eqn:Eb; [|reflexivity].
    assert (existsb busy_conn (b_scstates s) = true) by (apply existsb_exists; exists (c, x); split; [apply aget_In, Hx|exact Eb]).
    congruence. }
  unfold busy_conn in Hnb. cbn [snd] in Hnb. destruct x; try reflexivity; discriminate.
Qed.

Lemma newSubConn_settled s0 s s' o rep :
  repview s0 = repview s -> Inv s -> RepOK s rep -> newSubConn s0 = (s', o) -> has_newsc o = true ->
  forallb (rep_settled rep) (o_refs (observe s)) = true.
Proof.
  intros Hv HI HR En Hn. apply newSubConn_cases in En. destruct En as [[_ ->]|[_ [Hb _]]]; [discriminate|].
  apply settled_holds; auto. assert (H0 : b_scstates s0 = b_scstates s) by (unfold repview in Hv; congruence).
  rewrite <- H0. exact Hb.
Qed.

Lemma c03s_event_holds raw s o order s1 outs rt ub ob rep :
  Inv s -> RepOK s rep -> step raw s o order = (s1, outs, rt) ->
  c03s_event rep (observe s) (mkEvent o outs rt ub ob) = true.
Proof.
  intros HI HR Es. unfold c03s_event. cbn [ev_op ev_out]. fold (rep_settled rep).
  destruct o as [addrs a| |sc st|pi m hc rk dl cc|j oc rk|dt|j|f|g|k]; try reflexivity; cbn [step] in Es.
  - destruct (has_newsc outs) eqn:Hn; [|reflexivity].
    destruct (nth_error (b_published s) pi) as [pk|] eqn:Ep; [|inv Es; discriminate].
    destruct (_ && _); [inv Es; discriminate|].
    destruct (Pick_rep _ _ _ _ _ _ _ _ _ _ _ HI Ep Es) as [[_ ->]|[s0 [Hv En]]]; [discriminate|].
    eapply newSubConn_settled; eauto.
  - destruct (has_newsc outs) eqn:Hn; [|reflexivity].
    destruct (nth_error (b_parked s) k); [|inv Es; discriminate].
    destruct (newSubConn _) as [s2 o2] eqn:En. inv Es.
    eapply newSubConn_settled; [|exact HI|exact HR|exact En|exact Hn]. reflexivity.
Qed.

(* ================================================================ the theorem *)
Lemma c03s_from_run raw : forall ops s rep,
  Inv s -> RepOK s rep -> c03s_from rep (observe s) (run raw s ops) = true.
Proof.
  induction ops as [|[o order] r IH]; intros s rep HI HR; cbn [run c03s_from]; [reflexivity|].
  destruct (full_step raw s o order) as [[[s' outs] rt] ub] eqn:E. cbn [c03s_from ev_obs].
  pose proof E as E0. rewrite full_step_eq in E0.
  destruct (step raw s o order) as [[s1 outs1] r1] eqn:Es.
  destruct (resolve_blocked s1) as [s2 ub2] eqn:Er. inv E0.
  destruct (step_Inv _ _ _ _ _ _ _ HI Es) as [HI1 _].
  destruct (resolve_blocked_spec _ _ _ HI1 Er) as [HI' [Hm _]].
  apply andb_true_iff. split.
  - eapply c03s_event_holds; eauto.
  - apply IH; [exact HI'|].
    eapply RepOK_view; [exact (f_equal repview Hm)|].
    exact (step_rep raw s o order s1 _ _ _ _ rep HI HR Es).
Qed.

(* every history, harness-legal or not *)
Theorem C03S_holds_proof raw ops : C03S_ok raw (observe init_bal) (run raw init_bal ops) = true.
Proof. unfold C03S_ok. apply c03s_from_run; [exact Inv_init|exact RepOK_init]. Qed.
