From GV Require Import Pool.Model Pool.Observe Pool.Monitors Pool.Reduce Pool.Inv
                       Pool.C03Size Pool.C03Pick Pool.C03Step Pool.InvC03 Pool.InvC03S.

(* C03: the pool holds max(1, minSize) connections right after the first accepted
   resolver update (non-empty address list, working factory); only a load-routed
   call whose whole snapshot is at or above the watermark creates a connection,
   exactly one, and only while the pool is below maxSize and no connection is
   idle or connecting -- also when the call is parked between its two critical
   sections and resumed later; at maxSize such a call is placed; a resolver
   update creates connections only into an empty pool; a completion creates at
   most one (the replacement of a refresh); connections are removed only as the
   old connection of a completed refresh.

   The size bound  size <= maxSize (for minSize <= maxSize)  is FALSE of the model
   and of the code when a refresh completes after its old connection was shut
   down and the pool has regrown (known finding RES, "revival").  Therefore:
     C03R_holds  every harness-legal history: the bound relaxed by one per revival so far (P03R)
     C03_holds   every harness-legal history without a revival: the strict monitor (P03)
     C03_revival_refuted  a legal history on which P03 is false.
   legal: no event returns RBadOp (needed only for Picks: a Pick on a picker whose
   mutex a parked Pick holds would wait; the model answers RBadOp and the
   harness never issues it, see c03_illegal_pick).  wf_raw: the configuration's
   numeric fields are uint32 (only 0 <= minSize is used, see c03_negative_min). *)
Theorem C03R_holds : forall raw ops,
  legal raw ops -> wf_raw raw ->
  monitor P03R raw (observe init_bal) (run raw init_bal ops) = true.
Proof. exact C03R_holds_proof. Qed.
Print Assumptions C03R_holds.

Theorem C03_holds : forall raw ops,
  legal raw ops -> wf_raw raw -> no_revival raw ops ->
  monitor P03 raw (observe init_bal) (run raw init_bal ops) = true.
Proof. exact C03_holds_proof. Qed.
Print Assumptions C03_holds.

(* the guards at their weakest: minSize not negative; no Pick answered RBadOp *)
Theorem C03R_holds_pick_legal : forall raw ops,
  min_nonneg raw -> Forall pick_legal (run raw init_bal ops) ->
  monitor P03R raw (observe init_bal) (run raw init_bal ops) = true.
Proof. exact C03R_pick_legal. Qed.
Print Assumptions C03R_holds_pick_legal.

(* the revival witness [res_raw], [res_ops] (InvC03.v) is corpus/pool/known_res.hist *)
Example C03_revival_refuted :
  exists raw ops, legal raw ops /\ monitor P03 raw (observe init_bal) (run raw init_bal ops) = false.
Proof. exists res_raw, res_ops. split; [apply legal_b_sound|]; vm_compute; reflexivity. Qed.

(* the same history in detail: connection 0 is refreshed (replacement 1), shut
   down, the pool regrows to maxSize = 2 (connections 2 and 3), then the
   replacement becomes READY and its channel is swapped back in: 3 connections *)
Example c03_revival_witness :
  let tr := run res_raw init_bal res_ops in
  map ev_ret tr = [RNone; RNone; RPicked 0; RNone; RNone; RNone; RNone; RNone; RPicked 2; RNoSubConn; RNone; RNone] /\
  map (fun s => pool_size s) (run_states res_raw init_bal res_ops) = [0; 1; 1; 1; 1; 1; 0; 1; 1; 1; 2; 2; 3]%Z /\
  run_revivals res_raw init_bal res_ops = 1%Z /\
  has_resurrection (observe init_bal) tr = true /\
  monitor P03 res_raw (observe init_bal) tr = false /\
  monitor P03R res_raw (observe init_bal) tr = true /\
  known_RES res_raw (observe init_bal) tr = true.
Proof. vm_compute. repeat split; reflexivity. Qed.

(* state-level theorems (every reachable state / every step of the model, hence
   every interleaving of the modelled critical sections, parked Picks included) *)
Theorem C03_init_size : forall raw s addrs a s' o r,
  min_nonneg raw -> Inv s -> b_cfg s = None -> b_fail s = false -> addrs <> 0%N ->
  UpdateClientConnState s addrs a raw = (s', o, r) -> b_cfg s' <> None ->
  exists c, b_cfg s' = Some c /\ c = effective (match a with CfgVal => raw | _ => None end) /\
            pool_size s' = c_min c /\
            c_min c = Z.max 1 (match a, raw with CfgVal, Some c0 => c_min c0 | _, _ => 0%Z end).
Proof. exact init_size. Qed.
Print Assumptions C03_init_size.

Theorem C03_growth_only_when_saturated : forall raw s o order s1 outs rt,
  Inv s -> CfgWf s -> step raw s o order = (s1, outs, rt) -> (pool_size s < pool_size s1)%Z ->
  match o with
  | OpResolver _ _ => pool_size s = 0%Z
  | OpConnState _ _ => revives s o = true /\ pool_size s1 = (pool_size s + 1)%Z
  | OpPick pi m hc rk _ _ =>
      exists refs, nth_error (b_published s) pi = Some (PSnap refs) /\
                   load_routed s m hc rk = true /\ saturated s refs /\ may_grow s /\
                   b_gate s = false /\ rt = RNoSubConn /\ pool_size s1 = (pool_size s + 1)%Z
  | OpResume _ => may_grow s /\ rt = RNoSubConn /\ pool_size s1 = (pool_size s + 1)%Z
  | _ => False
  end.
Proof. exact growth_only_when_saturated. Qed.
Print Assumptions C03_growth_only_when_saturated.

Theorem C03_size_bound : forall raw ops,
  min_nonneg raw -> SizeOK (run_revivals raw init_bal ops) (run_state raw init_bal ops).
Proof. exact size_bound. Qed.
Print Assumptions C03_size_bound.

Theorem C03_size_bound_no_revival : forall raw ops,
  min_nonneg raw -> no_revival raw ops ->
  forall c, b_cfg (run_state raw init_bal ops) = Some c -> (c_min c <= c_max c)%Z ->
            (pool_size (run_state raw init_bal ops) <= c_max c)%Z.
Proof. exact size_bound_no_revival. Qed.
Print Assumptions C03_size_bound_no_revival.

Theorem C03_size_bound_step : forall raw s o order s' outs rt ub,
  min_nonneg raw -> Inv s -> CfgWf s -> revives s o = false ->
  SizeOK 0 s -> full_step raw s o order = (s', outs, rt, ub) -> SizeOK 0 s'.
Proof. exact size_bound_step. Qed.
Print Assumptions C03_size_bound_step.

Theorem C03_remove_only_swapped : forall raw s o order s1 outs rt,
  Inv s -> step raw s o order = (s1, outs, rt) ->
  removes outs = [] \/
  exists sc i ref, o = OpConnState sc Ready /\ aget (b_refr s) sc = Some i /\ get_slot s i = Some ref /\
                   removes outs = [sl_conn ref].
Proof. exact remove_only_swapped. Qed.
Print Assumptions C03_remove_only_swapped.

(* non-vacuity: min 1, max 3, watermark 1.  The pool grows by saturation (events 3
   and 9); a call on the old picker is parked in its first critical section
   while the pool holds 2 < 3 connections (event 7); the pool reaches maxSize;
   the parked call resumes, re-checks the size under the lock and creates nothing *)
Example c03_growth_history :
  let raw := Some (mkConfig 1 3 1 false 0 0 false []) in
  let pk0 := OpPick 0 0 false [] None false in
  let pk1 := OpPick 1 0 false [] None false in
  let ops := [(OpResolver 1 CfgVal, []); (OpConnState 0 Ready, []); (pk0, []); (pk0, []);
              (OpConnState 1 Ready, []); (pk1, []); (OpGate true, []); (pk0, []); (OpGate false, []);
              (pk1, []); (OpResume 0, [])] in
  let tr := run raw init_bal ops in
  legal_b raw ops = true /\
  map ev_ret tr = [RNone; RNone; RPicked 0; RNoSubConn; RNone; RPicked 1; RNone; RParked; RNone; RNoSubConn; RNoSubConn] /\
  map (fun s => pool_size s) (run_states raw init_bal ops) = [0; 1; 1; 1; 2; 2; 2; 2; 2; 2; 3; 3]%Z /\
  map (fun ev => count_newsc (ev_out ev)) tr = [1; 0; 0; 1; 0; 0; 0; 0; 0; 1; 0]%nat /\
  has_resurrection (observe init_bal) tr = false /\
  monitor P03 raw (observe init_bal) tr = true /\ monitor P03R raw (observe init_bal) tr = true.
Proof. vm_compute. repeat split; reflexivity. Qed.

(* the monitor rejects a pool above maxSize without a revival: a third connection
   created at max = 2 *)
Example c03_bad_above_max :
  let raw := Some (mkConfig 1 2 1 false 0 0 false []) in
  let sl c n := mkSlot c 0 n 0 0 false 0 in
  let o1 := mkObs true 1 2 0 0 Ready [] [] [(0%N, Ready); (1%N, Ready)] [(0%N, 0%nat); (1%N, 1%nat)]
                  [sl 0%N 1%Z; sl 1%N 1%Z] 4294967295 [] false (PSnap [0; 1]%nat) 1 0 true in
  let o2 := mkObs true 1 2 0 0 Ready [] [] [(0%N, Ready); (1%N, Ready); (2%N, Idle)]
                  [(0%N, 0%nat); (1%N, 1%nat); (2%N, 2%nat)]
                  [sl 0%N 1%Z; sl 1%N 1%Z; sl 2%N 0%Z] 4294967295 [] false (PSnap [0; 1]%nat) 1 0 true in
  let ms := mkMstate [PSnap [0; 1]%nat] (Some (Ready, PSnap [0; 1]%nat)) [] [] [] [] false (Some raw) 0 in
  let ev := mkEvent (OpPick 0 0 false [] None false) [ONewSC 2 1; OConnect 2] RNoSubConn [] (Some o2) in
  mon_from P03R raw ms o1 [ev] = false /\ mon_from P03 raw ms o1 [ev] = false /\ has_resurrection o1 [ev] = false.
Proof. vm_compute. repeat split; reflexivity. Qed.

(* why [legal]: a Pick on a picker whose mutex a parked Pick holds (answered RBadOp
   by the model, never issued by the harness) at maxSize is not placed *)
Example c03_illegal_pick :
  let raw := Some (mkConfig 1 2 1 false 0 0 false []) in
  let pk0 := OpPick 0 0 false [] None false in
  let ops := [(OpResolver 1 CfgVal, []); (OpConnState 0 Ready, []); (pk0, []); (OpGate true, []); (pk0, []);
              (OpGate false, []); (OpConnState 0 TransientFailure, []); (OpConnState 0 Ready, []);
              (OpPick 2 0 false [] None false, []); (pk0, [])] in
  let tr := run raw init_bal ops in
  map ev_ret tr = [RNone; RNone; RPicked 0; RNone; RParked; RNone; RNone; RNone; RNoSubConn; RBadOp] /\
  legal_b raw ops = false /\ monitor P03R raw (observe init_bal) tr = false.
Proof. vm_compute. repeat split; reflexivity. Qed.

(* why [wf_raw]: a negative minSize (impossible for a uint32 field) *)
Example c03_negative_min :
  let raw := Some (mkConfig (-1) 2 1 false 0 0 false []) in
  let ops := [(OpResolver 1 CfgVal, [])] in
  legal_b raw ops = true /\ monitor P03R raw (observe init_bal) (run raw init_bal ops) = false.
Proof. vm_compute. split; reflexivity. Qed.

(* C03S: the growth clause against the connection states REPORTED in the trace
   (the monitor's own table, not the implementation's scStates): a Pick / Resume
   creates a connection only when no pool connection was last reported Idle or
   Connecting.  Every history, harness-legal or not, every oracle; no guard. *)
Theorem C03S_holds : forall raw ops,
  C03S_ok raw (observe init_bal) (run raw init_bal ops) = true.
Proof. exact C03S_holds_proof. Qed.
Print Assumptions C03S_holds.

Example c03s_histories :
  let raw := Some (mkConfig 1 3 1 false 0 0 false []) in
  let pk0 := OpPick 0 0 false [] None false in
  let pk1 := OpPick 1 0 false [] None false in
  let ops := [(OpResolver 1 CfgVal, []); (OpConnState 0 Ready, []); (pk0, []); (pk0, []);
              (OpConnState 1 Ready, []); (pk1, []); (OpGate true, []); (pk0, []); (OpGate false, []);
              (pk1, []); (OpResume 0, [])] in
  C03S_ok raw (observe init_bal) (run raw init_bal ops) = true /\
  C03S_ok res_raw (observe init_bal) (run res_raw init_bal res_ops) = true.
Proof. vm_compute. split; reflexivity. Qed.

(* the monitor rejects growth while the only pool connection was last reported
   Connecting although the observed scStates claims TransientFailure (the
   Connecting report was ignored): the clause of c03_event that reads o_st
   cannot see this, C03S does *)
Example c03s_bad_ignored_report :
  let sl c n := mkSlot c 0 n 0 0 false 0 in
  let ob st npub refs sts slots pk :=
    mkObs true 1 0 0 0 st [] [] sts refs slots 4294967295 [] false pk npub 0 true in
  let o0 := observe init_bal in
  let o1 := ob Idle 0%nat [(0%N, 0%nat)] [(0%N, Idle)] [sl 0%N 0%Z] (PErr false) in
  let o2 := ob Ready 1%nat [(0%N, 0%nat)] [(0%N, Ready)] [sl 0%N 0%Z] (PSnap [0%nat]) in
  let o3 := ob Ready 1%nat [(0%N, 0%nat)] [(0%N, Ready)] [sl 0%N 1%Z] (PSnap [0%nat]) in
  let o4 := ob TransientFailure 2%nat [(0%N, 0%nat)] [(0%N, TransientFailure)] [sl 0%N 1%Z] (PErr true) in
  let o5 := ob TransientFailure 2%nat [(0%N, 0%nat)] [(0%N, TransientFailure)] [sl 0%N 1%Z] (PErr true) in
  let o6 := ob TransientFailure 2%nat [(0%N, 0%nat); (1%N, 1%nat)] [(0%N, TransientFailure); (1%N, Idle)]
               [sl 0%N 1%Z; sl 1%N 0%Z] (PErr true) in
  let pk := OpPick 0 0 false [] None false in
  let tr := [mkEvent (OpResolver 1 CfgVal) [ONewSC 0 1; OConnect 0] RNone [] (Some o1);
             mkEvent (OpConnState 0 Ready) [OUpdateState Ready (PSnap [0%nat])] RNone [] (Some o2);
             mkEvent pk [] (RPicked 0) [] (Some o3);
             mkEvent (OpConnState 0 TransientFailure) [OUpdateState TransientFailure (PErr true)] RNone [] (Some o4);
             mkEvent (OpConnState 0 Connecting) [] RNone [] (Some o5);
             mkEvent pk [ONewSC 1 1; OConnect 1] RNoSubConn [] (Some o6)] in
  C03S_ok None o0 tr = false /\
  existsb (fun kv => cstate_eqb (snd kv) Idle || cstate_eqb (snd kv) Connecting) (o_st o5) = false /\
  c03s_from [] o0 (firstn 5 tr) = true.
Proof. vm_compute. repeat split; reflexivity. Qed.

(* C03X: "a refresh may hold ONE extra connection per refreshing channel until the
   swap", as a condition on every observed state: the registered replacements
   (refreshingScRefs) and the channels marked refreshing are in bijection -- every
   registered replacement belongs to an existing channel that is marked refreshing,
   no channel has two, every refreshing channel has one (fields refr_slot,
   refr_inj + nd_refr, refreshing_refr of the invariant InvK).  Every history,
   harness-legal or not, every oracle; no guard. *)
From GV Require Import Pool.InvC03X.

Theorem C03X_holds_thm : forall raw ops,
  C03X_ok raw (observe init_bal) (run raw init_bal ops) = true.
Proof. exact C03X_holds. Qed.
Print Assumptions C03X_holds_thm.

Theorem C03X_state_of_Inv : forall s, Inv s -> c03x_state (observe s) = true.
Proof. exact c03x_state_of_Inv. Qed.
Print Assumptions C03X_state_of_Inv.

(* non-vacuity: [c03x_raw], [c03x_ops] (InvC03X.v): unresponsive detection on, a call
   with a deadline placed on channel 0 ends with DeadlineExceeded after the window:
   the replacement (connection 1) is registered for channel 0, which is marked
   refreshing; [c03x_last] is the last observation of that run *)
Example c03x_refresh_history_ex :
  let tr := run c03x_raw init_bal c03x_ops in
  map (fun ev => count_newsc (ev_out ev)) tr = [1; 0; 0; 0; 1]%nat /\
  o_refr c03x_last = [(1%N, 0%nat)] /\
  map sl_refreshing (o_slots c03x_last) = [true] /\
  refreshing_slots 0 (o_slots c03x_last) = [0%nat] /\
  last (map ev_obs tr) None = Some c03x_last /\
  c03x_state c03x_last = true /\
  C03X_ok c03x_raw (observe init_bal) tr = true.
Proof. exact c03x_refresh_history. Qed.

(* the monitor rejects the situation of seeded change C03-r5b: the replacement is
   still registered but its channel is no longer marked refreshing ([c03x_cleared]:
   the same observation with the `refreshing` marks cleared) *)
Example c03x_bad_cleared_flag_ex :
  let bad := c03x_cleared c03x_last in
  let tr := run c03x_raw init_bal c03x_ops in
  o_refr bad = [(1%N, 0%nat)] /\ map sl_refreshing (o_slots bad) = [false] /\
  c03x_state bad = false /\
  nodup_nat (map snd (o_refr bad)) = true /\
  forallb (fun i => memnat i (map snd (o_refr bad))) (refreshing_slots 0 (o_slots bad)) = true /\
  C03X_ok c03x_raw (observe init_bal)
          (firstn 4 tr ++ [mkEvent (OpDone 0 DDeadlineClient []) [ONewSC 1 1; OConnect 1] RNone [] (Some bad)]) = false /\
  C03X_ok c03x_raw (observe init_bal) (firstn 4 tr) = true.
Proof. exact c03x_bad_cleared_flag. Qed.

(* the other ways to break the bijection: a refreshing channel without a registered
   replacement; two replacements registered for one channel; a replacement for a
   channel that does not exist *)
Example c03x_bad_other_ex :
  let ob refr slots :=
    mkObs true 1 1 0 0 Ready [] [] [(0%N, Ready)] [(0%N, 0%nat)] slots 0 refr true (PSnap [0%nat]) 1 0 true in
  let sl f := mkSlot 0 0 0 0 0 f 0 in
  c03x_state (ob [] [sl true]) = false /\
  c03x_state (ob [(1%N, 0%nat); (2%N, 0%nat)] [sl true]) = false /\
  c03x_state (ob [(1%N, 1%nat)] [sl false]) = false /\
  c03x_state (ob [(1%N, 0%nat)] [sl true]) = true /\
  c03x_state (ob [] [sl false]) = true.
Proof. exact c03x_bad_other. Qed.
