From GV Require Import Pool.Model Pool.Observe Pool.Monitors Pool.InvC20.

(* C20: after every operation, every connection of the pool and every replacement
   connection of a refresh in flight has been given the latest resolved address
   list and asked to connect since; a resolver error changes nothing; only a
   resolver update changes the address list.  For every history (legal or not)
   and every oracle; no guard. *)
Theorem C20_holds : forall raw ops,
  monitor P20 raw (observe init_bal) (run raw init_bal ops) = true.
Proof. exact C20_holds_proof. Qed.
Print Assumptions C20_holds.

(* non-vacuity, and regression for the defect this proof found: a resolver update
   arriving while the pool is empty but a refresh is in flight (the replacement
   connection 1 must be given the new addresses: OUpdAddr 1 2) *)
Example c20_history :
  let raw := Some (mkConfig 1 4 100 false 1 1 false []) in
  let ops := [(OpResolver 1 CfgVal, []); (OpConnState 0 Ready, []);
              (OpPick 0 0 false [] (Some 5%Z) false, []); (OpAdvance 2000000, []);
              (OpDone 0 DDeadlineClient [], []); (OpConnState 0 Shutdown, []);
              (OpResolver 2 CfgVal, []); (OpResolverErr, []); (OpConnState 1 Ready, []);
              (OpResolver 3 CfgVal, [])] in
  map ev_out (run raw init_bal ops) =
    [[ONewSC 0 1; OConnect 0; OUpdAddr 0 1; OConnect 0]; [OUpdateState Ready (PSnap [0%nat])]; []; [];
     [ONewSC 1 1; OConnect 1]; [OUpdateState TransientFailure (PErr true)];
     [ONewSC 2 2; OConnect 2; OUpdAddr 1 2; OConnect 1]; [];
     [ORemove 0; OUpdateState Ready (PSnap [0%nat])];
     [OUpdAddr 2 3; OConnect 2; OUpdAddr 1 3; OConnect 1]] /\
  monitor P20 raw (observe init_bal) (run raw init_bal ops) = true.
Proof. vm_compute. split; reflexivity. Qed.

(* the monitor rejects a pool connection left on a stale address list *)
Example c20_bad_stale_address :
  let o1 := mkObs true 1 0 0 0 Idle [] [] [(0%N, Idle)] [(0%N, 0%nat)] [mkSlot 0 0 0 0 0 false 0]
                  4294967295 [] false (PErr false) 0 0 true in
  let o2 := mkObs true 2 0 0 0 Idle [] [] [(0%N, Idle)] [(0%N, 0%nat)] [mkSlot 0 0 0 0 0 false 0]
                  4294967295 [] false (PErr false) 0 0 true in
  mon_from P20 None (mkMstate [] None [] [] [(0%N, 1%N)] [(0%N, true)] false (Some None) 0) o1
    [mkEvent (OpResolver 2 CfgVal) [] RNone [] (Some o2)] = false.
Proof. vm_compute. reflexivity. Qed.

(* ... and a resolver error that changes the state *)
Example c20_bad_resolver_error :
  let o1 := mkObs true 1 0 0 0 Idle [] [] [] [] [] 4294967295 [] false (PErr false) 0 0 true in
  let o2 := mkObs true 1 0 0 0 Idle [] [] [] [] [] 4294967295 [] false (PErr false) 0 5 true in
  mon_from P20 None ms_init o1 [mkEvent OpResolverErr [] RNone [] (Some o2)] = false.
Proof. vm_compute. reflexivity. Qed.
