(* Engine A proofs, C03 (pool size): the size invariant of a model step.

     CfgWf s     the configuration in force has min >= 1 and max <> 0
                 (true of every [effective] configuration whose raw minSize is not negative)
     SizeOK k s  if min <= max then the pool holds at most max + k connections

   One step keeps [SizeOK] with k increased by one exactly when the step
   "revives" a channel: it completes a refresh whose old connection has already
   left the pool ([revives]). *)
From GV Require Import Base.AListFacts Pool.Model Pool.Observe Pool.Monitors
                       Pool.Lemmas Pool.Inv Pool.Inv2 Pool.Frames Pool.Sim
                       Pool.C03Outs Pool.C03Size Pool.C03Pick.
From Coq Require Import Lia ZifyBool.
Open Scope Z_scope.

(* ---------------------------------------------------------------- the configuration *)
Definition min_nonneg (raw : option config) : Prop :=
  match raw with Some c => 0 <= c_min c | None => True end.

Definition wf_cfg (c : config) : Prop := 1 <= c_min c /\ c_max c <> 0.

Definition CfgWf (s : bal) : Prop := forall c, b_cfg s = Some c -> wf_cfg c.

Lemma effective_wf r : min_nonneg r -> wf_cfg (effective r).
Proof.
  unfold wf_cfg, effective, min_nonneg, defaultMinSize, defaultMaxSize. destruct r as [c|]; cbn [c_min c_max].
  - intros H. destruct (Z.eqb_spec (c_min c) 0), (Z.eqb_spec (c_max c) 0); lia.
  - intros _. lia.
Qed.

Lemma CfgWf_init : CfgWf init_bal.
Proof. intros c H. discriminate. Qed.

Lemma CfgWf_step_cfg raw s o s1 :
  min_nonneg raw -> CfgWf s ->
  b_cfg s1 = match b_cfg s with
             | Some c => Some c
             | None => match o with
                       | OpResolver _ CfgNil => Some (effective None)
                       | OpResolver _ CfgVal => Some (effective raw)
                       | _ => None
                       end
             end ->
  CfgWf s1.
Proof.
  intros Hraw HW E c Hc. rewrite E in Hc. destruct (b_cfg s) as [c0|] eqn:E0.
  - injection Hc as <-. apply HW, E0.
  - destruct o; try discriminate. destruct a; try discriminate; injection Hc as <-.
    + apply (effective_wf None). exact I.
    + apply effective_wf, Hraw.
Qed.

Lemma CfgWf_step raw s o order s1 outs rt :
  min_nonneg raw -> Inv s -> CfgWf s -> step raw s o order = (s1, outs, rt) -> CfgWf s1.
Proof. intros Hraw HI HW E. eapply CfgWf_step_cfg; eauto. eapply step_cfg; eauto. Qed.

Lemma CfgWf_full_step raw s o order s' outs rt ub :
  min_nonneg raw -> Inv s -> CfgWf s -> full_step raw s o order = (s', outs, rt, ub) -> CfgWf s'.
Proof. intros Hraw HI HW E. eapply CfgWf_step_cfg; eauto. eapply full_step_cfg; eauto. Qed.

(* ---------------------------------------------------------------- the size invariant *)
Definition SizeOK (k : Z) (s : bal) : Prop :=
  0 <= k /\ forall c, b_cfg s = Some c -> c_min c <= c_max c -> pool_size s <= c_max c + k.

Lemma SizeOK_init : SizeOK 0 init_bal.
Proof. split; [lia|]. intros c H. discriminate. Qed.

Lemma SizeOK_same k k' s s1 :
  b_cfg s1 = b_cfg s -> pool_size s1 <= pool_size s + (k' - k) -> k <= k' -> SizeOK k s -> SizeOK k' s1.
Proof.
  intros Hc Hp Hk [H0 H]. split; [lia|]. intros c Ec Hm. rewrite Hc in Ec. specialize (H c Ec Hm). lia.
Qed.

Lemma SizeOK_eq k s s1 : b_cfg s1 = b_cfg s -> b_screfs s1 = b_screfs s -> SizeOK k s -> SizeOK k s1.
Proof. intros Hc Hr. apply SizeOK_same; [exact Hc| |lia]. unfold pool_size. rewrite Hr. lia. Qed.

Lemma SizeOK_newSubConn k s s' o :
  InvK s -> CfgWf s -> newSubConn s = (s', o) -> SizeOK k s -> SizeOK k s'.
Proof.
  intros HK HW E [H0 H]. destruct (newSubConn_size _ _ _ HK E) as [Hc Hs]. split; [exact H0|].
  intros c Ec Hm. rewrite Hc in Ec. specialize (H c Ec Hm).
  destruct Hs as [Hs|[Hlt Hs]]; [lia|]. unfold cfg_max in Hlt. rewrite Ec in Hlt.
  destruct (HW c Ec) as [_ Hmax]. lia.
Qed.

Lemma Pick_cfg s pi pk m hc rk dl cc s' o r :
  Pick s pi pk m hc rk dl cc = (s', o, r) -> b_cfg s' = b_cfg s.
Proof. intros E. apply Pick_views in E. destruct E as [_ [H _]]. apply envview_inv in H. tauto. Qed.

Lemma Done_cfg s j oc rk s' o r : Done s j oc rk = (s', o, r) -> b_cfg s' = b_cfg s.
Proof. intros E. apply Done_views in E. destruct E as [_ [H _]]. apply envview_inv in H. tauto. Qed.

Lemma Done_screfs s j oc rk s' o r : Done s j oc rk = (s', o, r) -> b_screfs s' = b_screfs s.
Proof. intros E. apply Done_poolview in E. unfold poolview in E. inv E. reflexivity. Qed.

Lemma SizeOK_Pick k s pi pk m hc rk dl cc s' o r :
  Inv s -> CfgWf s -> nth_error (b_published s) pi = Some pk ->
  Pick s pi pk m hc rk dl cc = (s', o, r) -> SizeOK k s -> SizeOK k s'.
Proof.
  intros HI HW Hpk E HS. pose proof (Pick_cfg _ _ _ _ _ _ _ _ _ _ _ E) as Hc.
  destruct (Pick_c03 _ _ _ _ _ _ _ _ _ _ _ HI Hpk E) as [(_&Hr&_)|[refs (_&_&_&[(_&_&_&Hr)|(_&_&En)])]].
  - eapply SizeOK_eq; eauto.
  - eapply SizeOK_eq; eauto.
  - eapply SizeOK_newSubConn; eauto. apply HI.
Qed.

Lemma SizeOK_resolver k raw s addrs a s1 outs rt :
  Inv s -> CfgWf s1 -> UpdateClientConnState s addrs a raw = (s1, outs, rt) -> SizeOK k s -> SizeOK k s1.
Proof.
  intros HI HW1 E [H0 H]. split; [exact H0|]. intros c1 Ec1 Hm.
  destruct (HW1 c1 Ec1) as [Hmin _].
  pose proof (step_cfg raw s (OpResolver addrs a) [] s1 outs rt HI E) as Hcfg.
  destruct (b_cfg s) as [c|] eqn:Ec.
  - rewrite Hcfg in Ec1. inv Ec1.
    destruct (ucc_size_later _ _ _ _ _ _ _ _ HI Ec E) as (_&_&Hs). specialize (H c1 eq_refl Hm). lia.
  - destruct (ucc_size_first _ _ _ _ _ _ _ HI Ec E) as (_&_&Hs).
    destruct Hs as [Hs _]; [congruence|]. unfold cfg_min in Hs. rewrite Ec1 in Hs. lia.
Qed.

Theorem step_size raw s o order s1 outs rt k :
  Inv s -> CfgWf s -> CfgWf s1 -> SizeOK k s -> step raw s o order = (s1, outs, rt) ->
  SizeOK (k + (if revives s o then 1 else 0)) s1.
Proof.
  intros HI HW HW1 HS.
  destruct o as [addrs a| |sc st|pi m hc rk dl cc|j oc rk|dt|j|f|g|kk]; cbn [step];
    try (replace (k + (if revives s _ then 1 else 0)) with k by (cbn [revives]; lia)).
  - intros E. eapply SizeOK_resolver; eauto.
  - intros E; inv E. exact HS.
  - destruct (UpdateSubConnState s sc st order) as [s2 o2] eqn:E1. intros E; inv E.
    destruct (UpdateSubConnState_c03 _ _ _ _ _ _ HI E1) as (_&Hs&_).
    eapply UpdateSubConnState_Inv in E1; eauto. destruct E1 as [_ HF].
    apply (SizeOK_same k _ s); [apply (uf_cfg _ _ HF)| | |exact HS]; destruct (revives s _); lia.
  - destruct (nth_error (b_published s) pi) as [pk|] eqn:Ep; [|intros E; inv E; exact HS].
    destruct (_ && _); [intros E; inv E; exact HS|]. intros E. eapply SizeOK_Pick; eauto.
  - intros E. eapply SizeOK_eq; [eapply Done_cfg, E|eapply Done_screfs, E|exact HS].
  - destruct (0 <=? dt); intros E; inv E; exact HS.
  - destruct (nth_error (b_picks s) j); intros E; inv E; exact HS.
  - intros E; inv E; exact HS.
  - intros E; inv E; exact HS.
  - destruct (nth_error (b_parked s) kk); [|intros E; inv E; exact HS].
    destruct (newSubConn _) as [s2 o2] eqn:En. intros E; inv E.
    eapply SizeOK_newSubConn in En; [exact En|apply HI|exact HW|exact HS].
Qed.

(* ---------------------------------------------------------------- removals *)
Theorem step_removes raw s o order s1 outs rt :
  Inv s -> step raw s o order = (s1, outs, rt) ->
  removes outs = [] \/
  exists sc i ref, o = OpConnState sc Ready /\ aget (b_refr s) sc = Some i /\ get_slot s i = Some ref /\
                   removes outs = [sl_conn ref].
Proof.
  intros HI. destruct o as [addrs a| |sc st|pi m hc rk dl cc|j oc rk|dt|j|f|g|kk]; cbn [step].
  - intros E. left. destruct (b_cfg s) as [c|] eqn:Ec.
    + apply (ucc_size_later _ _ _ _ _ _ _ _ HI Ec E).
    + apply (ucc_size_first _ _ _ _ _ _ _ HI Ec E).
  - intros E; inv E. auto.
  - destruct (UpdateSubConnState s sc st order) as [s2 o2] eqn:E1. intros E; inv E.
    destruct (UpdateSubConnState_c03 _ _ _ _ _ _ HI E1) as (_&_&[H|[i [ref (->&H1&H2&H3)]]]); [auto|].
    right. exists sc, i, ref. auto.
  - left. destruct (nth_error (b_published s) pi) as [pk|] eqn:Ep; [|inv H; reflexivity].
    destruct (_ && _); [inv H; reflexivity|].
    destruct (Pick_c03 _ _ _ _ _ _ _ _ _ _ _ HI Ep H) as [(->&_)|[refs (_&_&_&[(_&_&->&_)|(_&_&En)])]]; try reflexivity.
    apply newSubConn_outs in En. apply En.
  - intros E. left. apply Done_outs in E. apply E.
  - destruct (0 <=? dt); intros E; inv E; auto.
  - destruct (nth_error (b_picks s) j); intros E; inv E; auto.
  - intros E; inv E; auto.
  - intros E; inv E; auto.
  - destruct (nth_error (b_parked s) kk); [|intros E; inv E; auto].
    destruct (newSubConn _) as [s2 o2] eqn:En. intros E; inv E. left.
    apply newSubConn_outs in En. apply En.
Qed.

(* ---------------------------------------------------------------- through the unblocking loop *)
Lemma full_step_split raw s o order s' outs rt ub :
  Inv s -> full_step raw s o order = (s', outs, rt, ub) ->
  exists s1, step raw s o order = (s1, outs, rt) /\ Inv s1 /\
             b_screfs s' = b_screfs s1 /\ b_cfg s' = b_cfg s1.
Proof.
  intros HI. rewrite full_step_eq.
  destruct (step raw s o order) as [[s1 outs1] r1] eqn:Es.
  destruct (resolve_blocked s1) as [s2 ub2] eqn:Er. intros E; inv E.
  destruct (step_Inv _ _ _ _ _ _ _ HI Es) as [HI1 _].
  destruct (resolve_blocked_spec _ _ _ HI1 Er) as [_ [Hm _]].
  exists s1. split; [reflexivity|split; [exact HI1|]].
  pose proof (f_equal b_screfs Hm) as H1. pose proof (f_equal b_cfg Hm) as H2. cbn in H1, H2. auto.
Qed.

Theorem full_step_size raw s o order s' outs rt ub k :
  min_nonneg raw -> Inv s -> CfgWf s -> SizeOK k s -> full_step raw s o order = (s', outs, rt, ub) ->
  SizeOK (k + (if revives s o then 1 else 0)) s'.
Proof.
  intros Hraw HI HW HS E. destruct (full_step_split _ _ _ _ _ _ _ _ HI E) as [s1 (Es&_&H1&H2)].
  eapply SizeOK_eq; [exact H2|exact H1|]. eapply step_size; eauto. eapply CfgWf_step; eauto.
Qed.
