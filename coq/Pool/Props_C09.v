From GV Require Import Pool.Model Pool.Observe Pool.Monitors Pool.Reduce Pool.LegalRun Pool.PickFacts Pool.InvC09.

(* C09: with bind_pick_strategy = ROUND_ROBIN a BIND call on a picker with a
   non-empty snapshot advances the 32-bit cursor rrRefId by one (mod 2^32) and is
   assigned the slot  cursor mod #slots;  it returns that slot's connection at
   once iff the connection is READY or the call's context has ended, and waits
   otherwise; no other operation moves the cursor; a waiting call that returns is
   handed its slot's connection, and only once it is READY or the context ended.
   For every map-iteration oracle.  Guard: the history is harness-legal (no
   operation is answered RBadOp: the harness only refers to pickers / calls that
   exist and never completes a call that is still waiting). *)
Theorem C09_holds : forall raw ops,
  legal raw ops -> monitor P09 raw (observe init_bal) (run raw init_bal ops) = true.
Proof. exact C09_holds_proof. Qed.
Print Assumptions C09_holds.

(* the cursor after j round-robin BIND calls *)
Theorem C09_rr_cursor : forall (j : nat) (c : Z),
  (0 <= c < W32)%Z -> Nat.iter j (fun x => ((x + 1) mod W32)%Z) c = ((c + Z.of_nat j) mod W32)%Z.
Proof. exact rr_cursor. Qed.
Print Assumptions C09_rr_cursor.

(* ... on the model, for every history (legal or not): rr_picks counts the BIND
   calls that get past the empty-snapshot test under ROUND_ROBIN *)
Theorem C09_rr_cursor_run : forall raw ops,
  b_rr (run_state raw init_bal ops) = ((W32 - 1 + Z.of_nat (rr_picks raw init_bal ops)) mod W32)%Z.
Proof. exact rr_cursor_init. Qed.
Print Assumptions C09_rr_cursor_run.

(* any n*k consecutive cursor values, starting anywhere, put exactly k calls on
   each of the n slots -- provided the 32-bit cursor does not wrap inside the window *)
Theorem C09_rr_window_fair : forall (n k : nat) (c r : Z),
  (0 < n)%nat -> (0 <= c)%Z -> (c + Z.of_nat (n * k) < W32)%Z -> (0 <= r < Z.of_nat n)%Z ->
  count_occ Z.eq_dec (map (fun j => (((c + Z.of_nat j) mod W32) mod Z.of_nat n)%Z) (seq 0 (n * k))) r = k.
Proof. exact rr_window_fair. Qed.
Print Assumptions C09_rr_window_fair.

(* known finding RR1: across the wrap the window is uneven for three slots (2^32 mod 3 = 1) *)
Example C09_rr_window_fair_refuted :
  (W32 mod 3 <> 0)%Z /\
  map (fun j => (((W32 - 2 + Z.of_nat j) mod W32) mod 3)%Z) (seq 0 3) = [2; 0; 0]%Z /\
  count_occ Z.eq_dec (map (fun j => (((W32 - 2 + Z.of_nat j) mod W32) mod 3)%Z) (seq 0 (3 * 1))) 0%Z = 2%nat /\
  count_occ Z.eq_dec (map (fun j => (((W32 - 2 + Z.of_nat j) mod W32) mod 3)%Z) (seq 0 (3 * 1))) 1%Z = 0%nat.
Proof. exact rr_window_fair_refuted. Qed.

(* RR1 on the model: three READY slots, cursor preset two calls before the wrap
   (only reachable after 2^32 - 2 BIND calls): the next three BIND calls go to
   slots 2, 0, 0 *)
Example c09_rr1_on_model :
  let raw := Some (mkConfig 3 4 100 false 0 0 true [(1%N, mkMcfg BIND true)]) in
  let s0 := run_state raw init_bal
              [(OpResolver 1 CfgVal, []); (OpConnState 0 Ready, []); (OpConnState 1 Ready, []);
               (OpConnState 2 Ready, [])] in
  let bind := (OpPick 2 1 true [] None false, @nil nat) in
  map ev_ret (run raw (set_rr s0 (W32 - 3)) [bind; bind; bind]) = [RPicked 2; RPicked 0; RPicked 0].
Proof. vm_compute. reflexivity. Qed.

(* non-vacuity: ROUND_ROBIN over two channels; BIND calls on the current and on a
   stale picker, a BOUND call in between (cursor untouched), one BIND call that
   waits for its channel and returns when it becomes READY, one whose context has
   ended and returns at once although its channel is not READY *)
Example c09_history :
  let raw := Some (mkConfig 2 4 1 false 0 0 true [(1%N, mkMcfg BIND true); (2%N, mkMcfg BOUND true)]) in
  let ops := [(OpResolver 1 CfgVal, []); (OpConnState 0 Ready, []); (OpConnState 1 Ready, [1; 0]%nat);
              (OpPick 1 1 true [] None false, []); (OpPick 1 1 true [] None false, []);
              (OpPick 0 1 true [] None false, []); (OpConnState 1 Connecting, []);
              (OpPick 1 1 true [] None false, []); (OpPick 2 2 true [] None false, []);
              (OpPick 2 1 true [] (Some 7%Z) false, []); (OpAdvance 3, []); (OpDone 0 DOk [5%N], []);
              (OpConnState 1 Ready, []); (OpAdvance 10, []); (OpDone 3 DOk [], []);
              (OpConnState 1 Connecting, []); (OpPick 3 1 false [] None true, [])] in
  map ev_ret (run raw init_bal ops) =
    [RNone; RNone; RNone; RPicked 0; RPicked 1; RPicked 0; RNone; RBlocked; RNoSubConn; RPicked 0; RNone; RNone;
     RNone; RNone; RNone; RNone; RPicked 1] /\
  map ev_ub (run raw init_bal ops) =
    [[]; []; []; []; []; []; []; []; []; []; []; []; [(3%nat, 1%N)]; []; []; []; []] /\
  map (fun s => b_rr s) (run_states raw init_bal ops) =
    [4294967295; 4294967295; 4294967295; 4294967295; 0; 1; 2; 2; 3; 3; 4; 4; 4; 4; 4; 4; 4; 5]%Z /\
  legalb raw ops = true /\
  monitor P09 raw (observe init_bal) (run raw init_bal ops) = true.
Proof. vm_compute. repeat split; reflexivity. Qed.

(* the monitor rejects a BIND call placed on the wrong slot (cursor 0 over two slots is slot 0) *)
Example c09_bad_wrong_slot :
  let cfg := Some (mkConfig 2 4 1 false 0 0 true [(1%N, mkMcfg BIND true)]) in
  let o1 := mkObs true 1 2 0 0 Ready [] [] [(0%N, Ready); (1%N, Ready)] [(0%N, 0%nat); (1%N, 1%nat)]
                  [mkSlot 0 0 0 0 0 false 0; mkSlot 1 0 0 0 0 false 0]
                  4294967295 [] false (PSnap [0; 1]%nat) 1 0 true in
  let o2 := mkObs true 1 2 0 0 Ready [] [] [(0%N, Ready); (1%N, Ready)] [(0%N, 0%nat); (1%N, 1%nat)]
                  [mkSlot 0 0 0 0 0 false 0; mkSlot 1 0 1 0 0 false 0]
                  0 [] false (PSnap [0; 1]%nat) 1 0 true in
  mon_from P09 cfg (mkMstate [PSnap [0; 1]%nat] (Some (Ready, PSnap [0; 1]%nat)) [] [] [] [] false (Some cfg) 0) o1
    [mkEvent (OpPick 0 1 true [] None false) [] (RPicked 1) [] (Some o2)] = false.
Proof. vm_compute. reflexivity. Qed.

(* ... a cursor that skips a value *)
Example c09_bad_cursor_skips :
  let cfg := Some (mkConfig 2 4 1 false 0 0 true [(1%N, mkMcfg BIND true)]) in
  let o1 := mkObs true 1 2 0 0 Ready [] [] [(0%N, Ready); (1%N, Ready)] [(0%N, 0%nat); (1%N, 1%nat)]
                  [mkSlot 0 0 0 0 0 false 0; mkSlot 1 0 0 0 0 false 0]
                  4294967295 [] false (PSnap [0; 1]%nat) 1 0 true in
  let o2 := mkObs true 1 2 0 0 Ready [] [] [(0%N, Ready); (1%N, Ready)] [(0%N, 0%nat); (1%N, 1%nat)]
                  [mkSlot 0 0 0 0 0 false 0; mkSlot 1 0 1 0 0 false 0]
                  1 [] false (PSnap [0; 1]%nat) 1 0 true in
  mon_from P09 cfg (mkMstate [PSnap [0; 1]%nat] (Some (Ready, PSnap [0; 1]%nat)) [] [] [] [] false (Some cfg) 0) o1
    [mkEvent (OpPick 0 1 true [] None false) [] (RPicked 1) [] (Some o2)] = false.
Proof. vm_compute. reflexivity. Qed.

(* ... and a waiting call released although its channel is not READY and its context is alive *)
Example c09_bad_released_early :
  let cfg := Some (mkConfig 2 4 1 false 0 0 true [(1%N, mkMcfg BIND true)]) in
  let o1 := mkObs true 1 1 1 0 Ready [] [] [(0%N, Ready); (1%N, Connecting)] [(0%N, 0%nat); (1%N, 1%nat)]
                  [mkSlot 0 0 0 0 0 false 0; mkSlot 1 0 0 0 0 false 0]
                  1 [] false (PSnap [0%nat]) 1 0 true in
  let o2 := mkObs true 1 1 1 0 Ready [] [] [(0%N, Ready); (1%N, Connecting)] [(0%N, 0%nat); (1%N, 1%nat)]
                  [mkSlot 0 0 0 0 0 false 0; mkSlot 1 0 1 0 0 false 0]
                  1 [] false (PSnap [0%nat]) 1 5 true in
  mon_from P09 cfg (mkMstate [PSnap [0%nat]] (Some (Ready, PSnap [0%nat]))
                             [mkMpick 1 BIND 0 true true None false 0 PBlocked] [] [] [] false (Some cfg) 0) o1
    [mkEvent (OpAdvance 5) [] RNone [(0%nat, 1%N)] (Some o2)] = false.
Proof. vm_compute. reflexivity. Qed.

(* why the legality guard is needed: a Done on a call that is still waiting (answered
   RBadOp by the model, never issued by the harness) desynchronises the monitor's
   bookkeeping from the balancer; the monitor is false on this illegal model history *)
Example c09_illegal_history_rejected :
  let raw := Some (mkConfig 2 4 1 true 0 0 true [(1%N, mkMcfg BIND true); (2%N, mkMcfg BOUND true)]) in
  let ops := [(OpResolver 1 CfgVal, []); (OpConnState 0 Ready, []); (OpPick 0 1 true [] None false, []);
              (OpPick 0 1 true [] None false, []); (OpDone 1 DOk [5%N], []); (OpConnState 1 Ready, []);
              (OpDone 1 DOk [6%N], []); (OpDone 0 DOk [], []); (OpPick 1 2 true [5%N] None false, [])] in
  map ev_ret (run raw init_bal ops) = [RNone; RNone; RPicked 0; RBlocked; RBadOp; RNone; RNone; RNone; RPicked 0] /\
  legalb raw ops = false /\
  monitor P09 raw (observe init_bal) (run raw init_bal ops) = false.
Proof. vm_compute. repeat split; reflexivity. Qed.

(* ---------------------------------------------------------------- C09, the fairness-window clause (monitor C09W_ok) *)
From GV Require Import Pool.InvC09W.

(* without wrap of the 32-bit cursor the slot of a round-robin BIND call is the
   previous call's slot plus one, cyclically *)
Theorem C09W_rr_step_no_wrap : forall rr n : Z,
  (0 <= rr < W32 - 1)%Z -> (0 < n)%Z -> (((rr + 1) mod W32) mod n = ((rr mod n) + 1) mod n)%Z.
Proof. exact rr_step_no_wrap. Qed.
Print Assumptions C09W_rr_step_no_wrap.

(* C09 "successive BIND calls are assigned to the pool's channels in creation
   order, cyclically": while the number of channels is unchanged, each
   round-robin BIND call is assigned the channel after the one of the previous
   round-robin BIND call.  For every map-iteration oracle.  Guards: the history
   is harness-legal (as for C09_holds) and contains fewer than 2^32 - 1
   round-robin BIND calls (rr_picks, the count of C09_rr_cursor_run), so that the
   uint32 cursor, which starts at 2^32 - 1, does not wrap between two compared calls. *)
Theorem C09W_holds_thm : forall raw ops,
  legal raw ops -> (Z.of_nat (rr_picks raw init_bal ops) < W32 - 1)%Z ->
  C09W_ok raw (observe init_bal) (run raw init_bal ops) = true.
Proof. exact C09W_holds. Qed.
Print Assumptions C09W_holds_thm.

(* the exact bound: up to 2^32 round-robin BIND calls (the 2^32 + 1 st is the
   first one that is compared with a predecessor across the wrap) *)
Theorem C09W_holds_le_thm : forall raw ops,
  legal raw ops -> (Z.of_nat (rr_picks raw init_bal ops) <= W32)%Z ->
  C09W_ok raw (observe init_bal) (run raw init_bal ops) = true.
Proof. exact C09W_holds_le. Qed.
Print Assumptions C09W_holds_le_thm.

(* known finding RR1 on the model (corpus/pool/known_rr1.hist): three READY
   channels, cursor preset to 2^32 - 3; the BIND calls go to channels 2, 0, 0, 1, 2;
   C09 proper and the dead-slot clause hold, the fairness-window clause fails at
   the call that steps the cursor from 2^32 - 1 to 0 *)
Example C09W_wrap_refuted_ex :
  let s0 := set_rr init_bal (W32 - 3) in
  let tr := run rr1_raw s0 rr1_ops in
  map ev_ret tr = [RNone; RNone; RNone; RNone; RPicked 2; RPicked 0; RPicked 0; RPicked 1; RPicked 2] /\
  Forall (fun ev => ev_ret ev <> RBadOp) tr /\
  C09_ok rr1_raw (observe s0) tr = true /\
  C09D_ok rr1_raw (observe s0) tr = true /\
  C09W_ok rr1_raw (observe s0) tr = false /\
  C09W_ok rr1_raw (observe s0) (firstn 6 tr) = true /\
  C09W_ok rr1_raw (observe s0) (firstn 7 tr) = false /\
  known_RR1 rr1_raw (observe s0) tr = true.
Proof. exact C09W_wrap_refuted. Qed.

(* non-vacuity: the same history from init_bal is legal, has five round-robin
   BIND calls (channels 0, 1, 2, 0, 1) and passes the clause *)
Example c09w_history_ex :
  legalb rr1_raw rr1_ops = true /\
  rr_picks rr1_raw init_bal rr1_ops = 5%nat /\
  map ev_ret (run rr1_raw init_bal rr1_ops) =
    [RNone; RNone; RNone; RNone; RPicked 0; RPicked 1; RPicked 2; RPicked 0; RPicked 1] /\
  C09W_ok rr1_raw (observe init_bal) (run rr1_raw init_bal rr1_ops) = true /\
  known_RR1 rr1_raw (observe init_bal) (run rr1_raw init_bal rr1_ops) = false.
Proof. exact c09w_history. Qed.
