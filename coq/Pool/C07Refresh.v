(* Engine A proofs, C07: state-level facts about the unresponsive-connection
   refresh (detectUnresponsive / unresponsiveWindow / refresh / the swap in
   UpdateSubConnState).  No monitor in this file.

   rview        the fields of a slot the refresh logic reads and writes
   du_result    the slot and the kind of creation attempt detectUnresponsive
                produces, as a pure function of the slot before
   InvU         b_undet is (0 < ucalls) && (0 < ums) of the configuration
   swap_step    what the swap of a completed refresh does *)
From GV Require Import Base.AListFacts Pool.Model Pool.Observe Pool.Monitors
                       Pool.Lemmas Pool.Inv Pool.Inv2 Pool.Frames.
From Coq Require Import Lia ZifyBool.
Open Scope Z_scope.

(* ================================================================ the refresh view of a slot *)
Definition rview (sl : slot) : N * Z * Z * bool * Z :=
  (sl_conn sl, sl_last sl, sl_de sl, sl_refreshing sl, sl_rcnt sl).

Notation rviews s := (map rview (b_slots s)).

Lemma rview_nth s s' i a b :
  rviews s' = rviews s -> nth_error (b_slots s) i = Some a -> nth_error (b_slots s') i = Some b ->
  rview b = rview a.
Proof.
  intros H Ha Hb. apply (map_nth_error rview) in Ha, Hb. rewrite H in Hb. congruence.
Qed.

Lemma rviews_length s s' : rviews s' = rviews s -> length (b_slots s') = length (b_slots s).
Proof. intros H. apply (f_equal (@length _)) in H. rewrite !map_length in H. exact H. Qed.

Lemma rviews_upd_slot s i f : (forall r, rview (f r) = rview r) -> rviews (upd_slot s i f) = rviews s.
Proof. intros H. unfold upd_slot; sb. apply map_upd_nth_same, H. Qed.

Lemma rviews_done_s1 s j p : rviews (done_s1 s j p) = rviews s.
Proof. unfold done_s1. rewrite rviews_upd_slot by reflexivity. reflexivity. Qed.

Lemma rviews_bindSubConn s key sc : rviews (bindSubConn s key sc) = rviews s.
Proof.
  unfold bindSubConn. destruct (aget (b_screfs s) sc); [|reflexivity].
  rewrite rviews_upd_slot by reflexivity. destruct (aget (b_aff s) key); reflexivity.
Qed.

Lemma rviews_fold_bindSubConn keys sc : forall s,
  rviews (fold_left (fun st k => bindSubConn st k sc) keys s) = rviews s.
Proof.
  induction keys as [|k r IH]; intros s; cbn [fold_left]; [reflexivity|]. rewrite IH. apply rviews_bindSubConn.
Qed.

Lemma rviews_unbindSubConn s key : rviews (unbindSubConn s key) = rviews s.
Proof.
  unfold unbindSubConn. destruct (aget (b_aff s) key); [|reflexivity].
  destruct (aget (b_screfs s) n); sb; [|reflexivity]. apply map_upd_nth_same. reflexivity.
Qed.

Lemma rviews_done_bind s2 p oc rk : rviews (done_bind s2 p oc rk) = rviews s2.
Proof.
  unfold done_bind. destruct oc; auto. destruct (pk_cmd p); auto.
  - destruct (_ && _); auto. destruct (get_slot s2 (pk_slot p)); auto. apply rviews_fold_bindSubConn.
  - apply rviews_unbindSubConn.
Qed.

Lemma rviews_mask_sp s s' : mask_sp s' = mask_sp s -> rviews s' = rviews s.
Proof.
  intros H. apply (f_equal b_slots) in H. unfold mask_sp in H; sb.
  apply (f_equal (map rview)) in H. rewrite !map_map in H. exact H.
Qed.

Lemma get_slot_upd_eq s i f : get_slot (upd_slot s i f) i = option_map f (get_slot s i).
Proof. unfold get_slot, upd_slot; sb. apply nth_error_upd_nth_eq. Qed.

Lemma get_slot_upd_neq s i f j : i <> j -> get_slot (upd_slot s i f) j = get_slot s j.
Proof. intros H. unfold get_slot, upd_slot; sb. apply nth_error_upd_nth_neq, H. Qed.

(* ================================================================ detectUnresponsive as a function of the slot *)
Definition client_dl (now : Z) (oc : outcome) (dl : option Z) : bool :=
  match oc, dl with
  | DDeadlineClient, Some d => d <=? now
  | _, _ => false
  end.

Lemma client_dl_model now oc dl :
  match oc, dl with DDeadlineClient, Some d => negb (now <? d) | _, _ => false end = client_dl now oc dl.
Proof. destruct oc, dl; try reflexivity. cbn [client_dl]. symmetry. apply Z.leb_antisym. Qed.

Definition resp_slot (now : Z) (r : slot) : slot :=
  mkSlot (sl_conn r) (sl_aff r) (sl_streams r) now 0 (sl_refreshing r) 0.

(* the rule of the Go code, in the model's machine arithmetic *)
Definition du_trigger (s : bal) (r : slot) : bool :=
  (cfg_ucalls s <=? (sl_de r + 1) mod W32) && (sl_last r <? b_now s - unresponsiveWindow s r).

Inductive du_kind := KNone | KFail | KOk.

Definition du_result (s : bal) (p : pick) (oc : outcome) (r : slot) : slot * du_kind :=
  if negb (b_undet s) then (r, KNone)
  else if negb (client_dl (b_now s) oc (pk_deadline p)) then (resp_slot (b_now s) r, KNone)
  else if pk_started p <? sl_last r then (r, KNone)
  else
    let r1 := sl_set_de r ((sl_de r + 1) mod W32) in
    if du_trigger s r then
      if sl_refreshing r then (r1, KNone)
      else if cannot_create s then (r1, KFail)
      else (sl_set_refreshing r1 true, KOk)
    else (r1, KNone).

Definition du_outs (s : bal) (k : du_kind) : list out :=
  match k with
  | KNone => []
  | KFail => [ONewSCFail (b_addrs s)]
  | KOk => [ONewSC (b_next s) (b_addrs s); OConnect (b_next s)]
  end.

Definition du_refr (s : bal) (i : nat) (k : du_kind) : list (N * nat) :=
  match k with KOk => aset (b_refr s) (b_next s) i | _ => b_refr s end.

Lemma refresh_spec s i r s2 o :
  get_slot s i = Some r -> refresh s i = (s2, o) ->
  let k := if sl_refreshing r then KNone else if cannot_create s then KFail else KOk in
  get_slot s2 i = Some (match k with KOk => sl_set_refreshing r true | _ => r end) /\
  o = du_outs s k /\ b_refr s2 = du_refr s i k.
Proof.
  intros Hs E. cbv zeta.
  destruct (refresh_cases s i) as [[E' H]|[r' [Es [Er [[Hc E']|[Hc E']]]]]]; rewrite E' in E; inv E.
  - destruct H as [H|[r' [H1 H2]]]; [congruence|]. assert (r' = r) by congruence. subst r'.
    rewrite H2. auto.
  - assert (r' = r) by congruence. subst r'. rewrite Er, Hc. auto.
  - assert (r' = r) by congruence. subst r'. rewrite Er, Hc.
    split; [|split; reflexivity].
    unfold refresh_ok_state. change (get_slot (upd_slot s i (fun r0 => sl_set_refreshing r0 true)) i =
                                     Some (sl_set_refreshing r true)).
    rewrite get_slot_upd_eq, Hs. reflexivity.
Qed.

Lemma upd_nth_const {A} (l : list A) i (f : A -> A) x :
  nth_error l i = Some x -> upd_nth i f l = upd_nth i (fun _ => f x) l.
Proof.
  revert i; induction l as [|y r IH]; intros [|i]; cbn; try discriminate.
  - intros E; inv E. reflexivity.
  - intros E. rewrite (IH _ E). reflexivity.
Qed.

Lemma upd_nth_self {A} (l : list A) i x : nth_error l i = Some x -> l = upd_nth i (fun _ => x) l.
Proof. intros H. symmetry. apply (upd_nth_fix l i (fun _ => x) x H). reflexivity. Qed.

Lemma refresh_slots s i r s2 o :
  get_slot s i = Some r -> refresh s i = (s2, o) ->
  b_slots s2 = upd_nth i (fun _ => if sl_refreshing r then r else if cannot_create s then r
                                   else sl_set_refreshing r true) (b_slots s).
Proof.
  intros Hs E.
  destruct (refresh_cases s i) as [[E' H]|[r' [Es [Er [[Hc E']|[Hc E']]]]]]; rewrite E' in E; inv E.
  - destruct H as [H|[r' [H1 H2]]]; [congruence|]. assert (r' = r) by congruence. subst r'.
    rewrite H2. apply upd_nth_self, Hs.
  - assert (r' = r) by congruence. subst r'. rewrite Er, Hc. apply upd_nth_self, Hs.
  - assert (r' = r) by congruence. subst r'. rewrite Er, Hc.
    unfold refresh_ok_state; sb. apply (upd_nth_const _ _ (fun r0 => sl_set_refreshing r0 true) r Hs).
Qed.

Lemma detectUnresponsive_spec s p oc r s2 o :
  get_slot s (pk_slot p) = Some r -> detectUnresponsive s p oc = (s2, o) ->
  get_slot s2 (pk_slot p) = Some (fst (du_result s p oc r)) /\
  o = du_outs s (snd (du_result s p oc r)) /\
  b_refr s2 = du_refr s (pk_slot p) (snd (du_result s p oc r)) /\
  b_slots s2 = upd_nth (pk_slot p) (fun _ => fst (du_result s p oc r)) (b_slots s).
Proof.
  intros Hs. unfold detectUnresponsive, du_result. rewrite client_dl_model.
  destruct (negb (b_undet s)); [intros E; inv E; cbn [fst snd]; auto using upd_nth_self|].
  destruct (negb (client_dl (b_now s) oc (pk_deadline p))).
  - intros E; inv E. cbn [fst snd du_outs du_refr]. rewrite get_slot_upd_eq, Hs.
    repeat split. unfold upd_slot; sb. apply (upd_nth_const _ _ (resp_slot (b_now s)) r Hs).
  - rewrite Hs. destruct (pk_started p <? sl_last r); [intros E; inv E; cbn [fst snd]; auto using upd_nth_self|].
    cbv zeta. fold (du_trigger s r).
    set (s1 := upd_slot s (pk_slot p) (fun r0 => sl_set_de r0 ((sl_de r + 1) mod W32))).
    assert (Hs1 : get_slot s1 (pk_slot p) = Some (sl_set_de r ((sl_de r + 1) mod W32))).
    { unfold s1. rewrite get_slot_upd_eq, Hs. reflexivity. }
    assert (Hsl1 : b_slots s1 = upd_nth (pk_slot p) (fun _ => sl_set_de r ((sl_de r + 1) mod W32)) (b_slots s)).
    { unfold s1, upd_slot; sb.
      apply (upd_nth_const _ _ (fun r0 => sl_set_de r0 ((sl_de r + 1) mod W32)) r Hs). }
    destruct (du_trigger s r).
    + intros E. destruct (refresh_spec _ _ _ _ _ Hs1 E) as [H1 [H2 H3]].
      pose proof (refresh_slots _ _ _ _ _ Hs1 E) as H4. rewrite Hsl1, upd_nth_upd_nth in H4.
      change (sl_refreshing (sl_set_de r ((sl_de r + 1) mod W32))) with (sl_refreshing r) in *.
      change (cannot_create s1) with (cannot_create s) in *.
      destruct (sl_refreshing r); [|destruct (cannot_create s)]; cbn [fst snd]; auto.
    + intros E; inv E. cbn [fst snd du_outs du_refr]. auto.
Qed.

(* ================================================================ the window, and the trigger rule *)
(* the model's bound (Model.MaxInt64) and the monitor's (Monitors.Int64Max) are the same number *)
Lemma MaxInt64_Int64Max : MaxInt64 = Int64Max.
Proof. reflexivity. Qed.

(* the monitor's test is "more than window_ns has elapsed", for an int64 clock: from
   2^64 on the window cannot have elapsed *)
Lemma window_elapsed_spec e rcnt last now :
  0 <= last -> now <= Int64Max -> 0 < c_ums e -> 0 <= rcnt ->
  window_elapsed e rcnt last now = (last <? now - window_ns e rcnt).
Proof.
  intros Hl Hn Hu Hk. unfold window_elapsed.
  destruct (Z.ltb_spec rcnt 64) as [H|H]; [reflexivity|].
  symmetry. apply Z.ltb_ge.
  assert (Hp : 2 ^ 64 <= 2 ^ rcnt) by (apply Z.pow_le_mono_r; lia).
  change (2 ^ 64) with 18446744073709551616 in Hp.
  assert (Hm : 2 ^ rcnt <= 2 ^ rcnt * c_ums e) by nia.
  unfold window_ns, Int64Max in *. lia.
Qed.

(* the key fact: the saturating int64 window of the model decides "more than
   ms * 2^k has elapsed" exactly, for every threshold ms > 0 and every refresh count
   k >= 0, as long as the clock is an int64 count of nanoseconds.  When the true window
   exceeds MaxInt64 ns the model answers MaxInt64, and neither can have elapsed,
   because now - last <= MaxInt64. *)
Lemma window_model_elapsed s r e :
  cfg_ums s = c_ums e -> 0 < c_ums e -> 0 <= sl_rcnt r ->
  0 <= sl_last r -> b_now s <= MaxInt64 ->
  (sl_last r <? b_now s - unresponsiveWindow s r) = window_elapsed e (sl_rcnt r) (sl_last r) (b_now s).
Proof.
  intros Hu Hp Hk Hl Hn. unfold unresponsiveWindow, window_elapsed, window_ns. rewrite Hu. cbv zeta.
  set (k := sl_rcnt r) in *. set (w := 1000000 * c_ums e).
  assert (HP : 0 < 2 ^ k) by (apply Z.pow_pos_nonneg; lia).
  assert (Ew : 1000000 * (2 ^ k * c_ums e) = w * 2 ^ k) by (unfold w; ring). rewrite Ew.
  destruct (Z.ltb_spec k 63) as [H63|H63]; cbn [andb].
  - assert (E64 : k <? 64 = true) by lia. rewrite E64.
    destruct (Z.leb_spec w (MaxInt64 / 2 ^ k)) as [Hw|Hw]; [reflexivity|].
    pose proof (Z.mul_succ_div_gt MaxInt64 (2 ^ k) HP) as Hd.
    assert (Hbig : MaxInt64 < w * 2 ^ k) by nia.
    transitivity false; [apply Z.ltb_ge; lia|symmetry; apply Z.ltb_ge; lia].
  - transitivity false; [apply Z.ltb_ge; lia|]. symmetry.
    destruct (Z.ltb_spec k 64) as [H64|H64]; [|reflexivity].
    assert (E2 : 2 ^ k = 2 ^ 63) by (f_equal; lia).
    change (2 ^ 63) with 9223372036854775808 in E2.
    apply Z.ltb_ge. unfold MaxInt64, w in *. lia.
Qed.

(* the same with the configuration in force *)
Corollary window_model_elapsed_cfg s r c :
  b_cfg s = Some c -> 0 < c_ums c -> 0 <= sl_rcnt r -> 0 <= sl_last r -> b_now s <= MaxInt64 ->
  (sl_last r <? b_now s - unresponsiveWindow s r) = window_elapsed c (sl_rcnt r) (sl_last r) (b_now s).
Proof.
  intros Hc. apply window_model_elapsed. unfold cfg_ums. rewrite Hc. reflexivity.
Qed.

(* the model's window is the intended one, saturated at MaxInt64 *)
Lemma window_min s r e :
  cfg_ums s = c_ums e -> 0 < c_ums e -> 0 <= sl_rcnt r ->
  unresponsiveWindow s r = Z.min (window_ns e (sl_rcnt r)) MaxInt64.
Proof.
  intros Hu Hn Hk. unfold unresponsiveWindow, window_ns in *. rewrite Hu. cbv zeta.
  set (k := sl_rcnt r) in *. set (w := 1000000 * c_ums e).
  assert (HP : 0 < 2 ^ k) by (apply Z.pow_pos_nonneg; lia).
  assert (Ew : 1000000 * (2 ^ k * c_ums e) = w * 2 ^ k) by (unfold w; ring). rewrite Ew in *.
  destruct (Z.ltb_spec k 63) as [H63|H63]; cbn [andb].
  - destruct (Z.leb_spec w (MaxInt64 / 2 ^ k)) as [Hw|Hw].
    + pose proof (Z.mul_div_le MaxInt64 (2 ^ k) HP) as Hd. assert (w * 2 ^ k <= MaxInt64) by nia. lia.
    + pose proof (Z.mul_succ_div_gt MaxInt64 (2 ^ k) HP) as Hd. assert (MaxInt64 < w * 2 ^ k) by nia. lia.
  - assert (Hp : 2 ^ 63 <= 2 ^ k) by (apply Z.pow_le_mono_r; lia).
    change (2 ^ 63) with 9223372036854775808 in Hp.
    assert (MaxInt64 < w * 2 ^ k) by (unfold MaxInt64, w in *; nia). lia.
Qed.

Lemma window_eq s r e :
  cfg_ums s = c_ums e -> 0 < c_ums e -> 0 <= sl_rcnt r -> window_ns e (sl_rcnt r) <= MaxInt64 ->
  unresponsiveWindow s r = window_ns e (sl_rcnt r).
Proof. intros Hu Hn Hk Hw. rewrite (window_min s r e Hu Hn Hk). lia. Qed.

Lemma window_saturated s r e :
  cfg_ums s = c_ums e -> 0 < c_ums e -> 0 <= sl_rcnt r -> MaxInt64 <= window_ns e (sl_rcnt r) ->
  unresponsiveWindow s r = MaxInt64.
Proof. intros Hu Hn Hk Hw. rewrite (window_min s r e Hu Hn Hk). lia. Qed.

Lemma du_trigger_eq s r e :
  cfg_ucalls s = c_ucalls e -> cfg_ums s = c_ums e -> 0 < c_ums e ->
  0 <= sl_rcnt r -> 0 <= sl_last r -> b_now s <= MaxInt64 ->
  du_trigger s r = (c_ucalls e <=? (sl_de r + 1) mod W32) && window_elapsed e (sl_rcnt r) (sl_last r) (b_now s).
Proof.
  intros H1 H2 H3 H4 H5 H6. unfold du_trigger. rewrite (window_model_elapsed s r e H2 H3 H4 H5 H6), H1. reflexivity.
Qed.

(* ================================================================ InvU: detection is enabled by rule *)
Definition InvU (s : bal) : Prop := b_undet s = (0 <? cfg_ucalls s) && (0 <? cfg_ums s).

Lemma InvU_init : InvU init_bal.
Proof. reflexivity. Qed.

Lemma InvU_env s s' : b_cfg s' = b_cfg s -> b_undet s' = b_undet s -> InvU s -> InvU s'.
Proof. unfold InvU, cfg_ucalls, cfg_ums. intros -> ->. auto. Qed.

Lemma InvU_envview s s' : envview s' = envview s -> InvU s -> InvU s'.
Proof. intros H. apply envview_inv in H. apply InvU_env; tauto. Qed.

Lemma UpdateClientConnState_InvU s addrs a raw s' o r :
  InvU s -> UpdateClientConnState s addrs a raw = (s', o, r) -> InvU s'.
Proof.
  intros HU. rewrite UpdateClientConnState_eq. unfold ucc_init. sb.
  assert (G : forall s2 o2, InvU s2 ->
    (if (length (b_screfs s2) =? 0)%nat
     then let '(s3, _, o3) := addSubConn s2 in (s3, o2 ++ o3 ++ update_refr s3, RNone)
     else (s2, o2 ++ update_all s2, RNone)) = (s', o, r) -> InvU s').
  { intros s2 o2 H2. destruct (_ =? _)%nat; [|intros E; inv E; exact H2].
    destruct (addSubConn s2) as [[s3 ok] o3] eqn:E3. intros E; inv E.
    apply addSubConn_views in E3. destruct E3 as [_ [H _]]. eapply InvU_envview; eauto. }
  assert (G2 : forall c s2 o2, enforceMinSize (set_undet (set_cfg (set_addrs s addrs) (Some c))
                                 ((0 <? c_ucalls c) && (0 <? c_ums c))) = (s2, o2) -> InvU s2).
  { intros c s2 o2 Ei. apply enforceMinSize_views in Ei. destruct Ei as [_ [H _]].
    eapply InvU_envview; [exact H|]. reflexivity. }
  destruct (b_cfg s) eqn:Ec.
  - apply G. exact HU.
  - destruct a.
    + destruct (initializeConfig (set_addrs s addrs) None) as [s2 o2] eqn:Ei. apply G. eapply G2, Ei.
    + intros E; inv E. exact HU.
    + destruct (initializeConfig (set_addrs s addrs) raw) as [s2 o2] eqn:Ei. apply G. eapply G2, Ei.
Qed.

Lemma step_InvU raw s o order s' outs r :
  Inv s -> InvU s -> step raw s o order = (s', outs, r) -> InvU s'.
Proof.
  intros HI HU. destruct o as [addrs a| |sc st|pi m hc rk dl cc|j oc rk|dt|j|f|g|k]; cbn [step].
  - apply UpdateClientConnState_InvU, HU.
  - intros E; inv E. exact HU.
  - destruct (UpdateSubConnState s sc st order) as [s1 o1] eqn:E1. intros E; inv E.
    eapply UpdateSubConnState_Inv in E1; eauto. destruct E1 as [_ HF].
    eapply InvU_env; [apply (uf_cfg _ _ HF)|apply (uf_undet _ _ HF)|exact HU].
  - destruct (nth_error (b_published s) pi); [|intros E; inv E; exact HU].
    destruct (_ && _); [intros E; inv E; exact HU|].
    intros E. apply Pick_views in E. destruct E as [_ [H _]]. eapply InvU_envview; eauto.
  - intros E. apply Done_views in E. destruct E as [_ [H _]]. eapply InvU_envview; eauto.
  - destruct (0 <=? dt); intros E; inv E; exact HU.
  - destruct (nth_error (b_picks s) j); intros E; inv E; exact HU.
  - intros E; inv E; exact HU.
  - intros E; inv E; exact HU.
  - destruct (nth_error (b_parked s) k); [|intros E; inv E; exact HU].
    destruct (newSubConn _) as [s2 o2] eqn:En. intros E; inv E.
    apply newSubConn_views in En. destruct En as [_ [H _]]. eapply InvU_envview; [exact H|exact HU].
Qed.

Lemma full_step_InvU raw s o order s' outs r ub :
  Inv s -> InvU s -> full_step raw s o order = (s', outs, r, ub) -> InvU s'.
Proof.
  intros HI HU. rewrite full_step_eq.
  destruct (step raw s o order) as [[s1 outs1] r1] eqn:Es.
  destruct (resolve_blocked s1) as [s2 ub2] eqn:Er. intros E; inv E.
  destruct (step_Inv _ _ _ _ _ _ _ HI Es) as [HI1 _].
  destruct (resolve_blocked_spec _ _ _ HI1 Er) as [_ [Hm _]].
  apply mask_sp_views in Hm. destruct Hm as [_ Hm].
  eapply InvU_envview; [exact Hm|]. exact (step_InvU _ _ _ _ _ _ _ HI HU Es).
Qed.

(* with detection enabled both thresholds are positive *)
Lemma InvU_pos s : InvU s -> b_undet s = true -> 0 < cfg_ucalls s /\ 0 < cfg_ums s.
Proof. unfold InvU. intros -> H. apply andb_true_iff in H. lia. Qed.

(* ================================================================ the swap of a completed refresh *)
Lemma removes_app a b : removes (a ++ b) = removes a ++ removes b.
Proof. unfold removes. apply flat_map_app. Qed.

Definition swapped_slot (sc : N) (now : Z) (ref : slot) : slot :=
  mkSlot sc (sl_aff ref) (sl_streams ref) now 0 false ((sl_rcnt ref + 1) mod W32).

Lemma swap_step s sc i ref order s1 o1 :
  Inv s -> aget (b_refr s) sc = Some i -> get_slot s i = Some ref ->
  UpdateSubConnState s sc Ready order = (s1, o1) ->
  removes o1 = [sl_conn ref] /\
  b_slots s1 = upd_nth i (swapped_slot sc (b_now s)) (b_slots s) /\
  b_refr s1 = adel (b_refr s) sc /\
  b_aff s1 = rekey (b_aff s) (sl_conn ref) sc /\
  b_screfs s1 = aset (adel (b_screfs s) (sl_conn ref)) sc i /\
  aget (b_scstates s1) sc = Some Ready.
Proof.
  intros HI Hr Hs. rewrite UpdateSubConnState_cases, Hr. cbn [cstate_eqb negb]. rewrite Hs.
  pose proof (swap_ne s sc i ref HI Hr Hs) as Hne.
  unfold usc_after.
  assert (Hold : aget (b_scstates (swap_state s sc i ref)) sc =
                 Some (match aget (b_scstates s) (sl_conn ref) with Some x => x | None => Idle end)).
  { unfold swap_state; sb. rewrite aget_adel_neq by congruence. apply aget_aset_eq. }
  rewrite Hold. unfold usc_tail. rewrite usc_fin_cases. cbv zeta.
  set (oldS := match aget (b_scstates s) (sl_conn ref) with Some x => x | None => Idle end) in *.
  destruct (usc_s5_frame (swap_state s sc i ref) sc Ready oldS) as (_&_&_&_&E5&E6&_&_&E9&_&_&_&E13&E14&_).
  set (s5 := usc_s5 (usc_s3 (swap_state s sc i ref) sc Ready) sc Ready oldS) in *.
  assert (R : removes ([ORemove (sl_conn ref)] ++ usc_o3 sc Ready) = [sl_conn ref]) by reflexivity.
  assert (F : b_slots s5 = upd_nth i (swapped_slot sc (b_now s)) (b_slots s) /\
              b_refr s5 = adel (b_refr s) sc /\ b_aff s5 = rekey (b_aff s) (sl_conn ref) sc /\
              b_screfs s5 = aset (adel (b_screfs s) (sl_conn ref)) sc i /\
              aget (b_scstates s5) sc = Some Ready).
  { rewrite E9, E14, E13, E6, E5. repeat split.
    cbn [usc_s3]; sb. apply aget_aset_eq. }
  destruct (pub_cond _ _ _ _); intros E; inv E; sb.
  - split; [reflexivity|exact F].
  - split; [exact R|exact F].
Qed.

(* every other connection-state report removes nothing *)
Definition no_rm (o : list out) : Prop := removes o = [].

Lemma no_rm_app a b : no_rm a -> no_rm b -> no_rm (a ++ b).
Proof. unfold no_rm. intros Ha Hb. rewrite removes_app, Ha, Hb. reflexivity. Qed.

Lemma usc_after_no_rm s1 o1 sc st order s' o' :
  no_rm o1 -> usc_after s1 o1 sc st order = (s', o') -> no_rm o'.
Proof.
  intros Ho1. unfold usc_after. destruct (aget (b_scstates s1) sc) as [oldS|]; [|intros E; inv E; exact Ho1].
  unfold usc_tail. rewrite usc_fin_cases. cbv zeta.
  assert (Ho : no_rm (o1 ++ usc_o3 sc st)) by (apply no_rm_app; [exact Ho1|destruct st; reflexivity]).
  destruct (pub_cond _ _ _ _); intros E; inv E; [|exact Ho].
  apply no_rm_app; [exact Ho|reflexivity].
Qed.

Lemma UpdateSubConnState_no_rm s sc st order s1 o1 :
  Inv s -> (st = Ready -> aget (b_refr s) sc = None) ->
  UpdateSubConnState s sc st order = (s1, o1) -> no_rm o1.
Proof.
  intros HI Hn. rewrite UpdateSubConnState_cases.
  destruct (aget (b_refr s) sc) as [i|] eqn:Er; [|apply usc_after_no_rm; reflexivity].
  destruct (cstate_eqb_spec st Ready) as [->|Hne]; [discriminate (Hn eq_refl)|].
  cbn [negb]. intros E; inv E. reflexivity.
Qed.
