From GV Require Import Pool.Model Pool.Observe Pool.Monitors Pool.Reduce Pool.InvC02.

(* C02: a call that is routed by load (no affinity key, or a key nobody is bound
   to, and not a round-robin BIND) is placed on a least-busy channel of its
   picker's READY snapshot, and after every operation every channel's stream
   counter equals the number of calls placed on it and not yet finished.
   For every history (harness-legal or not) and every map-iteration oracle.
   Guard: fewer than 2^31 picks are made (streamsCnt is an int32). *)
Theorem C02_holds : forall raw ops,
  Forall (fun s => Z.of_nat (length (b_picks s)) < 2147483648)%Z (run_states raw init_bal ops) ->
  monitor P02 raw (observe init_bal) (run raw init_bal ops) = true.
Proof. exact C02_holds_proof. Qed.
Print Assumptions C02_holds.

(* non-vacuity: least-busy placement over two channels, growth at the watermark, completions *)
Example c02_history :
  let raw := Some (mkConfig 2 3 2 false 0 0 false []) in
  let ops := [(OpResolver 1 CfgVal, []); (OpConnState 0 Ready, []); (OpConnState 1 Ready, [1; 0]%nat);
              (OpPick 1 0 false [] None false, []); (OpPick 1 0 false [] None false, []);
              (OpPick 1 0 false [] None false, []); (OpDone 0 DOk [], []);
              (OpPick 1 0 false [] None false, []); (OpPick 1 0 false [] None false, []);
              (OpPick 1 0 false [] None false, []); (OpDone 2 DErr [], [])] in
  map ev_ret (run raw init_bal ops) =
    [RNone; RNone; RNone; RPicked 1; RPicked 0; RPicked 1; RNone; RPicked 1; RPicked 0; RNoSubConn; RNone] /\
  map (fun s => map sl_streams (b_slots s)) (run_states raw init_bal ops) =
    [[]; [0; 0]; [0; 0]; [0; 0]; [0; 1]; [1; 1]; [1; 2]; [1; 1]; [1; 2]; [2; 2]; [2; 2; 0]; [2; 1; 0]]%Z /\
  monitor P02 raw (observe init_bal) (run raw init_bal ops) = true.
Proof. vm_compute. repeat split; reflexivity. Qed.

(* an illegal history (Done on a call that is still waiting, answered RBadOp) is covered too *)
Example c02_illegal_history :
  let raw := Some (mkConfig 2 4 1 false 0 0 true [(1%N, mkMcfg BIND true)]) in
  let ops := [(OpResolver 1 CfgVal, []); (OpConnState 0 Ready, []); (OpPick 0 1 true [] None false, []);
              (OpPick 0 1 true [] None false, []); (OpDone 1 DOk [5%N], []); (OpConnState 1 Ready, []);
              (OpDone 1 DOk [6%N], []); (OpDone 0 DOk [], [])] in
  map ev_ret (run raw init_bal ops) = [RNone; RNone; RPicked 0; RBlocked; RBadOp; RNone; RNone; RNone] /\
  monitor P02 raw (observe init_bal) (run raw init_bal ops) = true.
Proof. vm_compute. split; reflexivity. Qed.

(* the monitor rejects a load-routed call placed on the busier channel *)
Example c02_bad_not_least_busy :
  let o1 := mkObs true 1 2 0 0 Ready [] [] [(0%N, Ready); (1%N, Ready)] [(0%N, 0%nat); (1%N, 1%nat)]
                  [mkSlot 0 0 1 0 0 false 0; mkSlot 1 0 0 0 0 false 0]
                  4294967295 [] false (PSnap [0; 1]%nat) 1 0 true in
  let o2 := mkObs true 1 2 0 0 Ready [] [] [(0%N, Ready); (1%N, Ready)] [(0%N, 0%nat); (1%N, 1%nat)]
                  [mkSlot 0 0 2 0 0 false 0; mkSlot 1 0 0 0 0 false 0]
                  4294967295 [] false (PSnap [0; 1]%nat) 1 0 true in
  mon_from P02 None (mkMstate [PSnap [0; 1]%nat] (Some (Ready, PSnap [0; 1]%nat))
                              [mkMpick 0 BOUND 0 false true None false 0 PPlaced] [] [] [] false (Some None) 0) o1
    [mkEvent (OpPick 0 0 false [] None false) [] (RPicked 0) [] (Some o2)] = false.
Proof. vm_compute. reflexivity. Qed.
