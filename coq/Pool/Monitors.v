(* Engine A: the properties as boolean monitors over recorded traces. *)
From GV Require Import Pool.Model Pool.Observe.
Open Scope Z_scope.

(* name, verdict, index of the first failing event (or the length) *)
Definition pool_monitors (raw : option config) (o0 : obs) (tr : list event) : list (nat * bool) := [].
