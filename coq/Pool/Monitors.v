(* Engine A: the properties C01-C09 and C20 as boolean monitors over recorded
   traces.  A monitor sees the operation, the library's calls on the fake
   ClientConn, the return value and the observation read back afterwards; it
   keeps its own small bookkeeping (published pickers, outstanding picks, the
   key->channel table it believes in, last address list per connection).  It
   never looks at model state, so it is meaningful on a trace the model rejects.
   The same functions are extracted and run on traces of the Go implementation.

   A "channel" is a pool slot (a subConnRef): the chain of connections linked by
   refresh swaps. *)
From GV Require Import Pool.Model Pool.Observe.
Open Scope Z_scope.

(* ------------------------------------------------------------ helpers on obs *)
Definition o_conn_state (o : obs) (c : N) : option cstate := aget (o_st o) c.

Definition o_conn_ready (o : obs) (c : N) : bool :=
  match o_conn_state o c with Some Ready => true | _ => false end.

Definition o_slot (o : obs) (i : nat) : option slot := nth_error (o_slots o) i.

(* channel i is READY: its current connection is in the pool and READY *)
Definition o_slot_ready (o : obs) (i : nat) : bool :=
  match o_slot o i with
  | Some sl => o_conn_ready o (sl_conn sl) &&
               match aget (o_refs o) (sl_conn sl) with Some j => Nat.eqb i j | None => false end
  | None => false
  end.

Definition o_streams (o : obs) (i : nat) : Z :=
  match o_slot o i with Some sl => sl_streams sl | None => 0 end.

Fixpoint index_from {A} (p : A -> bool) (l : list A) (k : nat) : option nat :=
  match l with
  | [] => None
  | x :: r => if p x then Some k else index_from p r (S k)
  end.

(* the slot whose current connection is c *)
Definition o_slot_of_conn (o : obs) (c : N) : option nat :=
  index_from (fun sl => N.eqb (sl_conn sl) c) (o_slots o) 0.

Definition o_ready_slots (o : obs) : list nat :=
  flat_map (fun kv => match snd kv with
                      | Ready => match aget (o_refs o) (fst kv) with Some i => [i] | None => [] end
                      | _ => []
                      end) (o_st o).

Definition o_pool_size (o : obs) : Z := Z.of_nat (length (o_refs o)).

Definition subset_nat (a b : list nat) : bool := forallb (fun x => memnat x b) a.
Definition same_set_nat (a b : list nat) : bool := subset_nat a b && subset_nat b a.

Definition census_state (o : obs) : cstate :=
  if existsb (fun kv => cstate_eqb (snd kv) Ready) (o_st o) then Ready
  else if existsb (fun kv => cstate_eqb (snd kv) Connecting) (o_st o) then Connecting
  else TransientFailure.

(* ------------------------------------------------------------ bookkeeping *)
Record mpick := mkMpick {
  mp_slot : nat;
  mp_cmd : cmd;
  mp_key : N;
  mp_hasctx : bool;
  mp_locok : bool;
  mp_deadline : option Z;
  mp_cancelled : bool;
  mp_started : Z;
  mp_status : pstatus
}.

Record mstate := mkMstate {
  ms_pubs : list picker;           (* every published picker, in order *)
  ms_lastpub : option (cstate * picker);
  ms_picks : list mpick;
  ms_home : list (N * nat);        (* key -> channel it was bound on *)
  ms_lastaddr : list (N * N);      (* connection -> last address list it was given *)
  ms_connected : list (N * bool);  (* connection -> Connect() called since its last address change *)
  ms_fail : bool;                  (* the harness' connection factory is failing *)
  ms_raw : option (option config); (* the configuration fixed by the first accepted resolver update *)
  ms_res : Z                       (* swaps that revived a channel whose old connection had been shut down (finding RES) *)
}.

Definition ms_init : mstate := mkMstate [] None [] [] [] [] false None 0.

Definition eff (raw : option config) : config := effective raw.

Definition method_of (raw : option config) (m : N) : option mcfg := aget (c_methods (eff raw)) m.

Definition pick_cmd (raw : option config) (m : N) : cmd :=
  match method_of raw m with Some mc => m_cmd mc | None => BOUND end.

Definition pick_locok (raw : option config) (m : N) : bool :=
  match method_of raw m with Some mc => m_locok mc | None => true end.

(* the key a call carries: first key of the request, for BOUND/UNBIND methods
   with a resolvable key path and the interceptor context; None = key error *)
Definition pick_key (raw : option config) (m : N) (hasctx : bool) (reqkeys : list N) : option N :=
  match method_of raw m with
  | Some mc =>
      if hasctx && (cmd_eqb (m_cmd mc) BOUND || cmd_eqb (m_cmd mc) UNBIND) then
        if m_locok mc then Some (match reqkeys with k :: _ => k | [] => 0%N end) else None
      else Some 0%N
  | None => Some 0%N
  end.

Definition is_rr_bind (raw : option config) (m : N) : bool :=
  cmd_eqb (pick_cmd raw m) BIND && c_rr (eff raw).

Fixpoint outs_pubs (outs : list out) : list (cstate * picker) :=
  match outs with
  | [] => []
  | OUpdateState st p :: r => (st, p) :: outs_pubs r
  | _ :: r => outs_pubs r
  end.

Definition last_opt {A} (l : list A) (d : option A) : option A :=
  match rev l with x :: _ => Some x | [] => d end.

Definition set_status (p : mpick) (st : pstatus) (started : Z) : mpick :=
  mkMpick (mp_slot p) (mp_cmd p) (mp_key p) (mp_hasctx p) (mp_locok p) (mp_deadline p) (mp_cancelled p) started st.

Definition set_cancelled (p : mpick) : mpick :=
  mkMpick (mp_slot p) (mp_cmd p) (mp_key p) (mp_hasctx p) (mp_locok p) (mp_deadline p) true (mp_started p) (mp_status p).

Fixpoint track_addr (outs : list out) (la : list (N * N)) (cn : list (N * bool)) : list (N * N) * list (N * bool) :=
  match outs with
  | [] => (la, cn)
  | ONewSC n a :: r => track_addr r (aset la n a) (aset cn n false)
  | OUpdAddr n a :: r => track_addr r (aset la n a) (aset cn n false)
  | OConnect n :: r => track_addr r la (aset cn n true)
  | _ :: r => track_addr r la cn
  end.

Definition o_slot_in_pool (o : obs) (i : nat) : bool :=
  match o_slot o i with
  | Some sl => match aget (o_refs o) (sl_conn sl) with Some _ => true | None => false end
  | None => false
  end.

Definition ms_with_picks (m : mstate) picks :=
  mkMstate (ms_pubs m) (ms_lastpub m) picks (ms_home m) (ms_lastaddr m) (ms_connected m) (ms_fail m) (ms_raw m) (ms_res m).
Definition ms_with_home (m : mstate) home :=
  mkMstate (ms_pubs m) (ms_lastpub m) (ms_picks m) home (ms_lastaddr m) (ms_connected m) (ms_fail m) (ms_raw m) (ms_res m).
Definition ms_with_fail (m : mstate) f :=
  mkMstate (ms_pubs m) (ms_lastpub m) (ms_picks m) (ms_home m) (ms_lastaddr m) (ms_connected m) f (ms_raw m) (ms_res m).

(* the configuration in force during/after an event: fixed by the first
   accepted resolver update (nil / wrong-type config = defaults) *)
Definition raw_in_force (raw : option config) (ms : mstate) (o : op) : option config :=
  match ms_raw ms with
  | Some r => r
  | None => match o with
            | OpResolver _ CfgVal => raw
            | OpResolver _ _ => None
            | _ => raw
            end
  end.

(* a completed refresh whose old connection had already left the pool (it was
   shut down during the refresh): the swap puts the channel back into the pool *)
Definition is_resurrection (before : obs) (ev : event) : bool :=
  match ev_op ev with
  | OpConnState sc Ready =>
      match aget (o_refr before) sc with
      | Some i => negb (o_slot_in_pool before i)
      | None => false
      end
  | _ => false
  end.

(* new bookkeeping after an event; [before]/[after] are the observations *)
Definition track (raw : option config) (ms : mstate) (before : obs) (ev : event) (after : obs) : mstate :=
  let pubs := outs_pubs (ev_out ev) in
  let '(la, cn) := track_addr (ev_out ev) (ms_lastaddr ms) (ms_connected ms) in
  let raw := raw_in_force raw ms (ev_op ev) in
  let ms1 := mkMstate (ms_pubs ms ++ map snd pubs) (last_opt pubs (ms_lastpub ms)) (ms_picks ms) (ms_home ms) la cn (ms_fail ms)
                      (match ms_raw ms with
                       | Some r => Some r
                       | None => if o_cfgset after then Some raw else None
                       end)
                      (ms_res ms + if is_resurrection before ev then 1 else 0) in
  let ms2 :=
    match ev_op ev with
    | OpPick pi m hasctx reqkeys deadline cancelled =>
        let mk i st := mkMpick i (pick_cmd raw m)
                               (match pick_key raw m hasctx reqkeys with Some k => k | None => 0%N end)
                               hasctx (pick_locok raw m) deadline cancelled (o_now after) st in
        match ev_ret ev with
        | RPicked n =>
            match o_slot_of_conn after n with
            | Some i => ms_with_picks ms1 (ms_picks ms1 ++ [mk i PPlaced])
            | None => ms1
            end
        | RBlocked =>
            let i := Z.to_nat (o_rr after mod Z.of_nat (length (o_slots after))) in
            ms_with_picks ms1 (ms_picks ms1 ++ [mk i PBlocked])
        | _ => ms1
        end
    | OpDone j oc replykeys =>
        match nth_error (ms_picks ms1) j with
        | Some p =>
            let ms1' := ms_with_picks ms1 (upd_nth j (fun p => set_status p PFinished (mp_started p)) (ms_picks ms1)) in
            match oc with
            | DOk =>
                match mp_cmd p with
                | BIND =>
                    if mp_hasctx p && mp_locok p && o_slot_in_pool before (mp_slot p)
                    then ms_with_home ms1' (fold_left (fun h k => match aget h k with Some _ => h | None => aset h k (mp_slot p) end)
                                                      replykeys (ms_home ms1'))
                    else ms1'
                | UNBIND => ms_with_home ms1' (adel (ms_home ms1') (mp_key p))
                | BOUND => ms1'
                end
            | _ => ms1'
            end
        | None => ms1
        end
    | OpCancel j => ms_with_picks ms1 (upd_nth j set_cancelled (ms_picks ms1))
    | OpFactory f => ms_with_fail ms1 f
    | _ => ms1
    end in
  (* blocked picks that returned during this event *)
  fold_left (fun m jn => ms_with_picks m (upd_nth (fst jn) (fun p => set_status p PPlaced (o_now after)) (ms_picks m)))
            (ev_ub ev) ms2.

(* ------------------------------------------------------------ per-event checks *)
Definition nth_picker (ms : mstate) (pi : nat) : option picker := nth_error (ms_pubs ms) pi.

Definition is_latest (ms : mstate) (pi : nat) : bool := Nat.eqb (S pi) (length (ms_pubs ms)).

Definition conn_of_slot (o : obs) (i : nat) : option N :=
  match o_slot o i with Some sl => Some (sl_conn sl) | None => None end.

Definition ret_is_picked (r : ret) : bool := match r with RPicked _ => true | _ => false end.

Definition ret_picked_eq (r : ret) (c : option N) : bool :=
  match r, c with RPicked n, Some m => N.eqb n m | _, _ => false end.

Definition mctx_done (now : Z) (p : mpick) : bool :=
  mp_cancelled p || match mp_deadline p with Some d => d <=? now | None => false end.

Definition has_newsc (outs : list out) : bool :=
  existsb (fun o => match o with ONewSC _ _ | ONewSCFail _ => true | _ => false end) outs.

Definition count_newsc (outs : list out) : nat :=
  length (filter (fun o => match o with ONewSC _ _ | ONewSCFail _ => true | _ => false end) outs).

Definition removes (outs : list out) : list N :=
  flat_map (fun o => match o with ORemove n => [n] | _ => [] end) outs.

Definition news (outs : list out) : list (N * N) :=
  flat_map (fun o => match o with ONewSC n a => [(n, a)] | _ => [] end) outs.

Definition eqb_slot_refresh (a b : slot) : bool := slot_refresh_eqb a b.

(* --- C01 affinity --- *)
Definition c01_state (ms : mstate) (o : obs) : bool :=
  Nat.eqb (length (o_aff o)) (length (ms_home ms)) &&
  forallb (fun kc => match aget (ms_home ms) (fst kc) with
                     | Some i => match conn_of_slot o i with Some c => N.eqb c (snd kc) | None => false end
                     | None => false
                     end) (o_aff o).

Definition c01_event (raw : option config) (ms : mstate) (before : obs) (ev : event) : bool :=
  match ev_op ev with
  | OpPick pi m hasctx reqkeys _ _ =>
      let c := pick_cmd raw m in
      if cmd_eqb c BOUND || cmd_eqb c UNBIND then
        match pick_key raw m hasctx reqkeys with
        | Some k =>
            if N.eqb k 0 then true
            else match aget (ms_home ms) k with
                 | Some i =>
                     if o_slot_ready before i then
                       (* placed nowhere else; the most recent picker does place it there *)
                       (if ret_is_picked (ev_ret ev) then ret_picked_eq (ev_ret ev) (conn_of_slot before i) else true) &&
                       (if is_latest ms pi then ret_picked_eq (ev_ret ev) (conn_of_slot before i) else true)
                     else if c_fallback (eff raw) then true       (* C08 *)
                     else negb (ret_is_picked (ev_ret ev))
                 | None => true   (* unknown key: C02 *)
                 end
        | None => true
        end
      else true
  | _ => true
  end.

(* --- C02 load spreading --- *)
Definition count_placed (picks : list mpick) (i : nat) : Z :=
  Z.of_nat (length (filter (fun p => match mp_status p with PPlaced => Nat.eqb (mp_slot p) i | _ => false end) picks)).

Definition c02_state (ms : mstate) (o : obs) : bool :=
  forallb (fun i => o_streams o i =? count_placed (ms_picks ms) i) (seq 0 (length (o_slots o))).

(* the call is routed by load: no key, or a key nobody is bound to, and not a round-robin BIND *)
Definition by_load (raw : option config) (before : obs) (m : N) (hasctx : bool) (reqkeys : list N) : bool :=
  negb (is_rr_bind raw m) &&
  match pick_key raw m hasctx reqkeys with
  | Some k => N.eqb k 0 || match aget (o_aff before) k with None => true | Some _ => false end
  | None => false
  end.

Definition c02_event (raw : option config) (ms : mstate) (before : obs) (ev : event) : bool :=
  match ev_op ev, ev_ret ev with
  | OpPick pi m hasctx reqkeys _ _, RPicked n =>
      if by_load raw before m hasctx reqkeys then
        match nth_picker ms pi, o_slot_of_conn before n with
        | Some (PSnap refs), Some i =>
            memnat i refs && forallb (fun j => o_streams before i <=? o_streams before j) refs
        | _, _ => false
        end
      else true
  | _, _ => true
  end.

(* --- C03 pool size --- *)
Definition c03_event (slack : Z) (raw : option config) (ms : mstate) (before : obs) (ev : event) (after : obs) : bool :=
  let e := eff raw in
  (* size right after the first accepted resolver update *)
  (match ev_op ev with
   | OpResolver a _ =>
       if negb (o_cfgset before) && o_cfgset after && negb (N.eqb a 0) && negb (ms_fail ms)
       then o_pool_size after =? c_min e else true
   | _ => true
   end) &&
  (* the bound *)
  (if o_cfgset after && (c_min e <=? c_max e) then o_pool_size after <=? c_max e + slack else true) &&
  (* who may create connections, and when *)
  (match ev_op ev with
   | OpResolver _ _ => if has_newsc (ev_out ev) then o_pool_size before =? 0 else true
   | OpResume _ =>
       (* second critical section of a growing call: creation re-checks the size under the lock *)
       if has_newsc (ev_out ev) then
         match ev_ret ev with
         | RNoSubConn =>
             (o_pool_size before <? c_max e) &&
             negb (existsb (fun kv => cstate_eqb (snd kv) Idle || cstate_eqb (snd kv) Connecting) (o_st before)) &&
             Nat.eqb (count_newsc (ev_out ev)) 1
         | _ => false
         end
       else true
   | OpPick pi m hasctx reqkeys _ _ =>
       if match ev_ret ev with RParked => true | _ => false end then
         (* first critical section of a growing call (parked by the harness before newSubConn) *)
         match nth_picker ms pi with
         | Some (PSnap refs) =>
             by_load raw before m hasctx reqkeys && (o_pool_size before <? c_max e) &&
             forallb (fun j => c_wm e <=? o_streams before j) refs && negb (has_newsc (ev_out ev))
         | _ => false
         end
       else
       if has_newsc (ev_out ev) then
         match ev_ret ev, nth_picker ms pi with
         | RNoSubConn, Some (PSnap refs) =>
             by_load raw before m hasctx reqkeys &&
             (o_pool_size before <? c_max e) &&
             negb (existsb (fun kv => cstate_eqb (snd kv) Idle || cstate_eqb (snd kv) Connecting) (o_st before)) &&
             forallb (fun j => c_wm e <=? o_streams before j) refs &&
             Nat.eqb (count_newsc (ev_out ev)) 1
         | _, _ => false
         end
       else
         (* at the maximum size a load-routed call is placed, even above the watermark *)
         match nth_picker ms pi with
         | Some (PSnap (_ :: _)) =>
             if by_load raw before m hasctx reqkeys && (c_max e <=? o_pool_size before)
             then ret_is_picked (ev_ret ev) else true
         | _ => true
         end
   | OpDone _ _ _ => (count_newsc (ev_out ev) <=? 1)%nat     (* a replacement: C07 *)
   | _ => negb (has_newsc (ev_out ev))
   end) &&
  (* removal only of the old connection of a completed refresh *)
  (match removes (ev_out ev) with
   | [] => true
   | [old] =>
       match ev_op ev with
       | OpConnState sc Ready =>
           match aget (o_refr before) sc with
           | Some i => match conn_of_slot before i with Some c => N.eqb c old | None => false end
           | None => false
           end
       | _ => false
       end
   | _ => false
   end).

(* --- C04 channel state --- *)
Definition is_tf (s : cstate) : bool := cstate_eqb s TransientFailure.

Definition c04_event (ms_before ms_after : mstate) (before : obs) (ev : event) (after : obs) : bool :=
  (* last published pair matches the pool *)
  (match ms_lastpub ms_after with
   | Some (st, pk) =>
       cstate_eqb st (census_state after) &&
       Bool.eqb (match pk with PErr true => true | _ => false end) (is_tf st) &&
       match pk with PErr false => false | _ => true end
   | None => true
   end) &&
  (* a snapshot published in this event is exactly the READY channels *)
  forallb (fun sp => match snd sp with
                     | PSnap refs => same_set_nat refs (o_ready_slots after) && nodupnat refs
                     | PErr _ => true
                     end) (outs_pubs (ev_out ev)) &&
  (* publication on every change of READY-ness / of the aggregate to or from
     TRANSIENT_FAILURE.  Until the first state report is recorded (gb.state is
     still its zero value Idle) the aggregate is the channel's initial state,
     which is not TRANSIENT_FAILURE. *)
  (let tf_before := if cstate_eqb (o_state before) Idle then false else is_tf (census_state before) in
   let tf_after := if cstate_eqb (o_state after) Idle then false else is_tf (census_state after) in
   if negb (same_set_nat (o_ready_slots before) (o_ready_slots after)) || negb (Bool.eqb tf_before tf_after)
   then match outs_pubs (ev_out ev) with [] => false | _ => true end
   else true).

(* --- C05 no panics --- *)
Definition c05_event (ev : event) : bool :=
  match ev_ret ev with RPanic => false | _ => true end &&
  forallb (fun jn => N.ltb (snd jn) 900000000) (ev_ub ev).

(* --- C06 progress --- *)
Definition c06_event (raw : option config) (ms_after : mstate) (ev : event) : bool :=
  match ev_ret ev with RStuck => false | _ => true end &&
  match ev_obs ev with
  | None => false
  | Some after =>
      o_mufree after &&
      (* only a round-robin BIND may wait, and only for its channel or its context *)
      (match ev_op ev, ev_ret ev with
       | OpPick _ m _ _ _ _, RBlocked => is_rr_bind raw m
       | _, RBlocked => false
       | _, _ => true
       end) &&
      forallb (fun p => match mp_status p with
                        | PBlocked =>
                            negb (mctx_done (o_now after) p) &&
                            match conn_of_slot after (mp_slot p) with
                            | Some c => negb (o_conn_ready after c)
                            | None => false
                            end
                        | _ => true
                        end) (ms_picks ms_after)
  end.

(* --- C07 unresponsive-connection refresh --- *)
Definition window_ns (e : config) (rcnt : Z) : Z := 1000000 * (2 ^ rcnt * c_ums e).
Definition window_in_range (e : config) (rcnt : Z) : bool := (rcnt <? 32) && (2 ^ rcnt * c_ums e <? W32).
(* "more than unresponsive_detection_ms * 2^k has passed since the last response", for a clock that is an
   int64 count of nanoseconds (0 <= last <= now < 2^63): from k = 64 on the window (>= 2^64 ns, detection
   is enabled so ms >= 1) cannot have passed; the test is spelled out so that evaluation never builds 2^k
   for a wild k (window_elapsed_spec in InvC07.v ties it to window_ns) *)
Definition Int64Max : Z := 9223372036854775807.
Definition window_elapsed (e : config) (rcnt last now : Z) : bool :=
  if rcnt <? 64 then last <? now - window_ns e rcnt else false.

Definition c07_event (raw : option config) (ms : mstate) (before : obs) (ev : event) (after : obs) : bool :=
  let e := eff raw in
  (if o_cfgset after then Bool.eqb (o_undet after) ((0 <? c_ucalls e) && (0 <? c_ums e)) else negb (o_undet after)) &&
  match ev_op ev with
  | OpDone j oc _ =>
      match nth_error (ms_picks ms) j with
      | Some p =>
          match o_slot before (mp_slot p), o_slot after (mp_slot p) with
          | Some sb, Some sa =>
              let now := o_now before in
              let client_dl := match oc, mp_deadline p with
                               | DDeadlineClient, Some d => d <=? now
                               | _, _ => false
                               end in
              if negb (o_undet before) then
                negb (has_newsc (ev_out ev)) && eqb_slot_refresh sb sa
              else if negb client_dl then
                (* any other completion is a response *)
                negb (has_newsc (ev_out ev)) &&
                (sl_last sa =? now) && (sl_de sa =? 0) && (sl_rcnt sa =? 0) &&
                Bool.eqb (sl_refreshing sa) (sl_refreshing sb)
              else if mp_started p <? sl_last sb then
                negb (has_newsc (ev_out ev)) && eqb_slot_refresh sb sa
              else
                (sl_de sa =? (sl_de sb + 1) mod W32) && (sl_last sa =? sl_last sb) && (sl_rcnt sa =? sl_rcnt sb) &&
                (if (0 <=? sl_last sb) && (now <=? Int64Max) then
                   let trigger := (c_ucalls e <=? (sl_de sb + 1) mod W32) && window_elapsed e (sl_rcnt sb) (sl_last sb) now &&
                                  negb (sl_refreshing sb) in
                   Bool.eqb (has_newsc (ev_out ev)) trigger
                 else true) &&
                (if has_newsc (ev_out ev) then
                   Nat.eqb (count_newsc (ev_out ev)) 1 && negb (sl_refreshing sb) &&
                   N.eqb (sl_conn sa) (sl_conn sb) &&            (* the old connection keeps serving *)
                   match news (ev_out ev) with
                   | [(n, _)] => sl_refreshing sa &&
                                 match aget (o_refr after) n with Some i => Nat.eqb i (mp_slot p) | None => false end
                   | _ => negb (sl_refreshing sa) && list_eqb nnat_eqb (o_refr before) (o_refr after)
                   end
                 else Bool.eqb (sl_refreshing sa) (sl_refreshing sb))
          | _, _ => true
          end
      | None => true
      end
  | OpConnState sc Ready =>
      match aget (o_refr before) sc with
      | Some i =>
          (* the replacement takes over the channel *)
          match o_slot before i, o_slot after i with
          | Some sb, Some sa =>
              list_eqb N.eqb (removes (ev_out ev)) [sl_conn sb] &&
              N.eqb (sl_conn sa) sc && (sl_aff sa =? sl_aff sb) &&
              (* active streams are kept; round-robin BIND calls that were waiting for this channel and are
                 handed it in this very event (ev_ub) start counting now *)
              (sl_streams sa =? sl_streams sb + Z.of_nat (length (filter (fun jn => N.eqb (snd jn) sc) (ev_ub ev)))) &&
              negb (sl_refreshing sa) && (sl_de sa =? 0) && (sl_last sa =? o_now before) &&
              (sl_rcnt sa =? (sl_rcnt sb + 1) mod W32) &&
              match aget (o_refr after) sc with None => true | Some _ => false end &&
              list_eqb nn_eqb (o_aff after) (rekey (o_aff before) (sl_conn sb) sc) &&
              match aget (o_refs after) sc with Some i' => Nat.eqb i i' | None => false end &&
              match aget (o_refs after) (sl_conn sb) with None => true | Some _ => false end &&
              o_conn_ready after sc
          | _, _ => false
          end
      | None => match removes (ev_out ev) with [] => true | _ => false end
      end
  | _ => match removes (ev_out ev) with [] => true | _ => false end
  end.

(* --- C08 fallback --- *)
Definition c08_state (o : obs) : bool :=
  forallb (fun kc => o_conn_ready o (snd kc) &&
                     match aget (o_refs o) (snd kc) with Some _ => true | None => false end) (o_fb o).

Definition c08_event (raw : option config) (ms : mstate) (before : obs) (ev : event) (after : obs) : bool :=
  c08_state after &&
  match ev_op ev with
  | OpPick pi m hasctx reqkeys _ _ =>
      (* fallback never changes the binding *)
      list_eqb nn_eqb (o_aff before) (o_aff after) &&
      let c := pick_cmd raw m in
      if c_fallback (eff raw) && (cmd_eqb c BOUND || cmd_eqb c UNBIND) then
        match pick_key raw m hasctx reqkeys with
        | Some k =>
            if N.eqb k 0 then true
            else match aget (ms_home ms) k with
                 | Some i =>
                     if o_slot_ready before i then
                       (* home READY (again): every call for the key goes home *)
                       (if ret_is_picked (ev_ret ev) then ret_picked_eq (ev_ret ev) (conn_of_slot before i) else true) &&
                       (if is_latest ms pi then ret_picked_eq (ev_ret ev) (conn_of_slot before i) else true)
                     else if is_latest ms pi then
                       match aget (o_fb before) k with
                       | Some sc => ret_picked_eq (ev_ret ev) (Some sc)         (* sticky stand-in *)
                       | None =>
                           match o_ready_slots before with
                           | [] => negb (ret_is_picked (ev_ret ev))
                           | _ => match ev_ret ev with
                                  | RPicked n => o_conn_ready before n &&
                                                 match aget (o_fb after) k with Some sc => N.eqb sc n | None => false end
                                  | _ => false
                                  end
                           end
                       end
                     else match ev_ret ev with
                          | RPicked n => o_conn_ready before n
                          | _ => true
                          end
                 | None => true
                 end
        | None => true
        end
      else true
  | _ => true
  end.

(* --- C09 round-robin BIND --- *)
Definition c09_event (raw : option config) (ms_before ms_after : mstate) (before : obs) (ev : event) (after : obs) : bool :=
  (match ev_op ev with
   | OpPick pi m hasctx reqkeys deadline cancelled =>
       match nth_picker ms_before pi with
       | Some (PSnap (_ :: _)) =>
           if is_rr_bind raw m then
             let rr := (o_rr before + 1) mod W32 in
             (o_rr after =? rr) &&
             let i := Z.to_nat (rr mod Z.of_nat (length (o_slots before))) in
             match conn_of_slot before i with
             | Some c =>
                 let done := cancelled || match deadline with Some d => d <=? o_now before | None => false end in
                 if o_conn_ready before c || done
                 then ret_picked_eq (ev_ret ev) (Some c)
                 else match ev_ret ev with RBlocked => true | _ => false end
             | None => false
             end
           else o_rr after =? o_rr before
       | _ => o_rr after =? o_rr before
       end
   | _ => o_rr after =? o_rr before
   end) &&
  (* a waiting call is handed its channel's connection, and only once it is READY or its context ended *)
  forallb (fun jn => match nth_error (ms_picks ms_before) (fst jn) with
                     | Some p =>
                         match mp_status p, conn_of_slot after (mp_slot p), nth_error (ms_picks ms_after) (fst jn) with
                         | PBlocked, Some c, Some p' =>
                             N.eqb c (snd jn) && (o_conn_ready after c || mctx_done (o_now after) p')
                         | _, _, _ => false
                         end
                     | None => false
                     end) (ev_ub ev).

(* --- C20 resolver results --- *)
Definition c20_event (ms_after : mstate) (before : obs) (ev : event) (after : obs) : bool :=
  forallb (fun c => match aget (ms_lastaddr ms_after) c, aget (ms_connected ms_after) c with
                    | Some a, Some true => N.eqb a (o_addrs after)
                    | _, _ => false
                    end) (akeys (o_refs after) ++ akeys (o_refr after)) &&
  match ev_op ev with
  | OpResolverErr =>
      match ev_out ev with [] => true | _ => false end &&
      match diff_obs before after with None => true | Some _ => false end
  | OpResolver a _ =>
      match ev_ret ev with
      | RNone => N.eqb (o_addrs after) a
      | _ => true
      end
  | _ => N.eqb (o_addrs after) (o_addrs before)
  end.

(* ------------------------------------------------------------ folding over a trace *)
(* P03R: C03 with the size bound relaxed by one per revived channel; used only to
   recognise known finding RES (the full-strength monitor is P03) *)
Inductive prop_id := P01 | P02 | P03 | P03R | P04 | P05 | P06 | P07 | P08 | P09 | P20.

Definition event_ok (pid : prop_id) (raw : option config) (ms : mstate) (before : obs) (ev : event) : bool :=
  match ev_obs ev with
  | None =>
      (* the history ended in this event (panic / stuck / lock held) *)
      match pid with
      | P05 => c05_event ev
      | P06 => false
      | _ => true
      end
  | Some after =>
      let ms' := track raw ms before ev after in
      let raw := raw_in_force raw ms (ev_op ev) in
      match pid with
      | P01 => c01_event raw ms before ev && c01_state ms' after
      | P02 => c02_event raw ms before ev && c02_state ms' after
      | P03 => c03_event 0 raw ms before ev after
      | P03R => c03_event (ms_res ms') raw ms before ev after
      | P04 => c04_event ms ms' before ev after
      | P05 => c05_event ev
      | P06 => c06_event raw ms' ev
      | P07 => c07_event raw ms before ev after
      | P08 => c08_event raw ms before ev after
      | P09 => c09_event raw ms ms' before ev after
      | P20 => c20_event ms' before ev after
      end
  end.

Fixpoint mon_from (pid : prop_id) (raw : option config) (ms : mstate) (before : obs) (tr : list event) : bool :=
  match tr with
  | [] => true
  | ev :: r =>
      event_ok pid raw ms before ev &&
      match ev_obs ev with
      | Some after => mon_from pid raw (track raw ms before ev after) after r
      | None => true
      end
  end.

Definition monitor (pid : prop_id) (raw : option config) (o0 : obs) (tr : list event) : bool :=
  mon_from pid raw ms_init o0 tr.

Definition C01_ok := monitor P01.
Definition C02_ok := monitor P02.
Definition C03_ok := monitor P03.
Definition C03R_ok := monitor P03R.
Definition C04_ok := monitor P04.

(* trigger of known finding RES: the trace contains a revival, and C03 fails only through it *)
Fixpoint has_resurrection (before : obs) (tr : list event) : bool :=
  match tr with
  | [] => false
  | ev :: r => is_resurrection before ev ||
               match ev_obs ev with Some after => has_resurrection after r | None => false end
  end.

Definition known_RES (raw : option config) (o0 : obs) (tr : list event) : bool :=
  has_resurrection o0 tr && negb (C03_ok raw o0 tr) && C03R_ok raw o0 tr.
Definition C05_ok := monitor P05.
Definition C06_ok := monitor P06.
Definition C07_ok := monitor P07.
Definition C08_ok := monitor P08.
Definition C09_ok := monitor P09.
Definition C20_ok := monitor P20.

(* --- C09, additional clause kept separate (known finding RR2): a round-robin
   BIND pick must be assigned a channel of the POOL.  The code rotates over
   scRefList, which keeps the slots of connections that were shut down, so a
   BIND call can be assigned a dead channel (and then waits until its context
   ends).  Only reachable when a pool connection is shut down without the
   balancer having removed it (gRPC never does that). --- *)
Definition c09d_event (raw : option config) (ms : mstate) (before : obs) (ev : event) : bool :=
  match ev_op ev with
  | OpPick pi m _ _ _ _ =>
      match nth_picker ms pi with
      | Some (PSnap (_ :: _)) =>
          if is_rr_bind raw m then
            let rr := (o_rr before + 1) mod W32 in
            o_slot_in_pool before (Z.to_nat (rr mod Z.of_nat (length (o_slots before))))
          else true
      | _ => true
      end
  | _ => true
  end.

Fixpoint c09d_from (raw : option config) (ms : mstate) (before : obs) (tr : list event) : bool :=
  match tr with
  | [] => true
  | ev :: r =>
      match ev_obs ev with
      | Some after =>
          c09d_event (raw_in_force raw ms (ev_op ev)) ms before ev &&
          c09d_from raw (track raw ms before ev after) after r
      | None => true
      end
  end.

Definition C09D_ok (raw : option config) (o0 : obs) (tr : list event) : bool := c09d_from raw ms_init o0 tr.

(* trigger of known finding RR2: C09 proper holds, only the dead-slot clause fails *)
Definition known_RR2 (raw : option config) (o0 : obs) (tr : list event) : bool :=
  C09_ok raw o0 tr && negb (C09D_ok raw o0 tr).

(* --- C09, the fairness window itself, kept separate (known finding RR1): while the pool
   composition is unchanged, successive round-robin BIND calls advance by ONE CHANNEL, cyclically
   (equivalently: any n*k consecutive ones put exactly k on each of the n channels).  c09_event
   already checks that the uint32 cursor advances by one and that the call is assigned slot
   (cursor mod n); this clause compares the slot with the previous call's slot.  It can only fail
   where the cursor wraps around 2^32 and n does not divide 2^32 (C09W_ok_no_wrap in InvC09W.v). --- *)
Definition c09w_event (raw : option config) (ms : mstate) (prevn : option nat) (before : obs) (ev : event)
  : bool * option nat :=
  match ev_op ev with
  | OpPick pi m _ _ _ _ =>
      match nth_picker ms pi with
      | Some (PSnap (_ :: _)) =>
          if is_rr_bind raw m then
            let n := length (o_slots before) in
            let zn := Z.of_nat n in
            (match prevn with
             | Some n0 => if Nat.eqb n0 n
                          then ((o_rr before + 1) mod W32) mod zn =? ((o_rr before mod zn) + 1) mod zn
                          else true
             | None => true
             end, Some n)
          else (true, prevn)
      | _ => (true, prevn)
      end
  | _ => (true, prevn)
  end.

Fixpoint c09w_from (raw : option config) (ms : mstate) (prevn : option nat) (before : obs) (tr : list event) : bool :=
  match tr with
  | [] => true
  | ev :: r =>
      match ev_obs ev with
      | Some after =>
          let '(ok, prevn') := c09w_event (raw_in_force raw ms (ev_op ev)) ms prevn before ev in
          ok && c09w_from raw (track raw ms before ev after) prevn' after r
      | None => true
      end
  end.

Definition C09W_ok (raw : option config) (o0 : obs) (tr : list event) : bool := c09w_from raw ms_init None o0 tr.

(* trigger of known finding RR1: C09 proper and the dead-slot clause hold, only the step across the wrap fails *)
Definition known_RR1 (raw : option config) (o0 : obs) (tr : list event) : bool :=
  C09_ok raw o0 tr && C09D_ok raw o0 tr && negb (C09W_ok raw o0 tr).

(* --- C03, additional clause kept separate (added after seeded change C03-r2c,
   which corrupted scStates itself): growth is judged against the connection
   states that were REPORTED to the balancer, tracked from the trace alone -
   a call may add a channel only if no pool connection's last reported state
   is Idle or Connecting (a connection is Idle from its creation until its
   first report). --- *)
Fixpoint rep_new (outs : list out) (rep : list (N * cstate)) : list (N * cstate) :=
  match outs with
  | [] => rep
  | ONewSC n _ :: r => rep_new r (aset rep n Idle)
  | _ :: r => rep_new r rep
  end.

Definition rep_track (rep : list (N * cstate)) (ev : event) : list (N * cstate) :=
  let rep1 := match ev_op ev with
              | OpConnState sc st => match aget rep sc with Some _ => aset rep sc st | None => rep end
              | _ => rep
              end in
  rep_new (ev_out ev) rep1.

Definition c03s_event (rep : list (N * cstate)) (before : obs) (ev : event) : bool :=
  match ev_op ev with
  | OpPick _ _ _ _ _ _ | OpResume _ =>
      if has_newsc (ev_out ev) then
        forallb (fun kv => match aget rep (fst kv) with
                           | Some Idle | Some Connecting | None => false
                           | _ => true
                           end) (o_refs before)
      else true
  | _ => true
  end.

Fixpoint c03s_from (rep : list (N * cstate)) (before : obs) (tr : list event) : bool :=
  match tr with
  | [] => true
  | ev :: r =>
      c03s_event rep before ev &&
      match ev_obs ev with
      | Some after => c03s_from (rep_track rep ev) after r
      | None => true
      end
  end.

Definition C03S_ok (raw : option config) (o0 : obs) (tr : list event) : bool := c03s_from [] o0 tr.

(* --- C03, additional clause kept separate (added after seeded change C03-r5b, which cleared a channel's
   `refreshing` flag while its replacement stayed registered, so that a second replacement could be created):
   "a refresh may hold ONE extra connection per refreshing channel until the swap" as a condition on every
   observed state: the registered replacements (refreshingScRefs) and the refreshing channels are in
   bijection - every registered replacement belongs to a channel that is marked refreshing, no channel has two,
   and every refreshing channel has one. --- *)
Fixpoint nodup_nat (l : list nat) : bool :=
  match l with
  | [] => true
  | x :: r => negb (memnat x r) && nodup_nat r
  end.

Fixpoint refreshing_slots (i : nat) (sl : list slot) : list nat :=
  match sl with
  | [] => []
  | x :: r => if sl_refreshing x then i :: refreshing_slots (S i) r else refreshing_slots (S i) r
  end.

Definition c03x_state (o : obs) : bool :=
  forallb (fun ci => match o_slot o (snd ci) with Some x => sl_refreshing x | None => false end) (o_refr o) &&
  nodup_nat (map snd (o_refr o)) &&
  forallb (fun i => memnat i (map snd (o_refr o))) (refreshing_slots 0 (o_slots o)).

Fixpoint c03x_from (tr : list event) : bool :=
  match tr with
  | [] => true
  | ev :: r => match ev_obs ev with Some after => c03x_state after && c03x_from r | None => true end
  end.

Definition C03X_ok (raw : option config) (o0 : obs) (tr : list event) : bool := c03x_state o0 && c03x_from tr.
