(* Engine A proofs: the structural invariant of the balancer model and its
   preservation by every model function.

   Inv s = InvK s /\ InvF s /\ InvP s /\ InvC s /\ InvG s /\ InvS s
     InvK  key discipline of the maps, maps vs slots, freshness below b_next
     InvF  fallback table
     InvP  published pickers
     InvC  connectivity counters (modulo 2^64) and aggregate state
     InvG  nothing exists before the configuration is set
     InvS  picks, parked picks, stream counters (int32 wrap of the census)
   Each part is a predicate over the *views* of the state it depends on, so a
   record update of an unrelated field preserves it by conversion. *)
From GV Require Import Base.AListFacts Pool.Model Pool.Lemmas.
From Coq Require Import Lia ZifyBool Permutation.
Open Scope Z_scope.

Notation conns s := (map sl_conn (b_slots s)).
Notation refrs s := (map sl_refreshing (b_slots s)).
Notation streamsv s := (map sl_streams (b_slots s)).

(* ---------------------------------------------------------------- InvK *)
Record invK (screfs : list (N * nat)) (stkeys : list N) (refr : list (N * nat)) (aff : list (N * N))
            (cn : list N) (rf : list bool) (next : N) : Prop := mkInvK {
  nd_screfs : NoDup (akeys screfs);
  nd_scstates : NoDup stkeys;
  nd_refr : NoDup (akeys refr);
  nd_aff : NoDup (akeys aff);
  same_keys : forall c, In c (akeys screfs) <-> In c stkeys;
  screfs_slot : forall c i, aget screfs c = Some i -> nth_error cn i = Some c;
  refr_slot : forall c i, aget refr c = Some i -> nth_error rf i = Some true;
  refr_inj : forall c c' i, aget refr c = Some i -> aget refr c' = Some i -> c = c';
  refreshing_refr : forall i, nth_error rf i = Some true -> exists c, aget refr c = Some i;
  nd_conns : NoDup cn;
  refr_fresh : forall c, In c (akeys refr) -> ~ In c cn;
  refr_lt : forall c, In c (akeys refr) -> (c < next)%N;
  conns_lt : forall c, In c cn -> (c < next)%N;
  aff_conn : forall k c, aget aff k = Some c -> In c cn
}.

Definition InvK (s : bal) : Prop :=
  invK (b_screfs s) (akeys (b_scstates s)) (b_refr s) (b_aff s) (conns s) (refrs s) (b_next s).

(* ---------------------------------------------------------------- InvF *)
Record invF (fb : list (N * N)) (screfs : list (N * nat)) (st : list (N * cstate)) : Prop := mkInvF {
  nd_fb : NoDup (akeys fb);
  fb_ok : forall k c, aget fb k = Some c -> (exists i, aget screfs c = Some i) /\ aget st c = Some Ready
}.

Definition InvF (s : bal) : Prop := invF (b_fb s) (b_screfs s) (b_scstates s).

(* ---------------------------------------------------------------- InvP *)
Record invP (pk : picker) (pubs : list picker) (state : cstate)
            (st : list (N * cstate)) (screfs : list (N * nat)) (nslots : nat) : Prop := mkInvP {
  picker_last : pk = last pubs (PErr false);
  snap_ready : forall refs, pk = PSnap refs -> NoDup refs /\ forall i, In i refs <-> In i (ready_of st screfs);
  unpub_state : pubs = [] -> state <> TransientFailure;
  pub_tf : pubs <> [] -> (pk = PErr true <-> state = TransientFailure) /\ pk <> PErr false /\ state <> Idle;
  pub_valid : forall refs i, In (PSnap refs) pubs -> In i refs -> (i < nslots)%nat
}.

Definition InvP (s : bal) : Prop :=
  invP (b_picker s) (b_published s) (b_state s) (b_scstates s) (b_screfs s) (length (b_slots s)).

(* ---------------------------------------------------------------- InvC *)
Definition count_st (x : cstate) (st : list (N * cstate)) : Z :=
  Z.of_nat (acount (fun y => cstate_eqb y x) st).

Definition eval3 (r cn tf : Z) : cstate :=
  if 0 <? r then Ready else if 0 <? cn then Connecting else TransientFailure.

Record invC (nr nc nt : Z) (state : cstate) (st : list (N * cstate)) : Prop := mkInvC {
  cnt_ready : nr = count_st Ready st mod W64;
  cnt_conn : nc = count_st Connecting st mod W64;
  cnt_tf : nt = count_st TransientFailure st mod W64;
  state_eval : state <> Idle -> state = eval3 nr nc nt
}.

Definition InvC (s : bal) : Prop := invC (b_nready s) (b_nconn s) (b_ntf s) (b_state s) (b_scstates s).

(* ---------------------------------------------------------------- InvG *)
Record invG (cfg : option config) (screfs : list (N * nat)) (st : list (N * cstate)) (refr : list (N * nat))
            (pubs : list picker) (picks : list pick) (slots : list slot) (aff fb : list (N * N))
            (parked : list nat) (undet : bool) (next : N) (state : cstate) : Prop := mkInvG {
  cfg_none : cfg = None ->
    screfs = [] /\ st = [] /\ refr = [] /\ pubs = [] /\ picks = [] /\ slots = [] /\ aff = [] /\ fb = [] /\
    parked = [] /\ undet = false /\ next = 0%N /\ state = Idle
}.

Definition InvG (s : bal) : Prop :=
  invG (b_cfg s) (b_screfs s) (b_scstates s) (b_refr s) (b_published s) (b_picks s) (b_slots s)
       (b_aff s) (b_fb s) (b_parked s) (b_undet s) (b_next s) (b_state s).

(* ---------------------------------------------------------------- InvS *)
Definition placed_on (i : nat) (p : pick) : bool :=
  match pk_status p with PPlaced => Nat.eqb (pk_slot p) i | _ => false end.

Definition count_placed_on (picks : list pick) (i : nat) : Z :=
  Z.of_nat (length (filter (placed_on i) picks)).

Record invS (picks : list pick) (sv : list Z) (parked : list nat) (npub : nat) : Prop := mkInvS {
  picks_slot : forall p, In p picks -> (pk_slot p < length sv)%nat;
  parked_valid : forall pi, In pi parked -> (pi < npub)%nat;
  streams_ok : forall i z, nth_error sv i = Some z -> z = wrap32s (count_placed_on picks i)
}.

Definition InvS (s : bal) : Prop :=
  invS (b_picks s) (streamsv s) (b_parked s) (length (b_published s)).

(* ---------------------------------------------------------------- Inv *)
Definition Inv (s : bal) : Prop := InvK s /\ InvF s /\ InvP s /\ InvC s /\ InvG s /\ InvS s.

(* blocked round-robin picks that cannot proceed: holds after a full step *)
Definition can_proceed (s : bal) (p : pick) : bool :=
  match get_slot s (pk_slot p) with
  | Some r => cstate_eqb (conn_state s (sl_conn r)) Ready || ctx_done (b_now s) p
  | None => false
  end.

Definition Quiescent (s : bal) : Prop :=
  forall p, In p (b_picks s) -> pk_status p = PBlocked -> can_proceed s p = false.

Lemma Inv_init : Inv init_bal.
Proof.
  unfold Inv, InvK, InvF, InvP, InvC, InvG, InvS, init_bal; sb. repeat apply conj.
  - constructor; cbn; try (constructor; fail); try tauto; try discriminate.
    all: try (intros ? [|?]; discriminate).
    intros [|?]; discriminate.
  - constructor; cbn; [constructor|discriminate].
  - constructor; cbn; try tauto; try discriminate; try congruence.
  - constructor; cbn; try reflexivity. congruence.
  - constructor; cbn; tauto.
  - constructor; cbn; try tauto. intros [|?]; discriminate.
Qed.

Lemma Quiescent_init : Quiescent init_bal.
Proof. intros p []. Qed.

(* ---------------------------------------------------------------- derived facts *)
Section Derived.
  Variable s : bal.
  Hypothesis HK : InvK s.

  Lemma screfs_lt c i : aget (b_screfs s) c = Some i -> (i < length (b_slots s))%nat.
  Proof.
    intros H. apply (screfs_slot _ _ _ _ _ _ _ HK) in H. apply nth_error_Some_lt in H.
    rewrite map_length in H. exact H.
  Qed.

  Lemma screfs_get_slot c i :
    aget (b_screfs s) c = Some i -> exists sl, get_slot s i = Some sl /\ sl_conn sl = c.
  Proof. intros H. apply (screfs_slot _ _ _ _ _ _ _ HK) in H. apply nth_error_map_Some in H. exact H. Qed.

  Lemma screfs_inj c c' i : aget (b_screfs s) c = Some i -> aget (b_screfs s) c' = Some i -> c = c'.
  Proof.
    intros H1 H2. apply (screfs_slot _ _ _ _ _ _ _ HK) in H1, H2. congruence.
  Qed.

  Lemma screfs_conn_lt c i : aget (b_screfs s) c = Some i -> (c < b_next s)%N.
  Proof.
    intros H. apply (screfs_slot _ _ _ _ _ _ _ HK) in H. apply nth_error_In in H.
    apply (conns_lt _ _ _ _ _ _ _ HK), H.
  Qed.

  Lemma next_fresh_screfs : aget (b_screfs s) (b_next s) = None.
  Proof. destruct (aget (b_screfs s) (b_next s)) eqn:E; auto. apply screfs_conn_lt in E. lia. Qed.

  Lemma next_fresh_scstates : aget (b_scstates s) (b_next s) = None.
  Proof.
    apply aget_None_iff. intros H. apply (same_keys _ _ _ _ _ _ _ HK) in H.
    apply aget_Some_keys in H. destruct H as [i H]. rewrite next_fresh_screfs in H. discriminate.
  Qed.

  Lemma next_fresh_refr : aget (b_refr s) (b_next s) = None.
  Proof.
    apply aget_None_iff. intros H. apply (refr_lt _ _ _ _ _ _ _ HK) in H. lia.
  Qed.

  Lemma next_fresh_conns : ~ In (b_next s) (conns s).
  Proof. intros H. apply (conns_lt _ _ _ _ _ _ _ HK) in H. lia. Qed.

  Lemma scstates_screfs c x : aget (b_scstates s) c = Some x -> exists i, aget (b_screfs s) c = Some i.
  Proof.
    intros H. apply aget_In_keys in H. apply (same_keys _ _ _ _ _ _ _ HK) in H.
    apply aget_Some_keys in H. exact H.
  Qed.

  Lemma screfs_scstates c i : aget (b_screfs s) c = Some i -> exists x, aget (b_scstates s) c = Some x.
  Proof.
    intros H. apply aget_In_keys in H. apply (same_keys _ _ _ _ _ _ _ HK) in H.
    apply aget_Some_keys in H. exact H.
  Qed.

  Lemma refr_not_screfs c i : aget (b_refr s) c = Some i -> aget (b_screfs s) c = None.
  Proof.
    intros H. destruct (aget (b_screfs s) c) as [j|] eqn:E; auto.
    apply aget_In_keys in H. apply (refr_fresh _ _ _ _ _ _ _ HK) in H.
    apply (screfs_slot _ _ _ _ _ _ _ HK) in E. apply nth_error_In in E. tauto.
  Qed.

  Lemma refr_not_scstates c i : aget (b_refr s) c = Some i -> aget (b_scstates s) c = None.
  Proof.
    intros H. destruct (aget (b_scstates s) c) as [x|] eqn:E; auto.
    apply scstates_screfs in E. destruct E as [j E]. rewrite (refr_not_screfs _ _ H) in E. discriminate.
  Qed.

  Lemma refr_get_slot c i :
    aget (b_refr s) c = Some i -> exists sl, get_slot s i = Some sl /\ sl_refreshing sl = true.
  Proof. intros H. apply (refr_slot _ _ _ _ _ _ _ HK) in H. apply nth_error_map_Some in H. exact H. Qed.

  Lemma is_ready_iff i :
    In i (ready_slots s) <-> is_ready (b_scstates s) (b_screfs s) i.
  Proof. rewrite ready_slots_eq. apply In_ready_of_aget. apply (nd_scstates _ _ _ _ _ _ _ HK). Qed.

  Lemma NoDup_ready_slots : NoDup (ready_slots s).
  Proof.
    rewrite ready_slots_eq. apply NoDup_ready_of; [apply (nd_scstates _ _ _ _ _ _ _ HK)|apply screfs_inj].
  Qed.

  Lemma ready_slot_lt i : In i (ready_slots s) -> (i < length (b_slots s))%nat.
  Proof. rewrite is_ready_iff. intros [c [_ H]]. eapply screfs_lt, H. Qed.
End Derived.

Arguments nd_screfs {_ _ _ _ _ _ _} _.
Arguments nd_scstates {_ _ _ _ _ _ _} _.
Arguments nd_refr {_ _ _ _ _ _ _} _.
Arguments nd_aff {_ _ _ _ _ _ _} _.
Arguments same_keys {_ _ _ _ _ _ _} _.
Arguments screfs_slot {_ _ _ _ _ _ _} _.
Arguments refr_slot {_ _ _ _ _ _ _} _.
Arguments refr_inj {_ _ _ _ _ _ _} _.
Arguments refreshing_refr {_ _ _ _ _ _ _} _.
Arguments nd_conns {_ _ _ _ _ _ _} _.
Arguments refr_fresh {_ _ _ _ _ _ _} _.
Arguments refr_lt {_ _ _ _ _ _ _} _.
Arguments conns_lt {_ _ _ _ _ _ _} _.
Arguments aff_conn {_ _ _ _ _ _ _} _.
Arguments nd_fb {_ _ _} _.
Arguments fb_ok {_ _ _} _.
Arguments picker_last {_ _ _ _ _ _} _.
Arguments snap_ready {_ _ _ _ _ _} _.
Arguments unpub_state {_ _ _ _ _ _} _.
Arguments pub_tf {_ _ _ _ _ _} _.
Arguments pub_valid {_ _ _ _ _ _} _.
Arguments cnt_ready {_ _ _ _ _} _.
Arguments cnt_conn {_ _ _ _ _} _.
Arguments cnt_tf {_ _ _ _ _} _.
Arguments state_eval {_ _ _ _ _} _.
Arguments cfg_none {_ _ _ _ _ _ _ _ _ _ _ _ _} _.
Arguments picks_slot {_ _ _ _} _.
Arguments parked_valid {_ _ _ _} _.
Arguments streams_ok {_ _ _ _} _.

Ltac unfold_inv := unfold Inv, InvK, InvF, InvP, InvC, InvG, InvS in *.

(* frame: the views an invariant part depends on are syntactically unchanged
   (after simplification of record updates and of value-preserving slot updates) *)
Ltac frame :=
  unfold InvK, InvF, InvP, InvC, InvG, InvS in *; sb;
  rewrite ?map_upd_nth_same, ?upd_nth_length by (intros; reflexivity);
  try assumption.

Lemma InvG_some s : b_cfg s <> None -> InvG s.
Proof. intros H. constructor. intros E. congruence. Qed.

Lemma InvG_cfg_pubs s : InvG s -> b_published s <> [] -> b_cfg s <> None.
Proof. intros HG H E. apply (cfg_none HG) in E. tauto. Qed.

Lemma InvG_cfg_picks s : InvG s -> b_picks s <> [] -> b_cfg s <> None.
Proof. intros HG H E. apply (cfg_none HG) in E. tauto. Qed.

Lemma InvG_cfg_parked s : InvG s -> b_parked s <> [] -> b_cfg s <> None.
Proof. intros HG H E. apply (cfg_none HG) in E. tauto. Qed.

Lemma InvG_cfg_scstates s : InvG s -> b_scstates s <> [] -> b_cfg s <> None.
Proof. intros HG H E. apply (cfg_none HG) in E. tauto. Qed.

Lemma InvG_cfg_refr s : InvG s -> b_refr s <> [] -> b_cfg s <> None.
Proof. intros HG H E. apply (cfg_none HG) in E. tauto. Qed.

Lemma InvG_cfg_slots s : InvG s -> b_slots s <> [] -> b_cfg s <> None.
Proof. intros HG H E. apply (cfg_none HG) in E. tauto. Qed.

Lemma aget_nonnil {V} (m : list (N * V)) k v : aget m k = Some v -> m <> [].
Proof. destruct m; [discriminate|congruence]. Qed.

Lemma nth_error_nonnil {A} (l : list A) n x : nth_error l n = Some x -> l <> [].
Proof. destruct l; [destruct n; discriminate|congruence]. Qed.

(* the published pickers only matter through their ready set *)
Lemma invP_ready_equiv pk pubs state st refs n st' refs' n' :
  invP pk pubs state st refs n ->
  (forall i, In i (ready_of st refs) <-> In i (ready_of st' refs')) -> (n <= n')%nat ->
  invP pk pubs state st' refs' n'.
Proof.
  intros HP He Hn. destruct HP as [P1 P2 P3 P4 P5]. constructor; auto.
  - intros refs0 E. destruct (P2 _ E) as [H1 H2]. split; auto. intros i. rewrite H2. apply He.
  - intros refs0 i H1 H2. specialize (P5 _ _ H1 H2). lia.
Qed.

(* ---------------------------------------------------------------- slot updates that keep connection, refreshing flag and stream count *)
Lemma Inv_upd_slot_same s i f :
  (forall r, sl_conn (f r) = sl_conn r) -> (forall r, sl_refreshing (f r) = sl_refreshing r) ->
  (forall r, sl_streams (f r) = sl_streams r) ->
  Inv s -> Inv (upd_slot s i f).
Proof.
  intros H1 H2 H3 (HK & HF & HP & HC & HG & HS). repeat apply conj.
  - unfold InvK in *; sb. rewrite !map_upd_nth_same by auto. exact HK.
  - exact HF.
  - unfold InvP in *; sb. rewrite upd_nth_length. exact HP.
  - exact HC.
  - constructor; sb. intros E. destruct (cfg_none HG E) as (?&?&?&?&?&Hs&?). rewrite Hs. destruct i; cbn; tauto.
  - unfold InvS in *; sb. rewrite !map_upd_nth_same by auto. exact HS.
Qed.

(* ---------------------------------------------------------------- a new pool connection *)
Definition add_state (s : bal) : bal :=
  set_scstates
    (set_slots
       (set_screfs (set_next s (N.succ (b_next s))) (aset (b_screfs s) (b_next s) (length (b_slots s))))
       (b_slots s ++ [mkSlot (b_next s) 0 0 (b_now s) 0 false 0]))
    (aset (b_scstates s) (b_next s) Idle).

Lemma count_placed_on_out picks n :
  (forall p, In p picks -> (pk_slot p < n)%nat) -> count_placed_on picks n = 0.
Proof.
  intros H. unfold count_placed_on. replace (filter (placed_on n) picks) with (@nil pick); [reflexivity|].
  symmetry. induction picks as [|p r IH]; cbn; auto.
  unfold placed_on at 1. destruct (pk_status p); try (apply IH; intros; apply H; cbn; auto).
  destruct (Nat.eqb_spec (pk_slot p) n) as [E|E]; [specialize (H p (or_introl eq_refl)); lia|].
  apply IH; intros; apply H; cbn; auto.
Qed.

Lemma ready_of_add st refs c n :
  NoDup (akeys st) -> aget st c = None ->
  forall i, In i (ready_of st refs) <-> In i (ready_of (aset st c Idle) (aset refs c n)).
Proof.
  intros ND Hc i. rewrite !In_ready_of_aget by auto using NoDup_akeys_aset. unfold is_ready.
  split; intros [c' [H1 H2]]; exists c'.
  - assert (c <> c') by congruence. rewrite !aget_aset_neq by auto. auto.
  - rewrite !aget_aset in *. destruct (N.eqb_spec c c'); [discriminate|auto].
Qed.

Lemma count_st_aset_absent x st c y :
  aget st c = None -> count_st x (aset st c y) = count_st x st + (if cstate_eqb y x then 1 else 0).
Proof.
  intros H. unfold count_st. rewrite acount_aset_absent by auto.
  destruct (cstate_eqb y x); cbn; lia.
Qed.

Lemma Inv_add_state s : b_cfg s <> None -> Inv s -> Inv (add_state s).
Proof.
  intros Hcfg (HK & HF & HP & HC & HG & HS).
  pose proof (next_fresh_screfs s HK) as F1. pose proof (next_fresh_scstates s HK) as F2.
  pose proof (next_fresh_refr s HK) as F3. pose proof (next_fresh_conns s HK) as F4.
  unfold add_state. repeat apply conj.
  - (* InvK *)
    unfold InvK in *; sb. rewrite !map_app. cbn [map sl_conn sl_refreshing].
    destruct HK as [K1 K2 K3 K4 K5 K6 K7 K8 K9 K10 K11 K12 K13 K14]. constructor; auto.
    + apply NoDup_akeys_aset; auto.
    + apply NoDup_akeys_aset; auto.
    + intros c. rewrite !In_akeys_aset, K5. tauto.
    + intros c i. rewrite aget_aset. destruct (N.eqb_spec (b_next s) c) as [<-|Hne].
      * intros E; inv E. rewrite <- (map_length sl_conn). apply nth_error_app_last.
      * intros E. apply K6 in E. rewrite nth_error_app1; [auto|]. eapply nth_error_Some_lt, E.
    + intros c i E. apply K7 in E. rewrite nth_error_app1; [auto|]. eapply nth_error_Some_lt, E.
    + intros i E. apply nth_error_snoc in E. destruct E as [E|[_ E]]; [auto|discriminate].
    + apply NoDup_app_single; auto.
    + intros c Hc Hin. apply in_app_iff in Hin. destruct Hin as [Hin|[<-|[]]].
      * eapply K11; eauto.
      * apply K12 in Hc. lia.
    + intros c Hc. apply K12 in Hc. lia.
    + intros c Hin. apply in_app_iff in Hin. destruct Hin as [Hin|[<-|[]]]; [apply K13 in Hin|]; lia.
    + intros k c E. apply in_app_iff. left. eapply K14, E.
  - (* InvF *)
    unfold InvF in *; sb. destruct HF as [F5 F6]. constructor; auto.
    intros k c E. destruct (F6 _ _ E) as [[i Hi] Hr]. rewrite !aget_aset.
    destruct (N.eqb_spec (b_next s) c) as [<-|Hne]; [congruence|]. eauto.
  - (* InvP *)
    unfold InvP in *; sb. eapply invP_ready_equiv; [exact HP| |rewrite app_length; lia].
    apply ready_of_add; auto. apply (nd_scstates HK).
  - (* InvC *)
    unfold InvC in *; sb. destruct HC as [C1 C2 C3 C4]. constructor; auto;
      rewrite count_st_aset_absent by auto; cbn [cstate_eqb]; rewrite Z.add_0_r; auto.
  - apply InvG_some. exact Hcfg.
  - (* InvS *)
    unfold InvS in *; sb. rewrite map_app. cbn [map sl_streams].
    destruct HS as [S1 S2 S3]. constructor; auto.
    + intros p Hp. apply S1 in Hp. rewrite app_length. cbn. lia.
    + intros i z E. apply nth_error_snoc in E. destruct E as [E|[-> ->]]; [auto|].
      rewrite count_placed_on_out; [reflexivity|auto].
Qed.

(* ---------------------------------------------------------------- frames *)
(* everything but the pool itself (scstates, screfs, slots, next) is unchanged *)
Record grow_frame (s s' : bal) : Prop := mkGrowFrame {
  gf_cfg : b_cfg s' = b_cfg s;
  gf_addrs : b_addrs s' = b_addrs s;
  gf_nready : b_nready s' = b_nready s;
  gf_nconn : b_nconn s' = b_nconn s;
  gf_ntf : b_ntf s' = b_ntf s;
  gf_state : b_state s' = b_state s;
  gf_aff : b_aff s' = b_aff s;
  gf_fb : b_fb s' = b_fb s;
  gf_rr : b_rr s' = b_rr s;
  gf_refr : b_refr s' = b_refr s;
  gf_undet : b_undet s' = b_undet s;
  gf_picker : b_picker s' = b_picker s;
  gf_published : b_published s' = b_published s;
  gf_picks : b_picks s' = b_picks s;
  gf_now : b_now s' = b_now s;
  gf_fail : b_fail s' = b_fail s;
  gf_gate : b_gate s' = b_gate s;
  gf_parked : b_parked s' = b_parked s;
  gf_next : (b_next s <= b_next s')%N;
  gf_slots : exists l, b_slots s' = b_slots s ++ l
}.

Lemma grow_frame_refl s : grow_frame s s.
Proof. constructor; try reflexivity; try lia. exists []; rewrite app_nil_r; reflexivity. Qed.

Lemma grow_frame_trans s1 s2 s3 : grow_frame s1 s2 -> grow_frame s2 s3 -> grow_frame s1 s3.
Proof.
  intros [] []. constructor; try congruence; try lia.
  destruct gf_slots0 as [l1 E1], gf_slots1 as [l2 E2]. exists (l1 ++ l2). rewrite E2, E1, app_assoc. reflexivity.
Qed.

Lemma grow_frame_add_state s : grow_frame s (add_state s).
Proof. constructor; try reflexivity; try (cbn; lia). eexists; reflexivity. Qed.

(* ---------------------------------------------------------------- cc_new_subconn / addSubConn *)
Definition cannot_create (s : bal) : bool := b_fail s || N.eqb (b_addrs s) 0.

Lemma cc_new_subconn_cases s :
  (cannot_create s = true /\ cc_new_subconn s = (s, None, [ONewSCFail (b_addrs s)])) \/
  (cannot_create s = false /\
   cc_new_subconn s = (set_next s (N.succ (b_next s)), Some (b_next s), [ONewSC (b_next s) (b_addrs s)])).
Proof. unfold cc_new_subconn, cannot_create. destruct (b_fail s || N.eqb (b_addrs s) 0); auto. Qed.

Lemma addSubConn_cases s :
  (cannot_create s = true /\ addSubConn s = (s, false, [ONewSCFail (b_addrs s)])) \/
  (cannot_create s = false /\
   addSubConn s = (add_state s, true, [ONewSC (b_next s) (b_addrs s); OConnect (b_next s)])).
Proof.
  unfold addSubConn. destruct (cc_new_subconn_cases s) as [[H ->]|[H ->]]; [left|right]; split; auto.
Qed.

Lemma addSubConn_Inv s s' ok o :
  b_cfg s <> None -> Inv s -> addSubConn s = (s', ok, o) -> Inv s' /\ grow_frame s s'.
Proof.
  intros Hc HI E. destruct (addSubConn_cases s) as [[_ E']|[_ E']]; rewrite E' in E; inv E.
  - split; [auto|apply grow_frame_refl].
  - split; [apply Inv_add_state; auto|apply grow_frame_add_state].
Qed.

(* ---------------------------------------------------------------- enforceMinSize *)
Lemma enforceMinSize_ind (P : bal -> list out -> Prop) s :
  P s [] ->
  (forall s1 o1 s2 ok o2, P s1 o1 -> pool_size s1 < cfg_min s1 -> addSubConn s1 = (s2, ok, o2) -> P s2 (o1 ++ o2)) ->
  forall s' o, enforceMinSize s = (s', o) -> P s' o.
Proof.
  intros H0 Hstep s' o. unfold enforceMinSize.
  set (n := Z.to_N (cfg_min s - pool_size s)). clearbody n.
  assert (HI : let '(s1, _, o1) := N.iter n enforce_iter (s, false, []) in P s1 o1).
  { apply N.iter_invariant; [|exact H0].
    intros [[s1 stop] o1] H1. unfold enforce_iter. destruct stop; [exact H1|].
    destruct (Z.ltb_spec (pool_size s1) (cfg_min s1)) as [Hlt|Hge]; [|exact H1].
    destruct (addSubConn s1) as [[s2 ok] o2] eqn:E. eapply Hstep; eauto. }
  destruct (N.iter n enforce_iter (s, false, [])) as [[s1 stop] o1]. intros E; inv E. exact HI.
Qed.

Lemma enforceMinSize_Inv s s' o :
  b_cfg s <> None -> Inv s -> enforceMinSize s = (s', o) -> Inv s' /\ grow_frame s s'.
Proof.
  intros Hc HI. revert s' o.
  apply (enforceMinSize_ind (fun s' _ => Inv s' /\ grow_frame s s')).
  - split; [auto|apply grow_frame_refl].
  - intros s1 o1 s2 ok o2 [HI1 HF1] _ E.
    assert (Hc1 : b_cfg s1 <> None) by (rewrite (gf_cfg _ _ HF1); auto).
    destruct (addSubConn_Inv _ _ _ _ Hc1 HI1 E) as [HI2 HF2]. split; [auto|eapply grow_frame_trans; eauto].
Qed.

(* ---------------------------------------------------------------- fields outside the invariant *)
Lemma Inv_set_addrs s v : Inv s -> Inv (set_addrs s v).
Proof. intros H; exact H. Qed.
Lemma Inv_set_now s v : Inv s -> Inv (set_now s v).
Proof. intros H; exact H. Qed.
Lemma Inv_set_fail s v : Inv s -> Inv (set_fail s v).
Proof. intros H; exact H. Qed.
Lemma Inv_set_gate s v : Inv s -> Inv (set_gate s v).
Proof. intros H; exact H. Qed.
Lemma Inv_set_rr s v : Inv s -> Inv (set_rr s v).
Proof. intros H; exact H. Qed.

Lemma Inv_set_cfg_undet s c u : Inv s -> Inv (set_undet (set_cfg s (Some c)) u).
Proof.
  intros (HK & HF & HP & HC & HG & HS). repeat apply conj; try assumption.
  apply InvG_some. cbn. discriminate.
Qed.

(* ---------------------------------------------------------------- initializeConfig / UpdateClientConnState *)
Lemma initializeConfig_Inv s raw s' o :
  Inv s -> initializeConfig s raw = (s', o) ->
  Inv s' /\ grow_frame (set_undet (set_cfg s (Some (effective raw)))
                                  ((0 <? c_ucalls (effective raw)) && (0 <? c_ums (effective raw)))) s'.
Proof.
  intros HI E. unfold initializeConfig in E.
  eapply enforceMinSize_Inv in E; [exact E|cbn; discriminate|apply Inv_set_cfg_undet, HI].
Qed.

(* the state after the configuration step of a resolver update *)
Definition ucc_init (s : bal) (addrs : N) (a : cfgarg) (raw : option config) : option (bal * list out) :=
  let s1 := set_addrs s addrs in
  match b_cfg s1 with
  | Some _ => Some (s1, [])
  | None =>
      match a with
      | CfgWrongType => None
      | CfgNil => Some (initializeConfig s1 None)
      | CfgVal => Some (initializeConfig s1 raw)
      end
  end.

Lemma UpdateClientConnState_eq s addrs a raw :
  UpdateClientConnState s addrs a raw =
  match ucc_init s addrs a raw with
  | None => (set_addrs s addrs, [], RCfgErr)
  | Some (s2, o2) =>
      if (length (b_screfs s2) =? 0)%nat then
        let '(s3, _, o3) := addSubConn s2 in (s3, o2 ++ o3 ++ update_refr s3, RNone)
      else (s2, o2 ++ update_all s2, RNone)
  end.
Proof. reflexivity. Qed.

Lemma ucc_init_Inv s addrs a raw s2 o2 :
  Inv s -> ucc_init s addrs a raw = Some (s2, o2) -> Inv s2 /\ b_cfg s2 <> None /\ b_addrs s2 = addrs.
Proof.
  intros HI. unfold ucc_init. sb. destruct (b_cfg s) as [c|] eqn:Ec.
  - intros E; inv E. split; [apply Inv_set_addrs, HI|]. cbn. split; [congruence|reflexivity].
  - destruct a; try discriminate; intros E; inv E.
    + destruct (initializeConfig (set_addrs s addrs) None) as [s' o'] eqn:E. inv H0.
      destruct (initializeConfig_Inv _ _ _ _ (Inv_set_addrs _ addrs HI) E) as [H1 H2]. split; auto.
      rewrite (gf_cfg _ _ H2), (gf_addrs _ _ H2). cbn. split; [discriminate|reflexivity].
    + destruct (initializeConfig (set_addrs s addrs) raw) as [s' o'] eqn:E. inv H0.
      destruct (initializeConfig_Inv _ _ _ _ (Inv_set_addrs _ addrs HI) E) as [H1 H2]. split; auto.
      rewrite (gf_cfg _ _ H2), (gf_addrs _ _ H2). cbn. split; [discriminate|reflexivity].
Qed.

Lemma UpdateClientConnState_Inv s addrs a raw s' o r :
  Inv s -> UpdateClientConnState s addrs a raw = (s', o, r) -> Inv s'.
Proof.
  intros HI. rewrite UpdateClientConnState_eq.
  destruct (ucc_init s addrs a raw) as [[s2 o2]|] eqn:E0.
  - destruct (ucc_init_Inv _ _ _ _ _ _ HI E0) as [HI2 [Hc2 _]].
    destruct (length (b_screfs s2) =? 0)%nat.
    + destruct (addSubConn s2) as [[s3 ok] o3] eqn:E3. intros E; inv E.
      eapply addSubConn_Inv in E3; eauto. tauto.
    + intros E; inv E. auto.
  - intros E; inv E. apply Inv_set_addrs, HI.
Qed.

(* ================================================================ UpdateSubConnState *)
(* --- decomposition of the function --- *)
Definition swap_state (s : bal) (sc : N) (i : nat) (ref : slot) : bal :=
  let oldSc := sl_conn ref in
  let inherited := match aget (b_scstates s) oldSc with Some x => x | None => Idle end in
  let s1 := set_scstates s (aset (b_scstates s) sc inherited) in
  let s2 := set_refr s1 (adel (b_refr s1) sc) in
  let s3 := set_screfs s2 (adel (b_screfs s2) oldSc) in
  let s4 := set_scstates s3 (adel (b_scstates s3) oldSc) in
  let s5 := set_screfs s4 (aset (b_screfs s4) sc i) in
  let s6 := set_aff s5 (rekey (b_aff s5) oldSc sc) in
  let s7 := set_fb s6 (rekey (b_fb s6) oldSc sc) in
  upd_slot s7 i (fun r => mkSlot sc (sl_aff r) (sl_streams r) (b_now s7) 0 false ((sl_rcnt r + 1) mod W32)).

Definition usc_s3 (s1 : bal) (sc : N) (st : cstate) : bal :=
  let s2 := set_scstates s1 (aset (b_scstates s1) sc st) in
  match st with
  | Shutdown => set_scstates (set_screfs s2 (adel (b_screfs s2) sc)) (adel (b_scstates s2) sc)
  | _ => s2
  end.

Definition usc_o3 (sc : N) (st : cstate) : list out :=
  match st with Idle => [OConnect sc] | _ => [] end.

Definition usc_s5 (s3 : bal) (sc : N) (st oldS : cstate) : bal :=
  let s4 := if cstate_eqb oldS Ready && negb (cstate_eqb st oldS)
            then set_fb s3 (del_values (b_fb s3) sc) else s3 in
  if negb (cstate_eqb oldS Ready) && cstate_eqb st Ready
  then set_fb s4 (filter (fun kv => negb (match aget (b_aff s4) (fst kv) with
                                          | Some c => N.eqb c sc | None => false end)) (b_fb s4))
  else s4.

Definition pub_cond (st oldS agg oldAgg : cstate) : bool :=
  negb (Bool.eqb (cstate_eqb st Ready) (cstate_eqb oldS Ready)) ||
  negb (Bool.eqb (cstate_eqb agg TransientFailure) (cstate_eqb oldAgg TransientFailure)).

Definition usc_fin (s5 : bal) (o : list out) (st oldS : cstate) (order : list nat) : bal * list out :=
  let oldAgg := b_state s5 in
  let '(s6, agg) := recordTransition s5 oldS st in
  let s7 := set_state s6 agg in
  if pub_cond st oldS agg oldAgg
  then let s8 := regeneratePicker s7 order in
       (set_published s8 (b_published s8 ++ [b_picker s8]), o ++ [OUpdateState agg (b_picker s8)])
  else (s7, o).

Definition usc_tail (s1 : bal) (o1 : list out) (sc : N) (st oldS : cstate) (order : list nat) : bal * list out :=
  usc_fin (usc_s5 (usc_s3 s1 sc st) sc st oldS) (o1 ++ usc_o3 sc st) st oldS order.

Definition usc_after (s1 : bal) (o1 : list out) (sc : N) (st : cstate) (order : list nat) : bal * list out :=
  match aget (b_scstates s1) sc with
  | None => (s1, o1)
  | Some oldS => usc_tail s1 o1 sc st oldS order
  end.

Lemma UpdateSubConnState_cases s sc st order :
  UpdateSubConnState s sc st order =
  match aget (b_refr s) sc with
  | Some i =>
      if negb (cstate_eqb st Ready) then (s, [])
      else match get_slot s i with
           | None => usc_after s [] sc st order
           | Some ref => usc_after (swap_state s sc i ref) [ORemove (sl_conn ref)] sc st order
           end
  | None => usc_after s [] sc st order
  end.
Proof.
  unfold UpdateSubConnState.
  assert (T : forall s1 o1,
    match aget (b_scstates s1) sc with
    | None => (s1, o1)
    | Some oldS =>
        let s2 := set_scstates s1 (aset (b_scstates s1) sc st) in
        let '(s3, o3) :=
          match st with
          | Idle => (s2, [OConnect sc])
          | Shutdown => (set_scstates (set_screfs s2 (adel (b_screfs s2) sc)) (adel (b_scstates s2) sc), [])
          | _ => (s2, [])
          end in
        let s4 := if cstate_eqb oldS Ready && negb (cstate_eqb st oldS)
                  then set_fb s3 (del_values (b_fb s3) sc) else s3 in
        let s5 := if negb (cstate_eqb oldS Ready) && cstate_eqb st Ready
                  then set_fb s4 (filter (fun kv => negb (match aget (b_aff s4) (fst kv) with
                                                          | Some c => N.eqb c sc | None => false end)) (b_fb s4))
                  else s4 in
        let oldAgg := b_state s5 in
        let '(s6, agg) := recordTransition s5 oldS st in
        let s7 := set_state s6 agg in
        if negb (Bool.eqb (cstate_eqb st Ready) (cstate_eqb oldS Ready)) ||
           negb (Bool.eqb (cstate_eqb agg TransientFailure) (cstate_eqb oldAgg TransientFailure))
        then let s8 := regeneratePicker s7 order in
             (set_published s8 (b_published s8 ++ [b_picker s8]), o1 ++ o3 ++ [OUpdateState agg (b_picker s8)])
        else (s7, o1 ++ o3)
    end = usc_after s1 o1 sc st order).
  { intros s1 o1. unfold usc_after. destruct (aget (b_scstates s1) sc) as [oldS|]; [|reflexivity].
    unfold usc_tail, usc_fin, usc_s5, usc_s3, usc_o3, pub_cond.
    destruct st; cbv zeta;
      match goal with |- context [recordTransition ?a ?b ?c] => destruct (recordTransition a b c) as [s6 agg] end;
      match goal with |- context [if ?c then _ else _] => destruct c end; rewrite <- ?app_assoc, ?app_nil_r; reflexivity. }
  destruct (aget (b_refr s) sc) as [i|]; [|apply T].
  destruct (negb (cstate_eqb st Ready)); [reflexivity|].
  destruct (get_slot s i) as [ref|]; apply T.
Qed.

(* --- the swap of a completed refresh keeps the invariant --- *)
Lemma count_st_swap x st sc oldSc :
  NoDup (akeys st) -> aget st sc = None -> sc <> oldSc ->
  count_st x (adel (aset st sc (match aget st oldSc with Some y => y | None => Idle end)) oldSc) =
  count_st x st + (match aget st oldSc with Some _ => 0 | None => if cstate_eqb Idle x then 1 else 0 end).
Proof.
  intros ND Hsc Hne. unfold count_st.
  destruct (aget st oldSc) as [y|] eqn:E.
  - pose proof (acount_adel_present (fun y => cstate_eqb y x) (aset st sc y) oldSc y) as H.
    rewrite aget_aset_neq in H by auto. specialize (H (NoDup_akeys_aset _ _ _ ND) E).
    rewrite acount_aset_absent in H by auto. lia.
  - rewrite adel_absent by (rewrite aget_aset_neq; auto).
    rewrite acount_aset_absent by auto. destruct (cstate_eqb Idle x); cbn; lia.
Qed.

Section Swap.
  Variables (s : bal) (sc : N) (i : nat) (ref : slot).
  Hypothesis HI : Inv s.
  Hypothesis Hr : aget (b_refr s) sc = Some i.
  Hypothesis Hs : get_slot s i = Some ref.

  Let HK : InvK s := proj1 HI.

  Lemma swap_ci : nth_error (conns s) i = Some (sl_conn ref).
  Proof. apply nth_error_map_Some. eauto. Qed.

  Lemma swap_fresh_conns : ~ In sc (conns s).
  Proof. apply (refr_fresh HK). eapply aget_In_keys, Hr. Qed.

  Lemma swap_ne : sc <> sl_conn ref.
  Proof. intros E. apply swap_fresh_conns. rewrite E. eapply nth_error_In, swap_ci. Qed.

  Lemma swap_sc_refs : aget (b_screfs s) sc = None.
  Proof. eapply refr_not_screfs; eauto. Qed.

  Lemma swap_sc_st : aget (b_scstates s) sc = None.
  Proof. eapply refr_not_scstates; eauto. Qed.

  Lemma swap_old_slot j : aget (b_screfs s) (sl_conn ref) = Some j -> j = i.
  Proof.
    intros E. apply (screfs_slot HK) in E. eapply NoDup_nth_error_inj; [apply (nd_conns HK)|exact E|apply swap_ci].
  Qed.

  Lemma swap_InvK : InvK (swap_state s sc i ref).
  Proof.
    pose proof swap_ci as Hci. pose proof swap_fresh_conns as Hf. pose proof swap_ne as Hne.
    pose proof swap_sc_refs as Hsr. pose proof swap_sc_st as Hss.
    unfold InvK, swap_state; sb.
    rewrite (map_upd_nth sl_conn _ (fun _ => sc)) by reflexivity.
    rewrite (map_upd_nth sl_refreshing _ (fun _ => false)) by reflexivity.
    destruct HK as [K1 K2 K3 K4 K5 K6 K7 K8 K9 K10 K11 K12 K13 K14].
    assert (Hri : nth_error (refrs s) i = Some true) by (eapply K7; eauto).
    constructor.
    - apply NoDup_akeys_aset, NoDup_akeys_adel, K1.
    - apply NoDup_akeys_adel, NoDup_akeys_aset, K2.
    - apply NoDup_akeys_adel, K3.
    - rewrite akeys_rekey. exact K4.
    - intros c. rewrite In_akeys_aset, !In_akeys_adel, In_akeys_aset, K5.
      split; [intros [->|[H1 H2]]; auto|intros [H1 [->|H2]]; auto].
    - intros c j. rewrite aget_aset. destruct (N.eqb_spec sc c) as [<-|Hc].
      + intros E; inv E. rewrite nth_error_upd_nth_eq, Hci. reflexivity.
      + rewrite aget_adel. destruct (N.eqb_spec (sl_conn ref) c) as [<-|Hc']; [discriminate|].
        intros E. apply K6 in E. rewrite nth_error_upd_nth_neq; auto. congruence.
    - intros c j. rewrite aget_adel. destruct (N.eqb_spec sc c) as [<-|Hc]; [discriminate|].
      intros E. rewrite nth_error_upd_nth_neq; [eapply K7; eauto|].
      intros <-. apply Hc. eapply K8; eauto.
    - intros c c' j. rewrite !aget_adel.
      destruct (N.eqb_spec sc c); [discriminate|]. destruct (N.eqb_spec sc c'); [discriminate|]. apply K8.
    - intros j. rewrite nth_error_upd_nth. destruct (Nat.eqb_spec i j) as [<-|Hj].
      + rewrite Hri. discriminate.
      + intros E. destruct (K9 _ E) as [c Hc]. exists c. rewrite aget_adel.
        destruct (N.eqb_spec sc c) as [<-|]; [congruence|auto].
    - apply NoDup_upd_nth_fresh; auto.
    - intros c Hc Hin. apply In_akeys_adel in Hc. destruct Hc as [Hc1 Hc2].
      apply In_upd_nth_const in Hin. destruct Hin as [Hin|Hin]; [eapply K11; eauto|congruence].
    - intros c Hc. apply In_akeys_adel in Hc. apply K12, Hc.
    - intros c Hin. apply In_upd_nth_const in Hin. destruct Hin as [Hin| ->]; [auto|].
      apply K12. eapply aget_In_keys, Hr.
    - intros k c. rewrite aget_rekey. destruct (aget (b_aff s) k) as [c0|] eqn:E; [|discriminate].
      cbn. intros E'; inv E'. destruct (N.eqb_spec c0 (sl_conn ref)) as [->|Hc0].
      + apply nth_error_In with (n := i). rewrite nth_error_upd_nth_eq, Hci. reflexivity.
      + apply In_upd_nth_other; [eapply K14; eauto|]. rewrite Hci. congruence.
  Qed.

  Lemma swap_ready_equiv j :
    is_ready (b_scstates s) (b_screfs s) j <->
    is_ready (b_scstates (swap_state s sc i ref)) (b_screfs (swap_state s sc i ref)) j.
  Proof.
    pose proof swap_ne as Hne. pose proof swap_sc_refs as Hsr. pose proof swap_sc_st as Hss.
    unfold swap_state; sb. unfold is_ready. split.
    - intros [c [H1 H2]]. destruct (N.eq_dec c (sl_conn ref)) as [->|Hc].
      + exists sc. rewrite aget_adel_neq, !aget_aset_eq by auto. rewrite H1.
        apply swap_old_slot in H2. subst. auto.
      + assert (c <> sc) by congruence.
        exists c. rewrite aget_adel_neq, !aget_aset_neq, aget_adel_neq by auto. auto.
    - intros [c [H1 H2]]. rewrite aget_adel, !aget_aset in *.
      destruct (N.eqb_spec (sl_conn ref) c) as [_|Hc]; [discriminate|].
      destruct (N.eqb_spec sc c) as [Heq|Hc'].
      + subst c. injection H2 as E2; subst j. destruct (aget (b_scstates s) (sl_conn ref)) as [x|] eqn:E; [|discriminate].
        inv H1. exists (sl_conn ref). split; auto.
        destruct (scstates_screfs s HK _ _ E) as [j' Hj']. rewrite Hj'. f_equal. apply swap_old_slot, Hj'.
      + rewrite aget_adel_neq in H2 by auto. eauto.
  Qed.

  Lemma swap_InvF : InvF (swap_state s sc i ref).
  Proof.
    pose proof swap_ne as Hne. pose proof swap_sc_refs as Hsr. pose proof swap_sc_st as Hss.
    assert (HF : InvF s) by apply HI.
    unfold InvF, swap_state in *; sb. destruct HF as [F1 F2]. constructor.
    + rewrite akeys_rekey. exact F1.
    + intros k c. rewrite aget_rekey. destruct (aget (b_fb s) k) as [c0|] eqn:E; [|discriminate].
      cbn [option_map]. intros E'; inv E'. destruct (F2 _ _ E) as [[j Hj] Hst].
      destruct (N.eqb_spec c0 (sl_conn ref)) as [->|Hc0].
      * rewrite aget_aset_eq, aget_adel_neq, aget_aset_eq by auto. rewrite Hst. eauto.
      * assert (c0 <> sc) by congruence.
        rewrite aget_aset_neq, !aget_adel_neq, aget_aset_neq by auto. eauto.
  Qed.

  Lemma swap_InvP : InvP (swap_state s sc i ref).
  Proof.
    pose proof swap_InvK as HK'.
    assert (HP : InvP s) by apply HI.
    unfold InvP in *. replace (length (b_slots (swap_state s sc i ref))) with (length (b_slots s))
      by (unfold swap_state; sb; rewrite upd_nth_length; reflexivity).
    replace (b_picker (swap_state s sc i ref)) with (b_picker s) by reflexivity.
    replace (b_published (swap_state s sc i ref)) with (b_published s) by reflexivity.
    replace (b_state (swap_state s sc i ref)) with (b_state s) by reflexivity.
    eapply invP_ready_equiv; [exact HP| |lia].
    intros j. rewrite !In_ready_of_aget; [apply swap_ready_equiv| |apply (nd_scstates HK)].
    apply (nd_scstates HK').
  Qed.

  Lemma swap_InvC : InvC (swap_state s sc i ref).
  Proof.
    pose proof swap_ne as Hne. pose proof swap_sc_st as Hss.
    assert (HC : InvC s) by apply HI.
    pose proof (nd_scstates HK) as ND.
    unfold InvC, swap_state in *; sb. destruct HC as [C1 C2 C3 C4].
    constructor; [| | |exact C4]; rewrite count_st_swap by assumption;
      destruct (aget (b_scstates s) (sl_conn ref)); cbn [cstate_eqb]; rewrite Z.add_0_r; assumption.
  Qed.

  Lemma swap_InvS : InvS (swap_state s sc i ref).
  Proof.
    assert (HS : InvS s) by apply HI.
    unfold InvS, swap_state in *; sb. rewrite map_upd_nth_same by reflexivity. exact HS.
  Qed.

  Lemma swap_Inv : Inv (swap_state s sc i ref).
  Proof.
    repeat apply conj.
    - apply swap_InvK.
    - apply swap_InvF.
    - apply swap_InvP.
    - apply swap_InvC.
    - apply InvG_some. change (b_cfg (swap_state s sc i ref)) with (b_cfg s).
      eapply InvG_cfg_refr; [apply HI|]. eapply aget_nonnil; eauto.
    - apply swap_InvS.
  Qed.
End Swap.

(* --- the tail: state recording, fallback clean-up, counters, publication --- *)
Definition cnt_upd (x : cstate) (n : Z) (a b : cstate) : Z :=
  let n1 := if cstate_eqb a x then (n + (W64 - 1)) mod W64 else n in
  if cstate_eqb b x then (n1 + 1) mod W64 else n1.

Lemma recordTransition_eq s a b :
  recordTransition s a b =
  (set_counts s (cnt_upd Ready (b_nready s) a b) (cnt_upd Connecting (b_nconn s) a b)
                (cnt_upd TransientFailure (b_ntf s) a b),
   eval3 (cnt_upd Ready (b_nready s) a b) (cnt_upd Connecting (b_nconn s) a b)
         (cnt_upd TransientFailure (b_ntf s) a b)).
Proof. unfold recordTransition, bump, cnt_upd, eval3. destruct a, b; cbn [cstate_eqb]; reflexivity. Qed.

Lemma cnt_upd_correct x n c c' a b :
  n = c mod W64 ->
  c' + (if cstate_eqb a x then 1 else 0) = c + (if cstate_eqb b x then 1 else 0) ->
  cnt_upd x n a b = c' mod W64.
Proof.
  intros -> H. unfold cnt_upd. destruct (cstate_eqb a x), (cstate_eqb b x).
  - rewrite mod_dec', mod_inc. f_equal. lia.
  - rewrite mod_dec'. f_equal. lia.
  - rewrite mod_inc. f_equal. lia.
  - f_equal. lia.
Qed.

Lemma eval3_not_idle r cn tf : eval3 r cn tf <> Idle.
Proof. unfold eval3. destruct (0 <? r); [discriminate|]. destruct (0 <? cn); discriminate. Qed.

Definition regen_picker (agg : cstate) (rs order : list nat) : picker :=
  if cstate_eqb agg TransientFailure then PErr true else PSnap (if is_perm order rs then order else rs).

Lemma usc_fin_cases s5 o st oldS order :
  let r := cnt_upd Ready (b_nready s5) oldS st in
  let cn := cnt_upd Connecting (b_nconn s5) oldS st in
  let tf := cnt_upd TransientFailure (b_ntf s5) oldS st in
  let agg := eval3 r cn tf in
  let s7 := set_state (set_counts s5 r cn tf) agg in
  usc_fin s5 o st oldS order =
  if pub_cond st oldS agg (b_state s5) then
    let pk := regen_picker agg (ready_slots s5) order in
    (set_published (set_picker s7 pk) (b_published s5 ++ [pk]), o ++ [OUpdateState agg pk])
  else (s7, o).
Proof.
  cbv zeta. unfold usc_fin. rewrite recordTransition_eq. cbv zeta. sb.
  destruct (pub_cond _ _ _ _); [|reflexivity].
  unfold regeneratePicker, regen_picker. sb.
  destruct (cstate_eqb _ TransientFailure); reflexivity.
Qed.

Lemma usc_s3_shutdown s1 sc :
  usc_s3 s1 sc Shutdown =
  set_scstates (set_screfs s1 (adel (b_screfs s1) sc)) (adel (aset (b_scstates s1) sc Shutdown) sc).
Proof. reflexivity. Qed.

Lemma usc_s3_other s1 sc st : st <> Shutdown -> usc_s3 s1 sc st = set_scstates s1 (aset (b_scstates s1) sc st).
Proof. destruct st; try reflexivity. congruence. Qed.

(* only the fallback table differs between s3 and s5 *)
Lemma usc_s5_eq s3 sc st oldS : usc_s5 s3 sc st oldS = set_fb s3 (b_fb (usc_s5 s3 sc st oldS)).
Proof.
  unfold usc_s5. destruct (cstate_eqb oldS Ready && negb (cstate_eqb st oldS));
    destruct (negb (cstate_eqb oldS Ready) && cstate_eqb st Ready); sb; try reflexivity.
  all: destruct s3; reflexivity.
Qed.

Lemma usc_s5_fb s3 sc st oldS :
  NoDup (akeys (b_fb s3)) ->
  NoDup (akeys (b_fb (usc_s5 s3 sc st oldS))) /\
  forall k c, aget (b_fb (usc_s5 s3 sc st oldS)) k = Some c ->
              aget (b_fb s3) k = Some c /\ (oldS = Ready -> st <> Ready -> c <> sc).
Proof.
  intros ND. unfold usc_s5.
  destruct (cstate_eqb_spec oldS Ready) as [->|Ho]; cbn [andb negb].
  - rewrite cstate_eqb_sym. destruct (cstate_eqb_spec Ready st) as [<-|Hs]; cbn [negb]; sb.
    + split; [auto|]. intros k c H. split; [auto|congruence].
    + split; [apply NoDup_akeys_del_values, ND|]. intros k c H.
      apply aget_del_values in H; auto. tauto.
  - destruct (cstate_eqb st Ready); sb.
    + split; [apply NoDup_akeys_filter, ND|]. intros k c H.
      apply aget_filter_Some in H; auto. split; [tauto|congruence].
    + split; [auto|]. intros k c H. split; [auto|congruence].
Qed.

Section Tail.
  Variables (s1 : bal) (sc : N) (st oldS : cstate).
  Hypothesis HI : Inv s1.
  Hypothesis Hold : aget (b_scstates s1) sc = Some oldS.

  Let HK : InvK s1 := proj1 HI.

  Lemma tail_sc_in : In sc (akeys (b_scstates s1)).
  Proof. eapply aget_In_keys, Hold. Qed.

  Lemma tail_InvK3 : InvK (usc_s3 s1 sc st).
  Proof.
    pose proof tail_sc_in as Hin.
    destruct (cstate_eqb_spec st Shutdown) as [->|Hne].
    - rewrite usc_s3_shutdown. unfold InvK; sb.
      destruct HK as [K1 K2 K3 K4 K5 K6 K7 K8 K9 K10 K11 K12 K13 K14]. constructor; auto.
      + apply NoDup_akeys_adel, K1.
      + apply NoDup_akeys_adel, NoDup_akeys_aset, K2.
      + intros c. rewrite !In_akeys_adel, In_akeys_aset, K5. tauto.
      + intros c i. rewrite aget_adel. destruct (N.eqb sc c); [discriminate|apply K6].
    - rewrite usc_s3_other by auto. unfold InvK; sb. rewrite akeys_aset_present by auto. exact HK.
  Qed.

  Lemma tail_InvK5 : InvK (usc_s5 (usc_s3 s1 sc st) sc st oldS).
  Proof. rewrite usc_s5_eq. exact tail_InvK3. Qed.

  Lemma tail_st3 c : c <> sc -> aget (b_scstates (usc_s3 s1 sc st)) c = aget (b_scstates s1) c.
  Proof.
    intros Hc. destruct (cstate_eqb_spec st Shutdown) as [->|Hne].
    - rewrite usc_s3_shutdown; sb. rewrite aget_adel_neq, aget_aset_neq; auto.
    - rewrite usc_s3_other by auto; sb. rewrite aget_aset_neq; auto.
  Qed.

  Lemma tail_st3_sc : aget (b_scstates (usc_s3 s1 sc st)) sc = if cstate_eqb st Shutdown then None else Some st.
  Proof.
    destruct (cstate_eqb_spec st Shutdown) as [->|Hne].
    - rewrite usc_s3_shutdown; sb. apply aget_adel_eq.
    - rewrite usc_s3_other by auto; sb. apply aget_aset_eq.
  Qed.

  Lemma tail_refs3 c : c <> sc -> aget (b_screfs (usc_s3 s1 sc st)) c = aget (b_screfs s1) c.
  Proof.
    intros Hc. destruct (cstate_eqb_spec st Shutdown) as [->|Hne].
    - rewrite usc_s3_shutdown; sb. rewrite aget_adel_neq; auto.
    - rewrite usc_s3_other by auto; reflexivity.
  Qed.

  Lemma tail_refs3_sc : aget (b_screfs (usc_s3 s1 sc st)) sc = if cstate_eqb st Shutdown then None else aget (b_screfs s1) sc.
  Proof.
    destruct (cstate_eqb_spec st Shutdown) as [->|Hne].
    - rewrite usc_s3_shutdown; sb. apply aget_adel_eq.
    - rewrite usc_s3_other by auto; reflexivity.
  Qed.

  Lemma tail_InvF5 : InvF (usc_s5 (usc_s3 s1 sc st) sc st oldS).
  Proof.
    assert (HF : InvF s1) by apply HI. destruct HF as [F1 F2].
    assert (Hfb3 : b_fb (usc_s3 s1 sc st) = b_fb s1) by (destruct st; reflexivity).
    destruct (usc_s5_fb (usc_s3 s1 sc st) sc st oldS) as [N5 H5]; [rewrite Hfb3; exact F1|].
    rewrite usc_s5_eq. unfold InvF; sb. constructor; [exact N5|].
    intros k c H. destruct (H5 _ _ H) as [H6 H7]. rewrite Hfb3 in H6.
    destruct (F2 _ _ H6) as [[i Hi] Hr].
    destruct (N.eq_dec c sc) as [->|Hc].
    - assert (E1 : oldS = Ready) by congruence.
      assert (E2 : st = Ready) by (destruct (cstate_eqb_spec st Ready); [auto|exfalso; apply H7; auto]).
      rewrite tail_refs3_sc, tail_st3_sc, E2. cbn [cstate_eqb]. eauto.
    - rewrite tail_refs3, tail_st3 by auto. eauto.
  Qed.

  (* counting *)
  Lemma tail_count x :
    x <> Shutdown ->
    count_st x (b_scstates (usc_s3 s1 sc st)) + (if cstate_eqb oldS x then 1 else 0) =
    count_st x (b_scstates s1) + (if cstate_eqb st x then 1 else 0).
  Proof.
    intros Hx. pose proof (nd_scstates HK) as ND. unfold count_st.
    pose proof (acount_aset_present (fun y => cstate_eqb y x) (b_scstates s1) sc st oldS ND Hold) as H1.
    destruct (cstate_eqb_spec st Shutdown) as [->|Hne].
    - rewrite usc_s3_shutdown; sb.
      pose proof (acount_adel_present (fun y => cstate_eqb y x) (aset (b_scstates s1) sc Shutdown) sc Shutdown
                    (NoDup_akeys_aset _ _ _ ND) (aget_aset_eq _ _ _)) as H2.
      unfold b2n in *. destruct (cstate_eqb_spec Shutdown x); [congruence|].
      destruct (cstate_eqb oldS x); lia.
    - rewrite usc_s3_other by auto; sb. unfold b2n in *.
      destruct (cstate_eqb oldS x), (cstate_eqb st x); lia.
  Qed.

  (* the ready set is unchanged when the connection's readiness is *)
  Lemma tail_ready_same :
    cstate_eqb st Ready = cstate_eqb oldS Ready ->
    forall j, is_ready (b_scstates s1) (b_screfs s1) j <->
              is_ready (b_scstates (usc_s3 s1 sc st)) (b_screfs (usc_s3 s1 sc st)) j.
  Proof.
    intros He j. unfold is_ready. split; intros [c [H1 H2]]; exists c.
    - destruct (N.eq_dec c sc) as [->|Hc].
      + assert (E1 : oldS = Ready) by congruence. rewrite E1, cstate_eqb_refl in He.
        assert (E2 : st = Ready) by (destruct (cstate_eqb_spec st Ready); [auto|discriminate]).
        rewrite tail_st3_sc, tail_refs3_sc, E2. cbn [cstate_eqb]. auto.
      + rewrite tail_st3, tail_refs3 by auto. auto.
    - destruct (N.eq_dec c sc) as [->|Hc].
      + rewrite tail_st3_sc in H1. rewrite tail_refs3_sc in H2.
        destruct (cstate_eqb st Shutdown); [discriminate|]. injection H1 as E2. rewrite E2, cstate_eqb_refl in He.
        destruct (cstate_eqb_spec oldS Ready) as [E1|]; [|discriminate]. rewrite Hold, E1. auto.
      + rewrite tail_st3, tail_refs3 in * by auto. auto.
  Qed.
End Tail.

Lemma regen_picker_snap agg rs order refs :
  NoDup rs -> regen_picker agg rs order = PSnap refs ->
  agg <> TransientFailure /\ NoDup refs /\ forall i, In i refs <-> In i rs.
Proof.
  intros ND. unfold regen_picker. destruct (cstate_eqb_spec agg TransientFailure); [discriminate|].
  intros E; inv E. split; [auto|]. destruct (is_perm order rs) eqn:Ep.
  - apply is_perm_spec in Ep; auto.
  - split; [auto|tauto].
Qed.

Lemma regen_picker_tf agg rs order :
  (regen_picker agg rs order = PErr true <-> agg = TransientFailure) /\ regen_picker agg rs order <> PErr false.
Proof.
  unfold regen_picker. destruct (cstate_eqb_spec agg TransientFailure); split; try tauto; try discriminate.
  split; [discriminate|tauto].
Qed.

Section Tail2.
  Variables (s1 : bal) (sc : N) (st oldS : cstate) (order : list nat).
  Hypothesis HI : Inv s1.
  Hypothesis Hold : aget (b_scstates s1) sc = Some oldS.

  Let r := cnt_upd Ready (b_nready s1) oldS st.
  Let cn := cnt_upd Connecting (b_nconn s1) oldS st.
  Let tf := cnt_upd TransientFailure (b_ntf s1) oldS st.
  Let agg := eval3 r cn tf.
  Let s3 := usc_s3 s1 sc st.

  Lemma tail_InvC : invC r cn tf agg (b_scstates s3).
  Proof.
    assert (HC : InvC s1) by apply HI. destruct HC as [C1 C2 C3 C4].
    constructor.
    - eapply cnt_upd_correct; [exact C1|apply tail_count; auto; discriminate].
    - eapply cnt_upd_correct; [exact C2|apply tail_count; auto; discriminate].
    - eapply cnt_upd_correct; [exact C3|apply tail_count; auto; discriminate].
    - reflexivity.
  Qed.

  Lemma tail_slots3 : b_slots s3 = b_slots s1.
  Proof. unfold s3. destruct st; reflexivity. Qed.

  Lemma tail_InvP_nopub :
    pub_cond st oldS agg (b_state s1) = false ->
    invP (b_picker s1) (b_published s1) agg (b_scstates s3) (b_screfs s3) (length (b_slots s1)).
  Proof.
    intros Hpc. unfold pub_cond in Hpc. apply orb_false_iff in Hpc. destruct Hpc as [Hp1 Hp2].
    apply negb_false_iff, eqb_prop in Hp1, Hp2.
    assert (HP : InvP s1) by apply HI. unfold InvP in HP.
    pose proof (tail_InvK3 s1 sc st oldS HI Hold) as K3.
    assert (HP' : invP (b_picker s1) (b_published s1) (b_state s1) (b_scstates s3) (b_screfs s3) (length (b_slots s1))).
    { eapply invP_ready_equiv; [exact HP| |lia]. intros j.
      rewrite !In_ready_of_aget; [eapply tail_ready_same; eauto|apply (nd_scstates K3)|apply (nd_scstates (proj1 HI))]. }
    destruct HP' as [P1 P2 P3 P4 P5]. constructor; auto.
    - intros E Ha. apply P3; auto. destruct (cstate_eqb_spec (b_state s1) TransientFailure); auto.
      rewrite Ha in Hp2. cbn in Hp2. discriminate.
    - intros E. destruct (P4 E) as [H1 [H2 H3]]. split; [|split; [auto|apply eval3_not_idle]].
      rewrite H1. split; intros Ha.
      + rewrite Ha in Hp2. cbn in Hp2. destruct (cstate_eqb_spec agg TransientFailure); [auto|discriminate].
      + rewrite Ha in Hp2. cbn in Hp2. destruct (cstate_eqb_spec (b_state s1) TransientFailure); [auto|discriminate].
  Qed.

  Lemma tail_InvP_pub :
    let pk := regen_picker agg (ready_of (b_scstates s3) (b_screfs s3)) order in
    invP pk (b_published s1 ++ [pk]) agg (b_scstates s3) (b_screfs s3) (length (b_slots s1)).
  Proof.
    intros pk. assert (HP : InvP s1) by apply HI. unfold InvP in HP.
    pose proof (tail_InvK3 s1 sc st oldS HI Hold) as K3. fold s3 in K3.
    pose proof (NoDup_ready_slots s3 K3) as NDr. rewrite ready_slots_eq in NDr.
    constructor.
    - rewrite last_snoc. reflexivity.
    - intros refs E. apply regen_picker_snap in E; auto. tauto.
    - intros E. destruct (b_published s1); discriminate.
    - intros _. destruct (regen_picker_tf agg (ready_of (b_scstates s3) (b_screfs s3)) order) as [H1 H2].
      split; [exact H1|split; [exact H2|apply eval3_not_idle]].
    - intros refs i Hin Hi. apply in_app_iff in Hin. destruct Hin as [Hin|[E|[]]].
      + eapply (pub_valid HP); eauto.
      + apply regen_picker_snap in E; auto. destruct E as [_ [_ E]]. apply E in Hi.
        rewrite <- tail_slots3. apply (ready_slot_lt s3 K3). rewrite ready_slots_eq. exact Hi.
  Qed.
End Tail2.

(* fields never touched by UpdateSubConnState *)
Record usc_frame (s s' : bal) : Prop := mkUscFrame {
  uf_cfg : b_cfg s' = b_cfg s;
  uf_addrs : b_addrs s' = b_addrs s;
  uf_rr : b_rr s' = b_rr s;
  uf_undet : b_undet s' = b_undet s;
  uf_picks : b_picks s' = b_picks s;
  uf_now : b_now s' = b_now s;
  uf_next : b_next s' = b_next s;
  uf_fail : b_fail s' = b_fail s;
  uf_gate : b_gate s' = b_gate s;
  uf_parked : b_parked s' = b_parked s;
  uf_nslots : length (b_slots s') = length (b_slots s)
}.

Lemma usc_frame_refl s : usc_frame s s.
Proof. constructor; reflexivity. Qed.

Lemma usc_frame_trans s1 s2 s3 : usc_frame s1 s2 -> usc_frame s2 s3 -> usc_frame s1 s3.
Proof. intros [] []. constructor; congruence. Qed.

Lemma swap_frame s sc i ref : usc_frame s (swap_state s sc i ref).
Proof. constructor; try reflexivity. unfold swap_state; sb. apply upd_nth_length. Qed.

Lemma usc_s5_frame s1 sc st oldS :
  let s5 := usc_s5 (usc_s3 s1 sc st) sc st oldS in
  b_nready s5 = b_nready s1 /\ b_nconn s5 = b_nconn s1 /\ b_ntf s5 = b_ntf s1 /\ b_state s5 = b_state s1 /\
  b_scstates s5 = b_scstates (usc_s3 s1 sc st) /\ b_screfs s5 = b_screfs (usc_s3 s1 sc st) /\
  b_picker s5 = b_picker s1 /\ b_published s5 = b_published s1 /\ b_slots s5 = b_slots s1 /\
  b_picks s5 = b_picks s1 /\ b_parked s5 = b_parked s1 /\ b_cfg s5 = b_cfg s1 /\
  b_aff s5 = b_aff s1 /\ b_refr s5 = b_refr s1 /\ usc_frame s1 s5.
Proof.
  cbv zeta. rewrite usc_s5_eq. destruct st; repeat split; reflexivity.
Qed.

Lemma usc_tail_frame s1 o1 sc st oldS order s' o' :
  usc_tail s1 o1 sc st oldS order = (s', o') -> usc_frame s1 s'.
Proof.
  unfold usc_tail. rewrite usc_fin_cases. cbv zeta.
  destruct (usc_s5_frame s1 sc st oldS) as (_&_&_&_&_&_&_&_&_&_&_&_&_&_&HF).
  destruct (pub_cond _ _ _ _); intros E; inv E; destruct HF; constructor; assumption.
Qed.

Lemma usc_tail_Inv s1 o1 sc st oldS order s' o' :
  Inv s1 -> aget (b_scstates s1) sc = Some oldS ->
  usc_tail s1 o1 sc st oldS order = (s', o') -> Inv s'.
Proof.
  intros HI Hold. unfold usc_tail. rewrite usc_fin_cases. cbv zeta.
  pose proof (tail_InvK5 s1 sc st oldS HI Hold) as K5.
  pose proof (tail_InvF5 s1 sc st oldS HI Hold) as F5.
  pose proof (tail_InvC s1 sc st oldS HI Hold) as C5.
  pose proof (tail_InvP_pub s1 sc st oldS order HI Hold) as Ppub.
  pose proof (tail_InvP_nopub s1 sc st oldS HI Hold) as Pnopub.
  assert (HS : InvS s1) by apply HI.
  assert (Hcfg : b_cfg s1 <> None) by (eapply InvG_cfg_scstates; [apply HI|eapply aget_nonnil; eauto]).
  destruct (usc_s5_frame s1 sc st oldS) as (E1&E2&E3&E4&E5&E6&E7&E8&E9&E10&E11&E12&_).
  set (s5 := usc_s5 (usc_s3 s1 sc st) sc st oldS) in *.
  rewrite E1, E2, E3, E4, E8, ready_slots_eq, E5, E6.
  cbv zeta in Ppub.
  destruct (pub_cond _ _ _ _) eqn:Epc; intros E; inv E; repeat apply conj.
  - exact K5.
  - exact F5.
  - unfold InvP; sb. rewrite E5, E6, E9. exact Ppub.
  - unfold InvC; sb. rewrite E5. exact C5.
  - apply InvG_some. sb. congruence.
  - unfold InvS in *; sb. rewrite E9, E10, E11. destruct HS as [S1 S2 S3]. constructor; auto.
    intros pi Hpi. rewrite app_length. apply S2 in Hpi. lia.
  - exact K5.
  - exact F5.
  - unfold InvP; sb. rewrite E5, E6, E7, E8, E9. apply Pnopub. reflexivity.
  - unfold InvC; sb. rewrite E5. exact C5.
  - apply InvG_some. sb. congruence.
  - unfold InvS in *; sb. rewrite E8, E9, E10, E11. exact HS.
Qed.

Lemma usc_after_Inv s1 o1 sc st order s' o' :
  Inv s1 -> usc_after s1 o1 sc st order = (s', o') -> Inv s' /\ usc_frame s1 s'.
Proof.
  intros HI. unfold usc_after. destruct (aget (b_scstates s1) sc) as [oldS|] eqn:E.
  - intros H. split; [eapply usc_tail_Inv; eauto|eapply usc_tail_frame; eauto].
  - intros H; inv H. split; [auto|apply usc_frame_refl].
Qed.

Lemma UpdateSubConnState_Inv s sc st order s' o :
  Inv s -> UpdateSubConnState s sc st order = (s', o) -> Inv s' /\ usc_frame s s'.
Proof.
  intros HI. rewrite UpdateSubConnState_cases.
  destruct (aget (b_refr s) sc) as [i|] eqn:Er; [|apply usc_after_Inv, HI].
  destruct (negb (cstate_eqb st Ready)); [intros E; inv E; split; [auto|apply usc_frame_refl]|].
  destruct (get_slot s i) as [ref|] eqn:Es; [|apply usc_after_Inv, HI].
  intros E. apply usc_after_Inv in E; [|apply swap_Inv; auto].
  destruct E as [H1 H2]. split; [auto|]. eapply usc_frame_trans; [apply swap_frame|exact H2].
Qed.
