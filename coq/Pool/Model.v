(* Engine A: executable model of gcpBalancer / gcpPicker
   (grpcgcp/gcp_balancer.go, grpcgcp/gcp_picker.go), function for function.
   No proofs in this file.

   Conventions
   - SubConns are numbered by creation order (successful NewSubConn calls), N.
   - *subConnRef objects are "slots": index into b_slots (= scRefList, append-only).
   - Affinity keys, method names and address lists are opaque and numbered (N);
     key 0 is the empty string, address list 0 is the empty list.
   - Times are Z nanoseconds of the harness' virtual clock.
   - Machine integers are explicit: the uint64 counters of the state evaluator
     wrap modulo 2^64, rrRefId / deCalls / refreshCnt modulo 2^32.
   - Go map iteration order: the order of the READY snapshot of a published
     picker is an oracle argument (any permutation); everything else that
     depends on map order is order-insensitive and compared as such. *)
From GV Require Export Base.AList.
From Coq Require Import Lia.
Open Scope Z_scope.

Definition W64 : Z := 18446744073709551616.
Definition W32 : Z := 4294967296.

Inductive cstate := Idle | Connecting | Ready | TransientFailure | Shutdown.

Definition cstate_eqb (a b : cstate) : bool :=
  match a, b with
  | Idle, Idle | Connecting, Connecting | Ready, Ready
  | TransientFailure, TransientFailure | Shutdown, Shutdown => true
  | _, _ => false
  end.

Inductive cmd := BOUND | BIND | UNBIND.

Definition cmd_eqb (a b : cmd) : bool :=
  match a, b with BOUND, BOUND | BIND, BIND | UNBIND, UNBIND => true | _, _ => false end.

(* one entry of gb.methodCfg: command and whether the key locator resolves on
   the harness' message type (engine D decides what a locator yields) *)
Record mcfg := mkMcfg { m_cmd : cmd; m_locok : bool }.

(* effective configuration (after initializeConfig) *)
Record config := mkConfig {
  c_min : Z; c_max : Z; c_wm : Z;          (* uint32 *)
  c_fallback : bool;
  c_ums : Z; c_ucalls : Z;                 (* uint32 *)
  c_rr : bool;                             (* bind_pick_strategy == ROUND_ROBIN *)
  c_methods : list (N * mcfg)
}.

Definition defaultMinSize : Z := 1.
Definition defaultMaxSize : Z := 4.
Definition defaultMaxStreams : Z := 100.

(* subConnRef *)
Record slot := mkSlot {
  sl_conn : N;
  sl_aff : Z;          (* int32 affinityCnt *)
  sl_streams : Z;      (* int32 streamsCnt *)
  sl_last : Z;         (* lastResp *)
  sl_de : Z;           (* uint32 deCalls *)
  sl_refreshing : bool;
  sl_rcnt : Z          (* uint32 refreshCnt *)
}.

Inductive picker :=
| PErr (transient : bool)          (* errPicker: ErrTransientFailure / ErrNoSubConnAvailable *)
| PSnap (refs : list nat).         (* gcpPicker with its READY snapshot (slots) *)

Inductive pstatus := PBlocked | PPlaced | PFinished.

(* a Pick that returned a Done closure (or is blocked in getSubConnRoundRobin) *)
Record pick := mkPick {
  pk_slot : nat;
  pk_started : Z;
  pk_deadline : option Z;
  pk_cancelled : bool;
  pk_cmd : cmd;
  pk_key : N;            (* boundKey *)
  pk_hasctx : bool;
  pk_locok : bool;
  pk_status : pstatus
}.

Record bal := mkBal {
  b_cfg : option config;
  b_addrs : N;
  b_nready : Z; b_nconn : Z; b_ntf : Z;      (* uint64 *)
  b_state : cstate;
  b_aff : list (N * N);
  b_fb : list (N * N);
  b_scstates : list (N * cstate);
  b_screfs : list (N * nat);
  b_slots : list slot;
  b_rr : Z;                                  (* uint32 rrRefId *)
  b_refr : list (N * nat);                   (* refreshingScRefs *)
  b_undet : bool;
  b_picker : picker;                         (* gb.picker *)
  b_published : list picker;                 (* every picker handed to cc.UpdateState *)
  b_picks : list pick;
  b_now : Z;
  b_next : N;                                (* number of the next SubConn *)
  b_fail : bool;                             (* fake ClientConn: NewSubConn fails *)
  b_gate : bool;                             (* harness: park a Pick between its pool-size check and newSubConn() *)
  b_parked : list nat                        (* published-picker index (whose p.mu is held) of each parked Pick *)
}.

Definition init_bal : bal :=
  mkBal None 0%N 0 0 0 Idle [] [] [] [] [] (W32 - 1) [] false (PErr false) [] [] 0 0%N false false [].

(* record updates *)
Definition set_cfg s v := mkBal v (b_addrs s) (b_nready s) (b_nconn s) (b_ntf s) (b_state s) (b_aff s) (b_fb s) (b_scstates s) (b_screfs s) (b_slots s) (b_rr s) (b_refr s) (b_undet s) (b_picker s) (b_published s) (b_picks s) (b_now s) (b_next s) (b_fail s) (b_gate s) (b_parked s).
Definition set_addrs s v := mkBal (b_cfg s) v (b_nready s) (b_nconn s) (b_ntf s) (b_state s) (b_aff s) (b_fb s) (b_scstates s) (b_screfs s) (b_slots s) (b_rr s) (b_refr s) (b_undet s) (b_picker s) (b_published s) (b_picks s) (b_now s) (b_next s) (b_fail s) (b_gate s) (b_parked s).
Definition set_counts s r c t := mkBal (b_cfg s) (b_addrs s) r c t (b_state s) (b_aff s) (b_fb s) (b_scstates s) (b_screfs s) (b_slots s) (b_rr s) (b_refr s) (b_undet s) (b_picker s) (b_published s) (b_picks s) (b_now s) (b_next s) (b_fail s) (b_gate s) (b_parked s).
Definition set_state s v := mkBal (b_cfg s) (b_addrs s) (b_nready s) (b_nconn s) (b_ntf s) v (b_aff s) (b_fb s) (b_scstates s) (b_screfs s) (b_slots s) (b_rr s) (b_refr s) (b_undet s) (b_picker s) (b_published s) (b_picks s) (b_now s) (b_next s) (b_fail s) (b_gate s) (b_parked s).
Definition set_aff s v := mkBal (b_cfg s) (b_addrs s) (b_nready s) (b_nconn s) (b_ntf s) (b_state s) v (b_fb s) (b_scstates s) (b_screfs s) (b_slots s) (b_rr s) (b_refr s) (b_undet s) (b_picker s) (b_published s) (b_picks s) (b_now s) (b_next s) (b_fail s) (b_gate s) (b_parked s).
Definition set_fb s v := mkBal (b_cfg s) (b_addrs s) (b_nready s) (b_nconn s) (b_ntf s) (b_state s) (b_aff s) v (b_scstates s) (b_screfs s) (b_slots s) (b_rr s) (b_refr s) (b_undet s) (b_picker s) (b_published s) (b_picks s) (b_now s) (b_next s) (b_fail s) (b_gate s) (b_parked s).
Definition set_scstates s v := mkBal (b_cfg s) (b_addrs s) (b_nready s) (b_nconn s) (b_ntf s) (b_state s) (b_aff s) (b_fb s) v (b_screfs s) (b_slots s) (b_rr s) (b_refr s) (b_undet s) (b_picker s) (b_published s) (b_picks s) (b_now s) (b_next s) (b_fail s) (b_gate s) (b_parked s).
Definition set_screfs s v := mkBal (b_cfg s) (b_addrs s) (b_nready s) (b_nconn s) (b_ntf s) (b_state s) (b_aff s) (b_fb s) (b_scstates s) v (b_slots s) (b_rr s) (b_refr s) (b_undet s) (b_picker s) (b_published s) (b_picks s) (b_now s) (b_next s) (b_fail s) (b_gate s) (b_parked s).
Definition set_slots s v := mkBal (b_cfg s) (b_addrs s) (b_nready s) (b_nconn s) (b_ntf s) (b_state s) (b_aff s) (b_fb s) (b_scstates s) (b_screfs s) v (b_rr s) (b_refr s) (b_undet s) (b_picker s) (b_published s) (b_picks s) (b_now s) (b_next s) (b_fail s) (b_gate s) (b_parked s).
Definition set_rr s v := mkBal (b_cfg s) (b_addrs s) (b_nready s) (b_nconn s) (b_ntf s) (b_state s) (b_aff s) (b_fb s) (b_scstates s) (b_screfs s) (b_slots s) v (b_refr s) (b_undet s) (b_picker s) (b_published s) (b_picks s) (b_now s) (b_next s) (b_fail s) (b_gate s) (b_parked s).
Definition set_refr s v := mkBal (b_cfg s) (b_addrs s) (b_nready s) (b_nconn s) (b_ntf s) (b_state s) (b_aff s) (b_fb s) (b_scstates s) (b_screfs s) (b_slots s) (b_rr s) v (b_undet s) (b_picker s) (b_published s) (b_picks s) (b_now s) (b_next s) (b_fail s) (b_gate s) (b_parked s).
Definition set_undet s v := mkBal (b_cfg s) (b_addrs s) (b_nready s) (b_nconn s) (b_ntf s) (b_state s) (b_aff s) (b_fb s) (b_scstates s) (b_screfs s) (b_slots s) (b_rr s) (b_refr s) v (b_picker s) (b_published s) (b_picks s) (b_now s) (b_next s) (b_fail s) (b_gate s) (b_parked s).
Definition set_picker s v := mkBal (b_cfg s) (b_addrs s) (b_nready s) (b_nconn s) (b_ntf s) (b_state s) (b_aff s) (b_fb s) (b_scstates s) (b_screfs s) (b_slots s) (b_rr s) (b_refr s) (b_undet s) v (b_published s) (b_picks s) (b_now s) (b_next s) (b_fail s) (b_gate s) (b_parked s).
Definition set_published s v := mkBal (b_cfg s) (b_addrs s) (b_nready s) (b_nconn s) (b_ntf s) (b_state s) (b_aff s) (b_fb s) (b_scstates s) (b_screfs s) (b_slots s) (b_rr s) (b_refr s) (b_undet s) (b_picker s) v (b_picks s) (b_now s) (b_next s) (b_fail s) (b_gate s) (b_parked s).
Definition set_picks s v := mkBal (b_cfg s) (b_addrs s) (b_nready s) (b_nconn s) (b_ntf s) (b_state s) (b_aff s) (b_fb s) (b_scstates s) (b_screfs s) (b_slots s) (b_rr s) (b_refr s) (b_undet s) (b_picker s) (b_published s) v (b_now s) (b_next s) (b_fail s) (b_gate s) (b_parked s).
Definition set_now s v := mkBal (b_cfg s) (b_addrs s) (b_nready s) (b_nconn s) (b_ntf s) (b_state s) (b_aff s) (b_fb s) (b_scstates s) (b_screfs s) (b_slots s) (b_rr s) (b_refr s) (b_undet s) (b_picker s) (b_published s) (b_picks s) v (b_next s) (b_fail s) (b_gate s) (b_parked s).
Definition set_next s v := mkBal (b_cfg s) (b_addrs s) (b_nready s) (b_nconn s) (b_ntf s) (b_state s) (b_aff s) (b_fb s) (b_scstates s) (b_screfs s) (b_slots s) (b_rr s) (b_refr s) (b_undet s) (b_picker s) (b_published s) (b_picks s) (b_now s) v (b_fail s) (b_gate s) (b_parked s).
Definition set_fail s v := mkBal (b_cfg s) (b_addrs s) (b_nready s) (b_nconn s) (b_ntf s) (b_state s) (b_aff s) (b_fb s) (b_scstates s) (b_screfs s) (b_slots s) (b_rr s) (b_refr s) (b_undet s) (b_picker s) (b_published s) (b_picks s) (b_now s) (b_next s) v (b_gate s) (b_parked s).

Definition set_gate s v := mkBal (b_cfg s) (b_addrs s) (b_nready s) (b_nconn s) (b_ntf s) (b_state s) (b_aff s) (b_fb s) (b_scstates s) (b_screfs s) (b_slots s) (b_rr s) (b_refr s) (b_undet s) (b_picker s) (b_published s) (b_picks s) (b_now s) (b_next s) (b_fail s) v (b_parked s).
Definition set_parked s v := mkBal (b_cfg s) (b_addrs s) (b_nready s) (b_nconn s) (b_ntf s) (b_state s) (b_aff s) (b_fb s) (b_scstates s) (b_screfs s) (b_slots s) (b_rr s) (b_refr s) (b_undet s) (b_picker s) (b_published s) (b_picks s) (b_now s) (b_next s) (b_fail s) (b_gate s) v.

(* slot updates *)
Definition sl_set_conn (x : slot) v := mkSlot v (sl_aff x) (sl_streams x) (sl_last x) (sl_de x) (sl_refreshing x) (sl_rcnt x).
Definition sl_set_aff (x : slot) v := mkSlot (sl_conn x) v (sl_streams x) (sl_last x) (sl_de x) (sl_refreshing x) (sl_rcnt x).
Definition sl_set_streams (x : slot) v := mkSlot (sl_conn x) (sl_aff x) v (sl_last x) (sl_de x) (sl_refreshing x) (sl_rcnt x).
Definition sl_set_refreshing (x : slot) v := mkSlot (sl_conn x) (sl_aff x) (sl_streams x) (sl_last x) (sl_de x) v (sl_rcnt x).
Definition sl_set_de (x : slot) v := mkSlot (sl_conn x) (sl_aff x) (sl_streams x) (sl_last x) v (sl_refreshing x) (sl_rcnt x).

Fixpoint upd_nth {A} (n : nat) (f : A -> A) (l : list A) : list A :=
  match l, n with
  | [], _ => []
  | x :: r, O => f x :: r
  | x :: r, S n' => x :: upd_nth n' f r
  end.

Definition upd_slot (s : bal) (i : nat) (f : slot -> slot) : bal :=
  set_slots s (upd_nth i f (b_slots s)).

Definition get_slot (s : bal) (i : nat) : option slot := nth_error (b_slots s) i.

(* int32 wrap of an atomic.AddInt32 *)
Definition wrap32s (z : Z) : Z := ((z + 2147483648) mod W32) - 2147483648.

(* ---------------------------------------------------------------- outputs *)
(* calls the library makes on the fake balancer.ClientConn / SubConn *)
Inductive out :=
| ONewSC (n : N) (addrs : N)
| ONewSCFail (addrs : N)
| OConnect (n : N)
| OUpdAddr (n : N) (addrs : N)
| ORemove (n : N)
| OUpdateState (st : cstate) (p : picker).

Inductive ret :=
| RNone                 (* callback returned (nil error) *)
| RCfgErr               (* UpdateClientConnState returned the wrong-config error *)
| RPicked (n : N)       (* PickResult{SubConn: n} *)
| RNoSubConn            (* balancer.ErrNoSubConnAvailable *)
| RTransient            (* balancer.ErrTransientFailure *)
| RKeyErr               (* "failed to retrieve affinity key ..." *)
| RBlocked              (* round-robin BIND waiting for its channel *)
| RParked               (* parked by the harness just before newSubConn() (second critical section of a growing Pick) *)
| RPanic
| RStuck
| RBadOp.               (* harness referred to something that does not exist *)

(* fake ClientConn.NewSubConn: refuses an empty address list exactly as
   gRPC 1.56.3 does, or fails on demand *)
Definition cc_new_subconn (s : bal) : bal * option N * list out :=
  if b_fail s || N.eqb (b_addrs s) 0 then (s, None, [ONewSCFail (b_addrs s)])
  else (set_next s (N.succ (b_next s)), Some (b_next s), [ONewSC (b_next s) (b_addrs s)]).

(* ---------------------------------------------------------------- balancer *)
(* func (gb gcpBalancer) addSubConn() (returns whether a SubConn was created) *)
Definition addSubConn (s : bal) : bal * bool * list out :=
  let '(s1, r, o) := cc_new_subconn s in
  match r with
  | None => (s1, false, o)
  | Some sc =>
      let i := length (b_slots s1) in
      let s2 := set_screfs s1 (aset (b_screfs s1) sc i) in
      let s3 := set_slots s2 (b_slots s2 ++ [mkSlot sc 0 0 (b_now s2) 0 false 0]) in
      let s4 := set_scstates s3 (aset (b_scstates s3) sc Idle) in
      (s4, true, o ++ [OConnect sc])
  end.

Definition cfg_min (s : bal) : Z := match b_cfg s with Some c => c_min c | None => 0 end.
Definition cfg_max (s : bal) : Z := match b_cfg s with Some c => c_max c | None => 0 end.
Definition cfg_wm (s : bal) : Z := match b_cfg s with Some c => c_wm c | None => 0 end.
Definition cfg_fallback (s : bal) : bool := match b_cfg s with Some c => c_fallback c | None => false end.
Definition cfg_rr (s : bal) : bool := match b_cfg s with Some c => c_rr c | None => false end.
Definition cfg_ums (s : bal) : Z := match b_cfg s with Some c => c_ums c | None => 0 end.
Definition cfg_ucalls (s : bal) : Z := match b_cfg s with Some c => c_ucalls c | None => 0 end.
Definition cfg_methods (s : bal) := match b_cfg s with Some c => c_methods c | None => [] end.

Definition pool_size (s : bal) : Z := Z.of_nat (length (b_screfs s)).

(* one iteration of the loop of enforceMinSize; [stop] = a creation failed *)
Definition enforce_iter (st : bal * bool * list out) : bal * bool * list out :=
  let '(s, stop, o) := st in
  if stop then st
  else if pool_size s <? cfg_min s then
    let '(s1, ok, o1) := addSubConn s in (s1, negb ok, o ++ o1)
  else st.

(* func (gb gcpBalancer) enforceMinSize(): at most (min - size) iterations are
   ever needed; N.iter runs exactly that many *)
Definition enforceMinSize (s : bal) : bal * list out :=
  let deficit := Z.to_N (cfg_min s - pool_size s) in
  let '(s1, _, o) := N.iter deficit enforce_iter (s, false, []) in (s1, o).

(* func (gb gcpBalancer) initializeConfig(cfg *GCPBalancerConfig):
   [raw] is the supplied configuration before defaulting (None = nil config) *)
Definition effective (raw : option config) : config :=
  match raw with
  | None => mkConfig defaultMinSize defaultMaxSize defaultMaxStreams false 0 0 false []
  | Some c =>
      mkConfig (if c_min c =? 0 then defaultMinSize else c_min c)
               (if c_max c =? 0 then defaultMaxSize else c_max c)
               (if c_wm c =? 0 then defaultMaxStreams else c_wm c)
               (c_fallback c) (c_ums c) (c_ucalls c) (c_rr c) (c_methods c)
  end.

Definition initializeConfig (s : bal) (raw : option config) : bal * list out :=
  let c := effective raw in
  let s1 := set_cfg s (Some c) in
  let s2 := set_undet s1 ((0 <? c_ucalls c) && (0 <? c_ums c)) in
  enforceMinSize s2.

Inductive cfgarg := CfgNil | CfgWrongType | CfgVal.

(* UpdateAddresses + Connect on every pool connection, then on every
   replacement connection of a refresh in flight *)
Definition update_refr (s : bal) : list out :=
  flat_map (fun kv => [OUpdAddr (fst kv) (b_addrs s); OConnect (fst kv)]) (b_refr s).

Definition update_all (s : bal) : list out :=
  flat_map (fun kv => [OUpdAddr (fst kv) (b_addrs s); OConnect (fst kv)]) (b_screfs s) ++ update_refr s.

(* func (gb gcpBalancer) UpdateClientConnState(ccs balancer.ClientConnState) error *)
Definition UpdateClientConnState (s : bal) (addrs : N) (a : cfgarg) (raw : option config)
  : bal * list out * ret :=
  let s1 := set_addrs s addrs in
  let init :=
    match b_cfg s1 with
    | Some _ => Some (s1, [])
    | None =>
        match a with
        | CfgWrongType => None
        | CfgNil => Some (initializeConfig s1 None)
        | CfgVal => Some (initializeConfig s1 raw)
        end
    end in
  match init with
  | None => (s1, [], RCfgErr)
  | Some (s2, o2) =>
      if (length (b_screfs s2) =? 0)%nat then
        let '(s3, _, o3) := addSubConn s2 in (s3, o2 ++ o3 ++ update_refr s3, RNone)
      else (s2, o2 ++ update_all s2, RNone)
  end.

(* func (cse connectivityStateEvaluator) recordTransition(oldState, newState) *)
Definition bump (st : cstate) (d : Z) (c : Z * Z * Z) : Z * Z * Z :=
  let '(r, cn, tf) := c in
  match st with
  | Ready => ((r + d) mod W64, cn, tf)
  | Connecting => (r, (cn + d) mod W64, tf)
  | TransientFailure => (r, cn, (tf + d) mod W64)
  | _ => c
  end.

Definition recordTransition (s : bal) (oldS newS : cstate) : bal * cstate :=
  let '(r, cn, tf) := bump newS 1 (bump oldS (W64 - 1) (b_nready s, b_nconn s, b_ntf s)) in
  let agg := if 0 <? r then Ready else if 0 <? cn then Connecting else TransientFailure in
  (set_counts s r cn tf, agg).

Definition ready_slots (s : bal) : list nat :=
  flat_map (fun kv => if cstate_eqb (snd kv) Ready
                      then match aget (b_screfs s) (fst kv) with Some i => [i] | None => [] end
                      else []) (b_scstates s).

Fixpoint memnat (x : nat) (l : list nat) : bool :=
  match l with [] => false | y :: r => Nat.eqb x y || memnat x r end.

Fixpoint nodupnat (l : list nat) : bool :=
  match l with [] => true | x :: r => negb (memnat x r) && nodupnat r end.

Definition is_perm (a b : list nat) : bool :=
  nodupnat a && Nat.eqb (length a) (length b) && forallb (fun x => memnat x b) a.

(* func (gb gcpBalancer) regeneratePicker(): [order] is the map-iteration
   oracle; it is used iff it is a permutation of the READY slots *)
Definition regeneratePicker (s : bal) (order : list nat) : bal :=
  if cstate_eqb (b_state s) TransientFailure then set_picker s (PErr true)
  else let rs := ready_slots s in
       set_picker s (PSnap (if is_perm order rs then order else rs)).

Definition del_values (m : list (N * N)) (v : N) : list (N * N) :=
  filter (fun kv => negb (N.eqb (snd kv) v)) m.

Definition rekey (m : list (N * N)) (oldv newv : N) : list (N * N) :=
  map (fun kv => if N.eqb (snd kv) oldv then (fst kv, newv) else kv) m.

(* func (gb gcpBalancer) UpdateSubConnState(sc balancer.SubConn, scs balancer.SubConnState) *)
Definition UpdateSubConnState (s : bal) (sc : N) (st : cstate) (order : list nat) : bal * list out :=
  (* the replacement connection of a refresh *)
  let swap :=
    match aget (b_refr s) sc with
    | None => Some (s, [])
    | Some i =>
        if negb (cstate_eqb st Ready) then None
        else match get_slot s i with
             | None => Some (s, [])     (* unreachable *)
             | Some ref =>
                 let oldSc := sl_conn ref in
                 let inherited := match aget (b_scstates s) oldSc with Some x => x | None => Idle end in
                 let s1 := set_scstates s (aset (b_scstates s) sc inherited) in
                 let s2 := set_refr s1 (adel (b_refr s1) sc) in
                 let s3 := set_screfs s2 (adel (b_screfs s2) oldSc) in
                 let s4 := set_scstates s3 (adel (b_scstates s3) oldSc) in
                 let s5 := set_screfs s4 (aset (b_screfs s4) sc i) in
                 let s6 := set_aff s5 (rekey (b_aff s5) oldSc sc) in
                 let s7 := set_fb s6 (rekey (b_fb s6) oldSc sc) in
                 let s8 := upd_slot s7 i (fun r => mkSlot sc (sl_aff r) (sl_streams r) (b_now s7) 0 false ((sl_rcnt r + 1) mod W32)) in
                 Some (s8, [ORemove oldSc])
             end
    end in
  match swap with
  | None => (s, [])
  | Some (s1, o1) =>
      match aget (b_scstates s1) sc with
      | None => (s1, o1)
      | Some oldS =>
          let s2 := set_scstates s1 (aset (b_scstates s1) sc st) in
          let '(s3, o3) :=
            match st with
            | Idle => (s2, [OConnect sc])
            | Shutdown => (set_scstates (set_screfs s2 (adel (b_screfs s2) sc)) (adel (b_scstates s2) sc), [])
            | _ => (s2, [])
            end in
          let s4 := if cstate_eqb oldS Ready && negb (cstate_eqb st oldS)
                    then set_fb s3 (del_values (b_fb s3) sc) else s3 in
          let s5 := if negb (cstate_eqb oldS Ready) && cstate_eqb st Ready
                    then set_fb s4 (filter (fun kv => negb (match aget (b_aff s4) (fst kv) with
                                                            | Some c => N.eqb c sc | None => false end)) (b_fb s4))
                    else s4 in
          let oldAgg := b_state s5 in
          let '(s6, agg) := recordTransition s5 oldS st in
          let s7 := set_state s6 agg in
          if negb (Bool.eqb (cstate_eqb st Ready) (cstate_eqb oldS Ready)) ||
             negb (Bool.eqb (cstate_eqb agg TransientFailure) (cstate_eqb oldAgg TransientFailure))
          then let s8 := regeneratePicker s7 order in
               (set_published s8 (b_published s8 ++ [b_picker s8]), o1 ++ o3 ++ [OUpdateState agg (b_picker s8)])
          else (s7, o1 ++ o3)
      end
  end.

(* func (gb gcpBalancer) newSubConn(): under gb.mu; no-op when the pool is at
   its maximum size or some connection is still connecting/idle *)
Definition newSubConn (s : bal) : bal * list out :=
  if negb (cfg_max s =? 0) && (cfg_max s <=? pool_size s) then (s, [])
  else if existsb (fun kv => cstate_eqb (snd kv) Connecting || cstate_eqb (snd kv) Idle) (b_scstates s)
  then (s, [])
  else let '(s1, _, o) := addSubConn s in (s1, o).

(* the scan of getLeastBusySubConnRef: first minimum of the snapshot *)
Definition streams_of (s : bal) (i : nat) : Z :=
  match get_slot s i with Some r => sl_streams r | None => 0 end.

Fixpoint least_busy_from (s : bal) (best : nat) (l : list nat) : nat :=
  match l with
  | [] => best
  | i :: r => if streams_of s i <? streams_of s best then least_busy_from s i r else least_busy_from s best r
  end.

Definition leastBusy (s : bal) (refs : list nat) : option nat :=
  match refs with
  | [] => None
  | i :: r => Some (least_busy_from s i r)
  end.

(* func (gb gcpBalancer) getReadySubConnRef(boundKey string) (ref, bool) *)
Definition conn_state (s : bal) (sc : N) : cstate :=
  match aget (b_scstates s) sc with Some x => x | None => Idle end.

Definition getReadySubConnRef (s : bal) (key : N) : bal * option nat * bool :=
  match aget (b_aff s) key with
  | None => (s, None, false)
  | Some sc =>
      if negb (cstate_eqb (conn_state s sc) Ready) then
        if cfg_fallback s then
          match aget (b_fb s) key with
          | Some sc2 => (s, aget (b_screfs s) sc2, true)
          | None =>
              match b_picker s with
              | PSnap refs =>
                  match leastBusy s refs with
                  | Some i => match get_slot s i with
                              | Some r => (set_fb s (aset (b_fb s) key (sl_conn r)), Some i, true)
                              | None => (s, None, true)
                              end
                  | None => (s, None, true)
                  end
              | PErr _ => (s, None, true)
              end
          end
        else (s, None, true)
      else (s, aget (b_screfs s) sc, true)
  end.

(* func (p gcpPicker) getLeastBusySubConnRef() *)
Inductive lb_result :=
| LBPlaced (i : nat)       (* use slot i *)
| LBGrow                   (* the pool is below its maximum: call gb.newSubConn(), then ErrNoSubConnAvailable *)
| LBNone.                  (* no ready subconn *)

Definition leastBusyDecision (s : bal) (refs : list nat) : lb_result :=
  match leastBusy s refs with
  | None => LBNone            (* unreachable: Pick returned before *)
  | Some i =>
      if streams_of s i <? cfg_wm s then LBPlaced i
      else if (cfg_max s =? 0) || (pool_size s <? cfg_max s) then LBGrow
      else LBPlaced i
  end.

Definition incr_streams (s : bal) (i : nat) : bal :=
  upd_slot s i (fun r => sl_set_streams r (wrap32s (sl_streams r + 1))).

Definition ctx_done (now : Z) (p : pick) : bool :=
  pk_cancelled p || match pk_deadline p with Some d => d <=? now | None => false end.

(* func (p gcpPicker) Pick(info balancer.PickInfo) (balancer.PickResult, error) *)
Definition Pick (s : bal) (pi : nat) (pk : picker) (method : N) (hasctx : bool) (reqkeys : list N)
                (deadline : option Z) (cancelled : bool) : bal * list out * ret :=
  match pk with
  | PErr true => (s, [], RTransient)
  | PErr false => (s, [], RNoSubConn)
  | PSnap [] => (s, [], RNoSubConn)
  | PSnap refs =>
      let mc := aget (cfg_methods s) method in
      let cmd0 := match mc with Some m => m_cmd m | None => BOUND end in
      let locok := match mc with Some m => m_locok m | None => true end in
      let keyres :=     (* Some boundKey | None = key error *)
        match mc with
        | Some m =>
            if hasctx && (cmd_eqb (m_cmd m) BOUND || cmd_eqb (m_cmd m) UNBIND) then
              if m_locok m then Some (match reqkeys with k :: _ => k | [] => 0%N end) else None
            else Some 0%N
        | None => Some 0%N
        end in
      match keyres with
      | None => (s, [], RKeyErr)
      | Some key =>
          let mk i st := mkPick i (b_now s) deadline cancelled cmd0 key hasctx locok st in
          if cmd_eqb cmd0 BIND && cfg_rr s then
            (* getSubConnRoundRobin *)
            match b_slots s with
            | [] => (s, [], RPanic)     (* unreachable: a snapshot exists only if slots exist *)
            | _ =>
                let rr := (b_rr s + 1) mod W32 in
                let i := Z.to_nat (rr mod Z.of_nat (length (b_slots s))) in
                let s1 := set_rr s rr in
                match get_slot s1 i with
                | None => (s1, [], RPanic)
                | Some r =>
                    let p0 := mk i PBlocked in
                    if cstate_eqb (conn_state s1 (sl_conn r)) Ready || ctx_done (b_now s1) p0 then
                      let s2 := incr_streams s1 i in
                      (set_picks s2 (b_picks s2 ++ [mk i PPlaced]), [], RPicked (sl_conn r))
                    else (set_picks s1 (b_picks s1 ++ [p0]), [], RBlocked)
                end
            end
          else
            let '(s1, dec) :=
              if negb (N.eqb key 0) then
                let '(s', r, found) := getReadySubConnRef s key in
                if found then (s', match r with Some i => LBPlaced i | None => LBNone end)
                else (s', leastBusyDecision s' refs)
              else (s, leastBusyDecision s refs) in
            match dec with
            | LBNone => (s1, [], RNoSubConn)
            | LBGrow =>
                if b_gate s1 then (set_parked s1 (b_parked s1 ++ [pi]), [], RParked)
                else let '(s2, o) := newSubConn s1 in (s2, o, RNoSubConn)
            | LBPlaced i =>
                match get_slot s1 i with
                | None => (s1, [], RPanic)
                | Some r =>
                    let s2 := incr_streams s1 i in
                    (set_picks s2 (b_picks s2 ++ [mk i PPlaced]), [], RPicked (sl_conn r))
                end
            end
      end
  end.

(* blocked round-robin picks that can proceed now (their channel is READY or
   their context ended) return, in pick order *)
Definition resolve_one (s : bal) (j : nat) (p : pick) : bal * list (nat * N) :=
  match pk_status p with
  | PBlocked =>
      match get_slot s (pk_slot p) with
      | Some r =>
          if cstate_eqb (conn_state s (sl_conn r)) Ready || ctx_done (b_now s) p then
            let s1 := incr_streams s (pk_slot p) in
            let p' := mkPick (pk_slot p) (b_now s) (pk_deadline p) (pk_cancelled p) (pk_cmd p) (pk_key p)
                             (pk_hasctx p) (pk_locok p) PPlaced in
            (set_picks s1 (upd_nth j (fun _ => p') (b_picks s1)), [(j, sl_conn r)])
          else (s, [])
      | None => (s, [])
      end
  | _ => (s, [])
  end.

Fixpoint resolve_from (s : bal) (j : nat) (ps : list pick) : bal * list (nat * N) :=
  match ps with
  | [] => (s, [])
  | p :: r => let '(s1, a) := resolve_one s j p in
              let '(s2, b) := resolve_from s1 (S j) r in (s2, a ++ b)
  end.

Definition resolve_blocked (s : bal) : bal * list (nat * N) := resolve_from s 0 (b_picks s).

Inductive outcome := DOk | DErr | DDeadlineClient | DDeadlineOther.

(* func (p gcpPicker) unresponsiveWindow(scRef *subConnRef) time.Duration (ns) *)
Definition MaxInt64 : Z := 9223372036854775807.
Definition unresponsiveWindow (s : bal) (r : slot) : Z :=
  let w := 1000000 * cfg_ums s in
  if (sl_rcnt r <? 63) && (w <=? MaxInt64 / 2 ^ sl_rcnt r) then w * 2 ^ sl_rcnt r else MaxInt64.

(* func (gb gcpBalancer) refresh(ref *subConnRef) *)
Definition refresh (s : bal) (i : nat) : bal * list out :=
  match get_slot s i with
  | None => (s, [])
  | Some r =>
      if sl_refreshing r then (s, [])
      else
        let s1 := upd_slot s i (fun r => sl_set_refreshing r true) in
        let '(s2, res, o) := cc_new_subconn s1 in
        match res with
        | None => (upd_slot s2 i (fun r => sl_set_refreshing r false), o)
        | Some sc => (set_refr s2 (aset (b_refr s2) sc i), o ++ [OConnect sc])
        end
  end.

(* func (p gcpPicker) detectUnresponsive(ctx, scRef, callStarted, rpcErr) *)
Definition detectUnresponsive (s : bal) (p : pick) (oc : outcome) : bal * list out :=
  if negb (b_undet s) then (s, [])
  else
    let i := pk_slot p in
    let client_deadline :=
      match oc, pk_deadline p with
      | DDeadlineClient, Some d => negb (b_now s <? d)
      | _, _ => false
      end in
    if negb client_deadline then
      (upd_slot s i (fun r => mkSlot (sl_conn r) (sl_aff r) (sl_streams r) (b_now s) 0 (sl_refreshing r) 0), [])
    else match get_slot s i with
         | None => (s, [])
         | Some r =>
             if pk_started p <? sl_last r then (s, [])
             else
               let de := (sl_de r + 1) mod W32 in
               let s1 := upd_slot s i (fun r => sl_set_de r de) in
               if (cfg_ucalls s <=? de) && (sl_last r <? b_now s - unresponsiveWindow s r)
               then refresh s1 i else (s1, [])
         end.

(* func (gb gcpBalancer) bindSubConn(bindKey string, sc balancer.SubConn) *)
Definition bindSubConn (s : bal) (key : N) (sc : N) : bal :=
  match aget (b_screfs s) sc with
  | None => s
  | Some i =>
      let s1 := match aget (b_aff s) key with
                | Some _ => s
                | None => set_aff s (aset (b_aff s) key sc)
                end in
      upd_slot s1 i (fun r => sl_set_aff r (wrap32s (sl_aff r + 1)))
  end.

(* func (gb gcpBalancer) unbindSubConn(boundKey string) *)
Definition unbindSubConn (s : bal) (key : N) : bal :=
  match aget (b_aff s) key with
  | None => s
  | Some sc =>
      let s1 := match aget (b_screfs s) sc with
                | Some i => upd_slot s i (fun r => sl_set_aff r (wrap32s (sl_aff r - 1)))
                | None => s
                end in
      set_aff s1 (adel (b_aff s1) key)
  end.

(* the Done closure returned by Pick *)
Definition Done (s : bal) (j : nat) (oc : outcome) (replykeys : list N) : bal * list out * ret :=
  match nth_error (b_picks s) j with
  | None => (s, [], RBadOp)
  | Some p =>
      match pk_status p with
      | PPlaced =>
          let i := pk_slot p in
          let s0 := set_picks s (upd_nth j (fun p => mkPick (pk_slot p) (pk_started p) (pk_deadline p) (pk_cancelled p)
                                                           (pk_cmd p) (pk_key p) (pk_hasctx p) (pk_locok p) PFinished) (b_picks s)) in
          let s1 := upd_slot s0 i (fun r => sl_set_streams r (wrap32s (sl_streams r - 1))) in
          let '(s2, o) := detectUnresponsive s1 p oc in
          match oc with
          | DOk =>
              match pk_cmd p with
              | BIND =>
                  if pk_hasctx p && pk_locok p then
                    match get_slot s2 i with
                    | Some r => (fold_left (fun st k => bindSubConn st k (sl_conn r)) replykeys s2, o, RNone)
                    | None => (s2, o, RNone)
                    end
                  else (s2, o, RNone)
              | UNBIND => (unbindSubConn s2 (pk_key p), o, RNone)
              | BOUND => (s2, o, RNone)
              end
          | _ => (s2, o, RNone)
          end
      | _ => (s, [], RBadOp)
      end
  end.

(* ---------------------------------------------------------------- operations *)
Inductive op :=
| OpResolver (addrs : N) (a : cfgarg)
| OpResolverErr
| OpConnState (sc : N) (st : cstate)
| OpPick (picker : nat) (method : N) (hasctx : bool) (reqkeys : list N) (deadline : option Z) (cancelled : bool)
| OpDone (pick : nat) (oc : outcome) (replykeys : list N)
| OpAdvance (dt : Z)
| OpCancel (pick : nat)
| OpFactory (fail : bool)
| OpGate (on : bool)          (* harness: park growing Picks before newSubConn() *)
| OpResume (k : nat).         (* the k-th parked Pick runs newSubConn() and returns *)

(* [raw]: the configuration the harness passes with every CfgVal resolver update;
   [order]: the READY-snapshot order observed at a publication (oracle). *)
Definition step (raw : option config) (s : bal) (o : op) (order : list nat) : bal * list out * ret :=
  match o with
  | OpResolver addrs a => UpdateClientConnState s addrs a raw
  | OpResolverErr => (s, [], RNone)
  | OpConnState sc st => let '(s1, o1) := UpdateSubConnState s sc st order in (s1, o1, RNone)
  | OpPick pi method hasctx reqkeys deadline cancelled =>
      match nth_error (b_published s) pi with
      | Some pk =>
          (* a Pick parked by the harness holds the mutex of its picker: a second
             non-round-robin Pick on the same picker would wait for it; the harness never issues one *)
          if memnat pi (b_parked s) && negb (cmd_eqb (match aget (cfg_methods s) method with Some m => m_cmd m | None => BOUND end) BIND && cfg_rr s)
          then (s, [], RBadOp)
          else Pick s pi pk method hasctx reqkeys deadline cancelled
      | None => (s, [], RBadOp)
      end
  | OpDone j oc rk => Done s j oc rk
  | OpAdvance dt => if 0 <=? dt then (set_now s (b_now s + dt), [], RNone) else (s, [], RBadOp)
  | OpCancel j =>
      match nth_error (b_picks s) j with
      | Some p => (set_picks s (upd_nth j (fun p => mkPick (pk_slot p) (pk_started p) (pk_deadline p) true (pk_cmd p)
                                                           (pk_key p) (pk_hasctx p) (pk_locok p) (pk_status p)) (b_picks s)), [], RNone)
      | None => (s, [], RBadOp)
      end
  | OpFactory f => (set_fail s f, [], RNone)
  | OpGate g => (set_gate s g, [], RNone)
  | OpResume k =>
      match nth_error (b_parked s) k with
      | Some _ =>
          let s1 := set_parked s (firstn k (b_parked s) ++ skipn (S k) (b_parked s)) in
          let '(s2, o) := newSubConn s1 in (s2, o, RNoSubConn)
      | None => (s, [], RBadOp)
      end
  end.

(* a full harness-visible step: the operation, then every blocked round-robin
   pick that can return does so *)
Definition full_step (raw : option config) (s : bal) (o : op) (order : list nat)
  : bal * list out * ret * list (nat * N) :=
  let '(s1, outs, r) := step raw s o order in
  let '(s2, unblocked) := resolve_blocked s1 in
  (s2, outs, r, unblocked).
