(* Engine A proofs: preservation of the invariant by the picker-side functions
   (newSubConn, getReadySubConnRef, Pick, resolve_blocked, refresh,
   detectUnresponsive, bindSubConn, unbindSubConn, Done), by [step] and by
   [full_step]; quiescence of blocked picks after a full step. *)
From GV Require Import Base.AListFacts Pool.Model Pool.Lemmas Pool.Inv.
From Coq Require Import Lia ZifyBool Permutation.
Open Scope Z_scope.

(* ---------------------------------------------------------------- counting placed picks *)
Lemma filter_length_upd_nth {A} (f : A -> bool) (g : A -> A) l j x :
  nth_error l j = Some x ->
  (length (filter f (upd_nth j g l)) + b2n (f x) = length (filter f l) + b2n (f (g x)))%nat.
Proof.
  revert j; induction l as [|y r IH]; intros [|j]; cbn; try discriminate.
  - intros E; inv E. destruct (f x), (f (g x)); cbn; lia.
  - intros E. specialize (IH _ E). destruct (f y); cbn; lia.
Qed.

Lemma count_placed_on_app picks p i :
  count_placed_on (picks ++ [p]) i = count_placed_on picks i + (if placed_on i p then 1 else 0).
Proof.
  unfold count_placed_on. rewrite filter_app, app_length. cbn. destruct (placed_on i p); cbn; lia.
Qed.

Lemma count_placed_on_upd picks j g p i :
  nth_error picks j = Some p ->
  count_placed_on (upd_nth j g picks) i + (if placed_on i p then 1 else 0) =
  count_placed_on picks i + (if placed_on i (g p) then 1 else 0).
Proof.
  intros E. unfold count_placed_on.
  pose proof (filter_length_upd_nth (placed_on i) g picks j p E) as H. unfold b2n in H.
  destruct (placed_on i p), (placed_on i (g p)); lia.
Qed.

Lemma placed_on_eq i p : pk_status p = PPlaced -> placed_on i p = Nat.eqb (pk_slot p) i.
Proof. unfold placed_on. intros ->. reflexivity. Qed.

Lemma placed_on_not i p : pk_status p <> PPlaced -> placed_on i p = false.
Proof. unfold placed_on. destruct (pk_status p); congruence. Qed.

(* ---------------------------------------------------------------- InvS: the five ways picks change *)
Lemma invS_place picks sv parked npub p :
  invS picks sv parked npub -> (pk_slot p < length sv)%nat -> pk_status p = PPlaced ->
  invS (picks ++ [p]) (upd_nth (pk_slot p) (fun z => wrap32s (z + 1)) sv) parked npub.
Proof.
  intros [S1 S2 S3] Hi Hst. constructor; auto.
  - intros q Hq. rewrite upd_nth_length. apply in_app_iff in Hq. destruct Hq as [Hq|[<-|[]]]; auto.
  - intros j z. rewrite nth_error_upd_nth, count_placed_on_app, placed_on_eq by auto.
    destruct (Nat.eqb_spec (pk_slot p) j) as [<-|Hj].
    + destruct (nth_error sv (pk_slot p)) as [z0|] eqn:E; [|discriminate]. cbn. intros E'; inv E'.
      rewrite (S3 _ _ E), wrap32s_add. reflexivity.
    + intros E. rewrite Z.add_0_r. auto.
Qed.

Lemma invS_block picks sv parked npub p :
  invS picks sv parked npub -> (pk_slot p < length sv)%nat -> pk_status p <> PPlaced ->
  invS (picks ++ [p]) sv parked npub.
Proof.
  intros [S1 S2 S3] Hi Hst. constructor; auto.
  - intros q Hq. apply in_app_iff in Hq. destruct Hq as [Hq|[<-|[]]]; auto.
  - intros j z E. rewrite count_placed_on_app, placed_on_not, Z.add_0_r by auto. auto.
Qed.

Lemma invS_unblock picks sv parked npub j p g :
  invS picks sv parked npub -> nth_error picks j = Some p -> pk_status p <> PPlaced ->
  pk_slot (g p) = pk_slot p -> pk_status (g p) = PPlaced ->
  invS (upd_nth j g picks) (upd_nth (pk_slot p) (fun z => wrap32s (z + 1)) sv) parked npub.
Proof.
  intros [S1 S2 S3] Hj Hst Hg1 Hg2. constructor; auto.
  - intros q Hq. rewrite upd_nth_length. apply In_upd_nth in Hq. destruct Hq as [Hq|[x [Hx ->]]]; auto.
    assert (x = p) by congruence. subst x. rewrite Hg1. apply S1. eapply nth_error_In, Hj.
  - intros i z. pose proof (count_placed_on_upd picks j g p i Hj) as Hc.
    rewrite (placed_on_not i p), (placed_on_eq i (g p)), Hg1 in Hc by auto.
    rewrite nth_error_upd_nth. destruct (Nat.eqb_spec (pk_slot p) i) as [<-|Hi].
    + destruct (nth_error sv (pk_slot p)) as [z0|] eqn:E; [|discriminate]. cbn. intros E'; inv E'.
      rewrite (S3 _ _ E), wrap32s_add. f_equal. lia.
    + intros E. rewrite (S3 _ _ E). f_equal. lia.
Qed.

Lemma invS_finish picks sv parked npub j p g :
  invS picks sv parked npub -> nth_error picks j = Some p -> pk_status p = PPlaced ->
  pk_slot (g p) = pk_slot p -> pk_status (g p) <> PPlaced ->
  invS (upd_nth j g picks) (upd_nth (pk_slot p) (fun z => wrap32s (z - 1)) sv) parked npub.
Proof.
  intros [S1 S2 S3] Hj Hst Hg1 Hg2. constructor; auto.
  - intros q Hq. rewrite upd_nth_length. apply In_upd_nth in Hq. destruct Hq as [Hq|[x [Hx ->]]]; auto.
    assert (x = p) by congruence. subst x. rewrite Hg1. apply S1. eapply nth_error_In, Hj.
  - intros i z. pose proof (count_placed_on_upd picks j g p i Hj) as Hc.
    rewrite (placed_on_eq i p), (placed_on_not i (g p)) in Hc by auto.
    rewrite nth_error_upd_nth. destruct (Nat.eqb_spec (pk_slot p) i) as [<-|Hi].
    + destruct (nth_error sv (pk_slot p)) as [z0|] eqn:E; [|discriminate]. cbn. intros E'; inv E'.
      rewrite (S3 _ _ E). replace (wrap32s (count_placed_on picks (pk_slot p)) - 1)
        with (wrap32s (count_placed_on picks (pk_slot p)) + (-1)) by lia.
      rewrite wrap32s_add. f_equal. lia.
    + intros E. rewrite (S3 _ _ E). f_equal. lia.
Qed.

Lemma invS_touch picks sv parked npub j g :
  invS picks sv parked npub ->
  (forall p, pk_slot (g p) = pk_slot p) -> (forall p, pk_status (g p) = pk_status p) ->
  invS (upd_nth j g picks) sv parked npub.
Proof.
  intros [S1 S2 S3] Hg1 Hg2. constructor; auto.
  - intros q Hq. apply In_upd_nth in Hq. destruct Hq as [Hq|[x [Hx ->]]]; auto.
    rewrite Hg1. apply S1. eapply nth_error_In, Hx.
  - intros i z E. rewrite (S3 _ _ E). f_equal.
    destruct (nth_error picks j) as [p|] eqn:Ej.
    + pose proof (count_placed_on_upd picks j g p i Ej) as Hc.
      replace (placed_on i (g p)) with (placed_on i p) in Hc by (unfold placed_on; rewrite Hg1, Hg2; reflexivity).
      lia.
    + rewrite upd_nth_out; auto. apply nth_error_None, Ej.
Qed.

(* a state that differs from an invariant state only in picks, parked picks,
   stream counters and fields outside the invariant *)
Lemma Inv_change_S s s' :
  Inv s -> b_cfg s' <> None ->
  b_screfs s' = b_screfs s -> b_scstates s' = b_scstates s -> b_refr s' = b_refr s ->
  b_aff s' = b_aff s -> b_fb s' = b_fb s -> b_next s' = b_next s ->
  b_picker s' = b_picker s -> b_published s' = b_published s -> b_state s' = b_state s ->
  b_nready s' = b_nready s -> b_nconn s' = b_nconn s -> b_ntf s' = b_ntf s ->
  conns s' = conns s -> refrs s' = refrs s ->
  InvS s' -> Inv s'.
Proof.
  intros (HK & HF & HP & HC & HG & HS) Hcfg E1 E2 E3 E4 E5 E6 E7 E8 E9 E10 E11 E12 E13 E14 HS'.
  repeat apply conj; [| | | |apply InvG_some, Hcfg|exact HS'].
  - unfold InvK. rewrite E1, E2, E3, E4, E6, E13, E14. exact HK.
  - unfold InvF. rewrite E1, E2, E5. exact HF.
  - unfold InvP. rewrite E1, E2, E7, E8, E9.
    replace (length (b_slots s')) with (length (b_slots s)); [exact HP|].
    rewrite <- (map_length sl_conn (b_slots s)), <- (map_length sl_conn (b_slots s')), E13. reflexivity.
  - unfold InvC. rewrite E2, E9, E10, E11, E12. exact HC.
Qed.

Ltac change_S HI :=
  apply Inv_change_S with (1 := HI); try reflexivity;
  try (sb; rewrite ?map_upd_nth_same by reflexivity; reflexivity).

Lemma slot_lt_streams s i : (i < length (b_slots s))%nat -> (i < length (streamsv s))%nat.
Proof. rewrite map_length. auto. Qed.

Lemma Inv_place s i p :
  Inv s -> b_cfg s <> None -> (i < length (b_slots s))%nat -> pk_slot p = i -> pk_status p = PPlaced ->
  Inv (set_picks (incr_streams s i) (b_picks s ++ [p])).
Proof.
  intros HI Hc Hi Hp Hst. change_S HI; [exact Hc|].
  unfold InvS; sb. rewrite (map_upd_nth sl_streams _ (fun z => wrap32s (z + 1))) by reflexivity.
  subst i. apply invS_place; auto; [apply HI|apply slot_lt_streams, Hi].
Qed.

Lemma Inv_block s p :
  Inv s -> b_cfg s <> None -> (pk_slot p < length (b_slots s))%nat -> pk_status p <> PPlaced ->
  Inv (set_picks s (b_picks s ++ [p])).
Proof.
  intros HI Hc Hi Hst. change_S HI; [exact Hc|].
  unfold InvS; sb. apply invS_block; auto; [apply HI|apply slot_lt_streams, Hi].
Qed.

Lemma Inv_unblock s j p g :
  Inv s -> nth_error (b_picks s) j = Some p -> pk_status p <> PPlaced ->
  pk_slot (g p) = pk_slot p -> pk_status (g p) = PPlaced ->
  Inv (set_picks (incr_streams s (pk_slot p)) (upd_nth j g (b_picks s))).
Proof.
  intros HI Hj Hst Hg1 Hg2. change_S HI.
  - sb. eapply InvG_cfg_picks; [apply HI|eapply nth_error_nonnil, Hj].
  - unfold InvS; sb. rewrite (map_upd_nth sl_streams _ (fun z => wrap32s (z + 1))) by reflexivity.
    eapply invS_unblock; eauto. apply HI.
Qed.

Lemma Inv_finish s j p g :
  Inv s -> nth_error (b_picks s) j = Some p -> pk_status p = PPlaced ->
  pk_slot (g p) = pk_slot p -> pk_status (g p) <> PPlaced ->
  Inv (upd_slot (set_picks s (upd_nth j g (b_picks s))) (pk_slot p)
                (fun r => sl_set_streams r (wrap32s (sl_streams r - 1)))).
Proof.
  intros HI Hj Hst Hg1 Hg2. change_S HI.
  - sb. eapply InvG_cfg_picks; [apply HI|eapply nth_error_nonnil, Hj].
  - unfold InvS; sb. rewrite (map_upd_nth sl_streams _ (fun z => wrap32s (z - 1))) by reflexivity.
    eapply invS_finish; eauto. apply HI.
Qed.

Lemma Inv_touch_pick s j g :
  Inv s -> (forall p, pk_slot (g p) = pk_slot p) -> (forall p, pk_status (g p) = pk_status p) ->
  (j < length (b_picks s))%nat ->
  Inv (set_picks s (upd_nth j g (b_picks s))).
Proof.
  intros HI Hg1 Hg2 Hj. change_S HI.
  - sb. eapply InvG_cfg_picks; [apply HI|]. destruct (b_picks s); [cbn in Hj; lia|discriminate].
  - unfold InvS; sb. apply invS_touch; auto. apply HI.
Qed.

Lemma Inv_set_parked s l :
  Inv s -> b_cfg s <> None -> (forall pi, In pi l -> (pi < length (b_published s))%nat) ->
  Inv (set_parked s l).
Proof.
  intros HI Hc Hl. change_S HI; [exact Hc|].
  unfold InvS; sb. destruct HI as (_&_&_&_&_&[S1 S2 S3]). constructor; auto.
Qed.

(* ---------------------------------------------------------------- newSubConn *)
Lemma newSubConn_Inv s s' o :
  b_cfg s <> None -> Inv s -> newSubConn s = (s', o) -> Inv s' /\ grow_frame s s'.
Proof.
  intros Hc HI. unfold newSubConn.
  destruct (negb (cfg_max s =? 0) && (cfg_max s <=? pool_size s));
    [intros E; inv E; split; [auto|apply grow_frame_refl]|].
  destruct (existsb _ _); [intros E; inv E; split; [auto|apply grow_frame_refl]|].
  destruct (addSubConn s) as [[s1 ok] o1] eqn:E1. intros E; inv E. eapply addSubConn_Inv; eauto.
Qed.

(* ---------------------------------------------------------------- getReadySubConnRef *)
Lemma picker_snap_slot s refs i :
  Inv s -> b_picker s = PSnap refs -> In i refs ->
  exists c sl, aget (b_scstates s) c = Some Ready /\ aget (b_screfs s) c = Some i /\
               get_slot s i = Some sl /\ sl_conn sl = c.
Proof.
  intros HI Hp Hi. destruct HI as (HK & _ & HP & _).
  destruct (snap_ready HP _ Hp) as [_ H]. apply H in Hi. rewrite <- ready_slots_eq in Hi.
  apply (is_ready_iff s HK) in Hi. destruct Hi as [c [H1 H2]].
  destruct (screfs_get_slot s HK _ _ H2) as [sl [H3 H4]]. eauto 8.
Qed.

Lemma getReadySubConnRef_Inv s key s' r found :
  Inv s -> getReadySubConnRef s key = (s', r, found) ->
  Inv s' /\ (exists fb', s' = set_fb s fb') /\ (forall i, r = Some i -> (i < length (b_slots s))%nat).
Proof.
  intros HI. unfold getReadySubConnRef.
  assert (Hid : exists fb', s = set_fb s fb') by (exists (b_fb s); destruct s; reflexivity).
  assert (Hrefs : forall c i, aget (b_screfs s) c = Some i -> (i < length (b_slots s))%nat)
    by (intros c i; apply screfs_lt, HI).
  destruct (aget (b_aff s) key) as [sc|]; [|intros E; inv E; split; [auto|split; [auto|discriminate]]].
  destruct (negb (cstate_eqb (conn_state s sc) Ready));
    [|intros E; inv E; split; [auto|split; [auto|apply Hrefs]]].
  destruct (cfg_fallback s); [|intros E; inv E; split; [auto|split; [auto|discriminate]]].
  destruct (aget (b_fb s) key) as [sc2|] eqn:Efb; [intros E; inv E; split; [auto|split; [auto|apply Hrefs]]|].
  destruct (b_picker s) as [t|refs] eqn:Ep; [intros E; inv E; split; [auto|split; [auto|discriminate]]|].
  destruct (leastBusy s refs) as [i|] eqn:El; [|intros E; inv E; split; [auto|split; [auto|discriminate]]].
  destruct (get_slot s i) as [sl|] eqn:Es; [|intros E; inv E; split; [auto|split; [auto|discriminate]]].
  intros E; inv E. apply leastBusy_spec in El. destruct El as [Hin _].
  destruct (picker_snap_slot s refs i HI Ep Hin) as [c [sl' [H1 [H2 [H3 H4]]]]].
  assert (sl' = sl) by congruence. subst sl'.
  split; [|split; [eexists; reflexivity|intros j Ej; inv Ej; eapply nth_error_Some_lt, Es]].
  destruct HI as (HK & HF & HP & HC & HG & HS). repeat apply conj; [exact HK| |exact HP|exact HC| |exact HS].
  - unfold InvF in *; sb. destruct HF as [F1 F2]. constructor.
    + apply NoDup_akeys_aset, F1.
    + intros k c'. rewrite aget_aset. destruct (N.eqb_spec key k) as [<-|Hk]; [|apply F2].
      intros E; inv E. eauto.
  - apply InvG_some. sb. eapply InvG_cfg_pubs; eauto.
    intros Epub. rewrite (picker_last HP), Epub in Ep. discriminate.
Qed.

(* ================================================================ Pick *)
Definition pick_cmd0 (s : bal) (method : N) : cmd :=
  match aget (cfg_methods s) method with Some m => m_cmd m | None => BOUND end.
Definition pick_locok0 (s : bal) (method : N) : bool :=
  match aget (cfg_methods s) method with Some m => m_locok m | None => true end.
Definition pick_keyres (s : bal) (method : N) (hasctx : bool) (reqkeys : list N) : option N :=
  match aget (cfg_methods s) method with
  | Some m =>
      if hasctx && (cmd_eqb (m_cmd m) BOUND || cmd_eqb (m_cmd m) UNBIND) then
        if m_locok m then Some (match reqkeys with k :: _ => k | [] => 0%N end) else None
      else Some 0%N
  | None => Some 0%N
  end.

(* getSubConnRoundRobin and what follows it *)
Definition pick_rr_body (s : bal) (mk : nat -> pstatus -> pick) : bal * list out * ret :=
  let rr := (b_rr s + 1) mod W32 in
  let i := Z.to_nat (rr mod Z.of_nat (length (b_slots s))) in
  let s1 := set_rr s rr in
  match get_slot s1 i with
  | None => (s1, [], RPanic)
  | Some r =>
      let p0 := mk i PBlocked in
      if cstate_eqb (conn_state s1 (sl_conn r)) Ready || ctx_done (b_now s1) p0 then
        let s2 := incr_streams s1 i in
        (set_picks s2 (b_picks s2 ++ [mk i PPlaced]), [], RPicked (sl_conn r))
      else (set_picks s1 (b_picks s1 ++ [p0]), [], RBlocked)
  end.

Definition pick_rr (s : bal) (mk : nat -> pstatus -> pick) : bal * list out * ret :=
  match b_slots s with
  | [] => (s, [], RPanic)
  | _ => pick_rr_body s mk
  end.

Lemma pick_rr_nonempty s mk : b_slots s <> [] -> pick_rr s mk = pick_rr_body s mk.
Proof. unfold pick_rr. destruct (b_slots s); [congruence|reflexivity]. Qed.

Lemma rr_index_lt s : b_slots s <> [] ->
  (Z.to_nat (((b_rr s + 1) mod W32) mod Z.of_nat (length (b_slots s))) < length (b_slots s))%nat.
Proof.
  intros Hs. assert (0 < Z.of_nat (length (b_slots s))) by (destruct (b_slots s); [congruence|cbn [length]; lia]).
  pose proof (Z.mod_pos_bound ((b_rr s + 1) mod W32) _ H). lia.
Qed.

(* the routing decision of a non-round-robin Pick *)
Definition pick_dec (s : bal) (key : N) (refs : list nat) : bal * lb_result :=
  if negb (N.eqb key 0) then
    let '(s', r, found) := getReadySubConnRef s key in
    if found then (s', match r with Some i => LBPlaced i | None => LBNone end)
    else (s', leastBusyDecision s' refs)
  else (s, leastBusyDecision s refs).

Definition pick_lb (s : bal) (pi : nat) (mk : nat -> pstatus -> pick) (key : N) (refs : list nat)
  : bal * list out * ret :=
  let '(s1, dec) := pick_dec s key refs in
  match dec with
  | LBNone => (s1, [], RNoSubConn)
  | LBGrow =>
      if b_gate s1 then (set_parked s1 (b_parked s1 ++ [pi]), [], RParked)
      else let '(s2, o) := newSubConn s1 in (s2, o, RNoSubConn)
  | LBPlaced i =>
      match get_slot s1 i with
      | None => (s1, [], RPanic)
      | Some r =>
          let s2 := incr_streams s1 i in
          (set_picks s2 (b_picks s2 ++ [mk i PPlaced]), [], RPicked (sl_conn r))
      end
  end.

Definition pick_mk (s : bal) (method : N) (hasctx : bool) (key : N) (deadline : option Z) (cancelled : bool)
  (i : nat) (st : pstatus) : pick :=
  mkPick i (b_now s) deadline cancelled (pick_cmd0 s method) key hasctx (pick_locok0 s method) st.

Lemma Pick_eq s pi pk method hasctx reqkeys deadline cancelled :
  Pick s pi pk method hasctx reqkeys deadline cancelled =
  match pk with
  | PErr true => (s, [], RTransient)
  | PErr false => (s, [], RNoSubConn)
  | PSnap [] => (s, [], RNoSubConn)
  | PSnap refs =>
      match pick_keyres s method hasctx reqkeys with
      | None => (s, [], RKeyErr)
      | Some key =>
          if cmd_eqb (pick_cmd0 s method) BIND && cfg_rr s
          then pick_rr s (pick_mk s method hasctx key deadline cancelled)
          else pick_lb s pi (pick_mk s method hasctx key deadline cancelled) key refs
      end
  end.
Proof.
  unfold Pick. destruct pk as [[|]|[|a l]]; reflexivity.
Qed.

Lemma pick_rr_Inv s mk s' o r :
  Inv s -> b_cfg s <> None -> b_slots s <> [] ->
  (forall i st, pk_slot (mk i st) = i) -> (forall i st, pk_status (mk i st) = st) ->
  pick_rr s mk = (s', o, r) -> Inv s' /\ r <> RPanic.
Proof.
  intros HI Hc Hs Hmk1 Hmk2. rewrite pick_rr_nonempty by auto. unfold pick_rr_body. cbv zeta.
  pose proof (rr_index_lt s Hs) as Hi.
  set (rr := (b_rr s + 1) mod W32) in *.
  set (i := Z.to_nat (rr mod Z.of_nat (length (b_slots s)))) in *.
  destruct (nth_error_lt_Some _ _ Hi) as [sl Es].
  change (get_slot (set_rr s rr) i) with (nth_error (b_slots s) i). rewrite Es.
  destruct (_ || _); intros E; inv E; (split; [|discriminate]).
  - apply (Inv_place (set_rr s rr)); auto.
  - apply (Inv_block (set_rr s rr)); auto; rewrite ?Hmk1, ?Hmk2; [exact Hi|discriminate].
Qed.

Lemma leastBusyDecision_placed s refs i : leastBusyDecision s refs = LBPlaced i -> In i refs.
Proof.
  unfold leastBusyDecision. destruct (leastBusy s refs) as [j|] eqn:E; [|discriminate].
  apply leastBusy_spec in E. destruct E as [E _].
  destruct (_ <? _); [intros H; inv H; auto|]. destruct (_ || _); [discriminate|intros H; inv H; auto].
Qed.

Lemma pick_dec_Inv s key refs s1 dec :
  Inv s -> (forall i, In i refs -> (i < length (b_slots s))%nat) ->
  pick_dec s key refs = (s1, dec) ->
  Inv s1 /\ (exists fb', s1 = set_fb s fb') /\ (forall i, dec = LBPlaced i -> (i < length (b_slots s))%nat).
Proof.
  intros HI Hrefs. unfold pick_dec.
  assert (Hid : exists fb', s = set_fb s fb') by (exists (b_fb s); destruct s; reflexivity).
  destruct (negb (N.eqb key 0)).
  - destruct (getReadySubConnRef s key) as [[s' r] found] eqn:Eg.
    destruct (getReadySubConnRef_Inv _ _ _ _ _ HI Eg) as [HI' [Hfb Hr]].
    destruct found; intros E; inv E; (split; [auto|split; [auto|]]).
    + intros i Ei. destruct r as [j|]; inv Ei. auto.
    + intros i Ei. apply leastBusyDecision_placed in Ei. auto.
  - intros E; inv E. split; [auto|split; [auto|]].
    intros i Ei. apply leastBusyDecision_placed in Ei. auto.
Qed.

Lemma pick_lb_Inv s pi mk key refs s' o r :
  Inv s -> b_cfg s <> None -> (pi < length (b_published s))%nat ->
  (forall i, In i refs -> (i < length (b_slots s))%nat) ->
  (forall i st, pk_slot (mk i st) = i) -> (forall i st, pk_status (mk i st) = st) ->
  pick_lb s pi mk key refs = (s', o, r) -> Inv s' /\ r <> RPanic.
Proof.
  intros HI Hc Hpi Hrefs Hmk1 Hmk2. unfold pick_lb.
  destruct (pick_dec s key refs) as [s1 dec] eqn:Ed.
  destruct (pick_dec_Inv _ _ _ _ _ HI Hrefs Ed) as [HI1 [[fb' ->] Hdec]].
  assert (Hc1 : b_cfg (set_fb s fb') <> None) by exact Hc.
  destruct dec as [i| |].
  - specialize (Hdec i eq_refl). destruct (nth_error_lt_Some _ _ Hdec) as [sl Es].
    change (get_slot (set_fb s fb') i) with (nth_error (b_slots s) i). rewrite Es.
    intros E; inv E. split; [|discriminate]. apply (Inv_place (set_fb s fb')); auto.
  - destruct (b_gate (set_fb s fb')).
    + intros E; inv E. split; [|discriminate]. apply Inv_set_parked; auto.
      intros x Hx. apply in_app_iff in Hx. destruct Hx as [Hx|[<-|[]]]; [|exact Hpi].
      destruct HI as (_&_&_&_&_&HS). apply (parked_valid HS), Hx.
    + destruct (newSubConn (set_fb s fb')) as [s2 o2] eqn:En. intros E; inv E. split; [|discriminate].
      eapply newSubConn_Inv in En; eauto. tauto.
  - intros E; inv E. split; [auto|discriminate].
Qed.

Lemma Pick_Inv s pi pk method hasctx reqkeys deadline cancelled s' o r :
  Inv s -> nth_error (b_published s) pi = Some pk ->
  Pick s pi pk method hasctx reqkeys deadline cancelled = (s', o, r) -> Inv s' /\ r <> RPanic.
Proof.
  intros HI Hpk. rewrite Pick_eq.
  assert (Hc : b_cfg s <> None).
  { eapply InvG_cfg_pubs; [apply HI|eapply nth_error_nonnil, Hpk]. }
  destruct pk as [[|]|[|a l]]; try (intros E; inv E; split; [auto|discriminate]).
  assert (Hrefs : forall i, In i (a :: l) -> (i < length (b_slots s))%nat).
  { intros i Hi. destruct HI as (_&_&HP&_). eapply (pub_valid HP); eauto. eapply nth_error_In, Hpk. }
  destruct (pick_keyres s method hasctx reqkeys) as [key|]; [|intros E; inv E; split; [auto|discriminate]].
  destruct (cmd_eqb _ BIND && cfg_rr s).
  - apply pick_rr_Inv; auto.
    specialize (Hrefs a (or_introl eq_refl)). destruct (b_slots s); [cbn in Hrefs; lia|discriminate].
  - apply pick_lb_Inv; auto. eapply nth_error_Some_lt, Hpk.
Qed.

(* ================================================================ refresh *)
Definition refresh_ok_state (s : bal) (i : nat) : bal :=
  let s1 := upd_slot s i (fun r => sl_set_refreshing r true) in
  let s2 := set_next s1 (N.succ (b_next s1)) in
  set_refr s2 (aset (b_refr s2) (b_next s) i).

Lemma refresh_cases s i :
  (refresh s i = (s, []) /\
   (get_slot s i = None \/ exists r, get_slot s i = Some r /\ sl_refreshing r = true)) \/
  (exists r, get_slot s i = Some r /\ sl_refreshing r = false /\
     ((cannot_create s = true /\ refresh s i = (s, [ONewSCFail (b_addrs s)])) \/
      (cannot_create s = false /\
       refresh s i = (refresh_ok_state s i, [ONewSC (b_next s) (b_addrs s); OConnect (b_next s)])))).
Proof.
  unfold refresh. destruct (get_slot s i) as [r|] eqn:Es; [|left; auto].
  destruct (sl_refreshing r) eqn:Er; [left; eauto|].
  right. exists r. split; [auto|split; [auto|]].
  destruct (cc_new_subconn_cases (upd_slot s i (fun r0 => sl_set_refreshing r0 true))) as [[H ->]|[H ->]];
    [left|right]; (split; [exact H|]).
  - f_equal.
    change (upd_slot (upd_slot s i (fun r0 => sl_set_refreshing r0 true)) i (fun r0 => sl_set_refreshing r0 false))
      with (set_slots s (upd_nth i (fun r0 => sl_set_refreshing r0 false)
                                 (upd_nth i (fun r0 => sl_set_refreshing r0 true) (b_slots s)))).
    rewrite upd_nth_upd_nth.
    rewrite (upd_nth_fix (b_slots s) i (fun x => sl_set_refreshing (sl_set_refreshing x true) false) r)
      by (first [exact Es|destruct r; cbn in *; subst; reflexivity]).
    destruct s; reflexivity.
  - reflexivity.
Qed.

Lemma refresh_ok_Inv s i r :
  Inv s -> get_slot s i = Some r -> sl_refreshing r = false -> Inv (refresh_ok_state s i).
Proof.
  intros HI Es Er. pose proof HI as (HK & HF & HP & HC & HG & HS).
  assert (Hri : nth_error (refrs s) i = Some false) by (apply nth_error_map_Some; eauto).
  pose proof (next_fresh_refr s HK) as F3. pose proof (next_fresh_conns s HK) as F4.
  unfold refresh_ok_state. repeat apply conj.
  - unfold InvK in *; sb. rewrite map_upd_nth_same by reflexivity.
    rewrite (map_upd_nth sl_refreshing _ (fun _ => true)) by reflexivity.
    destruct HK as [K1 K2 K3 K4 K5 K6 K7 K8 K9 K10 K11 K12 K13 K14]. constructor; auto.
    + apply NoDup_akeys_aset, K3.
    + intros c j. rewrite aget_aset. destruct (N.eqb_spec (b_next s) c) as [<-|Hc].
      * intros E; inv E. rewrite nth_error_upd_nth_eq, Hri. reflexivity.
      * intros E. pose proof (K7 _ _ E) as H. rewrite nth_error_upd_nth_neq; [auto|]. intros <-. congruence.
    + intros c c' j. rewrite !aget_aset.
      destruct (N.eqb_spec (b_next s) c) as [<-|Hc]; destruct (N.eqb_spec (b_next s) c') as [<-|Hc']; auto.
      * intros E E'; inv E. apply K7 in E'. congruence.
      * intros E E'; inv E'. apply K7 in E. congruence.
      * apply K8.
    + intros j. rewrite nth_error_upd_nth. destruct (Nat.eqb_spec i j) as [<-|Hj].
      * intros _. exists (b_next s). apply aget_aset_eq.
      * intros E. destruct (K9 _ E) as [c Hc]. exists c. rewrite aget_aset_neq; [auto|]. congruence.
    + intros c Hc. apply In_akeys_aset in Hc. destruct Hc as [->|Hc]; [exact F4|auto].
    + intros c Hc. apply In_akeys_aset in Hc. destruct Hc as [->|Hc]; [lia|]. apply K12 in Hc. lia.
    + intros c Hc. apply K13 in Hc. lia.
  - exact HF.
  - unfold InvP in *; sb. rewrite upd_nth_length. exact HP.
  - exact HC.
  - apply InvG_some. sb. eapply InvG_cfg_slots; [exact HG|]. eapply nth_error_nonnil, Es.
  - unfold InvS in *; sb. rewrite map_upd_nth_same by reflexivity. exact HS.
Qed.

Lemma refresh_Inv s i s' o : Inv s -> refresh s i = (s', o) -> Inv s'.
Proof.
  intros HI E. destruct (refresh_cases s i) as [[E' _]|[r [Es [Er [[_ E']|[_ E']]]]]];
    rewrite E' in E; inv E; auto. eapply refresh_ok_Inv; eauto.
Qed.

(* ================================================================ detectUnresponsive *)
Lemma detectUnresponsive_Inv s p oc s' o : Inv s -> detectUnresponsive s p oc = (s', o) -> Inv s'.
Proof.
  intros HI. unfold detectUnresponsive.
  destruct (negb (b_undet s)); [intros E; inv E; auto|].
  destruct (negb _).
  - intros E; inv E. apply Inv_upd_slot_same; auto.
  - destruct (get_slot s (pk_slot p)) as [r|]; [|intros E; inv E; auto].
    destruct (pk_started p <? sl_last r); [intros E; inv E; auto|].
    destruct (_ && _).
    + apply refresh_Inv. apply Inv_upd_slot_same; auto.
    + intros E; inv E. apply Inv_upd_slot_same; auto.
Qed.

(* ================================================================ bindSubConn / unbindSubConn *)
Lemma bindSubConn_Inv s key sc : Inv s -> Inv (bindSubConn s key sc).
Proof.
  intros HI. unfold bindSubConn. destruct (aget (b_screfs s) sc) as [i|] eqn:Er; [|auto].
  apply Inv_upd_slot_same; auto.
  destruct (aget (b_aff s) key) as [c|] eqn:Ea; [auto|].
  destruct HI as (HK & HF & HP & HC & HG & HS). repeat apply conj; try assumption.
  - unfold InvK in *; sb. destruct HK as [K1 K2 K3 K4 K5 K6 K7 K8 K9 K10 K11 K12 K13 K14]. constructor; auto.
    + apply NoDup_akeys_aset, K4.
    + intros k c. rewrite aget_aset. destruct (N.eqb_spec key k) as [<-|Hk]; [|apply K14].
      intros E; inv E. eapply nth_error_In, K6, Er.
  - apply InvG_some. sb. intros E. apply (cfg_none HG) in E. destruct E as [E _]. rewrite E in Er. discriminate.
Qed.

Lemma fold_bindSubConn_Inv keys sc : forall s, Inv s -> Inv (fold_left (fun st k => bindSubConn st k sc) keys s).
Proof. induction keys as [|k r IH]; intros s HI; cbn; [auto|]. apply IH, bindSubConn_Inv, HI. Qed.

Lemma unbindSubConn_Inv s key : Inv s -> Inv (unbindSubConn s key).
Proof.
  intros HI. unfold unbindSubConn. destruct (aget (b_aff s) key) as [sc|] eqn:Ea; [|auto].
  assert (HI1 : Inv (match aget (b_screfs s) sc with
                     | Some i => upd_slot s i (fun r => sl_set_aff r (wrap32s (sl_aff r - 1)))
                     | None => s end)).
  { destruct (aget (b_screfs s) sc); [apply Inv_upd_slot_same|]; auto. }
  assert (Haff : b_aff (match aget (b_screfs s) sc with
                     | Some i => upd_slot s i (fun r => sl_set_aff r (wrap32s (sl_aff r - 1)))
                     | None => s end) = b_aff s) by (destruct (aget (b_screfs s) sc); reflexivity).
  assert (Hcfg : b_cfg (match aget (b_screfs s) sc with
                     | Some i => upd_slot s i (fun r => sl_set_aff r (wrap32s (sl_aff r - 1)))
                     | None => s end) = b_cfg s) by (destruct (aget (b_screfs s) sc); reflexivity).
  set (s1 := match aget (b_screfs s) sc with Some i => _ | None => s end) in *.
  destruct HI1 as (HK & HF & HP & HC & HG & HS). repeat apply conj; try assumption.
  - unfold InvK in *; sb. destruct HK as [K1 K2 K3 K4 K5 K6 K7 K8 K9 K10 K11 K12 K13 K14]. constructor; auto.
    + apply NoDup_akeys_adel, K4.
    + intros k c. rewrite aget_adel. destruct (N.eqb key k); [discriminate|apply K14].
  - apply InvG_some. sb. rewrite Hcfg. intros E. destruct HI as (_&_&_&_&HG0&_).
    apply (cfg_none HG0) in E. destruct E as (_&_&_&_&_&_&E&_). rewrite E in Ea. discriminate.
Qed.

(* ================================================================ Done *)
Definition finish_pick (p : pick) : pick :=
  mkPick (pk_slot p) (pk_started p) (pk_deadline p) (pk_cancelled p) (pk_cmd p) (pk_key p)
         (pk_hasctx p) (pk_locok p) PFinished.

(* the state after the stream count of the pick's channel has been released *)
Definition done_s1 (s : bal) (j : nat) (p : pick) : bal :=
  upd_slot (set_picks s (upd_nth j finish_pick (b_picks s))) (pk_slot p)
           (fun r => sl_set_streams r (wrap32s (sl_streams r - 1))).

(* the affinity bookkeeping at the end of Done *)
Definition done_bind (s2 : bal) (p : pick) (oc : outcome) (replykeys : list N) : bal :=
  match oc with
  | DOk =>
      match pk_cmd p with
      | BIND =>
          if pk_hasctx p && pk_locok p then
            match get_slot s2 (pk_slot p) with
            | Some r => fold_left (fun st k => bindSubConn st k (sl_conn r)) replykeys s2
            | None => s2
            end
          else s2
      | UNBIND => unbindSubConn s2 (pk_key p)
      | BOUND => s2
      end
  | _ => s2
  end.

Lemma Done_eq s j oc replykeys :
  Done s j oc replykeys =
  match nth_error (b_picks s) j with
  | None => (s, [], RBadOp)
  | Some p =>
      match pk_status p with
      | PPlaced =>
          let '(s2, o) := detectUnresponsive (done_s1 s j p) p oc in
          (done_bind s2 p oc replykeys, o, RNone)
      | _ => (s, [], RBadOp)
      end
  end.
Proof.
  unfold Done, done_s1, done_bind. destruct (nth_error (b_picks s) j) as [p|]; [|reflexivity].
  destruct (pk_status p); try reflexivity.
  fold (finish_pick).
  destruct (detectUnresponsive _ p oc) as [s2 o].
  destruct oc; try reflexivity. destruct (pk_cmd p); try reflexivity.
  destruct (pk_hasctx p && pk_locok p); try reflexivity.
  destruct (get_slot s2 (pk_slot p)); reflexivity.
Qed.

Lemma done_s1_Inv s j p : Inv s -> nth_error (b_picks s) j = Some p -> pk_status p = PPlaced -> Inv (done_s1 s j p).
Proof. intros HI Hj Hst. apply Inv_finish; auto. cbn. discriminate. Qed.

Lemma done_bind_Inv s2 p oc rk : Inv s2 -> Inv (done_bind s2 p oc rk).
Proof.
  intros HI. unfold done_bind. destruct oc; auto. destruct (pk_cmd p); auto.
  - destruct (_ && _); auto. destruct (get_slot s2 (pk_slot p)); auto. apply fold_bindSubConn_Inv, HI.
  - apply unbindSubConn_Inv, HI.
Qed.

Lemma Done_Inv s j oc rk s' o r : Inv s -> Done s j oc rk = (s', o, r) -> Inv s' /\ r <> RPanic.
Proof.
  intros HI. rewrite Done_eq. destruct (nth_error (b_picks s) j) as [p|] eqn:Ej;
    [|intros E; inv E; split; [auto|discriminate]].
  destruct (pk_status p) eqn:Est; try (intros E; inv E; split; [auto|discriminate]).
  destruct (detectUnresponsive (done_s1 s j p) p oc) as [s2 o2] eqn:Ed. intros E; inv E.
  split; [|discriminate]. apply done_bind_Inv. eapply detectUnresponsive_Inv; [|exact Ed].
  apply done_s1_Inv; auto.
Qed.

(* ================================================================ resolve_blocked *)
Definition is_blocked (p : pick) : bool := match pk_status p with PBlocked => true | _ => false end.
Definition resolvable (s : bal) (p : pick) : bool := is_blocked p && can_proceed s p.
Definition unblock_pick (now : Z) (p : pick) : pick :=
  mkPick (pk_slot p) now (pk_deadline p) (pk_cancelled p) (pk_cmd p) (pk_key p) (pk_hasctx p) (pk_locok p) PPlaced.
Definition slot_conn_of (s : bal) (i : nat) : N :=
  match get_slot s i with Some r => sl_conn r | None => 0%N end.

Lemma resolve_one_eq s j p :
  resolve_one s j p =
  if resolvable s p
  then (set_picks (incr_streams s (pk_slot p)) (upd_nth j (fun _ => unblock_pick (b_now s) p) (b_picks s)),
        [(j, slot_conn_of s (pk_slot p))])
  else (s, []).
Proof.
  unfold resolve_one, resolvable, is_blocked, can_proceed, slot_conn_of.
  destruct (pk_status p); try reflexivity. cbn [andb].
  destruct (get_slot s (pk_slot p)) as [r|]; [|reflexivity].
  destruct (_ || _); reflexivity.
Qed.

(* frame of the unblocking loop: everything but the picks and the stream counters *)
Definition strip_streams (r : slot) : slot := sl_set_streams r 0.
Definition mask_sp (s : bal) : bal := set_picks (set_slots s (map strip_streams (b_slots s))) [].

Lemma mask_sp_conns s s' : mask_sp s' = mask_sp s -> conns s' = conns s.
Proof.
  intros H. apply (f_equal b_slots) in H. unfold mask_sp in H; sb.
  apply (f_equal (map sl_conn)) in H. rewrite !map_map in H. exact H.
Qed.

Lemma mask_sp_get_slot s s' i :
  mask_sp s' = mask_sp s ->
  option_map strip_streams (get_slot s' i) = option_map strip_streams (get_slot s i).
Proof.
  intros H. apply (f_equal b_slots) in H. unfold mask_sp in H; sb.
  unfold get_slot. rewrite <- !nth_error_map. rewrite H. reflexivity.
Qed.

Lemma mask_sp_can_proceed s s' p : mask_sp s' = mask_sp s -> can_proceed s' p = can_proceed s p.
Proof.
  intros H. unfold can_proceed, conn_state.
  pose proof (mask_sp_get_slot s s' (pk_slot p) H) as Hs.
  pose proof (f_equal b_scstates H) as H1. pose proof (f_equal b_now H) as H2. cbn in H1, H2.
  rewrite H1, H2.
  destruct (get_slot s' (pk_slot p)) as [r'|], (get_slot s (pk_slot p)) as [r|]; cbn in Hs; try congruence.
  inv Hs. destruct r, r'; cbn in *. inv H3. reflexivity.
Qed.

Lemma mask_sp_resolvable s s' p : mask_sp s' = mask_sp s -> resolvable s' p = resolvable s p.
Proof. intros H. unfold resolvable. rewrite (mask_sp_can_proceed s s' p H). reflexivity. Qed.

Lemma mask_sp_slot_conn_of s s' i : mask_sp s' = mask_sp s -> slot_conn_of s' i = slot_conn_of s i.
Proof.
  intros H. unfold slot_conn_of. pose proof (mask_sp_get_slot s s' i H) as Hs.
  destruct (get_slot s' i) as [r'|], (get_slot s i) as [r|]; cbn in Hs; try congruence.
  inv Hs. destruct r, r'; cbn in *. inv H1. reflexivity.
Qed.

Lemma mask_sp_unblock s i X : mask_sp (set_picks (incr_streams s i) X) = mask_sp s.
Proof. unfold mask_sp, incr_streams, upd_slot; sb. rewrite map_upd_nth_same by reflexivity. reflexivity. Qed.

Definition resolve_pick (s : bal) (p : pick) : pick :=
  if resolvable s p then unblock_pick (b_now s) p else p.

Fixpoint unblocked_from (s : bal) (j : nat) (ps : list pick) : list (nat * N) :=
  match ps with
  | [] => []
  | p :: r => (if resolvable s p then [(j, slot_conn_of s (pk_slot p))] else []) ++ unblocked_from s (S j) r
  end.

Lemma upd_nth_app_mid {A} (pre : list A) x post f : upd_nth (length pre) f (pre ++ x :: post) = pre ++ f x :: post.
Proof. induction pre as [|y r IH]; cbn; [reflexivity|]. rewrite IH. reflexivity. Qed.

Lemma resolve_from_spec : forall ps s j pre s' l,
  Inv s -> b_picks s = pre ++ ps -> length pre = j ->
  resolve_from s j ps = (s', l) ->
  Inv s' /\ mask_sp s' = mask_sp s /\ b_picks s' = pre ++ map (resolve_pick s) ps /\ l = unblocked_from s j ps.
Proof.
  induction ps as [|p r IH]; intros s j pre s' l HI Hp Hj; subst j; cbn [resolve_from map unblocked_from].
  - intros E; inv E. auto.
  - rewrite resolve_one_eq. unfold resolve_pick at 1.
    destruct (resolvable s p) eqn:Er.
    + set (s1 := set_picks (incr_streams s (pk_slot p)) (upd_nth (length pre) (fun _ => unblock_pick (b_now s) p) (b_picks s))).
      destruct (resolve_from s1 (S (length pre)) r) as [s2 b] eqn:E2. intros E; inv E.
      assert (Hm1 : mask_sp s1 = mask_sp s) by apply mask_sp_unblock.
      assert (Hp1 : b_picks s1 = (pre ++ [unblock_pick (b_now s) p]) ++ r).
      { unfold s1; sb. rewrite Hp, upd_nth_app_mid, <- app_assoc. reflexivity. }
      assert (HI1 : Inv s1).
      { unfold s1. apply Inv_unblock; auto.
        - rewrite Hp. rewrite nth_error_app2 by lia. rewrite Nat.sub_diag. reflexivity.
        - unfold resolvable, is_blocked in Er. destruct (pk_status p); try discriminate. }
      destruct (IH s1 (S (length pre)) _ s' b HI1 Hp1) as [H1 [H2 [H3 H4]]]; [rewrite app_length; cbn; lia|exact E2|].
      split; [auto|split; [rewrite H2; exact Hm1|split]].
      * rewrite H3, <- app_assoc. cbn. f_equal. f_equal. apply map_ext. intros q. unfold resolve_pick.
        rewrite (mask_sp_resolvable s s1 q Hm1). reflexivity.
      * rewrite H4. cbn. f_equal. clear - Hm1. generalize (S (length pre)). induction r as [|q r IHr]; intros n; cbn; auto.
        rewrite (mask_sp_resolvable s s1 q Hm1), (mask_sp_slot_conn_of s s1 _ Hm1), IHr. reflexivity.
    + destruct (resolve_from s (S (length pre)) r) as [s2 b] eqn:E2. intros E; inv E.
      assert (Hp1 : b_picks s = (pre ++ [p]) ++ r) by (rewrite Hp, <- app_assoc; reflexivity).
      destruct (IH s (S (length pre)) _ s' l HI Hp1) as [H1 [H2 [H3 H4]]]; [rewrite app_length; cbn; lia|exact E2|].
      split; [auto|split; [auto|split]].
      * rewrite H3, <- app_assoc. reflexivity.
      * rewrite H4. reflexivity.
Qed.

Lemma resolve_blocked_spec s s' l :
  Inv s -> resolve_blocked s = (s', l) ->
  Inv s' /\ mask_sp s' = mask_sp s /\ b_picks s' = map (resolve_pick s) (b_picks s) /\
  l = unblocked_from s 0 (b_picks s).
Proof. intros HI E. apply (resolve_from_spec (b_picks s) s 0%nat [] s' l HI eq_refl eq_refl E). Qed.

Lemma resolve_blocked_Quiescent s s' l : Inv s -> resolve_blocked s = (s', l) -> Quiescent s'.
Proof.
  intros HI E. destruct (resolve_blocked_spec s s' l HI E) as [_ [Hm [Hp _]]].
  intros p' Hin Hst. rewrite Hp in Hin. apply in_map_iff in Hin. destruct Hin as [p [<- Hin]].
  rewrite (mask_sp_can_proceed s s' _ Hm). unfold resolve_pick in *.
  destruct (resolvable s p) eqn:Er; [discriminate|].
  unfold resolvable, is_blocked in Er. rewrite Hst in Er. exact Er.
Qed.

(* ================================================================ step / full_step *)
Lemma UpdateClientConnState_ret s addrs a raw s' o r :
  UpdateClientConnState s addrs a raw = (s', o, r) -> r = RNone \/ r = RCfgErr.
Proof.
  rewrite UpdateClientConnState_eq. destruct (ucc_init s addrs a raw) as [[s2 o2]|]; [|intros E; inv E; auto].
  destruct (_ =? _)%nat; [destruct (addSubConn s2) as [[s3 ok] o3]|]; intros E; inv E; auto.
Qed.

Definition cancel_pick (p : pick) : pick :=
  mkPick (pk_slot p) (pk_started p) (pk_deadline p) true (pk_cmd p) (pk_key p) (pk_hasctx p) (pk_locok p) (pk_status p).

Lemma In_remove_nth {A} (l : list A) k x : In x (firstn k l ++ skipn (S k) l) -> In x l.
Proof.
  intros H. apply in_app_iff in H. destruct H as [H|H].
  - rewrite <- (firstn_skipn k l). apply in_app_iff. auto.
  - rewrite <- (firstn_skipn (S k) l). apply in_app_iff. auto.
Qed.

Lemma step_Inv raw s o order s' outs r :
  Inv s -> step raw s o order = (s', outs, r) -> Inv s' /\ r <> RPanic.
Proof.
  intros HI. destruct o as [addrs a| |sc st|pi m hc rk dl cc|j oc rk|dt|j|f|g|k]; cbn [step].
  - intros E. split; [eapply UpdateClientConnState_Inv; eauto|].
    apply UpdateClientConnState_ret in E. destruct E; subst; discriminate.
  - intros E; inv E. split; [auto|discriminate].
  - destruct (UpdateSubConnState s sc st order) as [s1 o1] eqn:E1. intros E; inv E.
    split; [|discriminate]. eapply UpdateSubConnState_Inv in E1; eauto. tauto.
  - destruct (nth_error (b_published s) pi) as [pk|] eqn:Ep; [|intros E; inv E; split; [auto|discriminate]].
    destruct (_ && _); [intros E; inv E; split; [auto|discriminate]|].
    eapply Pick_Inv; eauto.
  - apply Done_Inv, HI.
  - destruct (0 <=? dt); intros E; inv E; (split; [|discriminate]); [apply Inv_set_now|]; auto.
  - destruct (nth_error (b_picks s) j) as [p|] eqn:Ej; intros E; inv E; (split; [|discriminate]); auto.
    apply (Inv_touch_pick s j cancel_pick); auto. eapply nth_error_Some_lt, Ej.
  - intros E; inv E. split; [apply Inv_set_fail, HI|discriminate].
  - intros E; inv E. split; [apply Inv_set_gate, HI|discriminate].
  - destruct (nth_error (b_parked s) k) as [x|] eqn:Ek; [|intros E; inv E; split; [auto|discriminate]].
    destruct (newSubConn _) as [s2 o2] eqn:En. intros E; inv E. split; [|discriminate].
    assert (Hc : b_cfg s <> None) by (eapply InvG_cfg_parked; [apply HI|eapply nth_error_nonnil, Ek]).
    eapply newSubConn_Inv in En; [tauto|exact Hc|].
    apply Inv_set_parked; auto. intros pi Hpi. apply In_remove_nth in Hpi.
    destruct HI as (_&_&_&_&_&HS). apply (parked_valid HS), Hpi.
Qed.

Lemma full_step_eq raw s o order :
  full_step raw s o order =
  let '(s1, outs, r) := step raw s o order in
  let '(s2, ub) := resolve_blocked s1 in (s2, outs, r, ub).
Proof. reflexivity. Qed.

Lemma full_step_Inv raw s o order s' outs r ub :
  Inv s -> full_step raw s o order = (s', outs, r, ub) -> Inv s' /\ Quiescent s' /\ r <> RPanic.
Proof.
  intros HI. rewrite full_step_eq.
  destruct (step raw s o order) as [[s1 outs1] r1] eqn:Es.
  destruct (resolve_blocked s1) as [s2 ub2] eqn:Er. intros E; inv E.
  destruct (step_Inv _ _ _ _ _ _ _ HI Es) as [HI1 Hr].
  split; [|split; [|exact Hr]].
  - eapply resolve_blocked_spec in Er; eauto. tauto.
  - eapply resolve_blocked_Quiescent; eauto.
Qed.

(* ================================================================ b_next never decreases *)
Lemma ucc_init_next s addrs a raw s2 o2 :
  Inv s -> ucc_init s addrs a raw = Some (s2, o2) -> (b_next s <= b_next s2)%N.
Proof.
  intros HI. unfold ucc_init. sb. destruct (b_cfg s); [intros E; inv E; cbn; lia|].
  destruct a; try discriminate; intros E; inv E.
  - destruct (initializeConfig (set_addrs s addrs) None) as [s' o'] eqn:E. inv H0.
    destruct (initializeConfig_Inv _ _ _ _ (Inv_set_addrs _ addrs HI) E) as [_ H2]. apply (gf_next _ _ H2).
  - destruct (initializeConfig (set_addrs s addrs) raw) as [s' o'] eqn:E. inv H0.
    destruct (initializeConfig_Inv _ _ _ _ (Inv_set_addrs _ addrs HI) E) as [_ H2]. apply (gf_next _ _ H2).
Qed.

Lemma UpdateClientConnState_next s addrs a raw s' o r :
  Inv s -> UpdateClientConnState s addrs a raw = (s', o, r) -> (b_next s <= b_next s')%N.
Proof.
  intros HI. rewrite UpdateClientConnState_eq.
  destruct (ucc_init s addrs a raw) as [[s2 o2]|] eqn:E0; [|intros E; inv E; cbn; lia].
  pose proof (ucc_init_next _ _ _ _ _ _ HI E0) as H0.
  destruct (ucc_init_Inv _ _ _ _ _ _ HI E0) as [HI2 [Hc2 _]].
  destruct (_ =? _)%nat; [|intros E; inv E; auto].
  destruct (addSubConn s2) as [[s3 ok] o3] eqn:E3. intros E; inv E.
  eapply addSubConn_Inv in E3; eauto. destruct E3 as [_ HF]. pose proof (gf_next _ _ HF). lia.
Qed.

Lemma bindSubConn_next s key sc : b_next (bindSubConn s key sc) = b_next s.
Proof.
  unfold bindSubConn. destruct (aget (b_screfs s) sc); [|reflexivity].
  destruct (aget (b_aff s) key); reflexivity.
Qed.

Lemma fold_bindSubConn_next keys sc : forall s, b_next (fold_left (fun st k => bindSubConn st k sc) keys s) = b_next s.
Proof. induction keys as [|k r IH]; intros s; cbn; [reflexivity|]. rewrite IH. apply bindSubConn_next. Qed.

Lemma unbindSubConn_next s key : b_next (unbindSubConn s key) = b_next s.
Proof.
  unfold unbindSubConn. destruct (aget (b_aff s) key); [|reflexivity].
  destruct (aget (b_screfs s) n); reflexivity.
Qed.

Lemma done_bind_next s2 p oc rk : b_next (done_bind s2 p oc rk) = b_next s2.
Proof.
  unfold done_bind. destruct oc; auto. destruct (pk_cmd p); auto.
  - destruct (_ && _); auto. destruct (get_slot s2 (pk_slot p)); auto. apply fold_bindSubConn_next.
  - apply unbindSubConn_next.
Qed.

Lemma refresh_next s i s' o : refresh s i = (s', o) -> (b_next s <= b_next s')%N.
Proof.
  intros E. destruct (refresh_cases s i) as [[E' _]|[r [Es [Er [[_ E']|[_ E']]]]]];
    rewrite E' in E; inv E; cbn; lia.
Qed.

Lemma detectUnresponsive_next s p oc s' o : detectUnresponsive s p oc = (s', o) -> (b_next s <= b_next s')%N.
Proof.
  unfold detectUnresponsive.
  destruct (negb (b_undet s)); [intros E; inv E; lia|].
  destruct (negb _); [intros E; inv E; cbn; lia|].
  destruct (get_slot s (pk_slot p)) as [r|]; [|intros E; inv E; lia].
  destruct (pk_started p <? sl_last r); [intros E; inv E; lia|].
  destruct (_ && _); [|intros E; inv E; cbn; lia].
  intros E. apply refresh_next in E. exact E.
Qed.

Lemma Done_next s j oc rk s' o r : Done s j oc rk = (s', o, r) -> (b_next s <= b_next s')%N.
Proof.
  rewrite Done_eq. destruct (nth_error (b_picks s) j) as [p|]; [|intros E; inv E; lia].
  destruct (pk_status p); try (intros E; inv E; lia).
  destruct (detectUnresponsive (done_s1 s j p) p oc) as [s2 o2] eqn:Ed. intros E; inv E.
  rewrite done_bind_next. apply detectUnresponsive_next in Ed. exact Ed.
Qed.

Lemma newSubConn_next s s' o : b_cfg s <> None -> Inv s -> newSubConn s = (s', o) -> (b_next s <= b_next s')%N.
Proof. intros Hc HI E. eapply newSubConn_Inv in E; eauto. destruct E as [_ HF]. apply (gf_next _ _ HF). Qed.

Lemma Pick_next s pi pk method hasctx reqkeys deadline cancelled s' o r :
  Inv s -> nth_error (b_published s) pi = Some pk ->
  Pick s pi pk method hasctx reqkeys deadline cancelled = (s', o, r) -> (b_next s <= b_next s')%N.
Proof.
  intros HI Hpk. rewrite Pick_eq.
  assert (Hc : b_cfg s <> None).
  { eapply InvG_cfg_pubs; [apply HI|eapply nth_error_nonnil, Hpk]. }
  destruct pk as [[|]|[|a l]]; try (intros E; inv E; lia).
  assert (Hrefs : forall i, In i (a :: l) -> (i < length (b_slots s))%nat).
  { intros i Hi. destruct HI as (_&_&HP&_). eapply (pub_valid HP); eauto. eapply nth_error_In, Hpk. }
  destruct (pick_keyres s method hasctx reqkeys) as [key|]; [|intros E; inv E; lia].
  destruct (cmd_eqb _ BIND && cfg_rr s).
  - unfold pick_rr. destruct (b_slots s); [intros E; inv E; lia|]. unfold pick_rr_body. cbv zeta.
    destruct (get_slot _ _); [|intros E; inv E; cbn; lia].
    destruct (_ || _); intros E; inv E; cbn; lia.
  - unfold pick_lb. destruct (pick_dec s key (a :: l)) as [s1 dec] eqn:Ed.
    destruct (pick_dec_Inv _ _ _ _ _ HI Hrefs Ed) as [HI1 [[fb' ->] Hdec]].
    destruct dec as [i| |].
    + destruct (get_slot _ i); intros E; inv E; cbn; lia.
    + destruct (b_gate _); [intros E; inv E; cbn; lia|].
      destruct (newSubConn (set_fb s fb')) as [s2 o2] eqn:En. intros E; inv E.
      apply newSubConn_next in En; auto.
    + intros E; inv E; cbn; lia.
Qed.

Lemma step_next raw s o order s' outs r :
  Inv s -> step raw s o order = (s', outs, r) -> (b_next s <= b_next s')%N.
Proof.
  intros HI. destruct o as [addrs a| |sc st|pi m hc rk dl cc|j oc rk|dt|j|f|g|k]; cbn [step].
  - apply UpdateClientConnState_next, HI.
  - intros E; inv E. lia.
  - destruct (UpdateSubConnState s sc st order) as [s1 o1] eqn:E1. intros E; inv E.
    eapply UpdateSubConnState_Inv in E1; eauto. destruct E1 as [_ HF]. rewrite (uf_next _ _ HF). lia.
  - destruct (nth_error (b_published s) pi) as [pk|] eqn:Ep; [|intros E; inv E; lia].
    destruct (_ && _); [intros E; inv E; lia|]. eapply Pick_next; eauto.
  - apply Done_next.
  - destruct (0 <=? dt); intros E; inv E; cbn; lia.
  - destruct (nth_error (b_picks s) j); intros E; inv E; cbn; lia.
  - intros E; inv E. cbn; lia.
  - intros E; inv E. cbn; lia.
  - destruct (nth_error (b_parked s) k) as [x|] eqn:Ek; [|intros E; inv E; lia].
    destruct (newSubConn _) as [s2 o2] eqn:En. intros E; inv E.
    assert (Hc : b_cfg s <> None) by (eapply InvG_cfg_parked; [apply HI|eapply nth_error_nonnil, Ek]).
    apply newSubConn_next in En; auto.
    apply Inv_set_parked; auto. intros pi Hpi. apply In_remove_nth in Hpi.
    destruct HI as (_&_&_&_&_&HS). apply (parked_valid HS), Hpi.
Qed.

Lemma full_step_next raw s o order s' outs r ub :
  Inv s -> full_step raw s o order = (s', outs, r, ub) -> (b_next s <= b_next s')%N.
Proof.
  intros HI. rewrite full_step_eq.
  destruct (step raw s o order) as [[s1 outs1] r1] eqn:Es.
  destruct (resolve_blocked s1) as [s2 ub2] eqn:Er. intros E; inv E.
  destruct (step_Inv _ _ _ _ _ _ _ HI Es) as [HI1 _].
  pose proof (step_next _ _ _ _ _ _ _ HI Es) as H1.
  destruct (resolve_blocked_spec _ _ _ HI1 Er) as [_ [Hm _]].
  apply (f_equal b_next) in Hm. cbn in Hm. lia.
Qed.
