(* Engine A proofs: C04 (channel state).  The published pair is the census of
   the pool, a published snapshot is exactly the READY channels, and every
   change of the READY set or of TRANSIENT_FAILURE-ness is published. *)
From GV Require Import Base.AListFacts Pool.Model Pool.Observe Pool.Monitors
                       Pool.Lemmas Pool.Inv Pool.Inv2 Pool.Frames Pool.Sim Pool.Reduce.
From Coq Require Import Lia ZifyBool.
Open Scope Z_scope.

(* ---------------------------------------------------------------- observation-level facts *)
Lemma In_o_ready_slots s i : InvK s -> (In i (o_ready_slots (observe s)) <-> In i (ready_slots s)).
Proof.
  intros HK. unfold o_ready_slots, observe; cbn [o_st o_refs].
  rewrite (is_ready_iff s HK). unfold is_ready. rewrite in_flat_map. split.
  - intros [[c x] [H1 H2]]. cbn in H2. destruct x; try (destruct H2; fail).
    rewrite aget_asort in H2 by apply (nd_screfs HK).
    destruct (aget (b_screfs s) c) as [j|] eqn:E; [|destruct H2]. destruct H2 as [->|[]].
    exists c. split; [|auto]. apply In_aget; [apply (nd_scstates HK)|]. apply asort_In, H1.
  - intros [c [H1 H2]]. exists (c, Ready). split.
    + apply asort_In, aget_In, H1.
    + cbn. rewrite aget_asort by apply (nd_screfs HK). rewrite H2. cbn; auto.
Qed.

Lemma subset_nat_spec a b : subset_nat a b = true <-> incl a b.
Proof.
  unfold subset_nat. rewrite forallb_forall. split; intros H x Hx; [apply memnat_In|apply memnat_In]; auto.
Qed.

Lemma same_set_nat_spec a b : same_set_nat a b = true <-> (forall i, In i a <-> In i b).
Proof.
  unfold same_set_nat. rewrite andb_true_iff, !subset_nat_spec. unfold incl. split.
  - intros [H1 H2] i. split; auto.
  - intros H. split; intros i; apply H.
Qed.

Definition census3 (st : list (N * cstate)) : cstate :=
  if existsb (fun kv => cstate_eqb (snd kv) Ready) st then Ready
  else if existsb (fun kv => cstate_eqb (snd kv) Connecting) st then Connecting
  else TransientFailure.

Lemma census_state_observe s : census_state (observe s) = census3 (b_scstates s).
Proof. unfold census_state, census3, observe; cbn [o_st]. rewrite !existsb_asort. reflexivity. Qed.

Lemma count_st_pos x st : (0 <? count_st x st) = existsb (fun kv => cstate_eqb (snd kv) x) st.
Proof.
  unfold count_st. pose proof (acount_pos_iff (fun y => cstate_eqb y x) st) as H.
  destruct (existsb _ st); destruct (Z.ltb_spec 0 (Z.of_nat (acount (fun y => cstate_eqb y x) st))); auto.
  - exfalso. assert (0 < acount (fun y => cstate_eqb y x) st)%nat by (apply H; reflexivity). lia.
  - assert (0 < acount (fun y => cstate_eqb y x) st)%nat by lia. apply H in H1. discriminate.
Qed.

Lemma count_st_small x st : Z.of_nat (length st) < W64 -> count_st x st mod W64 = count_st x st.
Proof.
  intros H. apply Z.mod_small. unfold count_st.
  pose proof (acount_le_length (fun y => cstate_eqb y x) st). lia.
Qed.

(* under the size guard the evaluator agrees with the census *)
Lemma eval3_census s :
  InvC s -> Z.of_nat (length (b_scstates s)) < W64 ->
  eval3 (b_nready s) (b_nconn s) (b_ntf s) = census3 (b_scstates s).
Proof.
  intros [C1 C2 C3 _] Hg. unfold eval3, census3.
  rewrite C1, C2, !count_st_small, !count_st_pos by auto. reflexivity.
Qed.

Lemma state_census s :
  InvC s -> Z.of_nat (length (b_scstates s)) < W64 -> b_state s <> Idle ->
  b_state s = census_state (observe s).
Proof.
  intros HC Hg Hs. rewrite census_state_observe, <- eval3_census by auto. apply (state_eval HC Hs).
Qed.

(* the monitor's notion of "aggregate is TRANSIENT_FAILURE" *)
Lemma tf_view s :
  InvC s -> Z.of_nat (length (b_scstates s)) < W64 ->
  (if cstate_eqb (o_state (observe s)) Idle then false else is_tf (census_state (observe s))) = is_tf (b_state s).
Proof.
  intros HC Hg. cbn [observe o_state]. destruct (cstate_eqb_spec (b_state s) Idle) as [E|E].
  - rewrite E. reflexivity.
  - rewrite <- state_census; auto.
Qed.

(* ---------------------------------------------------------------- no publication, no change *)
Definition quiet (s s' : bal) : Prop :=
  is_tf (b_state s') = is_tf (b_state s) /\ (forall i, In i (ready_slots s') <-> In i (ready_slots s)).

Lemma usc_tail_quiet s1 o1 sc st oldS order s' o' :
  Inv s1 -> aget (b_scstates s1) sc = Some oldS -> no_pub o1 ->
  usc_tail s1 o1 sc st oldS order = (s', o') -> outs_pubs o' = [] -> quiet s1 s'.
Proof.
  intros HI Hold Ho1. unfold usc_tail. rewrite usc_fin_cases. cbv zeta.
  destruct (usc_s5_frame s1 sc st oldS) as (E1&E2&E3&E4&E5&E6&E7&E8&_).
  pose proof (tail_InvK3 s1 sc st oldS HI Hold) as K3.
  set (s5 := usc_s5 (usc_s3 s1 sc st) sc st oldS) in *.
  rewrite E1, E2, E3, E4, E8.
  assert (Ho : no_pub (o1 ++ usc_o3 sc st)) by (apply no_pub_app; [auto|apply usc_o3_no_pub]).
  destruct (pub_cond _ _ _ _) eqn:Epc; intros E; inv E.
  - intros H. rewrite outs_pubs_app, Ho in H. discriminate.
  - intros _. unfold pub_cond in Epc. apply orb_false_iff in Epc. destruct Epc as [Hp1 Hp2].
    apply negb_false_iff, eqb_prop in Hp1, Hp2. split.
    + sb. unfold is_tf. exact Hp2.
    + intros i. rewrite !ready_slots_eq. sb. rewrite E5, E6.
      rewrite !In_ready_of_aget; [symmetry; eapply tail_ready_same; eauto|apply (nd_scstates (proj1 HI))|apply (nd_scstates K3)].
Qed.

Lemma quiet_refl s : quiet s s.
Proof. split; [reflexivity|tauto]. Qed.

Lemma usc_after_quiet s1 o1 sc st order s' o' :
  Inv s1 -> no_pub o1 -> usc_after s1 o1 sc st order = (s', o') -> outs_pubs o' = [] -> quiet s1 s'.
Proof.
  intros HI Ho1. unfold usc_after. destruct (aget (b_scstates s1) sc) as [oldS|] eqn:E.
  - eapply usc_tail_quiet; eauto.
  - intros H; inv H. intros _. apply quiet_refl.
Qed.

Lemma swap_quiet s sc i ref :
  Inv s -> aget (b_refr s) sc = Some i -> get_slot s i = Some ref -> quiet s (swap_state s sc i ref).
Proof.
  intros HI Hr Hs. split; [reflexivity|]. intros j.
  pose proof (swap_InvK s sc i ref HI Hr Hs) as HK'.
  rewrite !ready_slots_eq, !In_ready_of_aget; [symmetry; apply swap_ready_equiv; auto|apply (nd_scstates (proj1 HI))|apply (nd_scstates HK')].
Qed.

Lemma UpdateSubConnState_quiet s sc st order s' o :
  Inv s -> UpdateSubConnState s sc st order = (s', o) -> outs_pubs o = [] -> quiet s s'.
Proof.
  intros HI. rewrite UpdateSubConnState_cases.
  destruct (aget (b_refr s) sc) as [i|] eqn:Er; [|apply usc_after_quiet; [auto|reflexivity]].
  destruct (negb (cstate_eqb st Ready)); [intros E; inv E; intros _; apply quiet_refl|].
  destruct (get_slot s i) as [ref|] eqn:Es; [|apply usc_after_quiet; [auto|reflexivity]].
  intros E Ho. apply usc_after_quiet in E; [|apply swap_Inv; auto|reflexivity|exact Ho].
  destruct (swap_quiet s sc i ref HI Er Es) as [Q1 Q2]. destruct E as [Q3 Q4]. split.
  - rewrite Q3. exact Q1.
  - intros j. rewrite Q4. apply Q2.
Qed.

Lemma full_step_quiet raw s o order s' outs r ub :
  Inv s -> full_step raw s o order = (s', outs, r, ub) -> outs_pubs outs = [] -> quiet s s'.
Proof.
  intros HI. rewrite full_step_eq.
  destruct (step raw s o order) as [[s1 outs1] r1] eqn:Es.
  destruct (resolve_blocked s1) as [s2 ub2] eqn:Er. intros E; inv E. intros Ho.
  destruct (step_Inv _ _ _ _ _ _ _ HI Es) as [HI1 _].
  destruct (resolve_blocked_spec _ _ _ HI1 Er) as [_ [Hm _]].
  pose proof (mask_sp_poolview _ _ Hm) as Hpv. apply mask_sp_views in Hm. destruct Hm as [Hm _].
  apply pubview_inv in Hm. destruct Hm as (_&_&_&M1&_).
  assert (Q : quiet s s1).
  { destruct (is_connstate o) eqn:Hc.
    - destruct o; try discriminate. cbn [step] in Es.
      destruct (UpdateSubConnState s sc st order) as [s1' o1] eqn:E1. inv Es.
      eapply UpdateSubConnState_quiet; eauto.
    - destruct (step_pubview _ _ _ _ _ _ _ Hc Es) as [H1 _]. apply pubview_inv in H1.
      destruct H1 as (_&_&_&H1&_). split; [rewrite H1; reflexivity|].
      apply (step_pool_equiv _ _ _ _ _ _ _ HI Hc Es). }
  destruct Q as [Q1 Q2]. split; [rewrite M1; exact Q1|].
  intros i. rewrite <- Q2. apply poolview_equiv in Hpv. apply Hpv.
Qed.

(* ---------------------------------------------------------------- the step *)
Definition size_ok (s : bal) : Prop := Z.of_nat (length (b_scstates s)) < W64.

Definition size_guard (raw : option config) : bal -> op -> list nat -> Prop := state_guard raw size_ok.

Lemma C04_step raw s ms o order s' outs rt ub :
  Inv s -> Sim_pubs s ms -> size_guard raw s o order ->
  full_step raw s o order = (s', outs, rt, ub) ->
  let ev := mkEvent o outs rt ub (Some (observe s')) in
  Inv s' /\ Sim_pubs s' (track raw ms (observe s) ev (observe s')) /\
  event_ok P04 raw ms (observe s) ev = true.
Proof.
  intros HI HS [Hg Hg'] E. rewrite E in Hg'. cbv zeta.
  destruct (full_step_Inv _ _ _ _ _ _ _ _ HI E) as [HI' _].
  pose proof (Sim_pubs_step _ _ _ _ _ _ _ _ _ HI HS E) as HS'.
  split; [exact HI'|split; [exact HS'|]].
  cbn [event_ok ev_obs]. unfold c04_event. cbn [ev_out].
  set (ms' := track raw ms (observe s) (mkEvent o outs rt ub (Some (observe s'))) (observe s')) in *.
  destruct HI' as (HK' & HF' & HP' & HC' & HG' & HS2'). destruct HI as (HK & HF & HP & HC & HG & HS2).
  rewrite !andb_true_iff. repeat split.
  - (* the last published pair *)
    destruct HS' as [_ HL]. destruct (ms_lastpub ms') as [[st pk]|]; [|reflexivity].
    destruct HL as (L1&L2&L3). destruct (pub_tf HP' L1) as (T1&T2&T3).
    rewrite !andb_true_iff. repeat split.
    + rewrite L2, <- state_census by auto. apply cstate_eqb_refl.
    + rewrite L2, L3. unfold is_tf. destruct (cstate_eqb_spec (b_state s') TransientFailure) as [Et|Et].
      * apply T1 in Et. rewrite Et. reflexivity.
      * destruct (b_picker s') as [[|]|]; try reflexivity. exfalso. apply Et, T1. reflexivity.
    + rewrite L3. destruct (b_picker s') as [[|]|]; try reflexivity. congruence.
  - (* a published snapshot is the READY set *)
    destruct (full_step_pub _ _ _ _ _ _ _ _ (conj HK (conj HF (conj HP (conj HC (conj HG HS2))))) E)
      as [(P1&_)|(P1&_)]; rewrite P1; cbn [forallb snd]; [reflexivity|].
    destruct (b_picker s') as [t|refs] eqn:Ep; [reflexivity|].
    destruct (snap_ready HP' _ Ep) as [N1 N2]. rewrite andb_true_r, andb_true_iff. split.
    + apply same_set_nat_spec. intros i. rewrite N2, In_o_ready_slots, ready_slots_eq by auto. tauto.
    + apply nodupnat_NoDup, N1.
  - (* every change is published *)
    rewrite !tf_view by auto.
    destruct (outs_pubs outs) eqn:Eo; [|destruct (_ || _); reflexivity].
    destruct (full_step_quiet _ _ _ _ _ _ _ _ (conj HK (conj HF (conj HP (conj HC (conj HG HS2))))) E Eo) as [Q1 Q2].
    rewrite Q1, eqb_reflx. cbn [negb orb].
    assert (Hs : same_set_nat (o_ready_slots (observe s)) (o_ready_slots (observe s')) = true).
    { apply same_set_nat_spec. intros i. rewrite !In_o_ready_slots by auto. symmetry. apply Q2. }
    rewrite Hs. reflexivity.
Qed.

Theorem C04_guarded raw ops :
  guarded raw (size_guard raw) init_bal ops ->
  monitor P04 raw (observe init_bal) (run raw init_bal ops) = true.
Proof.
  apply (monitor_run P04 raw Inv Sim_pubs (size_guard raw)).
  - intros. eapply C04_step; eauto.
  - exact Inv_init.
  - exact Sim_pubs_init.
Qed.

(* fewer than 2^64 connections in the pool in every state of the run *)
Theorem C04_holds_proof raw ops :
  Forall size_ok (run_states raw init_bal ops) ->
  monitor P04 raw (observe init_bal) (run raw init_bal ops) = true.
Proof. intros H. apply C04_guarded, guarded_states, H. Qed.
