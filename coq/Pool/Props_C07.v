From GV Require Import Pool.Model Pool.Observe Pool.Monitors Pool.Inv Pool.Reduce Pool.LegalRun
                       Pool.C07Refresh Pool.C07Frames Pool.C07Check Pool.InvC07.

(* C07: an unresponsive connection is refreshed exactly by rule (enough calls hit a
   client-side deadline since the last response, the last response is older than
   the back-off window, no refresh in flight), gracefully (the old connection keeps
   serving until the replacement is READY; a failed creation disables nothing) and
   once (one replacement per channel, one removal at the swap).
   For every harness-legal history (LegalRun.legal: no operation answered RBadOp) and
   every map-iteration oracle.  Guard (the same as C02's): fewer than 2^31 calls are
   placed -- streamsCnt is an int32 and the swap clause compares the channel's stream
   count across the swap event.
   No guard on the back-off window: the trigger clause of the monitor compares with the
   intended window  unresponsive_detection_ms * 2^refreshCnt  for every threshold and
   every refresh count, whenever the clock is an int64 count of nanoseconds
   (0 <= lastResp, now <= 2^63 - 1: that guard is part of the monitor). *)
Theorem C07_holds : forall raw ops,
  legal raw ops ->
  Forall (fun s => Z.of_nat (length (b_picks s)) < 2147483648)%Z (run_states raw init_bal ops) ->
  monitor P07 raw (observe init_bal) (run raw init_bal ops) = true.
Proof. exact C07_holds_proof. Qed.
Print Assumptions C07_holds.

(* the guard follows from the length of the history (an operation places at most one call) *)
Theorem C07_holds_short : forall raw ops,
  legal raw ops -> (Z.of_nat (length ops) < 2147483648)%Z ->
  monitor P07 raw (observe init_bal) (run raw init_bal ops) = true.
Proof. exact InvC07.C07_holds_short. Qed.
Print Assumptions C07_holds_short.

(* "when and only when": a Done of a call that hit its client-side deadline and started
   after the last response makes a creation attempt iff enough calls timed out, the last
   response is older than  unresponsive_detection_ms * 2^refreshCnt  (window_ns, unbounded)
   and no refresh is in flight.  Hypotheses about numbers: the clock is an int64 count of
   nanoseconds (0 <= lastResp, now <= MaxInt64 = 2^63 - 1) and refreshCnt >= 0. *)
Theorem C07_refresh_iff : forall s p oc r c,
  b_cfg s = Some c -> InvU s -> b_undet s = true ->
  get_slot s (pk_slot p) = Some r ->
  client_dl (b_now s) oc (pk_deadline p) = true ->
  (sl_last r <= pk_started p)%Z ->
  (0 <= sl_last r)%Z -> (0 <= sl_rcnt r)%Z ->
  (b_now s <= MaxInt64)%Z ->
  (has_newsc (snd (detectUnresponsive s p oc)) = true <->
   (c_ucalls c <= (sl_de r + 1) mod W32)%Z /\ (sl_last r < b_now s - window_ns c (sl_rcnt r))%Z /\
   sl_refreshing r = false).
Proof. exact refresh_iff. Qed.
Print Assumptions C07_refresh_iff.

(* 0 <= lastResp <= now, 0 <= refreshCnt and 0 <= now hold in every state of every run *)
Theorem C07_clock_ok : forall raw ops, Forall clock_ok (run_states raw init_bal ops).
Proof. exact reachable_clock_ok. Qed.
Print Assumptions C07_clock_ok.

(* so on histories one hypothesis is left: the clock of the state fits an int64 *)
Theorem C07_refresh_iff_run : forall raw ops j oc rk order s' outs rt ub p r c,
  let s := run_state raw init_bal ops in
  full_step raw s (OpDone j oc rk) order = (s', outs, rt, ub) -> rt <> RBadOp ->
  nth_error (b_picks s) j = Some p -> get_slot s (pk_slot p) = Some r ->
  b_cfg s = Some c -> b_undet s = true ->
  client_dl (b_now s) oc (pk_deadline p) = true -> (sl_last r <= pk_started p)%Z ->
  (b_now s <= MaxInt64)%Z ->
  (has_newsc outs = true <->
   (c_ucalls c <= (sl_de r + 1) mod W32)%Z /\ (sl_last r < b_now s - window_ns c (sl_rcnt r))%Z /\
   sl_refreshing r = false).
Proof. exact refresh_iff_run. Qed.
Print Assumptions C07_refresh_iff_run.

(* the arithmetic behind it: the model's saturating int64 window decides "the intended
   window has elapsed" exactly; the monitor's test is that comparison *)
Theorem C07_window_exact : forall s r c,
  b_cfg s = Some c -> (0 < c_ums c)%Z -> (0 <= sl_rcnt r)%Z -> (0 <= sl_last r)%Z -> (b_now s <= MaxInt64)%Z ->
  (sl_last r <? b_now s - unresponsiveWindow s r)%Z = window_elapsed c (sl_rcnt r) (sl_last r) (b_now s).
Proof. exact window_model_elapsed_cfg. Qed.
Print Assumptions C07_window_exact.

Theorem C07_window_elapsed_spec : forall e rcnt last now,
  (0 <= last)%Z -> (now <= Int64Max)%Z -> (0 < c_ums e)%Z -> (0 <= rcnt)%Z ->
  window_elapsed e rcnt last now = (last <? now - window_ns e rcnt)%Z.
Proof. exact window_elapsed_spec. Qed.
Print Assumptions C07_window_elapsed_spec.

(* state-level theorems (InvC07.v) *)
Print Assumptions refresh_iff.
Print Assumptions refresh_iff_no_wrap.
Print Assumptions refresh_iff_clock_ok.
Print Assumptions one_replacement.
Print Assumptions one_replacement_done.
Print Assumptions old_serves_until_swap.
Print Assumptions swap_takes_over.
Print Assumptions disabled_never_refreshes.
Print Assumptions only_done_refreshes.
Print Assumptions factory_failure_does_not_disable.

(* non-vacuity: a call hits its client-side deadline after the window -> one
   replacement (connection 1) is created; the old connection 0 keeps serving; a
   non-READY report of the replacement changes nothing; when it is READY the old
   connection is removed and the channel (with its stream count) moves to it *)
Example c07_history :
  let raw := Some (mkConfig 1 4 100 false 10 1 false []) in
  let ops := [(OpResolver 1 CfgVal, []); (OpConnState 0 Ready, []);
              (OpPick 0 0 false [] (Some 5%Z) false, []); (OpAdvance 20000001, []);
              (OpDone 0 DDeadlineClient [], []);
              (OpPick 0 0 false [] None false, []);
              (OpConnState 1 Connecting, []);
              (OpConnState 1 Ready, []);
              (OpPick 0 0 false [] None false, []); (OpDone 1 DOk [], []); (OpDone 2 DOk [], [])] in
  map ev_ret (run raw init_bal ops) =
    [RNone; RNone; RPicked 0; RNone; RNone; RPicked 0; RNone; RNone; RPicked 1; RNone; RNone] /\
  map ev_out (run raw init_bal ops) =
    [[ONewSC 0 1; OConnect 0; OUpdAddr 0 1; OConnect 0]; [OUpdateState Ready (PSnap [0%nat])]; []; [];
     [ONewSC 1 1; OConnect 1]; []; []; [ORemove 0]; []; []; []] /\
  map (fun s => (map sl_conn (b_slots s), map sl_streams (b_slots s), map sl_refreshing (b_slots s), b_refr s))
      (skipn 4 (run_states raw init_bal ops)) =
    [([0%N], [1%Z], [false], []); ([0%N], [0%Z], [true], [(1%N, 0%nat)]); ([0%N], [1%Z], [true], [(1%N, 0%nat)]);
     ([0%N], [1%Z], [true], [(1%N, 0%nat)]); ([1%N], [1%Z], [false], []); ([1%N], [2%Z], [false], []);
     ([1%N], [1%Z], [false], []); ([1%N], [0%Z], [false], [])] /\
  monitor P07 raw (observe init_bal) (run raw init_bal ops) = true.
Proof. vm_compute. repeat split; reflexivity. Qed.

(* ... and it satisfies the hypotheses of C07_holds *)
Example c07_history_guards :
  let raw := Some (mkConfig 1 4 100 false 10 1 false []) in
  let ops := [(OpResolver 1 CfgVal, []); (OpConnState 0 Ready, []);
              (OpPick 0 0 false [] (Some 5%Z) false, []); (OpAdvance 20000001, []);
              (OpDone 0 DDeadlineClient [], []);
              (OpPick 0 0 false [] None false, []);
              (OpConnState 1 Connecting, []);
              (OpConnState 1 Ready, []);
              (OpPick 0 0 false [] None false, []); (OpDone 1 DOk [], []); (OpDone 2 DOk [], [])] in
  legal raw ops /\ map (fun s => length (b_picks s)) (run_states raw init_bal ops) = [0; 0; 0; 1; 1; 1; 2; 2; 2; 3; 3; 3]%nat.
Proof. unfold legal. vm_compute. split; [repeat constructor; discriminate|reflexivity]. Qed.

(* a failed creation: no replacement registered, the channel is not marked, and the
   next timed-out call tries again and succeeds *)
Example c07_factory_failure_history :
  let raw := Some (mkConfig 1 4 100 false 10 1 false []) in
  let ops := [(OpResolver 1 CfgVal, []); (OpConnState 0 Ready, []);
              (OpPick 0 0 false [] (Some 5%Z) false, []); (OpPick 0 0 false [] (Some 5%Z) false, []);
              (OpAdvance 20000001, []); (OpFactory true, []);
              (OpDone 0 DDeadlineClient [], []); (OpFactory false, []);
              (OpDone 1 DDeadlineClient [], [])] in
  map ev_out (run raw init_bal ops) =
    [[ONewSC 0 1; OConnect 0; OUpdAddr 0 1; OConnect 0]; [OUpdateState Ready (PSnap [0%nat])]; []; []; []; [];
     [ONewSCFail 1]; []; [ONewSC 1 1; OConnect 1]] /\
  map (fun s => (map sl_refreshing (b_slots s), map sl_de (b_slots s), b_refr s)) (skipn 6 (run_states raw init_bal ops)) =
    [([false], [0%Z], []); ([false], [1%Z], []); ([false], [1%Z], []); ([true], [2%Z], [(1%N, 0%nat)])] /\
  monitor P07 raw (observe init_bal) (run raw init_bal ops) = true.
Proof. vm_compute. repeat split; reflexivity. Qed.

(* hand-made bad traces: model runs with one event altered *)

(* a second replacement while a refresh is in flight *)
Example c07_bad_second_replacement :
  let raw := Some (mkConfig 1 4 100 false 10 1 false []) in
  let ops := [(OpResolver 1 CfgVal, []); (OpConnState 0 Ready, []);
              (OpPick 0 0 false [] (Some 5%Z) false, []); (OpAdvance 20000001, []);
              (OpDone 0 DDeadlineClient [], []);
              (OpPick 0 0 false [] (Some 5%Z) false, []);
              (OpDone 1 DDeadlineClient [], [])] in
  monitor P07 raw (observe init_bal) (run raw init_bal ops) = true /\
  monitor P07 raw (observe init_bal)
    (upd_nth 6 (ev_with_out [ONewSC 2 1; OConnect 2]) (run raw init_bal ops)) = false.
Proof. vm_compute. split; reflexivity. Qed.

(* a refresh although the last response is not older than the window *)
Example c07_bad_refresh_too_early :
  let raw := Some (mkConfig 1 4 100 false 10 1 false []) in
  let ops := [(OpResolver 1 CfgVal, []); (OpConnState 0 Ready, []);
              (OpPick 0 0 false [] (Some 5%Z) false, []); (OpAdvance 10, []);
              (OpDone 0 DDeadlineClient [], [])] in
  map ev_out (run raw init_bal ops) =
    [[ONewSC 0 1; OConnect 0; OUpdAddr 0 1; OConnect 0]; [OUpdateState Ready (PSnap [0%nat])]; []; []; []] /\
  monitor P07 raw (observe init_bal) (run raw init_bal ops) = true /\
  monitor P07 raw (observe init_bal)
    (upd_nth 4 (ev_with_out [ONewSC 1 1; OConnect 1]) (run raw init_bal ops)) = false.
Proof. vm_compute. repeat split; reflexivity. Qed.

(* the swap loses the stream count of the channel *)
Example c07_bad_swap_loses_streams :
  let raw := Some (mkConfig 1 4 100 false 10 1 false []) in
  let ops := [(OpResolver 1 CfgVal, []); (OpConnState 0 Ready, []);
              (OpPick 0 0 false [] (Some 5%Z) false, []); (OpAdvance 20000001, []);
              (OpDone 0 DDeadlineClient [], []);
              (OpPick 0 0 false [] None false, []);
              (OpConnState 1 Connecting, []);
              (OpConnState 1 Ready, [])] in
  monitor P07 raw (observe init_bal) (run raw init_bal ops) = true /\
  monitor P07 raw (observe init_bal)
    (upd_nth 7 (ev_with_slots (map (fun sl => sl_set_streams sl 0))) (run raw init_bal ops)) = false.
Proof. vm_compute. split; reflexivity. Qed.

(* two legal histories / steps the first version of the monitor rejected (it compared
   the stream count across the swap without the calls released in the swap event, and
   used deCalls + 1 without the uint32 wrap); accepted now *)

(* a round-robin BIND call waits on the channel being refreshed and returns in the swap event *)
Example c07_swap_releases_waiting_call :
  let raw := Some (mkConfig 1 4 100 false 10 1 true [(1%N, mkMcfg BIND true)]) in
  let ops := [(OpResolver 1 CfgVal, []); (OpConnState 0 Ready, []);
              (OpPick 0 0 false [] (Some 5%Z) false, []); (OpAdvance 20000001, []);
              (OpDone 0 DDeadlineClient [], []);
              (OpConnState 0 Connecting, []);
              (OpPick 0 1 true [] None false, []);
              (OpConnState 1 Ready, [])] in
  map ev_ret (run raw init_bal ops) = [RNone; RNone; RPicked 0; RNone; RNone; RNone; RBlocked; RNone] /\
  map ev_ub (run raw init_bal ops) = [[]; []; []; []; []; []; []; [(1%nat, 1%N)]] /\
  map (fun s => map sl_streams (b_slots s)) (skipn 7 (run_states raw init_bal ops)) = [[0%Z]; [1%Z]] /\
  monitor P07 raw (observe init_bal) (run raw init_bal ops) = true.
Proof. exact swap_unblock_history. Qed.

(* deCalls at 2^32 - 2 and at 2^32 - 1 (state reached by a legal prefix, only that counter altered) *)
Example c07_decalls_wrap :
  let step de := run wrap_raw (wrap_state de) [(OpDone 0 DDeadlineClient [], [])] in
  wrap_state 0 = run_state wrap_raw init_bal wrap_prefix /\
  map sl_de (b_slots (wrap_state 4294967295)) = [4294967295%Z] /\
  map ev_ret (step 4294967294%Z) = [RNone] /\ map ev_out (step 4294967294%Z) = [[ONewSC 1 1; OConnect 1]] /\
  mon_from P07 wrap_raw wrap_ms (observe (wrap_state 4294967294)) (step 4294967294%Z) = true /\
  map ev_ret (step 4294967295%Z) = [RNone] /\ map ev_out (step 4294967295%Z) = [[]] /\
  map (fun ev => match ev_obs ev with Some o => map sl_de (o_slots o) | None => [] end) (step 4294967295%Z) = [[0%Z]] /\
  mon_from P07 wrap_raw wrap_ms (observe (wrap_state 4294967295)) (step 4294967295%Z) = true.
Proof. exact de_wrap_step. Qed.

(* finding R2, fixed: on the witnesses of the former counterexample (50 min threshold,
   11 refreshes, 2^11 * 3000000 ms does not fit a uint32) the window is the intended one *)
Example c07_window_no_wrap :
  let c := mkConfig 1 4 100 false 3000000 1 false [] in
  let s := set_cfg init_bal (Some c) in
  let r := mkSlot 0 0 0 0 0 false 11 in
  window_in_range c (sl_rcnt r) = false /\
  (2 ^ sl_rcnt r * c_ums c >= W32)%Z /\
  unresponsiveWindow s r = 6144000000000000%Z /\ window_ns c (sl_rcnt r) = 6144000000000000%Z /\
  unresponsiveWindow s r = window_ns c (sl_rcnt r).
Proof. exact window_no_wrap_fixed. Qed.

(* ... no refresh before the intended window has elapsed; one right after *)
Example c07_window_no_early_refresh :
  let c := mkConfig 1 4 100 false 3000000 1 false [] in
  let st now := mkBal (Some c) 1 0 0 0 Idle [] [] [(0%N, Ready)] [(0%N, 0%nat)] [mkSlot 0 0 1 0 0 false 11]
                 0 [] true (PSnap [0%nat]) [PSnap [0%nat]]
                 [mkPick 0 5 (Some 6%Z) false BOUND 0 false true PPlaced] now 1 false false [] in
  let p := mkPick 0 5 (Some 6%Z) false BOUND 0 false true PPlaced in
  (b_now (st 2000000000000000%Z) - window_ns c 11 < 0)%Z /\
  snd (detectUnresponsive (st 2000000000000000%Z) p DDeadlineClient) = [] /\
  snd (detectUnresponsive (st 6144000000000000%Z) p DDeadlineClient) = [] /\
  snd (detectUnresponsive (st 6144000000000001%Z) p DDeadlineClient) = [ONewSC 1 1; OConnect 1].
Proof. exact window_no_early_refresh_fixed. Qed.

(* saturation at MaxInt64 (2^32 - 1 ms threshold; 62, 63 and 2^32 - 1 refreshes) *)
Example c07_window_saturates :
  let c := mkConfig 1 4 100 false 4294967295 1 false [] in
  let s := set_cfg init_bal (Some c) in
  let r k := mkSlot 0 0 0 0 0 false k in
  unresponsiveWindow s (r 62%Z) = MaxInt64 /\
  unresponsiveWindow s (r 63%Z) = MaxInt64 /\
  unresponsiveWindow s (r 4294967295%Z) = MaxInt64 /\
  unresponsiveWindow s (r 11%Z) = window_ns c 11 /\ (window_ns c 11 < MaxInt64)%Z /\
  unresponsiveWindow s (r 12%Z) = MaxInt64 /\ (MaxInt64 < window_ns c 12)%Z /\
  window_elapsed c 4294967295 0 Int64Max = false /\ window_elapsed c 62 0 Int64Max = false.
Proof. exact window_saturates. Qed.
