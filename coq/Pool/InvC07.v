(* Engine A proofs: C07 (unresponsive-connection refresh: triggered exactly by
   rule, graceful, once).

   Part 1: the monitor P07 holds on every harness-legal model history.  One guard:
           fewer than 2^31 calls are ever placed (the same guard as C02; streamsCnt
           is an int32, and the swap clause compares stream counts across the swap
           event).  It follows from: fewer than 2^31 operations.
           The trigger clause of the monitor carries its own guard (the clock is an
           int64 count of nanoseconds: 0 <= lastResp, now <= 2^63 - 1); no window
           guard: the model's saturating int64 window decides "more than
           ms * 2^refreshCnt has elapsed" exactly (C07Refresh.window_model_elapsed).
   Part 2: state-level theorems about the refresh protocol. *)
From GV Require Import Base.AListFacts Pool.Model Pool.Observe Pool.Monitors
                       Pool.Lemmas Pool.Inv Pool.Inv2 Pool.Frames Pool.Sim Pool.SimW Pool.InvC20 Pool.SimHome
                       Pool.Reduce Pool.LegalRun Pool.InvC02 Pool.C07Refresh Pool.C07Frames Pool.C07Check.
From Coq Require Import Lia ZifyBool.
Open Scope Z_scope.

(* ================================================================ Part 1: the monitor *)
(* harness-legal histories: [LegalRun.legal], the model answers no operation with
   RBadOp (the guard of SimHome.monitor_legal) *)

Definition Inv07 (s : bal) : Prop := Inv s /\ Quiescent s /\ InvU s /\ clock_ok s.

Definition guard07 (raw : option config) (s : bal) (o : op) (order : list nat) : Prop :=
  legal_step raw (fun _ _ _ => True) s o order /\ state_guard raw picks_ok s o order.

Lemma full_step_other_no_rm raw s o order s' outs rt ub :
  Inv s -> rt <> RBadOp -> full_step raw s o order = (s', outs, rt, ub) ->
  match o with OpConnState sc Ready => aget (b_refr s) sc = None | _ => True end ->
  no_removes outs = true.
Proof.
  intros HI Hrt E Ho. rewrite full_step_eq in E.
  destruct (step raw s o order) as [[s1 outs1] r1] eqn:Es.
  destruct (resolve_blocked s1) as [s2 ub2]. inv E.
  apply no_removes_no_rm. eapply step_other_no_rm; eauto.
Qed.

Lemma c07_check raw s ms o order s' outs rt ub :
  Inv s -> InvU s -> clock_ok s -> Sim s ms -> rt <> RBadOp -> picks_ok s' ->
  full_step raw s o order = (s', outs, rt, ub) ->
  event_ok P07 raw ms (observe s) (mkEvent o outs rt ub (Some (observe s'))) = true.
Proof.
  intros HI HU HC HS Hrt Hok E.
  change (c07_event (raw_in_force raw ms o) ms (observe s) (mkEvent o outs rt ub (Some (observe s'))) (observe s') = true).
  pose proof (c07_undet_holds _ _ _ _ _ _ _ _ _ HI HU (proj1 (proj2 HS)) E) as H1.
  assert (Hother : match o with OpDone _ _ _ | OpConnState _ Ready => False | _ => True end ->
                   c07_event (raw_in_force raw ms o) ms (observe s) (mkEvent o outs rt ub (Some (observe s'))) (observe s') = true).
  { intros Ho. rewrite c07_event_other by exact Ho. rewrite H1. cbn [andb].
    apply (full_step_other_no_rm raw s o order s' outs rt ub HI Hrt E).
    destruct o as [| |sc st| | | | | | |]; try exact I. destruct st; try exact I. destruct Ho. }
  destruct o as [addrs a| |sc st|pi m hc rk dl cc|j oc rk|dt|j|f|g|k]; try (apply Hother; exact I).
  - destruct st; try (apply Hother; exact I).
    rewrite c07_event_swap, H1. cbn [andb].
    destruct (aget (o_refr (observe s)) sc) as [i|] eqn:Er.
    + eapply c07_swap_holds; eauto.
    + apply (full_step_other_no_rm raw s _ order s' outs rt ub HI Hrt E). cbn beta iota.
      unfold observe in Er; cbn [o_refr] in Er. rewrite aget_asort in Er by apply (nd_refr (proj1 HI)). exact Er.
  - rewrite c07_event_done, H1. cbn [andb]. eapply c07_done_holds; eauto.
Qed.

Lemma C07_step raw s ms o order s' outs rt ub :
  Inv07 s -> Sim s ms -> guard07 raw s o order ->
  full_step raw s o order = (s', outs, rt, ub) ->
  let ev := mkEvent o outs rt ub (Some (observe s')) in
  Inv07 s' /\ Sim s' (track raw ms (observe s) ev (observe s')) /\
  event_ok P07 raw ms (observe s) ev = true.
Proof.
  intros (HI & HQ & HU & HC) HS ([Hl _] & [_ Hok]) E. cbv zeta.
  rewrite E in Hl, Hok.
  destruct (Sim_step raw s ms o order s' outs rt ub HI HS Hl E) as [HI' [HQ' HS']].
  split; [split; [exact HI'|split; [exact HQ'|split; [exact (full_step_InvU _ _ _ _ _ _ _ _ HI HU E)|
                                                      exact (full_step_clock_ok _ _ _ _ _ _ _ _ HI HC E)]]]|].
  split; [exact HS'|]. eapply c07_check; eauto.
Qed.

Theorem C07_guarded raw ops :
  guarded raw (guard07 raw) init_bal ops ->
  monitor P07 raw (observe init_bal) (run raw init_bal ops) = true.
Proof.
  apply (monitor_run P07 raw Inv07 Sim (guard07 raw)).
  - intros. eapply C07_step; eauto.
  - split; [exact Inv_init|split; [exact Quiescent_init|split; [exact InvU_init|exact clock_ok_init]]].
  - exact Sim_init.
Qed.

Theorem C07_holds_proof raw ops :
  legal raw ops ->
  Forall (fun s => Z.of_nat (length (b_picks s)) < 2147483648) (run_states raw init_bal ops) ->
  monitor P07 raw (observe init_bal) (run raw init_bal ops) = true.
Proof.
  intros HL HP. apply C07_guarded. unfold guard07.
  apply (guarded_and raw (legal_step raw (fun _ _ _ => True)) (state_guard raw picks_ok)).
  - apply legal_of_run, HL.
  - apply guarded_states, HP.
Qed.

(* the guard follows from a bound on the length of the history: one operation places at most one call *)
Lemma full_step_picks_le raw s o order s' outs rt ub :
  Inv s -> full_step raw s o order = (s', outs, rt, ub) ->
  (length (b_picks s') <= S (length (b_picks s)))%nat.
Proof.
  intros HI. rewrite full_step_eq.
  destruct (step raw s o order) as [[s1 outs1] r1] eqn:Es.
  destruct (resolve_blocked s1) as [s2 ub2] eqn:Er. intros E; inv E.
  destruct (step_Inv _ _ _ _ _ _ _ HI Es) as [HI1 _].
  destruct (resolve_blocked_spec _ _ _ HI1 Er) as [_ [_ [Hp _]]]. rewrite Hp, map_length. clear Hp Er.
  pose proof (step_picks_other _ _ _ _ _ _ _ HI Es) as Hoth.
  destruct o as [addrs a| |sc st|pi m hc rk dl cc|j oc rk|dt|j|f|g|k]; try (rewrite Hoth; lia).
  - cbn [step] in Es. destruct (nth_error (b_published s) pi) as [pk|] eqn:Ep; [|inv Es; lia].
    destruct (_ && _); [inv Es; lia|].
    destruct (Pick_appends _ _ _ _ _ _ _ _ _ _ _ HI Ep Es) as [Happ _]. unfold pick_appends in Happ.
    destruct rt; try (rewrite Happ; lia).
    + destruct Happ as [key [i [_ [_ ->]]]]. rewrite app_length. cbn [length]. lia.
    + destruct Happ as [key [_ [_ ->]]]. rewrite app_length. cbn [length]. lia.
  - cbn [step] in Es. rewrite (Done_picks_gen _ _ _ _ _ _ _ Es).
    destruct (nth_error (b_picks s) j) as [p|]; [|lia]. destruct (pk_status p); rewrite ?upd_nth_length; lia.
  - cbn [step] in Es. destruct (nth_error (b_picks s) j); inv Es; sb; rewrite ?upd_nth_length; lia.
Qed.

Lemma run_states_picks_ok raw : forall ops s,
  Inv s -> Z.of_nat (length (b_picks s)) + Z.of_nat (length ops) < 2147483648 ->
  Forall (fun s => Z.of_nat (length (b_picks s)) < 2147483648) (run_states raw s ops).
Proof.
  induction ops as [|[o order] r IH]; intros s HI Hl; cbn [run_states].
  - constructor; [cbn [length] in Hl; lia|constructor].
  - constructor; [cbn [length] in Hl; lia|].
    destruct (full_step raw s o order) as [[[s' outs] rt] ub] eqn:E.
    destruct (full_step_Inv _ _ _ _ _ _ _ _ HI E) as [HI' _].
    pose proof (full_step_picks_le _ _ _ _ _ _ _ _ HI E) as Hle.
    specialize (IH s' HI' ltac:(cbn [length] in Hl; lia)).
    destruct r as [|[o' order'] r']; exact IH.
Qed.

Theorem C07_holds_short raw ops :
  legal raw ops -> Z.of_nat (length ops) < 2147483648 ->
  monitor P07 raw (observe init_bal) (run raw init_bal ops) = true.
Proof.
  intros HL Hn. apply C07_holds_proof; [exact HL|]. apply run_states_picks_ok; [exact Inv_init|exact Hn].
Qed.

(* ================================================================ Part 2: the refresh protocol, state level *)

(* --- the trigger rule: a creation attempt happens iff enough calls timed out, the
       last response is older than the window  unresponsive_detection_ms * 2^refreshCnt,
       and no refresh is in flight.  For every threshold and every refresh count: the
       only hypotheses about numbers say that the clock is an int64 count of
       nanoseconds (0 <= lastResp, now <= MaxInt64) and refreshCnt is not negative (it
       is a uint32).  [window_ns] is the unbounded intended window. --- *)
Lemma du_result_newsc_iff s p oc r c :
  b_cfg s = Some c -> InvU s -> b_undet s = true ->
  client_dl (b_now s) oc (pk_deadline p) = true -> sl_last r <= pk_started p ->
  0 <= sl_last r -> 0 <= sl_rcnt r -> b_now s <= MaxInt64 ->
  (match snd (du_result s p oc r) with KNone => false | _ => true end = true <->
   c_ucalls c <= (sl_de r + 1) mod W32 /\ sl_last r < b_now s - window_ns c (sl_rcnt r) /\
   sl_refreshing r = false).
Proof.
  intros Hc HU Hu Hcd Hst Hl0 Hk0 Hnow.
  destruct (InvU_pos s HU Hu) as [_ Hums].
  assert (Hc1 : cfg_ucalls s = c_ucalls c) by (unfold cfg_ucalls; rewrite Hc; reflexivity).
  assert (Hc2 : cfg_ums s = c_ums c) by (unfold cfg_ums; rewrite Hc; reflexivity).
  unfold du_result. rewrite Hu, Hcd. cbn [negb].
  assert (Hlt : pk_started p <? sl_last r = false) by (apply Z.ltb_ge; exact Hst). rewrite Hlt. cbv zeta.
  rewrite (du_trigger_eq s r c Hc1 Hc2) by (auto; lia).
  rewrite window_elapsed_spec by (auto; try lia; rewrite <- MaxInt64_Int64Max; exact Hnow).
  destruct (Z.leb_spec (c_ucalls c) ((sl_de r + 1) mod W32)) as [H1|H1];
    destruct (Z.ltb_spec (sl_last r) (b_now s - window_ns c (sl_rcnt r))) as [H2|H2];
    destruct (sl_refreshing r); try destruct (cannot_create s); cbn [andb snd];
    split; intros H; try discriminate; try (repeat split; (assumption || reflexivity)); try (exfalso; lia);
    try (destruct H as (?&?&?); discriminate).
Qed.

Theorem refresh_iff s p oc r c :
  b_cfg s = Some c -> InvU s -> b_undet s = true ->
  get_slot s (pk_slot p) = Some r ->
  client_dl (b_now s) oc (pk_deadline p) = true ->   (* a client-side deadline that has passed *)
  sl_last r <= pk_started p ->                        (* the call started after the last response *)
  0 <= sl_last r -> 0 <= sl_rcnt r ->                 (* lastResp is a clock value, refreshCnt a uint32 *)
  b_now s <= MaxInt64 ->                              (* the clock is an int64 count of nanoseconds *)
  (has_newsc (snd (detectUnresponsive s p oc)) = true <->
   c_ucalls c <= (sl_de r + 1) mod W32 /\ sl_last r < b_now s - window_ns c (sl_rcnt r) /\
   sl_refreshing r = false).
Proof.
  intros Hc HU Hu Hs Hcd Hst Hl0 Hk0 Hnow.
  destruct (detectUnresponsive s p oc) as [s2 o] eqn:E. cbn [snd].
  destruct (detectUnresponsive_spec _ _ _ _ _ _ Hs E) as [_ [-> _]]. rewrite has_newsc_du.
  apply du_result_newsc_iff; assumption.
Qed.

(* while the counter does not wrap this is the rule  ucalls <= deCalls + 1 *)
Corollary refresh_iff_no_wrap s p oc r c :
  b_cfg s = Some c -> InvU s -> b_undet s = true ->
  get_slot s (pk_slot p) = Some r ->
  client_dl (b_now s) oc (pk_deadline p) = true -> sl_last r <= pk_started p ->
  0 <= sl_de r -> sl_de r + 1 < W32 ->
  0 <= sl_last r -> 0 <= sl_rcnt r -> b_now s <= MaxInt64 ->
  (has_newsc (snd (detectUnresponsive s p oc)) = true <->
   c_ucalls c <= sl_de r + 1 /\ sl_last r < b_now s - window_ns c (sl_rcnt r) /\ sl_refreshing r = false).
Proof.
  intros Hc HU Hu Hs Hcd Hst Hd0 Hd1 Hl0 Hk0 Hnow.
  rewrite (refresh_iff s p oc r c Hc HU Hu Hs Hcd Hst Hl0 Hk0 Hnow), Z.mod_small by (split; [lia|exact Hd1]).
  reflexivity.
Qed.

(* 0 <= lastResp and 0 <= refreshCnt are facts about every state of every run *)
Theorem reachable_clock_ok raw ops : Forall clock_ok (run_states raw init_bal ops).
Proof. apply run_states_clock_ok; [exact Inv_init|exact clock_ok_init]. Qed.

Corollary refresh_iff_clock_ok s p oc r c :
  b_cfg s = Some c -> InvU s -> b_undet s = true -> clock_ok s ->
  get_slot s (pk_slot p) = Some r ->
  client_dl (b_now s) oc (pk_deadline p) = true -> sl_last r <= pk_started p ->
  b_now s <= MaxInt64 ->
  (has_newsc (snd (detectUnresponsive s p oc)) = true <->
   c_ucalls c <= (sl_de r + 1) mod W32 /\ sl_last r < b_now s - window_ns c (sl_rcnt r) /\
   sl_refreshing r = false).
Proof.
  intros Hc HU Hu HC Hs Hcd Hst Hnow. destruct (clock_ok_slot s _ r HC Hs) as [[Hl0 _] Hk0].
  apply refresh_iff; assumption.
Qed.

(* ... and on histories: in the state reached by any sequence of operations, a Done of
   a call that hit its client-side deadline and started after the last response makes a
   creation attempt when and only when the rule says so.  The one hypothesis on the
   history: the clock of that state fits an int64 (about 292 years of nanoseconds). *)
Lemma run_state_inv raw : forall ops s,
  Inv s -> InvU s -> clock_ok s ->
  Inv (run_state raw s ops) /\ InvU (run_state raw s ops) /\ clock_ok (run_state raw s ops).
Proof.
  induction ops as [|[o order] r IH]; intros s HI HU HC; cbn [run_state]; [auto|].
  destruct (full_step raw s o order) as [[[s' outs] rt] ub] eqn:E.
  destruct (full_step_Inv _ _ _ _ _ _ _ _ HI E) as [HI' _].
  apply IH; [exact HI'|exact (full_step_InvU _ _ _ _ _ _ _ _ HI HU E)|exact (full_step_clock_ok _ _ _ _ _ _ _ _ HI HC E)].
Qed.

Theorem refresh_iff_run raw ops j oc rk order s' outs rt ub p r c :
  let s := run_state raw init_bal ops in
  full_step raw s (OpDone j oc rk) order = (s', outs, rt, ub) -> rt <> RBadOp ->
  nth_error (b_picks s) j = Some p -> get_slot s (pk_slot p) = Some r ->
  b_cfg s = Some c -> b_undet s = true ->
  client_dl (b_now s) oc (pk_deadline p) = true -> sl_last r <= pk_started p ->
  b_now s <= MaxInt64 ->
  (has_newsc outs = true <->
   c_ucalls c <= (sl_de r + 1) mod W32 /\ sl_last r < b_now s - window_ns c (sl_rcnt r) /\
   sl_refreshing r = false).
Proof.
  intros s E Hrt Hj Hr Hc Hu Hcd Hst Hnow.
  destruct (run_state_inv raw ops init_bal Inv_init InvU_init clock_ok_init) as (HI & HU & HC). fold s in HI, HU, HC.
  rewrite full_step_eq in E. cbn [step] in E.
  destruct (Done s j oc rk) as [[s1 o1] r1] eqn:Ed.
  destruct (resolve_blocked s1) as [s2 ub2] eqn:Er. inv E.
  destruct (Done_spec _ _ _ _ _ _ _ HI Ed Hrt) as (p' & r' & Hj' & _ & Hr' & _ & -> & _).
  assert (p' = p) by congruence. subst p'. assert (r' = r) by congruence. subst r'.
  rewrite has_newsc_du.
  destruct (clock_ok_slot s _ r HC Hr) as [[Hl0 _] Hk0].
  apply (du_result_newsc_iff (done_s1 s j p) p oc (sl_set_streams r (wrap32s (sl_streams r - 1))) c);
    try assumption.
Qed.

(* --- finding R2, fixed.  The witnesses of the former examples window_wrap_refuted /
       window_wrap_early_refresh (50 min threshold, 11 refreshes: 2^11 * 3000000 ms does
       not fit a uint32; the old uint32 product gave 1849032704000000 ns instead of
       6144000000000000 ns): the window is now the intended one --- *)
Example window_no_wrap_fixed :
  let c := mkConfig 1 4 100 false 3000000 1 false [] in
  let s := set_cfg init_bal (Some c) in
  let r := mkSlot 0 0 0 0 0 false 11 in
  window_in_range c (sl_rcnt r) = false /\
  2 ^ sl_rcnt r * c_ums c >= W32 /\
  unresponsiveWindow s r = 6144000000000000 /\ window_ns c (sl_rcnt r) = 6144000000000000 /\
  unresponsiveWindow s r = window_ns c (sl_rcnt r).
Proof. vm_compute. repeat split; try reflexivity; discriminate. Qed.

(* ... and the refresh no longer fires before the intended window has elapsed (same
   state as window_wrap_early_refresh: the clock at 2000000 s, the window 6144000 s);
   it fires once the window has elapsed *)
Example window_no_early_refresh_fixed :
  let c := mkConfig 1 4 100 false 3000000 1 false [] in
  let st now := mkBal (Some c) 1 0 0 0 Idle [] [] [(0%N, Ready)] [(0%N, 0%nat)] [mkSlot 0 0 1 0 0 false 11]
                 0 [] true (PSnap [0%nat]) [PSnap [0%nat]]
                 [mkPick 0 5 (Some 6) false BOUND 0 false true PPlaced] now 1 false false [] in
  let p := mkPick 0 5 (Some 6) false BOUND 0 false true PPlaced in
  b_now (st 2000000000000000) - window_ns c 11 < 0 /\                (* intended window not elapsed *)
  snd (detectUnresponsive (st 2000000000000000) p DDeadlineClient) = [] /\
  snd (detectUnresponsive (st 6144000000000000) p DDeadlineClient) = [] /\
  snd (detectUnresponsive (st 6144000000000001) p DDeadlineClient) = [ONewSC 1 1; OConnect 1].
Proof. vm_compute. repeat split; reflexivity. Qed.

(* saturation: when ms * 2^refreshCnt does not fit an int64 count of nanoseconds the
   window is MaxInt64, whatever the refresh count (evaluated lazily: the conjunction
   of the model stops at  refreshCnt < 63, no power of two is built) *)
Example window_saturates :
  let c := mkConfig 1 4 100 false 4294967295 1 false [] in
  let s := set_cfg init_bal (Some c) in
  let r k := mkSlot 0 0 0 0 0 false k in
  unresponsiveWindow s (r 62) = MaxInt64 /\
  unresponsiveWindow s (r 63) = MaxInt64 /\
  unresponsiveWindow s (r 4294967295) = MaxInt64 /\
  (* the largest count for which the 2^32 - 1 ms threshold does not saturate *)
  unresponsiveWindow s (r 11) = window_ns c 11 /\ window_ns c 11 < MaxInt64 /\
  unresponsiveWindow s (r 12) = MaxInt64 /\ MaxInt64 < window_ns c 12 /\
  (* the monitor's side: from 2^64 on nothing is built either *)
  window_elapsed c 4294967295 0 Int64Max = false /\ window_elapsed c 62 0 Int64Max = false.
Proof. lazy. repeat split; reflexivity. Qed.

(* --- once: a channel with a refresh in flight gets no second replacement --- *)
Theorem one_replacement s i r :
  get_slot s i = Some r -> sl_refreshing r = true -> refresh s i = (s, []).
Proof. intros Hs Hr. unfold refresh. rewrite Hs, Hr. reflexivity. Qed.

Theorem one_replacement_done s p oc r :
  get_slot s (pk_slot p) = Some r -> sl_refreshing r = true ->
  snd (detectUnresponsive s p oc) = [] /\ b_refr (fst (detectUnresponsive s p oc)) = b_refr s.
Proof.
  intros Hs Hr. destruct (detectUnresponsive s p oc) as [s2 o] eqn:E. cbn [fst snd].
  destruct (detectUnresponsive_spec _ _ _ _ _ _ Hs E) as [_ [-> [-> _]]].
  unfold du_result. destruct (negb (b_undet s)); [auto|]. destruct (negb _); [auto|].
  destruct (_ <? _); [auto|]. cbv zeta. rewrite Hr. destruct (du_trigger s r); auto.
Qed.

(* at most one replacement per channel is ever registered *)
Theorem one_replacement_registered s c c' i :
  Inv s -> aget (b_refr s) c = Some i -> aget (b_refr s) c' = Some i -> c = c'.
Proof. intros HI. apply (refr_inj (proj1 HI)). Qed.

(* --- graceful: a failed creation leaves the channel as it was; the next timed-out
       call tries again --- *)
Theorem factory_failure_does_not_disable s i r s2 o :
  get_slot s i = Some r -> sl_refreshing r = false -> cannot_create s = true ->
  refresh s i = (s2, o) ->
  o = [ONewSCFail (b_addrs s)] /\ get_slot s2 i = Some r /\ sl_refreshing r = false /\ b_refr s2 = b_refr s.
Proof.
  intros Hs Hr Hc E. destruct (refresh_spec _ _ _ _ _ Hs E) as [H1 [H2 H3]]. cbv zeta in *.
  rewrite Hr, Hc in *. auto.
Qed.

(* --- detection disabled: nothing ever registers a replacement, Done creates nothing --- *)
Lemma du_result_disabled s p oc r : b_undet s = false -> du_result s p oc r = (r, KNone).
Proof. intros H. unfold du_result. rewrite H. reflexivity. Qed.

Theorem disabled_never_refreshes raw s o order s' outs rt ub :
  Inv s -> b_undet s = false -> full_step raw s o order = (s', outs, rt, ub) ->
  (forall c i, aget (b_refr s') c = Some i -> aget (b_refr s) c = Some i) /\
  (forall j oc rk, o = OpDone j oc rk -> outs = []).
Proof.
  intros HI Hu. rewrite full_step_eq.
  destruct (step raw s o order) as [[s1 outs1] r1] eqn:Es.
  destruct (resolve_blocked s1) as [s2 ub2] eqn:Er. intros E; inv E.
  destruct (step_Inv _ _ _ _ _ _ _ HI Es) as [HI1 _].
  destruct (resolve_blocked_spec _ _ _ HI1 Er) as [_ [Hm _]].
  pose proof (f_equal b_refr Hm) as M. cbn in M. rewrite M. clear M Hm Er.
  pose proof (step_grow7 _ _ _ _ _ _ _ HI Es) as Hg.
  destruct o as [addrs a| |sc st|pi m hc rk dl cc|j oc rk|dt|j|f|g|k];
    try (split; [rewrite (g7_refr _ _ (proj1 Hg)); auto|intros; discriminate]).
  - cbn [step] in Es. destruct (UpdateSubConnState s sc st order) as [s1' o1] eqn:E1. inv Es.
    split; [|intros; discriminate].
    destruct (UpdateSubConnState_slots _ _ _ _ _ _ HI E1) as [(_&H1&_)|(i0&ref&_&_&_&_&H1)]; rewrite H1; [auto|].
    intros c i. rewrite aget_adel. destruct (N.eqb sc c); [discriminate|auto].
  - cbn [step] in Es. destruct (ret_badop_dec rt) as [->|Hrt].
    + apply Done_badop in Es. destruct Es as [-> ->]. split; auto.
    + destruct (Done_spec _ _ _ _ _ _ _ HI Es Hrt) as (p & r & _ & _ & _ & _ & H2 & H3). cbv zeta in H2, H3.
      rewrite du_result_disabled in H2, H3 by exact Hu. cbn [snd du_outs du_refr] in H2, H3.
      rewrite H3, H2. split; auto.
Qed.

(* whatever the configuration, only a Done registers a replacement *)
Theorem only_done_refreshes raw s o order s' outs rt ub :
  Inv s -> full_step raw s o order = (s', outs, rt, ub) ->
  (forall j oc rk, o <> OpDone j oc rk) ->
  forall c i, aget (b_refr s') c = Some i -> aget (b_refr s) c = Some i.
Proof.
  intros HI. rewrite full_step_eq.
  destruct (step raw s o order) as [[s1 outs1] r1] eqn:Es.
  destruct (resolve_blocked s1) as [s2 ub2] eqn:Er. intros E; inv E. intros Hnd.
  destruct (step_Inv _ _ _ _ _ _ _ HI Es) as [HI1 _].
  destruct (resolve_blocked_spec _ _ _ HI1 Er) as [_ [Hm _]].
  pose proof (f_equal b_refr Hm) as M. cbn in M. rewrite M. clear M Hm Er.
  pose proof (step_grow7 _ _ _ _ _ _ _ HI Es) as Hg.
  destruct o as [addrs a| |sc st|pi m hc rk dl cc|j oc rk|dt|j|f|g|k];
    try (rewrite (g7_refr _ _ (proj1 Hg)); auto; fail).
  - cbn [step] in Es. destruct (UpdateSubConnState s sc st order) as [s1' o1] eqn:E1. inv Es.
    destruct (UpdateSubConnState_slots _ _ _ _ _ _ HI E1) as [(_&H1&_)|(i0&ref&_&_&_&_&H1)]; rewrite H1; [auto|].
    intros c i. rewrite aget_adel. destruct (N.eqb sc c); [discriminate|auto].
  - exfalso. eapply Hnd. reflexivity.
Qed.

(* --- between the refresh and the swap the old connection keeps serving: the
       connection of a channel is changed by nothing but the swap of that channel --- *)
Lemma du_result_conn s p oc r : sl_conn (fst (du_result s p oc r)) = sl_conn r.
Proof.
  unfold du_result. destruct (negb (b_undet s)); [reflexivity|]. destruct (negb _); [reflexivity|].
  destruct (_ <? _); [reflexivity|]. cbv zeta. destruct (du_trigger s r); [|reflexivity].
  destruct (sl_refreshing r); [reflexivity|]. destruct (cannot_create s); reflexivity.
Qed.

Lemma conn_nth s s' i r :
  get_slot s i = Some r ->
  (exists v, nth_error (rviews s') i = Some v /\ conn_of v = sl_conn r) ->
  exists r', get_slot s' i = Some r' /\ sl_conn r' = sl_conn r.
Proof.
  intros Hr [v [H1 H2]]. apply nth_error_map_Some in H1. destruct H1 as [r' [H1 <-]].
  exists r'. split; [exact H1|exact H2].
Qed.

Theorem old_serves_until_swap raw s o order s' outs rt ub i r :
  Inv s -> full_step raw s o order = (s', outs, rt, ub) -> get_slot s i = Some r ->
  (forall sc, o = OpConnState sc Ready -> aget (b_refr s) sc <> Some i) ->
  exists r', get_slot s' i = Some r' /\ sl_conn r' = sl_conn r.
Proof.
  intros HI. rewrite full_step_eq.
  destruct (step raw s o order) as [[s1 outs1] r1] eqn:Es.
  destruct (resolve_blocked s1) as [s2 ub2] eqn:Er. intros E; inv E. intros Hr Hns.
  destruct (step_Inv _ _ _ _ _ _ _ HI Es) as [HI1 _].
  destruct (resolve_blocked_spec _ _ _ HI1 Er) as [_ [Hm _]].
  apply (conn_nth s s' i r Hr). rewrite (rviews_mask_sp _ _ Hm). clear Hm Er.
  pose proof (map_nth_error rview _ _ Hr) as Hv.
  pose proof (step_grow7 _ _ _ _ _ _ _ HI Es) as Hg.
  assert (K : grow7 s s1 -> exists v, nth_error (rviews s1) i = Some v /\ conn_of v = sl_conn r).
  { intros [_ _ [l [El _]]]. exists (rview r). split; [|reflexivity]. rewrite El, nth_error_app1; [exact Hv|].
    eapply nth_error_Some_lt, Hv. }
  destruct o as [addrs a| |sc st|pi m hc rk dl cc|j oc rk|dt|j|f|g|k]; try (apply K, Hg).
  - cbn [step] in Es. destruct (UpdateSubConnState s sc st order) as [s1' o1] eqn:E1. inv Es.
    exists (rview r). split; [|reflexivity].
    destruct (UpdateSubConnState_slots _ _ _ _ _ _ HI E1) as [(H1&_)|(i0&ref&->&Hr0&_&H1&_)]; rewrite H1; [exact Hv|].
    rewrite rviews_swapped, nth_error_upd_nth_neq; [exact Hv|]. intros ->. exact (Hns sc eq_refl Hr0).
  - cbn [step] in Es. destruct (ret_badop_dec rt) as [->|Hrt].
    + apply Done_badop in Es. destruct Es as [-> _]. exists (rview r). split; [exact Hv|reflexivity].
    + destruct (Done_spec _ _ _ _ _ _ _ HI Es Hrt) as (p & r0 & _ & _ & Hr0 & H1 & _). cbv zeta in H1.
      rewrite H1, nth_error_upd_nth. destruct (Nat.eqb_spec (pk_slot p) i) as [<-|]; [|exists (rview r); auto].
      rewrite Hv. cbn [option_map]. eexists. split; [reflexivity|].
      assert (r0 = r) by (unfold get_slot in *; congruence). subst r0.
      change (conn_of (rview ?x)) with (sl_conn x). rewrite du_result_conn. reflexivity.
Qed.

(* a call that is placed is handed the connection its channel has at that moment *)
Theorem placed_call_gets_channel_conn s pi pk method hasctx reqkeys deadline cancelled s1 o n :
  Inv s -> nth_error (b_published s) pi = Some pk ->
  Pick s pi pk method hasctx reqkeys deadline cancelled = (s1, o, RPicked n) ->
  exists p i r, b_picks s1 = b_picks s ++ [p] /\ pk_slot p = i /\ pk_status p = PPlaced /\
                get_slot s1 i = Some r /\ sl_conn r = n.
Proof.
  intros HI Hpk E. destruct (Pick_appends _ _ _ _ _ _ _ _ _ _ _ HI Hpk E) as [Happ _].
  destruct Happ as [key [i [_ [Hi Hp]]]]. apply nth_error_map_Some in Hi. destruct Hi as [r [Hr Hc]].
  eexists _, i, r. split; [exact Hp|]. repeat split; auto.
Qed.

(* --- the swap: the replacement takes over the channel --- *)
Theorem swap_takes_over s sc i ref order s1 o1 :
  Inv s -> aget (b_refr s) sc = Some i -> get_slot s i = Some ref ->
  UpdateSubConnState s sc Ready order = (s1, o1) ->
  removes o1 = [sl_conn ref] /\                                     (* exactly one removal: the old connection *)
  get_slot s1 i = Some (mkSlot sc (sl_aff ref) (sl_streams ref) (b_now s) 0 false ((sl_rcnt ref + 1) mod W32)) /\
  aget (b_refr s1) sc = None /\
  b_aff s1 = rekey (b_aff s) (sl_conn ref) sc /\
  aget (b_screfs s1) sc = Some i /\ aget (b_screfs s1) (sl_conn ref) = None /\
  aget (b_scstates s1) sc = Some Ready /\
  (forall j, j <> i -> get_slot s1 j = get_slot s j).
Proof.
  intros HI Hr Hs E. destruct (swap_step _ _ _ _ _ _ _ HI Hr Hs E) as (R1 & R2 & R3 & R4 & R5 & R6).
  pose proof (swap_ne s sc i ref HI Hr Hs) as Hne.
  split; [exact R1|]. split.
  { unfold get_slot. rewrite R2, nth_error_upd_nth_eq. unfold get_slot in Hs. rewrite Hs. reflexivity. }
  split; [rewrite R3; apply aget_adel_eq|]. split; [exact R4|].
  split; [rewrite R5; apply aget_aset_eq|].
  split; [rewrite R5, aget_aset_neq by exact Hne; apply aget_adel_eq|].
  split; [exact R6|]. intros j Hj. unfold get_slot. rewrite R2. apply nth_error_upd_nth_neq. congruence.
Qed.

(* ================================================================ two histories the first version of the monitor rejected *)
(* (a) a round-robin BIND call waiting on the channel returns in the swap event: the
       stream count of the channel grows by one across the swap *)
Example swap_unblock_history :
  let raw := Some (mkConfig 1 4 100 false 10 1 true [(1%N, mkMcfg BIND true)]) in
  let ops := [(OpResolver 1 CfgVal, []); (OpConnState 0 Ready, []);
              (OpPick 0 0 false [] (Some 5) false, []); (OpAdvance 20000001, []);
              (OpDone 0 DDeadlineClient [], []);
              (OpConnState 0 Connecting, []);
              (OpPick 0 1 true [] None false, []);
              (OpConnState 1 Ready, [])] in
  map ev_ret (run raw init_bal ops) = [RNone; RNone; RPicked 0; RNone; RNone; RNone; RBlocked; RNone] /\
  map ev_ub (run raw init_bal ops) = [[]; []; []; []; []; []; []; [(1%nat, 1%N)]] /\
  map (fun s => map sl_streams (b_slots s)) (skipn 7 (run_states raw init_bal ops)) = [[0]; [1]] /\
  monitor P07 raw (observe init_bal) (run raw init_bal ops) = true.
Proof. vm_compute. repeat split; reflexivity. Qed.

(* (b) deCalls = 2^32 - 1: the uint32 counter wraps to 0 and no refresh is attempted
       (the rule is  ucalls <= (deCalls + 1) mod 2^32).  One legal Done from
       [wrap_state de]: the state reached by a legal prefix, with only the deCalls
       counter of the channel set to [de]; [wrap_ms] is the monitor's bookkeeping
       after that prefix. *)
Definition wrap_raw : option config := Some (mkConfig 1 4 100 false 10 1 false []).

Definition wrap_prefix : list (op * list nat) :=
  [(OpResolver 1 CfgVal, []); (OpConnState 0 Ready, []); (OpAdvance 5, []);
   (OpPick 0 0 false [] (Some 6) false, []); (OpAdvance 19999996, [])].

Definition wrap_state (de : Z) : bal :=
  upd_slot (run_state wrap_raw init_bal wrap_prefix) 0 (fun r => sl_set_de r de).

Fixpoint ms_after (raw : option config) (ms : mstate) (before : obs) (tr : list event) : mstate :=
  match tr with
  | [] => ms
  | ev :: r => match ev_obs ev with
               | Some after => ms_after raw (track raw ms before ev after) after r
               | None => ms
               end
  end.

Definition wrap_ms : mstate := ms_after wrap_raw ms_init (observe init_bal) (run wrap_raw init_bal wrap_prefix).

Example de_wrap_step :
  let step de := run wrap_raw (wrap_state de) [(OpDone 0 DDeadlineClient [], [])] in
  (* deCalls = 0 is the reachable state itself *)
  wrap_state 0 = run_state wrap_raw init_bal wrap_prefix /\
  map sl_de (b_slots (wrap_state 4294967295)) = [4294967295] /\
  (* one below the maximum: refresh by rule, accepted *)
  map ev_ret (step 4294967294) = [RNone] /\ map ev_out (step 4294967294) = [[ONewSC 1 1; OConnect 1]] /\
  mon_from P07 wrap_raw wrap_ms (observe (wrap_state 4294967294)) (step 4294967294) = true /\
  (* at the maximum: the counter wraps to 0, no refresh, accepted as well *)
  map ev_ret (step 4294967295) = [RNone] /\ map ev_out (step 4294967295) = [[]] /\
  map (fun ev => match ev_obs ev with Some o => map sl_de (o_slots o) | None => [] end) (step 4294967295) = [[0]] /\
  mon_from P07 wrap_raw wrap_ms (observe (wrap_state 4294967295)) (step 4294967295) = true.
Proof. vm_compute. repeat split; reflexivity. Qed.

(* ================================================================ helpers for hand-made bad traces (Props_C07.v) *)
Definition ev_with_out (outs : list out) (ev : event) : event :=
  mkEvent (ev_op ev) outs (ev_ret ev) (ev_ub ev) (ev_obs ev).

Definition obs_with_slots (f : list slot -> list slot) (o : obs) : obs :=
  mkObs (o_cfgset o) (o_addrs o) (o_nready o) (o_nconn o) (o_ntf o) (o_state o) (o_aff o) (o_fb o) (o_st o)
        (o_refs o) (f (o_slots o)) (o_rr o) (o_refr o) (o_undet o) (o_picker o) (o_npub o) (o_now o) (o_mufree o).

Definition ev_with_slots (f : list slot -> list slot) (ev : event) : event :=
  mkEvent (ev_op ev) (ev_out ev) (ev_ret ev) (ev_ub ev) (option_map (obs_with_slots f) (ev_obs ev)).
