(* Engine A proofs: C03 (pool size).

   The pool holds max(1, minSize) connections right after the first accepted
   resolver update; it grows only when a load-routed call finds every channel
   of its snapshot at or above the watermark while the pool is below maxSize
   and nothing is still connecting (re-checked under the lock in the second
   critical section of a parked Pick); connections are removed only as the old
   connection of a completed refresh.

   The strict bound  size <= maxSize  is FALSE of the model (and of the code):
   a completed refresh whose old connection was shut down meanwhile puts its
   channel back into a pool that has regrown ("revival", known finding RES).
   Hence two theorems:
     C03R_holds_proof   size <= maxSize + (number of revivals so far), every legal history
     C03_holds_proof    size <= maxSize, every legal history without a revival
   and the state-level theorems init_size, growth_only_when_saturated,
   size_bound / size_bound_no_revival, remove_only_swapped. *)
From GV Require Import Base.AListFacts Pool.Model Pool.Observe Pool.Monitors
                       Pool.Lemmas Pool.Inv Pool.Inv2 Pool.Frames Pool.Sim Pool.Reduce
                       Pool.C03Outs Pool.C03Size Pool.C03Pick Pool.C03Step Pool.C03Event.
From Coq Require Import Lia ZifyBool.
Open Scope Z_scope.

(* ================================================================ hypotheses of the theorems *)
(* harness-legal history: no operation refers to something that does not exist *)
Definition legal (raw : option config) (ops : list (op * list nat)) : Prop :=
  Forall (fun ev => ev_ret ev <> RBadOp) (run raw init_bal ops).

Definition legal_b (raw : option config) (ops : list (op * list nat)) : bool :=
  forallb (fun ev => match ev_ret ev with RBadOp => false | _ => true end) (run raw init_bal ops).

Lemma legal_b_sound raw ops : legal_b raw ops = true -> legal raw ops.
Proof.
  unfold legal_b, legal. rewrite forallb_forall, Forall_forall. intros H ev Hin E.
  specialize (H ev Hin). rewrite E in H. discriminate.
Qed.

(* all that C03 needs of it: no Pick is issued on a picker whose mutex a parked Pick holds *)
Definition pick_legal (ev : event) : Prop :=
  match ev_op ev with OpPick _ _ _ _ _ _ => ev_ret ev <> RBadOp | _ => True end.

(* the numeric fields of the configuration are uint32 *)
Definition u32 (z : Z) : Prop := 0 <= z < W32.

Definition wf_raw (raw : option config) : Prop :=
  match raw with
  | Some c => u32 (c_min c) /\ u32 (c_max c) /\ u32 (c_wm c) /\ u32 (c_ums c) /\ u32 (c_ucalls c)
  | None => True
  end.

Lemma wf_raw_min_nonneg raw : wf_raw raw -> min_nonneg raw.
Proof. destruct raw as [c|]; cbn; [|auto]. unfold u32. tauto. Qed.

Definition no_revival (raw : option config) (ops : list (op * list nat)) : Prop :=
  has_resurrection (observe init_bal) (run raw init_bal ops) = false.

(* ================================================================ the step *)
Definition Inv03 (s : bal) : Prop := Inv s /\ CfgWf s.

Definition Sim03 (s : bal) (ms : mstate) : Prop :=
  Sim_pubs s ms /\ Sim_cfg s ms /\ Sim_fail s ms /\ SizeOK (ms_res ms) s.

Definition guard03 (raw : option config) : bal -> op -> list nat -> Prop := event_guard raw pick_legal.

Lemma ms_res_track raw s ms ev after :
  InvK s -> ms_res (track raw ms (observe s) ev after) = ms_res ms + (if revives s (ev_op ev) then 1 else 0).
Proof.
  intros HK. destruct (track_proj raw ms (observe s) ev after) as (_&_&_&_&T&_).
  rewrite T, (is_resurrection_revives s ev HK). reflexivity.
Qed.

Lemma C03R_step raw s ms o order s' outs rt ub :
  min_nonneg raw -> Inv03 s -> Sim03 s ms -> guard03 raw s o order ->
  full_step raw s o order = (s', outs, rt, ub) ->
  let ev := mkEvent o outs rt ub (Some (observe s')) in
  Inv03 s' /\ Sim03 s' (track raw ms (observe s) ev (observe s')) /\
  event_ok P03R raw ms (observe s) ev = true.
Proof.
  intros Hraw [HI HW] (HSp & HSc & HSf & HSz) HG E. cbv zeta.
  unfold guard03, event_guard in HG. rewrite E in HG. unfold pick_legal in HG. cbn [ev_op ev_ret] in HG.
  destruct (full_step_Inv _ _ _ _ _ _ _ _ HI E) as [HI' _].
  pose proof (CfgWf_full_step _ _ _ _ _ _ _ _ Hraw HI HW E) as HW'.
  set (ev := mkEvent o outs rt ub (Some (observe s'))).
  assert (Hres : ms_res (track raw ms (observe s) ev (observe s')) = ms_res ms + (if revives s o then 1 else 0))
    by exact (ms_res_track raw s ms ev (observe s') (proj1 HI)).
  assert (HSz' : SizeOK (ms_res (track raw ms (observe s) ev (observe s'))) s').
  { rewrite Hres. eapply full_step_size; eauto. }
  split; [split; assumption|]. split.
  { split; [eapply Sim_pubs_step; eauto|]. split; [eapply Sim_cfg_step; eauto|].
    split; [eapply Sim_fail_step; eauto|exact HSz']. }
  destruct (full_step_split _ _ _ _ _ _ _ _ HI E) as [s1 (Es & HI1 & Hr1 & Hc1)].
  assert (HW1 : CfgWf s1) by exact (CfgWf_step raw s o order s1 outs rt Hraw HI HW Es).
  unfold ev. cbn [event_ok ev_obs ev_op]. fold ev. rewrite c03_event_eq.
  repeat (apply andb_true_iff; split).
  - eapply c03_init_holds; eauto.
  - apply c03_bound_holds; [exact HSz'|]. intros c Hc.
    eapply cfg_after_in_force; [exact HSc| |exact Hc]. eapply full_step_cfg; eauto.
  - eapply c03_create_holds; eauto.
  - eapply c03_remove_holds; eauto.
Qed.

Theorem C03R_guarded raw ops :
  min_nonneg raw -> guarded raw (guard03 raw) init_bal ops ->
  monitor P03R raw (observe init_bal) (run raw init_bal ops) = true.
Proof.
  intros Hraw. apply (monitor_run P03R raw Inv03 Sim03 (guard03 raw)).
  - intros. eapply C03R_step; eauto.
  - split; [exact Inv_init|exact CfgWf_init].
  - split; [exact Sim_pubs_init|split; [exact Sim_cfg_init|split; [exact Sim_fail_init|exact SizeOK_init]]].
Qed.

(* ================================================================ C03 with the bound relaxed by the revivals *)
Theorem C03R_pick_legal raw ops :
  min_nonneg raw -> Forall pick_legal (run raw init_bal ops) ->
  monitor P03R raw (observe init_bal) (run raw init_bal ops) = true.
Proof. intros Hraw H. apply C03R_guarded; [exact Hraw|]. apply guarded_events, H. Qed.

Lemma legal_pick_legal raw ops : legal raw ops -> Forall pick_legal (run raw init_bal ops).
Proof.
  unfold legal. apply Forall_impl. intros ev H. unfold pick_legal. destruct (ev_op ev); auto.
Qed.

Theorem C03R_holds_proof raw ops :
  legal raw ops -> wf_raw raw ->
  monitor P03R raw (observe init_bal) (run raw init_bal ops) = true.
Proof.
  intros HL HW. apply C03R_pick_legal; [apply wf_raw_min_nonneg, HW|apply legal_pick_legal, HL].
Qed.

(* ================================================================ the strict bound, without revivals *)
(* without a revival the two monitors coincide *)
Lemma mon_P03_P03R raw : forall tr ms before,
  ms_res ms = 0 -> has_resurrection before tr = false ->
  mon_from P03 raw ms before tr = mon_from P03R raw ms before tr.
Proof.
  induction tr as [|ev r IH]; intros ms before H0 Hn; [reflexivity|].
  cbn [mon_from has_resurrection] in *. apply orb_false_iff in Hn. destruct Hn as [Hn1 Hn2].
  unfold event_ok. destruct (ev_obs ev) as [after|] eqn:Eo; [|reflexivity].
  assert (Hres : ms_res (track raw ms before ev after) = 0).
  { destruct (track_proj raw ms before ev after) as (_&_&_&_&T&_). rewrite T, Hn1, H0. reflexivity. }
  rewrite Hres. f_equal. apply IH; assumption.
Qed.

Theorem C03_holds_proof raw ops :
  legal raw ops -> wf_raw raw -> no_revival raw ops ->
  monitor P03 raw (observe init_bal) (run raw init_bal ops) = true.
Proof.
  intros HL HW HN. unfold monitor. rewrite (mon_P03_P03R raw _ ms_init (observe init_bal) eq_refl HN).
  apply C03R_holds_proof; assumption.
Qed.

(* ================================================================ state-level theorems *)
(* --- the size right after the first accepted resolver update --- *)
Lemma effective_min raw :
  min_nonneg raw -> c_min (effective raw) = Z.max 1 (match raw with Some c => c_min c | None => 0 end).
Proof.
  unfold min_nonneg, effective, defaultMinSize. destruct raw as [c|]; cbn [c_min]; [|lia].
  intros H. destruct (Z.eqb_spec (c_min c) 0); lia.
Qed.

Theorem init_size raw s addrs a s' o r :
  min_nonneg raw -> Inv s -> b_cfg s = None -> b_fail s = false -> addrs <> 0%N ->
  UpdateClientConnState s addrs a raw = (s', o, r) -> b_cfg s' <> None ->
  exists c, b_cfg s' = Some c /\ c = effective (match a with CfgVal => raw | _ => None end) /\
            pool_size s' = c_min c /\
            c_min c = Z.max 1 (match a, raw with CfgVal, Some c0 => c_min c0 | _, _ => 0 end).
Proof.
  intros Hraw HI Hc Hf Ha E Hc'.
  pose proof (step_cfg raw s (OpResolver addrs a) [] s' o r HI E) as Hcfg. rewrite Hc in Hcfg.
  destruct (ucc_size_first _ _ _ _ _ _ _ HI Hc E) as (_&_&Hs). destruct (Hs Hc') as [_ Hex].
  assert (G : forall rr, min_nonneg rr -> b_cfg s' = Some (effective rr) ->
              pool_size s' = c_min (effective rr)).
  { intros rr Hrr Ec. destruct (effective_wf rr Hrr) as [Hm _].
    unfold cfg_min in Hex. rewrite Ec in Hex. apply Hex; auto. }
  destruct a.
  - exists (effective None). split; [exact Hcfg|split; [reflexivity|split; [apply (G None I Hcfg)|reflexivity]]].
  - congruence.
  - exists (effective raw). split; [exact Hcfg|split; [reflexivity|split; [apply (G raw Hraw Hcfg)|]]].
    rewrite (effective_min raw Hraw). destruct raw; reflexivity.
Qed.

(* --- who may grow the pool, and when --- *)
Definition saturated (s : bal) (refs : list nat) : Prop := forall j, In j refs -> cfg_wm s <= streams_of s j.

Definition may_grow (s : bal) : Prop :=
  pool_size s < cfg_max s /\ existsb busy_conn (b_scstates s) = false.

Lemma newSubConn_grows s s' o :
  InvK s -> CfgWf s -> b_cfg s <> None -> newSubConn s = (s', o) -> pool_size s < pool_size s' ->
  may_grow s /\ pool_size s' = pool_size s + 1.
Proof.
  intros HK HW Hc E Hlt. apply newSubConn_cases in E. destruct E as [[-> _]|[Hm [Hb [ok Ea]]]]; [lia|].
  destruct (addSubConn_sizeK _ _ _ _ HK Ea) as [_ Hs].
  assert (H0 : cfg_max s <> 0).
  { unfold cfg_max. destruct (b_cfg s) as [c|] eqn:Ec; [|congruence]. apply (HW c Ec). }
  destruct ok; [|lia]. split; [split; [lia|exact Hb]|lia].
Qed.

Theorem growth_only_when_saturated raw s o order s1 outs rt :
  Inv s -> CfgWf s -> step raw s o order = (s1, outs, rt) -> pool_size s < pool_size s1 ->
  match o with
  | OpResolver _ _ => pool_size s = 0
  | OpConnState _ _ => revives s o = true /\ pool_size s1 = pool_size s + 1
  | OpPick pi m hc rk _ _ =>
      exists refs, nth_error (b_published s) pi = Some (PSnap refs) /\
                   load_routed s m hc rk = true /\ saturated s refs /\ may_grow s /\
                   b_gate s = false /\ rt = RNoSubConn /\ pool_size s1 = pool_size s + 1
  | OpResume _ => may_grow s /\ rt = RNoSubConn /\ pool_size s1 = pool_size s + 1
  | _ => False
  end.
Proof.
  intros HI HW Es Hlt.
  assert (Same : b_screfs s1 = b_screfs s -> False) by (intros H; unfold pool_size in Hlt; rewrite H in Hlt; lia).
  destruct o as [addrs a| |sc st|pi m hc rk dl cc|j oc rk|dt|j|f|g|k]; cbn [step] in Es.
  - destruct (b_cfg s) as [c|] eqn:Ec.
    + destruct (ucc_size_later _ _ _ _ _ _ _ _ HI Ec Es) as (_&_&H). pose proof (pool_size_nonneg s). lia.
    + apply (ucc_size_first _ _ _ _ _ _ _ HI Ec Es).
  - inv Es. exfalso; apply Same; reflexivity.
  - destruct (UpdateSubConnState s sc st order) as [s2 o2] eqn:E1. inv Es.
    destruct (UpdateSubConnState_c03 _ _ _ _ _ _ HI E1) as (_&H&_).
    destruct (revives s (OpConnState sc st)); [split; [reflexivity|lia]|lia].
  - destruct (nth_error (b_published s) pi) as [pk|] eqn:Ep; [|inv Es; exfalso; apply Same; reflexivity].
    destruct (_ && _); [inv Es; exfalso; apply Same; reflexivity|].
    assert (Hc : b_cfg s <> None) by (eapply InvG_cfg_pubs; [apply HI|eapply nth_error_nonnil, Ep]).
    destruct (Pick_c03 _ _ _ _ _ _ _ _ _ _ _ HI Ep Es) as [(_&H&_)|[refs (->&Hl&Hg&[(_&_&_&H)|(Hgate&->&En)])]];
      try (exfalso; apply Same, H).
    destruct (newSubConn_grows _ _ _ (proj1 HI) HW Hc En Hlt) as [Hm Hs].
    exists refs. split; [reflexivity|split; [exact Hl|split; [exact (proj2 (lbd_grow _ _ Hg))|auto]]].
  - exfalso. apply Same. eapply Done_screfs, Es.
  - destruct (0 <=? dt); inv Es; exfalso; apply Same; reflexivity.
  - destruct (nth_error (b_picks s) j); inv Es; exfalso; apply Same; reflexivity.
  - inv Es. exfalso; apply Same; reflexivity.
  - inv Es. exfalso; apply Same; reflexivity.
  - destruct (nth_error (b_parked s) k) as [x|] eqn:Ek; [|inv Es; exfalso; apply Same; reflexivity].
    destruct (newSubConn _) as [s2 o2] eqn:En. inv Es.
    assert (Hc : b_cfg s <> None) by (eapply InvG_cfg_parked; [apply HI|eapply nth_error_nonnil, Ek]).
    destruct (newSubConn_grows (set_parked s (firstn k (b_parked s) ++ skipn (S k) (b_parked s))) _ _
                (proj1 HI) HW Hc En Hlt) as [Hm Hs]. auto.
Qed.

(* --- the bound --- *)
(* revivals along a run of the model *)
Fixpoint run_revivals (raw : option config) (s : bal) (ops : list (op * list nat)) : Z :=
  match ops with
  | [] => 0
  | (o, order) :: r =>
      (if revives s o then 1 else 0) + let '(s', _, _, _) := full_step raw s o order in run_revivals raw s' r
  end.

Lemma run_revivals_nonneg raw : forall ops s, 0 <= run_revivals raw s ops.
Proof.
  induction ops as [|[o order] r IH]; intros s; cbn [run_revivals]; [lia|].
  destruct (full_step raw s o order) as [[[s' ?] ?] ?]. specialize (IH s'). destruct (revives s o); lia.
Qed.

Lemma size_bound_from raw : forall ops s k,
  min_nonneg raw -> Inv s -> CfgWf s -> SizeOK k s ->
  SizeOK (k + run_revivals raw s ops) (run_state raw s ops).
Proof.
  induction ops as [|[o order] r IH]; intros s k Hraw HI HW HS; cbn [run_revivals run_state].
  - rewrite Z.add_0_r. exact HS.
  - destruct (full_step raw s o order) as [[[s' outs] rt] ub] eqn:E.
    destruct (full_step_Inv _ _ _ _ _ _ _ _ HI E) as [HI' _].
    pose proof (CfgWf_full_step _ _ _ _ _ _ _ _ Hraw HI HW E) as HW'.
    pose proof (full_step_size _ _ _ _ _ _ _ _ k Hraw HI HW HS E) as HS'.
    rewrite Z.add_assoc. apply IH; assumption.
Qed.

(* every reachable state: at most maxSize + (revivals so far) connections when minSize <= maxSize *)
Theorem size_bound raw ops :
  min_nonneg raw -> SizeOK (run_revivals raw init_bal ops) (run_state raw init_bal ops).
Proof.
  intros Hraw. apply (size_bound_from raw ops init_bal 0 Hraw Inv_init CfgWf_init SizeOK_init).
Qed.

(* one step of any interleaving of the modelled critical sections keeps the
   strict bound unless it is a revival *)
Theorem size_bound_step raw s o order s' outs rt ub :
  min_nonneg raw -> Inv s -> CfgWf s -> revives s o = false ->
  SizeOK 0 s -> full_step raw s o order = (s', outs, rt, ub) -> SizeOK 0 s'.
Proof.
  intros Hraw HI HW Hr HS E. pose proof (full_step_size _ _ _ _ _ _ _ _ 0 Hraw HI HW HS E) as H.
  rewrite Hr in H. exact H.
Qed.

(* the monitor's revival test is the model's *)
Lemma has_resurrection_run raw : forall ops s,
  Inv s -> has_resurrection (observe s) (run raw s ops) = negb (run_revivals raw s ops =? 0).
Proof.
  induction ops as [|[o order] r IH]; intros s HI; cbn [run has_resurrection run_revivals]; [reflexivity|].
  destruct (full_step raw s o order) as [[[s' outs] rt] ub] eqn:E.
  destruct (full_step_Inv _ _ _ _ _ _ _ _ HI E) as [HI' _].
  cbn [has_resurrection ev_obs]. rewrite (is_resurrection_revives s _ (proj1 HI)), (IH s' HI'). cbn [ev_op].
  pose proof (run_revivals_nonneg raw r s'). destruct (revives s o); cbn [orb]; lia.
Qed.

Theorem size_bound_no_revival raw ops :
  min_nonneg raw -> no_revival raw ops ->
  forall c, b_cfg (run_state raw init_bal ops) = Some c -> c_min c <= c_max c ->
            pool_size (run_state raw init_bal ops) <= c_max c.
Proof.
  intros Hraw HN c Hc Hm. unfold no_revival in HN. rewrite (has_resurrection_run raw ops init_bal Inv_init) in HN.
  destruct (size_bound raw ops Hraw) as [_ H]. specialize (H c Hc Hm). lia.
Qed.

(* --- removals --- *)
Theorem remove_only_swapped raw s o order s1 outs rt :
  Inv s -> step raw s o order = (s1, outs, rt) ->
  removes outs = [] \/
  exists sc i ref, o = OpConnState sc Ready /\ aget (b_refr s) sc = Some i /\ get_slot s i = Some ref /\
                   removes outs = [sl_conn ref].
Proof. apply step_removes. Qed.

(* ================================================================ the revival witness *)
(* corpus/pool/known_res.hist: min 1, max 2, watermark 1, unresponsive detection
   after 1 ms / 1 call.  Connection 0 is refreshed (replacement 1) and shut down,
   the pool regrows to maxSize (connections 2, 3), then the replacement becomes
   READY and its channel is swapped back into the pool: 3 connections. *)
Definition res_raw : option config := Some (mkConfig 1 2 1 false 1 1 false []).
Definition res_ops : list (op * list nat) :=
  [(OpResolver 1 CfgVal, []); (OpConnState 0 Ready, []); (OpPick 0 0 true [] (Some 1000000) false, []);
   (OpAdvance 2000001, []); (OpDone 0 DDeadlineClient [], []); (OpConnState 0 Shutdown, []);
   (OpResolver 1 CfgVal, []); (OpConnState 2 Ready, []); (OpPick 2 0 true [] None false, []);
   (OpPick 2 0 true [] None false, []); (OpConnState 3 Ready, []); (OpConnState 1 Ready, [])].
