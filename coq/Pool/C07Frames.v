(* Engine A proofs, C07: which operations can touch the refresh state.

   grow7        refreshingScRefs unchanged, the refresh views of the existing slots
                unchanged, the clock does not go back, new slots start with
                deCalls = 0, refreshCnt = 0 and lastResp = the clock   (every
                operation except Done and a connection-state report)
   clock_ok     the clock is >= 0; lastResp of every channel is a past clock value
                (0 <= lastResp <= now); refreshCnt >= 0.  Holds in every state of
                every run (full_step_clock_ok, run_states_clock_ok)
   no_rm        the operation calls RemoveSubConn on nothing
   de_le        bound on the deCalls counters along a run
   resolve_blocked_streams   the stream count of a channel no waiting call of
                             which returned is not changed by the unblocking loop *)
From GV Require Import Base.AListFacts Pool.Model Pool.Observe Pool.Monitors
                       Pool.Lemmas Pool.Inv Pool.Inv2 Pool.Frames Pool.Reduce Pool.SimW Pool.InvC02 Pool.C07Refresh.
From Coq Require Import Lia ZifyBool.
Open Scope Z_scope.

Definition de_of (v : N * Z * Z * bool * Z) : Z := let '(_, _, de, _, _) := v in de.
Definition conn_of (v : N * Z * Z * bool * Z) : N := let '(c, _, _, _, _) := v in c.
Definition last_of (v : N * Z * Z * bool * Z) : Z := let '(_, l, _, _, _) := v in l.
Definition rc_of (v : N * Z * Z * bool * Z) : Z := let '(_, _, _, _, rc) := v in rc.

Lemma de_of_rview r : de_of (rview r) = sl_de r.
Proof. reflexivity. Qed.

Lemma last_of_rview r : last_of (rview r) = sl_last r.
Proof. reflexivity. Qed.

Lemma rc_of_rview r : rc_of (rview r) = sl_rcnt r.
Proof. reflexivity. Qed.

Lemma conns_rviews s : map sl_conn (b_slots s) = map conn_of (rviews s).
Proof. rewrite map_map. reflexivity. Qed.

(* ================================================================ grow7 *)
Record grow7 (s s' : bal) : Prop := mkGrow7 {
  g7_refr : b_refr s' = b_refr s;
  g7_now : b_now s <= b_now s';
  g7_slots : exists l, rviews s' = rviews s ++ l /\
                       Forall (fun v => de_of v = 0 /\ rc_of v = 0 /\ b_now s <= last_of v <= b_now s') l
}.

Lemma grow7_later s s' : b_refr s' = b_refr s -> rviews s' = rviews s -> b_now s <= b_now s' -> grow7 s s'.
Proof.
  intros H1 H2 H3. split; [exact H1|exact H3|]. exists []. rewrite app_nil_r. split; [exact H2|constructor].
Qed.

Lemma grow7_same s s' : b_refr s' = b_refr s -> rviews s' = rviews s -> b_now s' = b_now s -> grow7 s s'.
Proof. intros H1 H2 H3. apply grow7_later; auto. lia. Qed.

Lemma grow7_refl s : grow7 s s.
Proof. apply grow7_same; reflexivity. Qed.

Lemma grow7_trans s1 s2 s3 : grow7 s1 s2 -> grow7 s2 s3 -> grow7 s1 s3.
Proof.
  intros [A1 N1 [l1 [B1 C1]]] [A2 N2 [l2 [B2 C2]]]. split; [congruence|lia|].
  exists (l1 ++ l2). rewrite B2, B1, app_assoc. split; [reflexivity|]. apply Forall_app. split.
  - eapply Forall_impl; [|exact C1]. cbn beta. intros v Hv. repeat split; try tauto; lia.
  - eapply Forall_impl; [|exact C2]. cbn beta. intros v Hv. repeat split; try tauto; lia.
Qed.

Lemma grow7_add_state s : grow7 s (add_state s).
Proof.
  split; [reflexivity|unfold add_state; sb; lia|]. unfold add_state; sb. rewrite map_app. eexists. split; [reflexivity|].
  constructor; [|constructor]. cbn. repeat split; lia.
Qed.

Lemma addSubConn_grow7 s s' ok o : addSubConn s = (s', ok, o) -> grow7 s s' /\ no_rm o.
Proof.
  intros E. destruct (addSubConn_cases s) as [[_ E']|[_ E']]; rewrite E' in E; inv E.
  - split; [apply grow7_refl|reflexivity].
  - split; [apply grow7_add_state|reflexivity].
Qed.

Lemma enforceMinSize_grow7 s s' o : enforceMinSize s = (s', o) -> grow7 s s' /\ no_rm o.
Proof.
  revert s' o. apply (enforceMinSize_ind (fun s' o => grow7 s s' /\ no_rm o)).
  - split; [apply grow7_refl|reflexivity].
  - intros s1 o1 s2 ok o2 [H1 H2] _ E. apply addSubConn_grow7 in E. destruct E as [H3 H4].
    split; [eapply grow7_trans; eauto|apply no_rm_app; auto].
Qed.

Lemma newSubConn_grow7 s s' o : newSubConn s = (s', o) -> grow7 s s' /\ no_rm o.
Proof.
  unfold newSubConn. destruct (_ && _); [intros E; inv E; split; [apply grow7_refl|reflexivity]|].
  destruct (existsb _ _); [intros E; inv E; split; [apply grow7_refl|reflexivity]|].
  destruct (addSubConn s) as [[s1 ok] o1] eqn:E1. intros E; inv E. eapply addSubConn_grow7; eauto.
Qed.

Lemma update_refr_no_rm s : no_rm (update_refr s).
Proof. unfold no_rm, update_refr. induction (b_refr s) as [|x r IH]; cbn; auto. Qed.

Lemma update_all_no_rm s : no_rm (update_all s).
Proof.
  unfold update_all. apply no_rm_app; [|apply update_refr_no_rm].
  unfold no_rm. induction (b_screfs s) as [|x r IH]; cbn; auto.
Qed.

Lemma UpdateClientConnState_grow7 s addrs a raw s' o r :
  UpdateClientConnState s addrs a raw = (s', o, r) -> grow7 s s' /\ no_rm o.
Proof.
  rewrite UpdateClientConnState_eq. unfold ucc_init. sb.
  assert (G : forall s2 o2, grow7 s s2 /\ no_rm o2 ->
    (if (length (b_screfs s2) =? 0)%nat
     then let '(s3, _, o3) := addSubConn s2 in (s3, o2 ++ o3 ++ update_refr s3, RNone)
     else (s2, o2 ++ update_all s2, RNone)) = (s', o, r) -> grow7 s s' /\ no_rm o).
  { intros s2 o2 [H1 H2]. destruct (_ =? _)%nat.
    - destruct (addSubConn s2) as [[s3 ok] o3] eqn:E3. intros E; inv E.
      apply addSubConn_grow7 in E3. destruct E3 as [H3 H4].
      split; [eapply grow7_trans; eauto|]. repeat apply no_rm_app; auto using update_refr_no_rm.
    - intros E; inv E. split; [exact H1|]. apply no_rm_app; auto using update_all_no_rm. }
  assert (G2 : forall c s2 o2, enforceMinSize (set_undet (set_cfg (set_addrs s addrs) (Some c))
                                 ((0 <? c_ucalls c) && (0 <? c_ums c))) = (s2, o2) -> grow7 s s2 /\ no_rm o2).
  { intros c s2 o2 Ei. apply enforceMinSize_grow7 in Ei. destruct Ei as [H1 H2]. split; [|exact H2].
    eapply grow7_trans; [|exact H1]. apply grow7_same; reflexivity. }
  destruct (b_cfg s).
  - apply G. split; [apply grow7_same; reflexivity|reflexivity].
  - destruct a.
    + destruct (initializeConfig (set_addrs s addrs) None) as [s2 o2] eqn:Ei. apply G. eapply G2, Ei.
    + intros E; inv E. split; [apply grow7_same; reflexivity|reflexivity].
    + destruct (initializeConfig (set_addrs s addrs) raw) as [s2 o2] eqn:Ei. apply G. eapply G2, Ei.
Qed.

Lemma rviews_incr_streams s i : rviews (incr_streams s i) = rviews s.
Proof. unfold incr_streams. apply rviews_upd_slot. reflexivity. Qed.

Lemma Pick_grow7 s pi pk method hasctx reqkeys deadline cancelled s' o r :
  Inv s -> nth_error (b_published s) pi = Some pk ->
  Pick s pi pk method hasctx reqkeys deadline cancelled = (s', o, r) -> grow7 s s' /\ no_rm o.
Proof.
  intros HI Hpk. rewrite Pick_eq.
  destruct pk as [[|]|[|a l]]; try (intros E; inv E; split; [apply grow7_refl|reflexivity]).
  assert (Hrefs : forall i, In i (a :: l) -> (i < length (b_slots s))%nat).
  { intros i Hi. destruct HI as (_&_&HP&_). eapply (pub_valid HP); eauto. eapply nth_error_In, Hpk. }
  destruct (pick_keyres s method hasctx reqkeys) as [key|]; [|intros E; inv E; split; [apply grow7_refl|reflexivity]].
  destruct (cmd_eqb _ BIND && cfg_rr s).
  - unfold pick_rr. destruct (b_slots s); [intros E; inv E; split; [apply grow7_refl|reflexivity]|].
    unfold pick_rr_body. cbv zeta.
    destruct (get_slot _ _); [|intros E; inv E; split; [apply grow7_same; reflexivity|reflexivity]].
    destruct (_ || _); intros E; inv E; (split; [apply grow7_same; try reflexivity|reflexivity]).
    sb. apply map_upd_nth_same. reflexivity.
  - unfold pick_lb. destruct (pick_dec s key (a :: l)) as [s1 dec] eqn:Ed.
    destruct (pick_dec_Inv _ _ _ _ _ HI Hrefs Ed) as [HI1 [[fb' ->] Hdec]].
    destruct dec as [i| |].
    + destruct (get_slot _ i); intros E; inv E; (split; [apply grow7_same; try reflexivity|reflexivity]).
      sb. apply map_upd_nth_same. reflexivity.
    + destruct (b_gate _); [intros E; inv E; split; [apply grow7_same; reflexivity|reflexivity]|].
      destruct (newSubConn (set_fb s fb')) as [s2 o2] eqn:En. intros E; inv E.
      apply newSubConn_grow7 in En. destruct En as [H1 H2]. split; [|exact H2].
      eapply grow7_trans; [|exact H1]. apply grow7_same; reflexivity.
    + intros E; inv E; split; [apply grow7_same; reflexivity|reflexivity].
Qed.

(* every operation but Done and a connection-state report *)
Lemma step_grow7 raw s o order s1 outs rt :
  Inv s -> step raw s o order = (s1, outs, rt) ->
  match o with OpConnState _ _ | OpDone _ _ _ => True | _ => grow7 s s1 /\ no_rm outs end.
Proof.
  intros HI. destruct o as [addrs a| |sc st|pi m hc rk dl cc|j oc rk|dt|j|f|g|k]; cbn [step]; auto.
  - apply UpdateClientConnState_grow7.
  - intros E; inv E. split; [apply grow7_refl|reflexivity].
  - destruct (nth_error (b_published s) pi) eqn:Ep; [|intros E; inv E; split; [apply grow7_refl|reflexivity]].
    destruct (_ && _); [intros E; inv E; split; [apply grow7_refl|reflexivity]|]. eapply Pick_grow7; eauto.
  - destruct (Z.leb_spec 0 dt); intros E; inv E; (split; [|reflexivity]).
    + apply grow7_later; try reflexivity. cbn. lia.
    + apply grow7_refl.
  - destruct (nth_error (b_picks s) j); intros E; inv E; (split; [apply grow7_same; reflexivity|reflexivity]).
  - intros E; inv E; split; [apply grow7_same; reflexivity|reflexivity].
  - intros E; inv E; split; [apply grow7_same; reflexivity|reflexivity].
  - destruct (nth_error (b_parked s) k) eqn:Ek; [|intros E; inv E; split; [apply grow7_refl|reflexivity]].
    destruct (newSubConn _) as [s2 o2] eqn:En. intros E; inv E.
    apply newSubConn_grow7 in En. destruct En as [H1 H2]. split; [|exact H2].
    eapply grow7_trans; [|exact H1]. apply grow7_same; reflexivity.
Qed.

(* ================================================================ Done *)
Lemma du_outs_no_rm s k : no_rm (du_outs s k).
Proof. destruct k; reflexivity. Qed.

(* a legal Done: the slot of the call, before and after, and the calls made *)
Lemma Done_spec s j oc rk s1 o rt :
  Inv s -> Done s j oc rk = (s1, o, rt) -> rt <> RBadOp ->
  exists p r, nth_error (b_picks s) j = Some p /\ pk_status p = PPlaced /\
    get_slot s (pk_slot p) = Some r /\
    let r1 := sl_set_streams r (wrap32s (sl_streams r - 1)) in
    let s0 := done_s1 s j p in
    rviews s1 = upd_nth (pk_slot p) (fun _ => rview (fst (du_result s0 p oc r1))) (rviews s) /\
    o = du_outs s0 (snd (du_result s0 p oc r1)) /\
    b_refr s1 = du_refr s0 (pk_slot p) (snd (du_result s0 p oc r1)).
Proof.
  intros HI. rewrite Done_eq.
  destruct (nth_error (b_picks s) j) as [p|] eqn:Ej; [|intros E; inv E; congruence].
  destruct (pk_status p) eqn:Est; try (intros E; inv E; congruence).
  destruct (detectUnresponsive (done_s1 s j p) p oc) as [s2 o2] eqn:Ed. intros E; inv E. intros _.
  destruct HI as (_&_&_&_&_&HS).
  pose proof (picks_slot HS p (nth_error_In _ _ Ej)) as Hlt. rewrite map_length in Hlt.
  destruct (nth_error_lt_Some _ _ Hlt) as [r Hr].
  exists p, r. split; [reflexivity|split; [exact Est|split; [exact Hr|]]]. cbv zeta.
  assert (Hs0 : get_slot (done_s1 s j p) (pk_slot p) = Some (sl_set_streams r (wrap32s (sl_streams r - 1)))).
  { unfold done_s1. rewrite get_slot_upd_eq. unfold get_slot; sb. rewrite Hr. reflexivity. }
  destruct (detectUnresponsive_spec _ _ _ _ _ _ Hs0 Ed) as [H1 [H2 [H3 H4]]].
  split; [|split; [exact H2|rewrite done_bind_refr; exact H3]].
  rewrite rviews_done_bind, H4, <- (rviews_done_s1 s j p).
  apply map_upd_nth. reflexivity.
Qed.

(* ================================================================ connection-state reports *)
Lemma usc_after_same s1 o1 sc st order s' o' :
  usc_after s1 o1 sc st order = (s', o') ->
  b_slots s' = b_slots s1 /\ b_refr s' = b_refr s1 /\ b_aff s' = b_aff s1.
Proof.
  unfold usc_after. destruct (aget (b_scstates s1) sc) as [oldS|]; [|intros E; inv E; auto].
  unfold usc_tail. rewrite usc_fin_cases. cbv zeta.
  destruct (usc_s5_frame s1 sc st oldS) as (_&_&_&_&_&_&_&_&E9&_&_&_&E13&E14&_).
  destruct (pub_cond _ _ _ _); intros E; inv E; sb; auto.
Qed.

Lemma UpdateSubConnState_slots s sc st order s1 o1 :
  Inv s -> UpdateSubConnState s sc st order = (s1, o1) ->
  (b_slots s1 = b_slots s /\ b_refr s1 = b_refr s /\ no_rm o1) \/
  (exists i ref, st = Ready /\ aget (b_refr s) sc = Some i /\ get_slot s i = Some ref /\
                 b_slots s1 = upd_nth i (swapped_slot sc (b_now s)) (b_slots s) /\
                 b_refr s1 = adel (b_refr s) sc).
Proof.
  intros HI E. destruct (aget (b_refr s) sc) as [i|] eqn:Er.
  - destruct (cstate_eqb_spec st Ready) as [->|Hne].
    + destruct (refr_get_slot s (proj1 HI) _ _ Er) as [ref [Hs _]].
      right. exists i, ref. destruct (swap_step _ _ _ _ _ _ _ HI Er Hs E) as (_&H2&H3&_). auto.
    + left. pose proof (UpdateSubConnState_no_rm s sc st order s1 o1 HI) as Hn.
      rewrite UpdateSubConnState_cases, Er in E. destruct (cstate_eqb_spec st Ready); [congruence|].
      cbn [negb] in E. inv E. repeat split; reflexivity.
  - left. pose proof (UpdateSubConnState_no_rm s sc st order s1 o1 HI (fun _ => Er) E) as Hn.
    rewrite UpdateSubConnState_cases, Er in E. apply usc_after_same in E. tauto.
Qed.

(* ================================================================ bound on deCalls *)
Definition de_le (n : Z) (s : bal) : Prop := Forall (fun v => 0 <= de_of v <= n) (rviews s).

Lemma de_le_slot n s i r : de_le n s -> get_slot s i = Some r -> 0 <= sl_de r <= n.
Proof.
  intros H Hr. unfold de_le in H. rewrite Forall_forall in H.
  apply (H (rview r)). apply in_map. eapply nth_error_In, Hr.
Qed.

Lemma de_le_mono n m s : n <= m -> de_le n s -> de_le m s.
Proof. intros Hnm H. unfold de_le in *. eapply Forall_impl; [|exact H]. cbn. intros v Hv. lia. Qed.

Lemma de_le_init n : de_le n init_bal.
Proof. constructor. Qed.

Lemma Forall_upd_nth {A} (P : A -> Prop) i f (l : list A) :
  Forall P l -> (forall x, nth_error l i = Some x -> P (f x)) -> Forall P (upd_nth i f l).
Proof.
  intros H. revert i. induction H as [|y r Hy Hr IH]; intros [|i] Hf; cbn; constructor; auto.
Qed.

Lemma grow7_de_le n s s' : 0 <= n -> grow7 s s' -> de_le n s -> de_le n s'.
Proof.
  intros Hn [_ _ [l [E Hl]]] H. unfold de_le in *. rewrite E. apply Forall_app. split; [exact H|].
  eapply Forall_impl; [|exact Hl]. cbn. intros v Hv. lia.
Qed.

Lemma du_result_de s p oc r n :
  0 <= n -> 0 <= sl_de r <= n -> 0 <= sl_de (fst (du_result s p oc r)) <= n + 1.
Proof.
  intros Hn Hr. unfold du_result.
  assert (Hm : 0 <= (sl_de r + 1) mod W32 <= n + 1).
  { pose proof (Z.mod_pos_bound (sl_de r + 1) W32 ltac:(unfold W32; lia)).
    pose proof (Z.mod_le (sl_de r + 1) W32 ltac:(lia) ltac:(unfold W32; lia)). lia. }
  destruct (negb (b_undet s)); [cbn [fst]; lia|].
  destruct (negb _); [cbn [fst resp_slot sl_de]; lia|].
  destruct (_ <? _); [cbn [fst]; lia|]. cbv zeta.
  destruct (du_trigger s r); [|cbn [fst sl_de sl_set_de]; exact Hm].
  destruct (sl_refreshing r); [cbn [fst sl_de sl_set_de]; exact Hm|].
  destruct (cannot_create s); cbn [fst sl_de sl_set_de sl_set_refreshing]; exact Hm.
Qed.

Definition swapped_view (sc : N) (now : Z) (v : N * Z * Z * bool * Z) : N * Z * Z * bool * Z :=
  let '(_, _, _, _, rc) := v in (sc, now, 0, false, (rc + 1) mod W32).

Lemma rviews_swapped sc now i l :
  map rview (upd_nth i (swapped_slot sc now) l) = upd_nth i (swapped_view sc now) (map rview l).
Proof. apply map_upd_nth. reflexivity. Qed.

Lemma Done_badop s j oc rk s1 o : Done s j oc rk = (s1, o, RBadOp) -> s1 = s /\ o = [].
Proof.
  rewrite Done_eq. destruct (nth_error (b_picks s) j) as [p|]; [|intros E; inv E; auto].
  destruct (pk_status p); [intros E; inv E; auto| |intros E; inv E; auto].
  destruct (detectUnresponsive _ p oc). intros E; inv E.
Qed.

Lemma ret_badop_dec (r : ret) : {r = RBadOp} + {r <> RBadOp}.
Proof. destruct r; (left; reflexivity) || (right; discriminate). Qed.

Lemma step_de_le raw s o order s1 outs rt n :
  Inv s -> 0 <= n -> de_le n s -> step raw s o order = (s1, outs, rt) -> de_le (n + 1) s1.
Proof.
  intros HI Hn Hd E. pose proof (step_grow7 _ _ _ _ _ _ _ HI E) as Hg.
  assert (K : grow7 s s1 -> de_le (n + 1) s1).
  { intros H. apply (de_le_mono n); [lia|]. eapply grow7_de_le; eauto. }
  assert (Hd1 : de_le (n + 1) s) by (apply (de_le_mono n); [lia|exact Hd]).
  destruct o as [addrs a| |sc st|pi m hc rk dl cc|j oc rk|dt|j|f|g|k]; try (apply K, Hg).
  - (* OpConnState *)
    cbn [step] in E. destruct (UpdateSubConnState s sc st order) as [s1' o1] eqn:E1. inv E.
    destruct (UpdateSubConnState_slots _ _ _ _ _ _ HI E1) as [(H1&_)|(i&ref&_&_&_&H1&_)]; unfold de_le; rewrite H1.
    + exact Hd1.
    + rewrite rviews_swapped. apply Forall_upd_nth; [exact Hd1|].
      intros [[[[c l] d] rf] rc] _. cbn [swapped_view de_of]. lia.
  - (* OpDone *)
    cbn [step] in E. destruct (ret_badop_dec rt) as [->|Hrt].
    + apply Done_badop in E. destruct E as [-> _]. exact Hd1.
    + destruct (Done_spec _ _ _ _ _ _ _ HI E Hrt) as (p & r & Hj & Hst & Hr & H1 & _). cbv zeta in H1.
      unfold de_le. rewrite H1. apply Forall_upd_nth; [exact Hd1|]. intros x _.
      rewrite de_of_rview. apply du_result_de; [exact Hn|]. cbn [sl_de sl_set_streams].
      eapply de_le_slot; eauto.
Qed.

Lemma full_step_de_le raw s o order s' outs rt ub n :
  Inv s -> 0 <= n -> de_le n s -> full_step raw s o order = (s', outs, rt, ub) -> de_le (n + 1) s'.
Proof.
  intros HI Hn Hd. rewrite full_step_eq.
  destruct (step raw s o order) as [[s1 outs1] r1] eqn:Es.
  destruct (resolve_blocked s1) as [s2 ub2] eqn:Er. intros E; inv E.
  destruct (step_Inv _ _ _ _ _ _ _ HI Es) as [HI1 _].
  destruct (resolve_blocked_spec _ _ _ HI1 Er) as [_ [Hm _]].
  unfold de_le. rewrite (rviews_mask_sp _ _ Hm). exact (step_de_le _ _ _ _ _ _ _ _ HI Hn Hd Es).
Qed.

(* along a run of at most 2^32 - 2 operations no deCalls counter can wrap *)
Definition de_ok (s : bal) : Prop := de_le (W32 - 2) s.

Lemma run_states_de_ok raw : forall ops s n,
  Inv s -> 0 <= n -> de_le n s -> n + Z.of_nat (length ops) <= W32 - 2 ->
  Forall de_ok (run_states raw s ops).
Proof.
  induction ops as [|[o order] r IH]; intros s n HI Hn Hd Hl; cbn [run_states].
  - constructor; [|constructor]. apply (de_le_mono n); [cbn [length] in Hl; lia|exact Hd].
  - constructor; [apply (de_le_mono n); [cbn [length] in Hl; lia|exact Hd]|].
    destruct (full_step raw s o order) as [[[s' outs] rt] ub] eqn:E.
    destruct (full_step_Inv _ _ _ _ _ _ _ _ HI E) as [HI' _].
    pose proof (full_step_de_le _ _ _ _ _ _ _ _ _ HI Hn Hd E) as Hd'.
    specialize (IH s' (n + 1) HI' ltac:(lia) Hd' ltac:(cbn [length] in Hl; lia)).
    destruct r as [|[o' order'] r']; exact IH.
Qed.

(* ================================================================ the clock, lastResp and refreshCnt *)
(* The clock starts at 0 and OpAdvance moves it forward only; lastResp is set to the
   clock (new channel, response, swap); refreshCnt is 0 or (refreshCnt + 1) mod 2^32. *)
Definition slot_clock (now : Z) (v : N * Z * Z * bool * Z) : Prop := 0 <= last_of v <= now /\ 0 <= rc_of v.

Definition clock_ok (s : bal) : Prop := 0 <= b_now s /\ Forall (slot_clock (b_now s)) (rviews s).

Lemma clock_ok_init : clock_ok init_bal.
Proof. split; [cbn; lia|constructor]. Qed.

Lemma clock_ok_slot s i r :
  clock_ok s -> get_slot s i = Some r -> 0 <= sl_last r <= b_now s /\ 0 <= sl_rcnt r.
Proof.
  intros [_ H] Hr. rewrite Forall_forall in H. apply (H (rview r)). apply in_map. eapply nth_error_In, Hr.
Qed.

Lemma slot_clock_mono n m v : n <= m -> slot_clock n v -> slot_clock m v.
Proof. unfold slot_clock. lia. Qed.

Lemma clock_ok_views s s' : rviews s' = rviews s -> b_now s' = b_now s -> clock_ok s -> clock_ok s'.
Proof. unfold clock_ok. intros -> ->. auto. Qed.

Lemma grow7_clock_ok s s' : grow7 s s' -> clock_ok s -> clock_ok s'.
Proof.
  intros [_ Hn [l [E Hl]]] [H0 H]. split; [lia|]. rewrite E. apply Forall_app. split.
  - eapply Forall_impl; [|exact H]. intros v. apply slot_clock_mono, Hn.
  - eapply Forall_impl; [|exact Hl]. cbn beta. unfold slot_clock. intros v Hv. lia.
Qed.

Lemma du_result_clock s p oc r :
  0 <= b_now s -> 0 <= sl_last r <= b_now s -> 0 <= sl_rcnt r ->
  slot_clock (b_now s) (rview (fst (du_result s p oc r))).
Proof.
  intros Hn Hl Hk. unfold slot_clock. rewrite last_of_rview, rc_of_rview. unfold du_result.
  destruct (negb (b_undet s)); [cbn [fst]; lia|].
  destruct (negb _); [cbn [fst resp_slot sl_last sl_rcnt]; lia|].
  destruct (_ <? _); [cbn [fst]; lia|]. cbv zeta.
  destruct (du_trigger s r); [|cbn [fst sl_last sl_rcnt sl_set_de]; lia].
  destruct (sl_refreshing r); [cbn [fst sl_last sl_rcnt sl_set_de]; lia|].
  destruct (cannot_create s); cbn [fst sl_last sl_rcnt sl_set_de sl_set_refreshing]; lia.
Qed.

Lemma step_clock_ok raw s o order s1 outs rt :
  Inv s -> clock_ok s -> step raw s o order = (s1, outs, rt) -> clock_ok s1.
Proof.
  intros HI Hc E. pose proof (step_grow7 _ _ _ _ _ _ _ HI E) as Hg.
  destruct o as [addrs a| |sc st|pi m hc rk dl cc|j oc rk|dt|j|f|g|k];
    try (eapply grow7_clock_ok; [apply Hg|exact Hc]).
  - (* OpConnState *)
    cbn [step] in E. destruct (UpdateSubConnState s sc st order) as [s1' o1] eqn:E1. inv E.
    destruct (UpdateSubConnState_Inv _ _ _ _ _ _ HI E1) as [_ HF]. pose proof (uf_now _ _ HF) as Hnow.
    destruct (UpdateSubConnState_slots _ _ _ _ _ _ HI E1) as [(H1&_)|(i&ref&_&_&_&H1&_)].
    + eapply clock_ok_views; [rewrite H1; reflexivity|exact Hnow|exact Hc].
    + destruct Hc as [H0 H]. unfold clock_ok. rewrite Hnow, H1, rviews_swapped. split; [exact H0|].
      apply Forall_upd_nth; [exact H|].
      intros [[[[c l] d] rf] rc] _. unfold slot_clock. cbn [swapped_view last_of rc_of].
      pose proof (Z.mod_pos_bound (rc + 1) W32 ltac:(unfold W32; lia)). lia.
  - (* OpDone *)
    cbn [step] in E. destruct (ret_badop_dec rt) as [->|Hrt].
    + apply Done_badop in E. destruct E as [-> _]. exact Hc.
    + pose proof (Done_views _ _ _ _ _ _ _ E) as [_ [Hv _]]. apply envview_inv in Hv.
      assert (Hnow : b_now s1 = b_now s) by tauto.
      destruct (Done_spec _ _ _ _ _ _ _ HI E Hrt) as (p & r & Hj & Hst & Hr & H1 & _). cbv zeta in H1.
      destruct (clock_ok_slot _ _ _ Hc Hr) as [Hl Hk].
      destruct Hc as [H0 H]. unfold clock_ok. rewrite Hnow, H1. split; [exact H0|].
      apply Forall_upd_nth; [exact H|]. intros x _.
      change (b_now s) with (b_now (done_s1 s j p)). apply du_result_clock; assumption.
Qed.

Lemma full_step_clock_ok raw s o order s' outs rt ub :
  Inv s -> clock_ok s -> full_step raw s o order = (s', outs, rt, ub) -> clock_ok s'.
Proof.
  intros HI Hc. rewrite full_step_eq.
  destruct (step raw s o order) as [[s1 outs1] r1] eqn:Es.
  destruct (resolve_blocked s1) as [s2 ub2] eqn:Er. intros E; inv E.
  destruct (step_Inv _ _ _ _ _ _ _ HI Es) as [HI1 _].
  destruct (resolve_blocked_spec _ _ _ HI1 Er) as [_ [Hm _]].
  pose proof (mask_sp_views _ _ Hm) as [_ Hv]. apply envview_inv in Hv.
  eapply clock_ok_views; [apply (rviews_mask_sp _ _ Hm)|tauto|].
  exact (step_clock_ok _ _ _ _ _ _ _ HI Hc Es).
Qed.

(* every state of every run (legal or not) *)
Lemma run_states_clock_ok raw : forall ops s,
  Inv s -> clock_ok s -> Forall clock_ok (run_states raw s ops).
Proof.
  induction ops as [|[o order] r IH]; intros s HI Hc; cbn [run_states].
  - constructor; [exact Hc|constructor].
  - constructor; [exact Hc|].
    destruct (full_step raw s o order) as [[[s' outs] rt] ub] eqn:E.
    destruct (full_step_Inv _ _ _ _ _ _ _ _ HI E) as [HI' _].
    pose proof (full_step_clock_ok _ _ _ _ _ _ _ _ HI Hc E) as Hc'.
    specialize (IH s' HI' Hc'). destruct r as [|[o' order'] r']; exact IH.
Qed.

(* ================================================================ the unblocking loop and the stream counts *)
Lemma count_placed_on_map f picks i :
  (forall p, In p picks -> placed_on i (f p) = placed_on i p) ->
  count_placed_on (map f picks) i = count_placed_on picks i.
Proof.
  intros H. unfold count_placed_on. f_equal.
  induction picks as [|p r IH]; cbn [map filter]; [reflexivity|].
  rewrite (H p (or_introl eq_refl)). destruct (placed_on i p); cbn [length]; rewrite IH; auto.
  - intros q Hq. apply H. right. exact Hq.
  - intros q Hq. apply H. right. exact Hq.
Qed.

Lemma In_unblocked_from s : forall ps n p,
  In p ps -> resolvable s p = true -> exists j, In (j, slot_conn_of s (pk_slot p)) (unblocked_from s n ps).
Proof.
  induction ps as [|q r IH]; intros n p; cbn [unblocked_from In]; [tauto|].
  intros [->|Hin] Hr.
  - rewrite Hr. exists n. apply in_app_iff. left. left. reflexivity.
  - destruct (IH (S n) p Hin Hr) as [j Hj]. exists j. apply in_app_iff. right. exact Hj.
Qed.

Lemma resolve_blocked_streams s s' l i r :
  Inv s -> resolve_blocked s = (s', l) -> get_slot s i = Some r ->
  (forall j, ~ In (j, sl_conn r) l) ->
  get_slot s' i = Some r.
Proof.
  intros HI E Hr Hno. destruct (resolve_blocked_spec _ _ _ HI E) as [HI' [Hm [Hp Hl]]].
  pose proof (mask_sp_get_slot s s' i Hm) as Hg. rewrite Hr in Hg.
  destruct (get_slot s' i) as [r'|] eqn:Hr'; [|discriminate]. cbn [option_map] in Hg.
  f_equal. assert (Hst : sl_streams r' = sl_streams r).
  { destruct HI as (_&_&_&_&_&HS). destruct HI' as (_&_&_&_&_&HS').
    assert (H1 : nth_error (streamsv s) i = Some (sl_streams r)) by (apply nth_error_map_Some; eauto).
    assert (H2 : nth_error (streamsv s') i = Some (sl_streams r')) by (apply nth_error_map_Some; eauto).
    rewrite (streams_ok HS _ _ H1), (streams_ok HS' _ _ H2), Hp. f_equal.
    apply count_placed_on_map. intros p Hin. unfold resolve_pick.
    destruct (resolvable s p) eqn:Ers; [|reflexivity].
    assert (Hb : placed_on i p = false).
    { unfold resolvable, is_blocked in Ers. unfold placed_on. destruct (pk_status p); try discriminate. reflexivity. }
    rewrite Hb. unfold placed_on, unblock_pick; sb.
    destruct (Nat.eqb_spec (pk_slot p) i) as [Heq|]; [|reflexivity]. exfalso.
    destruct (In_unblocked_from s (b_picks s) 0%nat p Hin Ers) as [j Hj].
    rewrite <- Hl in Hj. apply (Hno j). unfold slot_conn_of in Hj. rewrite Heq in Hj.
    unfold get_slot in Hr. unfold get_slot in Hj. rewrite Hr in Hj. exact Hj. }
  destruct r, r'; cbn in *. inv Hg. reflexivity.
Qed.

(* ---------------------------------------------------------------- with calls returning: the exact count *)
(* the entries of the unblocked list that were handed connection [c] *)
Definition handed (c : N) (l : list (nat * N)) : nat := length (filter (fun jn => N.eqb (snd jn) c) l).

Lemma slot_conn_of_iff s i r k :
  InvK s -> get_slot s i = Some r -> (k < length (b_slots s))%nat ->
  N.eqb (slot_conn_of s k) (sl_conn r) = Nat.eqb k i.
Proof.
  intros HK Hr Hk. destruct (nth_error_lt_Some _ _ Hk) as [rk Hrk]. unfold slot_conn_of, get_slot. rewrite Hrk.
  destruct (Nat.eqb_spec k i) as [->|Hne].
  - unfold get_slot in Hr. assert (rk = r) by congruence. subst. apply N.eqb_refl.
  - apply N.eqb_neq. intros E. apply Hne.
    apply (NoDup_nth_error_inj (conns s) k i (sl_conn r) (nd_conns HK)); apply nth_error_map_Some; eauto.
Qed.

Lemma filter_cons_length {A} (f : A -> bool) x l :
  length (filter f (x :: l)) = ((if f x then 1 else 0) + length (filter f l))%nat.
Proof. cbn [filter]. destruct (f x); reflexivity. Qed.

Lemma unblocked_count s i r : InvK s -> get_slot s i = Some r -> forall ps n,
  (forall p, In p ps -> (pk_slot p < length (b_slots s))%nat) ->
  (length (filter (placed_on i) (map (resolve_pick s) ps)) =
   length (filter (placed_on i) ps) + handed (sl_conn r) (unblocked_from s n ps))%nat.
Proof.
  intros HK Hr. unfold handed. induction ps as [|p ps IH]; intros n Hv; [reflexivity|].
  cbn [map unblocked_from]. rewrite filter_app, app_length, !filter_cons_length.
  rewrite (IH (S n)) by (intros q Hq; apply Hv; right; exact Hq).
  unfold resolve_pick at 1. destruct (resolvable s p) eqn:Ers.
  - assert (Hb : placed_on i p = false).
    { unfold resolvable, is_blocked in Ers. unfold placed_on. destruct (pk_status p); try discriminate. reflexivity. }
    rewrite Hb, filter_cons_length. cbn [snd filter length].
    rewrite (slot_conn_of_iff s i r (pk_slot p) HK Hr) by (apply Hv; left; reflexivity).
    unfold placed_on at 1, unblock_pick; sb.
    destruct (Nat.eqb (pk_slot p) i); lia.
  - cbn [filter length]. destruct (placed_on i p); lia.
Qed.

Lemma resolve_blocked_streams_count s s' l i r :
  Inv s -> picks_ok s -> resolve_blocked s = (s', l) -> get_slot s i = Some r ->
  get_slot s' i = Some (sl_set_streams r (sl_streams r + Z.of_nat (handed (sl_conn r) l))).
Proof.
  intros HI Hok E Hr. destruct (resolve_blocked_spec _ _ _ HI E) as [HI' [Hm [Hp Hl]]].
  pose proof (mask_sp_get_slot s s' i Hm) as Hg. rewrite Hr in Hg.
  destruct (get_slot s' i) as [r'|] eqn:Hr'; [|discriminate]. cbn [option_map] in Hg.
  f_equal. assert (Hst : sl_streams r' = sl_streams r + Z.of_nat (handed (sl_conn r) l)).
  { pose proof HI as (HK&_&_&_&_&HS). destruct HI' as (_&_&_&_&_&HS').
    assert (H1 : nth_error (streamsv s) i = Some (sl_streams r)) by (apply nth_error_map_Some; eauto).
    assert (H2 : nth_error (streamsv s') i = Some (sl_streams r')) by (apply nth_error_map_Some; eauto).
    rewrite (streams_ok HS _ _ H1), (streams_ok HS' _ _ H2), Hp, Hl.
    assert (Hv : forall p, In p (b_picks s) -> (pk_slot p < length (b_slots s))%nat).
    { intros p Hin. pose proof (picks_slot HS p Hin) as H. rewrite map_length in H. exact H. }
    pose proof (unblocked_count s i r HK Hr (b_picks s) 0%nat Hv) as Hc.
    pose proof (count_placed_on_le (b_picks s) i) as Hle1.
    pose proof (count_placed_on_le (map (resolve_pick s) (b_picks s)) i) as Hle2. rewrite map_length in Hle2.
    unfold picks_ok in Hok. unfold count_placed_on in *.
    rewrite !wrap32s_small by (unfold I32 in *; lia). lia. }
  destruct r, r'; cbn in *. inv Hg. reflexivity.
Qed.
